(* The density semantics of Sim/Measure.v tracks the ensemble semantics (removes one of the two hand-written
   reference semantics from the trusted base).  Built on the product-state lemmas of Sim/KronStateProofs.v:
   |psi><psi| over the doubled shape sh ++ sh is the product state  psi (x) conj psi,  so M on the row axes and
   conj M on the (shifted) column axes act on one factor each. *)
From Coq Require Import List Arith Ring Lia Bool Permutation.
From VF Require Import Base.RingOps Base.Mat Base.Tensor Base.TensorProofs Base.TabProofs
  Gates.Families Gates.ChannelProofs Sim.Ref Sim.Measure Sim.MeasureProofs Sim.KronState Sim.KronStateProofs Sim.DensLink.
Import ListNotations.

(* ---- tabulation is inverse to untab on lists of the right length ---- *)
Lemma dl_map_add_seq c : forall m s, map (fun k => c + k) (seq s m) = seq (c + s) m.
Proof.
  induction m as [|m IH]; intros s; cbn [seq map]; [reflexivity|].
  f_equal. rewrite IH. f_equal. lia.
Qed.

Lemma dl_seq_blocks m : forall d n, flat_map (fun x => seq (x * m) m) (seq n d) = seq (n * m) (d * m).
Proof.
  induction d as [|d IH]; intros n; cbn [seq flat_map]; [reflexivity|].
  rewrite IH. cbn [Nat.mul]. rewrite seq_app. f_equal. f_equal. lia.
Qed.

Lemma map_index_enum sh : map (index sh) (enum sh) = seq 0 (size sh).
Proof.
  induction sh as [|d sh IH]; [reflexivity|].
  cbn [enum]. rewrite kr_map_flat_map.
  rewrite (kr_flat_map_ext_in _ (fun x => seq (x * size sh) (size sh))).
  - rewrite dl_seq_blocks. reflexivity.
  - intros x _. rewrite map_map.
    rewrite (map_ext_in _ (fun i => x * size sh + index sh i)).
    + rewrite <- (map_map (index sh) (fun k => x * size sh + k)). rewrite IH.
      rewrite dl_map_add_seq. f_equal. lia.
    + intros i Hi. unfold index at 1. cbn [index_acc].
      rewrite index_acc_spec by (apply enum_elt_length; exact Hi). lia.
Qed.

Lemma dl_map_nth_seq {A} (dflt : A) : forall l, map (fun k => nth k l dflt) (seq 0 (length l)) = l.
Proof.
  induction l as [|x l IH]; [reflexivity|].
  cbn [length seq map nth]. f_equal. rewrite <- seq_shift, map_map. exact IH.
Qed.

Lemma dl_repeat_map {A B} (x : B) : forall (l : list A), repeat x (length l) = map (fun _ => x) l.
Proof. induction l as [|y l IH]; cbn [length repeat map]; [reflexivity|]. rewrite IH. reflexivity. Qed.

Lemma dl_flat_map_singleton {A B} (f : A -> B) (l : list A) : flat_map (fun v => [f v]) l = map f l.
Proof. induction l as [|x l IH]; cbn [flat_map map app]; [reflexivity|]. rewrite IH. reflexivity. Qed.

(* ---- permutations of nested flat_maps ---- *)
Lemma perm_flat_map_app {A B} (g h : A -> list B) l :
  Permutation (flat_map (fun x => g x ++ h x) l) (flat_map g l ++ flat_map h l).
Proof.
  induction l as [|x l IH]; cbn [flat_map]; [apply Permutation_refl|].
  rewrite <- !app_assoc. apply Permutation_app_head.
  eapply Permutation_trans; [apply Permutation_app_head; exact IH|].
  apply Permutation_app_swap_app.
Qed.

Lemma perm_flat_map_swap {A B C} (f : A -> B -> list C) la lb :
  Permutation (flat_map (fun a => flat_map (f a) lb) la) (flat_map (fun b => flat_map (fun a => f a b) la) lb).
Proof.
  induction la as [|a la IH]; cbn [flat_map].
  - induction lb as [|b lb IHb]; cbn [flat_map app]; [apply Permutation_refl | exact IHb].
  - eapply Permutation_trans; [apply Permutation_app_head; exact IH|].
    apply Permutation_sym. apply (perm_flat_map_app (f a) (fun b => flat_map (fun a0 => f a0 b) la) lb).
Qed.

Lemma perm_flat_map_map_swap {A B C} (f : A -> B -> C) la lb :
  Permutation (flat_map (fun a => map (fun b => f a b) lb) la) (flat_map (fun b => map (fun a => f a b) la) lb).
Proof.
  rewrite (flat_map_ext (fun a => map (fun b => f a b) lb) (fun a => flat_map (fun b => [f a b]) lb))
    by (intros a; symmetry; apply dl_flat_map_singleton).
  rewrite (flat_map_ext (fun b => map (fun a => f a b) la) (fun b => flat_map (fun a => [f a b]) la))
    by (intros b; symmetry; apply dl_flat_map_singleton).
  apply perm_flat_map_swap.
Qed.

Lemma perm_flat_map_ext {A B} (f g : A -> list B) l :
  (forall x, In x l -> Permutation (f x) (g x)) -> Permutation (flat_map f l) (flat_map g l).
Proof.
  induction l as [|x l IH]; intros H; cbn [flat_map]; [apply Permutation_refl|].
  apply Permutation_app; [apply H; left; reflexivity | apply IH; intros y Hy; apply H; right; exact Hy].
Qed.

Lemma Forall2_flat_map_in {A B C} (R : B -> C -> Prop) (f : A -> list B) (g : A -> list C) l :
  (forall x, In x l -> Forall2 R (f x) (g x)) -> Forall2 R (flat_map f l) (flat_map g l).
Proof.
  induction l as [|x l IH]; intros H; cbn [flat_map]; [constructor|].
  apply Forall2_app; [apply H; left; reflexivity | apply IH; intros y Hy; apply H; right; exact Hy].
Qed.
Lemma Forall2_map_in {A B C} (R : B -> C -> Prop) (f : A -> B) (g : A -> C) l :
  (forall x, In x l -> R (f x) (g x)) -> Forall2 R (map f l) (map g l).
Proof.
  induction l as [|x l IH]; intros H; cbn [map]; constructor;
    [apply H; left; reflexivity | apply IH; intros y Hy; apply H; right; exact Hy].
Qed.
Lemma concat_flat_map {A B} (f : A -> list (list B)) l : concat (flat_map f l) = flat_map (fun x => concat (f x)) l.
Proof. induction l as [|x l IH]; cbn [flat_map concat]; [reflexivity|]. rewrite concat_app, IH. reflexivity. Qed.

(* ---- in-shape indices stay in shape under the updates of a well-shaped operation ---- *)
Lemma upd_in_shape sh : forall i, Forall2 lt i sh -> forall a x, x < nth a sh 0 -> Forall2 lt (upd i a x) sh.
Proof.
  induction 1 as [|y d i sh Hy Hr IH]; intros a x Hx; [constructor|].
  destruct a as [|a]; cbn [upd nth] in *; constructor; try assumption. apply IH. exact Hx.
Qed.

Lemma upds_in_shape sh ax dims : axes_ok sh dims ax ->
  forall v i, Forall2 lt v dims -> Forall2 lt i sh -> Forall2 lt (upds i ax v) sh.
Proof.
  unfold axes_ok. induction 1 as [|a d ax dims [Ha Hd] Hr IH]; intros v i Hv Hi; [exact Hi|].
  inversion Hv as [|x d' v' dims' Hx Hv']; subst. cbn [upds]. apply IH; [exact Hv'|].
  apply upd_in_shape; [exact Hi | lia].
Qed.

Lemma axes_ok_lt sh dims ax : axes_ok sh dims ax -> forall a, In a ax -> a < length sh.
Proof.
  unfold axes_ok. induction 1 as [|a d ax dims [Ha Hd] Hr IH]; intros b Hb; [destruct Hb|].
  destruct Hb as [<-|Hb]; [exact Ha | apply IH; exact Hb].
Qed.

Lemma axes_ok_app_l sh sh2 dims ax : axes_ok sh dims ax -> axes_ok (sh ++ sh2) dims ax.
Proof.
  unfold axes_ok. induction 1 as [|a d ax dims [Ha Hd] Hr IH]; constructor; [|exact IH].
  rewrite app_length, app_nth1 by exact Ha. split; lia.
Qed.

Lemma axes_ok_app_r sh1 sh dims ax : axes_ok sh dims ax -> axes_ok (sh1 ++ sh) dims (shift_ax (length sh1) ax).
Proof.
  unfold axes_ok, shift_ax. induction 1 as [|a d ax dims [Ha Hd] Hr IH]; cbn [map]; constructor; [|exact IH].
  rewrite app_length, app_nth2 by lia. replace (a + length sh1 - length sh1) with a by lia. split; lia.
Qed.

Lemma axes_ok_of_sh sh ax : (forall a, In a ax -> a < length sh) -> axes_ok sh (map (fun a => nth a sh 2) ax) ax.
Proof.
  unfold axes_ok. induction ax as [|a ax IH]; intros H; cbn [map]; constructor.
  - assert (Ha : a < length sh) by (apply H; left; reflexivity).
    split; [exact Ha | rewrite (nth_indep sh 2 0 Ha); lia].
  - apply IH. intros b Hb. apply H. right. exact Hb.
Qed.

Section DensLinkProofs.
  Context {K : Type} (O : Ops K) (L : Laws O).
  Add Ring DensRing : (law_ring O L).
  Infix "+" := (kadd O). Infix "*" := (kmul O).
  Notation z0 := (k0 O).

  (* ---- tab / untab ---- *)
  Lemma tab_untab sh (l : list K) : length l = length (enum sh) -> tab sh (untab O sh l) = l.
  Proof.
    intros H. unfold tab, untab. rewrite <- (map_map (index sh) (fun k => nth k l z0)).
    rewrite map_index_enum, <- enum_length, <- H. apply dl_map_nth_seq.
  Qed.

  Lemma tab_ext sh (F G : tensor (K:=K)) : (forall i, Forall2 lt i sh -> F i = G i) -> tab sh F = tab sh G.
  Proof. intros H. unfold tab. apply map_ext_in. intros i Hi. apply H. apply enum_in. exact Hi. Qed.

  Lemma tab2_ext sh1 sh2 (F G : tensor (K:=K)) :
    (forall a b, Forall2 lt a sh1 -> Forall2 lt b sh2 -> F (a ++ b) = G (a ++ b)) -> tab (sh1 ++ sh2) F = tab (sh1 ++ sh2) G.
  Proof.
    intros H. unfold tab. rewrite enum_app, !kr_map_flat_map. apply kr_flat_map_ext_in. intros a Ha.
    rewrite !map_map. apply map_ext_in. intros b Hb. apply H; apply enum_in; assumption.
  Qed.

  Lemma vadd_tab sh (F G : tensor (K:=K)) : vadd O (tab sh F) (tab sh G) = tab sh (fun i => F i + G i).
  Proof.
    unfold vadd, tab. generalize (enum sh). intros l.
    induction l as [|i l IH]; cbn [map combine fst snd]; [reflexivity|]. rewrite IH. reflexivity.
  Qed.
  Lemma vscale_tab sh c (F : tensor (K:=K)) : vscale O c (tab sh F) = tab sh (fun i => c * F i).
  Proof. unfold vscale, tab. apply map_map. Qed.
  Lemma zeros_tab sh (F : tensor (K:=K)) : map (fun _ => z0) (tab sh F) = tab sh (fun _ => z0).
  Proof. unfold tab. apply map_map. Qed.

  (* executing on a tabulated function tensor is tabulating the function-level action *)
  Lemma apply_tab_tab (M : matrix (K:=K)) dims ax sh (F : tensor (K:=K)) : axes_ok sh dims ax ->
    apply_tab O M dims ax sh (tab sh F) = tab sh (apply O (mat_of O dims M) dims ax F).
  Proof.
    intros Hax. unfold apply_tab. apply tab_ext. intros i Hi. unfold apply. apply (ksum_ext O). intros v Hv.
    rewrite (untab_tab O); [reflexivity|].
    apply (upds_in_shape sh ax dims Hax); [apply enum_in; exact Hv | exact Hi].
  Qed.

  (* ---- conjugation ---- *)
  Lemma ksum_conj (l : list K) : kconj O (ksum O l) = ksum O (map (kconj O) l).
  Proof.
    induction l as [|x l IH]; cbn [map ksum fold_right].
    - apply (cj_0 O L).
    - rewrite (law_conj_add O L). f_equal. exact IH.
  Qed.

  Lemma mget_mconj (m : matrix (K:=K)) i j : mget O (mconj O m) i j = kconj O (mget O m i j).
  Proof.
    unfold mget, mconj.
    change (@nil K) with (map (kconj O) (@nil K)) at 1. rewrite map_nth.
    rewrite <- (cj_0 O L) at 1. apply map_nth.
  Qed.

  Lemma apply_tconj (m : matrix (K:=K)) dims ax (P : tensor (K:=K)) i :
    apply O (mat_of O dims (mconj O m)) dims ax (tconj O P) i = tconj O (apply O (mat_of O dims m) dims ax P) i.
  Proof.
    unfold tconj, apply. rewrite ksum_conj, map_map. apply (ksum_ext O). intros v _.
    unfold mat_of. rewrite mget_mconj, (law_conj_mul O L). reflexivity.
  Qed.

  (* ---- the dyad psi (x) conj psi ---- *)
  Lemma apply2_dyad (m : matrix (K:=K)) dims ax n (P : tensor (K:=K)) : (forall a, In a ax -> a < n) ->
    forall i, apply2 O m dims ax n (dyad O n P) i = dyad O n (apply O (mat_of O dims m) dims ax P) i.
  Proof.
    intros Hax i. unfold apply2, dyad.
    rewrite (apply_ext O _ _ _ _ (tprod O n (apply O (mat_of O dims m) dims ax P) (tconj O P)))
      by (intros j; apply (apply_tprod_first O L); exact Hax).
    rewrite (apply_tprod_second O L). unfold tprod. f_equal. apply apply_tconj.
  Qed.

  Lemma outer_tab sh (P : tensor (K:=K)) : concat (outer O (tab sh P)) = tab (sh ++ sh) (dyad O (length sh) P).
  Proof.
    unfold outer, tab. rewrite enum_app. rewrite <- flat_map_concat_map.
    rewrite kr_flat_map_map, kr_map_flat_map. apply kr_flat_map_ext_in. intros a Ha.
    rewrite !map_map. apply map_ext. intros b. unfold dyad, tprod, tconj.
    rewrite (firstn_app_exact (length sh) a b (enum_elt_length sh a Ha)).
    rewrite (skipn_app_exact (length sh) a b (enum_elt_length sh a Ha)). reflexivity.
  Qed.

  Lemma dyf_tab sh (X : tensor (K:=K)) a b : Forall2 lt a sh -> Forall2 lt b sh ->
    dyf O sh (tab sh X) (a ++ b) = dyad O (length sh) X (a ++ b).
  Proof.
    intros Ha Hb. unfold dyf, dyad, tprod, tconj.
    rewrite (firstn_app_exact (length sh) a b (Forall2_len _ _ _ Ha)).
    rewrite (skipn_app_exact (length sh) a b (Forall2_len _ _ _ Ha)).
    rewrite !(untab_tab O) by assumption. reflexivity.
  Qed.

  Lemma outer_dyf sh (psi : list K) : length psi = length (enum sh) ->
    concat (outer O psi) = tab (sh ++ sh) (dyf O sh psi).
  Proof. intros H. rewrite <- (tab_untab sh psi H) at 1. apply outer_tab. Qed.

  (* ---- dm_apply ---- *)
  Lemma dm_apply_tab (m : matrix (K:=K)) dims ax sh (F : tensor (K:=K)) : axes_ok sh dims ax ->
    dm_apply O m dims ax sh (tab (sh ++ sh) F) = tab (sh ++ sh) (apply2 O m dims ax (length sh) F).
  Proof.
    intros Hax. unfold dm_apply, apply2. cbv zeta.
    rewrite (apply_tab_tab m dims ax (sh ++ sh) F (axes_ok_app_l sh sh dims ax Hax)).
    apply (apply_tab_tab (mconj O m) dims (shift_ax (length sh) ax) (sh ++ sh) _ (axes_ok_app_r sh sh dims ax Hax)).
  Qed.

  (* KEY LEMMA: conjugating the outer product of psi by m is the outer product of m psi *)
  Theorem dm_apply_outer (m : matrix (K:=K)) dims ax sh (psi : list K) :
    length psi = length (enum sh) -> axes_ok sh dims ax ->
    dm_apply O m dims ax sh (concat (outer O psi)) = concat (outer O (apply_tab O m dims ax sh psi)).
  Proof.
    intros Hl Hax. rewrite (outer_dyf sh psi Hl), (dm_apply_tab m dims ax sh _ Hax).
    unfold apply_tab. rewrite outer_tab. unfold tab. apply map_ext. intros i. unfold dyf.
    apply apply2_dyad. exact (axes_ok_lt sh dims ax Hax).
  Qed.

  (* ---- dm_project ---- *)
  Lemma dm_project_tab sh ax v (F : tensor (K:=K)) :
    dm_project O sh ax v (tab (sh ++ sh) F)
    = tab (sh ++ sh) (tproject O (shift_ax (length sh) ax) v (tproject O ax v F)).
  Proof. unfold dm_project. cbv zeta. rewrite !(project_tab O). reflexivity. Qed.

  Lemma tproject_tconj ax v (P : tensor (K:=K)) j : tproject O ax v (tconj O P) j = tconj O (tproject O ax v P) j.
  Proof.
    unfold tproject, tconj. destruct (list_eqb_nat (gets j ax) v); [reflexivity|]. symmetry. apply (cj_0 O L).
  Qed.

  Lemma tproject2_dyad ax v n (P : tensor (K:=K)) : (forall a, In a ax -> a < n) ->
    forall i, tproject O (shift_ax n ax) v (tproject O ax v (dyad O n P)) i = dyad O n (tproject O ax v P) i.
  Proof.
    intros Hax i. unfold dyad.
    transitivity (tproject O (shift_ax n ax) v (tprod O n (tproject O ax v P) (tconj O P)) i).
    - unfold tproject at 1 3. rewrite (tproject_tprod_first O L ax v n P (tconj O P) Hax i). reflexivity.
    - rewrite (tproject_tprod_second O L). unfold tprod. f_equal. apply tproject_tconj.
  Qed.

  Lemma project_as_tab sh ax v (psi : list K) : length psi = length (enum sh) ->
    project O sh ax v psi = tab sh (tproject O ax v (untab O sh psi)).
  Proof. intros H. rewrite <- (project_tab O). rewrite (tab_untab sh psi H). reflexivity. Qed.

  Theorem dm_project_outer sh ax v (psi : list K) :
    length psi = length (enum sh) -> (forall a, In a ax -> a < length sh) ->
    dm_project O sh ax v (concat (outer O psi)) = concat (outer O (project O sh ax v psi)).
  Proof.
    intros Hl Hax. rewrite (outer_dyf sh psi Hl), dm_project_tab, (project_as_tab sh ax v psi Hl), outer_tab.
    unfold tab. apply map_ext. intros i. unfold dyf. apply tproject2_dyad. exact Hax.
  Qed.

  (* ---- dm_kraus ---- *)
  Lemma dm_kraus_tab (ks : list (matrix (K:=K))) dims ax sh (F : tensor (K:=K)) : axes_ok sh dims ax ->
    dm_kraus O ks dims ax sh (tab (sh ++ sh) F)
    = tab (sh ++ sh) (fun i => ksum O (map (fun k => apply2 O k dims ax (length sh) F i) ks)).
  Proof.
    intros Hax. unfold dm_kraus. induction ks as [|k ks IH]; cbn [fold_right map].
    - rewrite zeros_tab. reflexivity.
    - rewrite IH, (dm_apply_tab k dims ax sh F Hax), vadd_tab. reflexivity.
  Qed.

  Theorem dm_kraus_outer (ks : list (matrix (K:=K))) dims ax sh (psi : list K) :
    length psi = length (enum sh) -> axes_ok sh dims ax ->
    dm_kraus O ks dims ax sh (concat (outer O psi))
    = vsum O (map (fun _ => z0) (concat (outer O psi)))
             (map (fun k => concat (outer O (apply_tab O k dims ax sh psi))) ks).
  Proof.
    intros Hl Hax. unfold dm_kraus, vsum. induction ks as [|k ks IH]; cbn [fold_right map]; [reflexivity|].
    rewrite IH, (dm_apply_outer k dims ax sh psi Hl Hax). reflexivity.
  Qed.

  (* ---- ONE STEP, started from a pure branch: dstep gives exactly the lifted step results ---- *)
  Lemma circ_state_one sh (g : gop (K:=K)) (psi : list K) :
    circ_state O sh [g] psi = apply_tab O (gate_model O (fst g)) (gate_dims (fst g)) (snd g) sh psi.
  Proof. reflexivity. Qed.

  Theorem dstep_gate_pure sh (g : gop (K:=K)) (b : branch (K:=K)) :
    length (bpsi b) = length (enum sh) -> axes_ok sh (gate_dims (fst g)) (snd g) ->
    dstep O sh (MGate g) (lift_branch O b) = map (lift_branch O) (step O sh (MGate g) b).
  Proof.
    intros Hl Hax. cbn [dstep step map]. unfold lift_branch. cbn [dw drec drho bw brec bpsi].
    rewrite circ_state_one, (dm_apply_outer _ _ _ sh (bpsi b) Hl Hax). reflexivity.
  Qed.

  Theorem dstep_ctrl_pure sh conds (g : gop (K:=K)) (b : branch (K:=K)) :
    length (bpsi b) = length (enum sh) -> axes_ok sh (gate_dims (fst g)) (snd g) ->
    dstep O sh (MCtrl conds g) (lift_branch O b) = map (lift_branch O) (step O sh (MCtrl conds g) b).
  Proof.
    intros Hl Hax. cbn [dstep step]. unfold lift_branch at 1 2. cbn [dw drec drho].
    destruct (forallb _ conds); cbn [map]; [|reflexivity].
    unfold lift_branch. cbn [dw drec drho bw brec bpsi].
    rewrite circ_state_one, (dm_apply_outer _ _ _ sh (bpsi b) Hl Hax). reflexivity.
  Qed.

  Theorem dstep_measure_pure sh key ax inv cs (b : branch (K:=K)) :
    length (bpsi b) = length (enum sh) -> (forall a, In a ax -> a < length sh) ->
    dstep O sh (MMeasure key ax inv cs) (lift_branch O b) = map (lift_branch O) (step O sh (MMeasure key ax inv cs) b).
  Proof.
    intros Hl Hax. cbn [dstep step]. cbv zeta. rewrite kr_map_flat_map. apply kr_flat_map_ext_in. intros v _.
    rewrite map_map. apply map_ext. intros wd. unfold lift_branch. cbn [dw drec drho bw brec bpsi].
    rewrite (dm_project_outer sh ax v (bpsi b) Hl Hax). reflexivity.
  Qed.

  Theorem dstep_krauskeyed_pure sh key ks dims ax (b : branch (K:=K)) :
    length (bpsi b) = length (enum sh) -> axes_ok sh dims ax ->
    dstep O sh (MKrausKeyed key ks dims ax) (lift_branch O b)
    = map (lift_branch O) (step O sh (MKrausKeyed key ks dims ax) b).
  Proof.
    intros Hl Hax. cbn [dstep step]. rewrite map_map. apply map_ext. intros jk.
    unfold lift_branch. cbn [dw drec drho bw brec bpsi].
    rewrite (dm_apply_outer _ dims ax sh (bpsi b) Hl Hax). reflexivity.
  Qed.

  (* Kraus channels and resets: the single density branch is the SUM of the outer products of the ensemble branches *)
  Theorem dstep_kraus_pure sh ks dims ax (b : branch (K:=K)) :
    length (bpsi b) = length (enum sh) -> axes_ok sh dims ax ->
    dstep O sh (MKraus ks dims ax) (lift_branch O b)
    = [{| dw := bw b; drec := brec b;
          drho := vsum O (map (fun _ => z0) (concat (outer O (bpsi b))))
                         (map (fun b' => concat (outer O (bpsi b'))) (step O sh (MKraus ks dims ax) b)) |}].
  Proof.
    intros Hl Hax. cbn [dstep step]. unfold lift_branch. cbn [dw drec drho].
    rewrite (dm_kraus_outer ks dims ax sh (bpsi b) Hl Hax). rewrite map_map. reflexivity.
  Qed.

  Lemma step_reset_as_kraus sh a (b : branch (K:=K)) :
    step O sh (MReset a) b = step O sh (MKraus (reset_kraus O (nth a sh 2)) [nth a sh 2] [a]) b.
  Proof. cbn [step]. cbv zeta. unfold reset_kraus. rewrite map_map. reflexivity. Qed.
  Lemma dstep_reset_as_kraus sh a (d : dbranch (K:=K)) :
    dstep O sh (MReset a) d = dstep O sh (MKraus (reset_kraus O (nth a sh 2)) [nth a sh 2] [a]) d.
  Proof. reflexivity. Qed.
  Lemma axes_ok_reset sh a : a < length sh -> axes_ok sh [nth a sh 2] [a].
  Proof. intros H. apply (axes_ok_of_sh sh [a]). intros x [<-|[]]. exact H. Qed.

  Theorem dstep_reset_pure sh a (b : branch (K:=K)) :
    length (bpsi b) = length (enum sh) -> a < length sh ->
    dstep O sh (MReset a) (lift_branch O b)
    = [{| dw := bw b; drec := brec b;
          drho := vsum O (map (fun _ => z0) (concat (outer O (bpsi b))))
                         (map (fun b' => concat (outer O (bpsi b'))) (step O sh (MReset a) b)) |}].
  Proof.
    intros Hl Ha. rewrite dstep_reset_as_kraus, step_reset_as_kraus.
    apply dstep_kraus_pure; [exact Hl | apply axes_ok_reset; exact Ha].
  Qed.

  (* ---- linearity in sums of tensors ---- *)
  Lemma ksum_perm (l l' : list K) : Permutation l l' -> ksum O l = ksum O l'.
  Proof.
    induction 1 as [|x l l' _ IH|x y l|l l' l'' _ IH1 _ IH2]; cbn [ksum fold_right].
    - reflexivity.
    - f_equal. exact IH.
    - fold (ksum O l). ring.
    - congruence.
  Qed.

  Lemma apply_ksum {A} (U : mat (K:=K)) d ax (f : A -> tensor (K:=K)) l i :
    apply O U d ax (fun j => ksum O (map (fun x => f x j) l)) i = ksum O (map (fun x => apply O U d ax (f x) i) l).
  Proof.
    unfold apply.
    transitivity (ksum O (map (fun v => ksum O (map (fun x => U (gets i ax) v * f x (upds i ax v)) l)) (enum d))).
    - apply (ksum_ext O). intros v _. apply (ksum_mul_l O L).
    - exact (ksum_swap O L (fun v x => U (gets i ax) v * f x (upds i ax v)) (enum d) l).
  Qed.

  Lemma apply2_ksum {A} (m : matrix (K:=K)) d ax n (f : A -> tensor (K:=K)) l i :
    apply2 O m d ax n (fun j => ksum O (map (fun x => f x j) l)) i
    = ksum O (map (fun x => apply2 O m d ax n (f x) i) l).
  Proof.
    unfold apply2.
    rewrite (apply_ext O _ _ _ _ (fun j => ksum O (map (fun x => apply O (mat_of O d m) d ax (f x) j) l)))
      by (intros j; apply apply_ksum).
    apply (apply_ksum (mat_of O d (mconj O m)) d (shift_ax n ax) (fun x => apply O (mat_of O d m) d ax (f x))).
  Qed.

  Lemma tproject2_ksum {A} ax1 ax2 v (f : A -> tensor (K:=K)) l i :
    tproject O ax2 v (tproject O ax1 v (fun j => ksum O (map (fun x => f x j) l))) i
    = ksum O (map (fun x => tproject O ax2 v (tproject O ax1 v (f x)) i) l).
  Proof.
    unfold tproject.
    destruct (list_eqb_nat (gets i ax2) v); [destruct (list_eqb_nat (gets i ax1) v)|];
      try reflexivity; symmetry; apply (ksum_zero O L).
  Qed.

  (* ---- one step on a GROUP of ensemble branches sharing weight and records ---- *)
  Section Groups.
    Variable sh : list nat.
    Notation n := (length sh).

    Lemma grp_apply (m : matrix (K:=K)) dims ax w r (d : dbranch (K:=K)) g : axes_ok sh dims ax -> grp O sh d g ->
      grp O sh {| dw := w; drec := r; drho := dm_apply O m dims ax sh (drho d) |}
               (map (fun b => {| bw := w; brec := r; bpsi := apply_tab O m dims ax sh (bpsi b) |}) g).
    Proof.
      intros Hax [HF Hr]. split.
      - apply Forall_map. apply Forall_forall. intros b _. cbn [bw brec bpsi dw drec].
        repeat split. unfold apply_tab, tab. apply map_length.
      - cbn [drho]. rewrite Hr, (dm_apply_tab m dims ax sh _ Hax). apply tab2_ext. intros a b Ha Hb.
        unfold gsum. rewrite apply2_ksum, map_map. apply (ksum_ext O). intros br _. cbn [bpsi].
        unfold dyf at 1. rewrite (apply2_dyad m dims ax n _ (axes_ok_lt sh dims ax Hax)).
        unfold apply_tab. rewrite (dyf_tab sh _ a b Ha Hb). reflexivity.
    Qed.

    Lemma grp_project ax v w r (d : dbranch (K:=K)) g : (forall a, In a ax -> a < n) -> grp O sh d g ->
      grp O sh {| dw := w; drec := r; drho := dm_project O sh ax v (drho d) |}
               (map (fun b => {| bw := w; brec := r; bpsi := project O sh ax v (bpsi b) |}) g).
    Proof.
      intros Hax [HF Hr]. split.
      - apply Forall_map. rewrite Forall_forall in HF |- *. intros b Hb. cbn [bw brec bpsi dw drec].
        destruct (HF b Hb) as [_ [_ Hl]]. repeat split. rewrite (project_length O sh ax v (bpsi b) Hl). exact Hl.
      - cbn [drho]. rewrite Hr, dm_project_tab. apply tab2_ext. intros a b Ha Hb.
        unfold gsum. rewrite tproject2_ksum, map_map. apply (ksum_ext O). intros br Hbr. cbn [bpsi].
        rewrite Forall_forall in HF. destruct (HF br Hbr) as [_ [_ Hl]].
        unfold dyf at 1. rewrite (tproject2_dyad ax v n _ Hax).
        rewrite (project_as_tab sh ax v (bpsi br) Hl). rewrite (dyf_tab sh _ a b Ha Hb). reflexivity.
    Qed.

    Lemma grp_kraus (ks : list (matrix (K:=K))) dims ax (d : dbranch (K:=K)) g : axes_ok sh dims ax -> grp O sh d g ->
      grp O sh {| dw := dw d; drec := drec d; drho := dm_kraus O ks dims ax sh (drho d) |}
               (flat_map (fun b => map (fun k => {| bw := bw b; brec := brec b; bpsi := apply_tab O k dims ax sh (bpsi b) |}) ks) g).
    Proof.
      intros Hax [HF Hr]. split.
      - rewrite Forall_forall in HF |- *. intros b' Hb'. apply in_flat_map in Hb' as [b [Hb Hk]].
        apply in_map_iff in Hk as [k [<- _]]. cbn [bw brec bpsi dw drec].
        destruct (HF b Hb) as [Hw [Hrec _]]. repeat split; try assumption. unfold apply_tab, tab. apply map_length.
      - cbn [drho]. rewrite Hr, (dm_kraus_tab ks dims ax sh _ Hax). apply tab2_ext. intros a b Ha Hb.
        unfold gsum. rewrite (ksum_flat_map O L).
        transitivity (ksum O (map (fun k => ksum O (map (fun br =>
                        dyf O sh (apply_tab O k dims ax sh (bpsi br)) (a ++ b)) g)) ks)).
        + apply (ksum_ext O). intros k _. rewrite apply2_ksum. apply (ksum_ext O). intros br _.
          unfold dyf at 1. rewrite (apply2_dyad k dims ax n _ (axes_ok_lt sh dims ax Hax)).
          unfold apply_tab. rewrite (dyf_tab sh _ a b Ha Hb). reflexivity.
        + rewrite (ksum_swap O L). apply (ksum_ext O). intros br _. rewrite map_map. reflexivity.
    Qed.

    Lemma grp_same (d : dbranch (K:=K)) g w r rho : grp O sh d g -> dw d = w -> drec d = r -> drho d = rho ->
      grp O sh {| dw := w; drec := r; drho := rho |} g.
    Proof. intros H <- <- <-. destruct d. exact H. Qed.

    (* a group advances to a family of groups, one per density branch of the step *)
    Lemma step_group (o : mop (K:=K)) (d : dbranch (K:=K)) g : op_ok sh o -> grp O sh d g ->
      tracks O sh (dstep O sh o d) (flat_map (step O sh o) g).
    Proof.
      intros Hok Hg. assert (Hg' := Hg). destruct Hg' as [HF Hr]. rewrite Forall_forall in HF.
      destruct o as [g0|key ax inv cs|conds g0|ks dims ax|key ks dims ax|a]; cbn [op_ok] in Hok.
      - (* MGate *)
        exists [map (fun b => {| bw := dw d; brec := drec d;
                                 bpsi := apply_tab O (gate_model O (fst g0)) (gate_dims (fst g0)) (snd g0) sh (bpsi b) |}) g].
        split.
        + cbn [concat]. rewrite app_nil_r.
          rewrite (kr_flat_map_ext_in (step O sh (MGate g0))
                     (fun b => [{| bw := dw d; brec := drec d;
                                   bpsi := apply_tab O (gate_model O (fst g0)) (gate_dims (fst g0)) (snd g0) sh (bpsi b) |}]) g).
          * rewrite dl_flat_map_singleton. apply Permutation_refl.
          * intros b Hb. destruct (HF b Hb) as [Hw [Hrec _]]. cbn [step]. rewrite Hw, Hrec. reflexivity.
        + cbn [dstep]. constructor; [|constructor]. apply grp_apply; assumption.
      - (* MMeasure *)
        set (dims := map (fun a => nth a sh 2) ax).
        exists (flat_map (fun v => map (fun wd =>
                   map (fun b => {| bw := fst wd; brec := drec d ++ [(key, invert inv (snd wd), dims)];
                                    bpsi := project O sh ax v (bpsi b) |}) g)
                 (confuse O dims cs (dw d, v))) (enum dims)).
        split.
        + rewrite concat_flat_map.
          rewrite (kr_flat_map_ext_in (step O sh (MMeasure key ax inv cs))
                     (fun b => flat_map (fun v => map (fun wd =>
                                 {| bw := fst wd; brec := drec d ++ [(key, invert inv (snd wd), dims)];
                                    bpsi := project O sh ax v (bpsi b) |}) (confuse O dims cs (dw d, v))) (enum dims)) g).
          * eapply Permutation_trans; [|apply perm_flat_map_swap].
            apply perm_flat_map_ext. intros v _. rewrite <- flat_map_concat_map.
            apply (perm_flat_map_map_swap
                     (fun wd b => {| bw := fst wd; brec := drec d ++ [(key, invert inv (snd wd), dims)];
                                     bpsi := project O sh ax v (bpsi b) |})).
          * intros b Hb. destruct (HF b Hb) as [Hw [Hrec _]]. cbn [step]. cbv zeta. fold dims.
            rewrite Hw, Hrec. reflexivity.
        + cbn [dstep]. cbv zeta. fold dims. apply Forall2_flat_map_in. intros v _.
          apply Forall2_map_in. intros wd _. apply grp_project; assumption.
      - (* MCtrl *)
        cbn [dstep].
        rewrite (kr_flat_map_ext_in (step O sh (MCtrl conds g0))
                   (fun b => if forallb (fun c => match eval_cond c (drec d) with Some true => true | _ => false end) conds
                             then [{| bw := dw d; brec := drec d;
                                      bpsi := apply_tab O (gate_model O (fst g0)) (gate_dims (fst g0)) (snd g0) sh (bpsi b) |}]
                             else [b]) g).
        + destruct (forallb _ conds).
          * exists [map (fun b => {| bw := dw d; brec := drec d;
                                     bpsi := apply_tab O (gate_model O (fst g0)) (gate_dims (fst g0)) (snd g0) sh (bpsi b) |}) g].
            split.
            -- cbn [concat]. rewrite app_nil_r, dl_flat_map_singleton. apply Permutation_refl.
            -- constructor; [|constructor]. apply grp_apply; assumption.
          * exists [g]. split.
            -- cbn [concat]. rewrite app_nil_r. rewrite (dl_flat_map_singleton (fun b => b)), map_id. apply Permutation_refl.
            -- constructor; [exact Hg|constructor].
        + intros b Hb. destruct (HF b Hb) as [Hw [Hrec _]]. cbn [step]. rewrite Hrec, Hw. reflexivity.
      - (* MKraus *)
        exists [flat_map (step O sh (MKraus ks dims ax)) g]. split.
        + cbn [concat]. rewrite app_nil_r. apply Permutation_refl.
        + cbn [dstep]. constructor; [|constructor]. apply (grp_kraus ks dims ax d g Hok Hg).
      - (* MKrausKeyed *)
        exists (map (fun jk => map (fun b => {| bw := dw d; brec := drec d ++ [(key, [fst jk], [length ks])];
                                              bpsi := apply_tab O (snd jk) dims ax sh (bpsi b) |}) g)
                    (combine (seq 0 (length ks)) ks)).
        split.
        + rewrite <- flat_map_concat_map.
          rewrite (kr_flat_map_ext_in (step O sh (MKrausKeyed key ks dims ax))
                     (fun b => map (fun jk => {| bw := dw d; brec := drec d ++ [(key, [fst jk], [length ks])];
                                                 bpsi := apply_tab O (snd jk) dims ax sh (bpsi b) |})
                                   (combine (seq 0 (length ks)) ks)) g).
          * apply (perm_flat_map_map_swap
                     (fun jk b => {| bw := dw d; brec := drec d ++ [(key, [fst jk], [length ks])];
                                     bpsi := apply_tab O (snd jk) dims ax sh (bpsi b) |})).
          * intros b Hb. destruct (HF b Hb) as [Hw [Hrec _]]. cbn [step]. rewrite Hw, Hrec. reflexivity.
        + cbn [dstep]. apply Forall2_map_in. intros jk _. apply grp_apply; assumption.
      - (* MReset *)
        rewrite dstep_reset_as_kraus.
        rewrite (kr_flat_map_ext_in (step O sh (MReset a))
                   (step O sh (MKraus (reset_kraus O (nth a sh 2)) [nth a sh 2] [a])) g)
          by (intros b _; apply step_reset_as_kraus).
        exists [flat_map (step O sh (MKraus (reset_kraus O (nth a sh 2)) [nth a sh 2] [a])) g]. split.
        + cbn [concat]. rewrite app_nil_r. apply Permutation_refl.
        + cbn [dstep]. constructor; [|constructor].
          apply (grp_kraus _ [nth a sh 2] [a] d g (axes_ok_reset sh a Hok) Hg).
    Qed.

    Lemma tracks_step (o : mop (K:=K)) ds bs : op_ok sh o -> tracks O sh ds bs ->
      tracks O sh (flat_map (dstep O sh o) ds) (flat_map (step O sh o) bs).
    Proof.
      intros Hok [gs [Hp HF]].
      assert (H : exists gs', Permutation (concat gs') (flat_map (step O sh o) (concat gs))
                              /\ Forall2 (grp O sh) (flat_map (dstep O sh o) ds) gs').
      { clear Hp. induction HF as [|d g ds gs Hg _ IH].
        - exists []. split; [apply Permutation_refl | constructor].
        - destruct IH as [gs2 [Hp2 HF2]]. destruct (step_group o d g Hok Hg) as [gs1 [Hp1 HF1]].
          exists (gs1 ++ gs2). split.
          + cbn [concat]. rewrite concat_app, flat_map_app. apply Permutation_app; assumption.
          + cbn [flat_map]. apply Forall2_app; assumption. }
      destruct H as [gs' [Hp' HF']]. exists gs'. split; [|exact HF'].
      eapply Permutation_trans; [exact Hp'|]. apply Permutation_flat_map. exact Hp.
    Qed.

    Lemma tracks_fold (ops : list (mop (K:=K))) : Forall (op_ok sh) ops -> forall ds bs, tracks O sh ds bs ->
      tracks O sh (fold_left (fun bs o => flat_map (dstep O sh o) bs) ops ds)
                  (fold_left (fun bs o => flat_map (step O sh o) bs) ops bs).
    Proof.
      induction 1 as [|o ops Ho _ IH]; intros ds bs Ht; cbn [fold_left]; [exact Ht|].
      apply IH. apply tracks_step; assumption.
    Qed.

    (* MAIN (branch level): every density branch of dexec is, with the same weight and records, the sum of the
       outer products of its own group of ensemble branches of exec, and the groups exhaust exec *)
    Theorem dexec_tracks_exec (ops : list (mop (K:=K))) (init : list K) :
      Forall (op_ok sh) ops -> length init = length (enum sh) ->
      tracks O sh (dexec O sh ops init) (exec O sh ops init).
    Proof.
      intros Hops Hl. unfold dexec, exec. apply (tracks_fold ops Hops).
      exists [[{| bw := k1 O; brec := []; bpsi := init |}]]. split; [apply Permutation_refl|].
      constructor; [|constructor]. split.
      - constructor; [|constructor]. cbn [bw brec bpsi dw drec]. repeat split. exact Hl.
      - cbn [drho]. rewrite (outer_dyf sh init Hl). unfold tab. apply map_ext. intros i.
        unfold gsum. cbn [map bpsi ksum fold_right]. ring.
    Qed.

    (* ---- the averaged density matrix ---- *)
    Lemma dsum_groups ds gs : Forall2 (grp O sh) ds gs ->
      fold_right (fun b acc => vadd O (vscale O (dw b) (drho b)) acc) (tab (sh ++ sh) (fun _ => z0)) ds
      = tab (sh ++ sh) (esum O sh (concat gs)).
    Proof.
      induction 1 as [|d g ds gs [HF Hr] _ IH]; cbn [fold_right concat].
      - reflexivity.
      - rewrite IH, Hr, vscale_tab, vadd_tab. unfold tab. apply map_ext. intros i.
        unfold esum. rewrite map_app, (ksum_app O L). f_equal.
        unfold gsum. rewrite (ksum_mul_l O L). apply (ksum_ext O). intros b Hb.
        rewrite Forall_forall in HF. destruct (HF b Hb) as [-> _]. reflexivity.
    Qed.

    Lemma vadd_map {A} (f g : A -> K) l : vadd O (map f l) (map g l) = map (fun x => f x + g x) l.
    Proof. unfold vadd. induction l as [|x l IH]; cbn [map combine fst snd]; [reflexivity|]. rewrite IH. reflexivity. Qed.
    Lemma madd_map {A} (F G : A -> list K) l : madd O (map F l) (map G l) = map (fun a => vadd O (F a) (G a)) l.
    Proof. unfold madd. induction l as [|x l IH]; cbn [map combine fst snd]; [reflexivity|]. rewrite IH. reflexivity. Qed.

    Lemma concat_grid (h : list nat -> list nat -> K) :
      concat (map (fun a => map (fun b => h a b) (enum sh)) (enum sh))
      = tab (sh ++ sh) (fun i => h (firstn n i) (skipn n i)).
    Proof.
      unfold tab. rewrite enum_app, <- flat_map_concat_map, kr_map_flat_map.
      apply kr_flat_map_ext_in. intros a Ha. rewrite map_map. apply map_ext. intros b.
      rewrite (firstn_app_exact n a b (enum_elt_length sh a Ha)).
      rewrite (skipn_app_exact n a b (enum_elt_length sh a Ha)). reflexivity.
    Qed.

    Lemma ensemble_rho_grid bs : Forall (fun b => length (bpsi b) = length (enum sh)) bs ->
      ensemble_rho O (length (enum sh)) bs
      = map (fun a => map (fun c => ksum O (map (fun b => bw b * (untab O sh (bpsi b) a * kconj O (untab O sh (bpsi b) c))) bs))
                          (enum sh)) (enum sh).
    Proof.
      induction 1 as [|b bs Hl _ IH].
      - cbn [ensemble_rho fold_right map ksum]. unfold mzero. rewrite !dl_repeat_map. reflexivity.
      - unfold ensemble_rho in *. cbn [fold_right]. rewrite IH.
        set (P := untab O sh (bpsi b)).
        assert (E : outer O (bpsi b) = map (fun a => map (fun c => P a * kconj O (P c)) (enum sh)) (enum sh)).
        { rewrite <- (tab_untab sh (bpsi b) Hl). fold P. unfold outer, tab. rewrite map_map. apply map_ext. intros a.
          rewrite map_map. reflexivity. }
        rewrite E. unfold mscale, vscale. rewrite map_map, madd_map. apply map_ext. intros a.
        rewrite map_map, vadd_map. apply map_ext. intros c. reflexivity.
    Qed.

    Lemma ensemble_rho_tab bs : Forall (fun b => length (bpsi b) = length (enum sh)) bs ->
      concat (ensemble_rho O (length (enum sh)) bs) = tab (sh ++ sh) (esum O sh bs).
    Proof.
      intros H. rewrite (ensemble_rho_grid bs H).
      exact (concat_grid (fun a c => ksum O (map (fun b => bw b * (untab O sh (bpsi b) a * kconj O (untab O sh (bpsi b) c))) bs))).
    Qed.

    Lemma esum_perm bs bs' i : Permutation bs bs' -> esum O sh bs i = esum O sh bs' i.
    Proof. intros H. unfold esum. apply ksum_perm. apply Permutation_map. exact H. Qed.

    Lemma tracks_lengths ds bs : tracks O sh ds bs -> Forall (fun b => length (bpsi b) = length (enum sh)) bs.
    Proof.
      intros [gs [Hp HF]]. apply Forall_forall. intros b Hb.
      apply (Permutation_in _ (Permutation_sym Hp)) in Hb. clear Hp.
      induction HF as [|d g ds gs [Hg _] _ IH]; cbn [concat] in Hb; [destruct Hb|].
      apply in_app_or in Hb as [Hb|Hb]; [|apply IH; exact Hb].
      rewrite Forall_forall in Hg. destruct (Hg b Hb) as [_ [_ Hl]]. exact Hl.
    Qed.

    (* MAIN (averaged state): the density matrix computed by the density semantics is the density matrix of the
       ensemble computed by the branch semantics, for EVERY well-shaped operation list *)
    Theorem dexec_rho_ensemble (ops : list (mop (K:=K))) (init : list K) :
      Forall (op_ok sh) ops -> length init = size sh ->
      dexec_rho O sh ops init = concat (ensemble_rho O (size sh) (exec O sh ops init)).
    Proof.
      intros Hops Hl. rewrite <- enum_length in *.
      pose proof (dexec_tracks_exec ops init Hops Hl) as Ht.
      rewrite (ensemble_rho_tab _ (tracks_lengths _ _ Ht)).
      destruct Ht as [gs [Hp HF]]. unfold dexec_rho. cbv zeta.
      rewrite (outer_dyf sh init Hl), zeros_tab, (dsum_groups _ _ HF).
      unfold tab. apply map_ext. intros i. apply esum_perm. exact Hp.
    Qed.

    (* reading of `grp` on lists: the rho of a density branch is literally the sum of the outer products of its group *)
    Theorem grp_rho_sum_of_outers (d : dbranch (K:=K)) g : grp O sh d g ->
      drho d = vsum O (tab (sh ++ sh) (fun _ => z0)) (map (fun b => concat (outer O (bpsi b))) g).
    Proof.
      intros [HF Hr]. rewrite Hr. clear Hr. induction HF as [|b g [_ [_ Hl]] _ IH]; [reflexivity|].
      cbn [map vsum fold_right]. fold (vsum O (tab (sh ++ sh) (fun _ => z0)) (map (fun b => concat (outer O (bpsi b))) g)).
      rewrite <- IH, (outer_dyf sh (bpsi b) Hl), vadd_tab. reflexivity.
    Qed.
  End Groups.

  (* the key lemma with the dimensions read off the register shape, as dstep's MMeasure/MReset do *)
  Corollary dm_apply_outer_sh (m : matrix (K:=K)) ax sh (psi : list K) :
    length psi = size sh -> (forall a, In a ax -> a < length sh) ->
    dm_apply O m (map (fun a => nth a sh 2) ax) ax sh (concat (outer O psi))
    = concat (outer O (apply_tab O m (map (fun a => nth a sh 2) ax) ax sh psi)).
  Proof.
    intros Hl Hax. apply dm_apply_outer; [rewrite enum_length; exact Hl | apply axes_ok_of_sh; exact Hax].
  Qed.

  (* the hypotheses are satisfiable: a mixed-dimension register with every kind of operation *)
  Example op_ok_ex (m : matrix (K:=K)) (ks : list (matrix (K:=K))) (conds : list cond) :
    Forall (op_ok [2; 3; 2])
      [MGate (GMat [3; 2] m, [1; 2]); MMeasure 0 [0; 1] [] []; MCtrl conds (GMat [2] m, [0]);
       MKraus ks [3] [1]; MKrausKeyed 1 ks [2; 2] [2; 0]; MReset 1].
  Proof.
    repeat (apply Forall_cons); try apply Forall_nil; cbn [op_ok fst snd gate_dims]; unfold axes_ok;
      try (intros a [<-|[<-|[]]]); repeat constructor; cbn [length nth]; lia.
  Qed.

  Example dexec_rho_ensemble_ex (m : matrix (K:=K)) (ks : list (matrix (K:=K))) (conds : list cond) (init : list K) :
    length init = 12 ->
    let ops := [MGate (GMat [3; 2] m, [1; 2]); MMeasure 0 [0; 1] [] []; MCtrl conds (GMat [2] m, [0]);
                MKraus ks [3] [1]; MKrausKeyed 1 ks [2; 2] [2; 0]; MReset 1] in
    dexec_rho O [2; 3; 2] ops init = concat (ensemble_rho O 12 (exec O [2; 3; 2] ops init)).
  Proof. intros Hl ops. apply (dexec_rho_ensemble [2; 3; 2] ops init (op_ok_ex m ks conds) Hl). Qed.
End DensLinkProofs.
