(* Exchange of adjacent independent operations in the ensemble semantics of Sim/Measure.v (measurement, classical
   control, channels, reset): the dependency relation on model operations, the equivalence of ensembles up to
   the order of branches and the order of records of DIFFERENT keys, and the observables that the exchange
   preserves.  Definitions only; the theorems are in ExecCommProofs.v.

   This generalises Sim/TraceSem.v (unitary operation lists) to the full operation type `mop`: it is the semantic
   justification of the trace-equivalence validator for "move, never change" transformers. *)
From Coq Require Import List Arith Bool SetoidList SetoidPermutation.
From VF Require Import Base.RingOps Base.Mat Base.Tensor Base.Trace Gates.Families Sim.Ref Sim.Measure.
Import ListNotations.

(* the matrix dimensions `dims` of an operation on axes `ax` fit the register shape `sh`: every digit written by
   `upds _ ax v` (v in enum dims) on an axis that exists stays below the dimension of that axis.  Axes beyond the
   register and surplus entries of the longer list are ignored, exactly as `upds` ignores them. *)
Fixpoint fits (sh ax dims : list nat) : Prop :=
  match ax, dims with
  | a :: ax', d :: dims' => (a < length sh -> d <= nth a sh 0) /\ fits sh ax' dims'
  | _, _ => True
  end.

Definition cond_key (c : cond) : nat :=
  match c with CKey k _ _ => k | CMask k _ _ _ _ _ => k end.

(* records compared key by key: the relative order of records of different keys is not observable
   (eval_cond only reads key_records) *)
Definition rec_equiv (r r' : list recd) : Prop := forall k, key_records k r = key_records k r'.

Definition recd_eqb (e f : recd) : bool :=
  Nat.eqb (fst (fst e)) (fst (fst f)) && list_eqb_nat (snd (fst e)) (snd (fst f)) && list_eqb_nat (snd e) (snd f).
Fixpoint recl_eqb (a b : list recd) : bool :=
  match a, b with
  | [], [] => true
  | x :: a', y :: b' => recd_eqb x y && recl_eqb a' b'
  | _, _ => false
  end.
(* the records of the keys listed in kvs are exactly the listed ones *)
Definition keyrec_match (kvs : list (nat * list recd)) (r : list recd) : bool :=
  forallb (fun kv => recl_eqb (key_records (fst kv) r) (snd kv)) kvs.

Section ExecComm.
  Context {K : Type} (O : Ops K).

  (* ---- resources of an operation and the dependency relation ---- *)
  Definition mop_axes (o : mop (K:=K)) : list nat :=
    match o with
    | MGate g => snd g
    | MMeasure _ ax _ _ => ax
    | MCtrl _ g => snd g
    | MKraus _ _ ax => ax
    | MKrausKeyed _ _ _ ax => ax
    | MReset a => [a]
    end.
  Definition mop_writes (o : mop (K:=K)) : list nat :=          (* measurement keys written *)
    match o with
    | MMeasure key _ _ _ => [key]
    | MKrausKeyed key _ _ _ => [key]
    | _ => []
    end.
  Definition mop_reads (o : mop (K:=K)) : list nat :=           (* measurement keys read *)
    match o with
    | MCtrl conds _ => map cond_key conds
    | _ => []
    end.
  (* true = the two operations may NOT be exchanged: a common qubit axis, write/write, write/read or read/write
     on a key.  Two readers of a key are independent. *)
  Definition mop_dep (a b : mop (K:=K)) : bool :=
    shares (mop_axes a) (mop_axes b) || shares (mop_writes a) (mop_writes b)
    || shares (mop_writes a) (mop_reads b) || shares (mop_reads a) (mop_writes b).
  Definition mop_indep (a b : mop (K:=K)) : Prop := mop_dep a b = false.

  (* well-formedness of an operation on a register of shape sh: matrix dimensions fit the axes.
     Measurement and reset need nothing. *)
  Definition mop_wf (sh : list nat) (o : mop (K:=K)) : Prop :=
    match o with
    | MGate g => fits sh (snd g) (gate_dims (fst g))
    | MCtrl _ g => fits sh (snd g) (gate_dims (fst g))
    | MKraus _ dims ax => fits sh ax dims
    | MKrausKeyed _ _ dims ax => fits sh ax dims
    | MMeasure _ _ _ _ => True
    | MReset _ => True
    end.
  (* operations that neither branch nor record: exchanging one of them is exact on the branch lists *)
  Definition mop_det (o : mop (K:=K)) : bool :=
    match o with MGate _ => true | MCtrl _ _ => true | _ => false end.

  (* well-shaped branch: the state vector has one amplitude per multi-index of the shape *)
  Definition wsh (sh : list nat) (b : branch (K:=K)) : Prop := length (bpsi b) = length (enum sh).

  (* ---- equivalences ---- *)
  Definition branch_equiv (b b' : branch (K:=K)) : Prop :=
    bw b = bw b' /\ bpsi b = bpsi b' /\ rec_equiv (brec b) (brec b').
  (* ensembles: equal up to the order of the branches and branch_equiv *)
  Definition ens_equiv (l l' : list (branch (K:=K))) : Prop := PermutationA branch_equiv l l'.

  (* the ensemble semantics from an arbitrary ensemble (exec starts it from the single initial branch) *)
  Definition run_from (sh : list nat) (ops : list (mop (K:=K))) (bs : list (branch (K:=K))) : list branch :=
    fold_left (fun bs o => flat_map (step O sh o) bs) ops bs.

  (* ---- observables ---- *)
  (* the mass of the branches whose records satisfy a predicate *)
  Definition obs_mass (f : list recd -> bool) (bs : list (branch (K:=K))) : K :=
    ksum O (map (mass O) (filter (fun b => f (brec b)) bs)).
  (* joint distribution of the per-key records: mass of the branches where each listed key has the listed records *)
  Definition keyrec_mass (kvs : list (nat * list recd)) (bs : list (branch (K:=K))) : K :=
    obs_mass (keyrec_match kvs) bs.
  (* the weighted post-measurement states of those branches *)
  Definition keyrec_states (kvs : list (nat * list recd)) (bs : list (branch (K:=K))) : list (K * list K) :=
    map (fun b => (bw b, bpsi b)) (filter (fun b => keyrec_match kvs (brec b)) bs).

  (* ---- uniform presentation of `step` used by the proofs: every operation offers a list of actions
     (weight factor, records appended, state transformer) that depends on the records only through the keys read ---- *)
  Inductive sop :=
  | SId
  | SApply (M : matrix (K:=K)) (dims ax : list nat)
  | SProj (ax v : list nat).
  Definition run_sop (sh : list nat) (s : sop) (psi : list K) : list K :=
    match s with
    | SId => psi
    | SApply M dims ax => apply_tab O M dims ax sh psi
    | SProj ax v => project O sh ax v psi
    end.
  Definition sop_axes (s : sop) : list nat :=
    match s with SId => [] | SApply _ _ ax => ax | SProj ax _ => ax end.
  Definition sop_fits (sh : list nat) (s : sop) : Prop :=
    match s with SApply _ dims ax => fits sh ax dims | _ => True end.
  (* the same transformers on function tensors *)
  Definition tproj (ax v : list nat) (p : tensor (K:=K)) : tensor (K:=K) :=
    fun i => if list_eqb_nat (gets i ax) v then p i else k0 O.
  Definition tsop (s : sop) (p : tensor (K:=K)) : tensor (K:=K) :=
    match s with
    | SId => p
    | SApply M dims ax => apply O (mat_of O dims M) dims ax p
    | SProj ax v => tproj ax v p
    end.

  Record act := mkAct { a_c : K; a_r : list recd; a_t : sop }.
  Definition gate_sop (g : gop (K:=K)) : sop := SApply (gate_model O (fst g)) (gate_dims (fst g)) (snd g).
  Definition acts (sh : list nat) (o : mop (K:=K)) (r : list recd) : list act :=
    match o with
    | MGate g => [mkAct (k1 O) [] (gate_sop g)]
    | MMeasure key ax inv cs =>
        let dims := map (fun a => nth a sh 2) ax in
        flat_map (fun v => map (fun wd => mkAct (fst wd) [(key, invert inv (snd wd), dims)] (SProj ax v))
                               (confuse O dims cs (k1 O, v)))
                 (enum dims)
    | MCtrl conds g =>
        if forallb (fun c => match eval_cond c r with Some true => true | _ => false end) conds
        then [mkAct (k1 O) [] (gate_sop g)] else [mkAct (k1 O) [] SId]
    | MKraus ks dims ax => map (fun k => mkAct (k1 O) [] (SApply k dims ax)) ks
    | MKrausKeyed key ks dims ax =>
        map (fun jk => mkAct (k1 O) [(key, [fst jk], [length ks])] (SApply (snd jk) dims ax))
            (combine (seq 0 (length ks)) ks)
    | MReset a =>
        let d := nth a sh 2 in
        map (fun j => mkAct (k1 O) []
                        (SApply (map (fun r => map (fun c => if Nat.eqb r 0 && Nat.eqb c j then k1 O else k0 O) (seq 0 d)) (seq 0 d))
                                [d] [a]))
            (seq 0 d)
    end.
  Definition act_on (sh : list nat) (b : branch (K:=K)) (x : act) : branch :=
    {| bw := kmul O (bw b) (a_c x); brec := brec b ++ a_r x; bpsi := run_sop sh (a_t x) (bpsi b) |}.
  Definition scale_wd (s : K) (wd : K * list nat) : K * list nat := (kmul O s (fst wd), snd wd).

  (* ---- small circuits for the examples of ExecCommProofs.v ---- *)
  Definition ex_H : gate (K:=K) := GMat [2] [[ks2 O; ks2 O]; [ks2 O; kopp O (ks2 O)]].
  Definition ex_X : gate (K:=K) := GMat [2] [[k0 O; k1 O]; [k1 O; k0 O]].
  (* H on q0; measure q1 into key 0 -- and exchanged *)
  Definition ex1_ops : list (mop (K:=K)) := [MGate (ex_H, [0]); MMeasure 0 [1] [] []].
  Definition ex1_ops' : list (mop (K:=K)) := [MMeasure 0 [1] [] []; MGate (ex_H, [0])].
  Definition ex1_init : list K := [k1 O; k0 O; k0 O; k0 O].
  (* three qubits: H q0; H q1; measure q0 -> key 0; measure q1 -> key 1; X on q2 controlled by key 0
     -- and the reordering H q1; measure q1; H q0; measure q0; controlled X *)
  Definition ex2_cx : mop (K:=K) := MCtrl [CKey 0 None false] (ex_X, [2]).
  Definition ex2_ops : list (mop (K:=K)) :=
    [MGate (ex_H, [0]); MGate (ex_H, [1]); MMeasure 0 [0] [] []; MMeasure 1 [1] [] []; ex2_cx].
  Definition ex2_mid1 : list (mop (K:=K)) :=
    [MGate (ex_H, [1]); MGate (ex_H, [0]); MMeasure 0 [0] [] []; MMeasure 1 [1] [] []; ex2_cx].
  Definition ex2_mid2 : list (mop (K:=K)) :=
    [MGate (ex_H, [1]); MGate (ex_H, [0]); MMeasure 1 [1] [] []; MMeasure 0 [0] [] []; ex2_cx].
  Definition ex2_ops' : list (mop (K:=K)) :=
    [MGate (ex_H, [1]); MMeasure 1 [1] [] []; MGate (ex_H, [0]); MMeasure 0 [0] [] []; ex2_cx].
  Definition ex2_init : list K := [k1 O; k0 O; k0 O; k0 O; k0 O; k0 O; k0 O; k0 O].

  (* a denotation of validator records (Base/Trace.v `top`) as model operations, for the example of the
     validator-level theorem: exclusive resources [q; k] = measure qubit q into key k; [q] with a shared key k =
     X on q controlled by k; [q] alone = H on q.  Qubits and keys share one resource numbering here. *)
  Definition ex_den (o : top) : mop (K:=K) :=
    match t_wr o, t_rd o with
    | q :: k :: _, _ => MMeasure k [q] [] []
    | [q], k :: _ => MCtrl [CKey k None false] (ex_X, [q])
    | [q], [] => MGate (ex_H, [q])
    | [], _ => MGate (GGlobalPhase (k1 O), [])
    end.
  Definition ex_w : list top := [mkTop 0 [0] []; mkTop 1 [1; 10] []; mkTop 2 [0; 11] []; mkTop 3 [1] [11]].
  Definition ex_w' : list top := [mkTop 1 [1; 10] []; mkTop 0 [0] []; mkTop 2 [0; 11] []; mkTop 3 [1] [11]].
End ExecComm.
