(* Controlled application = application of the block matrix (justifies `ControlledGate._apply_unitary_`, model in
   Sim/CtrlApply.v).  Generic in the ring, any number of controls and targets, any qudit dimensions, any
   sum-of-products control-value list.
     A1  apply_cmat          apply (cmat ..) (cdims ++ dims) (cax ++ ax) psi i = capply .. psi i
         mat_of_ctrl_matrix  the list matrix `ctrl_matrix` of Gates/Families.v (the gate model of GCtrl) IS cmat
         apply_ctrl_matrix   hence: applying the GCtrl gate model = capply of the sub-gate's model
     A2  capply_compose / capply_mcomp / cmat_mcomp   control of a product = product of controls
         capply_nil          no allowed control tuple: identity
         capply_commute_apply   commutes with an operation on axes disjoint from cax ++ ax
         step_ctrl_gate      the ensemble semantics' step for MGate (GCtrl ..) computes tab of capply
         capply_loop_eq      the per-control-tuple loop Cirq runs = capply, for distinct tuples
                             (capply_loop_dup_refuted: not for repeated tuples; Cirq deduplicates them)
         apply_cmat_needs_shape_refuted   the in-shape hypothesis on the control digits is needed
     A3  examples (qutrit control with value set {1,2}; CNOT = capply of X, generic and exactly in K8). *)
From Coq Require Import List Arith Ring Lia Bool.
From VF Require Import Base.RingOps Base.K8 Base.Harness Base.Mat Base.Tensor Base.TensorProofs Base.TabProofs
  Gates.Families Sim.Ref Sim.Measure Sim.MeasureProofs Sim.KronState Sim.KronStateProofs
  Sim.ExecComm Sim.ExecCommProofs Sim.CtrlApply.
Import ListNotations.

(* ---------- positional facts ---------- *)
Lemma gets_app i a b : gets i (a ++ b) = gets i a ++ gets i b.
Proof. unfold gets. apply map_app. Qed.

Lemma gets_length i ax : length (gets i ax) = length ax.
Proof. unfold gets. apply map_length. Qed.

Lemma upds_app a1 : forall i v1 a2 v2, length v1 = length a1 ->
  upds i (a1 ++ a2) (v1 ++ v2) = upds (upds i a1 v1) a2 v2.
Proof.
  induction a1 as [|a a1 IH]; intros i [|x v1] a2 v2 Hl; cbn in Hl; try discriminate.
  - reflexivity.
  - cbn [app upds]. apply IH. lia.
Qed.

Lemma upd_get_self : forall i a, upd i a (get i a) = i.
Proof.
  unfold get. induction i as [|x r IH]; intros a; [destruct a; reflexivity|].
  destruct a as [|a]; cbn [upd nth]; [reflexivity|]. f_equal. apply IH.
Qed.

Lemma upds_gets_self ax : forall i, upds i ax (gets i ax) = i.
Proof.
  induction ax as [|a ax IH]; intros i; [reflexivity|].
  cbn [gets map upds]. rewrite upd_get_self. apply IH.
Qed.

Lemma upd_upd_same : forall i a x y, upd (upd i a x) a y = upd i a y.
Proof.
  induction i as [|z r IH]; intros a x y; [reflexivity|].
  destruct a as [|a]; cbn [upd]; [reflexivity|]. f_equal. apply IH.
Qed.

Lemma upd_length : forall i a x, length (upd i a x) = length i.
Proof.
  induction i as [|z r IH]; intros a x; [reflexivity|].
  destruct a as [|a]; cbn [upd length]; [reflexivity|]. f_equal. apply IH.
Qed.

Lemma upds_length ax : forall i v, length (upds i ax v) = length i.
Proof.
  induction ax as [|a ax IH]; intros i v; [reflexivity|].
  destruct v as [|x v]; [reflexivity|]. cbn [upds]. rewrite IH. apply upd_length.
Qed.

(* writing the same axes twice: the second write wins *)
Lemma upds_upds_same ax : NoDup ax -> forall i v w, length v = length w ->
  upds (upds i ax v) ax w = upds i ax w.
Proof.
  induction 1 as [|a ax Hn _ IH]; intros i v w Hl; [reflexivity|].
  destruct v as [|x v]; destruct w as [|y w]; cbn in Hl; try discriminate; [reflexivity|].
  cbn [upds]. rewrite <- (upds_upd_comm ax _ v a y Hn). rewrite upd_upd_same. apply IH. lia.
Qed.

(* reading back what was written *)
Lemma gets_upds_same ax : NoDup ax -> forall i v, (forall a, In a ax -> a < length i) -> length v = length ax ->
  gets (upds i ax v) ax = v.
Proof.
  induction 1 as [|a ax Hn _ IH]; intros i v Hr Hl.
  - destruct v; [reflexivity|discriminate].
  - destruct v as [|x v]; cbn in Hl; [discriminate|].
    cbn [upds gets map]. f_equal.
    + rewrite (upds_upd_comm ax i v a x Hn). apply get_upd_same. rewrite upds_length. apply Hr. left. reflexivity.
    + apply IH; [|lia]. intros b Hb. rewrite upd_length. apply Hr. right. exact Hb.
Qed.

Lemma cactive_nil c : cactive [] c = false.
Proof. reflexivity. Qed.
Lemma cactive_cons cv rest c : cactive (cv :: rest) c = list_eqb_nat cv c || cactive rest c.
Proof. reflexivity. Qed.

Section CtrlProofs.
  Context {K : Type} (O : Ops K) (L : Laws O).
  Add Ring CtrlRing : (law_ring O L).
  Infix "+" := (kadd O). Infix "*" := (kmul O).
  Notation z0 := (k0 O).

  (* ---------- sums ---------- *)
  Lemma ksum_enum_pick (F : list nat -> K) dims x : Forall2 lt x dims ->
    ksum O (map (fun v => if list_eqb_nat x v then F v else z0) (enum dims)) = F x.
  Proof.
    intros Hx. rewrite <- (ksum_enum_indicator O L (F x) dims x Hx).
    apply (ksum_ext O). intros v _. destruct (list_eqb_nat x v) eqn:E; [|reflexivity].
    apply list_eqb_nat_spec in E. subst v. reflexivity.
  Qed.

  Lemma ksum_delta_l (f : list nat -> K) dims x : Forall2 lt x dims ->
    ksum O (map (fun b => delta O x b * f b) (enum dims)) = f x.
  Proof.
    intros Hx. rewrite <- (ksum_enum_pick f dims x Hx).
    apply (ksum_ext O). intros b _. unfold delta. destruct (list_eqb_nat x b); ring.
  Qed.

  Lemma ksum_all_zero {A} (f : A -> K) l : (forall x, In x l -> f x = z0) -> ksum O (map f l) = z0.
  Proof. intros H. rewrite (ksum_ext O f (fun _ => z0) l H). apply (ksum_zero O L). Qed.

  (* the block matrix on split rows and columns *)
  Lemma cmat_app n cvals (U : mat (K:=K)) rc rt cc ct : length rc = n -> length cc = n ->
    cmat O n cvals U (rc ++ rt) (cc ++ ct)
    = if list_eqb_nat rc cc then (if cactive cvals rc then U rt ct else delta O rt ct) else z0.
  Proof.
    intros Hr Hc. unfold cmat.
    rewrite (firstn_app_exact n rc rt Hr), (firstn_app_exact n cc ct Hc).
    rewrite (skipn_app_exact n rc rt Hr), (skipn_app_exact n cc ct Hc). reflexivity.
  Qed.

  (* ---------- A1: the slice procedure is the block matrix ---------- *)
  Theorem apply_cmat (U : mat (K:=K)) dims ax cdims cax cvals (psi : tensor (K:=K)) i :
    Forall2 lt (gets i cax) cdims ->
    (cactive cvals (gets i cax) = false -> Forall2 lt (gets i ax) dims) ->
    apply O (cmat O (length cax) cvals U) (cdims ++ dims) (cax ++ ax) psi i = capply O U dims ax cax cvals psi i.
  Proof.
    intros Hc Ht.
    assert (Hlen : length cdims = length cax).
    { rewrite <- (Forall2_len _ _ _ Hc). apply gets_length. }
    unfold apply. rewrite enum_app, (ksum_flat_map O L).
    rewrite <- (ksum_enum_pick (fun _ => capply O U dims ax cax cvals psi i) cdims (gets i cax) Hc).
    apply (ksum_ext O). intros a Ha. rewrite map_map.
    assert (Hla : length a = length cax) by (rewrite (enum_elt_length cdims a Ha); exact Hlen).
    destruct (list_eqb_nat (gets i cax) a) eqn:E.
    - apply list_eqb_nat_spec in E. subst a.
      transitivity (ksum O (map (fun b => (if cactive cvals (gets i cax) then U (gets i ax) b else delta O (gets i ax) b)
                                          * psi (upds i ax b)) (enum dims))).
      + apply (ksum_ext O). intros b _. rewrite gets_app.
        rewrite (cmat_app (length cax) cvals U _ _ _ _ (gets_length i cax) Hla).
        rewrite list_eqb_nat_refl. rewrite (upds_app cax i (gets i cax) ax b Hla). rewrite upds_gets_self. reflexivity.
      + unfold capply. destruct (cactive cvals (gets i cax)) eqn:Ea.
        * reflexivity.
        * rewrite (ksum_delta_l (fun b => psi (upds i ax b)) dims (gets i ax) (Ht eq_refl)).
          rewrite upds_gets_self. reflexivity.
    - apply ksum_all_zero. intros b _. rewrite gets_app.
      rewrite (cmat_app (length cax) cvals U _ _ _ _ (gets_length i cax) Hla). rewrite E. ring.
  Qed.

  (* ---------- A2: algebra of capply ---------- *)
  (* no allowed control tuple: nothing happens *)
  Theorem capply_nil (U : mat (K:=K)) dims ax cax (psi : tensor (K:=K)) i : capply O U dims ax cax [] psi i = psi i.
  Proof. reflexivity. Qed.

  Lemma capply_ext (U : mat (K:=K)) dims ax cax cvals (p q : tensor (K:=K)) :
    (forall i, p i = q i) -> forall i, capply O U dims ax cax cvals p i = capply O U dims ax cax cvals q i.
  Proof.
    intros H i. unfold capply. rewrite (apply_ext O U dims ax p q H i), (H i). reflexivity.
  Qed.

  (* control of a composition: on the active slice the two sub-operations are composed, elsewhere nothing happens.
     The second operation may act on other target axes ax'; only ax must avoid the controls. *)
  Theorem capply_compose (U V : mat (K:=K)) d ax d' ax' cax cvals (psi : tensor (K:=K)) i :
    (forall x, In x ax -> ~ In x cax) ->
    capply O U d ax cax cvals (capply O V d' ax' cax cvals psi) i
    = if cactive cvals (gets i cax) then apply O U d ax (apply O V d' ax' psi) i else psi i.
  Proof.
    intros Hd. unfold capply at 1. destruct (cactive cvals (gets i cax)) eqn:Ea.
    - unfold apply at 1. unfold apply at 2. apply (ksum_ext O). intros b _. f_equal.
      unfold capply. rewrite (gets_upds_other ax i b cax Hd). rewrite Ea. reflexivity.
    - unfold capply. rewrite Ea. reflexivity.
  Qed.

  (* the product of matrix-functions acts as the composition (same axes) *)
  Theorem apply_mcomp (U V : mat (K:=K)) dims ax (psi : tensor (K:=K)) i :
    NoDup ax -> (forall a, In a ax -> a < length i) -> length ax = length dims ->
    apply O (mcomp O dims U V) dims ax psi i = apply O U dims ax (apply O V dims ax psi) i.
  Proof.
    intros Hn Hr Hl. unfold apply at 2.
    transitivity (ksum O (map (fun b => ksum O (map (fun c => U (gets i ax) b * (V b c * psi (upds i ax c))) (enum dims))) (enum dims))).
    - unfold apply, mcomp. rewrite (ksum_swap O L). apply (ksum_ext O). intros c _.
      rewrite (ksum_mul_r O L). apply (ksum_ext O). intros b _. ring.
    - apply (ksum_ext O). intros b Hb. unfold apply. rewrite (ksum_mul_l O L). apply (ksum_ext O). intros c Hc.
      assert (Hlb : length b = length ax) by (rewrite (enum_elt_length dims b Hb); symmetry; exact Hl).
      rewrite (gets_upds_same ax Hn i b Hr Hlb).
      rewrite (upds_upds_same ax Hn i b c)
        by (rewrite (enum_elt_length dims b Hb), (enum_elt_length dims c Hc); reflexivity).
      reflexivity.
  Qed.

  (* control of a product is the product of controls, on states *)
  Theorem capply_mcomp (U V : mat (K:=K)) dims ax cax cvals (psi : tensor (K:=K)) i :
    (forall x, In x ax -> ~ In x cax) -> NoDup ax -> (forall a, In a ax -> a < length i) -> length ax = length dims ->
    capply O (mcomp O dims U V) dims ax cax cvals psi i
    = capply O U dims ax cax cvals (capply O V dims ax cax cvals psi) i.
  Proof.
    intros Hd Hn Hr Hl. rewrite (capply_compose U V dims ax dims ax cax cvals psi i Hd).
    unfold capply. destruct (cactive cvals (gets i cax)); [|reflexivity].
    apply apply_mcomp; assumption.
  Qed.

  (* ... and on the block matrices themselves (generalises ctrl_mmul_1_1 / ctrl_mmul_q3 of Gates/AlgebraProofs.v
     to any number and dimension of controls and targets) *)
  Theorem cmat_mcomp (U V : mat (K:=K)) cdims dims cvals r c :
    Forall2 lt (firstn (length cdims) r) cdims ->
    (cactive cvals (firstn (length cdims) r) = false -> Forall2 lt (skipn (length cdims) r) dims) ->
    cmat O (length cdims) cvals (mcomp O dims U V) r c
    = mcomp O (cdims ++ dims) (cmat O (length cdims) cvals U) (cmat O (length cdims) cvals V) r c.
  Proof.
    intros Hc Ht. set (n := length cdims) in *.
    assert (Hlr : length (firstn n r) = n) by (rewrite (Forall2_len _ _ _ Hc); reflexivity).
    unfold mcomp at 2. rewrite enum_app, (ksum_flat_map O L).
    transitivity (ksum O (map (fun a => if list_eqb_nat (firstn n r) a
                                        then cmat O n cvals (mcomp O dims U V) r c else z0) (enum cdims))).
    { symmetry. apply (ksum_enum_pick (fun _ => cmat O n cvals (mcomp O dims U V) r c) cdims _ Hc). }
    apply (ksum_ext O). intros a Ha. rewrite map_map.
    assert (Hla : length a = n) by (apply (enum_elt_length cdims a Ha)).
    transitivity (ksum O (map (fun b =>
        (if list_eqb_nat (firstn n r) a
         then (if cactive cvals (firstn n r) then U (skipn n r) b else delta O (skipn n r) b) else z0)
        * (if list_eqb_nat a (firstn n c)
           then (if cactive cvals a then V b (skipn n c) else delta O b (skipn n c)) else z0)) (enum dims))).
    2: { apply (ksum_ext O). intros b _. unfold cmat.
         rewrite (firstn_app_exact n a b Hla), (skipn_app_exact n a b Hla). reflexivity. }
    destruct (list_eqb_nat (firstn n r) a) eqn:E.
    - apply list_eqb_nat_spec in E. subst a. unfold cmat.
      destruct (list_eqb_nat (firstn n r) (firstn n c)) eqn:E2.
      + destruct (cactive cvals (firstn n r)) eqn:Ea; [reflexivity|].
        rewrite (ksum_delta_l (fun b => delta O b (skipn n c)) dims _ (Ht eq_refl)). reflexivity.
      + symmetry. apply ksum_all_zero. intros b _. ring.
    - symmetry. apply ksum_all_zero. intros b _. ring.
  Qed.

  (* a controlled operation commutes with any operation on axes disjoint from its controls and targets *)
  Theorem capply_commute_apply (U V : mat (K:=K)) dims ax cax cvals d2 a2 (psi : tensor (K:=K)) i :
    (forall x, In x a2 -> ~ In x (cax ++ ax)) ->
    capply O U dims ax cax cvals (apply O V d2 a2 psi) i = apply O V d2 a2 (capply O U dims ax cax cvals psi) i.
  Proof.
    intros Hd.
    assert (Hdc : forall x, In x a2 -> ~ In x cax) by (intros x Hx Hc; apply (Hd x Hx); apply in_or_app; left; exact Hc).
    assert (Hda : forall x, In x ax -> ~ In x a2) by (intros x Hx H2; apply (Hd x H2); apply in_or_app; right; exact Hx).
    unfold capply at 1. destruct (cactive cvals (gets i cax)) eqn:Ea.
    - rewrite (apply_commute_disjoint O L U V dims d2 ax a2 psi Hda i).
      unfold apply at 1 3. apply (ksum_ext O). intros w _. f_equal.
      unfold capply. rewrite (gets_upds_other a2 i w cax Hdc), Ea. reflexivity.
    - unfold apply. apply (ksum_ext O). intros w _. f_equal.
      unfold capply. rewrite (gets_upds_other a2 i w cax Hdc), Ea. reflexivity.
  Qed.

  Lemma capply_unfold (U : mat (K:=K)) d a c v (p : tensor (K:=K)) i :
    capply O U d a c v p i = if cactive v (gets i c) then apply O U d a p i else p i.
  Proof. reflexivity. Qed.

  (* the per-tuple loop Cirq runs is the one-pass slice procedure, provided the tuples are distinct *)
  Theorem capply_loop_eq (U : mat (K:=K)) dims ax cax cvals : NoDup cvals -> (forall x, In x ax -> ~ In x cax) ->
    forall (psi : tensor (K:=K)) i, capply_loop O U dims ax cax cvals psi i = capply O U dims ax cax cvals psi i.
  Proof.
    intros Hn Hd. induction Hn as [|cv rest Hcv _ IH]; intros psi i; [reflexivity|].
    unfold capply_loop. cbn [fold_left]. fold (capply_loop O U dims ax cax rest (capply O U dims ax cax [cv] psi)).
    rewrite IH.
    rewrite (capply_unfold U dims ax cax rest (capply O U dims ax cax [cv] psi) i).
    rewrite (capply_unfold U dims ax cax (cv :: rest) psi i), cactive_cons.
    destruct (cactive rest (gets i cax)) eqn:Er.
    - rewrite orb_true_r. unfold apply. apply (ksum_ext O). intros b _. f_equal.
      rewrite capply_unfold, (gets_upds_other ax i b cax Hd), cactive_cons, cactive_nil, orb_false_r.
      destruct (list_eqb_nat cv (gets i cax)) eqn:Ec; [|reflexivity].
      exfalso. apply list_eqb_nat_spec in Ec. subst cv. apply Hcv.
      unfold cactive in Er. apply existsb_exists in Er as [v [Hv Ev]]. apply list_eqb_nat_spec in Ev. subst v. exact Hv.
    - rewrite orb_false_r, capply_unfold, cactive_cons, cactive_nil, orb_false_r. reflexivity.
  Qed.

  (* two controlled operations with disjoint supports commute *)
  Theorem capply_commute_capply (U V : mat (K:=K)) d1 a1 c1 v1 d2 a2 c2 v2 (psi : tensor (K:=K)) i :
    (forall x, In x (c2 ++ a2) -> ~ In x (c1 ++ a1)) ->
    capply O U d1 a1 c1 v1 (capply O V d2 a2 c2 v2 psi) i = capply O V d2 a2 c2 v2 (capply O U d1 a1 c1 v1 psi) i.
  Proof.
    intros Hd.
    assert (H2 : forall x, In x a2 -> ~ In x (c1 ++ a1)) by (intros x Hx; apply Hd; apply in_or_app; right; exact Hx).
    assert (H1 : forall x, In x a1 -> ~ In x (c2 ++ a2)).
    { intros x Hx Hc. apply (Hd x Hc). apply in_or_app. right. exact Hx. }
    assert (H12 : forall x, In x a1 -> ~ In x a2) by (intros x Hx Hy; apply (H1 x Hx); apply in_or_app; right; exact Hy).
    rewrite (capply_unfold U d1 a1 c1 v1 (capply O V d2 a2 c2 v2 psi) i).
    rewrite (capply_unfold V d2 a2 c2 v2 (capply O U d1 a1 c1 v1 psi) i).
    rewrite <- (capply_commute_apply V U d2 a2 c2 v2 d1 a1 psi i H1).
    rewrite <- (capply_commute_apply U V d1 a1 c1 v1 d2 a2 psi i H2).
    rewrite !capply_unfold.
    destruct (cactive v1 (gets i c1)); destruct (cactive v2 (gets i c2)); try reflexivity.
    apply (apply_commute_disjoint O L). intros x Hx Hy. exact (H12 x Hy Hx).
  Qed.
End CtrlProofs.

(* ---------- the list matrix `ctrl_matrix` of Gates/Families.v is the block matrix-function cmat ---------- *)
Lemma nth_map_lt {A B} (f : A -> B) l n d d' : n < length l -> nth n (map f l) d' = f (nth n l d).
Proof. intros H. rewrite (nth_indep _ d' (f d)) by (rewrite map_length; exact H). apply map_nth. Qed.

Lemma index_acc_app sh1 : forall sh2 a b acc, length a = length sh1 ->
  index_acc (sh1 ++ sh2) (a ++ b) acc = index_acc sh2 b (index_acc sh1 a acc).
Proof.
  induction sh1 as [|d sh1 IH]; intros sh2 [|x a] b acc Hl; cbn in Hl; try discriminate; [reflexivity|].
  cbn [app index_acc]. apply IH. lia.
Qed.

Lemma index_app sh1 sh2 a b : length a = length sh1 -> length b = length sh2 ->
  index (sh1 ++ sh2) (a ++ b) = index sh1 a * size sh2 + index sh2 b.
Proof.
  intros Ha Hb. unfold index at 1. rewrite (index_acc_app sh1 sh2 a b 0 Ha).
  rewrite (index_acc_spec sh2 b _ Hb). reflexivity.
Qed.

Lemma index_inj sh a b : Forall2 lt a sh -> Forall2 lt b sh -> index sh a = index sh b -> a = b.
Proof.
  intros Ha Hb He. rewrite <- (nth_index_enum sh a Ha), <- (nth_index_enum sh b Hb), He. reflexivity.
Qed.

Lemma index_eqb sh a b : Forall2 lt a sh -> Forall2 lt b sh -> Nat.eqb (index sh a) (index sh b) = list_eqb_nat a b.
Proof.
  intros Ha Hb. destruct (list_eqb_nat a b) eqn:E.
  - apply list_eqb_nat_spec in E. subst b. apply Nat.eqb_refl.
  - apply Nat.eqb_neq. intros He. apply (index_inj sh a b Ha Hb) in He. subst b.
    rewrite list_eqb_nat_refl in E. discriminate E.
Qed.

Section CtrlMatrix.
  Context {K : Type} (O : Ops K) (L : Laws O).
  Add Ring CtrlRing2 : (law_ring O L).
  Notation z0 := (k0 O).

  Lemma sq_mid n : sq n (mid O n).
  Proof.
    unfold sq, mid. split; [rewrite map_length; apply seq_length|].
    intros row Hr. apply in_map_iff in Hr as [x [<- _]]. rewrite map_length. apply seq_length.
  Qed.

  Lemma mget_mid n x y : x < n -> y < n -> mget O (mid O n) x y = if Nat.eqb x y then k1 O else z0.
  Proof.
    intros Hx Hy. unfold mget, mid.
    rewrite (nth_indep _ [] (map (fun j => if Nat.eqb 0 j then k1 O else z0) (seq 0 n)))
      by (rewrite map_length, seq_length; exact Hx).
    rewrite (map_nth (fun i => map (fun j => if Nat.eqb i j then k1 O else z0) (seq 0 n)) (seq 0 n) 0 x).
    rewrite seq_nth by exact Hx. cbn [Nat.add].
    rewrite (nth_indep _ z0 (if Nat.eqb x 0 then k1 O else z0)) by (rewrite map_length, seq_length; exact Hy).
    rewrite (map_nth (fun j => if Nat.eqb x j then k1 O else z0) (seq 0 n) 0 y).
    rewrite seq_nth by exact Hy. reflexivity.
  Qed.

  Lemma sq_row n (B : matrix (K:=K)) x : sq n B -> x < n -> length (nth x B []) = n.
  Proof. intros [Hl Hr] Hx. apply Hr. apply nth_In. lia. Qed.

  Lemma mcols_sq n (B : matrix (K:=K)) : 0 < n -> sq n B -> mcols B = n.
  Proof. intros Hn H. unfold mcols. apply (sq_row n B 0 H Hn). Qed.

  (* shape of a block-diagonal matrix of N square blocks of side n *)
  Lemma bdiag_shape n : 0 < n -> forall bs, Forall (sq n) bs ->
    length (bdiag O bs) = length bs * n /\ (forall row, In row (bdiag O bs) -> length row = length bs * n).
  Proof.
    intros Hn. induction bs as [|B bs IH]; intros Hf.
    - split; [reflexivity|]. intros row [].
    - inversion Hf as [|B' bs' HB Hbs]; subst. destruct (IH Hbs) as [IHl IHr].
      assert (Hcb : mcols (bdiag O bs) = length bs * n).
      { unfold mcols. destruct (bdiag O bs) as [|r0 rest] eqn:Eb.
        - cbn in IHl. cbn. lia.
        - cbn [nth]. apply IHr. left. reflexivity. }
      cbn [bdiag fold_right]. fold (bdiag O bs). unfold mdirect. rewrite (mcols_sq n B Hn HB), Hcb.
      split.
      + rewrite app_length, !map_length, IHl. destruct HB as [HBl _]. rewrite HBl. cbn [length]. lia.
      + intros row Hr. apply in_app_or in Hr as [Hr|Hr]; apply in_map_iff in Hr as [r [<- Hr]];
          rewrite app_length, repeat_length; cbn [length].
        * destruct HB as [_ HBr]. rewrite (HBr r Hr). lia.
        * rewrite (IHr r Hr). lia.
  Qed.

  (* entries of a block-diagonal matrix *)
  Lemma mget_bdiag n : 0 < n -> forall bs, Forall (sq n) bs -> forall p q x y,
    p < length bs -> q < length bs -> x < n -> y < n ->
    mget O (bdiag O bs) (p * n + x) (q * n + y) = if Nat.eqb p q then mget O (nth p bs []) x y else z0.
  Proof.
    intros Hn. induction bs as [|B bs IH]; intros Hf p q x y Hp Hq Hx Hy; [cbn in Hp; lia|].
    inversion Hf as [|B' bs' HB Hbs]; subst.
    destruct (bdiag_shape n Hn bs Hbs) as [Sl Sr].
    assert (Hcb : mcols (bdiag O bs) = length bs * n).
    { unfold mcols. destruct (bdiag O bs) as [|r0 rest] eqn:Eb.
      - cbn in Sl. cbn. lia.
      - cbn [nth]. apply Sr. left. reflexivity. }
    pose proof HB as [HBl HBr].
    cbn [bdiag fold_right]. fold (bdiag O bs). unfold mdirect. rewrite (mcols_sq n B Hn HB), Hcb.
    unfold mget.
    destruct p as [|p].
    - cbn [Nat.mul Nat.add].
      rewrite app_nth1 by (rewrite map_length; lia).
      rewrite (nth_indep _ [] ([] ++ repeat z0 (length bs * n))) by (rewrite map_length; lia).
      rewrite (map_nth (fun r => r ++ repeat z0 (length bs * n)) B [] x).
      destruct q as [|q].
      + cbn [Nat.mul Nat.add Nat.eqb nth]. rewrite app_nth1 by (rewrite (sq_row n B x HB Hx); exact Hy). reflexivity.
      + cbn [Nat.eqb]. rewrite app_nth2 by (rewrite (sq_row n B x HB Hx); lia). apply nth_repeat.
    - replace (S p * n + x) with (n + (p * n + x)) by lia.
      rewrite app_nth2 by (rewrite map_length; lia). rewrite map_length, HBl.
      replace (n + (p * n + x) - n) with (p * n + x) by lia.
      assert (Hpx : p * n + x < length (bdiag O bs)).
      { rewrite Sl. cbn [length] in Hp. nia. }
      rewrite (nth_indep _ [] (repeat z0 n ++ [])) by (rewrite map_length; exact Hpx).
      rewrite (map_nth (fun r => repeat z0 n ++ r) (bdiag O bs) [] (p * n + x)).
      destruct q as [|q].
      + cbn [Nat.mul Nat.add Nat.eqb]. rewrite app_nth1 by (rewrite repeat_length; exact Hy). apply nth_repeat.
      + replace (S q * n + y) with (n + (q * n + y)) by lia.
        rewrite app_nth2 by (rewrite repeat_length; lia). rewrite repeat_length.
        replace (n + (q * n + y) - n) with (q * n + y) by lia.
        cbn [Nat.eqb nth]. cbn [length] in Hp, Hq.
        exact (IH Hbs p q x y ltac:(lia) ltac:(lia) Hx Hy).
  Qed.

  Lemma ctrl_matrix_bdiag cdims cvals (M : matrix (K:=K)) :
    ctrl_matrix O cdims cvals M = bdiag O (map (ctrl_block O cvals M) (enum cdims)).
  Proof.
    unfold ctrl_matrix, bdiag. induction (enum cdims) as [|c l IH]; [reflexivity|].
    cbn [fold_right map]. rewrite IH. reflexivity.
  Qed.

  (* the gate model of GCtrl, read as a matrix-function on digits, is cmat of the sub-gate's matrix-function *)
  Theorem mat_of_ctrl_matrix cdims cvals dims (M : matrix (K:=K)) rc rt cc ct :
    sq (size dims) M ->
    Forall2 lt rc cdims -> Forall2 lt rt dims -> Forall2 lt cc cdims -> Forall2 lt ct dims ->
    mat_of O (cdims ++ dims) (ctrl_matrix O cdims cvals M) (rc ++ rt) (cc ++ ct)
    = cmat O (length cdims) cvals (mat_of O dims M) (rc ++ rt) (cc ++ ct).
  Proof.
    intros HM Hrc Hrt Hcc Hct.
    pose proof (Forall2_len _ _ _ Hrc) as Lrc. pose proof (Forall2_len _ _ _ Hrt) as Lrt.
    pose proof (Forall2_len _ _ _ Hcc) as Lcc. pose proof (Forall2_len _ _ _ Hct) as Lct.
    pose proof (index_lt cdims rc Hrc) as Irc. pose proof (index_lt dims rt Hrt) as Irt.
    pose proof (index_lt cdims cc Hcc) as Icc. pose proof (index_lt dims ct Hct) as Ict.
    assert (Hn : 0 < size dims) by lia.
    rewrite (cmat_app O (length cdims) cvals (mat_of O dims M) rc rt cc ct Lrc Lcc).
    unfold mat_of at 1. rewrite (index_app cdims dims rc rt Lrc Lrt), (index_app cdims dims cc ct Lcc Lct).
    rewrite ctrl_matrix_bdiag.
    assert (Hbs : Forall (sq (size dims)) (map (ctrl_block O cvals M) (enum cdims))).
    { apply Forall_forall. intros B HB. apply in_map_iff in HB as [c [<- _]]. unfold ctrl_block.
      destruct (existsb (fun v => list_eqb_nat v c) cvals); [exact HM|].
      destruct HM as [HMl _]. rewrite HMl. apply sq_mid. }
    rewrite (mget_bdiag (size dims) Hn _ Hbs (index cdims rc) (index cdims cc) (index dims rt) (index dims ct))
      by (try rewrite map_length, enum_length; assumption).
    rewrite (index_eqb cdims rc cc Hrc Hcc).
    destruct (list_eqb_nat rc cc); [|reflexivity].
    rewrite (nth_map_lt (ctrl_block O cvals M) (enum cdims) (index cdims rc) [] [])
      by (rewrite enum_length; exact Irc).
    rewrite (nth_index_enum cdims rc Hrc).
    unfold ctrl_block, cactive. destruct (existsb (fun v => list_eqb_nat v rc) cvals); [reflexivity|].
    destruct HM as [HMl _]. rewrite HMl. rewrite (mget_mid (size dims) _ _ Irt Ict).
    rewrite (index_eqb dims rt ct Hrt Hct). reflexivity.
  Qed.

  (* A1 for the list matrix the simulator's reference model uses: applying ctrl_matrix = the slice procedure *)
  Theorem apply_ctrl_matrix cdims cvals dims (M : matrix (K:=K)) cax ax (psi : tensor (K:=K)) i :
    sq (size dims) M ->
    Forall2 lt (gets i cax) cdims -> Forall2 lt (gets i ax) dims ->
    apply O (mat_of O (cdims ++ dims) (ctrl_matrix O cdims cvals M)) (cdims ++ dims) (cax ++ ax) psi i
    = capply O (mat_of O dims M) dims ax cax cvals psi i.
  Proof.
    intros HM Hc Ht.
    assert (Hlen : length cax = length cdims).
    { rewrite <- (Forall2_len _ _ _ Hc). symmetry. apply gets_length. }
    rewrite <- (apply_cmat O L (mat_of O dims M) dims ax cdims cax cvals psi i Hc (fun _ => Ht)).
    unfold apply. apply (ksum_ext O). intros v Hv. f_equal.
    rewrite enum_app in Hv. apply in_flat_map in Hv as [a [Ha Hv]]. apply in_map_iff in Hv as [b [<- Hb]].
    apply enum_in in Ha. apply enum_in in Hb.
    rewrite gets_app, Hlen. apply mat_of_ctrl_matrix; assumption.
  Qed.

  (* the reference semantics of a controlled gate in a circuit (Sim/Measure.v `step` on MGate (GCtrl ..)) is the
     slice procedure on the sub-gate's matrix, whenever the gate's declared dimensions are those of its axes *)
  Theorem step_ctrl_gate sh cdims cvals (sub : gate (K:=K)) cax ax (b : branch (K:=K)) :
    sq (size (gate_dims sub)) (gate_model O sub) ->
    map (fun a => nth a sh 2) cax = cdims -> map (fun a => nth a sh 2) ax = gate_dims sub ->
    step O sh (MGate (GCtrl cdims cvals sub, cax ++ ax)) b
    = [{| bw := bw b; brec := brec b;
          bpsi := tab sh (capply O (mat_of O (gate_dims sub) (gate_model O sub)) (gate_dims sub) ax cax cvals
                                 (untab O sh (bpsi b))) |}].
  Proof.
    intros HM Hc Ht. cbn [step]. unfold circ_state. cbn [map run_tab fold_left rop_of fst snd rop_m rop_dims rop_ax].
    cbn [gate_model gate_dims]. unfold apply_tab. f_equal. f_equal.
    apply tab_ext. intros i Hi. apply apply_ctrl_matrix; [exact HM| |].
    - rewrite <- Hc. apply gets_in_dims. exact Hi.
    - rewrite <- Ht. apply gets_in_dims. exact Hi.
  Qed.
End CtrlMatrix.

(* ---------- A3: the hypotheses are satisfiable; concrete instances ---------- *)
Section CtrlExamples.
  Context {K : Type} (O : Ops K) (L : Laws O).

  (* a qutrit control (axis 0, dimension 3) with allowed values {1, 2}, qubit target (axis 1): active index *)
  Example apply_cmat_qutrit_active (U : mat (K:=K)) (psi : tensor (K:=K)) :
    apply O (cmat O 1 [[1]; [2]] U) ([3] ++ [2]) ([0] ++ [1]) psi [2; 1]
    = apply O U [2] [1] psi [2; 1].
  Proof.
    transitivity (capply O U [2] [1] [0] [[1]; [2]] psi [2; 1]); [|reflexivity].
    apply (apply_cmat O L U [2] [1] [3] [0] [[1]; [2]] psi [2; 1]).
    - cbn. repeat constructor.
    - intros _. cbn. repeat constructor.
  Qed.
  (* ... and an index where the control holds 0: untouched *)
  Example apply_cmat_qutrit_inactive (U : mat (K:=K)) (psi : tensor (K:=K)) :
    apply O (cmat O 1 [[1]; [2]] U) ([3] ++ [2]) ([0] ++ [1]) psi [0; 1] = psi [0; 1].
  Proof.
    transitivity (capply O U [2] [1] [0] [[1]; [2]] psi [0; 1]); [|reflexivity].
    apply (apply_cmat O L U [2] [1] [3] [0] [[1]; [2]] psi [0; 1]).
    - cbn. repeat constructor.
    - intros _. cbn. repeat constructor.
  Qed.

  Example capply_mcomp_qutrit (U V : mat (K:=K)) (psi : tensor (K:=K)) :
    capply O (mcomp O [2] U V) [2] [1] [0] [[1]; [2]] psi [2; 1]
    = capply O U [2] [1] [0] [[1]; [2]] (capply O V [2] [1] [0] [[1]; [2]] psi) [2; 1].
  Proof.
    apply (capply_mcomp O L).
    - intros x [<-|[]] [H|[]]. discriminate H.
    - repeat constructor. intros [].
    - intros a [<-|[]]. cbn. lia.
    - reflexivity.
  Qed.

  Example capply_commute_apply_ex (U V : mat (K:=K)) (psi : tensor (K:=K)) i :
    capply O U [2] [1] [0] [[1]; [2]] (apply O V [2] [2] psi) i = apply O V [2] [2] (capply O U [2] [1] [0] [[1]; [2]] psi) i.
  Proof. apply (capply_commute_apply O L). intros x [<-|[]] [H|[H|[]]]; discriminate H. Qed.

  Example capply_commute_capply_ex (U V : mat (K:=K)) (psi : tensor (K:=K)) i :
    capply O U [2] [1] [0] [[1]; [2]] (capply O V [2] [3] [2] [[1]] psi) i
    = capply O V [2] [3] [2] [[1]] (capply O U [2] [1] [0] [[1]; [2]] psi) i.
  Proof. apply (capply_commute_capply O L). intros x [<-|[<-|[]]] [H|[H|[]]]; discriminate H. Qed.

  Example cmat_mcomp_qutrit (U V : mat (K:=K)) c :
    cmat O (length [3]) [[1]; [2]] (mcomp O [2] U V) [0; 1] c
    = mcomp O ([3] ++ [2]) (cmat O (length [3]) [[1]; [2]] U) (cmat O (length [3]) [[1]; [2]] V) [0; 1] c.
  Proof. apply (cmat_mcomp O L); [cbn; repeat constructor|intros _; cbn; repeat constructor]. Qed.

  Example capply_loop_qutrit (U : mat (K:=K)) (psi : tensor (K:=K)) i :
    capply_loop O U [2] [1] [0] [[1]; [2]] psi i = capply O U [2] [1] [0] [[1]; [2]] psi i.
  Proof.
    apply (capply_loop_eq O).
    - repeat constructor; cbn; intuition discriminate.
    - intros x [<-|[]] [H|[]]. discriminate H.
  Qed.

  Example sq_ex_Xm : sq 2 (ex_Xm O).
  Proof. split; [reflexivity|]. intros row [<-|[<-|[]]]; reflexivity. Qed.

  (* the controlled-matrix of Gates/Families.v on a qutrit control, any 2x2 sub-matrix, every in-shape index *)
  Example apply_ctrl_matrix_qutrit (a b c d : K) (psi : tensor (K:=K)) i : Forall2 lt i [3; 2] ->
    apply O (mat_of O ([3] ++ [2]) (ctrl_matrix O [3] [[1]; [2]] [[a; b]; [c; d]])) ([3] ++ [2]) ([0] ++ [1]) psi i
    = capply O (mat_of O [2] [[a; b]; [c; d]]) [2] [1] [0] [[1]; [2]] psi i.
  Proof.
    intros Hi. apply (apply_ctrl_matrix O L).
    - split; [reflexivity|]. intros row [<-|[<-|[]]]; reflexivity.
    - apply (gets_in_dims [3; 2] [0] i Hi).
    - apply (gets_in_dims [3; 2] [1] i Hi).
  Qed.

  (* CNOT (control axis 0, target axis 1) is X applied to the slice where the control digit is 1: any ring, any state *)
  Example ctrl_X_is_CNOT : ctrl_matrix O [2] [[1]] (ex_Xm O) = ex_CNOTm O.
  Proof. reflexivity. Qed.
  Example cnot_is_capply_X (psi : tensor (K:=K)) i : Forall2 lt i [2; 2] ->
    apply O (mat_of O [2; 2] (ex_CNOTm O)) [2; 2] [0; 1] psi i
    = capply O (mat_of O [2] (ex_Xm O)) [2] [1] [0] [[1]] psi i.
  Proof.
    intros Hi. rewrite <- ctrl_X_is_CNOT. apply (apply_ctrl_matrix O L [2] [[1]] [2] (ex_Xm O) [0] [1] psi i).
    - apply sq_ex_Xm.
    - apply (gets_in_dims [2; 2] [0] i Hi).
    - apply (gets_in_dims [2; 2] [1] i Hi).
  Qed.
  Example step_cnot_is_capply_X (b : branch (K:=K)) :
    step O [2; 2] (MGate (GCtrl [2] [[1]] (GMat [2] (ex_Xm O)), [0] ++ [1])) b
    = [{| bw := bw b; brec := brec b;
          bpsi := tab [2; 2] (capply O (mat_of O [2] (ex_Xm O)) [2] [1] [0] [[1]] (untab O [2; 2] (bpsi b))) |}].
  Proof. apply (step_ctrl_gate O L [2; 2] [2] [[1]] (GMat [2] (ex_Xm O)) [0] [1] b); [apply sq_ex_Xm|reflexivity|reflexivity]. Qed.
End CtrlExamples.

(* exact sanity check in Q(zeta_8): the slice procedure and the 4x4 CNOT matrix give the same amplitudes on a state
   with four different entries (1, i, 1/2, 1/sqrt 2) *)
Lemma k8_eqb_true x y : k8_eqb x y = true -> x = y.
Proof.
  destruct x, y; unfold k8_eqb; simpl. rewrite !andb_true_iff. intros [[[A B] C] D].
  apply Qcanon.Qc_eq_bool_correct in A. apply Qcanon.Qc_eq_bool_correct in B.
  apply Qcanon.Qc_eq_bool_correct in C. apply Qcanon.Qc_eq_bool_correct in D. subst. reflexivity.
Qed.
Lemma k8l_eqb_true : forall a b : list K8, list_eqb k8_eqb a b = true -> a = b.
Proof.
  induction a as [|x a IH]; destruct b as [|y b]; simpl; try discriminate; [reflexivity|].
  rewrite andb_true_iff. intros [H1 H2]. apply k8_eqb_true in H1. apply IH in H2. subst. reflexivity.
Qed.
Example cnot_is_capply_X_K8 :
  tab [2; 2] (capply K8Ops (mat_of K8Ops [2] (ex_Xm K8Ops)) [2] [1] [0] [[1]] (untab K8Ops [2; 2] ex_state8))
  = apply_tab K8Ops (ex_CNOTm K8Ops) [2; 2] [0; 1] [2; 2] ex_state8
  /\ apply_tab K8Ops (ex_CNOTm K8Ops) [2; 2] [0; 1] [2; 2] ex_state8 = [k1 K8Ops; ki K8Ops; ks2 K8Ops; khalf K8Ops].
Proof. split; apply k8l_eqb_true; vm_compute; reflexivity. Qed.
(* a qutrit-controlled X (values {1,2}) on the 6 basis amplitudes 1..: slice procedure = ctrl_matrix, exactly *)
Example qutrit_ctrl_K8 :
  let l := [k1 K8Ops; ki K8Ops; khalf K8Ops; ks2 K8Ops; kopp K8Ops (ki K8Ops); kadd K8Ops (k1 K8Ops) (ki K8Ops)] in
  tab [3; 2] (capply K8Ops (mat_of K8Ops [2] (ex_Xm K8Ops)) [2] [1] [0] [[1]; [2]] (untab K8Ops [3; 2] l))
  = apply_tab K8Ops (ctrl_matrix K8Ops [3] [[1]; [2]] (ex_Xm K8Ops)) [3; 2] [0; 1] [3; 2] l.
Proof. cbv zeta. apply k8l_eqb_true. vm_compute. reflexivity. Qed.

(* the shape hypothesis of apply_cmat is needed: on an index whose control digit is outside the declared control
   dimension the block matrix has no row (the sum over enum is 0) while the slice procedure leaves the amplitude alone *)
Theorem apply_cmat_needs_shape_refuted : exists (U : mat (K:=K8)) (psi : tensor (K:=K8)) (i : idx),
  apply K8Ops (cmat K8Ops (length [0]) [[1]; [2]] U) ([3] ++ [2]) ([0] ++ [1]) psi i
  <> capply K8Ops U [2] [1] [0] [[1]; [2]] psi i.
Proof.
  exists (delta K8Ops), (fun _ => k1 K8Ops), [5; 0]. intros H.
  apply (f_equal c0) in H. apply (f_equal Qcanon.this) in H. vm_compute in H. discriminate H.
Qed.
(* the deduplication of the control tuples is needed for the loop form: with a repeated tuple the loop applies the
   sub-gate twice on that slice (X twice = identity), the one-pass procedure once *)
Theorem capply_loop_dup_refuted : exists (psi : tensor (K:=K8)) (i : idx),
  capply_loop K8Ops (mat_of K8Ops [2] (ex_Xm K8Ops)) [2] [1] [0] [[1]; [1]] psi i
  <> capply K8Ops (mat_of K8Ops [2] (ex_Xm K8Ops)) [2] [1] [0] [[1]; [1]] psi i.
Proof.
  exists (untab K8Ops [2; 2] ex_state8), [1; 0]. intros H.
  apply (f_equal c1) in H. apply (f_equal Qcanon.this) in H. vm_compute in H. discriminate H.
Qed.
