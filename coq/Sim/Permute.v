(* Axis permutations of function tensors (model of transposing a state to another qubit order:
   `transpose_to_qubit_order`, the `qubit_order=` arguments, `QubitPermutationGate._apply_unitary_`).

   `tperm pi psi` is the tensor whose axis pi[k] carries what axis k of psi carried:
       (tperm pi psi) i = psi [i_(pi 0); i_(pi 1); ...]   (= psi (gets i pi))
   which is the task's  fun i => psi (map (fun k => get i (nth k pi 0)) (seq 0 (length pi)))  (tperm_alt in
   PermuteProofs.v).  pi need not be a full permutation of the axes of the result: the theorems only use that pi has no
   repeated entry and points inside the index, so embeddings into a larger register are covered too.
   Definitions only; theorems in Sim/PermuteProofs.v. *)
From Coq Require Import List Arith Bool.
From VF Require Import Base.RingOps Base.Mat Base.Tensor Gates.Families.
Import ListNotations.

Section Permute.
  Context {K : Type} (O : Ops K).
  Notation T := (tensor (K:=K)).

  Definition tperm (pi : list nat) (psi : T) : T := fun i => psi (gets i pi).
  Definition tperm_alt (pi : list nat) (psi : T) : T :=
    fun i => psi (map (fun k => get i (nth k pi 0)) (seq 0 (length pi))).

  (* composition of relabellings: first rho, then pi *)
  Definition pcomp (pi rho : list nat) : list nat := gets pi rho.
  (* an operation with its axes relabelled through pi *)
  Definition rop_relabel (pi : list nat) (o : rop (K:=K)) : rop (K:=K) :=
    {| rop_m := rop_m o; rop_dims := rop_dims o; rop_ax := gets pi (rop_ax o) |}.

  (* QubitPermutationGate._apply_unitary_:
       permuted_axes = list(range(ndim)); for i: permuted_axes[axes[perm[i]]] = axes[i]
       buffer[...] = target.transpose(permuted_axes)
     numpy: transpose(p)[j] = target[i] with i[p[k]] = j[k]; so the digit of i on axis axes[k] is the digit of j on axis
     axes[perm[k]], all other digits agree *)
  Definition kernel_Perm (perm ax : list nat) (psi : T) : T :=
    fun j => psi (upds j ax (gets j (gets ax perm))).

  (* a 3-cycle on three axes *)
  Definition ex_cycle3 : list nat := [1; 2; 0].
End Permute.
