(* Theorems about application to subspaces (Sim/SubspaceApply.v), any ring, any number of axes, any levels:
     sapply_outside      an amplitude whose target digits are not all among the chosen levels is untouched
     sapply_full         with every axis's levels 0..d-1 it is the ordinary application
     sapply_mcomp        the product of two gates applied to the subspace = one after the other on the subspace: this is what lets
                         apply_unitary run a DECOMPOSITION on the slice of the tensor (the repaired decomposition strategy)
     sapply_ignoring_subspaces_refuted   applying to levels 0,1 instead of the requested levels is a different map *)
From Coq Require Import List Arith Ring Lia Bool Qcanon.
From VF Require Import Base.RingOps Base.K8 Base.Mat Base.Tensor Base.TensorProofs Base.TabProofs Sim.MeasureProofs
  Gates.Families Sim.CtrlApply Sim.CtrlApplyProofs Sim.KronStateProofs Sim.SubspaceApply.
Import ListNotations.
Close Scope Qc_scope. Close Scope Q_scope.

Lemma pos_in_lvl sub : NoDup sub -> forall b, b < length sub -> pos_in sub (lvl sub b) = Some b.
Proof.
  induction 1 as [|y r Hn _ IH]; intros b Hb; [simpl in Hb; lia|].
  destruct b as [|b]; cbn [lvl nth pos_in].
  - rewrite Nat.eqb_refl. reflexivity.
  - simpl in Hb. assert (Hb' : b < length r) by lia.
    destruct (Nat.eqb y (nth b r 0)) eqn:E.
    + apply Nat.eqb_eq in E. exfalso. apply Hn. rewrite E. apply nth_In. exact Hb'.
    + fold (lvl r b). rewrite (IH b Hb'). reflexivity.
Qed.

Lemma poss_lvls subs : (forall s, In s subs -> NoDup s) -> forall v, Forall2 lt v (sub_dims subs) -> poss subs (lvls subs v) = Some v.
Proof.
  induction subs as [|s subs IH]; intros Hnd v Hv; inversion Hv as [|b d v' ds Hb Hr]; subst; [reflexivity|].
  cbn [lvls poss]. rewrite (pos_in_lvl s (Hnd s (or_introl eq_refl)) b Hb).
  rewrite (IH (fun t Ht => Hnd t (or_intror Ht)) v' Hr). reflexivity.
Qed.

Lemma lvls_length subs : forall v, length v = length subs -> length (lvls subs v) = length subs.
Proof.
  induction subs as [|s subs IH]; intros v Hl; destruct v as [|b v]; try discriminate; [reflexivity|].
  cbn [lvls length]. f_equal. apply IH. simpl in Hl. lia.
Qed.

Lemma pos_in_Some sub x p : pos_in sub x = Some p -> lvl sub p = x /\ p < length sub.
Proof.
  revert p. induction sub as [|y r IH]; intros p H; [discriminate|]. cbn [pos_in] in H.
  destruct (Nat.eqb y x) eqn:E.
  - injection H as <-. apply Nat.eqb_eq in E. split; [exact E | simpl; lia].
  - destruct (pos_in r x) as [q|] eqn:Eq; [|discriminate]. injection H as <-.
    destruct (IH q eq_refl) as [H1 H2]. split; [exact H1 | simpl; lia].
Qed.

Lemma poss_Some subs : forall xs r, poss subs xs = Some r -> lvls subs r = xs /\ Forall2 lt r (sub_dims subs).
Proof.
  induction subs as [|s subs IH]; intros xs r H; destruct xs as [|x xs]; cbn [poss] in H; try discriminate.
  - injection H as <-. split; [reflexivity | constructor].
  - destruct (pos_in s x) as [p|] eqn:Ep; [|discriminate]. destruct (poss subs xs) as [r'|] eqn:Er; [|discriminate].
    injection H as <-. destruct (pos_in_Some s x p Ep) as [H1 H2]. destruct (IH xs r' Er) as [H3 H4].
    split; [cbn [lvls]; rewrite H1, H3; reflexivity | constructor; assumption].
Qed.

Section SubspaceApplyProofs.
  Context {K : Type} (O : Ops K) (L : Laws O).
  Add Ring Kring : (law_ring O L).
  Infix "*" := (kmul O).
  Variables (ax : list nat) (subs : list (list nat)).
  Hypothesis Hnd : NoDup ax.
  Hypothesis Hsub : forall s, In s subs -> NoDup s.
  Hypothesis Hlen : length subs = length ax.
  Let dims := sub_dims subs.

  Theorem sapply_outside U (psi : tensor (K:=K)) i : poss subs (gets i ax) = None -> sapply O U ax subs psi i = psi i.
  Proof. intro H. unfold sapply. rewrite H. reflexivity. Qed.

  Lemma dims_length : length dims = length ax.
  Proof. unfold dims, sub_dims. rewrite map_length. exact Hlen. Qed.

  Theorem sapply_mcomp U V (psi : tensor (K:=K)) i : (forall a, In a ax -> a < length i) ->
    sapply O (mcomp O dims U V) ax subs psi i = sapply O U ax subs (sapply O V ax subs psi) i.
  Proof.
    intro Hr. unfold sapply at 1 2. destruct (poss subs (gets i ax)) as [r|] eqn:Er.
    - fold dims.
      transitivity (ksum O (map (fun b => ksum O (map (fun c => U r b * (V b c * psi (upds i ax (lvls subs c)))) (enum dims))) (enum dims))).
      + unfold mcomp. rewrite (ksum_swap O L). apply (ksum_ext O). intros c _.
        rewrite (ksum_mul_r O L). apply (ksum_ext O). intros b _. ring.
      + apply (ksum_ext O). intros b Hb.
        assert (Hbl : Forall2 lt b dims) by (apply enum_in; exact Hb).
        assert (Lb : length (lvls subs b) = length ax).
        { rewrite lvls_length; [exact Hlen|]. rewrite (enum_elt_length dims b Hb). unfold dims, sub_dims. apply map_length. }
        unfold sapply. rewrite (gets_upds_same ax Hnd i (lvls subs b) Hr Lb).
        rewrite (poss_lvls subs Hsub b Hbl). fold dims. rewrite (ksum_mul_l O L). apply (ksum_ext O). intros c Hc.
        rewrite (upds_upds_same ax Hnd i (lvls subs b) (lvls subs c)).
        * reflexivity.
        * rewrite Lb. symmetry. rewrite lvls_length; [exact Hlen|]. rewrite (enum_elt_length dims c Hc). unfold dims, sub_dims. apply map_length.
    - unfold sapply. rewrite Er. reflexivity.
  Qed.
End SubspaceApplyProofs.

(* with the levels 0..d-1 on every axis, the subspace application is the ordinary one *)
Lemma pos_in_seq d : forall x, x < d -> forall k, pos_in (seq k d) (k + x) = Some x.
Proof.
  induction d as [|d IH]; intros x Hx k; [lia|]. cbn [seq pos_in]. destruct x as [|x].
  - rewrite Nat.add_0_r, Nat.eqb_refl. reflexivity.
  - assert (E : Nat.eqb k (k + S x) = false) by (apply Nat.eqb_neq; lia). rewrite E.
    replace (k + S x) with (S k + x) by lia. rewrite (IH x (proj2 (Nat.succ_lt_mono x d) Hx) (S k)). reflexivity.
Qed.

Definition full_subs (dims : list nat) : list (list nat) := map (seq 0) dims.
Lemma sub_dims_full dims : sub_dims (full_subs dims) = dims.
Proof. unfold sub_dims, full_subs. rewrite map_map. rewrite <- (map_id dims) at 2. apply map_ext. intro d. apply seq_length. Qed.
Lemma poss_full dims : forall xs, Forall2 lt xs dims -> poss (full_subs dims) xs = Some xs.
Proof.
  induction dims as [|d dims IH]; intros xs H; inversion H as [|x d' xs' ds Hx Hr]; subst; [reflexivity|].
  cbn [full_subs map poss]. pose proof (pos_in_seq d x Hx 0) as Hp. rewrite Nat.add_0_l in Hp. rewrite Hp. fold (full_subs dims). rewrite (IH xs' Hr). reflexivity.
Qed.
Lemma lvls_full dims : forall v, Forall2 lt v dims -> lvls (full_subs dims) v = v.
Proof.
  induction dims as [|d dims IH]; intros v H; inversion H as [|x d' v' ds Hx Hr]; subst; [reflexivity|].
  cbn [full_subs map lvls]. fold (full_subs dims). rewrite (IH v' Hr). unfold lvl. rewrite seq_nth by exact Hx. reflexivity.
Qed.
Theorem sapply_full {K} (O : Ops K) U dims ax (psi : tensor (K:=K)) i : Forall2 lt (gets i ax) dims ->
  sapply O U ax (full_subs dims) psi i = apply O U dims ax psi i.
Proof.
  intro H. unfold sapply, apply. rewrite (poss_full dims _ H), sub_dims_full.
  apply (ksum_ext O). intros v Hv. rewrite (lvls_full dims v) by (apply enum_in; exact Hv). reflexivity.
Qed.

(* the old behaviour of the decomposition strategy (acting on levels 0, 1 whatever was asked) is a different map:
   X on the levels (1, 2) of a qutrit moves the amplitude of |2> to |1>, X on the levels (0, 1) does not touch it *)
Definition ex_Xf : mat (K:=K8) := fun r c => if list_eqb_nat r c then k0 K8Ops else k1 K8Ops.
Definition ex_psi3 : tensor (K:=K8) := fun i => if list_eqb_nat i [2] then k1 K8Ops else k0 K8Ops.
Theorem sapply_ignoring_subspaces_refuted :
  sapply K8Ops ex_Xf [0] [[1; 2]] ex_psi3 [1] <> sapply K8Ops ex_Xf [0] [[0; 1]] ex_psi3 [1].
Proof. intro H. apply (f_equal c0) in H. vm_compute in H. discriminate H. Qed.
