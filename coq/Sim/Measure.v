(* Reference semantics of circuits with measurements, classical control and channels (DESIGN C02/C09):
   an ensemble of weighted, UNNORMALISED pure-state branches.  A branch (w, records, psi) has
   probability mass w * <psi|psi>.  Measurement projects (Born rule: the mass of outcome v is the squared
   norm of the projection), Kraus operators split a branch into K_k psi, confusion maps split the
   classical weight, classically controlled operations read the records. Definitions only. *)
From Coq Require Import List Arith Bool.
From VF Require Import Base.RingOps Base.Mat Base.Tensor Gates.Families Sim.Ref.
Import ListNotations.

Section Measure.
  Context {K : Type} (O : Ops K).

  (* one recorded measurement: key id, recorded digits, their dimensions *)
  Definition recd := (nat * list nat * list nat)%type.
  Record branch := { bw : K; brec : list recd; bpsi : list K }.

  Definition norm2 (psi : list K) : K := ksum O (map (fun a => kmul O a (kconj O a)) psi).
  Definition mass (b : branch) : K := kmul O (bw b) (norm2 (bpsi b)).

  (* projection onto outcome v of the axes ax *)
  Definition project (sh ax v : list nat) (psi : list K) : list K :=
    map (fun p => if list_eqb_nat (gets (fst p) ax) v then snd p else k0 O) (combine (enum sh) psi).

  (* big-endian integer of digits in mixed radix *)
  Fixpoint be_value (ds dims : list nat) (acc : nat) : nat :=
    match ds, dims with
    | d :: ds', b :: dims' => be_value ds' dims' (acc * b + d)
    | _, _ => acc
    end.
  Fixpoint be_digits (v : nat) (rdims : list nat) : list nat :=   (* little-endian over reversed dims *)
    match rdims with
    | [] => []
    | b :: r => (v mod b) :: be_digits (v / b) r
    end.
  Definition value_digits (v : nat) (dims : list nat) : list nat := rev (be_digits v (rev dims)).

  (* confusion map entry: positions (into the measured digits), stochastic matrix rows -> distribution over new values *)
  Definition cmap := (list nat * list (list K))%type.
  Definition confuse_one (dims : list nat) (c : cmap) (wd : K * list nat) : list (K * list nat) :=
    let '(w, ds) := wd in
    let pos := fst c in
    let sub := map (fun p => nth p ds 0) pos in
    let subdims := map (fun p => nth p dims 2) pos in
    let row := nth (be_value sub subdims 0) (snd c) [] in
    map (fun nv => let nd := value_digits (fst nv) subdims in
                   (kmul O w (snd nv),
                    fold_left (fun acc pq => upd acc (fst pq) (snd pq)) (combine pos nd) ds))
        (combine (seq 0 (length row)) row).
  Definition confuse (dims : list nat) (cs : list cmap) (wd : K * list nat) : list (K * list nat) :=
    fold_left (fun acc c => flat_map (confuse_one dims c) acc) cs [wd].
  Definition invert (inv : list bool) (ds : list nat) : list nat :=
    map (fun p => let '(d, m) := p in if m && Nat.ltb d 2 then 1 - d else d)
        (combine ds (inv ++ repeat false (length ds))).

  (* classical conditions on the records *)
  Inductive cond :=
  | CKey (key : nat) (index : option nat) (from_end : bool)       (* value <> 0 ; index counted from the end when from_end *)
  | CMask (key : nat) (index : option nat) (from_end : bool) (mask : option nat) (target : nat) (equal_target : bool).
  Definition key_records (k : nat) (r : list recd) : list recd := filter (fun e => Nat.eqb (fst (fst e)) k) r.
  Definition pick (l : list recd) (index : option nat) (from_end : bool) : option recd :=
    match index with
    | None => nth_error (rev l) 0
    | Some i => if from_end then nth_error (rev l) i else nth_error l i
    end.
  Definition rec_value (e : recd) : nat := be_value (snd (fst e)) (snd e) 0.
  Fixpoint land_nat_aux (fuel a b : nat) : nat :=
    match fuel with
    | 0 => 0
    | S f => (if (Nat.odd a && Nat.odd b) then 1 else 0) + 2 * land_nat_aux f (a / 2) (b / 2)
    end.
  Definition land_nat (a b : nat) : nat := land_nat_aux (S a) a b.
  Definition eval_cond (c : cond) (r : list recd) : option bool :=      (* None: the key has no such record (Cirq raises) *)
    match c with
    | CKey k idx fe => option_map (fun e => negb (Nat.eqb (rec_value e) 0)) (pick (key_records k r) idx fe)
    | CMask k idx fe m t eq =>
        option_map (fun e => let v := rec_value e in
                             let mv := match m with Some mm => land_nat v mm | None => v end in
                             if eq then Nat.eqb mv t else negb (Nat.eqb mv t))
                   (pick (key_records k r) idx fe)
    end.

  Inductive mop :=
  | MGate (g : gop (K:=K))
  | MMeasure (key : nat) (ax : list nat) (inv : list bool) (cs : list cmap)
  | MCtrl (conds : list cond) (g : gop (K:=K))
  | MKraus (ks : list (matrix (K:=K))) (dims ax : list nat)
  | MKrausKeyed (key : nat) (ks : list (matrix (K:=K))) (dims ax : list nat)   (* channel that records the index of the Kraus operator *)
  | MReset (ax : nat).

  Definition step (sh : list nat) (o : mop) (b : branch) : list branch :=
    match o with
    | MGate g => [{| bw := bw b; brec := brec b; bpsi := circ_state O sh [g] (bpsi b) |}]
    | MMeasure key ax inv cs =>
        let dims := map (fun a => nth a sh 2) ax in
        flat_map (fun v =>
                    let psi' := project sh ax v (bpsi b) in
                    map (fun wd => {| bw := fst wd; brec := brec b ++ [(key, invert inv (snd wd), dims)]; bpsi := psi' |})
                        (confuse dims cs (bw b, v)))
                 (enum dims)
    | MCtrl conds g =>
        if forallb (fun c => match eval_cond c (brec b) with Some true => true | _ => false end) conds
        then [{| bw := bw b; brec := brec b; bpsi := circ_state O sh [g] (bpsi b) |}]
        else [b]
    | MKraus ks dims ax =>
        map (fun k => {| bw := bw b; brec := brec b; bpsi := apply_tab O k dims ax sh (bpsi b) |}) ks
    | MKrausKeyed key ks dims ax =>
        map (fun jk => {| bw := bw b; brec := brec b ++ [(key, [fst jk], [length ks])];
                          bpsi := apply_tab O (snd jk) dims ax sh (bpsi b) |})
            (combine (seq 0 (length ks)) ks)
    | MReset a =>
        let d := nth a sh 2 in
        map (fun j => {| bw := bw b; brec := brec b;
                         bpsi := apply_tab O (map (fun r => map (fun c => if Nat.eqb r 0 && Nat.eqb c j then k1 O else k0 O) (seq 0 d)) (seq 0 d))
                                           [d] [a] sh (bpsi b) |})
            (seq 0 d)
    end.
  Definition exec (sh : list nat) (ops : list mop) (init : list K) : list branch :=
    fold_left (fun bs o => flat_map (step sh o) bs) ops [{| bw := k1 O; brec := []; bpsi := init |}].

  (* flattened record: all recorded digits in order *)
  Definition flat_rec (r : list recd) : list nat := flat_map (fun e => snd (fst e)) r.
  Definition rec_mass (bs : list branch) (r : list nat) : K :=
    ksum O (map mass (filter (fun b => list_eqb_nat (flat_rec (brec b)) r) bs)).
  Definition total_mass (bs : list branch) : K := ksum O (map mass bs).
  (* the density matrix of the ensemble *)
  Definition ensemble_rho (n : nat) (bs : list branch) : matrix (K:=K) :=
    fold_right (fun b acc => madd O (mscale O (bw b) (outer O (bpsi b))) acc) (mzero O n n) bs.
  (* the (unnormalised) state of the unique branch with record r: sum of w * psi over matching branches (used only when unique) *)
  Definition rec_states (bs : list branch) (r : list nat) : list (list K) :=
    map (fun b => vscale O (bw b) (bpsi b)) (filter (fun b => list_eqb_nat (flat_rec (brec b)) r) bs).

  (* ---- density-operator form of the same semantics: Kraus operators do not branch ---- *)
  Record dbranch := { dw : K; drec : list recd; drho : list K }.     (* rho tabulated over shape sh ++ sh *)
  Definition dm_apply (m : matrix (K:=K)) (dims ax sh : list nat) (rho : list K) : list K :=
    let n := length sh in
    apply_tab O (mconj O m) dims (map (fun a => a + n) ax) (sh ++ sh) (apply_tab O m dims ax (sh ++ sh) rho).
  Definition dm_kraus (ks : list (matrix (K:=K))) (dims ax sh : list nat) (rho : list K) : list K :=
    fold_right (fun k acc => vadd O (dm_apply k dims ax sh rho) acc) (map (fun _ => k0 O) rho) ks.
  Definition dm_project (sh ax v : list nat) (rho : list K) : list K :=
    let n := length sh in
    project (sh ++ sh) (map (fun a => a + n) ax) v (project (sh ++ sh) ax v rho).
  Definition reset_kraus (d : nat) : list (matrix (K:=K)) :=
    map (fun j => map (fun r => map (fun c => if Nat.eqb r 0 && Nat.eqb c j then k1 O else k0 O) (seq 0 d)) (seq 0 d)) (seq 0 d).
  Definition dstep (sh : list nat) (o : mop) (b : dbranch) : list dbranch :=
    match o with
    | MGate g => [{| dw := dw b; drec := drec b; drho := dm_apply (gate_model O (fst g)) (gate_dims (fst g)) (snd g) sh (drho b) |}]
    | MMeasure key ax inv cs =>
        let dims := map (fun a => nth a sh 2) ax in
        flat_map (fun v =>
                    let rho' := dm_project sh ax v (drho b) in
                    map (fun wd => {| dw := fst wd; drec := drec b ++ [(key, invert inv (snd wd), dims)]; drho := rho' |})
                        (confuse dims cs (dw b, v)))
                 (enum dims)
    | MCtrl conds g =>
        if forallb (fun c => match eval_cond c (drec b) with Some true => true | _ => false end) conds
        then [{| dw := dw b; drec := drec b; drho := dm_apply (gate_model O (fst g)) (gate_dims (fst g)) (snd g) sh (drho b) |}]
        else [b]
    | MKraus ks dims ax => [{| dw := dw b; drec := drec b; drho := dm_kraus ks dims ax sh (drho b) |}]
    | MKrausKeyed key ks dims ax =>
        map (fun jk => {| dw := dw b; drec := drec b ++ [(key, [fst jk], [length ks])];
                          drho := dm_apply (snd jk) dims ax sh (drho b) |})
            (combine (seq 0 (length ks)) ks)
    | MReset a => let d := nth a sh 2 in [{| dw := dw b; drec := drec b; drho := dm_kraus (reset_kraus d) [d] [a] sh (drho b) |}]
    end.
  Definition dexec (sh : list nat) (ops : list mop) (init : list K) : list dbranch :=
    fold_left (fun bs o => flat_map (dstep sh o) bs) ops [{| dw := k1 O; drec := []; drho := concat (outer O init) |}].
  (* the averaged final density matrix, flattened row-major *)
  Definition dexec_rho (sh : list nat) (ops : list mop) (init : list K) : list K :=
    let bs := dexec sh ops init in
    fold_right (fun b acc => vadd O (vscale O (dw b) (drho b)) acc) (map (fun _ => k0 O) (concat (outer O init))) bs.
End Measure.
