(* Model of ConstantQubitNoiseModel.noisy_moments (devices/noise_model.py) as a list transformer.
   An operation is (id, virtual flag); a noise operation on system qubit q is recorded as (1000 + q, true). *)
From Coq Require Import List Arith Bool Lia.
Import ListNotations.

Definition nop := (nat * bool)%type.
Definition nmoment := list nop.
Definition is_virtual_moment (m : nmoment) : bool :=
  match m with [] => false | _ => forallb snd m end.
Definition noise_moment (system : list nat) : nmoment := map (fun q => (1000 + q, true)) system.
Definition noisy_moment (prepend : bool) (system : list nat) (m : nmoment) : list nmoment :=
  if is_virtual_moment m then [m]
  else if prepend then [noise_moment system; m] else [m; noise_moment system].
Definition noisy_moments (prepend : bool) (system : list nat) (c : list nmoment) : list nmoment :=
  flat_map (noisy_moment prepend system) c.

(* the original moments survive, in order, and exactly one noise moment is added per non-virtual moment *)
Lemma noisy_moments_length prepend system c :
  length (noisy_moments prepend system c)
  = length c + length (filter (fun m => negb (is_virtual_moment m)) c).
Proof.
  induction c as [|m c IH]; simpl; [reflexivity|].
  rewrite app_length, IH. unfold noisy_moment.
  destruct (is_virtual_moment m); destruct prepend; simpl; lia.
Qed.
(* every original moment is still there, and everything else is the noise moment *)
Lemma noisy_moments_incl prepend system c m : In m c -> In m (noisy_moments prepend system c).
Proof.
  intros H. unfold noisy_moments. apply in_flat_map. exists m. split; [exact H|].
  unfold noisy_moment. destruct (is_virtual_moment m); destruct prepend; simpl; auto.
Qed.
Lemma noisy_moments_only prepend system c m :
  In m (noisy_moments prepend system c) -> In m c \/ m = noise_moment system.
Proof.
  unfold noisy_moments. intros H. apply in_flat_map in H as [m0 [H0 H1]].
  unfold noisy_moment in H1. destruct (is_virtual_moment m0); destruct prepend; simpl in H1;
    repeat (destruct H1 as [H1|H1]; [subst; auto|]); try contradiction.
Qed.
