(* Models of the remaining slicing kernels (`_apply_unitary_` fast paths outside ops/common_gates.py's X, Y, Z, H, CZ, CX,
   which are in Sim/Kernels.v), written statement by statement in the shape of the code:

     args.subspace_index(k)            ->  le_bits n k     (little endian: bit j of k is the digit of the j-th target axis)
     subspace_index(big_endian_bits_int=k) -> be_bits n k
     dst_tensor[s] = src_tensor[s']    ->  sl_assign ax s dst src s'
     tensor[s] *= c                    ->  sl_scale ax s c tensor
     out[s] += target[s'] * c          ->  sl_addmul ax s out target s' c
     tensor *= p                       ->  t_scale p tensor
     linalg.apply_matrix_to_slices(target, m, [s0, s1], out=buffer)  ->  amts2 ax s0 s1 m target
     ControlledOperation._apply_unitary_ (sub-kernel on the slice where the controls hold an allowed tuple)
                                       ->  ctrl_slice cax cvals sub tensor

   `available_buffer` holds arbitrary data when a kernel starts, so kernels that go through it take the initial buffer as an
   argument `buf`; the soundness theorems hold for every buf.  The code skips `target *= p` when p == 1; the models always
   multiply, which is the same function because 1 * x = x (t_scale_one in Kernels2Proofs.v).
   Proofs in Kernels2Proofs.v. *)
From Coq Require Import List Arith Bool.
From VF Require Import Base.RingOps Base.Mat Base.Tensor Gates.GateSpecs Gates.Families Sim.Kernels Sim.CtrlApply.
Import ListNotations.

(* digits selected by subspace_index on n qubit axes *)
Definition le_bits (n k : nat) : list nat := map (fun j => Nat.b2n (Nat.testbit k j)) (seq 0 n).
Definition be_bits (n k : nat) : list nat := rev (le_bits n k).
(* the index i lies in the slice where the axes ax spell the digits s *)
Definition in_slice (i : idx) (ax s : list nat) : bool := list_eqb_nat (gets i ax) s.

Section Kernels2.
  Context {K : Type} (O : Ops K).
  Infix "+" := (kadd O). Infix "*" := (kmul O). Infix "-" := (ksub O).
  Notation "- a" := (kopp O a).
  Notation ii := (ki O). Notation z0 := (k0 O). Notation z1 := (k1 O).
  Notation T := (tensor (K:=K)).

  (* ---- statements ---- *)
  Definition sl_assign (ax dst : list nat) (tgt src_t : T) (src : list nat) : T :=
    fun i => if in_slice i ax dst then src_t (upds i ax src) else tgt i.
  Definition sl_scale (ax s : list nat) (c : K) (tgt : T) : T :=
    fun i => if in_slice i ax s then c * tgt i else tgt i.
  Definition sl_addmul (ax dst : list nat) (out src_t : T) (src : list nat) (c : K) : T :=
    fun i => if in_slice i ax dst then out i + src_t (upds i ax src) * c else out i.
  Definition t_scale (c : K) (tgt : T) : T := fun i => c * tgt i.
  Definition ctrl_slice (cax : list nat) (cvals : list (list nat)) (sub : T -> T) (tgt : T) : T :=
    fun i => if cactive cvals (gets i cax) then sub tgt i else tgt i.

  (* linalg.apply_matrix_to_slices with two slices:
       out[...] = target[...]
       out[s0] *= m[0,0]; out[s0] += target[s1] * m[0,1]
       out[s1] *= m[1,1]; out[s1] += target[s0] * m[1,0]                                             *)
  Definition amts2 (ax s0 s1 : list nat) (m : matrix (K:=K)) (tgt : T) : T :=
    let out1 := tgt in
    let out2 := sl_scale ax s0 (mget O m 0 0) out1 in
    let out3 := sl_addmul ax s0 out2 tgt s1 (mget O m 0 1) in
    let out4 := sl_scale ax s1 (mget O m 1 1) out3 in
    sl_addmul ax s1 out4 tgt s0 (mget O m 1 0).

  (* ---- IdentityGate / WaitGate:  return args.target_tensor ---- *)
  Definition kernel_I (psi : T) : T := psi.
  (* ---- GlobalPhaseGate:  args.target_tensor *= coefficient ---- *)
  Definition kernel_GlobalPhase (c : K) (psi : T) : T := t_scale c psi.

  (* ---- SwapPowGate (exponent 1):
       zo = subspace_index(0b01); oz = subspace_index(0b10)
       buffer[zo] = target[zo]; target[zo] = target[oz]; target[oz] = buffer[zo]; target *= p ---- *)
  Definition swap_body (buf : T) (a0 a1 : nat) (psi : T) : T :=
    let ax := [a0; a1] in let zo := le_bits 2 1 in let oz := le_bits 2 2 in
    let buf1 := sl_assign ax zo buf psi zo in
    let t1 := sl_assign ax zo psi psi oz in
    sl_assign ax oz t1 buf1 zo.
  Definition kernel_SWAP (buf : T) (p : K) (a0 a1 : nat) (psi : T) : T := t_scale p (swap_body buf a0 a1 psi).

  (* ---- ISwapPowGate (exponent 1): the same three assignments, then
       target[zo] *= 1j; target[oz] *= 1j; target *= p ---- *)
  Definition kernel_ISWAP (buf : T) (p : K) (a0 a1 : nat) (psi : T) : T :=
    let ax := [a0; a1] in let zo := le_bits 2 1 in let oz := le_bits 2 2 in
    t_scale p (sl_scale ax oz ii (sl_scale ax zo ii (swap_body buf a0 a1 psi))).

  (* ---- ZZPowGate:  target *= global_phase; target[oz] *= relative_phase; target[zo] *= relative_phase ---- *)
  Definition kernel_ZZ (c p : K) (a0 a1 : nat) (psi : T) : T :=
    let ax := [a0; a1] in
    sl_scale ax (le_bits 2 1) c (sl_scale ax (le_bits 2 2) c (t_scale p psi)).

  (* ---- ZPowGate on a qudit of dimension d:
       for i in range(1, d): target[subspace_index(i)] *= 1j ** (exponent * 4 * i / d);  target *= p
     (cs k is the k-th factor; the dimension-2 case is kernel_Z of Sim/Kernels.v) ---- *)
  Definition kernel_Zd (cs : nat -> K) (p : K) (d a : nat) (psi : T) : T :=
    t_scale p (fold_left (fun t k => sl_scale [a] [k] (cs k) t) (seq 1 (Nat.pred d)) psi).
  (* the documented matrix of the qudit Z**t with global shift, any dimension:
     p * diag(1, w, w^2, ..., w^(d-1)), w = 1j ** (4 t / d)   (GateSpecs.v has the closed forms for d = 2 and d = 4 only) *)
  Definition spec_ZdPow (d : nat) (w p : K) : matrix (K:=K) := mscale O p (mdiag O (map (fun k => kpow O w k) (seq 0 d))).

  (* ---- CCZPowGate:  target[subspace_index(0b111)] *= exp(i pi t); target *= p ---- *)
  Definition kernel_CCZ (c p : K) (a0 a1 a2 : nat) (psi : T) : T :=
    t_scale p (sl_scale [a0; a1; a2] (le_bits 3 7) c psi).

  (* ---- CCXPowGate / CCYPowGate:  target *= p;
       apply_unitary(ControlledGate(ControlledGate(X ** exponent)), args)
     `sub` is whatever apply_unitary does for the sub-gate on the last axis (its own kernel at exponent 1, the matrix
     otherwise) ---- *)
  Definition kernel_CC1 (sub : T -> T) (p : K) (a0 a1 : nat) (psi : T) : T :=
    ctrl_slice [a0; a1] [[1; 1]] sub (t_scale p psi).

  (* ---- CSwapGate:  apply_unitary(ControlledGate(SWAP), args): SWAP's own kernel (exponent 1, no global shift, the
     `target *= p` statement is skipped) on the slice where the first axis holds 1 ---- *)
  Definition kernel_CSWAP (buf : T) (a0 a1 a2 : nat) (psi : T) : T :=
    ctrl_slice [a0] [[1]] (swap_body buf a1 a2) psi.

  (* ---- FSimGate:
       if theta != 0: out = apply_matrix_to_slices(target, unitary(rx(2 theta)), [oi, io], out=buffer) else out = target
       if phi != 0:   out[ii] *= exp(-i phi)
     oi = subspace_index(0b01), io = subspace_index(0b10), ii = subspace_index(0b11).
     th / ph say which branches run;  u = exp(i theta), vc = exp(-i phi) ---- *)
  Definition rx_mat (u uc : K) : matrix (K:=K) :=
    [[cosu O u uc; - ii * sinu O u uc]; [- ii * sinu O u uc; cosu O u uc]].
  (* rz(angle) = diag(exp(-i angle/2), exp(i angle/2)); h = exp(i angle/2) *)
  Definition rz_mat (h hc : K) : matrix (K:=K) := [[hc; z0]; [z0; h]].
  Definition kernel_FSim (th ph : bool) (u uc vc : K) (a0 a1 : nat) (psi : T) : T :=
    let ax := [a0; a1] in
    let out := if th then amts2 ax (le_bits 2 1) (le_bits 2 2) (rx_mat u uc) psi else psi in
    if ph then sl_scale ax (le_bits 2 3) vc out else out.

  (* ---- PhasedFSimGate:
       if theta != 0 or zeta != 0 or chi != 0:
           inner = unitary(rz(-zeta + chi)) @ unitary(rx(2 theta)) @ unitary(rz(-zeta - chi))
           out = apply_matrix_to_slices(target, inner, [oi, io], out=buffer)
       else: out = target
       if phi != 0:   out[ii] *= exp(-i phi)
       if gamma != 0: f = exp(-i gamma); out[oi] *= f; out[io] *= f; out[ii] *= f * f
     hz = exp(i zeta/2), hx = exp(i chi/2) (half angles, as rz uses them), u = exp(i theta), vc = exp(-i phi),
     gac = exp(-i gamma) ---- *)
  Definition pfsim_inner (u uc hz hzc hx hxc : K) : matrix (K:=K) :=
    mmul O (rz_mat (hzc * hx) (hz * hxc)) (mmul O (rx_mat u uc) (rz_mat (hzc * hxc) (hz * hx))).
  Definition kernel_PhasedFSim (tzc ph ga : bool) (u uc hz hzc hx hxc vc gac : K) (a0 a1 : nat) (psi : T) : T :=
    let ax := [a0; a1] in let oi := le_bits 2 1 in let io := le_bits 2 2 in let i_i := le_bits 2 3 in
    let out := if tzc then amts2 ax oi io (pfsim_inner u uc hz hzc hx hxc) psi else psi in
    let out1 := if ph then sl_scale ax i_i vc out else out in
    if ga then sl_scale ax i_i (gac * gac) (sl_scale ax io gac (sl_scale ax oi gac out1)) else out1.

  (* ---- PhasedISwapPowGate:
       matrix = [[c, 1j * s * f], [1j * s * f.conjugate(), c]];  target *= p
       apply_matrix_to_slices(target, matrix, [oz, zo], out=buffer)
     c = cos(pi t/2), s = sin(pi t/2) from r = exp(i pi t/2); f = exp(2 pi i phase_exponent) ---- *)
  Definition piswap_mat (f fc r rc : K) : matrix (K:=K) :=
    [[cosu O r rc; ii * sinu O r rc * f]; [ii * sinu O r rc * fc; cosu O r rc]].
  Definition kernel_PhasedISwap (f fc r rc p : K) (a0 a1 : nat) (psi : T) : T :=
    amts2 [a0; a1] (le_bits 2 2) (le_bits 2 1) (piswap_mat f fc r rc) (t_scale p psi).

  (* ---- TwoQubitDiagonalGate / DiagonalGate / ThreeQubitDiagonalGate:
       for index, angle in enumerate(angles): target[subspace_index(big_endian_bits_int=index)] *= exp(i angle)
     (ThreeQubitDiagonalGate computes the bit-reversed little-endian index by hand: the same slice) ---- *)
  Definition kernel_Diag (ds : list K) (ax : list nat) (psi : T) : T :=
    fold_left (fun t k => sl_scale ax (be_bits (length ax) k) (nth k ds z1) t) (seq 0 (length ds)) psi.
  (* PhaseGradientGate runs the same loop with the factors u^k, u = 1j ** (4 / N * exponent): kernel_Diag (map (kpow u) ..) *)
  (* the factor a loop of slice scalings puts on the amplitude at index i (used to state the loop lemmas) *)
  Fixpoint scale_prod (i : idx) (ax : list nat) (sel : nat -> list nat) (cs : nat -> K) (ks : list nat) : K :=
    match ks with
    | [] => z1
    | k :: r => (if in_slice i ax (sel k) then cs k else z1) * scale_prod i ax sel cs r
    end.
  (* the hand-written index of ThreeQubitDiagonalGate *)
  Definition tqd_le_index (index : nat) : nat :=
    Nat.add (Nat.add (Nat.mul 4 (Nat.land index 1)) (Nat.mul 2 (Nat.land (Nat.shiftr index 1) 1))) (Nat.land (Nat.shiftr index 2) 1).
  Definition kernel_Diag3 (ds : list K) (ax : list nat) (psi : T) : T :=
    fold_left (fun t k => sl_scale ax (le_bits 3 (tqd_le_index k)) (nth k ds z1) t) (seq 0 (length ds)) psi.
End Kernels2.
