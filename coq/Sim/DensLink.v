(* Vocabulary for the theorem linking the two hand-written reference semantics of Sim/Measure.v: the ensemble of
   pure-state branches (`step`/`exec`) and the density-operator form (`dstep`/`dexec`).  A density branch is tracked
   by a GROUP of ensemble branches with the same weight and records whose outer products sum to its rho (Kraus
   channels and resets merge what the ensemble semantics splits).  Definitions only; theorems in DensLinkProofs.v. *)
From Coq Require Import List Arith Bool Permutation.
From VF Require Import Base.RingOps Base.Mat Base.Tensor Gates.Families Sim.Ref Sim.Measure Sim.KronState.
Import ListNotations.

Section DensLink.
  Context {K : Type} (O : Ops K).

  Definition tconj (p : tensor (K:=K)) : tensor (K:=K) := fun i => kconj O (p i).
  (* |p><p| as a tensor over a doubled shape: row digits on the first n axes, column digits on the rest *)
  Definition dyad (n : nat) (p : tensor (K:=K)) : tensor (K:=K) := tprod O n p (tconj p).
  (* the same for a tabulated state *)
  Definition dyf (sh : list nat) (psi : list K) : tensor (K:=K) := dyad (length sh) (untab O sh psi).
  (* m rho m^dagger on function tensors over the doubled shape (what dm_apply tabulates) *)
  Definition apply2 (m : matrix (K:=K)) (dims ax : list nat) (n : nat) (F : tensor (K:=K)) : tensor (K:=K) :=
    apply O (mat_of O dims (mconj O m)) dims (shift_ax n ax) (apply O (mat_of O dims m) dims ax F).

  (* well-shapedness of an operation's axes: inside the register, and its digit ranges fit the axes' dimensions *)
  Definition axes_ok (sh dims ax : list nat) : Prop :=
    Forall2 (fun a d => a < length sh /\ d <= nth a sh 0) ax dims.
  Definition op_ok (sh : list nat) (o : mop (K:=K)) : Prop :=
    match o with
    | MGate g => axes_ok sh (gate_dims (fst g)) (snd g)
    | MMeasure _ ax _ _ => forall a, In a ax -> a < length sh
    | MCtrl _ g => axes_ok sh (gate_dims (fst g)) (snd g)
    | MKraus _ dims ax => axes_ok sh dims ax
    | MKrausKeyed _ _ dims ax => axes_ok sh dims ax
    | MReset a => a < length sh
    end.

  (* the density branch of a pure ensemble branch *)
  Definition lift_branch (b : branch (K:=K)) : dbranch (K:=K) :=
    {| dw := bw b; drec := brec b; drho := concat (outer O (bpsi b)) |}.
  Definition vsum (z : list K) (l : list (list K)) : list K := fold_right (vadd O) z l.

  (* sum of the outer products of a group of branches, as a tensor over sh ++ sh *)
  Definition gsum (sh : list nat) (g : list (branch (K:=K))) : tensor (K:=K) :=
    fun i => ksum O (map (fun b => dyf sh (bpsi b) i) g).
  Definition grp (sh : list nat) (d : dbranch (K:=K)) (g : list (branch (K:=K))) : Prop :=
    Forall (fun b => bw b = dw d /\ brec b = drec d /\ length (bpsi b) = length (enum sh)) g
    /\ drho d = tab (sh ++ sh) (gsum sh g).
  (* the density branches ds track the ensemble bs: bs splits (up to order) into one group per density branch *)
  Definition tracks (sh : list nat) (ds : list (dbranch (K:=K))) (bs : list (branch (K:=K))) : Prop :=
    exists gs, Permutation (concat gs) bs /\ Forall2 (grp sh) ds gs.
  (* weighted sum of outer products of an ensemble, as a tensor over sh ++ sh *)
  Definition esum (sh : list nat) (bs : list (branch (K:=K))) : tensor (K:=K) :=
    fun i => ksum O (map (fun b => kmul O (bw b) (dyf sh (bpsi b) i)) bs).
End DensLink.
