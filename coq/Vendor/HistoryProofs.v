(* C17 — histories of calls on one sampler object: which samplers post, at every call, the circuit as it is then. *)
From Coq Require Import List Arith Bool Lia.
From VF Require Import Vendor.History.
Import ListNotations.

Lemma content_eqb_eq : forall a b, content_eqb a b = true -> a = b.
Proof.
  induction a as [|x a IH]; intros [|y b] H; simpl in H; try discriminate; [reflexivity|].
  apply andb_true_iff in H. destruct H as [Hx Ha]. apply Nat.eqb_eq in Hx. subst y. f_equal. apply IH. exact Ha.
Qed.

Lemma content_eqb_refl : forall a, content_eqb a a = true.
Proof. induction a as [|x a IH]; simpl; [reflexivity|]. rewrite Nat.eqb_refl. exact IH. Qed.

Lemma payload_eqb_eq : forall a b, payload_eqb a b = true <-> a = b.
Proof.
  induction a as [|[x1 x2] a IH]; intros [|[y1 y2] b]; simpl; split; intros H; try discriminate; try reflexivity.
  - unfold rop_eqb in H. simpl in H. apply andb_true_iff in H. destruct H as [H1 H2]. apply andb_true_iff in H1.
    destruct H1 as [Ha Hb]. apply Nat.eqb_eq in Ha. apply Nat.eqb_eq in Hb. subst. f_equal. apply IH. exact H2.
  - injection H as H1 H2 H3. subst. unfold rop_eqb. simpl. rewrite !Nat.eqb_refl. simpl. apply IH. reflexivity.
Qed.

Lemma payloads_eqb_eq : forall a b, payloads_eqb a b = true <-> a = b.
Proof.
  induction a as [|x a IH]; intros [|y b]; simpl; split; intros H; try discriminate; try reflexivity.
  - apply andb_true_iff in H. destruct H as [H1 H2]. apply payload_eqb_eq in H1. subst. f_equal. apply IH. exact H2.
  - injection H as H1 H2. subst. apply andb_true_iff. split; [apply payload_eqb_eq; reflexivity | apply IH; reflexivity].
Qed.

(* ---- the samplers of the working tree keep nothing: every call posts the circuit as it is then ---- *)
Theorem stateless_faithful : forall params evs h,
  run (stateless params) tt h evs = expected params h evs.
Proof.
  intros params evs. induction evs as [|[o c|o e|o r] t IH]; intros h; simpl; [reflexivity| apply IH | apply IH |].
  f_equal. apply IH.
Qed.

(* the check's evaluation decides exactly the property's reading of a history *)
Theorem history_ok_spec : forall params evs posted,
  history_ok params evs posted = true <-> posted = expected params empty_heap evs.
Proof.
  intros params evs posted. unfold history_ok. rewrite stateless_faithful. rewrite payloads_eqb_eq.
  split; intros H; symmetry; exact H.
Qed.

(* ---- remembering VALUES is sound ---- *)
Definition vc_inv (params : list nat) (s : option (content * nat * payload)) : Prop :=
  match s with
  | Some (c, r, p) => p = resolve params r c
  | None => True
  end.

Lemma value_cache_faithful_inv : forall params evs h s, vc_inv params s ->
  run (value_cache params) s h evs = expected params h evs.
Proof.
  intros params evs. induction evs as [|[o c|o e|o r] t IH]; intros h s Hinv; simpl; [reflexivity| apply IH; exact Hinv | apply IH; exact Hinv |].
  destruct s as [[[c r'] p]|]; simpl.
  - destruct (content_eqb c (h o) && Nat.eqb r' r) eqn:E; simpl.
    + apply andb_true_iff in E. destruct E as [Ec Er]. apply content_eqb_eq in Ec. apply Nat.eqb_eq in Er.
      simpl in Hinv. subst. f_equal. apply IH. simpl. reflexivity.
    + f_equal. apply IH. simpl. reflexivity.
  - f_equal. apply IH. simpl. reflexivity.
Qed.

Theorem value_cache_faithful : forall params evs h,
  run (value_cache params) None h evs = expected params h evs.
Proof. intros. apply value_cache_faithful_inv. exact I. Qed.

(* ---- remembering the caller's OBJECT is not: the object compared with itself is always "the same circuit" ---- *)
Definition stale_history : list event :=
  [ENew 0 [2; 5]; ESubmit 0 1; EEdit 0 (EdInsert 1 4); ESubmit 0 1].

Theorem alias_cache_refuted : exists params evs,
  run (alias_cache params) None empty_heap evs <> expected params empty_heap evs.
Proof. exists [4], stale_history. vm_compute. discriminate. Qed.

(* what the stale call posts: the body of the EARLIER, shorter circuit *)
Theorem alias_cache_stale_body :
  run (alias_cache [4]) None empty_heap stale_history = [[(2, 0); (5, 0)]; [(2, 0); (5, 0)]]
  /\ expected [4] empty_heap stale_history = [[(2, 0); (5, 0)]; [(2, 0); (4, 1); (5, 0)]].
Proof. split; vm_compute; reflexivity. Qed.

(* ... and it is in-place mutation alone that exposes it: on histories in which every object is created once and
   never edited (fresh circuit objects, frozen circuits, other resolvers, sweeps) the aliasing sampler is faithful.
   This is the class of histories for which per-call tests cannot tell the two samplers apart. *)
Fixpoint immutable_history (used : list nat) (evs : list event) : Prop :=
  match evs with
  | [] => True
  | ENew o _ :: t => ~ In o used /\ immutable_history (o :: used) t
  | EEdit _ _ :: _ => False
  | ESubmit o _ :: t => In o used /\ immutable_history used t
  end.

Definition ac_inv (params : list nat) (used : list nat) (h : heap) (s : option (nat * nat * payload)) : Prop :=
  match s with
  | Some (o, r, p) => In o used /\ p = resolve params r (h o)
  | None => True
  end.

Lemma alias_cache_faithful_inv : forall params evs used h s, immutable_history used evs -> ac_inv params used h s ->
  run (alias_cache params) s h evs = expected params h evs.
Proof.
  intros params evs. induction evs as [|[o c|o e|o r] t IH]; intros used h s Him Hinv; simpl; [reflexivity| | |].
  - simpl in Him. destruct Him as [Hfresh Him]. apply (IH (o :: used)); [exact Him|].
    destruct s as [[[o' r'] p]|]; simpl; [|exact I]. simpl in Hinv. destruct Hinv as [Hin Hp]. split; [right; exact Hin|].
    unfold upd. destruct (Nat.eqb o' o) eqn:E; [|exact Hp]. apply Nat.eqb_eq in E. subst o'. contradiction.
  - simpl in Him. contradiction.
  - simpl in Him. destruct Him as [Hin Him].
    destruct s as [[[o' r'] p]|]; simpl.
    + simpl in Hinv. destruct Hinv as [Hin' Hp].
      destruct (content_eqb (h o') (h o) && Nat.eqb r' r) eqn:E; simpl.
      * apply andb_true_iff in E. destruct E as [Ec Er]. apply content_eqb_eq in Ec. apply Nat.eqb_eq in Er. subst r'.
        rewrite Hp. rewrite Ec. f_equal. apply (IH used); [exact Him|]. simpl. split; [exact Hin'|]. rewrite Ec. reflexivity.
      * f_equal. apply (IH used); [exact Him|]. simpl. split; [exact Hin|reflexivity].
    + f_equal. apply (IH used); [exact Him|]. simpl. split; [exact Hin|reflexivity].
Qed.

Theorem alias_cache_faithful_without_mutation : forall params evs,
  immutable_history [] evs -> run (alias_cache params) None empty_heap evs = expected params empty_heap evs.
Proof. intros params evs H. apply (alias_cache_faithful_inv params evs [] empty_heap None H). exact I. Qed.

Example immutable_history_inhabited :
  immutable_history [] [ENew 0 [2; 5]; ESubmit 0 1; ENew 1 [2; 4; 5]; ESubmit 1 1; ESubmit 0 2; ESubmit 1 1].
Proof. simpl. repeat split; try (intros [H|H]; [discriminate H | contradiction]); try (intros []); auto. Qed.

(* list edits: what in-place insertion / deletion / replacement do to the content *)
Lemma insert_at_length : forall i x c, length (insert_at i x c) = S (length c).
Proof. induction i as [|i IH]; intros x [|y c]; simpl; try reflexivity. f_equal. apply IH. Qed.

Lemma insert_at_app : forall a b x, insert_at (length a) x (a ++ b) = a ++ x :: b.
Proof. induction a as [|y a IH]; intros b x; simpl; [destruct b; reflexivity|]. f_equal. apply IH. Qed.

Lemma delete_at_app : forall a b x, delete_at (length a) (a ++ x :: b) = a ++ b.
Proof. induction a as [|y a IH]; intros b x; simpl; [reflexivity|]. f_equal. apply IH. Qed.

Lemma set_at_app : forall a b x y, set_at (length a) y (a ++ x :: b) = a ++ y :: b.
Proof. induction a as [|z a IH]; intros b x y; simpl; [reflexivity|]. f_equal. apply IH. Qed.

Lemma delete_insert : forall a b x, delete_at (length a) (insert_at (length a) x (a ++ b)) = a ++ b.
Proof. intros. rewrite insert_at_app. apply delete_at_app. Qed.
