(* C19.D3 - the KAK-based two-qubit fallback (definitions only): the interaction part exp(i(x XX + y YY + z ZZ)) of a KAK
   decomposition, and the gate sequence QasmTwoQubitGate._decompose_ yields for it, read through the `_qasm_` rules and
   qelib1.inc.  Units: ux = exp(i x), uy = exp(i y), uz = exp(i z). *)
From Coq Require Import List ZArith.
From VF Require Import Base.RingOps Base.Mat Base.Tensor Gates.GateSpecs Vendor.Qasm.
Import ListNotations.

Section Kak.
  Context {K : Type} (O : Ops K).
  Infix "+" := (kadd O). Infix "*" := (kmul O). Infix "-" := (ksub O).
  Notation "- a" := (kopp O a).
  Notation z0 := (k0 O). Notation z1 := (k1 O). Notation hf := (khalf O). Notation ii := (ki O). Notation s2 := (ks2 O).
  (* exp(i x P(x)P) = cos x + i sin x P(x)P, since (P(x)P)^2 = 1 *)
  Definition pp (p : nat) : matrix := kron O (pauli_mat O p) (pauli_mat O p).
  Definition exp_pp (p : nat) (u uc : K) : matrix := madd O (mscale O (cosu O u uc) (mid O 4)) (mscale O (ii * sinu O u uc) (pp p)).
  Definition kak_interaction (ux uxc uy uyc uz uzc : K) : matrix := mmul O (exp_pp 0 ux uxc) (mmul O (exp_pp 1 uy uyc) (exp_pp 2 uz uzc)).
  (* what QasmTwoQubitGate._decompose_ yields between the four u3 gates, as emitted by the `_qasm_` rules and read with qelib1.inc:
     sx q0; cx q0,q1; rx(pi a) q0; ry(pi b) q1;   then   cx q1,q0; sxdg q1; rz(pi c) q1; cx q0,q1
     with a = 1/2 - 2x/pi etc., i.e. half-angle units exp(i pi a/2) = conj(ux) * w8 for ux = exp(i x) *)
  Definition kak_half1 (ux uxc uy uyc : K) : matrix :=
    mprod O 4 [on0 O (q_sx O); q_CX O; on0 O (q_rx O (uxc * w8 O) (ux * w8c O)); on1 O (q_ry O (uyc * w8 O) (uy * w8c O))].
  Definition kak_half2 (uz uzc : K) : matrix :=
    mprod O 4 [q_CXr O; on1 O (q_sxdg O); on1 O (q_rz O (uzc * w8 O) (uz * w8c O)); q_CX O].
  Definition kak_core (ux uxc uy uyc uz uzc : K) : matrix := mmul O (kak_half2 uz uzc) (kak_half1 ux uxc uy uyc).
  (* version 3.0 (stdgates.inc has no sxdg): X**-0.5 is emitted as rx(pi*-0.5), half-angle unit exp(-i pi/4);
     cx q1,q0; rx(pi*-0.5) q1; rz(pi c) q1; cx q0,q1   read with stdgates.inc *)
  Definition kak_half2_v3 (uz uzc : K) : matrix :=
    mprod O 4 [body_unitary O 2 [(qmat O true QCx, [1; 0])]; on1 O (qmat O true (QRx (w8c O) (w8 O)));
               on1 O (qmat O true (QRz (uzc * w8 O) (uz * w8c O))); qmat O true QCx].
  Definition kak_half1_v3 (ux uxc uy uyc : K) : matrix :=
    mprod O 4 [on0 O (qmat O true QSx); qmat O true QCx; on0 O (qmat O true (QRx (uxc * w8 O) (ux * w8c O)));
               on1 O (qmat O true (QRy (uyc * w8 O) (uy * w8c O)))].
  Definition kak_core_v3 (ux uxc uy uyc uz uzc : K) : matrix := mmul O (kak_half2_v3 uz uzc) (kak_half1_v3 ux uxc uy uyc).
End Kak.
