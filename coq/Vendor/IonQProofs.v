(* C17.D1: for every dispatch branch of cirq_ionq's serializer the vendor meaning of what is emitted equals
   the Cirq gate's matrix (regenerated eigen table, summed as EigenGate._unitary_ does) up to an explicit
   unit factor -- for EVERY exponent of the branch's class (stated as what the class says about
   r = exp(i pi e/2)) and for ALL exponents in the rotation branches.  Generic-ring identities under
   r * rc = 1, hence valid over C. *)
From Coq Require Import String Ring List ZArith Bool.
From VF Require Import Base.RingOps Base.Mat Gates.EigenGate Gates.GateSpecs Generated.EigenTables Gates.Families
  Gates.GateProofs Gates.MatTac Vendor.IonQ.
Import ListNotations.

Section Proofs.
  Context {K : Type} (O : Ops K) (L : Laws O).
  Add Ring Kring17 : (law_ring O L).
  Infix "+" := (kadd O). Infix "*" := (kmul O). Infix "-" := (ksub O).
  Notation "- a" := (kopp O a).
  Notation z0 := (k0 O). Notation z1 := (k1 O). Notation hf := (khalf O). Notation ii := (ki O). Notation s2 := (ks2 O).

  Let half2 : (z1 + z1) * hf = z1 := half2 O L.
  Let ii2 : ii * ii = - z1 := ii2 O L.
  Let s22 : s2 * s2 = hf := s22 O L.

  Variables r rc g : K.
  Hypothesis U : r * rc = z1.

  (* what the class hypotheses say about the inverse rc *)
  Lemma rc_one : r * r = - z1 -> rc = - r.
  Proof. intros H. transitivity (rc * (- (r * r))); [rewrite H; ring|]. transitivity (- (r * rc) * r); [ring|]. rewrite U. ring. Qed.
  Lemma rc_half : r * r = ii -> rc = - ii * r.
  Proof.
    intros H. transitivity (- ii * (r * r) * rc); [rewrite H; ring [ii2]|].
    transitivity (- ii * r * (r * rc)); [ring|]. rewrite U. ring.
  Qed.
  Lemma rc_mhalf : r * r = - ii -> rc = ii * r.
  Proof.
    intros H. transitivity (ii * (r * r) * rc); [rewrite H; ring [ii2]|].
    transitivity (ii * r * (r * rc)); [ring|]. rewrite U. ring.
  Qed.

  Ltac start fam lem := change (gate_model O (GEig fam r rc g)) with (eig_unitary O (eig_tbl O fam) r rc g);
                        simpl eig_tbl; rewrite (lem K O L r rc g U).
  Ltac entries := mat_entries ltac:(first [ ring [U ii2 half2 s22]
                                          | apply (cancel2 O L); ring [U ii2 half2 s22]
                                          | do 2 apply (cancel2 O L); ring [U ii2 half2 s22] ]).

  (* ---- rotation branches: every exponent ---- *)
  Theorem ionq_branch_rx :
    gate_model O (GEig EXPow r rc g) = mscale O (g * r) (ionq_gate_matrix O Nrx [r; rc]).
  Proof. start EXPow @eig_XPow. entries. Qed.
  Theorem ionq_branch_ry :
    gate_model O (GEig EYPow r rc g) = mscale O (g * r) (ionq_gate_matrix O Nry [r; rc]).
  Proof. start EYPow @eig_YPow. entries. Qed.
  Theorem ionq_branch_rz :
    gate_model O (GEig EZPow r rc g) = mscale O (g * r) (ionq_gate_matrix O Nrz [r; rc]).
  Proof. start EZPow @eig_ZPow. entries. Qed.
  Theorem ionq_branch_xx :
    gate_model O (GEig EXXPow r rc g) = mscale O (g * r) (ionq_gate_matrix O Nxx [r; rc]).
  Proof. start EXXPow @eig_XXPow. entries. Qed.
  Theorem ionq_branch_yy :
    gate_model O (GEig EYYPow r rc g) = mscale O (g * r) (ionq_gate_matrix O Nyy [r; rc]).
  Proof. start EYYPow @eig_YYPow. entries. Qed.
  Theorem ionq_branch_zz :
    gate_model O (GEig EZZPow r rc g) = mscale O (g * r) (ionq_gate_matrix O Nzz [r; rc]).
  Proof. start EZZPow @eig_ZZPow. entries. Qed.
  (* ---- special-cased exponents: every exponent of the class ---- *)
  Ltac entries_with E H := mat_entries ltac:(first [ ring [E H U ii2 half2 s22]
                                          | apply (cancel2 O L); ring [E H U ii2 half2 s22]
                                          | do 2 apply (cancel2 O L); ring [E H U ii2 half2 s22] ]).

  Section ClassOne.         (* e = 1 (mod 2):  exp(i pi e) = -1 *)
    Hypothesis H : r * r = - z1.
    Let E := rc_one H.
    Theorem ionq_branch_x : gate_model O (GEig EXPow r rc g) = mscale O g (ionq_gate_matrix O Nx []).
    Proof. start EXPow @eig_XPow. entries_with E H. Qed.
    Theorem ionq_branch_y : gate_model O (GEig EYPow r rc g) = mscale O g (ionq_gate_matrix O Ny []).
    Proof. start EYPow @eig_YPow. entries_with E H. Qed.
    Theorem ionq_branch_z : gate_model O (GEig EZPow r rc g) = mscale O g (ionq_gate_matrix O Nz []).
    Proof. start EZPow @eig_ZPow. entries_with E H. Qed.
    Theorem ionq_branch_h : gate_model O (GEig EHPow r rc g) = mscale O g (ionq_gate_matrix O Nh []).
    Proof. start EHPow @eig_HPow. entries_with E H. Qed.
    Theorem ionq_branch_cnot : gate_model O (GEig ECXPow r rc g) = mscale O g (ionq_gate_matrix O Ncnot []).
    Proof. start ECXPow @eig_CXPow. entries_with E H. Qed.
    Theorem ionq_branch_swap : gate_model O (GEig ESwapPow r rc g) = mscale O g (ionq_gate_matrix O Nswap []).
    Proof. start ESwapPow @eig_SwapPow. entries_with E H. Qed.
  End ClassOne.

  Section ClassHalf.        (* e = 1/2 (mod 2):  exp(i pi e) = i *)
    Hypothesis H : r * r = ii.
    Let E := rc_half H.
    Theorem ionq_branch_v : gate_model O (GEig EXPow r rc g) = mscale O g (ionq_gate_matrix O Nv []).
    Proof. start EXPow @eig_XPow. entries_with E H. Qed.
    Theorem ionq_branch_s : gate_model O (GEig EZPow r rc g) = mscale O g (ionq_gate_matrix O Ns []).
    Proof. start EZPow @eig_ZPow. entries_with E H. Qed.
  End ClassHalf.

  Section ClassMinusHalf.   (* e = -1/2 (mod 2):  exp(i pi e) = -i *)
    Hypothesis H : r * r = - ii.
    Let E := rc_mhalf H.
    Theorem ionq_branch_vi : gate_model O (GEig EXPow r rc g) = mscale O g (ionq_gate_matrix O Nvi []).
    Proof. start EXPow @eig_XPow. entries_with E H. Qed.
    Theorem ionq_branch_si : gate_model O (GEig EZPow r rc g) = mscale O g (ionq_gate_matrix O Nsi []).
    Proof. start EZPow @eig_ZPow. entries_with E H. Qed.
  End ClassMinusHalf.

  Section ClassQuarter.     (* e = 1/4 (mod 2):  exp(i pi e) = (1 + i)/sqrt 2 *)
    Hypothesis H : r * r = s2 * (z1 + ii).
    Theorem ionq_branch_t : gate_model O (GEig EZPow r rc g) = mscale O g (ionq_gate_matrix O Nt []).
    Proof. start EZPow @eig_ZPow. entries_with H H. Qed.
  End ClassQuarter.
  Section ClassMinusQuarter. (* e = -1/4 (mod 2):  exp(i pi e) = (1 - i)/sqrt 2 *)
    Hypothesis H : r * r = s2 * (z1 - ii).
    Theorem ionq_branch_ti : gate_model O (GEig EZPow r rc g) = mscale O g (ionq_gate_matrix O Nti []).
    Proof. start EZPow @eig_ZPow. entries_with H H. Qed.
  End ClassMinusQuarter.
  (* ---- native gates: the emitted parameters mean the same native gate ---- *)
  Theorem ionq_native_gpi p pc : gate_model O (GGPI p pc) = ionq_gate_matrix O Ngpi [p; pc].
  Proof. mat_entries ltac:(ring). Qed.
  Theorem ionq_native_gpi2 p pc : gate_model O (GGPI2 p pc) = ionq_gate_matrix O Ngpi2 [p; pc].
  Proof. mat_entries ltac:(ring). Qed.
  (* Cirq's MSGate(phi0, phi1, theta) takes a = exp(2 pi i (phi0+phi1)), b = exp(2 pi i (phi0-phi1)); the payload carries
     phases = [phi0, phi1] and angle = theta, which the vendor reads as p0 = exp(2 pi i phi0), p1 = exp(2 pi i phi1) *)
  Theorem ionq_native_ms p0 p0c p1 p1c t tc :
    gate_model O (GIonqMS (p0 * p1) (p0c * p1c) (p0 * p1c) (p0c * p1) t tc) = ionq_gate_matrix O Nms [p0; p0c; p1; p1c; t; tc].
  Proof. mat_entries ltac:(ring). Qed.
  Theorem ionq_native_zz t tc : gate_model O (GIonqZZ t tc) = ionq_gate_matrix O Nnzz [t; tc].
  Proof. mat_entries ltac:(ring). Qed.
End Proofs.

(* ---- the dispatch as a whole: whatever the decision function emits for a family in a class means the Cirq gate ---- *)
Theorem ionq_dispatch_sound : forall K (O : Ops K), Laws O -> forall (f : ifam) (c : eclass) (r rc g : K),
  kmul O r rc = k1 O -> class_hyp O c r -> forall m, ionq_emit_matrix O f c r rc = Some m ->
  gate_model O (GEig (ifam_eig f) r rc g) = mscale O (emit_phase O f c r g) m.
Proof.
  intros K O L f c r rc g U H m E.
  destruct f, c; cbv [ionq_emit_matrix ionq_dispatch ionq_name String.eqb Ascii.eqb Bool.eqb] in E; simpl in E;
    inversion E; subst m; clear E; cbv [emit_phase ionq_dispatch ifam_eig]; simpl in H;
    first [ apply (ionq_branch_x O L r rc g U H) | apply (ionq_branch_v O L r rc g U H) | apply (ionq_branch_vi O L r rc g U H)
          | apply (ionq_branch_rx O L r rc g U) | apply (ionq_branch_y O L r rc g U H) | apply (ionq_branch_ry O L r rc g U)
          | apply (ionq_branch_z O L r rc g U H) | apply (ionq_branch_s O L r rc g U H) | apply (ionq_branch_si O L r rc g U H)
          | apply (ionq_branch_t O L r rc g U H) | apply (ionq_branch_ti O L r rc g U H) | apply (ionq_branch_rz O L r rc g U)
          | apply (ionq_branch_xx O L r rc g U) | apply (ionq_branch_yy O L r rc g U) | apply (ionq_branch_zz O L r rc g U)
          | apply (ionq_branch_cnot O L r rc g U H) | apply (ionq_branch_h O L r rc g U H) | apply (ionq_branch_swap O L r rc g U H) ].
Qed.

(* ---- D4: pauliexp.  Cirq's PauliStringPhasorGate (documented: e^{i pi exponent_pos} on the +1 eigenspace, e^{i pi exponent_neg}
   on the -1 eigenspace of the string) equals, up to the unit factor x*y = e^{i pi (exponent_pos+exponent_neg)/2}, the vendor's
   exp(-i time P) with time = pi (exponent_neg - exponent_pos)/2 -- for strings of ANY length, with the emitted term string the
   REVERSE of Cirq's big-endian string (little-endian convention).  x = e^{i pi exponent_pos/2}, y = e^{i pi exponent_neg/2};
   the vendor's unit is u = e^{i time} = y/x (x/y when the coefficient -1 has been folded into the exponents). *)
Section PauliExp.
  Context {K : Type} (O : Ops K) (L : Laws O).
  Add Ring Kring17b : (law_ring O L).
  Infix "+" := (kadd O). Infix "*" := (kmul O). Infix "-" := (ksub O).
  Notation "- a" := (kopp O a).
  Notation z1 := (k1 O). Notation hf := (khalf O). Notation ii := (ki O).

  Lemma vscale_vadd f a : forall b, vscale O f (vadd O a b) = vadd O (vscale O f a) (vscale O f b).
  Proof. induction a as [|x a IH]; intros [|y b]; try reflexivity. change (f * (x + y) :: vscale O f (vadd O a b) = (f * x + f * y) :: vadd O (vscale O f a) (vscale O f b)). apply (f_equal2 cons); [ring | apply IH]. Qed.
  Lemma mscale_madd f A : forall B, mscale O f (madd O A B) = madd O (mscale O f A) (mscale O f B).
  Proof. induction A as [|x A IH]; intros [|y B]; simpl; try reflexivity. apply (f_equal2 cons); [apply vscale_vadd | apply IH]. Qed.
  Lemma vscale_vscale f c a : vscale O f (vscale O c a) = vscale O (f * c) a.
  Proof. induction a as [|x a IH]; simpl; [reflexivity|]. apply (f_equal2 cons); [ring | apply IH]. Qed.
  Lemma mscale_mscale f c A : mscale O f (mscale O c A) = mscale O (f * c) A.
  Proof. induction A as [|x A IH]; simpl; [reflexivity|]. apply (f_equal2 cons); [apply vscale_vscale | apply IH]. Qed.

  Variables x xc y yc : K.
  Hypothesis Ux : x * xc = z1.
  Hypothesis Uy : y * yc = z1.

  Theorem pauliexp_endianness (codes : list nat) (neg : bool) :
    cirq_psp_matrix O codes neg x y
    = mscale O (x * y) (ionq_pauliexp_matrix O (rev codes) (if neg then x * yc else y * xc) (if neg then y * xc else x * yc)).
  Proof.
    unfold cirq_psp_matrix, ionq_pauliexp_matrix. rewrite rev_involutive, rev_length.
    rewrite mscale_madd, !mscale_mscale.
    pose proof (half2 O L) as H2. pose proof (ii2 O L) as I2.
    assert (Vx : xc * x = z1) by (rewrite <- Ux; ring).
    assert (Vy : yc * y = z1) by (rewrite <- Uy; ring).
    destruct neg; (apply (f_equal2 (madd O));
      [apply (f_equal (fun c => mscale O c (mid O (Nat.pow 2 (length codes)))))
      | apply (f_equal (fun c => mscale O c (pauli_product O codes)))]); ring [Ux Uy I2].
  Qed.
End PauliExp.
