(* C17.D1: for every dispatch branch of cirq_ionq's serializer the vendor meaning of what is emitted equals
   the Cirq gate's matrix (regenerated eigen table, summed as EigenGate._unitary_ does) up to an explicit
   unit factor -- for EVERY exponent of the branch's class (stated as what the class says about
   r = exp(i pi e/2)) and for ALL exponents in the rotation branches.  Generic-ring identities under
   r * rc = 1, hence valid over C. *)
From Coq Require Import String Ring List ZArith Bool.
From VF Require Import Base.RingOps Base.Mat Gates.EigenGate Gates.GateSpecs Generated.EigenTables Gates.Families
  Gates.GateProofs Gates.MatTac Vendor.IonQ.
Import ListNotations.

Section Proofs.
  Context {K : Type} (O : Ops K) (L : Laws O).
  Add Ring Kring17 : (law_ring O L).
  Infix "+" := (kadd O). Infix "*" := (kmul O). Infix "-" := (ksub O).
  Notation "- a" := (kopp O a).
  Notation z0 := (k0 O). Notation z1 := (k1 O). Notation hf := (khalf O). Notation ii := (ki O). Notation s2 := (ks2 O).

  Let half2 : (z1 + z1) * hf = z1 := half2 O L.
  Let ii2 : ii * ii = - z1 := ii2 O L.
  Let s22 : s2 * s2 = hf := s22 O L.

  Variables r rc g : K.
  Hypothesis U : r * rc = z1.

  (* what the class hypotheses say about the inverse rc *)
  Lemma rc_one : r * r = - z1 -> rc = - r.
  Proof. intros H. transitivity (rc * (- (r * r))); [rewrite H; ring|]. transitivity (- (r * rc) * r); [ring|]. rewrite U. ring. Qed.
  Lemma rc_half : r * r = ii -> rc = - ii * r.
  Proof.
    intros H. transitivity (- ii * (r * r) * rc); [rewrite H; ring [ii2]|].
    transitivity (- ii * r * (r * rc)); [ring|]. rewrite U. ring.
  Qed.
  Lemma rc_mhalf : r * r = - ii -> rc = ii * r.
  Proof.
    intros H. transitivity (ii * (r * r) * rc); [rewrite H; ring [ii2]|].
    transitivity (ii * r * (r * rc)); [ring|]. rewrite U. ring.
  Qed.

  Ltac start fam lem := change (gate_model O (GEig fam r rc g)) with (eig_unitary O (eig_tbl O fam) r rc g);
                        simpl eig_tbl; rewrite (lem K O L r rc g U).
  Ltac entries := mat_entries ltac:(first [ ring [U ii2 half2 s22]
                                          | apply (cancel2 O L); ring [U ii2 half2 s22]
                                          | do 2 apply (cancel2 O L); ring [U ii2 half2 s22] ]).

  (* ---- rotation branches: every exponent ---- *)
  Theorem ionq_branch_rx :
    gate_model O (GEig EXPow r rc g) = mscale O (g * r) (ionq_gate_matrix O Nrx [r; rc]).
  Proof. start EXPow @eig_XPow. entries. Qed.
  Theorem ionq_branch_ry :
    gate_model O (GEig EYPow r rc g) = mscale O (g * r) (ionq_gate_matrix O Nry [r; rc]).
  Proof. start EYPow @eig_YPow. entries. Qed.
  Theorem ionq_branch_rz :
    gate_model O (GEig EZPow r rc g) = mscale O (g * r) (ionq_gate_matrix O Nrz [r; rc]).
  Proof. start EZPow @eig_ZPow. entries. Qed.
  Theorem ionq_branch_xx :
    gate_model O (GEig EXXPow r rc g) = mscale O (g * r) (ionq_gate_matrix O Nxx [r; rc]).
  Proof. start EXXPow @eig_XXPow. entries. Qed.
  Theorem ionq_branch_yy :
    gate_model O (GEig EYYPow r rc g) = mscale O (g * r) (ionq_gate_matrix O Nyy [r; rc]).
  Proof. start EYYPow @eig_YYPow. entries. Qed.
  Theorem ionq_branch_zz :
    gate_model O (GEig EZZPow r rc g) = mscale O (g * r) (ionq_gate_matrix O Nzz [r; rc]).
  Proof. start EZZPow @eig_ZZPow. entries. Qed.
  (* ---- special-cased exponents: every exponent of the class ---- *)
  Ltac entries_with E H := mat_entries ltac:(first [ ring [E H U ii2 half2 s22]
                                          | apply (cancel2 O L); ring [E H U ii2 half2 s22]
                                          | do 2 apply (cancel2 O L); ring [E H U ii2 half2 s22] ]).

  Section ClassOne.         (* e = 1 (mod 2):  exp(i pi e) = -1 *)
    Hypothesis H : r * r = - z1.
    Let E := rc_one H.
    Theorem ionq_branch_x : gate_model O (GEig EXPow r rc g) = mscale O g (ionq_gate_matrix O Nx []).
    Proof. start EXPow @eig_XPow. entries_with E H. Qed.
    Theorem ionq_branch_y : gate_model O (GEig EYPow r rc g) = mscale O g (ionq_gate_matrix O Ny []).
    Proof. start EYPow @eig_YPow. entries_with E H. Qed.
    Theorem ionq_branch_z : gate_model O (GEig EZPow r rc g) = mscale O g (ionq_gate_matrix O Nz []).
    Proof. start EZPow @eig_ZPow. entries_with E H. Qed.
    Theorem ionq_branch_h : gate_model O (GEig EHPow r rc g) = mscale O g (ionq_gate_matrix O Nh []).
    Proof. start EHPow @eig_HPow. entries_with E H. Qed.
    Theorem ionq_branch_cnot : gate_model O (GEig ECXPow r rc g) = mscale O g (ionq_gate_matrix O Ncnot []).
    Proof. start ECXPow @eig_CXPow. entries_with E H. Qed.
    Theorem ionq_branch_swap : gate_model O (GEig ESwapPow r rc g) = mscale O g (ionq_gate_matrix O Nswap []).
    Proof. start ESwapPow @eig_SwapPow. entries_with E H. Qed.
  End ClassOne.

  Section ClassHalf.        (* e = 1/2 (mod 2):  exp(i pi e) = i *)
    Hypothesis H : r * r = ii.
    Let E := rc_half H.
    Theorem ionq_branch_v : gate_model O (GEig EXPow r rc g) = mscale O g (ionq_gate_matrix O Nv []).
    Proof. start EXPow @eig_XPow. entries_with E H. Qed.
    Theorem ionq_branch_s : gate_model O (GEig EZPow r rc g) = mscale O g (ionq_gate_matrix O Ns []).
    Proof. start EZPow @eig_ZPow. entries_with E H. Qed.
  End ClassHalf.

  Section ClassMinusHalf.   (* e = -1/2 (mod 2):  exp(i pi e) = -i *)
    Hypothesis H : r * r = - ii.
    Let E := rc_mhalf H.
    Theorem ionq_branch_vi : gate_model O (GEig EXPow r rc g) = mscale O g (ionq_gate_matrix O Nvi []).
    Proof. start EXPow @eig_XPow. entries_with E H. Qed.
    Theorem ionq_branch_si : gate_model O (GEig EZPow r rc g) = mscale O g (ionq_gate_matrix O Nsi []).
    Proof. start EZPow @eig_ZPow. entries_with E H. Qed.
  End ClassMinusHalf.

  Section ClassQuarter.     (* e = 1/4 (mod 2):  exp(i pi e) = (1 + i)/sqrt 2 *)
    Hypothesis H : r * r = s2 * (z1 + ii).
    Theorem ionq_branch_t : gate_model O (GEig EZPow r rc g) = mscale O g (ionq_gate_matrix O Nt []).
    Proof. start EZPow @eig_ZPow. entries_with H H. Qed.
  End ClassQuarter.
  Section ClassMinusQuarter. (* e = -1/4 (mod 2):  exp(i pi e) = (1 - i)/sqrt 2 *)
    Hypothesis H : r * r = s2 * (z1 - ii).
    Theorem ionq_branch_ti : gate_model O (GEig EZPow r rc g) = mscale O g (ionq_gate_matrix O Nti []).
    Proof. start EZPow @eig_ZPow. entries_with H H. Qed.
  End ClassMinusQuarter.
End Proofs.
