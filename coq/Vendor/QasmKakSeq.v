(* C19.D3b - the whole sequence QasmTwoQubitGate._decompose_ yields for a KAK decomposition (definitions only):
   u3(before_0) q0; u3(before_1) q1;  <the interaction core of Vendor/QasmKak.v>;  u3(after_0) q0; u3(after_1) q1
   and the unitary of the decomposition it stands for,  (after_0 (x) after_1) . exp(i(x XX + y YY + z ZZ)) . (before_0 (x) before_1).
   The one-qubit factors are arbitrary 2x2 matrices (each u3 statement is compared with the matrix it was computed from by the
   per-program validation); the point of the model is the ORDER in which the factors act. *)
From Coq Require Import List ZArith.
From VF Require Import Base.RingOps Base.Mat Base.Tensor Gates.GateSpecs Vendor.Qasm Vendor.QasmKak.
Import ListNotations.

Section KakSeq.
  Context {K : Type} (O : Ops K).
  Definition m2 (a b c d : K) : matrix := [[a; b]; [c; d]].
  Definition m4 (c00 c01 c02 c03 c10 c11 c12 c13 c20 c21 c22 c23 c30 c31 c32 c33 : K) : matrix :=
    [[c00; c01; c02; c03]; [c10; c11; c12; c13]; [c20; c21; c22; c23]; [c30; c31; c32; c33]].
  (* statements in program order (mprod applies the first statement first) *)
  Definition kak_sequence (core b0 b1 a0 a1 : matrix (K:=K)) : matrix :=
    mprod O 4 [on0 O b0; on1 O b1; core; on0 O a0; on1 O a1].
  (* unitary of a KAK decomposition: the `before` factors act first, the `after` factors last *)
  Definition kak_unitary (inter b0 b1 a0 a1 : matrix (K:=K)) : matrix :=
    mmul O (kron O a0 a1) (mmul O inter (kron O b0 b1)).
  (* a tensor product A (x) B has interaction coefficients 0; its KAK decomposition has A = after_0 . before_0, B = after_1 . before_1 *)
  Definition local_product (b0 b1 a0 a1 : matrix (K:=K)) : matrix := kron O (mmul O a0 b0) (mmul O a1 b1).
End KakSeq.
