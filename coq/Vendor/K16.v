(* The exact instance K16 = Q(zeta_16) = K8[w]/(w^2 - zeta_8): pairs (a, b) = a + b w over K8.  It contains a square root of
   zeta_8 = (1+i)/sqrt 2, i.e. a unit r with r^2 = exp(i pi/4): the classes e = +-1/4 (mod 2) of the IonQ dispatch theorems
   (gates t / ti) are inhabited here.  Used only for non-vacuity Examples. *)
From Coq Require Import QArith Qcanon Ring.
From VF Require Import Base.RingOps Base.K8.

Local Open Scope Qc_scope.
Definition z8 : K8 := mk8 0 1 0 0.
Definition z8c : K8 := mk8 0 0 0 (- (1)).        (* zeta_8^-1 = conj zeta_8 *)
Definition K16 := (K8 * K8)%type.
Definition k16_add (x y : K16) : K16 := (k8_add (fst x) (fst y), k8_add (snd x) (snd y)).
Definition k16_opp (x : K16) : K16 := (k8_opp (fst x), k8_opp (snd x)).
Definition k16_sub (x y : K16) : K16 := (k8_sub (fst x) (fst y), k8_sub (snd x) (snd y)).
Definition k16_mul (x y : K16) : K16 :=
  (k8_add (k8_mul (fst x) (fst y)) (k8_mul z8 (k8_mul (snd x) (snd y))),
   k8_add (k8_mul (fst x) (snd y)) (k8_mul (snd x) (fst y))).
Definition k16_conj (x : K16) : K16 := (k8_conj (fst x), k8_mul (k8_conj (snd x)) z8c).
Definition k8_0 : K8 := mk8 0 0 0 0.
Definition K16Ops : Ops K16 :=
  mkOps K16 (k8_0, k8_0) (mk8 1 0 0 0, k8_0) k16_add k16_mul k16_opp k16_sub k16_conj
        (ki K8Ops, k8_0) (khalf K8Ops, k8_0) (ks2 K8Ops, k8_0).

Ltac k16 := intros; repeat match goal with x : (_ * _)%type |- _ => destruct x end; repeat match goal with x : K8 |- _ => destruct x end;
            unfold k16_add, k16_mul, k16_opp, k16_sub, k16_conj, k8_add, k8_mul, k8_opp, k8_sub, k8_conj, z8, z8c, k8_0;
            cbn [fst snd c0 c1 c2 c3]; apply (f_equal2 pair); f_equal; ring.

Lemma K16_ring : ring_theory (k8_0, k8_0) (mk8 1 0 0 0, k8_0) k16_add k16_mul k16_sub k16_opp (@eq K16).
Proof. constructor; k16. Qed.

Lemma qhalf2' : qhalf + qhalf = 1. Proof. apply Qc_is_canon. reflexivity. Qed.
Lemma qhalf_sq' : qhalf * qhalf + qhalf * qhalf = qhalf. Proof. apply Qc_is_canon. reflexivity. Qed.

Theorem K16Laws : Laws K16Ops.
Proof.
  constructor; simpl.
  - exact K16_ring.
  - unfold k16_mul, k16_opp, k8_add, k8_mul, k8_opp, z8, k8_0; cbn [fst snd c0 c1 c2 c3 ki khalf ks2 K8Ops]. apply (f_equal2 pair); f_equal; ring.
  - unfold k16_add, k8_add, k8_0; cbn [fst snd c0 c1 c2 c3 ki khalf ks2 K8Ops]. apply (f_equal2 pair); f_equal; try ring. exact qhalf2'.
  - unfold k16_mul, k8_add, k8_mul, z8, k8_0; cbn [fst snd c0 c1 c2 c3 ki khalf ks2 K8Ops]. apply (f_equal2 pair); f_equal; try ring.
    transitivity (qhalf * qhalf + qhalf * qhalf); [ring | exact qhalf_sq'].
  - k16.
  - k16.
  - k16.
  - unfold k16_conj, k16_opp, k8_conj, k8_opp, k8_mul, z8c, k8_0; cbn [fst snd c0 c1 c2 c3 ki khalf ks2 K8Ops]. apply (f_equal2 pair); f_equal; ring.
  - unfold k16_conj, k8_conj, k8_mul, z8c, k8_0; cbn [fst snd c0 c1 c2 c3 ki khalf ks2 K8Ops]. apply (f_equal2 pair); f_equal; ring.
  - unfold k16_conj, k8_conj, k8_mul, z8c, k8_0; cbn [fst snd c0 c1 c2 c3 ki khalf ks2 K8Ops]. apply (f_equal2 pair); f_equal; ring.
  - unfold k16_conj, k8_conj, k8_mul, z8c, k8_0; cbn [fst snd c0 c1 c2 c3 ki khalf ks2 K8Ops]. apply (f_equal2 pair); f_equal; ring.
Qed.

(* w = (0, 1): w^2 = zeta_8 = (1 + i)/sqrt 2 *)
Definition w16 : K16 := (k8_0, mk8 1 0 0 0).
Definition w16c : K16 := (k8_0, z8c).
