(* The exact instance K16 = Q(zeta_16) = K8[w]/(w^2 - zeta_8): pairs (a, b) = a + b w over K8.  It contains a square root of
   zeta_8 = (1+i)/sqrt 2, i.e. a unit r with r^2 = exp(i pi/4): the classes e = +-1/4 (mod 2) of the IonQ dispatch theorems
   (gates t / ti) are inhabited here.  Used only for non-vacuity Examples.  The laws are proved over K8's ring (K8 elements
   are atoms), not coordinatewise. *)
From Coq Require Import QArith Qcanon Ring.
From VF Require Import Base.RingOps Base.K8.

Local Open Scope Qc_scope.
Definition z8 : K8 := mk8 0 1 0 0.
Definition z8c : K8 := mk8 0 0 0 (- (1)).        (* zeta_8^-1 = conj zeta_8 *)
Definition k8_0 : K8 := mk8 0 0 0 0.
Definition k8_1 : K8 := mk8 1 0 0 0.
Definition K16 := (K8 * K8)%type.
Definition k16_add (x y : K16) : K16 := (k8_add (fst x) (fst y), k8_add (snd x) (snd y)).
Definition k16_opp (x : K16) : K16 := (k8_opp (fst x), k8_opp (snd x)).
Definition k16_sub (x y : K16) : K16 := (k8_sub (fst x) (fst y), k8_sub (snd x) (snd y)).
Definition k16_mul (x y : K16) : K16 :=
  (k8_add (k8_mul (fst x) (fst y)) (k8_mul z8 (k8_mul (snd x) (snd y))),
   k8_add (k8_mul (fst x) (snd y)) (k8_mul (snd x) (fst y))).
Definition k16_conj (x : K16) : K16 := (k8_conj (fst x), k8_mul (k8_conj (snd x)) z8c).
Definition K16Ops : Ops K16 :=
  mkOps K16 (k8_0, k8_0) (k8_1, k8_0) k16_add k16_mul k16_opp k16_sub k16_conj
        (ki K8Ops, k8_0) (khalf K8Ops, k8_0) (ks2 K8Ops, k8_0).

Add Ring K8r : K8_ring.

Lemma zzc : k8_mul z8 z8c = mk8 1 0 0 0. Proof. vm_compute. reflexivity. Qed.
Lemma cj_z : k8_conj z8 = z8c. Proof. vm_compute. reflexivity. Qed.
Lemma cj_zc : k8_conj z8c = z8. Proof. vm_compute. reflexivity. Qed.
Lemma cj_add a b : k8_conj (k8_add a b) = k8_add (k8_conj a) (k8_conj b). Proof. exact (law_conj_add K8Ops K8Laws a b). Qed.
Lemma cj_mul a b : k8_conj (k8_mul a b) = k8_mul (k8_conj a) (k8_conj b). Proof. exact (law_conj_mul K8Ops K8Laws a b). Qed.
Lemma cj_inv a : k8_conj (k8_conj a) = a. Proof. exact (law_conj_invol K8Ops K8Laws a). Qed.
Lemma cj_0 : k8_conj k8_0 = k8_0. Proof. vm_compute. reflexivity. Qed.

Ltac k16 := intros; repeat match goal with x : (_ * _)%type |- _ => destruct x | x : K16 |- _ => destruct x end;
            unfold k16_add, k16_mul, k16_opp, k16_sub, k16_conj; cbn [fst snd]; apply (f_equal2 pair).

Lemma K16_ring : ring_theory (k8_0, k8_0) (k8_1, k8_0) k16_add k16_mul k16_sub k16_opp (@eq K16).
Proof. constructor; k16; unfold k8_0, k8_1; ring. Qed.

(* K8 embeds as (a, 0) *)
Lemma emb_mul a b : k16_mul (a, k8_0) (b, k8_0) = (k8_mul a b, k8_0).
Proof. unfold k16_mul; cbn [fst snd]; apply (f_equal2 pair); unfold k8_0; ring. Qed.
Lemma emb_add a b : k16_add (a, k8_0) (b, k8_0) = (k8_add a b, k8_0).
Proof. unfold k16_add; cbn [fst snd]; apply (f_equal2 pair); unfold k8_0; ring. Qed.
Lemma emb_opp a : k16_opp (a, k8_0) = (k8_opp a, k8_0).
Proof. unfold k16_opp; cbn [fst snd]; apply (f_equal2 pair); unfold k8_0; ring. Qed.
Lemma emb_conj a : k16_conj (a, k8_0) = (k8_conj a, k8_0).
Proof. unfold k16_conj; cbn [fst snd]; f_equal; rewrite cj_0; unfold k8_0; ring. Qed.

Theorem K16Laws : Laws K16Ops.
Proof.
  constructor; cbn [k0 k1 kadd kmul kopp ksub kconj ki khalf ks2 K16Ops].
  - exact K16_ring.
  - rewrite emb_mul, emb_opp. f_equal; try exact (law_i K8Ops K8Laws).
  - rewrite emb_add. f_equal; try exact (law_half K8Ops K8Laws).
  - rewrite emb_mul. f_equal; try exact (law_s2 K8Ops K8Laws).
  - k16; rewrite ?cj_add; ring.
  - k16; rewrite ?cj_add, ?cj_mul, ?cj_z; ring [zzc].
  - k16; rewrite ?cj_mul, ?cj_inv, ?cj_zc; [reflexivity | ring [zzc]].
  - rewrite emb_conj, emb_opp. f_equal; try exact (law_conj_i K8Ops K8Laws).
  - rewrite emb_conj. f_equal; try exact (law_conj_half K8Ops K8Laws).
  - rewrite emb_conj. f_equal; try exact (law_conj_s2 K8Ops K8Laws).
  - rewrite emb_conj. f_equal; try exact (law_conj_1 K8Ops K8Laws).
Qed.

(* w = (0, 1): w^2 = zeta_8 = (1 + i)/sqrt 2, and w^-1 = (0, zeta_8^-1) *)
Definition w16 : K16 := (k8_0, k8_1).
Definition w16c : K16 := (k8_0, z8c).
