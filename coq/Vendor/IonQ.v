(* IonQ job payloads (cirq_ionq/serializer.py): the vendor's documented gate semantics as matrices over
   the generic ring, the interpretation of a JSON program as an operation list of the reference
   semantics, and the serializer's dispatch as a decision function of the exponent class.
   Definitions only; proofs are in IonQProofs.v.

   Trusted text (DESIGN 5/C17), transcribed from IonQ's API documentation as quoted in cirq_ionq:
     QIS gates   x y z h : Pauli / Hadamard;  s = diag(1, i), si = s^-1;  t = diag(1, e^{i pi/4}), ti = t^-1;
                 v = sqrt(X) = 1/2 [[1+i, 1-i], [1-i, 1+i]], vi = v^-1;
                 rx(th) = exp(-i th X/2), ry, rz likewise;  xx(th) = exp(-i th XX/2), yy, zz likewise;
                 cnot (control, target);  swap;
                 `control` / `controls` on a gate of the qis gateset: the gate U above becomes
                 |0><0| (x) 1 + |1><1| (x) U per control wire (every control on 1), controls listed first;
                 cnot is x with one control, so cnot with further controls is a multiply controlled x;
                 pauliexp: exp(-i time * sum_k coefficients[k] * terms[k]), term strings little-endian
                 (the LAST character acts on targets[0]).
     native      gpi(phi)  = [[0, e^{-2 pi i phi}], [e^{2 pi i phi}, 0]]
                 gpi2(phi) = 1/sqrt2 [[1, -i e^{-2 pi i phi}], [-i e^{2 pi i phi}, 1]]
                 ms(phi0, phi1, th) = [[c,0,0,-i e^{-2 pi i(phi0+phi1)} s], [0,c,-i e^{-2 pi i(phi0-phi1)} s,0],
                                       [0,-i e^{2 pi i(phi0-phi1)} s,c,0], [-i e^{2 pi i(phi0+phi1)} s,0,0,c]],
                                      c = cos(pi th), s = sin(pi th)   (phases and angle in turns)
                 zz(th) = diag(e^{-i pi th}, e^{i pi th}, e^{i pi th}, e^{-i pi th}).
   Units convention (as in Gates/GateSpecs.v): an angle th enters as u = exp(i th/2) and uc = conj u,
   so cos(th/2) = cosu u uc and sin(th/2) = sinu u uc; a phase phi in turns enters as p = exp(2 pi i phi). *)
From Coq Require Import String List ZArith Arith Bool.
From VF Require Import Base.RingOps Base.Mat Base.Tensor Gates.GateSpecs Gates.Families Sim.Ref.
Import ListNotations.

(* ---------------- names ---------------- *)
Inductive iname :=
| Nx | Ny | Nz | Nh | Ns | Nsi | Nt | Nti | Nv | Nvi
| Nrx | Nry | Nrz | Nxx | Nyy | Nzz | Ncnot | Nswap
| Ngpi | Ngpi2 | Nms | Nnzz.

(* the mnemonic of a JSON op, read in the program's gateset ('qis' / 'native'); "zz" exists in both *)
Definition ionq_name (native : bool) (s : string) : option iname :=
  if native then
    (if String.eqb s "gpi" then Some Ngpi else if String.eqb s "gpi2" then Some Ngpi2
     else if String.eqb s "ms" then Some Nms else if String.eqb s "zz" then Some Nnzz else None)
  else
    (if String.eqb s "x" then Some Nx else if String.eqb s "y" then Some Ny else if String.eqb s "z" then Some Nz
     else if String.eqb s "h" then Some Nh else if String.eqb s "s" then Some Ns else if String.eqb s "si" then Some Nsi
     else if String.eqb s "t" then Some Nt else if String.eqb s "ti" then Some Nti
     else if String.eqb s "v" then Some Nv else if String.eqb s "vi" then Some Nvi
     else if String.eqb s "rx" then Some Nrx else if String.eqb s "ry" then Some Nry else if String.eqb s "rz" then Some Nrz
     else if String.eqb s "xx" then Some Nxx else if String.eqb s "yy" then Some Nyy else if String.eqb s "zz" then Some Nzz
     else if String.eqb s "cnot" then Some Ncnot else if String.eqb s "swap" then Some Nswap else None).

(* number of control / target wires and of ring parameters each gate takes *)
Definition iname_controls (n : iname) : nat := match n with Ncnot => 1 | _ => 0 end.
Definition iname_targets (n : iname) : nat :=
  match n with Nxx | Nyy | Nzz | Nswap | Nms | Nnzz => 2 | _ => 1 end.
Definition iname_params (n : iname) : nat :=
  match n with
  | Nrx | Nry | Nrz | Nxx | Nyy | Nzz | Ngpi | Ngpi2 | Nnzz => 2
  | Nms => 6
  | _ => 0
  end.

Section IonQ.
  Context {K : Type} (O : Ops K).
  Infix "+" := (kadd O). Infix "*" := (kmul O). Infix "-" := (ksub O).
  Notation "- a" := (kopp O a).
  Notation z0 := (k0 O). Notation z1 := (k1 O). Notation hf := (khalf O). Notation ii := (ki O). Notation s2 := (ks2 O).

  Definition par (ps : list K) (i : nat) : K := nth i ps z1.

  (* ---------------- the vendor's gate definitions ---------------- *)
  (* params: rotations [u; uc] with u = exp(i rotation/2);  gpi/gpi2 [p; pc] with p = exp(2 pi i phase);
     ms [p0; p0c; p1; p1c; r; rc] with pk = exp(2 pi i phases[k]), r = exp(i pi angle);  native zz [r; rc], r = exp(i pi angle) *)
  Definition ionq_gate_matrix (n : iname) (ps : list K) : matrix :=
    let u := par ps 0 in let uc := par ps 1 in
    let c := cosu O u uc in let s := sinu O u uc in
    match n with
    | Nx => [[z0; z1]; [z1; z0]]
    | Ny => [[z0; - ii]; [ii; z0]]
    | Nz => [[z1; z0]; [z0; - z1]]
    | Nh => [[s2; s2]; [s2; - s2]]
    | Ns => [[z1; z0]; [z0; ii]]
    | Nsi => [[z1; z0]; [z0; - ii]]
    | Nt => [[z1; z0]; [z0; s2 * (z1 + ii)]]
    | Nti => [[z1; z0]; [z0; s2 * (z1 - ii)]]
    | Nv => [[hf * (z1 + ii); hf * (z1 - ii)]; [hf * (z1 - ii); hf * (z1 + ii)]]
    | Nvi => [[hf * (z1 - ii); hf * (z1 + ii)]; [hf * (z1 + ii); hf * (z1 - ii)]]
    | Nrx => [[c; - ii * s]; [- ii * s; c]]
    | Nry => [[c; - s]; [s; c]]
    | Nrz => [[uc; z0]; [z0; u]]
    | Nxx => [[c; z0; z0; - ii * s]; [z0; c; - ii * s; z0]; [z0; - ii * s; c; z0]; [- ii * s; z0; z0; c]]
    | Nyy => [[c; z0; z0; ii * s]; [z0; c; - ii * s; z0]; [z0; - ii * s; c; z0]; [ii * s; z0; z0; c]]
    | Nzz => [[uc; z0; z0; z0]; [z0; u; z0; z0]; [z0; z0; u; z0]; [z0; z0; z0; uc]]
    | Ncnot => [[z1; z0; z0; z0]; [z0; z1; z0; z0]; [z0; z0; z0; z1]; [z0; z0; z1; z0]]
    | Nswap => [[z1; z0; z0; z0]; [z0; z0; z1; z0]; [z0; z1; z0; z0]; [z0; z0; z0; z1]]
    | Ngpi => [[z0; uc]; [u; z0]]
    | Ngpi2 => [[s2; - ii * uc * s2]; [- ii * u * s2; s2]]
    | Nms =>
        let p0 := par ps 0 in let p0c := par ps 1 in let p1 := par ps 2 in let p1c := par ps 3 in
        let r := par ps 4 in let rc := par ps 5 in
        let cc := cosu O r rc in let ss := sinu O r rc in
        [[cc; z0; z0; - ii * (p0c * p1c) * ss]; [z0; cc; - ii * (p0c * p1) * ss; z0];
         [z0; - ii * (p0 * p1c) * ss; cc; z0]; [- ii * (p0 * p1) * ss; z0; z0; cc]]
    | Nnzz => [[uc; z0; z0; z0]; [z0; u; z0; z0]; [z0; z0; u; z0]; [z0; z0; z0; uc]]
    end.

  (* Pauli codes of a term string: 0 = I, 1 = X, 2 = Y, 3 = Z *)
  Definition pauli1 (p : nat) : matrix :=
    match p with
    | 0 => [[z1; z0]; [z0; z1]]
    | 1 => [[z0; z1]; [z1; z0]]
    | 2 => [[z0; - ii]; [ii; z0]]
    | _ => [[z1; z0]; [z0; - z1]]
    end.
  (* the Pauli product on the target wires, first target most significant; `codes` in target order *)
  Definition pauli_product (codes : list nat) : matrix :=
    fold_right (fun p acc => kron O (pauli1 p) acc) [[z1]] codes.
  (* pauliexp with one term: exp(-i a P) = cos a - i sin a P, a = time * coefficient, entering as
     u = exp(i a).  The term string is little-endian: its LAST character acts on targets[0]. *)
  Definition ionq_pauliexp_matrix (term : list nat) (u uc : K) : matrix :=
    let n := Nat.pow 2 (length term) in
    let c := (u + uc) * hf in let s := - ii * ((u - uc) * hf) in
    madd O (mscale O c (mid O n)) (mscale O (- ii * s) (pauli_product (rev term))).

  (* Cirq's PauliStringPhasorGate as its documentation defines it: the +1 (-1) eigenstates of the Pauli string have their
     amplitude multiplied by exp(i pi exponent_pos) (exp(i pi exponent_neg)).  x = exp(i pi exponent_pos/2),
     y = exp(i pi exponent_neg/2); neg: the string's coefficient is -1; codes in qubit order. *)
  Definition cirq_psp_matrix (codes : list nat) (neg : bool) (x y : K) : matrix :=
    let n := Nat.pow 2 (length codes) in
    let a := x * x in let b := y * y in
    madd O (mscale O ((a + b) * hf) (mid O n))
           (mscale O ((if neg then - z1 else z1) * ((a - b) * hf)) (pauli_product codes)).

  (* ---------------- a JSON program ---------------- *)
  Inductive iop :=
  | IGate (name : string) (ps : list K) (controls targets : list nat)
  | IPauliExp (terms : list (list nat)) (units : list (K * K)) (targets : list nat).

  Fixpoint nodup_nat (l : list nat) : bool :=
    match l with [] => true | x :: r => negb (existsb (Nat.eqb x) r) && nodup_nat r end.
  Definition wires_ok (nq : nat) (ax : list nat) : bool := forallb (fun a => Nat.ltb a nq) ax && nodup_nat ax.

  (* k further control wires (all on 1) in front of a gate matrix: identity blocks, the gate in the last block *)
  Definition ionq_ctrl_matrix (k : nat) (m : matrix) : matrix := ctrl_matrix O (repeat 2 k) [repeat 1 k] m.
  (* the matrix of a named gate listed with `extra` controls beyond those the name itself carries *)
  Definition ionq_ctrl_gate_matrix (extra : nat) (n : iname) (ps : list K) : matrix :=
    match extra with
    | 0 => ionq_gate_matrix n ps
    | S _ => ionq_ctrl_matrix extra (ionq_gate_matrix n ps)
    end.

  (* one op as (matrix, axes): controls first, then targets, exactly as the vendor lists them.  A qis gate may be
     listed with more controls than its name carries (none, or one for cnot); native gates take no control. *)
  Definition ionq_op_gop (native : bool) (nq : nat) (o : iop) : option (gop (K:=K)) :=
    match o with
    | IGate name ps cs ts =>
        match ionq_name native name with
        | None => None
        | Some n =>
            if (Nat.eqb (length cs) (iname_controls n) || (negb native && Nat.leb (iname_controls n) (length cs)))
               && Nat.eqb (length ts) (iname_targets n)
               && Nat.eqb (length ps) (iname_params n) && wires_ok nq (cs ++ ts)
            then Some (GMat (repeat 2 (length (cs ++ ts)))
                            (ionq_ctrl_gate_matrix (length cs - iname_controls n) n ps), cs ++ ts)
            else None
        end
    | IPauliExp [term] [(u, uc)] ts =>
        if negb native && Nat.eqb (length term) (length ts) && wires_ok nq ts && negb (Nat.eqb (length ts) 0)
        then Some (GMat (repeat 2 (length ts)) (ionq_pauliexp_matrix term u uc), ts)
        else None
    | IPauliExp _ _ _ => None
    end.

  Fixpoint ionq_prog_gops (native : bool) (nq : nat) (ops : list iop) : option (list (gop (K:=K))) :=
    match ops with
    | [] => Some []
    | o :: r =>
        match ionq_op_gop native nq o, ionq_prog_gops native nq r with
        | Some g, Some gs => Some (g :: gs)
        | _, _ => None
        end
    end.

  (* the unitary the vendor's definitions give the program on nq qubits (wire k = LineQubit(k), wire 0 most significant) *)
  Definition ionq_unitary (native : bool) (nq : nat) (ops : list iop) : option (matrix (K:=K)) :=
    match ionq_prog_gops native nq ops with
    | Some gs => Some (circ_unitary O (repeat 2 nq) gs)
    | None => None
    end.
End IonQ.

(* ---------------- the serializer's dispatch ---------------- *)
Inductive ifam := FX | FY | FZ | FXX | FYY | FZZ | FCNOT | FH | FSWAP.
Inductive eclass := COne | CHalf | CMHalf | CQuarter | CMQuarter | COther.
Inductive layout := LTargets | LControlTarget | LTarget.
(* mnemonic, whether a `rotation` field is present (its value is then exponent * pi), where the wires go *)
Definition emission := (string * bool * layout)%type.

(* exponents as exact decimals: e = n * 10^-10;  _near_mod_n(e, t, 2) = |((e - t + 1) mod 2) - 1| <= atol, atol = 10^-8 *)
Definition EUNIT : Z := 10000000000.
Definition ATOL : Z := 100.
Definition near_mod2 (e t : Z) : bool :=
  Z.leb (Z.abs (Z.modulo (e - t + EUNIT) (2 * EUNIT) - EUNIT)) ATOL.
(* the tests in the order the serializer makes them (the classes are disjoint, so the order is immaterial) *)
Definition eclass_of (e : Z) : eclass :=
  if near_mod2 e EUNIT then COne
  else if near_mod2 e (EUNIT / 2) then CHalf
  else if near_mod2 e (- (EUNIT / 2)) then CMHalf
  else if near_mod2 e (EUNIT / 4) then CQuarter
  else if near_mod2 e (- (EUNIT / 4)) then CMQuarter
  else COther.

(* None: the serializer raises ValueError (the gate cannot be serialized) *)
Definition ionq_dispatch (f : ifam) (c : eclass) : option emission :=
  match f, c with
  | FX, COne => Some ("x", false, LTargets)
  | FX, CHalf => Some ("v", false, LTargets)
  | FX, CMHalf => Some ("vi", false, LTargets)
  | FX, _ => Some ("rx", true, LTargets)
  | FY, COne => Some ("y", false, LTargets)
  | FY, _ => Some ("ry", true, LTargets)
  | FZ, COne => Some ("z", false, LTargets)
  | FZ, CHalf => Some ("s", false, LTargets)
  | FZ, CMHalf => Some ("si", false, LTargets)
  | FZ, CQuarter => Some ("t", false, LTargets)
  | FZ, CMQuarter => Some ("ti", false, LTargets)
  | FZ, COther => Some ("rz", true, LTargets)
  | FXX, _ => Some ("xx", true, LTargets)
  | FYY, _ => Some ("yy", true, LTargets)
  | FZZ, _ => Some ("zz", true, LTargets)
  | FCNOT, COne => Some ("cnot", false, LControlTarget)
  | FH, COne => Some ("h", false, LTargets)
  | FSWAP, COne => Some ("swap", false, LTargets)
  | _, _ => None
  end%string.

(* one row of the regenerated dispatch table: family, exponent (units of 10^-10), and what the serializer
   emitted: None = ValueError, else (mnemonic, rotation/pi in units of 10^-10 if present, layout) *)
Definition dispatch_row := (ifam * Z * option (string * option Z * layout))%type.
Definition layout_eqb (a b : layout) : bool :=
  match a, b with LTargets, LTargets | LControlTarget, LControlTarget | LTarget, LTarget => true | _, _ => false end.
Definition dispatch_row_ok (r : dispatch_row) : bool :=
  let '(f, e, got) := r in
  match ionq_dispatch f (eclass_of e), got with
  | None, None => true
  | Some (m, rot, l), Some (m', rot', l') =>
      String.eqb m m' && layout_eqb l l'
      && match rot, rot' with
         | false, None => true
         | true, Some n => Z.eqb n e            (* rotation = exponent * pi *)
         | _, _ => false
         end
  | _, _ => false
  end.

(* ---------------- native gates: the emitted fields are the gate's own parameters ---------------- *)
Inductive nfam := NGPI | NGPI2 | NMS | NZZ.
(* gate parameters (units of 10^-10: phi | phi0 phi1 theta | theta) -> mnemonic, layout, numeric fields
   (a list-valued field "phases" is flattened to "phases.0", "phases.1") *)
Definition native_emission := (string * layout * list (string * Z))%type.
Definition ionq_native_emit (f : nfam) (ps : list Z) : option native_emission :=
  match f, ps with
  | NGPI, [phi] => Some ("gpi", LTarget, [("phase", phi)])
  | NGPI2, [phi] => Some ("gpi2", LTarget, [("phase", phi)])
  | NMS, [p0; p1; th] => Some ("ms", LTargets, [("phases.0", p0); ("phases.1", p1); ("angle", th)])
  | NZZ, [th] => Some ("zz", LTargets, [("phase", th)])
  | _, _ => None
  end%string.
Definition native_row := (nfam * list Z * native_emission)%type.
Fixpoint fields_eqb (a b : list (string * Z)) : bool :=
  match a, b with
  | [], [] => true
  | (s, x) :: a', (t, y) :: b' => String.eqb s t && Z.eqb x y && fields_eqb a' b'
  | _, _ => false
  end.
Definition native_row_ok (r : native_row) : bool :=
  let '(f, ps, (m', l', fs')) := r in
  match ionq_native_emit f ps with
  | Some (m, l, fs) => String.eqb m m' && layout_eqb l l' && fields_eqb fs fs'
  | None => false
  end.

(* the Cirq gate family of the reference model each dispatch family serializes *)
Definition ifam_eig (f : ifam) : eigfam :=
  match f with
  | FX => EXPow | FY => EYPow | FZ => EZPow | FXX => EXXPow | FYY => EYYPow | FZZ => EZZPow
  | FCNOT => ECXPow | FH => EHPow | FSWAP => ESwapPow
  end.

Section Emit.
  Context {K : Type} (O : Ops K).
  (* the vendor meaning of what is emitted for family f in class c when r = exp(i pi e/2): the rotation field is
     exponent * pi, so the vendor's half-angle unit exp(i rotation/2) is r itself *)
  Definition ionq_emit_matrix (f : ifam) (c : eclass) (r rc : K) : option (matrix (K:=K)) :=
    match ionq_dispatch f c with
    | None => None
    | Some (m, rot, _) =>
        match ionq_name false m with
        | None => None
        | Some n => Some (ionq_gate_matrix O n (if rot then [r; rc] else []))
        end
    end.
  (* what membership of the exponent in a class says about r = exp(i pi e/2):  r^2 = exp(i pi e) *)
  Definition class_hyp (c : eclass) (r : K) : Prop :=
    match c with
    | COne => kmul O r r = kopp O (k1 O)
    | CHalf => kmul O r r = ki O
    | CMHalf => kmul O r r = kopp O (ki O)
    | CQuarter => kmul O r r = kmul O (ks2 O) (kadd O (k1 O) (ki O))
    | CMQuarter => kmul O r r = kmul O (ks2 O) (ksub O (k1 O) (ki O))
    | COther => True
    end.
  (* the explicit global phase between Cirq's matrix (global shift unit g) and the vendor's *)
  Definition emit_phase (f : ifam) (c : eclass) (r g : K) : K :=
    match ionq_dispatch f c with
    | Some (_, true, _) => kmul O g r
    | _ => g
    end.
End Emit.
