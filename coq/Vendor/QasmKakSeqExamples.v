(* C19.D3b, non-vacuity and the refuted variant: in a concrete model of the Laws (Q(zeta_16)) the order of the one-qubit factors
   of a separable KAK decomposition matters: with before = S and after = X the emitted sequence performs (X . S) (x) I; the
   product taken the other way round, (S . X) (x) I, is a different unitary and not a multiple of it (the ratio of the entries
   is i in one place and -i in the other). *)
From Coq Require Import List ZArith Bool.
From VF Require Import Base.RingOps Base.Mat Vendor.Qasm Vendor.QasmKak Vendor.QasmKakSeq Vendor.QasmK16 Vendor.QasmK16Proofs.
Import ListNotations.

Definition ex_S : matrix := m2 (k1 O16) (k0 O16) (k0 O16) (ki O16).
Definition ex_X : matrix := m2 (k0 O16) (k1 O16) (k1 O16) (k0 O16).
Definition ex_I : matrix := m2 (k1 O16) (k0 O16) (k0 O16) (k1 O16).

Example separable_order_matters :
  k16_eqb (mget O16 (local_product O16 ex_S ex_I ex_X ex_I) 0 2) (ki O16) = true /\
  k16_eqb (mget O16 (local_product O16 ex_S ex_I ex_X ex_I) 2 0) (k1 O16) = true /\
  k16_eqb (mget O16 (local_product O16 ex_X ex_I ex_S ex_I) 0 2) (k1 O16) = true /\
  k16_eqb (mget O16 (local_product O16 ex_X ex_I ex_S ex_I) 2 0) (ki O16) = true /\
  k16_eqb (mget O16 (kak_sequence O16 (mid O16 4) ex_S ex_I ex_X ex_I) 0 2) (ki O16) = true.
Proof. vm_compute. repeat split. Qed.
