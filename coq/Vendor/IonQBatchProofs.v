(* Proofs about the batch-results model of Vendor/IonQBatch.v. *)
From Coq Require Import List ZArith NArith Arith Bool Lia.
From VF Require Import Codec.MetaChunks Vendor.IonQBatch.
Import ListNotations.
Open Scope Z_scope.

(* ---- one result per child that has both a metadata entry and a histogram ---- *)
Theorem batch_qpu_length metas answer :
  length (batch_qpu metas answer) = Nat.min (length metas) (length answer).
Proof. unfold batch_qpu. rewrite map_length, combine_length. reflexivity. Qed.

(* ---- position k of the result is child k of the answer read with entry k of the metadata ---- *)
Theorem batch_qpu_nth metas : forall answer k dm dh,
  (k < length metas)%nat -> (k < length answer)%nat ->
  nth k (batch_qpu metas answer) [] = child_qpu (nth k metas dm) (snd (nth k answer dh)).
Proof.
  induction metas as [|m metas IH]; intros answer k dm dh Hm Ha.
  - simpl in Hm. lia.
  - destruct answer as [|a answer]; [simpl in Ha; lia|].
    destruct k as [|k].
    + reflexivity.
    + simpl in Hm, Ha. unfold batch_qpu in *. simpl. apply IH; lia.
Qed.

Theorem batch_sim_nth metas : forall answer picks k dm dh dp,
  (k < length metas)%nat -> (k < length answer)%nat -> (k < length picks)%nat ->
  nth k (batch_sim metas answer picks) [] = child_sim (nth k metas dm) (snd (nth k answer dh)) (nth k picks dp).
Proof.
  induction metas as [|m metas IH]; intros answer picks k dm dh dp Hm Ha Hp.
  - simpl in Hm. lia.
  - destruct answer as [|a answer]; [simpl in Ha; lia|].
    destruct picks as [|p picks]; [simpl in Hp; lia|].
    destruct k as [|k].
    + reflexivity.
    + simpl in Hm, Ha, Hp. unfold batch_sim in *. simpl. apply IH; lia.
Qed.

(* ---- the ids are opaque: two answers with the same histograms in the same order decode alike, whatever the ids ---- *)
Theorem batch_qpu_ids_opaque metas : forall a a', map snd a = map snd a' -> batch_qpu metas a = batch_qpu metas a'.
Proof.
  induction metas as [|m metas IH]; intros a a' H; [reflexivity|].
  destruct a as [|x a], a' as [|x' a']; try discriminate; [reflexivity|].
  simpl in H. injection H as Hx Hr.
  unfold batch_qpu in *. simpl. rewrite Hx. f_equal. apply IH. exact Hr.
Qed.

Theorem batch_sim_ids_opaque metas : forall a a' picks,
  map snd a = map snd a' -> batch_sim metas a picks = batch_sim metas a' picks.
Proof.
  induction metas as [|m metas IH]; intros a a' picks H; [reflexivity|].
  destruct a as [|x a], a' as [|x' a']; try discriminate; [reflexivity|].
  simpl in H. injection H as Hx Hr.
  destruct picks as [|p picks]; [reflexivity|].
  unfold batch_sim in *. simpl. rewrite Hx. f_equal. apply IH. exact Hr.
Qed.

(* ---- reading the answer in the order of the ids is the vendor's reading only when the ids happen to ascend ---- *)
Fixpoint ascending (ids : list child_id) : bool :=
  match ids with
  | a :: ((b :: _) as r) => id_ltb a b && ascending r
  | _ => true
  end.

Lemma id_ltb_asym : forall a b, id_ltb a b = true -> id_ltb b a = false.
Proof.
  induction a as [|x a IH]; intros b H.
  - destruct b; [discriminate|reflexivity].
  - destruct b as [|y b]; [discriminate|].
    simpl in *.
    destruct (x <? y) eqn:Hxy.
    + apply Z.ltb_lt in Hxy.
      destruct (y <? x) eqn:Hyx; [apply Z.ltb_lt in Hyx; lia|reflexivity].
    + destruct (y <? x) eqn:Hyx; [discriminate|].
      apply IH. exact H.
Qed.

Theorem sort_by_id_ascending {A} : forall (l : list (child_id * A)), ascending (map fst l) = true -> sort_by_id l = l.
Proof.
  induction l as [|x l IH]; intros H; [reflexivity|].
  destruct l as [|y l]; [reflexivity|].
  change (ascending (map fst (x :: y :: l))) with (id_ltb (fst x) (fst y) && ascending (map fst (y :: l))) in H.
  apply andb_true_iff in H. destruct H as [Hxy Hr].
  change (sort_by_id (x :: y :: l)) with (insert_by_id x (sort_by_id (y :: l))).
  rewrite (IH Hr). simpl. rewrite (id_ltb_asym _ _ Hxy). reflexivity.
Qed.

Theorem batch_by_id_ascending metas answer :
  ascending (map fst answer) = true -> batch_qpu_by_id metas answer = batch_qpu metas answer.
Proof. intros H. unfold batch_qpu_by_id. rewrite (sort_by_id_ascending _ H). reflexivity. Qed.

(* two circuits on two qubits, each measuring both under one key; the first flips qubit 0 (outcome 1, little-endian),
   the second qubit 1 (outcome 2); the service names the children "b" and "a" *)
Definition witness_metas : list child_meta := [(2%nat, [[0; 1]%N]); (2%nat, [[0; 1]%N])].
Definition witness_answer (id0 id1 : child_id) : list (child_id * list (Z * nat)) := [(id0, [(1, 1%nat)]); (id1, [(2, 1%nat)])].

Example batch_by_id_ascending_example :
  ascending (map fst (witness_answer [97] [98])) = true
  /\ batch_qpu witness_metas (witness_answer [97] [98]) = [[Some [[1; 0]]]; [Some [[0; 1]]]].
Proof. split; vm_compute; reflexivity. Qed.

Theorem batch_by_id_refuted : exists metas answer,
  batch_qpu metas answer = [[Some [[1; 0]]]; [Some [[0; 1]]]]
  /\ batch_qpu_by_id metas answer = [[Some [[0; 1]]]; [Some [[1; 0]]]].
Proof. exists witness_metas, (witness_answer [98] [97]). split; vm_compute; reflexivity. Qed.
