(* C17 — AQT jobs and the measurements of the submitted circuit.  Definitions only (proofs in AQTMeasProofs.v).

   Trusted text (cirq_aqt/aqt_sampler.py, class Measure; DESIGN 5/C17): an AQT job is a list of R / RZ / RXX gates
   followed by ONE `MEASURE`, "a projective measurement of all qubits"; the samples come back per repetition as one
   bit per qubit in index order and `run_sweep` reports them under the key 'm'.  Nothing else about measuring can be
   written into a job: no key, no subset or order of qubits, no invert mask, no measurement before a gate.

   The property asks that what comes back means the SUBMITTED circuit: the records of the circuit's own
   measurements (key -> bits of the measured qubits in the measurement's order, invert mask applied, taken at the
   place where the measurement stands), or the circuit is refused.  A circuit without measurements is read out by the
   vendor convention above.

   The model is the computational-basis skeleton of such circuits, which already separates all of these: a gate is
   the set of wires whose basis bit it flips (R(theta, phi) with odd theta: its wire; RXX(theta) with odd theta: both
   wires; RZ and even exponents: none), run from |0...0>.  (Collapse by a measurement in the middle of a circuit in
   superposition is outside this skeleton; the check judges those circuits numerically, by the distribution of the
   records.) *)
From Coq Require Import List Arith Bool NArith.
From VF Require Import Base.Harness.
Import ListNotations.

Inductive aitem :=
| AFlip (ws : list nat)                                   (* a gate: the wires whose basis bit it flips *)
| AMeas (key : list N) (ws : list nat) (inv : list bool). (* cirq.MeasurementGate: key (code points), qubits in order, invert mask *)

Definition mrecord := (list N * list bool)%type.
Definition key_m : list N := [109%N].                     (* 'm' *)

Fixpoint flip_at (st : list bool) (w : nat) : list bool :=
  match st, w with
  | [], _ => []
  | b :: r, O => negb b :: r
  | b :: r, S k => b :: flip_at r k
  end.
Definition flips (st : list bool) (ws : list nat) : list bool := fold_left flip_at ws st.

(* the bits a measurement records: qubit ws[i] read in the state at that place, xor invert mask [i] (missing = false) *)
Fixpoint meas_bits (st : list bool) (ws : list nat) (inv : list bool) : list bool :=
  match ws with
  | [] => []
  | w :: r => xorb (nth w st false) (hd false inv) :: meas_bits st r (tl inv)
  end.

Fixpoint mrun (c : list aitem) (st : list bool) : list mrecord * list bool :=
  match c with
  | [] => ([], st)
  | AFlip ws :: r => mrun r (flips st ws)
  | AMeas k ws inv :: r => let (recs, st') := mrun r st in ((k, meas_bits st ws inv) :: recs, st')
  end.

Definition is_meas (i : aitem) : bool := match i with AMeas _ _ _ => true | AFlip _ => false end.
Definition item_wires (i : aitem) : list nat := match i with AFlip ws => ws | AMeas _ _ _ => [] end.
Definition gates_of (c : list aitem) : list (list nat) := map item_wires (filter (fun i => negb (is_meas i)) c).

(* what the circuit means on n wires: its own records in program order; without any measurement, the vendor's readout *)
Definition circuit_records (n : nat) (c : list aitem) : list mrecord :=
  let (recs, st) := mrun c (repeat false n) in
  if existsb is_meas c then recs else [(key_m, st)].

(* what an AQT job means: the gates, then one readout of every wire in index order, reported under 'm' *)
Definition job_records (n : nat) (g : list (list nat)) : list mrecord := [(key_m, fold_left flips g (repeat false n))].

(* the sampler: a measurement operation cannot be translated (None = the conversion raises); the empty list is refused *)
Definition aqt_submit (c : list aitem) : option (list (list nat)) :=
  if existsb is_meas c then None else match c with [] => None | _ => Some (gates_of c) end.
Definition aqt_sampler (n : nat) (c : list aitem) : option (list mrecord) :=
  match aqt_submit c with Some g => Some (job_records n g) | None => None end.

(* ---- judging what the implementation answered (None = it raised; Some = the one result that came back) ----
   accepted: the result must be the circuit's records (as a dictionary: order of keys is immaterial);
   refused: only what the model sampler refuses as well (a circuit of gates alone must not be refused). *)
Definition mrecord_eqb : mrecord -> mrecord -> bool := pair_eqb (list_eqb N.eqb) bl_eqb.
Definition same_records (a b : list mrecord) : bool :=
  Nat.eqb (length a) (length b)
  && forallb (fun r => existsb (mrecord_eqb r) b) a && forallb (fun r => existsb (mrecord_eqb r) a) b.
Definition aqt_answer_ok (n : nat) (c : list aitem) (answer : option (list mrecord)) : bool :=
  match answer with
  | Some r => same_records r (circuit_records n c)
  | None => match aqt_sampler n c with None => true | Some _ => false end
  end.

(* Circuits whose meaning is NOT that of the job made of their gates alone (AQTMeasProofs.aqt_gates_alone_refuted), one per
   way a measurement can differ from the vendor's readout; the check replays each of them on AQTSampler and on
   AQTSamplerLocalSimulator (they must be refused):
     a measurement followed by a gate on its qubit; another key; a subset of the qubits; another order; an invert mask;
     two keys; a measurement in the middle together with a terminal readout of all qubits under 'm'. *)
Definition aqt_meas_witnesses : list (nat * list aitem) :=
  [ (1, [AFlip [0]; AMeas key_m [0] []; AFlip [0]]);
    (2, [AFlip [0]; AMeas [122%N] [0; 1] []]);
    (2, [AFlip [0]; AMeas key_m [0] []]);
    (2, [AFlip [0]; AMeas key_m [1; 0] []]);
    (2, [AFlip [0]; AMeas key_m [0; 1] [false; true]]);
    (2, [AFlip [0]; AMeas [97%N] [0] []; AMeas [98%N] [1] []]);
    (2, [AFlip [0]; AMeas [107%N] [0] []; AFlip [0; 1]; AMeas key_m [0; 1] []]) ].
