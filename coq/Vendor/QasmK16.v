(* C19 non-vacuity instance: K16 = Q(zeta_16) = Q[x]/(x^8+1) over canonical rationals.  It contains i = x^4,
   1/sqrt2 = (x^2 - x^6)/2 and the unit q = x = exp(i pi/8) with q*q = exp(i pi/4), which Q(zeta_8) does not. Definitions only. *)
From Coq Require Import QArith Qcanon.
From VF Require Import Base.RingOps.

Record K16 := mk16 { d0 : Qc; d1 : Qc; d2 : Qc; d3 : Qc; d4 : Qc; d5 : Qc; d6 : Qc; d7 : Qc }.
Local Open Scope Qc_scope.
Definition k16_add (x y : K16) := mk16 (d0 x + d0 y) (d1 x + d1 y) (d2 x + d2 y) (d3 x + d3 y) (d4 x + d4 y) (d5 x + d5 y) (d6 x + d6 y) (d7 x + d7 y).
Definition k16_opp (x : K16) := mk16 (- d0 x) (- d1 x) (- d2 x) (- d3 x) (- d4 x) (- d5 x) (- d6 x) (- d7 x).
Definition k16_sub (x y : K16) := mk16 (d0 x - d0 y) (d1 x - d1 y) (d2 x - d2 y) (d3 x - d3 y) (d4 x - d4 y) (d5 x - d5 y) (d6 x - d6 y) (d7 x - d7 y).
Definition k16_mul (x y : K16) :=
  mk16 (d0 x * d0 y - d1 x * d7 y - d2 x * d6 y - d3 x * d5 y - d4 x * d4 y - d5 x * d3 y - d6 x * d2 y - d7 x * d1 y)
      (d0 x * d1 y + d1 x * d0 y - d2 x * d7 y - d3 x * d6 y - d4 x * d5 y - d5 x * d4 y - d6 x * d3 y - d7 x * d2 y)
      (d0 x * d2 y + d1 x * d1 y + d2 x * d0 y - d3 x * d7 y - d4 x * d6 y - d5 x * d5 y - d6 x * d4 y - d7 x * d3 y)
      (d0 x * d3 y + d1 x * d2 y + d2 x * d1 y + d3 x * d0 y - d4 x * d7 y - d5 x * d6 y - d6 x * d5 y - d7 x * d4 y)
      (d0 x * d4 y + d1 x * d3 y + d2 x * d2 y + d3 x * d1 y + d4 x * d0 y - d5 x * d7 y - d6 x * d6 y - d7 x * d5 y)
      (d0 x * d5 y + d1 x * d4 y + d2 x * d3 y + d3 x * d2 y + d4 x * d1 y + d5 x * d0 y - d6 x * d7 y - d7 x * d6 y)
      (d0 x * d6 y + d1 x * d5 y + d2 x * d4 y + d3 x * d3 y + d4 x * d2 y + d5 x * d1 y + d6 x * d0 y - d7 x * d7 y)
      (d0 x * d7 y + d1 x * d6 y + d2 x * d5 y + d3 x * d4 y + d4 x * d3 y + d5 x * d2 y + d6 x * d1 y + d7 x * d0 y).
(* x -> x^-1 = - x^7 *)
Definition k16_conj (x : K16) := mk16 (d0 x) (- d7 x) (- d6 x) (- d5 x) (- d4 x) (- d3 x) (- d2 x) (- d1 x).
Definition q16half : Qc := Q2Qc (1 # 2).
Definition K16Ops : Ops K16 :=
  mkOps K16 (mk16 (0) (0) (0) (0) (0) (0) (0) (0)) (mk16 (1) (0) (0) (0) (0) (0) (0) (0)) k16_add k16_mul k16_opp k16_sub k16_conj
        (mk16 (0) (0) (0) (0) (1) (0) (0) (0)) (mk16 (q16half) (0) (0) (0) (0) (0) (0) (0))
        (mk16 (0) (0) (q16half) (0) (0) (0) (- q16half) (0)).
Definition zeta16 : K16 := mk16 (0) (1) (0) (0) (0) (0) (0) (0).
Definition zeta16c : K16 := mk16 (0) (0) (0) (0) (0) (0) (0) (- (1)).
Definition k16_eqb (x y : K16) : bool :=
  Qc_eq_bool (d0 x) (d0 y) && Qc_eq_bool (d1 x) (d1 y) && Qc_eq_bool (d2 x) (d2 y) && Qc_eq_bool (d3 x) (d3 y) && Qc_eq_bool (d4 x) (d4 y) && Qc_eq_bool (d5 x) (d5 y) && Qc_eq_bool (d6 x) (d6 y) && Qc_eq_bool (d7 x) (d7 y).
