(* C19.D1 - model of the `_qasm_` emission rules (definitions only): for a gate family, the class of its global
   shift and the class of its exponent, which instructions are emitted: mnemonic, angles as affine forms of the
   parameters, qubit argument positions.  Generated/QasmMnemonics.v holds the same data evaluated on the working tree;
   QasmEmitProofs.v proves them equal and gives every row its standard-library meaning. *)
From Coq Require Import List ZArith Arith Bool.
From VF Require Import Base.RingOps Base.Mat Base.Tensor Vendor.Qasm.
Import ListNotations.

Inductive qfam := FX | FY | FZ | FH | FRx | FRy | FRz | FCZ | FCX | FCY | FSwap | FCCZ | FCCX | FCCY | FCSwap | FId1 | FId2
                | FPhasedX | FPhasedXZ | FQasmU | FCtrlX | FCtrlY | FCtrlZ | FCtrlH.
Inductive scls := S0 | SMhalf | SOther.             (* global shift 0, -1/2, any other value *)
Inductive ecls := ESpec (e4 : Z) | EGen.            (* exponent e4/4 exactly, or a generic exponent *)
Inductive mnem := Mx | My | Mz | Mh | Ms | Msdg | Mt | Mtdg | Msx | Msxdg | Mrx | Mry | Mrz | Mid
                | Mcx | Mcy | Mcz | Mch | Mswap | Mccx | Mcswap | Mu3 | Mu2.
(* an angle: pi * (sum_i c_i p_i + b/4) for the parameters p_i of the family (exponent first) *)
Definition aform := (list Z * Z)%type.
Definition srow := (mnem * list aform * list nat)%type.
Definition tkey := (bool * qfam * scls * ecls)%type.      (* version 3.0?, family, shift class, exponent class *)

Definition af (cs : list Z) (b : Z) : aform := (cs, b).
Definition const_angle (b : Z) : aform := ([], b).
Definition expo_angle (e : ecls) : aform := match e with ESpec k => const_angle k | EGen => af [1%Z] 0 end.
Definition is_spec (e : ecls) (k : Z) : bool := match e with ESpec j => Z.eqb j k | EGen => false end.
Definition is_odd (e : ecls) : bool := match e with ESpec j => Z.eqb (Z.modulo j 8) 4 | EGen => false end.   (* exponent % 2 == 1 *)
Definition s0 (s : scls) : bool := match s with S0 => true | _ => false end.
Definition one (m : mnem) (args : list nat) : option (list srow) := Some [(m, [], args)].
Definition rot (m : mnem) (e : ecls) : option (list srow) := Some [(m, [expo_angle e], [0])].

(* mirrors the `_qasm_` methods of ops/common_gates.py, swap_gates.py, three_qubit_gates.py, identity.py, phased_x_gate.py,
   phased_x_z_gate.py, controlled_operation.py and circuits/qasm_output.py (QasmUGate); None = "no QASM form" (decomposed) *)
Definition emit_shape (k : tkey) : option (list srow) :=
  let '(v3, f, s, e) := k in
  match f with
  (* sxdg is a gate of qelib1.inc only: for 3.0 (stdgates.inc) the exponent -1/2 falls through to rx(pi*-0.5) *)
  | FX => if s0 s && is_spec e 4 then one Mx [0] else if s0 s && is_spec e 2 then one Msx [0]
          else if s0 s && is_spec e (-2) && negb v3 then one Msxdg [0] else rot Mrx e
  | FY => if is_spec e 4 && negb (match s with SMhalf => true | _ => false end) then one My [0] else rot Mry e
  | FZ => if s0 s && is_spec e 4 then one Mz [0] else if s0 s && is_spec e 2 then one Ms [0]
          else if s0 s && is_spec e (-2) then one Msdg [0] else if s0 s && is_spec e 1 then one Mt [0]
          else if s0 s && is_spec e (-1) then one Mtdg [0] else rot Mrz e
  | FH => if is_spec e 0 then one Mid [0] else if s0 s && is_spec e 4 then one Mh [0]
          else Some [(Mry, [const_angle 1], [0]); (Mrx, [expo_angle e], [0]); (Mry, [const_angle (-1)], [0])]
  | FRx => rot Mrx e | FRy => rot Mry e | FRz => rot Mrz e
  | FCZ => if is_odd e then one Mcz [0; 1] else None
  | FCX => if is_odd e then one Mcx [0; 1] else None
  | FCY => if is_odd e then one Mcy [0; 1] else None
  | FSwap => if is_spec e 4 then one Mswap [0; 1] else None
  | FCCZ => if is_spec e 4 then Some [(Mh, [], [2]); (Mccx, [], [0; 1; 2]); (Mh, [], [2])] else None
  | FCCX => if is_spec e 4 then one Mccx [0; 1; 2] else None
  | FCCY => if is_spec e 4 then Some [(Msdg, [], [2]); (Mccx, [], [0; 1; 2]); (Ms, [], [2])] else None
  | FCSwap => one Mcswap [0; 1; 2]
  | FId1 => one Mid [0]
  | FId2 => Some [(Mid, [], [0]); (Mid, [], [1])]
  (* parameters (e, p), e already canonicalised to (-1, 1] *)
  | FPhasedX => if is_spec e (-2) then Some [(Mu2, [af [0; 1]%Z (2); af [0; -1]%Z (-2)], [0])]
                else if is_spec e 2 then Some [(Mu2, [af [0; 1]%Z (-2); af [0; -1]%Z (2)], [0])]
                else Some [(Mu3, [(match e with ESpec k => const_angle (- k) | EGen => af [-1; 0]%Z (0) end); af [0; 1]%Z (2); af [0; -1]%Z (-2)], [0])]
  (* parameters (x, z, a): u3(x, z + a - 1/2, 1/2 - a) *)
  | FPhasedXZ => Some [(Mu3, [af [1; 0; 0]%Z (0); af [0; 1; 1]%Z (-2); af [0; 0; -1]%Z (2)], [0])]
  (* parameters (theta, phi, lmda) *)
  | FQasmU => Some [(Mu3, [af [1; 0; 0]%Z (0); af [0; 1; 0]%Z (0); af [0; 0; 1]%Z (0)], [0])]
  | FCtrlX => if s0 s && is_spec e 4 then one Mcx [0; 1] else None
  | FCtrlY => if s0 s && is_spec e 4 then one Mcy [0; 1] else None
  | FCtrlZ => if s0 s && is_spec e 4 then one Mcz [0; 1] else None
  | FCtrlH => if s0 s && is_spec e 4 then one Mch [0; 1] else None
  end.

(* the keys the regenerated table must cover, in this order *)
Definition spec1 : list ecls := map ESpec [4; 2; -2; 1; -1; 0; -4; 8; 6; 12]%Z ++ [EGen].
Definition spec2 : list ecls := map ESpec [4; -4; 12; 2; 8; 0]%Z ++ [EGen].
Definition spec3 : list ecls := map ESpec [4; -4; 2]%Z ++ [EGen].
Definition keys_of (v3 : bool) : list tkey :=
  flat_map (fun f => flat_map (fun s => map (fun e => (v3, f, s, e)) spec1) [S0; SMhalf; SOther]) [FX; FY; FZ; FH]
  ++ flat_map (fun f => map (fun e => (v3, f, SMhalf, e)) [ESpec 4; ESpec 0; EGen]) [FRx; FRy; FRz]
  ++ flat_map (fun f => flat_map (fun s => map (fun e => (v3, f, s, e)) spec2) [S0; SOther]) [FCZ; FCX; FCY; FSwap]
  ++ flat_map (fun f => flat_map (fun s => map (fun e => (v3, f, s, e)) spec3) [S0; SOther]) [FCCZ; FCCX; FCCY]
  ++ [(v3, FCSwap, S0, ESpec 4); (v3, FId1, S0, ESpec 4); (v3, FId2, S0, ESpec 4)]
  ++ map (fun e => (v3, FPhasedX, S0, e)) [ESpec 2; ESpec (-2); ESpec 4; ESpec 0; EGen]
  ++ [(v3, FPhasedXZ, S0, EGen); (v3, FQasmU, S0, EGen)]
  ++ flat_map (fun f => [(v3, f, S0, ESpec 4); (v3, f, S0, ESpec 2); (v3, f, SOther, ESpec 4); (v3, f, S0, EGen)]) [FCtrlX; FCtrlY; FCtrlZ; FCtrlH].
Definition all_keys : list tkey := keys_of false ++ keys_of true.

(* ---- equality tests for the table lemma ---- *)
Definition qfam_eqb (a b : qfam) : bool :=
  match a, b with
  | FX, FX | FY, FY | FZ, FZ | FH, FH | FRx, FRx | FRy, FRy | FRz, FRz | FCZ, FCZ | FCX, FCX | FCY, FCY | FSwap, FSwap
  | FCCZ, FCCZ | FCCX, FCCX | FCCY, FCCY | FCSwap, FCSwap | FId1, FId1 | FId2, FId2 | FPhasedX, FPhasedX | FPhasedXZ, FPhasedXZ
  | FQasmU, FQasmU | FCtrlX, FCtrlX | FCtrlY, FCtrlY | FCtrlZ, FCtrlZ | FCtrlH, FCtrlH => true
  | _, _ => false
  end.
Definition scls_eqb (a b : scls) : bool := match a, b with S0, S0 | SMhalf, SMhalf | SOther, SOther => true | _, _ => false end.
Definition ecls_eqb (a b : ecls) : bool := match a, b with ESpec x, ESpec y => Z.eqb x y | EGen, EGen => true | _, _ => false end.
Definition mnem_eqb (a b : mnem) : bool :=
  match a, b with
  | Mx, Mx | My, My | Mz, Mz | Mh, Mh | Ms, Ms | Msdg, Msdg | Mt, Mt | Mtdg, Mtdg | Msx, Msx | Msxdg, Msxdg | Mrx, Mrx | Mry, Mry
  | Mrz, Mrz | Mid, Mid | Mcx, Mcx | Mcy, Mcy | Mcz, Mcz | Mch, Mch | Mswap, Mswap | Mccx, Mccx | Mcswap, Mcswap | Mu3, Mu3 | Mu2, Mu2 => true
  | _, _ => false
  end.
Fixpoint leqb {A} (e : A -> A -> bool) (a b : list A) : bool :=
  match a, b with [], [] => true | x :: a', y :: b' => e x y && leqb e a' b' | _, _ => false end.
Definition aform_eqb (a b : aform) : bool := leqb Z.eqb (fst a) (fst b) && Z.eqb (snd a) (snd b).
Definition srow_eqb (a b : srow) : bool :=
  mnem_eqb (fst (fst a)) (fst (fst b)) && leqb aform_eqb (snd (fst a)) (snd (fst b)) && leqb Nat.eqb (snd a) (snd b).
Definition tkey_eqb (a b : tkey) : bool :=
  let '(v, f, s, e) := a in let '(v', f', s', e') := b in Bool.eqb v v' && qfam_eqb f f' && scls_eqb s s' && ecls_eqb e e'.
Definition orows_eqb (a b : option (list srow)) : bool :=
  match a, b with None, None => true | Some x, Some y => leqb srow_eqb x y | _, _ => false end.
(* the table covers exactly the keys, in order, and agrees with the model on each *)
Definition table_ok (t : list (tkey * option (list srow))) : bool :=
  leqb tkey_eqb (map fst t) all_keys && forallb (fun r => orows_eqb (emit_shape (fst r)) (snd r)) t.

(* ---- which mnemonics the include file of the version defines (mirrors Vendor/Qasm.v qdefined): stdgates.inc has no sxdg ---- *)
Definition mnem_defined (v3 : bool) (m : mnem) : bool := match m with Msxdg => negb v3 | _ => true end.
Definition rows_defined (v3 : bool) (orows : option (list srow)) : bool :=
  match orows with Some rows => forallb (fun r => mnem_defined v3 (fst (fst r))) rows | None => true end.

(* ---- the meaning of a row: half-angle units of the parameters us = [(u_i, u_i^-1)], u_i = exp(i pi p_i/2); q = exp(i pi/8) ---- *)
Section Sem.
  Context {K : Type} (O : Ops K).
  Definition aunit (us : list (K * K)) (q qc : K) (f : aform) : K * K :=
    fold_left (fun acc cu => (kmul O (fst acc) (kpowZ O (fst (snd cu)) (snd (snd cu)) (fst cu)),
                              kmul O (snd acc) (kpowZ O (snd (snd cu)) (fst (snd cu)) (fst cu))))
              (combine (fst f) us) (kpowZ O q qc (snd f), kpowZ O qc q (snd f)).
  Definition row_gate (us : list (K * K)) (q qc : K) (r : srow) : option (qgate (K:=K)) :=
    let au := aunit us q qc in
    match fst (fst r), snd (fst r) with
    | Mx, [] => Some QX | My, [] => Some QY | Mz, [] => Some QZ | Mh, [] => Some QH | Ms, [] => Some QS | Msdg, [] => Some QSdg
    | Mt, [] => Some QT | Mtdg, [] => Some QTdg | Msx, [] => Some QSx | Msxdg, [] => Some QSxdg | Mid, [] => Some QId
    | Mcx, [] => Some QCx | Mcy, [] => Some QCy | Mcz, [] => Some QCz | Mch, [] => Some QCh | Mswap, [] => Some QSwap
    | Mccx, [] => Some QCcx | Mcswap, [] => Some QCswap
    | Mrx, [a] => Some (QRx (fst (au a)) (snd (au a)))
    | Mry, [a] => Some (QRy (fst (au a)) (snd (au a)))
    | Mrz, [a] => Some (QRz (fst (au a)) (snd (au a)))
    | Mu3, [t; p; l] => Some (QU3 (fst (au t)) (snd (au t)) (fst (au p)) (snd (au p)) (fst (au l)) (snd (au l)))
    | Mu2, [p; l] => Some (QU2 (fst (au p)) (snd (au p)) (fst (au l)) (snd (au l)))
    | _, _ => None
    end.
  Fixpoint rows_body (v3 : bool) (us : list (K * K)) (q qc : K) (rows : list srow) : option (qbody (K:=K)) :=
    match rows with
    | [] => Some []
    | r :: rest =>
        match row_gate us q qc r, rows_body v3 us q qc rest with
        | Some g, Some b => if Nat.eqb (qarity g) (length (snd r)) then Some ((qmat O v3 g, snd r) :: b) else None
        | _, _ => None
        end
    end.
  (* the unitary the emitted rows perform on n qubits *)
  Definition rows_unitary (v3 : bool) (n : nat) (us : list (K * K)) (q qc : K) (rows : list srow) : option (matrix (K:=K)) :=
    option_map (body_unitary O n) (rows_body v3 us q qc rows).
End Sem.

(* ---- hypotheses under which a key's rows are interpreted ---- *)
Section Classes.
  Context {K : Type} (O : Ops K).
  (* the exponent class fixes the unit r = exp(i pi e/2): for e = k/4 it is q^k with q = exp(i pi/8) *)
  Definition units_ok (e : ecls) (r rc q qc : K) : Prop :=
    match e with ESpec k => r = kpowZ O q qc k /\ rc = kpowZ O qc q k | EGen => True end.
  Definition eunit (e : ecls) (r rc q qc : K) : K * K :=
    match e with ESpec k => (kpowZ O q qc k, kpowZ O qc q k) | EGen => (r, rc) end.
  (* the shift class fixes g = exp(i pi e s): 1 for s = 0, exp(-i pi e/2) = rc for s = -1/2 *)
  Definition shift_ok (s : scls) (g gc r rc : K) : Prop :=
    match s with S0 => g = k1 O /\ gc = k1 O | SMhalf => g = rc /\ gc = r | SOther => True end.
  (* equality up to a global phase, with the phase a unit *)
  Definition up_to_unit (A B : matrix (K:=K)) : Prop :=
    exists ph phc, kmul O ph phc = k1 O /\ A = mscale O ph B.
  (* what a key's rows must satisfy against a documented matrix *)
  Definition rows_mean (n : nat) (us : list (K * K)) (q qc : K) (orows : option (list srow)) (spec : matrix (K:=K)) : Prop :=
    match orows with
    | Some rows => exists M, rows_unitary O false n us q qc rows = Some M /\ up_to_unit spec M
    | None => True
    end.
End Classes.
