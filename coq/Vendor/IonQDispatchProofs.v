(* The regenerated dispatch table (Generated/IonqDispatch.v, rewritten from the working tree on every run) equals
   the model's decision function: a changed mnemonic, angle convention, tolerance window or wire layout breaks these. *)
From Coq Require Import String List ZArith Bool.
From VF Require Import Vendor.IonQ Generated.IonqDispatch.
Import ListNotations.

Theorem ionq_dispatch_table_ok : forallb dispatch_row_ok ionq_dispatch_rows = true.
Proof. vm_compute. reflexivity. Qed.

Theorem ionq_native_table_ok : forallb native_row_ok ionq_native_rows = true.
Proof. vm_compute. reflexivity. Qed.

Theorem ionq_atol_ok : ionq_serializer_atol = ATOL.
Proof. reflexivity. Qed.

(* the table is not empty and exercises every family in every class the serializer distinguishes *)
Theorem ionq_dispatch_table_covers :
  forallb (fun fc => existsb (fun r => let '(f, e, _) := r in
                                       match f, fst fc with
                                       | FX, FX | FY, FY | FZ, FZ | FXX, FXX | FYY, FYY | FZZ, FZZ | FCNOT, FCNOT | FH, FH | FSWAP, FSWAP =>
                                           match eclass_of e, snd fc with
                                           | COne, COne | CHalf, CHalf | CMHalf, CMHalf | CQuarter, CQuarter
                                           | CMQuarter, CMQuarter | COther, COther => true
                                           | _, _ => false
                                           end
                                       | _, _ => false
                                       end) ionq_dispatch_rows)
          (list_prod [FX; FY; FZ; FXX; FYY; FZZ; FCNOT; FH; FSWAP] [COne; CHalf; CMHalf; CQuarter; CMQuarter; COther]) = true.
Proof. vm_compute. reflexivity. Qed.

(* what the tolerance window means: the serializer's test accepts exactly the exponents within atol of t modulo 2
   (units of 10^-10), so a special-cased gate is emitted only for exponents within 10^-8 of the class *)
From Coq Require Import Lia.
Theorem near_mod2_spec : forall e t : Z,
  near_mod2 e t = true <-> exists k : Z, (Z.abs (e - t - 2 * EUNIT * k) <= ATOL)%Z.
Proof.
  intros e t. unfold near_mod2. rewrite Z.leb_le.
  assert (P : (0 < 2 * EUNIT)%Z) by (unfold EUNIT; lia).
  pose proof (Z.div_mod (e - t + EUNIT) (2 * EUNIT) ltac:(lia)) as D.
  pose proof (Z.mod_pos_bound (e - t + EUNIT) (2 * EUNIT) P) as B.
  set (m := ((e - t + EUNIT) mod (2 * EUNIT))%Z) in *. set (q := ((e - t + EUNIT) / (2 * EUNIT))%Z) in *.
  split.
  - intros H. exists q. replace (e - t - 2 * EUNIT * q)%Z with (m - EUNIT)%Z by lia. exact H.
  - intros [k H].
    (* e - t = 2U k + d with |d| <= ATOL < U: then m - U = d *)
    assert (A : (ATOL < EUNIT)%Z) by (unfold ATOL, EUNIT; lia).
    set (d := (e - t - 2 * EUNIT * k)%Z) in *.
    assert (E : (m = d + EUNIT)%Z).
    { unfold m. replace (e - t + EUNIT)%Z with ((d + EUNIT) + k * (2 * EUNIT))%Z by (unfold d; lia).
      rewrite Z.mod_add by lia. apply Z.mod_small. lia. }
    rewrite E. replace (d + EUNIT - EUNIT)%Z with d by lia. exact H.
Qed.
