(* The regenerated dispatch table (Generated/IonqDispatch.v, rewritten from the working tree on every run) equals
   the model's decision function: a changed mnemonic, angle convention, tolerance window or wire layout breaks these. *)
From Coq Require Import String List ZArith Bool.
From VF Require Import Vendor.IonQ Generated.IonqDispatch.
Import ListNotations.

Theorem ionq_dispatch_table_ok : forallb dispatch_row_ok ionq_dispatch_rows = true.
Proof. vm_compute. reflexivity. Qed.

Theorem ionq_native_table_ok : forallb native_row_ok ionq_native_rows = true.
Proof. vm_compute. reflexivity. Qed.

Theorem ionq_atol_ok : ionq_serializer_atol = ATOL.
Proof. reflexivity. Qed.

(* the table is not empty and exercises every family in every class the serializer distinguishes *)
Theorem ionq_dispatch_table_covers :
  forallb (fun fc => existsb (fun r => let '(f, e, _) := r in
                                       match f, fst fc with
                                       | FX, FX | FY, FY | FZ, FZ | FXX, FXX | FYY, FYY | FZZ, FZZ | FCNOT, FCNOT | FH, FH | FSWAP, FSWAP =>
                                           match eclass_of e, snd fc with
                                           | COne, COne | CHalf, CHalf | CMHalf, CMHalf | CQuarter, CQuarter
                                           | CMQuarter, CMQuarter | COther, COther => true
                                           | _, _ => false
                                           end
                                       | _, _ => false
                                       end) ionq_dispatch_rows)
          (list_prod [FX; FY; FZ; FXX; FYY; FZZ; FCNOT; FH; FSWAP] [COne; CHalf; CMHalf; CQuarter; CMQuarter; COther]) = true.
Proof. vm_compute. reflexivity. Qed.
