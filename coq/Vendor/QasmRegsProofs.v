(* C19.D2: the register layout model has the properties the property statement asks of it. *)
From Coq Require Import List Arith Bool Lia.
From VF Require Import Vendor.QasmRegs.
Import ListNotations.

Lemma existsb_eqb_in k l : existsb (Nat.eqb k) l = true <-> In k l.
Proof.
  rewrite existsb_exists. split.
  - intros [x [Hin He]]. apply Nat.eqb_eq in He. subst. exact Hin.
  - intros H. exists k. split; [exact H | apply Nat.eqb_refl].
Qed.

Lemma dedup_spec l : forall seen,
  NoDup (dedup seen l) /\ (forall x, In x (dedup seen l) -> ~ In x seen /\ In x l) /\
  (forall x, In x l -> In x seen \/ In x (dedup seen l)).
Proof.
  induction l as [|k r IH]; intros seen; simpl.
  - split; [constructor|]. split; [intros x []|intros x []].
  - destruct (existsb (Nat.eqb k) seen) eqn:E.
    + destruct (IH seen) as [ND [S1 S2]]. split; [exact ND|]. split.
      * intros x Hx. destruct (S1 x Hx) as [A B]. split; [exact A | right; exact B].
      * intros x [Hx|Hx]; [subst; left; apply existsb_eqb_in; exact E | apply S2; exact Hx].
    + destruct (IH (k :: seen)) as [ND [S1 S2]]. split; [|split].
      * constructor; [|exact ND]. intros Hin. destruct (S1 k Hin) as [A _]. apply A. left. reflexivity.
      * intros x [Hx|Hx].
        -- subst. split; [|left; reflexivity]. intros Hin. apply existsb_eqb_in in Hin. rewrite Hin in E. discriminate.
        -- destruct (S1 x Hx) as [A B]. split; [|right; exact B]. intros Hin. apply A. right. exact Hin.
      * intros x [Hx|Hx]; [subst; right; left; reflexivity|].
        destruct (S2 x Hx) as [[Hk|Hs]|Hd]; [subst; right; left; reflexivity | left; exact Hs | right; right; exact Hd].
Qed.

Theorem creg_keys_nodup ms : NoDup (creg_keys ms).
Proof. apply (dedup_spec (map mkey ms) []). Qed.
Theorem creg_keys_complete ms m : In m ms -> In (mkey m) (creg_keys ms).
Proof.
  intros H. destruct (dedup_spec (map mkey ms) []) as [_ [_ S2]].
  destruct (S2 (mkey m) (in_map mkey ms m H)) as [[]|Hd]. exact Hd.
Qed.
Theorem creg_keys_sound ms k : In k (creg_keys ms) -> exists m, In m ms /\ mkey m = k.
Proof.
  intros H. destruct (dedup_spec (map mkey ms) []) as [_ [S1 _]]. destruct (S1 k H) as [_ Hin].
  apply in_map_iff in Hin. destruct Hin as [m [E I]]. exists m. split; [exact I | exact E].
Qed.

Lemma creg_size_acc ms k : forall acc,
  acc <= fold_left (fun a m => if Nat.eqb (mkey m) k then Nat.max a (length (mqubits m)) else a) ms acc.
Proof.
  induction ms as [|m r IH]; intros acc; simpl; [lia|].
  destruct (Nat.eqb (mkey m) k); [eapply Nat.le_trans; [|apply IH]; lia | apply IH].
Qed.
Theorem creg_size_ge ms m : In m ms -> length (mqubits m) <= creg_size ms (mkey m).
Proof.
  unfold creg_size. generalize 0. induction ms as [|x r IH]; intros acc H; [destruct H|].
  simpl. destruct H as [H|H].
  - subst. rewrite Nat.eqb_refl. eapply Nat.le_trans; [|apply creg_size_acc]. lia.
  - apply IH. exact H.
Qed.
Lemma creg_size_attained_acc ms k : forall acc,
  let s := fold_left (fun a m => if Nat.eqb (mkey m) k then Nat.max a (length (mqubits m)) else a) ms acc in
  s = acc \/ exists m, In m ms /\ mkey m = k /\ length (mqubits m) = s.
Proof.
  induction ms as [|x r IH]; intros acc; simpl; [left; reflexivity|].
  destruct (Nat.eqb (mkey x) k) eqn:E.
  - destruct (IH (Nat.max acc (length (mqubits x)))) as [H|[m [A [B C]]]].
    + destruct (Nat.max_spec acc (length (mqubits x))) as [[_ M]|[_ M]].
      * right. exists x. split; [left; reflexivity|]. split; [apply Nat.eqb_eq; exact E|]. simpl in H. rewrite H. symmetry. exact M.
      * left. simpl in H. rewrite H. exact M.
    + right. exists m. split; [right; exact A|]. split; assumption.
  - destruct (IH acc) as [H|[m [A [B C]]]]; [left; exact H|]. right. exists m. split; [right; exact A|]. split; assumption.
Qed.
(* a register is exactly as long as the largest measurement of its key *)
Theorem creg_size_attained ms m : In m ms -> exists m', In m' ms /\ mkey m' = mkey m /\ length (mqubits m') = creg_size ms (mkey m).
Proof.
  intros H. destruct (creg_size_attained_acc ms (mkey m) 0) as [Z|E]; [|exact E].
  exists m. split; [exact H|]. split; [reflexivity|]. pose proof (creg_size_ge ms m H) as G. unfold creg_size in *. lia.
Qed.

Lemma index_of_nth k l d : In k l -> nth (index_of k l) l d = k /\ index_of k l < length l.
Proof.
  induction l as [|x r IH]; intros H; [destruct H|]. simpl. destruct (Nat.eqb x k) eqn:E.
  - apply Nat.eqb_eq in E. split; [exact E | lia].
  - destruct H as [H|H]; [subst; rewrite Nat.eqb_refl in E; discriminate|]. destruct (IH H) as [A B]. split; [exact A | lia].
Qed.
(* key <-> register is a bijection: register reg_of k holds key k, and different keys get different registers *)
Theorem reg_of_key ms m : In m ms -> nth (reg_of ms (mkey m)) (creg_keys ms) 0 = mkey m /\ reg_of ms (mkey m) < length (cregs ms).
Proof.
  intros H. unfold reg_of, cregs. rewrite map_length. apply index_of_nth. apply creg_keys_complete. exact H.
Qed.
Theorem reg_of_injective ms m1 m2 : In m1 ms -> In m2 ms -> reg_of ms (mkey m1) = reg_of ms (mkey m2) -> mkey m1 = mkey m2.
Proof.
  intros H1 H2 E. destruct (reg_of_key ms m1 H1) as [A _]. destruct (reg_of_key ms m2 H2) as [B _].
  rewrite <- A, <- B, E. reflexivity.
Qed.

(* qubit j of a measurement goes to bit j of the key's register, in operation order, whatever the invert mask *)
Lemma measure_lines_bits reg qs : forall i inv,
  only_measures (measure_lines reg i qs inv) = map (fun p => (snd p, reg, fst p)) (combine (seq i (length qs)) qs).
Proof.
  induction qs as [|q r IH]; intros i inv; simpl; [reflexivity|].
  unfold only_measures in *.
  assert (Hx : forall b, flat_map (fun s => match s with RMeasure q0 r0 b0 => [(q0, r0, b0)] | RX _ => [] end) (if b : bool then [RX q] else []) = []).
  { intros []; reflexivity. }
  rewrite flat_map_app, Hx. simpl. f_equal. rewrite flat_map_app, Hx. simpl. apply IH.
Qed.
Theorem qasm_registers_spec ms :
  (forall n i, i < n -> nth i (qubit_ids n) 0 = i) /\
  NoDup (creg_keys ms) /\
  (forall k, In k (creg_keys ms) -> exists m, In m ms /\ mkey m = k) /\
  (forall m, In m ms ->
     nth (reg_of ms (mkey m)) (creg_keys ms) 0 = mkey m /\
     reg_of ms (mkey m) < length (cregs ms) /\
     length (mqubits m) <= creg_size ms (mkey m) /\
     (exists m', In m' ms /\ mkey m' = mkey m /\ length (mqubits m') = creg_size ms (mkey m)) /\
     only_measures (measure_stmts ms m) =
       map (fun p => (snd p, reg_of ms (mkey m), fst p)) (combine (seq 0 (length (mqubits m))) (mqubits m))) /\
  (forall m1 m2, In m1 ms -> In m2 ms -> reg_of ms (mkey m1) = reg_of ms (mkey m2) -> mkey m1 = mkey m2).
Proof.
  split; [intros n i H; unfold qubit_ids; rewrite seq_nth; [reflexivity | exact H]|].
  split; [apply creg_keys_nodup|]. split; [apply creg_keys_sound|]. split.
  - intros m H. destruct (reg_of_key ms m H) as [A B]. split; [exact A|]. split; [exact B|].
    split; [apply creg_size_ge; exact H|]. split; [apply creg_size_attained; exact H|]. apply measure_lines_bits.
  - apply reg_of_injective.
Qed.

Example registers_example :
  let ms := [(5, [2; 0], [true]); (7, [1], []); (5, [3], [])] in
  cregs ms = [(5, 2); (7, 1)] /\
  all_measure_stmts ms = [RX 2; RMeasure 2 0 0; RX 2; RMeasure 0 0 1; RMeasure 1 1 0; RMeasure 3 0 0].
Proof. split; reflexivity. Qed.
