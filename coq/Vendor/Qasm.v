(* C19 - the OpenQASM standard libraries as matrices over the generic ring (definitions only).

   OpenQASM 2.0: the two built-ins U(theta,phi,lambda) and CX, and every gate of "qelib1.inc" DEFINED BY ITS
   BODY in that file (x = u3(pi,0,pi), cz = h b; cx a,b; h b; ...; sx/sxdg as in the qelib1.inc shipped with
   Qiskit).  OpenQASM 3.0: the gates of "stdgates.inc" (there is no sxdg in it).
   Angles enter as units: for an angle t the caller supplies a = exp(i t/2) and its inverse ac.
   Also: the semantics of a parsed program (gates, measure, reset, if) on top of Sim/Measure.v. *)
From Coq Require Import List ZArith Arith Bool.
From VF Require Import Base.RingOps Base.Mat Base.Tensor Gates.GateSpecs Gates.Families Sim.Ref Sim.Measure.
Import ListNotations.

Section Qasm.
  Context {K : Type} (O : Ops K).
  Infix "+" := (kadd O). Infix "*" := (kmul O). Infix "-" := (ksub O).
  Notation "- a" := (kopp O a).
  Notation z0 := (k0 O). Notation z1 := (k1 O). Notation hf := (khalf O). Notation ii := (ki O). Notation s2 := (ks2 O).

  Definition w8 : K := s2 * (z1 + ii).       (* exp(i pi/4) *)
  Definition w8c : K := s2 * (z1 - ii).      (* exp(-i pi/4) *)

  (* ---- OpenQASM 2.0 built-ins ---- *)
  (* U(theta,phi,lambda) = Rz(phi) Ry(theta) Rz(lambda) up to phase:
       [[cos(theta/2), -e^{i lambda} sin(theta/2)], [e^{i phi} sin(theta/2), e^{i(phi+lambda)} cos(theta/2)]]
     a = exp(i theta/2), b = exp(i phi), c = exp(i lambda) *)
  Definition q_U (a ac b c : K) : matrix :=
    let co := cosu O a ac in let si := sinu O a ac in
    [[co; - (c * si)]; [b * si; b * c * co]].
  Definition q_CX : matrix := [[z1; z0; z0; z0]; [z0; z1; z0; z0]; [z0; z0; z0; z1]; [z0; z0; z1; z0]].

  (* time-ordered product: the first element is applied first *)
  Definition mprod (n : nat) (l : list (matrix (K:=K))) : matrix := fold_left (fun acc m => mmul O m acc) l (mid O n).
  Definition on0 (m : matrix (K:=K)) : matrix := kron O m (mid O 2).      (* on the first of two qubits *)
  Definition on1 (m : matrix (K:=K)) : matrix := kron O (mid O 2) m.      (* on the second of two qubits *)
  (* a gate body on n qubits: (matrix, qubit arguments) in program order *)
  Definition qbody := list (matrix (K:=K) * list nat).
  Definition body_rops (b : qbody) : list (rop (K:=K)) :=
    map (fun p => {| rop_m := fst p; rop_dims := repeat 2 (length (snd p)); rop_ax := snd p |}) b.
  Definition body_unitary (n : nat) (b : qbody) : matrix := unitary_tab O (repeat 2 n) (body_rops b).

  (* ---- qelib1.inc, one-qubit gates, by their bodies ---- *)
  Definition q_u3 (a ac b c : K) : matrix := q_U a ac b c.
  Definition q_u2 (b c : K) : matrix := q_U w8 w8c b c.                  (* U(pi/2,phi,lambda) *)
  Definition q_u1 (c : K) : matrix := q_U z1 z1 z1 c.                     (* U(0,0,lambda) *)
  Definition q_id : matrix := q_U z1 z1 z1 z1.                            (* U(0,0,0) *)
  Definition q_x : matrix := q_u3 ii (- ii) z1 (- z1).                   (* u3(pi,0,pi) *)
  Definition q_y : matrix := q_u3 ii (- ii) ii ii.                       (* u3(pi,pi/2,pi/2) *)
  Definition q_z : matrix := q_u1 (- z1).                                 (* u1(pi) *)
  Definition q_h : matrix := q_u2 z1 (- z1).                              (* u2(0,pi) *)
  Definition q_s : matrix := q_u1 ii.                                     (* u1(pi/2) *)
  Definition q_sdg : matrix := q_u1 (- ii).
  Definition q_t : matrix := q_u1 w8.                                     (* u1(pi/4) *)
  Definition q_tdg : matrix := q_u1 w8c.
  Definition q_rx (a ac : K) : matrix := q_u3 a ac (- ii) ii.             (* u3(theta,-pi/2,pi/2) *)
  Definition q_ry (a ac : K) : matrix := q_u3 a ac z1 z1.                 (* u3(theta,0,0) *)
  Definition q_rz (a ac : K) : matrix := q_u1 (a * a).                    (* u1(phi) *)
  Definition q_sx : matrix := mprod 2 [q_sdg; q_h; q_sdg].                (* sdg a; h a; sdg a *)
  Definition q_sxdg : matrix := mprod 2 [q_s; q_h; q_s].                  (* s a; h a; s a *)

  (* ---- qelib1.inc, two-qubit gates ---- *)
  Definition q_CXr : matrix := body_unitary 2 [(q_CX, [1; 0])].            (* cx b,a *)
  Definition q_cz : matrix := mprod 4 [on1 q_h; q_CX; on1 q_h].            (* h b; cx a,b; h b *)
  Definition q_cy : matrix := mprod 4 [on1 q_sdg; q_CX; on1 q_s].          (* sdg b; cx a,b; s b *)
  Definition q_swap : matrix := mprod 4 [q_CX; q_CXr; q_CX].               (* cx a,b; cx b,a; cx a,b *)
  Definition q_ch : matrix :=                                              (* h b; sdg b; cx a,b; h b; t b; cx a,b; t b; h b; s b; x b; s a *)
    mprod 4 [on1 q_h; on1 q_sdg; q_CX; on1 q_h; on1 q_t; q_CX; on1 q_t; on1 q_h; on1 q_s; on1 q_x; on0 q_s].
  (* crz(lambda): u1(lambda/2) b; cx a,b; u1(-lambda/2) b; cx a,b      with a = exp(i lambda/2) *)
  Definition q_crz (a ac : K) : matrix := mprod 4 [on1 (q_u1 a); q_CX; on1 (q_u1 ac); q_CX].
  (* cu1(lambda): u1(lambda/2) a; cx a,b; u1(-lambda/2) b; cx a,b; u1(lambda/2) b *)
  Definition q_cu1 (a ac : K) : matrix := mprod 4 [on0 (q_u1 a); q_CX; on1 (q_u1 ac); q_CX; on1 (q_u1 a)].
  (* cu3(theta,phi,lambda) c,t: u1((lambda+phi)/2) c; u1((lambda-phi)/2) t; cx c,t; u3(-theta/2,0,-(phi+lambda)/2) t; cx c,t; u3(theta/2,phi,0) t
     units: q = exp(i theta/4), bh = exp(i phi/2), ch = exp(i lambda/2) *)
  Definition q_cu3 (q qc bh bhc ch chc : K) : matrix :=
    mprod 4 [on0 (q_u1 (ch * bh)); on1 (q_u1 (ch * bhc)); q_CX; on1 (q_u3 qc q z1 (bhc * chc)); q_CX; on1 (q_u3 q qc (bh * bh) z1)].

  (* ---- qelib1.inc, three-qubit gates: textbook matrices and the bodies they abbreviate ---- *)
  Definition q_ccx : matrix := mdirect O (mid O 6) [[z0; z1]; [z1; z0]].
  Definition q_cswap : matrix := spec_CSwap O.
  Definition ccx_body : qbody :=     (* h c; cx b,c; tdg c; cx a,c; t c; cx b,c; tdg c; cx a,c; t b; t c; h c; cx a,b; t a; tdg b; cx a,b *)
    [(q_h, [2]); (q_CX, [1; 2]); (q_tdg, [2]); (q_CX, [0; 2]); (q_t, [2]); (q_CX, [1; 2]); (q_tdg, [2]); (q_CX, [0; 2]);
     (q_t, [1]); (q_t, [2]); (q_h, [2]); (q_CX, [0; 1]); (q_t, [0]); (q_tdg, [1]); (q_CX, [0; 1])].
  Definition cswap_body : qbody := [(q_CX, [2; 1]); (q_ccx, [0; 1; 2]); (q_CX, [2; 1])].   (* cx c,b; ccx a,b,c; cx c,b *)

  (* ---- stdgates.inc (OpenQASM 3.0): built-in U carries the phase exp(i theta/2); gphase as written in the file ---- *)
  Definition q3_U (a ac b c : K) : matrix := mscale O a (q_U a ac b c).
  (* u3(t,p,l) = gphase(-(p+l+t)/2) U(t,p,l);  bh = exp(i p/2), ch = exp(i l/2) *)
  Definition q3_u3 (a ac bh bhc ch chc : K) : matrix := mscale O (bhc * chc * ac) (q3_U a ac (bh * bh) (ch * ch)).
  Definition q3_u2 (bh bhc ch chc : K) : matrix := mscale O (bhc * chc * w8c) (q3_U w8 w8c (bh * bh) (ch * ch)).
  Definition q3_u1 (c : K) : matrix := q3_U z1 z1 z1 c.
  Definition q3_x : matrix := mscale O (- ii) (q3_U ii (- ii) z1 (- z1)).          (* U(pi,0,pi); gphase(-pi/2) *)
  Definition q3_y : matrix := mscale O (- ii) (q3_U ii (- ii) ii ii).
  Definition q3_h : matrix := mscale O w8c (q3_U w8 w8c z1 (- z1)).                (* U(pi/2,0,pi); gphase(-pi/4) *)
  Definition q3_rx (a ac : K) : matrix := mscale O ac (q3_U a ac (- ii) ii).        (* U(t,-pi/2,pi/2); gphase(-t/2) *)
  Definition q3_ry (a ac : K) : matrix := mscale O ac (q3_U a ac z1 z1).
  Definition q3_rz (a ac : K) : matrix := mscale O ac (q3_U z1 z1 z1 (a * a)).      (* gphase(-l/2); U(0,0,l) *)
  Definition q3_sx : matrix := mscale O hf [[z1 + ii; z1 - ii]; [z1 - ii; z1 + ii]].  (* pow(0.5) @ x *)
  Definition ctrl1 (m : matrix (K:=K)) : matrix := mdirect O (mid O (length m)) m.       (* ctrl @ m *)

  (* ---- the instruction vocabulary of a parsed program ---- *)
  Inductive qgate :=
  | QU3 (a ac bh bhc ch chc : K)     (* a = exp(i theta/2), bh = exp(i phi/2), ch = exp(i lambda/2) *)
  | QU2 (bh bhc ch chc : K) | QU1 (ch chc : K)
  | QId | QX | QY | QZ | QH | QS | QSdg | QT | QTdg | QSx | QSxdg
  | QRx (a ac : K) | QRy (a ac : K) | QRz (a ac : K)
  | QCx | QCy | QCz | QCh | QSwap | QCcx | QCswap
  | QCrz (a ac : K) | QCu1 (a ac : K) | QCu3 (q qc bh bhc ch chc : K).

  Definition qarity (g : qgate) : nat :=
    match g with
    | QCx | QCy | QCz | QCh | QSwap | QCrz _ _ | QCu1 _ _ | QCu3 _ _ _ _ _ _ => 2
    | QCcx | QCswap => 3
    | _ => 1
    end.
  (* is the mnemonic defined by the include file of the version? (v3 = true: stdgates.inc) *)
  Definition qdefined (v3 : bool) (g : qgate) : bool :=
    match g with
    | QSxdg | QCu1 _ _ | QCu3 _ _ _ _ _ _ => negb v3
    | _ => true
    end.
  Definition qmat2 (g : qgate) : matrix :=
    match g with
    | QU3 a ac bh _ ch _ => q_u3 a ac (bh * bh) (ch * ch)
    | QU2 bh _ ch _ => q_u2 (bh * bh) (ch * ch)
    | QU1 ch _ => q_u1 (ch * ch)
    | QId => q_id | QX => q_x | QY => q_y | QZ => q_z | QH => q_h | QS => q_s | QSdg => q_sdg | QT => q_t | QTdg => q_tdg
    | QSx => q_sx | QSxdg => q_sxdg
    | QRx a ac => q_rx a ac | QRy a ac => q_ry a ac | QRz a ac => q_rz a ac
    | QCx => q_CX | QCy => q_cy | QCz => q_cz | QCh => q_ch | QSwap => q_swap
    | QCcx => q_ccx | QCswap => q_cswap
    | QCrz a ac => q_crz a ac | QCu1 a ac => q_cu1 a ac | QCu3 q qc bh bhc ch chc => q_cu3 q qc bh bhc ch chc
    end.
  Definition qmat3 (g : qgate) : matrix :=
    match g with
    | QU3 a ac bh bhc ch chc => q3_u3 a ac bh bhc ch chc
    | QU2 bh bhc ch chc => q3_u2 bh bhc ch chc
    | QU1 ch _ => q3_u1 (ch * ch)
    | QId => q3_U z1 z1 z1 z1
    | QX => q3_x | QY => q3_y | QZ => q3_u1 (- z1) | QH => q3_h
    | QS => q3_u1 ii | QSdg => q3_u1 (- ii) | QT => q3_u1 w8 | QTdg => q3_u1 w8c
    | QSx => q3_sx
    | QRx a ac => q3_rx a ac | QRy a ac => q3_ry a ac | QRz a ac => q3_rz a ac
    | QCx => ctrl1 q3_x | QCy => ctrl1 q3_y | QCz => ctrl1 (q3_u1 (- z1)) | QCh => ctrl1 q3_h
    | QSwap => mprod 4 [ctrl1 q3_x; body_unitary 2 [(ctrl1 q3_x, [1; 0])]; ctrl1 q3_x]
    | QCcx => ctrl1 (ctrl1 q3_x)
    | QCswap => ctrl1 (mprod 4 [ctrl1 q3_x; body_unitary 2 [(ctrl1 q3_x, [1; 0])]; ctrl1 q3_x])
    | QCrz a ac => ctrl1 (q3_rz a ac)
    | QSxdg | QCu1 _ _ | QCu3 _ _ _ _ _ _ => []                     (* not in stdgates.inc *)
    end.
  Definition qmat (v3 : bool) (g : qgate) : matrix := if v3 then qmat3 g else qmat2 g.
  (* an instruction as an operation of the reference model *)
  Definition qgop (v3 : bool) (g : qgate) (args : list nat) : gop (K:=K) := (GMat (repeat 2 (qarity g)) (qmat v3 g), args).

  (* ---- semantics of a parsed program over the branch ensembles of Sim/Measure.v ----
     Classical bit `bit` of register `reg` is the record key reg*32+bit; a register reads as an integer with
     bit 0 the LOW-ORDER bit (OpenQASM 2.0 spec, "if(creg==int)"; OpenQASM 3.0 cast bit[n] -> int); unwritten bits are 0. *)
  Inductive qcond := QCond (reg nbits value : nat) (equal : bool).
  Inductive qstmt :=
  | QSGate (g : gop (K:=K))
  | QSMeasure (q reg bit : nat)
  | QSReset (q : nat)
  | QSIf (cs : list qcond) (body : qstmt).

  Definition bit_key (reg bit : nat) : nat := Nat.add (Nat.mul reg 32) bit.
  Definition bit_value (r : list recd) (reg bit : nat) : nat :=
    match pick (key_records (bit_key reg bit) r) None false with Some e => rec_value e | None => 0 end.
  Definition reg_value (r : list recd) (reg nbits : nat) : nat :=
    fold_right (fun i acc => Nat.add (bit_value r reg i) (Nat.mul 2 acc)) 0 (seq 0 nbits).
  Definition qcond_eval (r : list recd) (c : qcond) : bool :=
    match c with QCond reg nbits v eq => if eq then Nat.eqb (reg_value r reg nbits) v else negb (Nat.eqb (reg_value r reg nbits) v) end.
  Definition qstmt_mop (s : qstmt) : option (mop (K:=K)) :=
    match s with
    | QSGate g => Some (MGate g)
    | QSMeasure q reg bit => Some (MMeasure (bit_key reg bit) [q] [false] [])
    | QSReset q => Some (MReset q)
    | QSIf _ _ => None
    end.
  Fixpoint qstep (sh : list nat) (s : qstmt) (b : branch (K:=K)) : list (branch (K:=K)) :=
    match s with
    | QSIf cs body => if forallb (qcond_eval (brec b)) cs then qstep sh body b else [b]
    | QSGate g => step O sh (MGate g) b
    | QSMeasure q reg bit => step O sh (MMeasure (bit_key reg bit) [q] [false] []) b
    | QSReset q => step O sh (MReset q) b
    end.
  Definition qexec (sh : list nat) (prog : list qstmt) (init : list K) : list (branch (K:=K)) :=
    fold_left (fun bs s => flat_map (qstep sh s) bs) prog [{| bw := k1 O; brec := []; bpsi := init |}].
  (* the unitary of a measurement-free, condition-free program *)
  Fixpoint qgates (prog : list qstmt) : option (list (gop (K:=K))) :=
    match prog with
    | [] => Some []
    | QSGate g :: r => option_map (cons g) (qgates r)
    | _ :: _ => None
    end.
  Definition qunitary (n : nat) (prog : list qstmt) : option (matrix (K:=K)) :=
    option_map (circ_unitary O (repeat 2 n)) (qgates prog).
End Qasm.
