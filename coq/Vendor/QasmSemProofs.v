(* C19: the program semantics qexec is the reference semantics exec on if-free programs, and the way an inverted
   measurement is emitted (x; measure; x) has the semantics of the inverted measurement: same recorded bit, same
   post-measurement state (one wire, and the second wire of two; symbolic amplitudes, generic ring). *)
From Coq Require Import Ring List Arith Bool.
From VF Require Import Base.RingOps Base.Mat Base.Tensor Gates.GateSpecs Gates.Families Sim.Ref Sim.Measure Vendor.Qasm Vendor.QasmProofs.
Import ListNotations.

Section Sem.
  Context {K : Type} (O : Ops K) (L : Laws O).
  Add Ring Kring3 : (law_ring O L).

  Lemma qstep_mop sh s m b : qstmt_mop s = Some m -> qstep O sh s b = step O sh m b.
  Proof. destruct s; simpl; intros H; inversion H; reflexivity. Qed.

  Lemma qexec_fold sh prog : forall mops bs,
    map qstmt_mop prog = map Some mops ->
    fold_left (fun bs s => flat_map (qstep O sh s) bs) prog bs = fold_left (fun bs o => flat_map (step O sh o) bs) mops bs.
  Proof.
    induction prog as [|s r IH]; intros [|m ms] bs H; simpl in *; try discriminate; [reflexivity|].
    inversion H as [[H1 H2]]. rewrite <- (IH ms _ H2). f_equal.
    apply flat_map_ext. intros b. apply qstep_mop. exact H1.
  Qed.
  (* a program without `if` runs exactly as the corresponding operation list of the reference semantics *)
  Theorem qexec_is_exec sh prog mops init :
    map qstmt_mop prog = map Some mops -> qexec O sh prog init = exec O sh mops init.
  Proof. intros H. unfold qexec, exec. apply qexec_fold. exact H. Qed.

  (* a one-bit register condition `if (c==1)` is the reference condition "the latest record of the key is non-zero" *)
  Theorem qcond_one_bit r reg : qcond_eval r (QCond reg 1 1 true) =
    match eval_cond (CKey (bit_key reg 0) None false) r with Some b => b | None => false end
    \/ exists e, pick (key_records (bit_key reg 0) r) None false = Some e /\ 2 <= rec_value e.
  Proof.
    unfold qcond_eval, reg_value, bit_value, eval_cond. cbn [seq fold_right].
    rewrite Nat.mul_0_r, Nat.add_0_r.
    remember (pick (key_records (bit_key reg 0) r) None false) as o eqn:Ho.
    destruct o as [e|]; [|left; reflexivity].
    cbn [option_map].
    destruct (rec_value e) as [|[|n]] eqn:E; [left; reflexivity | left; reflexivity|].
    right. exists e. split; [reflexivity|]. rewrite E. apply le_n_S, le_n_S, Nat.le_0_l.
  Qed.

  Definition Xg : gop (K:=K) := (GMat [2] (q_x O), [0]).
  Definition Xg1 : gop (K:=K) := (GMat [2] (q_x O), [1]).
  Definition branch_eq (a b : branch (K:=K)) : Prop := bw a = bw b /\ brec a = brec b /\ bpsi a = bpsi b.

  Ltac close := first [ ring [(qh2 O L) (qi2 O L) (qs22 O L)] | apply (qcancel2 O L); ring [(qh2 O L) (qi2 O L) (qs22 O L)]
                      | do 2 apply (qcancel2 O L); ring [(qh2 O L) (qi2 O L) (qs22 O L)] ].
  Ltac split_list :=
    repeat match goal with
           | |- (_ :: _) = (_ :: _) => apply (f_equal2 cons)
           | |- @nil _ = @nil _ => reflexivity
           end.

  (* x q; measure q -> c[b]; x q   versus   the inverted measurement, one wire: the two outcome branches coincide
     (listed in the opposite order) *)
  Theorem qasm_measure_invert_1q w rcd p0 p1 key :
    let b := {| bw := w; brec := rcd; bpsi := [p0; p1] |} in
    Forall2 branch_eq
      (rev (flat_map (step O [2] (MGate Xg)) (flat_map (step O [2] (MMeasure key [0] [false] [])) (step O [2] (MGate Xg) b))))
      (step O [2] (MMeasure key [0] [true] []) b).
  Proof.
    cbv -[kadd kmul kopp ksub kconj k0 k1 ki khalf ks2 app].
    repeat constructor; cbv -[kadd kmul kopp ksub kconj k0 k1 ki khalf ks2]; split_list; close.
  Qed.
  (* the same on the second of two wires *)
  Theorem qasm_measure_invert_2q w rcd p0 p1 p2 p3 key :
    let b := {| bw := w; brec := rcd; bpsi := [p0; p1; p2; p3] |} in
    Forall2 branch_eq
      (rev (flat_map (step O [2; 2] (MGate Xg1)) (flat_map (step O [2; 2] (MMeasure key [1] [false] [])) (step O [2; 2] (MGate Xg1) b))))
      (step O [2; 2] (MMeasure key [1] [true] []) b).
  Proof.
    cbv -[kadd kmul kopp ksub kconj k0 k1 ki khalf ks2 app].
    repeat constructor; cbv -[kadd kmul kopp ksub kconj k0 k1 ki khalf ks2]; split_list; close.
  Qed.
End Sem.
