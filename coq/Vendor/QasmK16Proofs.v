(* K16 satisfies the Laws every generic-ring theorem assumes, and contains the symbolic units the C19 theorems
   quantify over: the hypotheses of the qasm_rule_* theorems are satisfiable (non-vacuity). *)
From Coq Require Import QArith Qcanon Ring Bool List.
From VF Require Import Base.RingOps Base.Mat Gates.GateSpecs Vendor.Qasm Vendor.QasmK16 Vendor.QasmProofs.
Import ListNotations.
Local Open Scope Qc_scope.

Lemma q16half2 : q16half + q16half = 1. Proof. apply Qc_is_canon. reflexivity. Qed.
Lemma q16half_sq : q16half * q16half + q16half * q16half = q16half. Proof. apply Qc_is_canon. reflexivity. Qed.

Ltac k16 := intros; repeat match goal with x : K16 |- _ => destruct x end;
            unfold k16_add, k16_mul, k16_opp, k16_sub, k16_conj; simpl; f_equal; ring.

Lemma K16_ring : ring_theory (k0 K16Ops) (k1 K16Ops) k16_add k16_mul k16_sub k16_opp (@eq K16).
Proof. constructor; k16. Qed.

Theorem K16Laws : Laws K16Ops.
Proof.
  constructor; simpl.
  - exact K16_ring.
  - unfold k16_mul, k16_opp; simpl; f_equal; ring.
  - unfold k16_add; simpl. f_equal; try ring; try exact q16half2.
  - unfold k16_mul; simpl. f_equal; try ring;
      try (transitivity (q16half * q16half + q16half * q16half); [ring | exact q16half_sq]).
  - k16.
  - k16.
  - k16.
  - unfold k16_conj, k16_opp; simpl; f_equal; ring.
  - unfold k16_conj; simpl; f_equal; ring.
  - unfold k16_conj; simpl; f_equal; ring.
  - unfold k16_conj; simpl; f_equal; ring.
Qed.

Lemma k16_eqb_eq x y : k16_eqb x y = true -> x = y.
Proof.
  destruct x, y; unfold k16_eqb; simpl. rewrite !andb_true_iff. intros [[[[[[[A B] C] D] E] F] G] H].
  apply Qc_eq_bool_correct in A. apply Qc_eq_bool_correct in B. apply Qc_eq_bool_correct in C. apply Qc_eq_bool_correct in D.
  apply Qc_eq_bool_correct in E. apply Qc_eq_bool_correct in F. apply Qc_eq_bool_correct in G. apply Qc_eq_bool_correct in H.
  subst. reflexivity.
Qed.

Notation O16 := K16Ops.
(* q = exp(i pi/8): a unit whose square is w8 = exp(i pi/4)   (hypotheses of qasm_rule_hpow; r := q^2 serves qasm_rule_t) *)
Example units_pi8 : kmul O16 zeta16 zeta16c = k1 O16 /\ kmul O16 zeta16 zeta16 = w8 O16.
Proof. split; apply k16_eqb_eq; vm_compute; reflexivity. Qed.
Example units_mpi8 : kmul O16 zeta16c zeta16 = k1 O16 /\ kmul O16 zeta16c zeta16c = w8c O16.
Proof. split; apply k16_eqb_eq; vm_compute; reflexivity. Qed.
(* r = i = exp(i pi/2) (exponent 1): a unit with r*r = -1   (hypotheses of qasm_rule_cz / cx / cy) *)
Example units_odd : kmul O16 (ki O16) (kopp O16 (ki O16)) = k1 O16 /\ kmul O16 (ki O16) (ki O16) = kopp O16 (k1 O16).
Proof. split; apply k16_eqb_eq; vm_compute; reflexivity. Qed.
(* a generic unit that is not a root of unity of small order: (3+4i)/5 *)
Definition pyth : K16 := kadd O16 (kmul O16 (mk16 (Q2Qc (3 # 5)) 0 0 0 0 0 0 0) (k1 O16)) (kmul O16 (mk16 (Q2Qc (4 # 5)) 0 0 0 0 0 0 0) (ki O16)).
Example units_generic : kmul O16 pyth (kconj O16 pyth) = k1 O16.
Proof. apply k16_eqb_eq; vm_compute; reflexivity. Qed.
(* the theorems instantiated: H^(1/4)-style statement at a concrete non-trivial point *)
Example hpow_instance :
  spec_HPow O16 pyth (kconj O16 pyth) (k1 O16)
  = mscale O16 (kmul O16 (k1 O16) pyth) (mprod O16 2 [q_ry O16 zeta16 zeta16c; q_rx O16 pyth (kconj O16 pyth); q_ry O16 zeta16c zeta16]).
Proof.
  apply (qasm_rule_hpow O16 K16Laws); [exact units_generic | apply units_pi8 | apply units_pi8].
Qed.
(* the meaning of the "odd exponent" class at the table's keys e = 1, -1, 3: r = q^k has r*r = -1 *)
Example odd_class_units :
  forallb (fun k => k16_eqb (kmul O16 (kpowZ O16 zeta16 zeta16c k) (kpowZ O16 zeta16 zeta16c k)) (kopp O16 (k1 O16))) [4; -4; 12; 20]%Z = true.
Proof. vm_compute. reflexivity. Qed.
