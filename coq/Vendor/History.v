(* C17 — histories of calls on ONE sampler / service object.

   The property speaks about every submission: the payload posted by a call describes the circuit as it is AT THE
   TIME OF THAT CALL.  Circuits are mutable objects that the caller keeps and edits in place between calls, so a
   sampler that remembers anything about an earlier call has to remember VALUES, never the caller's object.

   The model (definitions only; proofs in HistoryProofs.v):
     - a circuit's content is the list of its operations (identifiers into a vocabulary) in program order;
     - the caller owns a heap of circuit objects; events create an object, edit one in place, or submit one together
       with a resolver;
     - a payload is the content resolved at the resolver: (operation, resolver) for parametrised operations,
       (operation, 0) for the others (how a vendor ENCODES such a list is the business of Vendor/IonQ.v, AQT.v);
     - a sampler is a state machine that sees the heap only at the time of a call.
   `expected` is the reading of the property: content at the time of the call, resolved at the call's resolver. *)
From Coq Require Import List Arith Bool.
Import ListNotations.

Definition content := list nat.
Definition rop := (nat * nat)%type.
Definition payload := list rop.
Definition heap := nat -> content.

Definition upd (h : heap) (o : nat) (c : content) : heap := fun o' => if Nat.eqb o' o then c else h o'.
Definition empty_heap : heap := fun _ => [].

(* in-place edits of a circuit whose moments hold one operation each (cirq.InsertStrategy.NEW): list edits.
   Circuit.insert clamps the index to the length; an opaque edit (EARLIEST / batch insertions ...) is recorded by the
   content it leaves behind. *)
Inductive edit :=
| EdInsert (i : nat) (x : nat)
| EdDelete (i : nat)
| EdSet (i : nat) (x : nat)
| EdExtend (xs : content)
| EdSnap (c : content).

Fixpoint insert_at (i : nat) (x : nat) (c : content) : content :=
  match i, c with
  | O, _ => x :: c
  | S _, [] => [x]
  | S i', y :: c' => y :: insert_at i' x c'
  end.

Fixpoint delete_at (i : nat) (c : content) : content :=
  match i, c with
  | _, [] => []
  | O, _ :: c' => c'
  | S i', y :: c' => y :: delete_at i' c'
  end.

Fixpoint set_at (i : nat) (x : nat) (c : content) : content :=
  match i, c with
  | _, [] => []
  | O, _ :: c' => x :: c'
  | S i', y :: c' => y :: set_at i' x c'
  end.

Definition apply_edit (e : edit) (c : content) : content :=
  match e with
  | EdInsert i x => insert_at i x c
  | EdDelete i => delete_at i c
  | EdSet i x => set_at i x c
  | EdExtend xs => c ++ xs
  | EdSnap c' => c'
  end.

Inductive event :=
| ENew (o : nat) (c : content)
| EEdit (o : nat) (e : edit)
| ESubmit (o : nat) (r : nat).

Definition is_param (params : list nat) (x : nat) : bool := existsb (Nat.eqb x) params.
Definition resolve (params : list nat) (r : nat) (c : content) : payload :=
  map (fun x => (x, if is_param params x then r else 0)) c.

(* ---- what the property demands of a history ---- *)
Fixpoint expected (params : list nat) (h : heap) (evs : list event) : list payload :=
  match evs with
  | [] => []
  | ENew o c :: t => expected params (upd h o c) t
  | EEdit o e :: t => expected params (upd h o (apply_edit e (h o))) t
  | ESubmit o r :: t => resolve params r (h o) :: expected params h t
  end.

(* ---- samplers ---- *)
Record sampler := { st : Type; submit : st -> heap -> nat -> nat -> st * payload }.

Fixpoint run (S : sampler) (s : st S) (h : heap) (evs : list event) : list payload :=
  match evs with
  | [] => []
  | ENew o c :: t => run S s (upd h o c) t
  | EEdit o e :: t => run S s (upd h o (apply_edit e (h o))) t
  | ESubmit o r :: t => let sp := submit S s h o r in snd sp :: run S (fst sp) h t
  end.

(* what the vendor samplers of the working tree are: nothing is kept between calls *)
Definition stateless (params : list nat) : sampler :=
  {| st := unit; submit := fun s h o r => (s, resolve params r (h o)) |}.

Fixpoint content_eqb (a b : content) : bool :=
  match a, b with
  | [], [] => true
  | x :: a', y :: b' => Nat.eqb x y && content_eqb a' b'
  | _, _ => false
  end.

(* a sampler that keeps the last request body together with a COPY of the content it was made from *)
Definition value_cache (params : list nat) : sampler :=
  {| st := option (content * nat * payload);
     submit := fun s h o r =>
       let fresh := resolve params r (h o) in
       match s with
       | Some (c, r', p) => if content_eqb c (h o) && Nat.eqb r' r then (s, p) else (Some (h o, r, fresh), fresh)
       | None => (Some (h o, r, fresh), fresh)
       end |}.

(* a sampler that keeps the last request body together with the caller's OBJECT; "same circuit as last time?" is
   answered by comparing that object, as it is now, with the submitted one *)
Definition alias_cache (params : list nat) : sampler :=
  {| st := option (nat * nat * payload);
     submit := fun s h o r =>
       let fresh := resolve params r (h o) in
       match s with
       | Some (o', r', p) => if content_eqb (h o') (h o) && Nat.eqb r' r then (s, p) else (Some (o, r, fresh), fresh)
       | None => (Some (o, r, fresh), fresh)
       end |}.

(* ---- the check's evaluation: the decoded request bodies of a real history against the model ---- *)
Definition rop_eqb (a b : rop) : bool := Nat.eqb (fst a) (fst b) && Nat.eqb (snd a) (snd b).
Fixpoint payload_eqb (a b : payload) : bool :=
  match a, b with
  | [], [] => true
  | x :: a', y :: b' => rop_eqb x y && payload_eqb a' b'
  | _, _ => false
  end.
Fixpoint payloads_eqb (a b : list payload) : bool :=
  match a, b with
  | [], [] => true
  | x :: a', y :: b' => payload_eqb x y && payloads_eqb a' b'
  | _, _ => false
  end.

Definition history_ok (params : list nat) (evs : list event) (posted : list payload) : bool :=
  payloads_eqb (run (stateless params) tt empty_heap evs) posted.

(* index of the first posted body that is not the one the model posts (length posted = everything agrees) *)
Fixpoint first_bad (a b : list payload) (n : nat) : nat :=
  match a, b with
  | x :: a', y :: b' => if payload_eqb x y then first_bad a' b' (S n) else n
  | _, _ => n
  end.
