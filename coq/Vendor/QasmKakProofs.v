(* C19.D3: the sequence emitted for the interaction part of a KAK decomposition is that interaction up to the unit exp(-i z),
   for all interaction coefficients.  Proved in two halves with explicit intermediate matrices (computed symbolically). *)
From Coq Require Import Ring List ZArith.
From VF Require Import Base.RingOps Base.Mat Base.Tensor Gates.GateSpecs Gates.Families Gates.MatTac Vendor.Qasm Vendor.QasmKak Vendor.QasmProofs.
Import ListNotations.
Section KAK.
  Context {K : Type} (O : Ops K) (L : Laws O).
  Add Ring Kring5 : (law_ring O L).
  Infix "+" := (kadd O). Infix "*" := (kmul O). Infix "-" := (ksub O).
  Notation "- a" := (kopp O a).
  Notation z0 := (k0 O). Notation z1 := (k1 O). Notation hf := (khalf O). Notation ii := (ki O). Notation s2 := (ks2 O).
  Ltac cl := first [ ring [(qh2 O L) (qi2 O L) (qs22 O L)] | apply (qcancel2 O L); ring [(qh2 O L) (qi2 O L) (qs22 O L)] ].
  (* the closed form of exp_pp is an exponential: the generators square to the identity *)
  Lemma pp_sq_x : mmul O (pp O 0) (pp O 0) = mid O 4. Proof. mat_entries cl. Qed.
  Lemma pp_sq_y : mmul O (pp O 1) (pp O 1) = mid O 4. Proof. mat_entries cl. Qed.
  Lemma pp_sq_z : mmul O (pp O 2) (pp O 2) = mid O 4. Proof. mat_entries cl. Qed.
  Variables ux uxc uy uyc uz uzc : K.
  Hypothesis Ux : ux * uxc = z1.
  Hypothesis Uy : uy * uyc = z1.
  Hypothesis Uz : uz * uzc = z1.
  Ltac rg := first [ ring [Ux Uy Uz (qh2 O L) (qi2 O L) (qs22 O L)]
                     | apply (qcancel2 O L); ring [Ux Uy Uz (qh2 O L) (qi2 O L) (qs22 O L)]
                     | do 2 apply (qcancel2 O L); ring [Ux Uy Uz (qh2 O L) (qi2 O L) (qs22 O L)]
                     | do 3 apply (qcancel2 O L); ring [Ux Uy Uz (qh2 O L) (qi2 O L) (qs22 O L)]
                     | do 4 apply (qcancel2 O L); ring [Ux Uy Uz (qh2 O L) (qi2 O L) (qs22 O L)]
                     | do 6 apply (qcancel2 O L); ring [Ux Uy Uz (qh2 O L) (qi2 O L) (qs22 O L)]
                     | do 8 apply (qcancel2 O L); ring [Ux Uy Uz (qh2 O L) (qi2 O L) (qs22 O L)] ].
  Lemma kak_half1_lit : kak_half1 O ux uxc uy uyc =
    [[(kofZ O 1 * hf) * ux * uyc * s2 + (kofZ O 1 * hf) * uxc * uy * s2; (kofZ O (-1) * hf) * ux * uy * s2 + (kofZ O (-1) * hf) * uxc * uyc * s2; (kofZ O (-1) * hf) * ux * uy * s2 + (kofZ O 1 * hf) * uxc * uyc * s2; (kofZ O 1 * hf) * ux * uyc * s2 + (kofZ O (-1) * hf) * uxc * uy * s2];
     [(ii * (kofZ O (-1) * hf)) * ux * uyc * s2 + (ii * (kofZ O 1 * hf)) * uxc * uy * s2; (ii * (kofZ O (-1) * hf)) * ux * uy * s2 + (ii * (kofZ O 1 * hf)) * uxc * uyc * s2; (ii * (kofZ O (-1) * hf)) * ux * uy * s2 + (ii * (kofZ O (-1) * hf)) * uxc * uyc * s2; (ii * (kofZ O (-1) * hf)) * ux * uyc * s2 + (ii * (kofZ O (-1) * hf)) * uxc * uy * s2];
     [(kofZ O 1 * hf) * ux * uyc * s2 + (kofZ O (-1) * hf) * uxc * uy * s2; (kofZ O (-1) * hf) * ux * uy * s2 + (kofZ O 1 * hf) * uxc * uyc * s2; (kofZ O (-1) * hf) * ux * uy * s2 + (kofZ O (-1) * hf) * uxc * uyc * s2; (kofZ O 1 * hf) * ux * uyc * s2 + (kofZ O 1 * hf) * uxc * uy * s2];
     [(ii * (kofZ O (-1) * hf)) * ux * uyc * s2 + (ii * (kofZ O (-1) * hf)) * uxc * uy * s2; (ii * (kofZ O (-1) * hf)) * ux * uy * s2 + (ii * (kofZ O (-1) * hf)) * uxc * uyc * s2; (ii * (kofZ O (-1) * hf)) * ux * uy * s2 + (ii * (kofZ O 1 * hf)) * uxc * uyc * s2; (ii * (kofZ O (-1) * hf)) * ux * uyc * s2 + (ii * (kofZ O 1 * hf)) * uxc * uy * s2]].
  Proof. unfold kak_half1. rewrite (q_sx_lit O L). mat_entries rg. Qed.
  Lemma kak_half2_lit : kak_half2 O uz uzc =
    [[(kofZ O 1) * s2; z0; z0; (ii * (kofZ O 1)) * s2];
     [(kofZ O (-1)) * uzc * uzc * s2; z0; z0; (ii * (kofZ O 1)) * uzc * uzc * s2];
     [z0; (ii * (kofZ O 1)) * uzc * uzc * s2; (kofZ O (-1)) * uzc * uzc * s2; z0];
     [z0; (ii * (kofZ O 1)) * s2; (kofZ O 1) * s2; z0]].
  Proof. unfold kak_half2. rewrite (q_sxdg_lit O L), (q_CXr_lit O L). mat_entries rg. Qed.
  Theorem qasm_two_qubit_kak : kak_core O ux uxc uy uyc uz uzc = mscale O uzc (kak_interaction O ux uxc uy uyc uz uzc).
  Proof. unfold kak_core. rewrite kak_half1_lit, kak_half2_lit. mat_entries rg. Qed.
  (* version 3.0: the same sequence with rx(pi*-0.5) in place of sxdg, read with stdgates.inc (whose sx, rx, ry, rz carry their
     physical phases), is the interaction itself *)
  Lemma kak_half1_v3_eq : kak_half1_v3 O ux uxc uy uyc = mscale O (w8 O) (kak_half1 O ux uxc uy uyc).
  Proof. rewrite kak_half1_lit. unfold kak_half1_v3. mat_entries rg. Qed.
  Lemma kak_half2_v3_eq : kak_half2_v3 O uz uzc = mscale O (uz * w8c O) (kak_half2 O uz uzc).
  Proof. rewrite kak_half2_lit. unfold kak_half2_v3. mat_entries rg. Qed.
  Theorem qasm_two_qubit_kak_v3 : kak_core_v3 O ux uxc uy uyc uz uzc = kak_interaction O ux uxc uy uyc uz uzc.
  Proof.
    unfold kak_core_v3. rewrite kak_half1_v3_eq, kak_half2_v3_eq, kak_half1_lit, kak_half2_lit. mat_entries rg.
  Qed.
End KAK.
