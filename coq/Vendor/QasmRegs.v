(* C19.D2 - model of the register layout of QasmOutput (definitions only):
   _generate_qubit_ids (qubit i of the given order is q[i]), _generate_measurement_ids / _generate_cregs (one
   classical register per measurement key, in order of first use, sized by the largest measurement of that key)
   and MeasurementGate._qasm_ (qubit i of the measurement goes to bit i; an inverted bit is x; measure; x). *)
From Coq Require Import List Arith Bool.
Import ListNotations.

(* a measurement operation: key id, measured qubits (indices in the qubit order), full invert mask *)
Definition meas := (nat * list nat * list bool)%type.
Definition mkey (m : meas) : nat := fst (fst m).
Definition mqubits (m : meas) : list nat := snd (fst m).
Definition minv (m : meas) : list bool := snd m.

Definition qubit_ids (n : nat) : list nat := seq 0 n.

Fixpoint dedup (seen l : list nat) : list nat :=
  match l with
  | [] => []
  | k :: r => if existsb (Nat.eqb k) seen then dedup seen r else k :: dedup (k :: seen) r
  end.
Definition creg_keys (ms : list meas) : list nat := dedup [] (map mkey ms).
Definition creg_size (ms : list meas) (k : nat) : nat :=
  fold_left (fun acc m => if Nat.eqb (mkey m) k then Nat.max acc (length (mqubits m)) else acc) ms 0.
Definition cregs (ms : list meas) : list (nat * nat) := map (fun k => (k, creg_size ms k)) (creg_keys ms).
Fixpoint index_of (k : nat) (l : list nat) : nat :=
  match l with
  | [] => 0
  | x :: r => if Nat.eqb x k then 0 else S (index_of k r)
  end.
Definition reg_of (ms : list meas) (k : nat) : nat := index_of k (creg_keys ms).

Inductive rstmt := RX (q : nat) | RMeasure (q reg bit : nat).
Fixpoint measure_lines (reg : nat) (i : nat) (qs : list nat) (inv : list bool) : list rstmt :=
  match qs with
  | [] => []
  | q :: qs' =>
      let b := match inv with b :: _ => b | [] => false end in
      (if b then [RX q] else []) ++ [RMeasure q reg i] ++ (if b then [RX q] else []) ++ measure_lines reg (S i) qs' (tl inv)
  end.
Definition measure_stmts (ms : list meas) (m : meas) : list rstmt := measure_lines (reg_of ms (mkey m)) 0 (mqubits m) (minv m).
Definition all_measure_stmts (ms : list meas) : list rstmt := flat_map (measure_stmts ms) ms.
Definition only_measures (l : list rstmt) : list (nat * nat * nat) :=
  flat_map (fun s => match s with RMeasure q r b => [(q, r, b)] | RX _ => [] end) l.

(* comparison helpers for the correspondence run *)
Definition triple_eqb (a b : nat * nat * nat) : bool :=
  Nat.eqb (fst (fst a)) (fst (fst b)) && Nat.eqb (snd (fst a)) (snd (fst b)) && Nat.eqb (snd a) (snd b).
Fixpoint triples_eqb (a b : list (nat * nat * nat)) : bool :=
  match a, b with
  | [], [] => true
  | x :: a', y :: b' => triple_eqb x y && triples_eqb a' b'
  | _, _ => false
  end.
Fixpoint nats_eqb (a b : list nat) : bool :=
  match a, b with
  | [], [] => true
  | x :: a', y :: b' => Nat.eqb x y && nats_eqb a' b'
  | _, _ => false
  end.
(* the parsed declarations (sizes in declaration order) and measure statements (q, reg, bit) agree with the layout model *)
Definition layout_ok (ms : list meas) (sizes : list nat) (stmts : list (nat * nat * nat)) : bool :=
  nats_eqb (map snd (cregs ms)) sizes && triples_eqb (only_measures (all_measure_stmts ms)) stmts.
