(* C17 — proofs about AQT jobs and the measurements of the submitted circuit (model: Vendor/AQTMeas.v). *)
From Coq Require Import List Arith Bool NArith Lia.
From VF Require Import Base.Harness Vendor.AQTMeas.
Import ListNotations.

Lemma mrun_gates_only c : forall st, existsb is_meas c = false ->
  mrun c st = ([], fold_left flips (gates_of c) st).
Proof.
  induction c as [|i r IH]; intros st H; [reflexivity|].
  destruct i as [ws|k ws inv]; simpl in H; [|discriminate].
  simpl. rewrite (IH _ H). reflexivity.
Qed.

(* whatever the sampler accepts comes back with the meaning of the submitted circuit *)
Theorem aqt_sampler_faithful n c r : aqt_sampler n c = Some r -> r = circuit_records n c.
Proof.
  unfold aqt_sampler, aqt_submit, circuit_records.
  destruct (existsb is_meas c) eqn:E; [discriminate|].
  destruct c as [|i c']; [discriminate|].
  intros H. injection H as <-.
  rewrite (mrun_gates_only _ _ E). reflexivity.
Qed.

(* it refuses exactly the circuits that hold a measurement operation (and the empty one) *)
Theorem aqt_sampler_refuses n c : aqt_sampler n c = None <-> existsb is_meas c = true \/ c = [].
Proof.
  unfold aqt_sampler, aqt_submit. destruct (existsb is_meas c) eqn:E.
  - split; [left; reflexivity|reflexivity].
  - destruct c as [|i c']; split; intros H; try reflexivity; try discriminate; [right; reflexivity|].
    destruct H as [H|H]; discriminate.
Qed.

Lemma flip_at_length st : forall w, length (flip_at st w) = length st.
Proof. induction st as [|b r IH]; intros [|k]; simpl; try reflexivity. rewrite IH. reflexivity. Qed.

Lemma flips_length ws : forall st, length (flips st ws) = length st.
Proof.
  unfold flips. induction ws as [|w r IH]; intros st; simpl; [reflexivity|].
  rewrite IH. apply flip_at_length.
Qed.

Lemma fold_flips_length g : forall st, length (fold_left flips g st) = length st.
Proof. induction g as [|ws r IH]; intros st; simpl; [reflexivity|]. rewrite IH. apply flips_length. Qed.

Lemma meas_bits_all_from st : forall pre,
  meas_bits (pre ++ st) (seq (length pre) (length st)) [] = st.
Proof.
  induction st as [|b r IH]; intros pre; [reflexivity|].
  simpl. rewrite nth_middle, xorb_false_r. f_equal.
  specialize (IH (pre ++ [b])). rewrite <- app_assoc, app_length in IH. simpl in IH.
  rewrite Nat.add_1_r in IH. exact IH.
Qed.

Lemma meas_bits_all st : meas_bits st (seq 0 (length st)) [] = st.
Proof. exact (meas_bits_all_from st []). Qed.

Lemma mrun_app a : forall b st,
  mrun (a ++ b) st = let (r1, s1) := mrun a st in let (r2, s2) := mrun b s1 in (r1 ++ r2, s2).
Proof.
  induction a as [|i r IH]; intros b st.
  - simpl. destruct (mrun b st). reflexivity.
  - destruct i as [ws|k ws inv]; simpl.
    + apply IH.
    + rewrite IH. destruct (mrun r st) as [r1 s1]. destruct (mrun b s1) as [r2 s2]. reflexivity.
Qed.

(* the one measurement a job CAN say: gates, then all qubits in index order under 'm', nothing inverted — the circuit
   means the job of its gates, so accepting it (and only it) would be faithful as well *)
Theorem aqt_terminal_readout_is_the_job n g : existsb is_meas g = false ->
  circuit_records n (g ++ [AMeas key_m (seq 0 n) []]) = job_records n (gates_of g).
Proof.
  intros H. unfold circuit_records, job_records.
  rewrite mrun_app, (mrun_gates_only _ _ H). simpl.
  rewrite existsb_app. simpl. rewrite orb_true_r.
  set (s := fold_left flips (gates_of g) (repeat false n)).
  assert (L : length s = n) by (unfold s; rewrite fold_flips_length; apply repeat_length).
  rewrite <- L at 1. rewrite meas_bits_all. reflexivity.
Qed.

Example aqt_terminal_readout_example :
  existsb is_meas [AFlip [0]; AFlip [0; 1]] = false
  /\ circuit_records 2 ([AFlip [0]; AFlip [0; 1]] ++ [AMeas key_m (seq 0 2) []]) = [(key_m, [false; true])].
Proof. split; reflexivity. Qed.

(* ... and nothing else about measuring: "post the gates of the circuit and let the vendor read all qubits out" does not
   mean the circuit as soon as a measurement is not that readout (refuted by the witnesses of AQTMeas.v) *)
Theorem aqt_gates_alone_refuted :
  Forall (fun nc => existsb is_meas (snd nc) = true
                    /\ job_records (fst nc) (gates_of (snd nc)) <> circuit_records (fst nc) (snd nc)) aqt_meas_witnesses.
Proof.
  unfold aqt_meas_witnesses.
  repeat (constructor; [split; [reflexivity|intro H; vm_compute in H; congruence]|]).
  constructor.
Qed.

(* and the model sampler refuses every witness *)
Theorem aqt_sampler_refuses_witnesses :
  Forall (fun nc => aqt_sampler (fst nc) (snd nc) = None) aqt_meas_witnesses.
Proof. unfold aqt_meas_witnesses. repeat (constructor; [reflexivity|]). constructor. Qed.

(* the criterion the check applies to the implementation's answers (AQTMeas.aqt_answer_ok) is met by the model sampler *)
Lemma list_eqb_refl {A} (e : A -> A -> bool) : (forall x, e x x = true) -> forall l, list_eqb e l l = true.
Proof. intros He l. induction l as [|x r IH]; simpl; [reflexivity|]. rewrite He, IH. reflexivity. Qed.

Lemma mrecord_eqb_refl r : mrecord_eqb r r = true.
Proof.
  unfold mrecord_eqb, pair_eqb, bl_eqb.
  rewrite (list_eqb_refl N.eqb N.eqb_refl), (list_eqb_refl Bool.eqb eqb_reflx). reflexivity.
Qed.

Lemma forallb_self_exists l : forallb (fun r => existsb (mrecord_eqb r) l) l = true.
Proof.
  apply forallb_forall. intros r Hr. apply existsb_exists. exists r. split; [exact Hr|apply mrecord_eqb_refl].
Qed.

Lemma same_records_refl l : same_records l l = true.
Proof. unfold same_records. rewrite Nat.eqb_refl, forallb_self_exists. reflexivity. Qed.

Theorem aqt_model_answer_ok n c : aqt_answer_ok n c (aqt_sampler n c) = true.
Proof.
  unfold aqt_answer_ok. destruct (aqt_sampler n c) as [r|] eqn:E; [|reflexivity].
  rewrite (aqt_sampler_faithful _ _ _ E). apply same_records_refl.
Qed.

(* an answer that passes for a circuit holding a measurement is that circuit's records, never the readout of a job made of
   its gates, on each of the witnesses *)
Theorem aqt_answer_ok_rejects_gates_alone :
  Forall (fun nc => aqt_answer_ok (fst nc) (snd nc) (Some (job_records (fst nc) (gates_of (snd nc)))) = false) aqt_meas_witnesses.
Proof. unfold aqt_meas_witnesses. repeat (constructor; [reflexivity|]). constructor. Qed.
