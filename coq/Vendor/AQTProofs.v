(* C17.D5: the AQT mapping.  For every operation `_generate_json` accepts (ZPowGate, PhasedXPowGate, XXPowGate with any
   exponent, phase exponent and global shift) the vendor's definition of what is emitted is the Cirq gate's matrix up to the
   explicit unit factor g*r; and the legacy list of a whole circuit is translated operation by operation into the v1 payload
   with exactly one MEASURE at the end. *)
From Coq Require Import Ring List Arith Bool.
From VF Require Import Base.RingOps Base.Mat Gates.EigenGate Gates.GateSpecs Generated.EigenTables Gates.Families
  Gates.GateProofs Gates.MatTac Sim.Ref Vendor.AQT.
Import ListNotations.

Section Proofs.
  Context {K : Type} (O : Ops K) (L : Laws O).
  Add Ring Kring17c : (law_ring O L).
  Infix "+" := (kadd O). Infix "*" := (kmul O). Infix "-" := (ksub O).
  Notation "- a" := (kopp O a).
  Notation z1 := (k1 O).

  Theorem aqt_branch_z r rc g : r * rc = z1 ->
    gate_model O (GEig EZPow r rc g) = mscale O (g * r) (aqt_rz O r rc).
  Proof.
    intros U. change (gate_model O (GEig EZPow r rc g)) with (eig_unitary O (tbl_ZPow O) r rc g).
    rewrite (eig_ZPow O L r rc g U). mat_entries ltac:(ring [U]).
  Qed.
  Theorem aqt_branch_ms r rc g : r * rc = z1 ->
    gate_model O (GEig EXXPow r rc g) = mscale O (g * r) (aqt_rxx O r rc).
  Proof.
    intros U. change (gate_model O (GEig EXXPow r rc g)) with (eig_unitary O (tbl_XXPow O) r rc g).
    rewrite (eig_XXPow O L r rc g U). mat_entries ltac:(ring [U]).
  Qed.
  Theorem aqt_branch_r f fc r rc g :
    gate_model O (GPhasedX f fc r rc g) = mscale O (g * r) (aqt_r O r rc f fc).
  Proof. mat_entries ltac:(ring). Qed.

  (* one operation *)
  Theorem aqt_op_sem (o : aqt_cirq_op (K:=K)) : aqt_cirq_unit O o ->
    gate_model O (fst (aqt_cirq_gop o)) = mscale O (aqt_cirq_phase O o) (aqt_vendor_matrix O o).
  Proof.
    destruct o as [r rc g q | f fc r rc g q | r rc g q1 q2]; simpl; intros U.
    - apply aqt_branch_z; exact U.
    - apply aqt_branch_r.
    - apply aqt_branch_ms; exact U.
  Qed.

  (* a whole circuit *)
  Lemma parse_aux_map (os : list (aqt_cirq_op (K:=K))) :
    parse_legacy_aux (map aqt_generate os) false = Some (map aqt_emit_v1 os).
  Proof.
    induction os as [|o os IH]; [reflexivity|]. cbn [map parse_legacy_aux].
    destruct o; cbn [aqt_generate aqt_emit_v1]; rewrite IH; reflexivity.
  Qed.

  Lemma last_emit_not_measure (os : list (aqt_cirq_op (K:=K))) : os <> [] ->
    is_measure (last (map aqt_emit_v1 os) VMEASURE) = false.
  Proof.
    induction os as [|o os IH]; [congruence|]. intros _. destruct os as [|o' os'].
    - destruct o; reflexivity.
    - change (map aqt_emit_v1 (o :: o' :: os')) with (aqt_emit_v1 o :: map aqt_emit_v1 (o' :: os')).
      change (last (aqt_emit_v1 o :: map aqt_emit_v1 (o' :: os')) VMEASURE) with (last (map aqt_emit_v1 (o' :: os')) VMEASURE).
      apply IH. discriminate.
  Qed.

  Lemma v1_gops_emit nq (os : list (aqt_cirq_op (K:=K))) :
    forallb (aqt_cirq_wires_ok nq) os = true ->
    v1_gops O nq (map aqt_emit_v1 os ++ [VMEASURE]) = Some (map (aqt_vendor_gop O) os).
  Proof.
    induction os as [|o os IH]; [reflexivity|]. cbn [forallb]. intros H. apply andb_true_iff in H. destruct H as [Ho Hs].
    specialize (IH Hs). cbn [map app].
    assert (E : v1_gop O nq (aqt_emit_v1 o) = Some (Some (aqt_vendor_gop O o))).
    { destruct o as [r rc g q | f fc r rc g q | r rc g q1 q2]; cbn [aqt_emit_v1 v1_gop aqt_cirq_wires_ok] in *.
      - rewrite Ho. reflexivity.
      - rewrite Ho. reflexivity.
      - rewrite Ho. reflexivity. }
    destruct o; cbn [aqt_emit_v1 v1_gops] in *; rewrite E, IH; reflexivity.
  Qed.

  Theorem aqt_ops_sem nq (os : list (aqt_cirq_op (K:=K))) : os <> [] -> forallb (aqt_cirq_wires_ok nq) os = true ->
    parse_legacy (map aqt_generate os) = Some (map aqt_emit_v1 os ++ [VMEASURE])
    /\ v1_gops O nq (map aqt_emit_v1 os ++ [VMEASURE]) = Some (map (aqt_vendor_gop O) os)
    /\ Forall2 (fun o v => snd v = snd (aqt_cirq_gop o)
                          /\ (aqt_cirq_unit O o ->
                              gate_model O (fst (aqt_cirq_gop o)) = mscale O (aqt_cirq_phase O o) (gate_model O (fst v))))
               os (map (aqt_vendor_gop O) os).
  Proof.
    intros NE W. split; [|split].
    - unfold parse_legacy. destruct os as [|o os']; [congruence|].
      change (map aqt_generate (o :: os')) with (aqt_generate o :: map aqt_generate os') at 1.
      cbv iota. rewrite parse_aux_map. rewrite last_emit_not_measure by exact NE. reflexivity.
    - apply v1_gops_emit. exact W.
    - clear NE W. induction os as [|o os IH]; constructor; [|exact IH].
      split; [reflexivity|]. intros U. apply aqt_op_sem. exact U.
  Qed.
End Proofs.
