(* AQT job payloads (cirq_aqt/aqt_sampler.py): the legacy operation list written by `_generate_json`, its translation
   to the Arnica v1 payload (`_parse_legacy_circuit_json`), and AQT's documented gate definitions.  Definitions only.

   Trusted text (DESIGN 5/C17), angles in units of pi:
     RZ(phi)       = exp(-i pi phi Z / 2)
     R(theta, phi) = exp(-i pi theta/2 (cos(pi phi) X + sin(pi phi) Y))
     RXX(theta)    = exp(-i pi theta/2 X(x)X)
     MEASURE       measures all qubits; results come back per repetition as one bit per qubit in index order.
   Units: an exponent t enters as r = exp(i pi t/2), rc = conj r; a phase exponent p as f = exp(i pi p), fc = conj f. *)
From Coq Require Import List Arith Bool.
From VF Require Import Base.RingOps Base.Mat Base.Tensor Gates.GateSpecs Gates.Families Sim.Ref.
Import ListNotations.

Section AQT.
  Context {K : Type} (O : Ops K).
  Infix "+" := (kadd O). Infix "*" := (kmul O). Infix "-" := (ksub O).
  Notation "- a" := (kopp O a).
  Notation z0 := (k0 O). Notation z1 := (k1 O). Notation ii := (ki O).

  (* ---- the vendor's gate definitions ---- *)
  Definition aqt_rz (r rc : K) : matrix := [[rc; z0]; [z0; r]].
  Definition aqt_r (r rc f fc : K) : matrix :=
    let c := cosu O r rc in let s := sinu O r rc in
    [[c; - ii * s * fc]; [- ii * s * f; c]].
  Definition aqt_rxx (r rc : K) : matrix :=
    let c := cosu O r rc in let s := sinu O r rc in
    [[c; z0; z0; - ii * s]; [z0; c; - ii * s; z0]; [z0; - ii * s; c; z0]; [- ii * s; z0; z0; c]].

  (* ---- the legacy list: [name, exponent, qubits] / ["R", exponent, phase_exponent, qubits] ---- *)
  Inductive aqt_legacy :=
  | LZ (r rc : K) (qs : list nat)
  | LR (r rc f fc : K) (qs : list nat)
  | LMS (r rc : K) (qs : list nat)
  | LMeas
  | LUnknown.

  (* ---- the v1 payload ---- *)
  Inductive aqt_v1 :=
  | VRZ (r rc : K) (q : nat)                 (* operation RZ, phi, qubit *)
  | VR (r rc f fc : K) (q : nat)             (* operation R, theta, phi, qubit *)
  | VRXX (r rc : K) (qs : list nat)          (* operation RXX, theta, qubits *)
  | VMEASURE.

  (* _parse_legacy_circuit_json.  None = ValueError (unknown operation, or an operation after a measurement) /
     IndexError (a gate without qubits, the empty list). *)
  Fixpoint parse_legacy_aux (l : list aqt_legacy) (measured : bool) : option (list aqt_v1) :=
    match l with
    | [] => Some []
    | o :: rest =>
        if measured then None
        else
          match o with
          | LZ r rc (q :: _) =>
              match parse_legacy_aux rest false with Some t => Some (VRZ r rc q :: t) | None => None end
          | LR r rc f fc (q :: _) =>
              match parse_legacy_aux rest false with Some t => Some (VR r rc f fc q :: t) | None => None end
          | LMS r rc qs =>
              match parse_legacy_aux rest false with Some t => Some (VRXX r rc qs :: t) | None => None end
          | LMeas =>
              match parse_legacy_aux rest true with Some t => Some (VMEASURE :: t) | None => None end
          | _ => None
          end
    end.
  Definition is_measure (o : aqt_v1) : bool := match o with VMEASURE => true | _ => false end.
  Definition parse_legacy (l : list aqt_legacy) : option (list aqt_v1) :=
    match l with
    | [] => None
    | _ =>
        match parse_legacy_aux l false with
        | Some ops => if is_measure (last ops VMEASURE) then Some ops else Some (ops ++ [VMEASURE])
        | None => None
        end
    end.

  (* ---- meaning ---- *)
  Fixpoint nodup_nat (l : list nat) : bool :=
    match l with [] => true | x :: r => negb (existsb (Nat.eqb x) r) && nodup_nat r end.
  Definition v1_gop (nq : nat) (o : aqt_v1) : option (option (gop (K:=K))) :=     (* Some None: MEASURE *)
    match o with
    | VRZ r rc q => if Nat.ltb q nq then Some (Some (GMat [2] (aqt_rz r rc), [q])) else None
    | VR r rc f fc q => if Nat.ltb q nq then Some (Some (GMat [2] (aqt_r r rc f fc), [q])) else None
    | VRXX r rc [q1; q2] =>
        if Nat.ltb q1 nq && Nat.ltb q2 nq && negb (Nat.eqb q1 q2)
        then Some (Some (GMat [2; 2] (aqt_rxx r rc), [q1; q2])) else None
    | VRXX _ _ _ => None
    | VMEASURE => Some None
    end.
  (* the gates of a v1 circuit; well-formed = exactly one MEASURE, at the end *)
  Fixpoint v1_gops (nq : nat) (ops : list aqt_v1) : option (list (gop (K:=K))) :=
    match ops with
    | [] => None
    | [VMEASURE] => Some []
    | o :: rest =>
        match v1_gop nq o, v1_gops nq rest with
        | Some (Some g), Some gs => Some (g :: gs)
        | _, _ => None
        end
    end.
  (* aqt_ops_sem: the unitary AQT's definitions give the operation list on nq qubits (wire k = LineQubit(k)) *)
  Definition aqt_v1_unitary (nq : nat) (ops : list aqt_v1) : option (matrix (K:=K)) :=
    match v1_gops nq ops with Some gs => Some (circ_unitary O (repeat 2 nq) gs) | None => None end.
  Definition aqt_legacy_unitary (nq : nat) (l : list aqt_legacy) : option (matrix (K:=K)) :=
    match parse_legacy l with Some ops => aqt_v1_unitary nq ops | None => None end.

  (* ---- what _generate_json writes for the Cirq operations it accepts ---- *)
  Inductive aqt_cirq_op :=
  | CZPow (r rc g : K) (q : nat)                    (* cirq.ZPowGate(exponent, global_shift) on LineQubit(q) *)
  | CPhasedX (f fc r rc g : K) (q : nat)            (* cirq.PhasedXPowGate(phase_exponent, exponent, global_shift) *)
  | CXXPow (r rc g : K) (q1 q2 : nat).              (* cirq.XXPowGate(exponent, global_shift) *)
  Definition aqt_generate (o : aqt_cirq_op) : aqt_legacy :=
    match o with
    | CZPow r rc _ q => LZ r rc [q]
    | CPhasedX f fc r rc _ q => LR r rc f fc [q]
    | CXXPow r rc _ q1 q2 => LMS r rc [q1; q2]
    end.
  Definition aqt_cirq_gop (o : aqt_cirq_op) : gop (K:=K) :=
    match o with
    | CZPow r rc g q => (GEig EZPow r rc g, [q])
    | CPhasedX f fc r rc g q => (GPhasedX f fc r rc g, [q])
    | CXXPow r rc g q1 q2 => (GEig EXXPow r rc g, [q1; q2])
    end.
  Definition aqt_cirq_phase (o : aqt_cirq_op) : K :=
    match o with CZPow r _ g _ | CPhasedX _ _ r _ g _ | CXXPow r _ g _ _ => g * r end.
  Definition aqt_cirq_unit (o : aqt_cirq_op) : Prop :=
    match o with CZPow r rc _ _ | CPhasedX _ _ r rc _ _ | CXXPow r rc _ _ _ => r * rc = z1 end.
  Definition aqt_cirq_wires_ok (nq : nat) (o : aqt_cirq_op) : bool :=
    match o with
    | CZPow _ _ _ q | CPhasedX _ _ _ _ _ q => Nat.ltb q nq
    | CXXPow _ _ _ q1 q2 => Nat.ltb q1 nq && Nat.ltb q2 nq && negb (Nat.eqb q1 q2)
    end.
End AQT.

Section AQTEmit.
  Context {K : Type} (O : Ops K).
  (* the v1 operation and the vendor matrix of what `_generate_json` + `_parse_legacy_circuit_json` produce for one Cirq operation *)
  Definition aqt_emit_v1 (o : aqt_cirq_op (K:=K)) : aqt_v1 (K:=K) :=
    match o with
    | CZPow r rc _ q => VRZ r rc q
    | CPhasedX f fc r rc _ q => VR r rc f fc q
    | CXXPow r rc _ q1 q2 => VRXX r rc [q1; q2]
    end.
  Definition aqt_vendor_matrix (o : aqt_cirq_op (K:=K)) : matrix (K:=K) :=
    match o with
    | CZPow r rc _ _ => aqt_rz O r rc
    | CPhasedX f fc r rc _ _ => aqt_r O r rc f fc
    | CXXPow r rc _ _ _ => aqt_rxx O r rc
    end.
  Definition aqt_vendor_gop (o : aqt_cirq_op (K:=K)) : gop (K:=K) :=
    (GMat (gate_dims (fst (aqt_cirq_gop o))) (aqt_vendor_matrix o), snd (aqt_cirq_gop o)).
End AQTEmit.
