(* C19, supporting: the closed forms used for the three-qubit gates and for `ch` are what the bodies written in
   qelib1.inc multiply to, and the stdgates.inc (3.0) meaning of every mnemonic equals its qelib1.inc (2.0) meaning up
   to an explicit unit factor.  Constant matrices are checked exactly in Q(zeta_8) by vm_compute; parametrised
   one-qubit gates over the generic ring. *)
From Coq Require Import QArith Qcanon Ring List Bool.
From VF Require Import Base.RingOps Base.Mat Base.Tensor Base.K8 Base.Harness Gates.GateSpecs Gates.Families Gates.MatTac
  Vendor.Qasm Vendor.QasmProofs.
Import ListNotations.

Lemma k8_eqb_eq x y : k8_eqb x y = true -> x = y.
Proof.
  destruct x, y; unfold k8_eqb; simpl. rewrite !andb_true_iff. intros [[[A B] C] D].
  apply Qc_eq_bool_correct in A. apply Qc_eq_bool_correct in B. apply Qc_eq_bool_correct in C. apply Qc_eq_bool_correct in D.
  subst. reflexivity.
Qed.
Lemma list_eqb_eq {A} (e : A -> A -> bool) (He : forall x y, e x y = true -> x = y) :
  forall a b, list_eqb e a b = true -> a = b.
Proof.
  induction a as [|x a IH]; destruct b as [|y b]; simpl; try discriminate; [reflexivity|].
  rewrite andb_true_iff. intros [H1 H2]. apply He in H1. apply IH in H2. subst. reflexivity.
Qed.
Definition k8m_eqb (a b : matrix (K:=K8)) : bool := list_eqb (list_eqb k8_eqb) a b.
Lemma k8m_eqb_eq a b : k8m_eqb a b = true -> a = b.
Proof. apply list_eqb_eq. apply list_eqb_eq. exact k8_eqb_eq. Qed.

Notation O8 := K8Ops.
(* ccx a,b,c { h c; cx b,c; tdg c; cx a,c; t c; cx b,c; tdg c; cx a,c; t b; t c; h c; cx a,b; t a; tdg b; cx a,b; } is the Toffoli matrix *)
Theorem qelib_ccx_body : body_unitary O8 3%nat (ccx_body O8) = q_ccx O8.
Proof. apply k8m_eqb_eq. vm_compute. reflexivity. Qed.
(* cswap a,b,c { cx c,b; ccx a,b,c; cx c,b; } is the Fredkin matrix *)
Theorem qelib_cswap_body : body_unitary O8 3%nat (cswap_body O8) = q_cswap O8.
Proof. apply k8m_eqb_eq. vm_compute. reflexivity. Qed.
(* qelib1's ch body is exp(i pi/4) * controlled-H *)
Theorem qelib_ch_body : q_ch O8 = mscale O8 (w8 O8) (ctrl1 O8 [[ks2 O8; ks2 O8]; [ks2 O8; kopp O8 (ks2 O8)]]).
Proof. apply k8m_eqb_eq. vm_compute. reflexivity. Qed.
Theorem qasm_rule_ctrl_h : ctrl_matrix O8 [2%nat] [[1%nat]] (spec_HPow O8 (ki O8) (kopp O8 (ki O8)) (k1 O8)) = mscale O8 (w8c O8) (q_ch O8).
Proof. apply k8m_eqb_eq. vm_compute. reflexivity. Qed.

(* stdgates.inc vs qelib1.inc on the constant gates: equal, except sx (factor exp(i pi/4)) and ch (factor exp(-i pi/4)) *)
Definition const_gates : list (qgate (K:=K8)) := [QId; QX; QY; QZ; QH; QS; QSdg; QT; QTdg; QCx; QCy; QCz; QSwap; QCcx; QCswap].
Theorem stdgates_const_same : forallb (fun g => k8m_eqb (qmat3 O8 g) (qmat2 O8 g)) const_gates = true.
Proof. vm_compute. reflexivity. Qed.
Theorem stdgates_sx : qmat3 O8 QSx = mscale O8 (w8 O8) (qmat2 O8 QSx).
Proof. apply k8m_eqb_eq. vm_compute. reflexivity. Qed.
Theorem stdgates_ch : qmat3 O8 QCh = mscale O8 (w8c O8) (qmat2 O8 QCh).
Proof. apply k8m_eqb_eq. vm_compute. reflexivity. Qed.

Section Param.
  Context {K : Type} (O : Ops K) (L : Laws O).
  Add Ring Kring2 : (law_ring O L).
  Infix "+" := (kadd O). Infix "*" := (kmul O). Infix "-" := (ksub O).
  Notation "- a" := (kopp O a).
  Notation z0 := (k0 O). Notation z1 := (k1 O). Notation hf := (khalf O). Notation ii := (ki O). Notation s2 := (ks2 O).
  Variables a ac bh bhc ch chc : K.
  Hypothesis Ua : a * ac = z1.
  Hypothesis Ub : bh * bhc = z1.
  Hypothesis Uc : ch * chc = z1.
  Ltac closeS := first [ ring [Ua Ub Uc (qh2 O L) (qi2 O L) (qs22 O L)]
                       | apply (qcancel2 O L); ring [Ua Ub Uc (qh2 O L) (qi2 O L) (qs22 O L)]
                       | do 2 apply (qcancel2 O L); ring [Ua Ub Uc (qh2 O L) (qi2 O L) (qs22 O L)]
                       | do 3 apply (qcancel2 O L); ring [Ua Ub Uc (qh2 O L) (qi2 O L) (qs22 O L)]
                       | do 4 apply (qcancel2 O L); ring [Ua Ub Uc (qh2 O L) (qi2 O L) (qs22 O L)] ].
  Theorem stdgates_u3 : qmat3 O (QU3 a ac bh bhc ch chc) = mscale O (bhc * chc) (qmat2 O (QU3 a ac bh bhc ch chc)).
  Proof. mat_entries closeS. Qed.
  Theorem stdgates_u2 : qmat3 O (QU2 bh bhc ch chc) = mscale O (bhc * chc) (qmat2 O (QU2 bh bhc ch chc)).
  Proof. mat_entries closeS. Qed.
  Theorem stdgates_u1 : qmat3 O (QU1 ch chc) = qmat2 O (QU1 ch chc).
  Proof. mat_entries closeS. Qed.
  Theorem stdgates_rx : qmat3 O (QRx a ac) = qmat2 O (QRx a ac).
  Proof. mat_entries closeS. Qed.
  Theorem stdgates_ry : qmat3 O (QRy a ac) = qmat2 O (QRy a ac).
  Proof. mat_entries closeS. Qed.
  Theorem stdgates_rz : qmat3 O (QRz a ac) = mscale O ac (qmat2 O (QRz a ac)).
  Proof. mat_entries closeS. Qed.
  Theorem stdgates_crz : qmat3 O (QCrz a ac) = qmat2 O (QCrz a ac).
  Proof. unfold qmat3, qmat2. rewrite (q_crz_lit O L a ac Ua). mat_entries closeS. Qed.
End Param.
