(* C19 correspondence helpers (float instance): comparison of two branch ensembles record by record. *)
From Coq Require Import PrimFloat List Bool Arith.
From VF Require Import Base.RingOps Base.Mat Base.Tensor Base.FloatInst Gates.Families Sim.Ref Sim.Measure Vendor.Qasm.
Import ListNotations.

(* the unnormalised density operator of the branches whose flattened record is r (its trace is the probability of r) *)
Definition sub_rho (n : nat) (bs : list (branch (K:=FC))) (r : list nat) : matrix (K:=FC) :=
  ensemble_rho FOps n (filter (fun b => list_eqb_nat (flat_rec (brec b)) r) bs).
Definition all_len (k : nat) (bs : list (branch (K:=FC))) : bool :=
  forallb (fun b => Nat.eqb (length (flat_rec (brec b))) k) bs.
(* same outcome distribution and same (mixed) state for every outcome *)
Definition ensembles_close (tol : float) (n nbits : nat) (bs1 bs2 : list (branch (K:=FC))) : bool :=
  all_len nbits bs1 && all_len nbits bs2 &&
  forallb (fun r => fcll_close tol (sub_rho n bs1 r) (sub_rho n bs2 r)) (enum (repeat 2%nat nbits)).
Definition zero_state (n : nat) : list FC := basis FOps (repeat 2%nat n) 0%nat.

(* condition truth tables: hist = for each earlier measurement of the key, its bits; the circuit sees records
   (key, bits) and the program sees one record per written register bit *)
Definition circuit_records (key : nat) (hist : list (list nat)) : list recd :=
  map (fun ds => (key, ds, repeat 2%nat (length ds))) hist.
Definition program_records (reg : nat) (hist : list (list nat)) : list recd :=
  flat_map (fun ds => map (fun p => (bit_key reg (fst p), [snd p], [2%nat])) (combine (seq 0%nat (length ds)) ds)) hist.
Fixpoint histories (lens : list nat) : list (list (list nat)) :=
  match lens with
  | [] => [[]]
  | n :: r => flat_map (fun ds => map (cons ds) (histories r)) (enum (repeat 2%nat n))
  end.
Definition cond_same (c : cond) (key : nat) (qc : qcond) (reg : nat) (lens : list nat) : bool :=
  forallb (fun h => match eval_cond c (circuit_records key h) with
                    | Some b => Bool.eqb b (qcond_eval (program_records reg h) qc)
                    | None => false
                    end) (histories lens).

(* the conditions of one classically controlled operation are a conjunction, possibly over several keys: the operation runs
   iff all of them hold.  ks = for each key involved (key id, its register, lengths of its earlier measurements); every
   combination of histories is tried; a circuit condition that cannot be evaluated (no record) is a disagreement. *)
Fixpoint multi_histories (ks : list (nat * nat * list nat)) : list (list recd * list recd) :=
  match ks with
  | [] => [([], [])]
  | (key, reg, lens) :: r =>
      flat_map (fun h => map (fun p => (circuit_records key h ++ fst p, program_records reg h ++ snd p)) (multi_histories r))
               (histories lens)
  end.
Definition conds_same (cs : list cond) (qcs : list qcond) (ks : list (nat * nat * list nat)) : bool :=
  forallb (fun p => forallb (fun c => match eval_cond c (fst p) with Some _ => true | None => false end) cs &&
                    Bool.eqb (forallb (fun c => match eval_cond c (fst p) with Some true => true | _ => false end) cs)
                             (forallb (qcond_eval (snd p)) qcs))
          (multi_histories ks).
