(* C19.D1: the standard-library meaning of what each `_qasm_` rule emits is the gate's documented matrix up to an
   explicit unit factor, for every exponent in the rule's guard.  Entrywise ring identities under unit hypotheses
   (r = exp(i pi e/2), r*rc = 1, g = exp(i pi e s); symbolic units with their defining equations for angles that
   are not in the ring, e.g. q with q*q = exp(i pi/4)). *)
From Coq Require Import Ring List ZArith.
From VF Require Import Base.RingOps Base.Mat Base.Tensor Gates.GateSpecs Gates.Families Gates.MatTac Vendor.Qasm.
Import ListNotations.

Section QasmProofs.
  Context {K : Type} (O : Ops K) (L : Laws O).
  Add Ring Kring : (law_ring O L).
  Infix "+" := (kadd O). Infix "*" := (kmul O). Infix "-" := (ksub O).
  Notation "- a" := (kopp O a).
  Notation z0 := (k0 O). Notation z1 := (k1 O). Notation hf := (khalf O). Notation ii := (ki O). Notation s2 := (ks2 O).

  Lemma qh2 : (z1 + z1) * hf = z1.
  Proof. transitivity (hf + hf); [ring | exact (law_half O L)]. Qed.
  Lemma qi2 : ii * ii = - z1. Proof. exact (law_i O L). Qed.
  Lemma qs22 : s2 * s2 = hf. Proof. exact (law_s2 O L). Qed.
  Lemma qcancel2 a b : (z1 + z1) * a = (z1 + z1) * b -> a = b.
  Proof. intros H. transitivity (hf * ((z1 + z1) * a)); [ring [qh2]|]. rewrite H. ring [qh2]. Qed.

  Ltac close_with tac :=
    first [ tac | apply qcancel2; tac | do 2 apply qcancel2; tac | do 3 apply qcancel2; tac | do 4 apply qcancel2; tac
          | do 6 apply qcancel2; tac | do 8 apply qcancel2; tac ].
  Ltac close := close_with ltac:(ring [qh2 qi2 qs22]).

  Lemma w8_unit : w8 O * w8c O = z1.
  Proof. unfold w8, w8c. apply qcancel2. ring [qh2 qi2 qs22]. Qed.
  Lemma w8_sq : w8 O * w8 O = ii.
  Proof. unfold w8. apply qcancel2. ring [qh2 qi2 qs22]. Qed.
  Lemma w8c_sq : w8c O * w8c O = - ii.
  Proof. unfold w8c. apply qcancel2. ring [qh2 qi2 qs22]. Qed.

  (* ---- closed forms of the qelib1.inc one-qubit gates ---- *)
  Lemma q_id_lit : q_id O = mid O 2. Proof. mat_entries close. Qed.
  Lemma q_x_lit : q_x O = [[z0; z1]; [z1; z0]]. Proof. mat_entries close. Qed.
  Lemma q_y_lit : q_y O = [[z0; - ii]; [ii; z0]]. Proof. mat_entries close. Qed.
  Lemma q_z_lit : q_z O = [[z1; z0]; [z0; - z1]]. Proof. mat_entries close. Qed.
  Lemma q_h_lit : q_h O = [[s2; s2]; [s2; - s2]]. Proof. mat_entries close. Qed.
  Lemma q_u1_lit c : q_u1 O c = [[z1; z0]; [z0; c]]. Proof. mat_entries close. Qed.
  Lemma q_sx_lit : q_sx O = [[s2; - ii * s2]; [- ii * s2; s2]]. Proof. mat_entries close. Qed.
  Lemma q_sxdg_lit : q_sxdg O = [[s2; ii * s2]; [ii * s2; s2]]. Proof. mat_entries close. Qed.

  Section Units.
    Variables r rc g : K.
    Hypothesis U : r * rc = z1.
    Ltac closeU := close_with ltac:(ring [U qh2 qi2 qs22]).

    (* XPowGate / Rx: rx(pi e) for every exponent and shift *)
    Theorem qasm_rule_rx : spec_XPow O r rc g = mscale O (g * r) (q_rx O r rc).
    Proof. mat_entries closeU. Qed.
    Theorem qasm_rule_ry : spec_YPow O r rc g = mscale O (g * r) (q_ry O r rc).
    Proof. mat_entries closeU. Qed.
    Theorem qasm_rule_rz : spec_ZPow O r rc g = mscale O g (q_rz O r rc).
    Proof. mat_entries closeU. Qed.
  End Units.

  (* the special exponents of XPowGate at global shift 0 *)
  Theorem qasm_rule_x : spec_XPow O ii (- ii) z1 = q_x O.
  Proof. mat_entries close. Qed.
  Theorem qasm_rule_sx : spec_XPow O (w8 O) (w8c O) z1 = mscale O (w8 O) (q_sx O).
  Proof. mat_entries close. Qed.
  Theorem qasm_rule_sxdg : spec_XPow O (w8c O) (w8 O) z1 = mscale O (w8c O) (q_sxdg O).
  Proof. mat_entries close. Qed.
End QasmProofs.
