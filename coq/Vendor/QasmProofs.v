(* C19.D1: the standard-library meaning of what each `_qasm_` rule emits is the gate's documented matrix up to an
   explicit unit factor, for every exponent in the rule's guard.  Entrywise ring identities under unit hypotheses
   (r = exp(i pi e/2), r*rc = 1, g = exp(i pi e s); symbolic units with their defining equations for angles that
   are not in the ring, e.g. q with q*q = exp(i pi/4)). *)
From Coq Require Import Ring List ZArith.
From VF Require Import Base.RingOps Base.Mat Base.Tensor Gates.GateSpecs Gates.Families Gates.MatTac Vendor.Qasm.
Import ListNotations.

Section QasmProofs.
  Context {K : Type} (O : Ops K) (L : Laws O).
  Add Ring Kring : (law_ring O L).
  Infix "+" := (kadd O). Infix "*" := (kmul O). Infix "-" := (ksub O).
  Notation "- a" := (kopp O a).
  Notation z0 := (k0 O). Notation z1 := (k1 O). Notation hf := (khalf O). Notation ii := (ki O). Notation s2 := (ks2 O).

  Lemma qh2 : (z1 + z1) * hf = z1.
  Proof. transitivity (hf + hf); [ring | exact (law_half O L)]. Qed.
  Lemma qi2 : ii * ii = - z1. Proof. exact (law_i O L). Qed.
  Lemma qs22 : s2 * s2 = hf. Proof. exact (law_s2 O L). Qed.
  Lemma qcancel2 a b : (z1 + z1) * a = (z1 + z1) * b -> a = b.
  Proof. intros H. transitivity (hf * ((z1 + z1) * a)); [ring [qh2]|]. rewrite H. ring [qh2]. Qed.

  Ltac close_with tac :=
    first [ tac | apply qcancel2; tac | do 2 apply qcancel2; tac | do 3 apply qcancel2; tac | do 4 apply qcancel2; tac
          | do 6 apply qcancel2; tac | do 8 apply qcancel2; tac ].
  Ltac close := close_with ltac:(ring [qh2 qi2 qs22]).

  Lemma w8_unit : w8 O * w8c O = z1.
  Proof. unfold w8, w8c. apply qcancel2. ring [qh2 qi2 qs22]. Qed.
  Lemma w8_sq : w8 O * w8 O = ii.
  Proof. unfold w8. apply qcancel2. ring [qh2 qi2 qs22]. Qed.
  Lemma w8c_sq : w8c O * w8c O = - ii.
  Proof. unfold w8c. apply qcancel2. ring [qh2 qi2 qs22]. Qed.

  (* ---- closed forms of the qelib1.inc one-qubit gates ---- *)
  Lemma q_id_lit : q_id O = mid O 2. Proof. mat_entries close. Qed.
  Lemma q_x_lit : q_x O = [[z0; z1]; [z1; z0]]. Proof. mat_entries close. Qed.
  Lemma q_y_lit : q_y O = [[z0; - ii]; [ii; z0]]. Proof. mat_entries close. Qed.
  Lemma q_z_lit : q_z O = [[z1; z0]; [z0; - z1]]. Proof. mat_entries close. Qed.
  Lemma q_h_lit : q_h O = [[s2; s2]; [s2; - s2]]. Proof. mat_entries close. Qed.
  Lemma q_u1_lit c : q_u1 O c = [[z1; z0]; [z0; c]]. Proof. mat_entries close. Qed.
  Lemma q_sx_lit : q_sx O = [[s2; - ii * s2]; [- ii * s2; s2]]. Proof. mat_entries close. Qed.
  Lemma q_sxdg_lit : q_sxdg O = [[s2; ii * s2]; [ii * s2; s2]]. Proof. mat_entries close. Qed.

  Section Units.
    Variables r rc g : K.
    Hypothesis U : r * rc = z1.
    Ltac closeU := close_with ltac:(ring [U qh2 qi2 qs22]).

    (* XPowGate / Rx: rx(pi e) for every exponent and shift *)
    Theorem qasm_rule_rx : spec_XPow O r rc g = mscale O (g * r) (q_rx O r rc).
    Proof. mat_entries closeU. Qed.
    Theorem qasm_rule_ry : spec_YPow O r rc g = mscale O (g * r) (q_ry O r rc).
    Proof. mat_entries closeU. Qed.
    Theorem qasm_rule_rz : spec_ZPow O r rc g = mscale O g (q_rz O r rc).
    Proof. mat_entries closeU. Qed.

    (* HPowGate, generic exponent: ry(pi/4); rx(pi e); ry(-pi/4)   with q = exp(i pi/8) *)
    Variables q qc : K.
    Hypothesis Uq : q * qc = z1.
    Hypothesis Q8 : q * q = w8 O.
    Lemma qc_sq : qc * qc = w8c O.
    Proof.
      transitivity (qc * qc * (w8 O * w8c O)); [rewrite w8_unit; ring|].
      rewrite <- Q8. transitivity ((q * qc) * (q * qc) * w8c O); [ring|]. rewrite Uq. ring.
    Qed.
    Theorem qasm_rule_hpow : spec_HPow O r rc g = mscale O (g * r) (mprod O 2 [q_ry O q qc; q_rx O r rc; q_ry O qc q]).
    Proof.
      pose proof qc_sq as QC8. unfold w8 in Q8. unfold w8c in QC8.
      mat_entries ltac:(close_with ltac:(ring [U Uq Q8 QC8 qh2 qi2 qs22])).
    Qed.

    (* two-qubit families: emitted only when the exponent is odd, i.e. r*r = exp(i pi e) = -1 *)
    Hypothesis Odd : r * r = - z1.
    Ltac closeO := close_with ltac:(ring [U Odd qh2 qi2 qs22]).
    Theorem qasm_rule_cz : spec_CZPow O r rc g = mscale O g (q_cz O).
    Proof. unfold q_cz. rewrite q_h_lit. mat_entries closeO. Qed.
    Theorem qasm_rule_cx : spec_CXPow O r rc g = mscale O g (q_CX O).
    Proof. mat_entries closeO. Qed.
    Theorem qasm_rule_cy : spec_CYPow O r rc g = mscale O g (q_cy O).
    Proof. unfold q_cy, q_sdg, q_s. rewrite !q_u1_lit. mat_entries closeO. Qed.
  End Units.

  (* ---- the remaining special exponents ---- *)
  Theorem qasm_rule_y g : spec_YPow O ii (- ii) g = mscale O g (q_y O).
  Proof. mat_entries close. Qed.
  Theorem qasm_rule_z : spec_ZPow O ii (- ii) z1 = q_z O.
  Proof. mat_entries close. Qed.
  Theorem qasm_rule_s : spec_ZPow O (w8 O) (w8c O) z1 = q_s O.
  Proof. mat_entries close. Qed.
  Theorem qasm_rule_sdg : spec_ZPow O (w8c O) (w8 O) z1 = q_sdg O.
  Proof. mat_entries close. Qed.
  Theorem qasm_rule_t r rc : r * rc = z1 -> r * r = w8 O -> spec_ZPow O r rc z1 = q_t O.
  Proof. intros U R. unfold w8 in R. mat_entries ltac:(close_with ltac:(ring [U R qh2 qi2 qs22])). Qed.
  Theorem qasm_rule_tdg r rc : r * rc = z1 -> r * r = w8c O -> spec_ZPow O r rc z1 = q_tdg O.
  Proof. intros U R. unfold w8c in R. mat_entries ltac:(close_with ltac:(ring [U R qh2 qi2 qs22])). Qed.
  Theorem qasm_rule_h : spec_HPow O ii (- ii) z1 = q_h O.
  Proof. mat_entries close. Qed.
  Theorem qasm_rule_h0 : spec_HPow O z1 z1 z1 = q_id O.       (* exponent 0: id *)
  Proof. mat_entries close. Qed.
  Theorem qasm_rule_identity : mid O 2 = q_id O.
  Proof. mat_entries close. Qed.
  Theorem qasm_rule_swap g : spec_SwapPow O ii (- ii) g = mscale O g (q_swap O).
  Proof. mat_entries close. Qed.

  (* ---- three-qubit gates (exponent 1) ---- *)
  Theorem qasm_rule_ccx g : spec_CCXPow O ii (- ii) g = mscale O g (q_ccx O).
  Proof. mat_entries close. Qed.
  Theorem qasm_rule_ccz g :
    spec_CCZPow O ii (- ii) g = mscale O g (body_unitary O 3 [(q_h O, [2]); (q_ccx O, [0; 1; 2]); (q_h O, [2])]).
  Proof. rewrite q_h_lit. mat_entries close. Qed.
  Theorem qasm_rule_ccy g :
    spec_CCYPow O ii (- ii) g = mscale O g (body_unitary O 3 [(q_sdg O, [2]); (q_ccx O, [0; 1; 2]); (q_s O, [2])]).
  Proof. unfold q_sdg, q_s. rewrite !q_u1_lit. mat_entries close. Qed.
  Theorem qasm_rule_cswap : spec_CSwap O = q_cswap O.
  Proof. reflexivity. Qed.

  (* ---- u3 conventions ---- *)
  Section U3.
    Variables a ac bh bhc ch chc : K.
    Hypothesis Ua : a * ac = z1.
    Hypothesis Ub : bh * bhc = z1.
    Hypothesis Uc : ch * chc = z1.
    Ltac close3 := close_with ltac:(ring [Ua Ub Uc qh2 qi2 qs22]).
    (* QasmUGate(theta,phi,lmda) is DEFINED by its decomposition rz(lmda pi); ry(theta pi); rz(phi pi); phase i^(phi+lmda):
       that product is exactly the standard u3(theta pi, phi pi, lmda pi)    (cirq.rz(t) = ZPow with shift -1/2) *)
    Theorem qasm_rule_u3 :
      mscale O (bh * ch) (mprod O 2 [spec_ZPow O ch chc chc; spec_YPow O a ac ac; spec_ZPow O bh bhc bhc])
      = q_u3 O a ac (bh * bh) (ch * ch).
    Proof. mat_entries close3. Qed.
  End U3.
  (* angles are reduced mod 2 half turns: theta + 2 pi changes the sign of a, a global sign of the matrix *)
  Theorem qasm_u3_theta_period a ac b c : q_u3 O (- a) (- ac) b c = mscale O (- z1) (q_u3 O a ac b c).
  Proof. mat_entries close. Qed.
  Section Phased.
    Variables f fc r rc g : K.
    Hypothesis Uf : f * fc = z1.
    Hypothesis Ur : r * rc = z1.
    Ltac closeP := close_with ltac:(ring [Uf Ur qh2 qi2 qs22]).
    (* PhasedXPowGate(p, e): u3(pi*(-e), pi*(p+1/2), pi*(-p-1/2))      f = exp(i pi p) *)
    Theorem qasm_rule_phasedx : spec_PhasedX O f fc r rc g = mscale O (g * r) (q_u3 O rc r (ii * f) (- ii * fc)).
    Proof. mat_entries closeP. Qed.
    (* e = -1/2: u2(pi*(p+1/2), pi*(-p-1/2));  e = 1/2: u2(pi*(p-1/2), pi*(-p+1/2)) *)
    Theorem qasm_rule_phasedx_mhalf : spec_PhasedX O f fc (w8c O) (w8 O) g = mscale O (g * w8c O) (q_u2 O (ii * f) (- ii * fc)).
    Proof. mat_entries closeP. Qed.
    Theorem qasm_rule_phasedx_half : spec_PhasedX O f fc (w8 O) (w8c O) g = mscale O (g * w8 O) (q_u2 O (- ii * f) (ii * fc)).
    Proof. mat_entries closeP. Qed.
    (* PhasedXZGate(x, z, a) -> QasmUGate(theta = x, phi = z + a - 1/2, lmda = 1/2 - a)   fa = exp(i pi a), fz = exp(i pi z) *)
    Variables fz fzc : K.
    Hypothesis Uz : fz * fzc = z1.
    Theorem qasm_rule_phasedxz : spec_PhasedXZ O f fc fz fzc r rc = mscale O r (q_u3 O r rc (- ii * f * fz) (ii * fc)).
    Proof. mat_entries ltac:(close_with ltac:(ring [Uf Ur Uz qh2 qi2 qs22])). Qed.
  End Phased.

  (* ---- ControlledOperation with one qubit control on X, Y, Z, H (exponent 1, shift 0): cx, cy, cz, ch ---- *)
  Theorem qasm_rule_ctrl_x : ctrl_matrix O [2] [[1]] (spec_XPow O ii (- ii) z1) = q_CX O.
  Proof. mat_entries close. Qed.
  Theorem qasm_rule_ctrl_y : ctrl_matrix O [2] [[1]] (spec_YPow O ii (- ii) z1) = q_cy O.
  Proof. unfold q_cy, q_sdg, q_s. rewrite !q_u1_lit. mat_entries close. Qed.
  Theorem qasm_rule_ctrl_z : ctrl_matrix O [2] [[1]] (spec_ZPow O ii (- ii) z1) = q_cz O.
  Proof. unfold q_cz. rewrite q_h_lit. mat_entries close. Qed.

  (* ---- closed forms of the two-qubit library gates ---- *)
  Lemma q_CXr_lit : q_CXr O = [[z1; z0; z0; z0]; [z0; z0; z0; z1]; [z0; z0; z1; z0]; [z0; z1; z0; z0]].
  Proof. mat_entries close. Qed.
  Lemma q_cz_lit : q_cz O = mdiag O [z1; z1; z1; - z1]. Proof. unfold q_cz. rewrite q_h_lit. mat_entries close. Qed.
  Lemma q_swap_lit : q_swap O = [[z1; z0; z0; z0]; [z0; z0; z1; z0]; [z0; z1; z0; z0]; [z0; z0; z0; z1]].
  Proof. mat_entries close. Qed.
  Lemma q_crz_lit a ac : a * ac = z1 -> q_crz O a ac = mdiag O [z1; z1; ac; a].
  Proof. intros U. unfold q_crz. rewrite !q_u1_lit. mat_entries ltac:(close_with ltac:(ring [U])). Qed.

  (* the special exponents of XPowGate at global shift 0 *)
  Theorem qasm_rule_x : spec_XPow O ii (- ii) z1 = q_x O.
  Proof. mat_entries close. Qed.
  Theorem qasm_rule_sx : spec_XPow O (w8 O) (w8c O) z1 = mscale O (w8 O) (q_sx O).
  Proof. mat_entries close. Qed.
  Theorem qasm_rule_sxdg : spec_XPow O (w8c O) (w8 O) z1 = mscale O (w8c O) (q_sxdg O).
  Proof. mat_entries close. Qed.
End QasmProofs.
