(* C19.D1: the table regenerated from the working tree is the emission model, key by key (so a changed `_qasm_` rule
   breaks this file), and the rows of the model mean, through the standard library, the documented matrices. *)
From Coq Require Import Ring List ZArith Bool.
From VF Require Import Base.RingOps Base.Mat Base.Tensor Base.K8 Base.Harness Gates.GateSpecs Gates.Families Gates.MatTac
  Vendor.Qasm Vendor.QasmEmit Vendor.QasmProofs Vendor.QasmLibProofs Generated.QasmMnemonics.
Import ListNotations.

Theorem qasm_table_is_model : table_ok qasm_table = true.
Proof. vm_compute. reflexivity. Qed.

(* ---- every key of the model: the rows it emits, read with qelib1.inc, are the documented matrix up to a unit ----
   r = exp(i pi e/2) for the exponent class (q^k for e = k/4, q = exp(i pi/8)), g = exp(i pi e s) for the shift class *)
Section Sound.
  Context {K : Type} (O : Ops K) (L : Laws O).
  Add Ring Kring4 : (law_ring O L).
  Infix "+" := (kadd O). Infix "*" := (kmul O). Infix "-" := (ksub O).
  Notation "- a" := (kopp O a).
  Notation z0 := (k0 O). Notation z1 := (k1 O). Notation hf := (khalf O). Notation ii := (ki O). Notation s2 := (ks2 O).

  Lemma is_spec_true e k : is_spec e k = true -> e = ESpec k.
  Proof. destruct e as [j|]; simpl; [|discriminate]. intros H. apply Z.eqb_eq in H. subst. reflexivity. Qed.

  Lemma kpow_unit x y n : x * y = z1 -> kpow O x n * kpow O y n = z1.
  Proof. intros H. induction n as [|n IH]; simpl; [ring|]. transitivity ((x * y) * (kpow O x n * kpow O y n)); [ring|]. rewrite H, IH. ring. Qed.
  Lemma kpowZ_unit x y k : x * y = z1 -> kpowZ O x y k * kpowZ O y x k = z1.
  Proof.
    intros H. destruct k; simpl; [ring | apply kpow_unit; exact H|]. apply kpow_unit. rewrite <- H. ring.
  Qed.

  Variables q qc : K.
  Hypothesis Uq : q * qc = z1.
  Hypothesis Q8 : q * q = w8 O.
  Lemma QC8' : qc * qc = s2 * (z1 - ii). Proof. exact (qc_sq O L q qc Uq Q8). Qed.
  Lemma Q8' : q * q = s2 * (z1 + ii). Proof. exact Q8. Qed.

  Ltac rg H1 H2 H3 := first [ ring [H1 H2 H3 Uq Q8' QC8' (qh2 O L) (qi2 O L) (qs22 O L)]
                     | apply (qcancel2 O L); ring [H1 H2 H3 Uq Q8' QC8' (qh2 O L) (qi2 O L) (qs22 O L)]
                     | do 2 apply (qcancel2 O L); ring [H1 H2 H3 Uq Q8' QC8' (qh2 O L) (qi2 O L) (qs22 O L)]
                     | do 3 apply (qcancel2 O L); ring [H1 H2 H3 Uq Q8' QC8' (qh2 O L) (qi2 O L) (qs22 O L)]
                     | do 4 apply (qcancel2 O L); ring [H1 H2 H3 Uq Q8' QC8' (qh2 O L) (qi2 O L) (qs22 O L)] ].
  Ltac with_phase H1 H2 H3 ph phc :=
    exists ph, phc; split; [ cbv -[kadd kmul kopp ksub kconj k0 k1 ki khalf ks2]; rg H1 H2 H3 | mat_entries ltac:(rg H1 H2 H3) ].

  (* generic rotation rows *)
  Section Rot.
    Variables a ac g gc : K.
    Hypothesis Ua : a * ac = z1.
    Hypothesis Ug : g * gc = z1.
    Lemma rot_rx : up_to_unit O (spec_XPow O a ac g) (body_unitary O 1 [(qmat O false (QRx a ac), [0])]).
    Proof. with_phase Ua Ug Ug (g * a) (gc * ac). Qed.
    Lemma rot_ry : up_to_unit O (spec_YPow O a ac g) (body_unitary O 1 [(qmat O false (QRy a ac), [0])]).
    Proof. with_phase Ua Ug Ug (g * a) (gc * ac). Qed.
    Lemma rot_rz : up_to_unit O (spec_ZPow O a ac g) (body_unitary O 1 [(qmat O false (QRz a ac), [0])]).
    Proof. with_phase Ua Ug Ug g gc. Qed.
  End Rot.

  Lemma body1 a b c d : body_unitary O 1 [([[a; b]; [c; d]], [0])] = [[a; b]; [c; d]].
  Proof. mat_entries ltac:(ring). Qed.
  Lemma body1' m : (exists a b c d, m = [[a; b]; [c; d]]) -> body_unitary O 1 [(m, [0])] = m.
  Proof. intros [a [b [c [d E]]]]. subst. apply body1. Qed.
  Ltac two := repeat eexists; reflexivity.

  Ltac cb := cbv -[kadd kmul kopp ksub kconj k0 k1 ki khalf ks2].
  (* powers of q = exp(i pi/8) *)
  Lemma kq4 : kpowZ O q qc 4 = ii. Proof. cb. rg Uq Uq Uq. Qed.
  Lemma kqc4 : kpowZ O qc q 4 = - ii. Proof. cb. rg Uq Uq Uq. Qed.
  Lemma kq2 : kpowZ O q qc 2 = w8 O. Proof. cb. rg Uq Uq Uq. Qed.
  Lemma kqc2 : kpowZ O qc q 2 = w8c O. Proof. cb. rg Uq Uq Uq. Qed.
  Lemma kqm2 : kpowZ O q qc (-2) = w8c O. Proof. cb. rg Uq Uq Uq. Qed.
  Lemma kqcm2 : kpowZ O qc q (-2) = w8 O. Proof. cb. rg Uq Uq Uq. Qed.
  Lemma kq0 : kpowZ O q qc 0 = z1. Proof. reflexivity. Qed.

  Variables r rc g gc : K.
  Hypothesis U : r * rc = z1.
  Hypothesis Ug : g * gc = z1.

  Lemma eunit_unit e : fst (eunit O e r rc q qc) * snd (eunit O e r rc q qc) = z1.
  Proof. destruct e; simpl; [apply kpowZ_unit; exact Uq | exact U]. Qed.

  (* a special-exponent branch: the guard pins the class, the units become concrete *)
  Ltac pin G e s HS :=
    apply andb_prop in G; destruct G as [?Hs ?He]; apply is_spec_true in He; subst e; destruct s; try discriminate;
    destruct HS as [?Hg ?Hgc]; subst g gc; cbn [eunit fst snd].
  Ltac unit1 := exists (k1 O), (k1 O); split; [ring|].
  Ltac scaled_id := cbv -[kadd kmul kopp ksub kconj k0 k1 ki khalf ks2]; split_list; ring.

  Lemma mscale1 (m : matrix (K:=K)) a b c d : m = [[a; b]; [c; d]] -> mscale O z1 m = m.
  Proof. intros ->. scaled_id. Qed.

  Theorem emit_sound_X v3 s e : let u := eunit O e r rc q qc in shift_ok O s g gc (fst u) (snd u) ->
    rows_mean O 1 [(r, rc)] q qc (emit_shape (v3, FX, s, e)) (spec_XPow O (fst u) (snd u) g).
  Proof.
    intros u HS. subst u. unfold emit_shape.
    destruct (s0 s && is_spec e 4) eqn:G1.
    { pin G1 e s HS. rewrite kq4, kqc4. eexists; split; [reflexivity|]. unit1.
      rewrite body1' by two. rewrite (qasm_rule_x O L). symmetry. eapply mscale1. reflexivity. }
    destruct (s0 s && is_spec e 2) eqn:G2.
    { pin G2 e s HS. rewrite kq2, kqc2. eexists; split; [reflexivity|]. exists (w8 O), (w8c O). split; [apply (w8_unit O L)|].
      rewrite body1' by two. exact (qasm_rule_sx O L). }
    destruct (s0 s && is_spec e (-2) && negb v3) eqn:G3.
    { apply andb_prop in G3. destruct G3 as [G3 _].
      pin G3 e s HS. rewrite kqm2, kqcm2. eexists; split; [reflexivity|]. exists (w8c O), (w8 O). split; [rewrite <- (w8_unit O L); ring|].
      rewrite body1' by two. exact (qasm_rule_sxdg O L). }
    destruct e as [k|]; cbn [eunit fst snd].
    - eexists; split; [reflexivity|]. apply (rot_rx _ _ g gc); [apply kpowZ_unit; exact Uq | exact Ug].
    - eexists; split; [reflexivity|]. with_phase U Ug Ug (g * r) (gc * rc).
  Qed.

  Lemma one_r x : x * z1 = x. Proof. ring. Qed.
  Lemma kpowZ_neg x y k : kpowZ O x y (- k) = kpowZ O y x k.
  Proof. destruct k; reflexivity. Qed.
  Lemma kq1sq : kpowZ O q qc 1 * kpowZ O q qc 1 = w8 O. Proof. cb. rg Uq Uq Uq. Qed.
  Lemma kqm1sq : kpowZ O q qc (-1) * kpowZ O q qc (-1) = w8c O. Proof. cb. rg Uq Uq Uq. Qed.

  Theorem emit_sound_Y v3 s e : let u := eunit O e r rc q qc in
    rows_mean O 1 [(r, rc)] q qc (emit_shape (v3, FY, s, e)) (spec_YPow O (fst u) (snd u) g).
  Proof.
    intros u. subst u. unfold emit_shape.
    destruct (is_spec e 4 && negb match s with SMhalf => true | _ => false end) eqn:G1.
    { apply andb_prop in G1. destruct G1 as [He _]. apply is_spec_true in He. subst e. cbn [eunit fst snd]. rewrite kq4, kqc4.
      eexists; split; [reflexivity|]. exists g, gc. split; [exact Ug|]. rewrite body1' by two. exact (qasm_rule_y O L g). }
    destruct e as [k|]; cbn [eunit fst snd].
    - eexists; split; [reflexivity|]. apply (rot_ry _ _ g gc); [apply kpowZ_unit; exact Uq | exact Ug].
    - eexists; split; [reflexivity|]. with_phase U Ug Ug (g * r) (gc * rc).
  Qed.

  Theorem emit_sound_Z v3 s e : let u := eunit O e r rc q qc in shift_ok O s g gc (fst u) (snd u) ->
    rows_mean O 1 [(r, rc)] q qc (emit_shape (v3, FZ, s, e)) (spec_ZPow O (fst u) (snd u) g).
  Proof.
    intros u HS. subst u. unfold emit_shape.
    destruct (s0 s && is_spec e 4) eqn:G1.
    { pin G1 e s HS. rewrite kq4, kqc4. eexists; split; [reflexivity|]. unit1.
      rewrite body1' by two. rewrite (qasm_rule_z O L). symmetry. eapply mscale1. reflexivity. }
    destruct (s0 s && is_spec e 2) eqn:G2.
    { pin G2 e s HS. rewrite kq2, kqc2. eexists; split; [reflexivity|]. unit1.
      rewrite body1' by two. rewrite (qasm_rule_s O L). symmetry. eapply mscale1. reflexivity. }
    destruct (s0 s && is_spec e (-2)) eqn:G3.
    { pin G3 e s HS. rewrite kqm2, kqcm2. eexists; split; [reflexivity|]. unit1.
      rewrite body1' by two. rewrite (qasm_rule_sdg O L). symmetry. eapply mscale1. reflexivity. }
    destruct (s0 s && is_spec e 1) eqn:G4.
    { pin G4 e s HS. eexists; split; [reflexivity|]. unit1.
      rewrite body1' by two. rewrite (qasm_rule_t O L _ _ (kpowZ_unit q qc 1 Uq) kq1sq). symmetry. eapply mscale1. reflexivity. }
    destruct (s0 s && is_spec e (-1)) eqn:G5.
    { pin G5 e s HS. eexists; split; [reflexivity|]. unit1.
      rewrite body1' by two. rewrite (qasm_rule_tdg O L _ _ (kpowZ_unit q qc (-1) Uq) kqm1sq). symmetry. eapply mscale1. reflexivity. }
    destruct e as [k|]; cbn [eunit fst snd].
    - eexists; split; [reflexivity|]. apply (rot_rz _ _ g gc); [apply kpowZ_unit; exact Uq | exact Ug].
    - eexists; split; [reflexivity|]. with_phase U Ug Ug g gc.
  Qed.

  (* ry(pi/4); rx(theta); ry(-pi/4) around any unit a = exp(i theta/2) *)
  Lemma hpow_rows a ac a' ac' : a * ac = z1 -> a' = a -> ac' = ac ->
    up_to_unit O (spec_HPow O a ac g)
      (body_unitary O 1 [(qmat O false (QRy (kpowZ O q qc 1) (kpowZ O qc q 1)), [0]); (qmat O false (QRx a' ac'), [0]);
                         (qmat O false (QRy (kpowZ O q qc (-1)) (kpowZ O qc q (-1))), [0])]).
  Proof. intros Ua -> ->. with_phase Ua Ug Ug (g * a) (gc * ac). Qed.

  Theorem emit_sound_H v3 s e : let u := eunit O e r rc q qc in shift_ok O s g gc (fst u) (snd u) ->
    rows_mean O 1 [(r, rc)] q qc (emit_shape (v3, FH, s, e)) (spec_HPow O (fst u) (snd u) g).
  Proof.
    intros u HS. subst u. unfold emit_shape.
    destruct (is_spec e 0) eqn:G0.
    { apply is_spec_true in G0. subst e. cbn [eunit fst snd kpowZ]. eexists; split; [reflexivity|]. with_phase Ug Ug Ug g gc. }
    destruct (s0 s && is_spec e 4) eqn:G1.
    { pin G1 e s HS. rewrite kq4, kqc4. eexists; split; [reflexivity|]. unit1.
      rewrite body1' by two. rewrite (qasm_rule_h O L). symmetry. eapply mscale1. reflexivity. }
    destruct e as [k|]; cbn [eunit fst snd].
    - eexists; split; [reflexivity|]. apply hpow_rows; [apply kpowZ_unit; exact Uq | reflexivity | reflexivity].
    - eexists; split; [reflexivity|]. apply hpow_rows; [exact U | cb; ring | cb; ring].
  Qed.

  Theorem emit_sound_Rx v3 s e : let u := eunit O e r rc q qc in
    rows_mean O 1 [(r, rc)] q qc (emit_shape (v3, FRx, s, e)) (spec_XPow O (fst u) (snd u) g).
  Proof.
    intros u. subst u. unfold emit_shape. destruct e as [k|]; cbn [eunit fst snd].
    - eexists; split; [reflexivity|]. apply (rot_rx _ _ g gc); [apply kpowZ_unit; exact Uq | exact Ug].
    - eexists; split; [reflexivity|]. with_phase U Ug Ug (g * r) (gc * rc).
  Qed.
  Theorem emit_sound_Ry v3 s e : let u := eunit O e r rc q qc in
    rows_mean O 1 [(r, rc)] q qc (emit_shape (v3, FRy, s, e)) (spec_YPow O (fst u) (snd u) g).
  Proof.
    intros u. subst u. unfold emit_shape. destruct e as [k|]; cbn [eunit fst snd].
    - eexists; split; [reflexivity|]. apply (rot_ry _ _ g gc); [apply kpowZ_unit; exact Uq | exact Ug].
    - eexists; split; [reflexivity|]. with_phase U Ug Ug (g * r) (gc * rc).
  Qed.
  Theorem emit_sound_Rz v3 s e : let u := eunit O e r rc q qc in
    rows_mean O 1 [(r, rc)] q qc (emit_shape (v3, FRz, s, e)) (spec_ZPow O (fst u) (snd u) g).
  Proof.
    intros u. subst u. unfold emit_shape. destruct e as [k|]; cbn [eunit fst snd].
    - eexists; split; [reflexivity|]. apply (rot_rz _ _ g gc); [apply kpowZ_unit; exact Uq | exact Ug].
    - eexists; split; [reflexivity|]. with_phase U Ug Ug g gc.
  Qed.

  (* ---- two-qubit families: a QASM form only in the odd class, whose meaning is exp(i pi e) = r*r = -1 ---- *)
  Lemma body2 a0 a1 a2 a3 b0 b1 b2 b3 c0 c1 c2 c3 d0 d1 d2 d3 :
    let m := [[a0; a1; a2; a3]; [b0; b1; b2; b3]; [c0; c1; c2; c3]; [d0; d1; d2; d3]] in body_unitary O 2 [(m, [0; 1])] = m.
  Proof. mat_entries ltac:(ring). Qed.
  Lemma body2' m : (exists a0 a1 a2 a3 b0 b1 b2 b3 c0 c1 c2 c3 d0 d1 d2 d3,
                      m = [[a0; a1; a2; a3]; [b0; b1; b2; b3]; [c0; c1; c2; c3]; [d0; d1; d2; d3]]) ->
    body_unitary O 2 [(m, [0; 1])] = m.
  Proof.
    intros [a0 [a1 [a2 [a3 [b0 [b1 [b2 [b3 [c0 [c1 [c2 [c3 [d0 [d1 [d2 [d3 E]]]]]]]]]]]]]]]]. rewrite E. apply body2.
  Qed.

  Theorem emit_sound_CZ v3 s e : let u := eunit O e r rc q qc in (is_odd e = true -> fst u * fst u = - z1) ->
    rows_mean O 2 [(r, rc)] q qc (emit_shape (v3, FCZ, s, e)) (spec_CZPow O (fst u) (snd u) g).
  Proof.
    intros u H. unfold emit_shape. destruct (is_odd e); [|exact I]. specialize (H eq_refl).
    eexists; split; [reflexivity|]. exists g, gc. split; [exact Ug|]. rewrite body2' by two.
    exact (qasm_rule_cz O L _ _ g (eunit_unit e) H).
  Qed.
  Theorem emit_sound_CX v3 s e : let u := eunit O e r rc q qc in (is_odd e = true -> fst u * fst u = - z1) ->
    rows_mean O 2 [(r, rc)] q qc (emit_shape (v3, FCX, s, e)) (spec_CXPow O (fst u) (snd u) g).
  Proof.
    intros u H. unfold emit_shape. destruct (is_odd e); [|exact I]. specialize (H eq_refl).
    eexists; split; [reflexivity|]. exists g, gc. split; [exact Ug|]. rewrite body2' by two.
    exact (qasm_rule_cx O L _ _ g (eunit_unit e) H).
  Qed.
  Theorem emit_sound_CY v3 s e : let u := eunit O e r rc q qc in (is_odd e = true -> fst u * fst u = - z1) ->
    rows_mean O 2 [(r, rc)] q qc (emit_shape (v3, FCY, s, e)) (spec_CYPow O (fst u) (snd u) g).
  Proof.
    intros u H. unfold emit_shape. destruct (is_odd e); [|exact I]. specialize (H eq_refl).
    eexists; split; [reflexivity|]. exists g, gc. split; [exact Ug|]. rewrite body2' by two.
    exact (qasm_rule_cy O L _ _ g (eunit_unit e) H).
  Qed.
  Theorem emit_sound_Swap v3 s e : let u := eunit O e r rc q qc in
    rows_mean O 2 [(r, rc)] q qc (emit_shape (v3, FSwap, s, e)) (spec_SwapPow O (fst u) (snd u) g).
  Proof.
    intros u. subst u. unfold emit_shape. destruct (is_spec e 4) eqn:G; [|exact I]. apply is_spec_true in G. subst e.
    cbn [eunit fst snd]. rewrite kq4, kqc4. eexists; split; [reflexivity|]. exists g, gc. split; [exact Ug|]. rewrite body2' by two.
    exact (qasm_rule_swap O L g).
  Qed.

  (* ---- three-qubit gates ---- *)
  Lemma body3_ccx : body_unitary O 3 [(q_ccx O, [0; 1; 2])] = q_ccx O.
  Proof. mat_entries ltac:(ring). Qed.
  Lemma body3_cswap : body_unitary O 3 [(q_cswap O, [0; 1; 2])] = q_cswap O.
  Proof. mat_entries ltac:(ring). Qed.
  Theorem emit_sound_CCZ v3 s e : let u := eunit O e r rc q qc in
    rows_mean O 3 [(r, rc)] q qc (emit_shape (v3, FCCZ, s, e)) (spec_CCZPow O (fst u) (snd u) g).
  Proof.
    intros u. subst u. unfold emit_shape. destruct (is_spec e 4) eqn:G; [|exact I]. apply is_spec_true in G. subst e.
    cbn [eunit fst snd]. rewrite kq4, kqc4. eexists; split; [reflexivity|]. exists g, gc. split; [exact Ug|].
    exact (qasm_rule_ccz O L g).
  Qed.
  Theorem emit_sound_CCX v3 s e : let u := eunit O e r rc q qc in
    rows_mean O 3 [(r, rc)] q qc (emit_shape (v3, FCCX, s, e)) (spec_CCXPow O (fst u) (snd u) g).
  Proof.
    intros u. subst u. unfold emit_shape. destruct (is_spec e 4) eqn:G; [|exact I]. apply is_spec_true in G. subst e.
    cbn [eunit fst snd]. rewrite kq4, kqc4. eexists; split; [reflexivity|].
    change (up_to_unit O (spec_CCXPow O ii (- ii) g) (body_unitary O 3 [(q_ccx O, [0; 1; 2])])). rewrite body3_ccx.
    exists g, gc. split; [exact Ug|]. exact (qasm_rule_ccx O L g).
  Qed.
  Theorem emit_sound_CCY v3 s e : let u := eunit O e r rc q qc in
    rows_mean O 3 [(r, rc)] q qc (emit_shape (v3, FCCY, s, e)) (spec_CCYPow O (fst u) (snd u) g).
  Proof.
    intros u. subst u. unfold emit_shape. destruct (is_spec e 4) eqn:G; [|exact I]. apply is_spec_true in G. subst e.
    cbn [eunit fst snd]. rewrite kq4, kqc4. eexists; split; [reflexivity|]. exists g, gc. split; [exact Ug|].
    exact (qasm_rule_ccy O L g).
  Qed.
  Theorem emit_sound_CSwap v3 s e : rows_mean O 3 [] q qc (emit_shape (v3, FCSwap, s, e)) (spec_CSwap O).
  Proof.
    unfold emit_shape. eexists; split; [reflexivity|].
    change (up_to_unit O (spec_CSwap O) (body_unitary O 3 [(q_cswap O, [0; 1; 2])])). rewrite body3_cswap.
    unit1. mat_entries ltac:(ring).
  Qed.
  Theorem emit_sound_Id1 v3 s e : rows_mean O 1 [] q qc (emit_shape (v3, FId1, s, e)) (mid O 2).
  Proof. unfold emit_shape. eexists; split; [reflexivity|]. unit1. mat_entries ltac:(rg Uq Uq Uq). Qed.
  Theorem emit_sound_Id2 v3 s e : rows_mean O 2 [] q qc (emit_shape (v3, FId2, s, e)) (mid O 4).
  Proof. unfold emit_shape. eexists; split; [reflexivity|]. unit1. mat_entries ltac:(rg Uq Uq Uq). Qed.

  (* ---- controlled X, Y, Z (exponent 1, shift 0) ---- *)
  Theorem emit_sound_CtrlX v3 s e : rows_mean O 2 [] q qc (emit_shape (v3, FCtrlX, s, e)) (ctrl_matrix O [2] [[1]] (spec_XPow O ii (- ii) z1)).
  Proof.
    unfold emit_shape. destruct (s0 s && is_spec e 4); [|exact I]. eexists; split; [reflexivity|]. unit1. rewrite body2' by two.
    rewrite (qasm_rule_ctrl_x O L). mat_entries ltac:(ring).
  Qed.
  Theorem emit_sound_CtrlY v3 s e : rows_mean O 2 [] q qc (emit_shape (v3, FCtrlY, s, e)) (ctrl_matrix O [2] [[1]] (spec_YPow O ii (- ii) z1)).
  Proof.
    unfold emit_shape. destruct (s0 s && is_spec e 4); [|exact I]. eexists; split; [reflexivity|]. unit1. rewrite body2' by two.
    rewrite (qasm_rule_ctrl_y O L). unfold qmat, qmat2, q_cy, q_s, q_sdg. rewrite !(q_u1_lit O L). mat_entries ltac:(ring).
  Qed.
  Theorem emit_sound_CtrlZ v3 s e : rows_mean O 2 [] q qc (emit_shape (v3, FCtrlZ, s, e)) (ctrl_matrix O [2] [[1]] (spec_ZPow O ii (- ii) z1)).
  Proof.
    unfold emit_shape. destruct (s0 s && is_spec e 4); [|exact I]. eexists; split; [reflexivity|]. unit1. rewrite body2' by two.
    rewrite (qasm_rule_ctrl_z O L). unfold qmat, qmat2. rewrite (q_cz_lit O L). mat_entries ltac:(ring).
  Qed.

  (* ---- u3 / u2 rows: PhasedXPowGate (parameters e, p), PhasedXZGate (x, z, a), QasmUGate (theta, phi, lmda) ---- *)
  Section Phased.
    Variables fh fhc zh zhc : K.       (* half-angle units of the second and third parameter *)
    Hypothesis Uf : fh * fhc = z1.
    Hypothesis Uz : zh * zhc = z1.
    Lemma ff_unit : (fh * fh) * (fhc * fhc) = z1. Proof. rg Uf Uf Uf. Qed.

    Lemma u3_rows_phasedx a ac t tc bh bhc ch chc : a * ac = z1 -> t = ac -> tc = a -> bh * bh = ii * (fh * fh) -> ch * ch = - ii * (fhc * fhc) ->
      up_to_unit O (spec_PhasedX O (fh * fh) (fhc * fhc) a ac g) (body_unitary O 1 [(qmat O false (QU3 t tc bh bhc ch chc), [0])]).
    Proof.
      intros Ua -> -> Hb Hc. exists (g * a), (gc * ac). split; [rg Ua Ug Ug|]. rewrite body1' by two.
      change (qmat O false (QU3 ac a bh bhc ch chc)) with (q_u3 O ac a (bh * bh) (ch * ch)). rewrite Hb, Hc.
      apply (qasm_rule_phasedx O L); [exact ff_unit | exact Ua].
    Qed.
    Lemma u2_rows_mhalf bh bhc ch chc : bh * bh = ii * (fh * fh) -> ch * ch = - ii * (fhc * fhc) ->
      up_to_unit O (spec_PhasedX O (fh * fh) (fhc * fhc) (w8c O) (w8 O) g) (body_unitary O 1 [(qmat O false (QU2 bh bhc ch chc), [0])]).
    Proof.
      intros Hb Hc. exists (g * w8c O), (gc * w8 O). split; [unfold w8, w8c; rg Ug Ug Ug|]. rewrite body1' by two.
      change (qmat O false (QU2 bh bhc ch chc)) with (q_u2 O (bh * bh) (ch * ch)). rewrite Hb, Hc.
      apply (qasm_rule_phasedx_mhalf O L _ _ r rc); [exact ff_unit | exact U].
    Qed.
    Lemma u2_rows_half bh bhc ch chc : bh * bh = - ii * (fh * fh) -> ch * ch = ii * (fhc * fhc) ->
      up_to_unit O (spec_PhasedX O (fh * fh) (fhc * fhc) (w8 O) (w8c O) g) (body_unitary O 1 [(qmat O false (QU2 bh bhc ch chc), [0])]).
    Proof.
      intros Hb Hc. exists (g * w8 O), (gc * w8c O). split; [unfold w8, w8c; rg Ug Ug Ug|]. rewrite body1' by two.
      change (qmat O false (QU2 bh bhc ch chc)) with (q_u2 O (bh * bh) (ch * ch)). rewrite Hb, Hc.
      apply (qasm_rule_phasedx_half O L _ _ r rc); [exact ff_unit | exact U].
    Qed.

    (* the exponent is the canonicalised one, in (-1, 1]; fh = exp(i pi p/2) *)
    Theorem emit_sound_PhasedX v3 s e : let u := eunit O e r rc q qc in
      rows_mean O 1 [(r, rc); (fh, fhc)] q qc (emit_shape (v3, FPhasedX, s, e)) (spec_PhasedX O (fh * fh) (fhc * fhc) (fst u) (snd u) g).
    Proof.
      intros u. subst u. unfold emit_shape.
      destruct (is_spec e (-2)) eqn:G1.
      { apply is_spec_true in G1. subst e. cbn [eunit fst snd]. rewrite kqm2, kqcm2. eexists; split; [reflexivity|].
        apply u2_rows_mhalf; cb; rg Uf Uf Uf. }
      destruct (is_spec e 2) eqn:G2.
      { apply is_spec_true in G2. subst e. cbn [eunit fst snd]. rewrite kq2, kqc2. eexists; split; [reflexivity|].
        apply u2_rows_half; cb; rg Uf Uf Uf. }
      destruct e as [k|]; cbn [eunit fst snd].
      - eexists; split; [reflexivity|].
        apply u3_rows_phasedx; [apply kpowZ_unit; exact Uq | exact (kpowZ_neg q qc k) | exact (kpowZ_neg qc q k) | cb; rg Uf Uf Uf | cb; rg Uf Uf Uf].
      - eexists; split; [reflexivity|].
        apply u3_rows_phasedx; [exact U | cb; ring | cb; ring | cb; rg Uf Uf Uf | cb; rg Uf Uf Uf].
    Qed.

    (* PhasedXZGate(x, z, a): r = exp(i pi x/2), fh = exp(i pi z/2), zh = exp(i pi a/2) *)
    Theorem emit_sound_PhasedXZ v3 s e :
      rows_mean O 1 [(r, rc); (fh, fhc); (zh, zhc)] q qc (emit_shape (v3, FPhasedXZ, s, e))
                (spec_PhasedXZ O (zh * zh) (zhc * zhc) (fh * fh) (fhc * fhc) r rc).
    Proof. unfold emit_shape. eexists; split; [reflexivity|]. with_phase U Uf Uz r rc. Qed.

    (* QasmUGate(theta, phi, lmda), defined by its decomposition rz(lmda); ry(theta); rz(phi); phase:
       r = exp(i pi theta/2), fh = exp(i pi phi/2), zh = exp(i pi lmda/2) *)
    Theorem emit_sound_QasmU v3 s e :
      rows_mean O 1 [(r, rc); (fh, fhc); (zh, zhc)] q qc (emit_shape (v3, FQasmU, s, e))
                (mscale O (fh * zh) (mprod O 2 [spec_ZPow O zh zhc zhc; spec_YPow O r rc rc; spec_ZPow O fh fhc fhc])).
    Proof. unfold emit_shape. eexists; split; [reflexivity|]. with_phase U Uf Uz (k1 O) (k1 O). Qed.
  End Phased.
End Sound.

(* ---- the rows of a key use only mnemonics that the include file of the key's version defines (stdgates.inc has no sxdg),
   for every family, shift class and exponent class; mnem_defined is Vendor/Qasm.v qdefined on the row's gate ---- *)
Theorem emit_uses_defined_gates v3 f s e : rows_defined v3 (emit_shape (v3, f, s, e)) = true.
Proof.
  unfold emit_shape, rows_defined, one, rot.
  destruct f; try reflexivity;
    repeat match goal with |- context [if ?c then _ else _] => let E := fresh "E" in destruct c eqn:E end; try reflexivity.
  (* FX, the sxdg branch: its guard contains negb v3 *)
  apply andb_prop in E1. destruct E1 as [_ E1]. cbn. rewrite E1. reflexivity.
Qed.
Theorem mnem_defined_is_qdefined {K : Type} (O : Ops K) v3 us q qc r g :
  row_gate O us q qc r = Some g -> qdefined v3 g = mnem_defined v3 (fst (fst r)).
Proof.
  destruct r as [[m angles] args]. unfold row_gate. cbn [fst snd].
  destruct m; destruct angles as [|a0 [|a1 [|a2 [|a3 l]]]]; intros H; try discriminate H; inversion H; reflexivity.
Qed.
Example row_gate_sxdg_instance : row_gate K8Ops [] (k1 K8Ops) (k1 K8Ops) (Msxdg, [], [0%nat]) = Some QSxdg
                                  /\ qdefined (K:=K8) true QSxdg = false /\ qdefined (K:=K8) false QSxdg = true.
Proof. repeat split. Qed.
(* version 3.0 never emits sxdg, version 2.0 still does (X**-0.5, shift 0) *)
Theorem emit_sxdg_only_v2 : emit_shape (false, FX, S0, ESpec (-2)) = Some [(Msxdg, [], [0])]
                            /\ emit_shape (true, FX, S0, ESpec (-2)) = Some [(Mrx, [const_angle (-2)], [0])].
Proof. split; reflexivity. Qed.

(* the 3.0 rule for X**-0.5: rx(pi*-0.5) read with stdgates.inc is the documented matrix up to exp(-i pi/4) *)
Section V3.
  Context {K : Type} (O : Ops K) (L : Laws O).
  Add Ring Kring6 : (law_ring O L).
  Theorem qasm_rule_x_mhalf_v3 : spec_XPow O (w8c O) (w8 O) (k1 O) = mscale O (w8c O) (qmat O true (QRx (w8c O) (w8 O))).
  Proof.
    assert (U : kmul O (w8c O) (w8 O) = k1 O) by (rewrite <- (w8_unit O L); ring).
    assert (U1 : kmul O (k1 O) (k1 O) = k1 O) by ring.
    unfold qmat. rewrite (stdgates_rx O L (w8c O) (w8 O) (k1 O) (k1 O) (k1 O) (k1 O) U U1 U1).
    rewrite (qasm_rule_rx O L (w8c O) (w8 O) (k1 O) U). f_equal. ring.
  Qed.
End V3.

(* controlled H: a constant matrix identity, checked exactly in Q(zeta_8) *)
Theorem emit_sound_CtrlH v3 s e :
  rows_mean K8Ops 2 [] (k1 K8Ops) (k1 K8Ops) (emit_shape (v3, FCtrlH, s, e))
            (ctrl_matrix K8Ops [2%nat] [[1%nat]] (spec_HPow K8Ops (ki K8Ops) (kopp K8Ops (ki K8Ops)) (k1 K8Ops))).
Proof.
  unfold emit_shape. destruct (s0 s && is_spec e 4); [|exact I]. eexists; split; [reflexivity|].
  exists (w8c K8Ops), (w8 K8Ops). split; [apply k8_eqb_eq; vm_compute; reflexivity | apply k8m_eqb_eq; vm_compute; reflexivity].
Qed.
