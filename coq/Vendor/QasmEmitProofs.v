(* C19.D1: the table regenerated from the working tree is the emission model, key by key (so a changed `_qasm_` rule
   breaks this file), and the rows of the model mean, through the standard library, the documented matrices. *)
From Coq Require Import Ring List ZArith Bool.
From VF Require Import Base.RingOps Base.Mat Base.Tensor Gates.GateSpecs Gates.Families Gates.MatTac
  Vendor.Qasm Vendor.QasmEmit Vendor.QasmProofs Generated.QasmMnemonics.
Import ListNotations.

Theorem qasm_table_is_model : table_ok qasm_table = true.
Proof. vm_compute. reflexivity. Qed.

