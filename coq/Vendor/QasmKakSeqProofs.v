(* C19.D3b: the emitted sequence of a KAK decomposition is  (after (x) after) . core . (before (x) before)  for any one-qubit
   factors and any core; with the interaction core of QasmKak.v it is the unitary of the decomposition up to the unit exp(-i z)
   (2.0) / exactly (3.0); for vanishing interaction coefficients it is the tensor product of  after_k . before_k  - in that order. *)
From Coq Require Import Ring List ZArith.
From VF Require Import Base.RingOps Base.Mat Base.Tensor Gates.GateSpecs Gates.Families Gates.MatTac Vendor.Qasm Vendor.QasmKak Vendor.QasmProofs
  Vendor.QasmKakProofs Vendor.QasmKakSeq.
Import ListNotations.
Section KAKSEQ.
  Context {K : Type} (O : Ops K) (L : Laws O).
  Add Ring Kring6 : (law_ring O L).
  Infix "+" := (kadd O). Infix "*" := (kmul O). Infix "-" := (ksub O).
  Notation "- a" := (kopp O a).
  Notation z0 := (k0 O). Notation z1 := (k1 O). Notation hf := (khalf O). Notation ii := (ki O). Notation s2 := (ks2 O).
  Ltac cl := first [ ring [(qh2 O L) (qi2 O L) (qs22 O L)] | apply (qcancel2 O L); ring [(qh2 O L) (qi2 O L) (qs22 O L)] ].
  Variables p0 p1 p2 p3 q0 q1 q2 q3 r0 r1 r2 r3 t0 t1 t2 t3 : K.
  Notation B0 := (m2 p0 p1 p2 p3). Notation B1 := (m2 q0 q1 q2 q3).
  Notation A0 := (m2 r0 r1 r2 r3). Notation A1 := (m2 t0 t1 t2 t3).

  (* any core: the statements before it act first, those after it last *)
  Theorem kak_sequence_order c00 c01 c02 c03 c10 c11 c12 c13 c20 c21 c22 c23 c30 c31 c32 c33 :
    let core := m4 c00 c01 c02 c03 c10 c11 c12 c13 c20 c21 c22 c23 c30 c31 c32 c33 in
    kak_sequence O core B0 B1 A0 A1 = kak_unitary O core B0 B1 A0 A1.
  Proof. mat_entries cl. Qed.

  (* a scalar on the core is a scalar on the whole *)
  Lemma kak_unitary_scale u c00 c01 c02 c03 c10 c11 c12 c13 c20 c21 c22 c23 c30 c31 c32 c33 :
    let core := m4 c00 c01 c02 c03 c10 c11 c12 c13 c20 c21 c22 c23 c30 c31 c32 c33 in
    kak_unitary O (mscale O u core) B0 B1 A0 A1 = mscale O u (kak_unitary O core B0 B1 A0 A1).
  Proof. mat_entries cl. Qed.

  (* vanishing interaction: the core is the identity and the sequence is (after_0 . before_0) (x) (after_1 . before_1) *)
  Theorem kak_sequence_separable : kak_sequence O (mid O 4) B0 B1 A0 A1 = local_product O B0 B1 A0 A1.
  Proof. mat_entries cl. Qed.

  Lemma kak_interaction_trivial : kak_interaction O z1 z1 z1 z1 z1 z1 = mid O 4.
  Proof. mat_entries cl. Qed.
End KAKSEQ.

Section KAKSEQ2.
  Context {K : Type} (O : Ops K) (L : Laws O).
  Add Ring Kring7 : (law_ring O L).
  Variables p0 p1 p2 p3 q0 q1 q2 q3 r0 r1 r2 r3 t0 t1 t2 t3 : K.
  Notation B0 := (m2 p0 p1 p2 p3). Notation B1 := (m2 q0 q1 q2 q3).
  Notation A0 := (m2 r0 r1 r2 r3). Notation A1 := (m2 t0 t1 t2 t3).
  Lemma one_unit : kmul O (k1 O) (k1 O) = k1 O. Proof. ring. Qed.

  (* the core emitted for coefficients 0 (units 1), as the rules emit it and qelib1.inc / stdgates.inc read it, is the identity *)
  Lemma kak_core_trivial : kak_core O (k1 O) (k1 O) (k1 O) (k1 O) (k1 O) (k1 O) = mid O 4.
  Proof.
    rewrite (qasm_two_qubit_kak O L _ _ _ _ _ _ one_unit one_unit one_unit), (kak_interaction_trivial O L).
    cbv -[kadd kmul kopp ksub kconj k0 k1 ki khalf ks2]. split_list; ring.
  Qed.
  Lemma kak_core_v3_trivial : kak_core_v3 O (k1 O) (k1 O) (k1 O) (k1 O) (k1 O) (k1 O) = mid O 4.
  Proof. rewrite (qasm_two_qubit_kak_v3 O L _ _ _ _ _ _ one_unit one_unit one_unit). apply (kak_interaction_trivial O L). Qed.

  (* a tensor product through the fallback: what is emitted performs (after_0 . before_0) (x) (after_1 . before_1), both versions *)
  Theorem qasm_two_qubit_separable :
    kak_sequence O (kak_core O (k1 O) (k1 O) (k1 O) (k1 O) (k1 O) (k1 O)) B0 B1 A0 A1 = local_product O B0 B1 A0 A1.
  Proof. rewrite kak_core_trivial. apply (kak_sequence_separable O L). Qed.
  Theorem qasm_two_qubit_separable_v3 :
    kak_sequence O (kak_core_v3 O (k1 O) (k1 O) (k1 O) (k1 O) (k1 O) (k1 O)) B0 B1 A0 A1 = local_product O B0 B1 A0 A1.
  Proof. rewrite kak_core_v3_trivial. apply (kak_sequence_separable O L). Qed.
End KAKSEQ2.
