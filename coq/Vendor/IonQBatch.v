(* Results of an IonQ BATCH job (cirq_ionq/job.py `Job.results`, service.py `run_batch`).
   The vendor answers the results request of a batch job with one histogram per child circuit, in the order the circuits
   were submitted, each under the id the service handed out for that child.  A child id is an opaque name: it says
   nothing about the position.  The job metadata holds, per position, the register width and the measured keys with
   their targets.  Child number k of the answer is decoded with entry number k of the metadata.
   Definitions only; proofs in IonQBatchProofs.v.  Ids are lists of code points (Z), as keys are in Codec/MetaChunks.v. *)
From Coq Require Import List ZArith NArith Arith Bool.
From VF Require Import Codec.MetaChunks.
Import ListNotations.
Open Scope Z_scope.

Definition rows := list (list Z).
(* one child circuit as the metadata describes it: register width, targets of every key in the order of the keys *)
Definition child_meta := (nat * list (list N))%type.
Definition child_id := list Z.

(* ---- one child ---- *)
Definition child_qpu (m : child_meta) (hist : list (Z * nat)) : list (option rows) :=
  map (fun ts => qpu_rows (fst m) ts hist) (snd m).
Definition child_sim (m : child_meta) (outs : list Z) (picks : list nat) : list (option rows) :=
  map (fun ts => sim_rows (fst m) ts outs picks) (snd m).

(* ---- the batch: position k of the answer with position k of the metadata; the ids are not looked at ---- *)
Definition batch_qpu (metas : list child_meta) (answer : list (child_id * list (Z * nat))) : list (list (option rows)) :=
  map (fun mh => child_qpu (fst mh) (snd (snd mh))) (combine metas answer).
Definition batch_sim (metas : list child_meta) (answer : list (child_id * list Z)) (picks : list (list nat))
  : list (list (option rows)) :=
  map (fun mhp => child_sim (fst (fst mhp)) (snd (snd (fst mhp))) (snd mhp)) (combine (combine metas answer) picks).

(* ---- a reading that is NOT the vendor's: put the answer in the order of the ids first (refuted in the proofs file) ---- *)
Fixpoint id_ltb (a b : child_id) : bool :=
  match a, b with
  | _, [] => false
  | [], _ :: _ => true
  | x :: a', y :: b' => if x <? y then true else if y <? x then false else id_ltb a' b'
  end.
Fixpoint insert_by_id {A} (x : child_id * A) (l : list (child_id * A)) : list (child_id * A) :=
  match l with
  | [] => [x]
  | y :: r => if id_ltb (fst y) (fst x) then y :: insert_by_id x r else x :: l
  end.
Definition sort_by_id {A} (l : list (child_id * A)) : list (child_id * A) := fold_right insert_by_id [] l.
Definition batch_qpu_by_id (metas : list child_meta) (answer : list (child_id * list (Z * nat))) :=
  batch_qpu metas (sort_by_id answer).

(* ---- boolean equality for the correspondence check ---- *)
Definition lorows_eqb (a b : list (option rows)) : bool :=
  (fix go a b := match a, b with
                 | [], [] => true
                 | x :: a', y :: b' => orows_eqb x y && go a' b'
                 | _, _ => false
                 end) a b.
Definition batch_eqb (a b : list (list (option rows))) : bool :=
  (fix go a b := match a, b with
                 | [], [] => true
                 | x :: a', y :: b' => lorows_eqb x y && go a' b'
                 | _, _ => false
                 end) a b.
