(* C17: `control` / `controls` on a gate of IonQ's qis gateset (Vendor/IonQ.v: ionq_ctrl_matrix).
   - one control on x is the vendor's cnot; two controls on x are Cirq's CCX;
   - one control on z / s / si / t / ti is Cirq's CZPowGate at the exponent classes 1, 1/2, -1/2, 1/4, -1/4 (mod 2),
     EXACTLY (no phase left over: a controlled gate has no free global phase);
   - one control on rz(pi e) is NOT CZ**e: it is CZ**e followed by Z**(-e/2) on the control wire, and it is a scalar
     multiple of CZ**e (any global shift) only when exp(i pi e/2) = 1, i.e. e = 0 (mod 4).  The phase that
     makes rz(pi e) and Z**e interchangeable as lone gates is no longer global once the gate is controlled.
   Generic-ring identities under r * rc = 1 (r = exp(i pi e/2)), hence valid over C. *)
From Coq Require Import String Ring List ZArith Bool.
From VF Require Import Base.RingOps Base.Mat Gates.EigenGate Gates.GateSpecs Generated.EigenTables Gates.Families
  Gates.GateProofs Gates.MatTac Vendor.IonQ.
Import ListNotations.

Section Proofs.
  Context {K : Type} (O : Ops K) (L : Laws O).
  Add Ring Kring17c : (law_ring O L).
  Infix "+" := (kadd O). Infix "*" := (kmul O). Infix "-" := (ksub O).
  Notation "- a" := (kopp O a).
  Notation z0 := (k0 O). Notation z1 := (k1 O). Notation hf := (khalf O). Notation ii := (ki O). Notation s2 := (ks2 O).

  Let half2 : (z1 + z1) * hf = z1 := half2 O L.
  Let ii2 : ii * ii = - z1 := ii2 O L.
  Let s22 : s2 * s2 = hf := s22 O L.

  (* ---- the control construction itself ---- *)
  Theorem ionq_ctrl_x_is_cnot : ionq_ctrl_matrix O 1 (ionq_gate_matrix O Nx []) = ionq_gate_matrix O Ncnot [].
  Proof. mat_entries ltac:(ring). Qed.
  (* controls nest: two controls are a control of a control *)
  Theorem ionq_ctrl_nest (a b c d : K) :
    ionq_ctrl_matrix O 2 [[a; b]; [c; d]] = ionq_ctrl_matrix O 1 (ionq_ctrl_matrix O 1 [[a; b]; [c; d]]).
  Proof. mat_entries ltac:(ring). Qed.
  (* cnot listed with one more control is x with two controls *)
  Theorem ionq_ctrl_cnot_is_ctrl2_x :
    ionq_ctrl_gate_matrix O 1 Ncnot [] = ionq_ctrl_matrix O 2 (ionq_gate_matrix O Nx []).
  Proof. mat_entries ltac:(ring). Qed.

  Variables r rc g : K.
  Hypothesis U : r * rc = z1.

  Ltac startcz := change (gate_model O (GEig ECZPow r rc z1)) with (eig_unitary O (eig_tbl O ECZPow) r rc z1);
                  simpl eig_tbl; rewrite (@eig_CZPow K O L r rc z1 U).
  Ltac entries_with H := mat_entries ltac:(first [ ring [H U ii2 half2 s22]
                                          | apply (cancel2 O L); ring [H U ii2 half2 s22]
                                          | do 2 apply (cancel2 O L); ring [H U ii2 half2 s22] ]).

  (* ---- what a controlled phase gate of the qis gateset means: CZPowGate at the special exponents, exactly ---- *)
  Theorem ionq_ctrl_z_is_cz : r * r = - z1 ->
    gate_model O (GEig ECZPow r rc z1) = ionq_ctrl_matrix O 1 (ionq_gate_matrix O Nz []).
  Proof. intros H. startcz. entries_with H. Qed.
  Theorem ionq_ctrl_s_is_cz_half : r * r = ii ->
    gate_model O (GEig ECZPow r rc z1) = ionq_ctrl_matrix O 1 (ionq_gate_matrix O Ns []).
  Proof. intros H. startcz. entries_with H. Qed.
  Theorem ionq_ctrl_si_is_cz_mhalf : r * r = - ii ->
    gate_model O (GEig ECZPow r rc z1) = ionq_ctrl_matrix O 1 (ionq_gate_matrix O Nsi []).
  Proof. intros H. startcz. entries_with H. Qed.
  Theorem ionq_ctrl_t_is_cz_quarter : r * r = s2 * (z1 + ii) ->
    gate_model O (GEig ECZPow r rc z1) = ionq_ctrl_matrix O 1 (ionq_gate_matrix O Nt []).
  Proof. intros H. startcz. entries_with H. Qed.
  Theorem ionq_ctrl_ti_is_cz_mquarter : r * r = s2 * (z1 - ii) ->
    gate_model O (GEig ECZPow r rc z1) = ionq_ctrl_matrix O 1 (ionq_gate_matrix O Nti []).
  Proof. intros H. startcz. entries_with H. Qed.

  (* ---- a controlled rz is a controlled phase AND a phase on the control ---- *)
  Theorem ionq_ctrl_rz_decomp :
    ionq_ctrl_matrix O 1 (ionq_gate_matrix O Nrz [r; rc])
    = mmul O (mdiag O [z1; z1; rc; rc]) (gate_model O (GEig ECZPow r rc z1)).
  Proof. startcz. entries_with U. Qed.

  (* ... hence a scalar multiple of CZ**e (whatever its global shift) only in the trivial case *)
  Theorem ionq_ctrl_rz_is_czpow_only_if (f : K) :
    ionq_ctrl_matrix O 1 (ionq_gate_matrix O Nrz [r; rc]) = mscale O f (gate_model O (GEig ECZPow r rc g)) ->
    r = z1.
  Proof.
    change (gate_model O (GEig ECZPow r rc g)) with (eig_unitary O (eig_tbl O ECZPow) r rc g).
    simpl eig_tbl. rewrite (@eig_CZPow K O L r rc g U).
    cbv -[kadd kmul kopp ksub kconj k0 k1 ki khalf ks2]. intros E.
    injection E as E00 _ _ _ _ _ _ _ _ _ E22 _ _ _ _ _.
    assert (Hc : rc = z1) by (rewrite E22; symmetry; exact E00).
    transitivity (r * rc); [rewrite Hc; ring | exact U].
  Qed.
End Proofs.

(* ---- the witness: e = 1/2 (r = zeta_8).  Controlled rz(pi/2) is no scalar multiple of CZ**0.5 (= controlled s) ---- *)
From Coq Require Import QArith Qcanon.
From VF Require Import Base.K8.
Local Open Scope Qc_scope.
Theorem ionq_ctrl_rz_is_czpow_refuted : exists r rc : K8,
  kmul K8Ops r rc = k1 K8Ops /\ kmul K8Ops r r = ki K8Ops
  /\ forall f g, ionq_ctrl_matrix K8Ops 1 (ionq_gate_matrix K8Ops Nrz [r; rc]) <> mscale K8Ops f (gate_model K8Ops (GEig ECZPow r rc g)).
Proof.
  exists (mk8 0 1 0 0), (mk8 0 0 0 (-(1))). split; [vm_compute; reflexivity|]. split; [vm_compute; reflexivity|].
  intros f g E. apply (ionq_ctrl_rz_is_czpow_only_if K8Ops K8Laws) in E; [|vm_compute; reflexivity].
  discriminate E.
Qed.
Local Close Scope Qc_scope.

(* ---- the program level: a JSON op {gate z, control 0, target 1} is read as the 4x4 controlled z on wires [0; 1];
   a native gate takes no control; cnot keeps its meaning ---- *)
Example ionq_op_ctrl_z_example :
  ionq_op_gop K8Ops false 2 (IGate "z"%string [] [0%nat] [1%nat])
  = Some (GMat [2%nat; 2%nat] (ionq_ctrl_matrix K8Ops 1 (ionq_gate_matrix K8Ops Nz [])), [0%nat; 1%nat])
  /\ ionq_op_gop K8Ops true 2 (IGate "gpi"%string [k1 K8Ops; k1 K8Ops] [0%nat] [1%nat]) = None
  /\ ionq_op_gop K8Ops false 2 (IGate "cnot"%string [] [0%nat] [1%nat])
     = Some (GMat [2%nat; 2%nat] (ionq_gate_matrix K8Ops Ncnot []), [0%nat; 1%nat])
  /\ ionq_op_gop K8Ops false 2 (IGate "cnot"%string [] [] [1%nat]) = None.
Proof. repeat split. Qed.

(* the hypothesis of ionq_ctrl_rz_is_czpow_only_if is satisfiable: e = 0 (r = 1) *)
Example ionq_ctrl_rz_is_czpow_trivial_case :
  ionq_ctrl_matrix K8Ops 1 (ionq_gate_matrix K8Ops Nrz [k1 K8Ops; k1 K8Ops])
  = mscale K8Ops (k1 K8Ops) (gate_model K8Ops (GEig ECZPow (k1 K8Ops) (k1 K8Ops) (k1 K8Ops))).
Proof. vm_compute. reflexivity. Qed.
