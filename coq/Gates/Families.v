(* The gate library of the reference model: one constructor per family, parameters as ring elements
   (units exp(i angle) supplied by the caller).  gate_model uses the regenerated eigen tables where
   Cirq uses them; gate_spec is the documented closed form.  GateProofs.v proves they agree. *)
From Coq Require Import List ZArith Arith Bool.
From VF Require Import Base.RingOps Base.Mat Base.Tensor Gates.EigenGate Gates.GateSpecs Generated.EigenTables.
Import ListNotations.

Inductive eigfam :=
| EXPow | EYPow | EZPow | EHPow | ECZPow | ECXPow | ECYPow | ESwapPow | EISwapPow
| EXXPow | EYYPow | EZZPow | ECCZPow | ECCXPow | ECCYPow | EX4Pow | EZ4Pow
| EPI (p0 : nat) (inv0 : bool) (p1 : nat) (inv1 : bool).

Fixpoint list_eqb_nat (a b : list nat) : bool :=
  match a, b with
  | [], [] => true
  | x :: a', y :: b' => Nat.eqb x y && list_eqb_nat a' b'
  | _, _ => false
  end.

Section Families.
  Context {K : Type} (O : Ops K).

  Inductive gate :=
  | GEig (f : eigfam) (r rc g : K)
  | GFSim (u uc v vc : K)
  | GPhasedFSim (u uc ze zec ch chc ga gac ph phc : K)
  | GPhasedX (f fc r rc g : K)
  | GPhasedXZ (fa fac fz fzc r rc : K)
  | GPhasedISwap (f fc r rc g : K)
  | GCSwap
  | GGlobalPhase (c : K)
  | GDiag (ds : list K)
  | GQFT (n : nat) (omega : K)
  | GPhaseGrad (n : nat) (u : K)
  | GMat (dims : list nat) (m : matrix (K:=K))
  | GIdentity (dims : list nat)
  | GPerm (perm : list nat)                (* QubitPermutationGate: qubit i is sent to perm[i] *)
  | GGPI (p pc : K) | GGPI2 (p pc : K) | GIonqMS (a ac b bc r rc : K) | GIonqZZ (r rc : K)
  (* ControlledGate: control qid shape, the expanded set of activating control tuples, sub-gate *)
  | GCtrl (cdims : list nat) (cvals : list (list nat)) (sub : gate).

  Definition pi_tbl (p0 : nat) (i0 : bool) (p1 : nat) (i1 : bool) : list (Z * matrix (K:=K)) :=
    match p0, i0, p1, i1 with
    | 0, false, 0, false => tbl_PI_X0X0 O | 0, false, 0, true => tbl_PI_X0X1 O
    | 0, true, 0, false => tbl_PI_X1X0 O | 0, true, 0, true => tbl_PI_X1X1 O
    | 0, false, 1, false => tbl_PI_X0Y0 O | 0, false, 1, true => tbl_PI_X0Y1 O
    | 0, true, 1, false => tbl_PI_X1Y0 O | 0, true, 1, true => tbl_PI_X1Y1 O
    | 0, false, _, false => tbl_PI_X0Z0 O | 0, false, _, true => tbl_PI_X0Z1 O
    | 0, true, _, false => tbl_PI_X1Z0 O | 0, true, _, true => tbl_PI_X1Z1 O
    | 1, false, 0, false => tbl_PI_Y0X0 O | 1, false, 0, true => tbl_PI_Y0X1 O
    | 1, true, 0, false => tbl_PI_Y1X0 O | 1, true, 0, true => tbl_PI_Y1X1 O
    | 1, false, 1, false => tbl_PI_Y0Y0 O | 1, false, 1, true => tbl_PI_Y0Y1 O
    | 1, true, 1, false => tbl_PI_Y1Y0 O | 1, true, 1, true => tbl_PI_Y1Y1 O
    | 1, false, _, false => tbl_PI_Y0Z0 O | 1, false, _, true => tbl_PI_Y0Z1 O
    | 1, true, _, false => tbl_PI_Y1Z0 O | 1, true, _, true => tbl_PI_Y1Z1 O
    | _, false, 0, false => tbl_PI_Z0X0 O | _, false, 0, true => tbl_PI_Z0X1 O
    | _, true, 0, false => tbl_PI_Z1X0 O | _, true, 0, true => tbl_PI_Z1X1 O
    | _, false, 1, false => tbl_PI_Z0Y0 O | _, false, 1, true => tbl_PI_Z0Y1 O
    | _, true, 1, false => tbl_PI_Z1Y0 O | _, true, 1, true => tbl_PI_Z1Y1 O
    | _, false, _, false => tbl_PI_Z0Z0 O | _, false, _, true => tbl_PI_Z0Z1 O
    | _, true, _, false => tbl_PI_Z1Z0 O | _, true, _, true => tbl_PI_Z1Z1 O
    end.

  Definition eig_tbl (f : eigfam) : list (Z * matrix (K:=K)) :=
    match f with
    | EXPow => tbl_XPow O | EYPow => tbl_YPow O | EZPow => tbl_ZPow O | EHPow => tbl_HPow O
    | ECZPow => tbl_CZPow O | ECXPow => tbl_CXPow O | ECYPow => tbl_CYPow O
    | ESwapPow => tbl_SwapPow O | EISwapPow => tbl_ISwapPow O
    | EXXPow => tbl_XXPow O | EYYPow => tbl_YYPow O | EZZPow => tbl_ZZPow O
    | ECCZPow => tbl_CCZPow O | ECCXPow => tbl_CCXPow O | ECCYPow => tbl_CCYPow O
    | EX4Pow => tbl_X4Pow O | EZ4Pow => tbl_Z4Pow O
    | EPI p0 i0 p1 i1 => pi_tbl p0 i0 p1 i1
    end.
  Definition eig_spec (f : eigfam) (r rc g : K) : matrix :=
    match f with
    | EXPow => spec_XPow O r rc g | EYPow => spec_YPow O r rc g | EZPow => spec_ZPow O r rc g
    | EHPow => spec_HPow O r rc g | ECZPow => spec_CZPow O r rc g | ECXPow => spec_CXPow O r rc g
    | ECYPow => spec_CYPow O r rc g | ESwapPow => spec_SwapPow O r rc g | EISwapPow => spec_ISwapPow O r rc g
    | EXXPow => spec_XXPow O r rc g | EYYPow => spec_YYPow O r rc g | EZZPow => spec_ZZPow O r rc g
    | ECCZPow => spec_CCZPow O r rc g | ECCXPow => spec_CCXPow O r rc g | ECCYPow => spec_CCYPow O r rc g
    | EX4Pow => spec_X4Pow O r rc g | EZ4Pow => spec_Z4Pow O r rc g
    | EPI p0 i0 p1 i1 => spec_PI O p0 i0 p1 i1 r rc g
    end.
  Definition eig_dims (f : eigfam) : list nat :=
    match f with
    | EXPow | EYPow | EZPow | EHPow => [2]
    | ECCZPow | ECCXPow | ECCYPow => [2; 2; 2]
    | EX4Pow | EZ4Pow => [4]
    | _ => [2; 2]
    end.

  (* QubitPermutationGate on n qubits as a basis permutation: output digit perm[i] = input digit i *)
  Definition perm_digits (perm : list nat) (ds : list nat) : list nat :=
    fold_left (fun acc p => upd acc (fst p) (snd p)) (combine perm ds) (repeat 0 (length perm)).
  Definition perm_matrix (perm : list nat) : matrix :=
    let sh := repeat 2 (length perm) in
    spec_BasisPerm O (size sh) (fun j => index sh (perm_digits perm (nth j (enum sh) []))).

  (* block matrix: the sub-gate's matrix on the control tuples in cvals, identity on the others *)
  Definition ctrl_matrix (cdims : list nat) (cvals : list (list nat)) (m : matrix (K:=K)) : matrix :=
    let n := length m in
    fold_right (fun c acc =>
                  mdirect O (if existsb (fun v => list_eqb_nat v c) cvals then m else mid O n) acc)
               [] (enum cdims).

  Fixpoint gate_dims (g : gate) : list nat :=
    match g with
    | GEig f _ _ _ => eig_dims f
    | GFSim _ _ _ _ | GPhasedFSim _ _ _ _ _ _ _ _ _ _ | GPhasedISwap _ _ _ _ _ | GIonqMS _ _ _ _ _ _ | GIonqZZ _ _ => [2; 2]
    | GPhasedX _ _ _ _ _ | GPhasedXZ _ _ _ _ _ _ | GGPI _ _ | GGPI2 _ _ => [2]
    | GCSwap => [2; 2; 2]
    | GGlobalPhase _ => []
    | GDiag ds => repeat 2 (Nat.log2 (length ds))
    | GQFT n _ | GPhaseGrad n _ => repeat 2 n
    | GMat dims _ => dims
    | GIdentity dims => dims
    | GPerm perm => repeat 2 (length perm)
    | GCtrl cdims _ sub => cdims ++ gate_dims sub
    end.

  Fixpoint gate_spec (g : gate) : matrix :=
    match g with
    | GEig f r rc gg => eig_spec f r rc gg
    | GFSim u uc v vc => spec_FSim O u uc v vc
    | GPhasedFSim u uc ze zec ch chc ga gac ph phc => spec_PhasedFSim O u uc ze zec ch chc ga gac ph phc
    | GPhasedX f fc r rc gg => spec_PhasedX O f fc r rc gg
    | GPhasedXZ fa fac fz fzc r rc => spec_PhasedXZ O fa fac fz fzc r rc
    | GPhasedISwap f fc r rc gg => spec_PhasedISwap O f fc r rc gg
    | GCSwap => spec_CSwap O
    | GGlobalPhase c => spec_GlobalPhase c
    | GDiag ds => spec_Diagonal O ds
    | GQFT n om => spec_QFT O n om
    | GPhaseGrad n u => spec_PhaseGradient O n u
    | GMat _ m => m
    | GIdentity dims => mid O (size dims)
    | GPerm perm => perm_matrix perm
    | GGPI p pc => spec_GPI O p pc
    | GGPI2 p pc => spec_GPI2 O p pc
    | GIonqMS a ac b bc r rc => spec_IonqMS O a ac b bc r rc
    | GIonqZZ r rc => spec_IonqZZ O r rc
    | GCtrl cdims cvals sub => ctrl_matrix cdims cvals (gate_spec sub)
    end.
  (* the model of what Cirq computes: eigen-decomposition sum for EigenGates, closed form otherwise *)
  Fixpoint gate_model (g : gate) : matrix :=
    match g with
    | GEig f r rc gg => eig_unitary O (eig_tbl f) r rc gg
    | GCtrl cdims cvals sub => ctrl_matrix cdims cvals (gate_model sub)
    | _ => gate_spec g
    end.
End Families.
