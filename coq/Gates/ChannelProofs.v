(* C09.D1: every library channel is trace preserving (sum K^dagger K = I), as ring identities in its
   amplitude parameters; hence the density evolution preserves the trace. *)
From Coq Require Import Ring List.
From VF Require Import Base.RingOps Base.Mat Gates.Channels Gates.MatTac.
Import ListNotations.

Section CP.
  Context {K : Type} (O : Ops K) (L : Laws O).
  Add Ring Kring : (law_ring O L).
  Infix "+" := (kadd O). Infix "*" := (kmul O). Infix "-" := (ksub O).
  Notation "- a" := (kopp O a).
  Notation z0 := (k0 O). Notation z1 := (k1 O). Notation ii := (ki O).
  Lemma ii2c : ii * ii = - z1. Proof. exact (law_i O L). Qed.
  Lemma cj_i : kconj O ii = - ii. Proof. exact (law_conj_i O L). Qed.
  Lemma cj_1 : kconj O z1 = z1. Proof. exact (law_conj_1 O L). Qed.
  Lemma cj_0 : kconj O z0 = z0.
  Proof.
    assert (H : kconj O z0 + kconj O z0 = kconj O z0) by (rewrite <- (law_conj_add O L); f_equal; ring).
    transitivity (kconj O z0 + kconj O z0 - kconj O z0); [ring|]. rewrite H. ring.
  Qed.
  Lemma cj_opp a : kconj O (- a) = - kconj O a.
  Proof.
    assert (H : kconj O (- a) + kconj O a = z0) by (rewrite <- (law_conj_add O L), <- cj_0; f_equal; ring).
    transitivity (kconj O (- a) + kconj O a - kconj O a); [ring|]. rewrite H. ring.
  Qed.

  (* push conjugation through the ring structure, then normalise *)
  Ltac conj_norm := repeat first [ rewrite (law_conj_mul O L) | rewrite (law_conj_add O L) | rewrite cj_opp
                                 | rewrite cj_i | rewrite cj_1 | rewrite cj_0 ].

  Section Two.
    Variables a b : K.
    Hypothesis Ra : kconj O a = a. Hypothesis Rb : kconj O b = b.
    Hypothesis Hab : a * a + b * b = z1.
    Lemma Hab' : a * a = z1 - b * b. Proof. rewrite <- Hab. ring. Qed.
    Ltac fin := conj_norm; rewrite ?Ra, ?Rb; ring [Hab' ii2c].
    Theorem tp_bit_flip : kraus_gram O (kraus_bit_flip O a b) = mid O 2.
    Proof. mat_entries fin. Qed.
    Theorem tp_phase_flip : kraus_gram O (kraus_phase_flip O a b) = mid O 2.
    Proof. mat_entries fin. Qed.
    Theorem tp_amp_damp : kraus_gram O (kraus_amp_damp O a b) = mid O 2.
    Proof. mat_entries fin. Qed.
    Theorem tp_phase_damp : kraus_gram O (kraus_phase_damp O a b) = mid O 2.
    Proof. mat_entries fin. Qed.
    (* the density evolution preserves the trace, for every 2x2 matrix rho *)
    Variables r00 r01 r10 r11 : K.
    Theorem trace_amp_damp :
      mtrace O (kraus_apply O (kraus_amp_damp O a b) [[r00; r01]; [r10; r11]]) = r00 + r11.
    Proof. cbv -[kadd kmul kopp ksub kconj k0 k1 ki khalf ks2]. fin. Qed.
    Theorem trace_bit_flip :
      mtrace O (kraus_apply O (kraus_bit_flip O a b) [[r00; r01]; [r10; r11]]) = r00 + r11.
    Proof. cbv -[kadd kmul kopp ksub kconj k0 k1 ki khalf ks2]. fin. Qed.
  End Two.

  Section Four.
    Variables a bx by_ bz : K.
    Hypothesis Ra : kconj O a = a. Hypothesis Rx : kconj O bx = bx.
    Hypothesis Ry : kconj O by_ = by_. Hypothesis Rz : kconj O bz = bz.
    Hypothesis Hs : a * a + bx * bx + by_ * by_ + bz * bz = z1.
    Lemma Hs' : a * a = z1 - bx * bx - by_ * by_ - bz * bz. Proof. rewrite <- Hs. ring. Qed.
    Theorem tp_asym_depol : kraus_gram O (kraus_asym_depol O a bx by_ bz) = mid O 2.
    Proof. mat_entries ltac:(conj_norm; rewrite ?Ra, ?Rx, ?Ry, ?Rz; ring [Hs' ii2c]). Qed.
  End Four.

  Section Gad.
    Variables sp sq c s : K.
    Hypothesis R1 : kconj O sp = sp. Hypothesis R2 : kconj O sq = sq.
    Hypothesis R3 : kconj O c = c. Hypothesis R4 : kconj O s = s.
    Hypothesis Hp : sp * sp + sq * sq = z1. Hypothesis Hg : c * c + s * s = z1.
    Lemma Hp' : sp * sp = z1 - sq * sq. Proof. rewrite <- Hp. ring. Qed.
    Lemma Hg' : c * c = z1 - s * s. Proof. rewrite <- Hg. ring. Qed.
    Theorem tp_gen_amp_damp : kraus_gram O (kraus_gen_amp_damp O sp sq c s) = mid O 2.
    Proof. mat_entries ltac:(conj_norm; rewrite ?R1, ?R2, ?R3, ?R4; ring [Hp' Hg']). Qed.
  End Gad.

  Theorem tp_reset : kraus_gram O (kraus_reset2 O) = mid O 2.
  Proof. mat_entries ltac:(conj_norm; ring). Qed.
End CP.
