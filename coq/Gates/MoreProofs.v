(* C03, second batch: theorems about the closed forms of Gates/MoreSpecs.v.  Everything is proved over the
   generic ring (Base/RingOps.v: Laws), for registers, diagonals, tensor powers and permutations of ANY size;
   the finite Clifford table is additionally evaluated exactly in Q(zeta_8). *)
From Coq Require Import Ring List ZArith Arith Bool Lia.
From VF Require Import Base.RingOps Base.Mat Base.Tensor Base.TabProofs Gates.GateSpecs Gates.MoreSpecs Gates.MatTac.
Import ListNotations.

(* ---- list plumbing ---- *)
Lemma flat_map_map' {A B C} (f : A -> B) (g : B -> list C) l : flat_map g (map f l) = flat_map (fun x => g (f x)) l.
Proof. induction l as [|x l IH]; simpl; [reflexivity|]. rewrite IH. reflexivity. Qed.
Lemma map_flat_map' {A B C} (f : B -> C) (g : A -> list B) l : map f (flat_map g l) = flat_map (fun x => map f (g x)) l.
Proof. induction l as [|x l IH]; simpl; [reflexivity|]. rewrite map_app, IH. reflexivity. Qed.
Lemma flat_map_ext_in' {A B} (f g : A -> list B) l : (forall x, In x l -> f x = g x) -> flat_map f l = flat_map g l.
Proof.
  induction l as [|x l IH]; intros H; simpl; [reflexivity|].
  rewrite (H x (or_introl eq_refl)), IH; [reflexivity|]. intros y Hy. apply H. right. exact Hy.
Qed.
Lemma flat_map_single {A B} (f : A -> B) l : flat_map (fun x => [f x]) l = map f l.
Proof. induction l as [|x l IH]; simpl; [reflexivity|]. rewrite IH. reflexivity. Qed.
Lemma nth_map_seq {A B} (h : A -> B) (l : list A) (d : A) :
  map (fun j => h (nth j l d)) (seq 0 (length l)) = map h l.
Proof.
  rewrite <- (map_map (fun j => nth j l d) h). f_equal.
  induction l as [|x l IH]; simpl; [reflexivity|]. f_equal. rewrite <- seq_shift, map_map. exact IH.
Qed.
Lemma list_as_map_nth {A} (l : list A) (d : A) : l = map (fun i => nth i l d) (seq 0 (length l)).
Proof. rewrite (nth_map_seq (fun x => x) l d). symmetry. apply map_id. Qed.
Lemma map_const_repeat {A B} (c : B) (l : list A) : map (fun _ => c) l = repeat c (length l).
Proof. induction l as [|x l IH]; simpl; [reflexivity|]. rewrite IH. reflexivity. Qed.
Lemma combine_map2 {A B C} (f : A -> B) (g : A -> C) l : combine (map f l) (map g l) = map (fun x => (f x, g x)) l.
Proof. induction l as [|x l IH]; simpl; [reflexivity|]. rewrite IH. reflexivity. Qed.
Lemma seq_nonempty n : 0 < n -> seq 0 n <> [].
Proof. destruct n; [lia|]. simpl. discriminate. Qed.

(* square n x n list matrices *)
Definition sq {K} (n : nat) (m : list (list K)) : Prop := length m = n /\ Forall (fun r => length r = n) m.

Section More.
  Context {K : Type} (O : Ops K) (L : Laws O).
  Add Ring Kring : (law_ring O L).
  Infix "+" := (kadd O). Infix "*" := (kmul O). Infix "-" := (ksub O).
  Notation "- a" := (kopp O a).
  Notation z0 := (k0 O). Notation z1 := (k1 O). Notation hf := (khalf O). Notation ii := (ki O). Notation s2 := (ks2 O).
  Notation Kmat := (matrix (K:=K)).

  Lemma m_half2 : (z1 + z1) * hf = z1.
  Proof. transitivity (hf + hf); [ring | exact (law_half O L)]. Qed.
  Lemma m_ii2 : ii * ii = - z1. Proof. exact (law_i O L). Qed.
  Lemma m_s22 : s2 * s2 = hf. Proof. exact (law_s2 O L). Qed.
  Lemma cj_1 : kconj O z1 = z1. Proof. exact (law_conj_1 O L). Qed.
  Lemma cj_0 : kconj O z0 = z0.
  Proof.
    assert (H : kconj O z0 + kconj O z0 = kconj O z0) by (rewrite <- (law_conj_add O L); f_equal; ring).
    transitivity (kconj O z0 + kconj O z0 - kconj O z0); [ring|]. rewrite H. ring.
  Qed.
  Lemma cj_opp a : kconj O (- a) = - kconj O a.
  Proof.
    assert (H : kconj O (- a) + kconj O a = z0) by (rewrite <- (law_conj_add O L), <- cj_0; f_equal; ring).
    transitivity (kconj O (- a) + kconj O a - kconj O a); [ring|]. rewrite H. ring.
  Qed.
  Lemma cj_sub a b : kconj O (a - b) = kconj O a - kconj O b.
  Proof. transitivity (kconj O (a + - b)); [f_equal; ring|]. rewrite (law_conj_add O L), cj_opp. ring. Qed.

  (* ---------------- finite sums ---------------- *)
  Lemma ksum_cons x l : ksum O (x :: l) = x + ksum O l. Proof. reflexivity. Qed.
  Lemma ksum_app a b : ksum O (a ++ b) = ksum O a + ksum O b.
  Proof. induction a as [|x a IH]; unfold ksum in *; simpl; [ring|]. rewrite IH. ring. Qed.
  Lemma ksum_scale {A} c (f : A -> K) l : ksum O (map (fun x => c * f x) l) = c * ksum O (map f l).
  Proof. induction l as [|x l IH]; unfold ksum in *; simpl; [ring|]. rewrite IH. ring. Qed.
  Lemma ksum_scale_r {A} c (f : A -> K) l : ksum O (map (fun x => f x * c) l) = ksum O (map f l) * c.
  Proof. induction l as [|x l IH]; unfold ksum in *; simpl; [ring|]. rewrite IH. ring. Qed.
  Lemma ksum_ext_in {A} (f g : A -> K) l : (forall x, In x l -> f x = g x) -> ksum O (map f l) = ksum O (map g l).
  Proof. intros H. f_equal. apply map_ext_in. exact H. Qed.
  Lemma ksum_ext {A} (f g : A -> K) l : (forall x, f x = g x) -> ksum O (map f l) = ksum O (map g l).
  Proof. intros H. apply ksum_ext_in. intros x _. apply H. Qed.
  Lemma ksum_plus {A} (f g : A -> K) l :
    ksum O (map (fun x => f x + g x) l) = ksum O (map f l) + ksum O (map g l).
  Proof. induction l as [|x l IH]; unfold ksum in *; simpl; [ring|]. rewrite IH. ring. Qed.
  Lemma ksum_zero {A} (l : list A) : ksum O (map (fun _ => z0) l) = z0.
  Proof. induction l as [|x l IH]; unfold ksum in *; simpl; [reflexivity|]. rewrite IH. ring. Qed.
  Lemma ksum_flat_map {A B} (F : B -> K) (G : A -> list B) l :
    ksum O (map F (flat_map G l)) = ksum O (map (fun x => ksum O (map F (G x))) l).
  Proof. induction l as [|x l IH]; simpl; [reflexivity|]. rewrite map_app, ksum_app. unfold ksum in *. simpl. rewrite IH. reflexivity. Qed.
  Lemma kdot_map {A} (f g : A -> K) l : kdot O (map f l) (map g l) = ksum O (map (fun x => f x * g x) l).
  Proof. unfold kdot. rewrite combine_map2, map_map. reflexivity. Qed.
  Lemma ksum_conj (l : list K) : kconj O (ksum O l) = ksum O (map (kconj O) l).
  Proof. induction l as [|x l IH]; unfold ksum in *; simpl; [exact cj_0|]. rewrite (law_conj_add O L), IH. reflexivity. Qed.
  (* a sum over an interval with a single non-zero term *)
  Lemma ksum_delta (f : nat -> K) i : forall n s,
    ksum O (map (fun m => if Nat.eqb m i then f m else z0) (seq s n))
    = if Nat.leb s i && Nat.ltb i (s + n)%nat then f i else z0.
  Proof.
    induction n as [|n IH]; intros s.
    - simpl. destruct (Nat.leb_spec s i); destruct (Nat.ltb_spec i (s + 0)%nat); simpl; try reflexivity; lia.
    - cbn [seq map]. rewrite ksum_cons, IH.
      assert (H1 : (Nat.leb s i && Nat.ltb i (s + S n)%nat)
                   = (Nat.eqb s i || (Nat.leb (S s) i && Nat.ltb i (S s + n)%nat))).
      { destruct (Nat.eqb_spec s i); destruct (Nat.leb_spec s i); destruct (Nat.leb_spec (S s) i);
          destruct (Nat.ltb_spec i (s + S n)%nat); destruct (Nat.ltb_spec i (S s + n)%nat); simpl; try reflexivity; lia. }
      rewrite H1. clear H1. destruct (Nat.eqb_spec s i) as [Heq|Hne].
      + subst i. destruct (Nat.leb_spec (S s) s); [lia|]. simpl. ring.
      + simpl. destruct (Nat.leb (S s) i && Nat.ltb i (S (s + n))); ring.
  Qed.
  Lemma ksum_delta0 (f : nat -> K) i n : i < n ->
    ksum O (map (fun m => if Nat.eqb m i then f m else z0) (seq 0 n)) = f i.
  Proof.
    intros H. rewrite ksum_delta. simpl. destruct (Nat.ltb_spec i n); [reflexivity|lia].
  Qed.

  Fixpoint kpow_mul u v n : kpow O (u * v) n = kpow O u n * kpow O v n.
  Proof. destruct n; simpl; [ring|]. rewrite kpow_mul. ring. Qed.
  Fixpoint kpow_add u a b : kpow O u (a + b)%nat = kpow O u a * kpow O u b.
  Proof. destruct a; simpl; [ring|]. rewrite kpow_add. ring. Qed.
  Fixpoint kpow_one n : kpow O z1 n = z1.
  Proof. destruct n; simpl; [reflexivity|]. rewrite kpow_one. ring. Qed.
  Fixpoint kpow_conj u n : kconj O (kpow O u n) = kpow O (kconj O u) n.
  Proof. destruct n; simpl; [exact cj_1|]. rewrite (law_conj_mul O L), kpow_conj. reflexivity. Qed.

  (* ---------------- tabulated matrices ---------------- *)
  Lemma tabm_ext_in {A} (E : list A) (f g : A -> A -> K) : (forall r c, In r E -> In c E -> f r c = g r c) -> tabm E f = tabm E g.
  Proof. intros H. unfold tabm. apply map_ext_in. intros r Hr. apply map_ext_in. intros c Hc. apply H; assumption. Qed.
  Lemma tabm_ext {A} (E : list A) (f g : A -> A -> K) : (forall r c, f r c = g r c) -> tabm E f = tabm E g.
  Proof. intros H. apply tabm_ext_in. intros; apply H. Qed.
  Lemma tabm_map {A B} (h : A -> B) (E : list A) (f : B -> B -> K) : tabm (map h E) f = tabm E (fun r c => f (h r) (h c)).
  Proof. unfold tabm. rewrite map_map. apply map_ext. intros r. rewrite map_map. reflexivity. Qed.
  Lemma tabm_nil {A} (f : A -> A -> K) : tabm (@nil A) f = []. Proof. reflexivity. Qed.

  Lemma mtranspose_tabm {A} (E : list A) f : E <> [] -> mtranspose O (tabm E f) = tabm E (fun r c => f c r).
  Proof.
    intros HE. assert (d : A) by (destruct E as [|e E']; [contradiction|exact e]).
    unfold mtranspose, mcols, tabm.
    assert (Hc : length (nth 0 (map (fun r => map (f r) E) E) []) = length E).
    { destruct E as [|e E']; [contradiction|]. simpl. rewrite map_length. reflexivity. }
    rewrite Hc. clear Hc.
    rewrite <- (nth_map_seq (fun c => map (fun r => f r c) E) E d).
    apply map_ext_in. intros j Hj. apply in_seq in Hj. simpl in Hj.
    unfold mcol. rewrite map_map. apply map_ext. intros r.
    rewrite (nth_indep _ z0 (f r d)) by (rewrite map_length; lia).
    apply (map_nth (f r)).
  Qed.
  Lemma mmul_tabm {A} (E : list A) f g : E <> [] ->
    mmul O (tabm E f) (tabm E g) = tabm E (fun r c => ksum O (map (fun m => f r m * g m c) E)).
  Proof.
    intros HE. unfold mmul. rewrite (mtranspose_tabm E g HE). unfold tabm.
    rewrite map_map. apply map_ext. intros r. rewrite map_map. apply map_ext. intros c.
    apply kdot_map.
  Qed.
  Lemma mscale_tabm {A} (E : list A) c f : mscale O c (tabm E f) = tabm E (fun r c' => c * f r c').
  Proof. unfold mscale, vscale, tabm. rewrite map_map. apply map_ext. intros r. rewrite map_map. reflexivity. Qed.
  Lemma madd_tabm {A} (E : list A) f g : madd O (tabm E f) (tabm E g) = tabm E (fun r c => f r c + g r c).
  Proof.
    unfold madd, vadd, tabm. rewrite combine_map2, map_map. apply map_ext. intros r. simpl.
    rewrite combine_map2, map_map. reflexivity.
  Qed.
  Lemma mconj_tabm {A} (E : list A) f : mconj O (tabm E f) = tabm E (fun r c => kconj O (f r c)).
  Proof. unfold mconj, tabm. rewrite map_map. apply map_ext. intros r. rewrite map_map. reflexivity. Qed.
  Lemma mdagger_tabm {A} (E : list A) f : E <> [] -> mdagger O (tabm E f) = tabm E (fun r c => kconj O (f c r)).
  Proof. intros HE. unfold mdagger. rewrite (mtranspose_tabm E f HE), mconj_tabm. reflexivity. Qed.
  Lemma mzero_tabm {A} (E : list A) : mzero O (length E) (length E) = tabm E (fun _ _ => z0).
  Proof. unfold mzero, tabm. rewrite !map_const_repeat. reflexivity. Qed.
  Lemma mid_tabm n : mid O n = tabm (seq 0 n) (fun i j => if Nat.eqb i j then z1 else z0).
  Proof. reflexivity. Qed.
  Lemma mdiag_tabm d : mdiag O d = tabm (seq 0 (length d)) (fun i j => if Nat.eqb i j then nth i d z0 else z0).
  Proof. reflexivity. Qed.
  Lemma mget_tabm_seq n f i j : i < n -> j < n -> mget O (tabm (seq 0 n) f) i j = f i j.
  Proof.
    intros Hi Hj. unfold mget, tabm.
    rewrite (nth_indep _ [] (map (f 0) (seq 0 n))) by (rewrite map_length, seq_length; exact Hi).
    rewrite (map_nth (fun r => map (f r) (seq 0 n))), seq_nth by exact Hi. simpl.
    rewrite (nth_indep _ z0 (f i 0)) by (rewrite map_length, seq_length; exact Hj).
    rewrite (map_nth (f i)), seq_nth by exact Hj. reflexivity.
  Qed.
  Lemma sq_tabm n (m : Kmat) : sq n m -> m = tabm (seq 0 n) (mget O m).
  Proof.
    intros [Hl Hr]. unfold tabm. rewrite (list_as_map_nth m []) at 1. rewrite Hl.
    apply map_ext_in. intros i Hi. apply in_seq in Hi.
    assert (Hlen : length (nth i m []) = n).
    { rewrite Forall_forall in Hr. apply Hr. apply nth_In. lia. }
    rewrite (list_as_map_nth (nth i m []) z0) at 1. rewrite Hlen. reflexivity.
  Qed.
  Lemma sq_of_tabm n (f : nat -> nat -> K) : sq n (tabm (seq 0 n) f).
  Proof.
    split; unfold tabm; [rewrite map_length, seq_length; reflexivity|].
    apply Forall_forall. intros r Hr. apply in_map_iff in Hr. destruct Hr as [x [<- _]].
    rewrite map_length, seq_length. reflexivity.
  Qed.
  (* a sum of tabulated matrices is the table of the sums *)
  Lemma msum_tabm {A J} (E : list A) (F : J -> A -> A -> K) (js : list J) :
    fold_right (fun j acc => madd O (tabm E (F j)) acc) (mzero O (length E) (length E)) js
    = tabm E (fun r c => ksum O (map (fun j => F j r c) js)).
  Proof.
    induction js as [|j js IH]; simpl; [apply mzero_tabm|].
    rewrite IH, madd_tabm. apply tabm_ext. intros r c. reflexivity.
  Qed.

  (* ---------------- diagonal gates (DiagonalGate, TwoQubitDiagonalGate, ThreeQubitDiagonalGate) ---------------- *)
  Lemma vmul_length a b : length a = length b -> length (vmul O a b) = length a.
  Proof. intros H. unfold vmul. rewrite map_length, combine_length. lia. Qed.
  Lemma nth_vmul : forall a b r, length a = length b -> r < length a ->
    nth r (vmul O a b) z0 = nth r a z0 * nth r b z0.
  Proof.
    induction a as [|x a IH]; intros [|y b] r Hl Hr; simpl in *; try lia.
    destruct r; [reflexivity|]. apply IH; lia.
  Qed.
  (* composing diagonal gates multiplies the phases entry by entry, i.e. adds the angles; any length *)
  Theorem diag_mul a b : length a = length b ->
    mmul O (spec_Diagonal O a) (spec_Diagonal O b) = spec_Diagonal O (vmul O a b).
  Proof.
    intros Hl. unfold spec_Diagonal. destruct a as [|x a'] eqn:Ha.
    - destruct b; [reflexivity|discriminate].
    - rewrite <- Ha in *. assert (Hn : 0 < length a) by (rewrite Ha; simpl; lia).
      rewrite !mdiag_tabm, vmul_length by exact Hl. rewrite <- Hl.
      rewrite mmul_tabm by (apply seq_nonempty; exact Hn).
      apply tabm_ext_in. intros r c Hr Hc. apply in_seq in Hr. apply in_seq in Hc.
      rewrite (ksum_ext _ (fun m => if Nat.eqb m r then nth r a z0 * (if Nat.eqb m c then nth m b z0 else z0) else z0)).
      + rewrite ksum_delta0 by lia. destruct (Nat.eqb_spec r c) as [->|Hne].
        * rewrite nth_vmul by lia. reflexivity.
        * ring.
      + intros m. rewrite (Nat.eqb_sym r m). destruct (Nat.eqb_spec m r); [reflexivity|ring].
  Qed.
  Lemma vmul_comm a b : vmul O a b = vmul O b a.
  Proof.
    revert b. induction a as [|x a IH]; intros [|y b]; simpl; try reflexivity.
    unfold vmul in *. simpl. rewrite IH. f_equal. ring.
  Qed.
  (* diagonal gates commute *)
  Theorem diag_commute a b : length a = length b ->
    mmul O (spec_Diagonal O a) (spec_Diagonal O b) = mmul O (spec_Diagonal O b) (spec_Diagonal O a).
  Proof. intros H. rewrite (diag_mul a b H), (diag_mul b a (eq_sym H)), vmul_comm. reflexivity. Qed.
  Lemma mdagger_mdiag d : mdagger O (mdiag O d) = mdiag O (map (kconj O) d).
  Proof.
    destruct d as [|x d'] eqn:Hd; [reflexivity|]. rewrite <- Hd.
    assert (Hn : 0 < length d) by (rewrite Hd; simpl; lia).
    rewrite !mdiag_tabm, map_length, mdagger_tabm by (apply seq_nonempty; exact Hn).
    apply tabm_ext_in. intros r c Hr Hc. apply in_seq in Hr. apply in_seq in Hc.
    rewrite (Nat.eqb_sym c r). destruct (Nat.eqb_spec r c) as [->|Hne]; [|exact cj_0].
    rewrite (nth_indep (map (kconj O) d) z0 (kconj O z0)) by (rewrite map_length; lia).
    rewrite map_nth. reflexivity.
  Qed.
  (* a diagonal of units (entries e^{i x}: d_k * conj d_k = 1) is unitary; any length *)
  Theorem diag_unitary d : Forall (fun x => x * kconj O x = z1) d ->
    mmul O (spec_Diagonal O d) (mdagger O (spec_Diagonal O d)) = mid O (length d).
  Proof.
    intros Hu. unfold spec_Diagonal. rewrite mdagger_mdiag.
    change (mdiag O d) with (spec_Diagonal O d). change (mdiag O (map (kconj O) d)) with (spec_Diagonal O (map (kconj O) d)).
    rewrite diag_mul by (rewrite map_length; reflexivity). unfold spec_Diagonal.
    rewrite mdiag_tabm, mid_tabm, vmul_length by (rewrite map_length; reflexivity).
    apply tabm_ext_in. intros r c Hr Hc. apply in_seq in Hr.
    destruct (Nat.eqb_spec r c) as [->|Hne]; [|reflexivity].
    apply in_seq in Hc. rewrite nth_vmul by (rewrite ?map_length; lia).
    rewrite (nth_indep (map (kconj O) d) z0 (kconj O z0)) by (rewrite map_length; lia).
    rewrite map_nth. rewrite Forall_forall in Hu. apply Hu. apply nth_In. lia.
  Qed.

  (* ---------------- BooleanHamiltonianGate ---------------- *)
  Lemma bh_values_length n es : length (bh_values n es) = length (enum (repeat 2 n)).
  Proof. unfold bh_values. apply map_length. Qed.
  (* the matrix is diagonal, with the phase u^(number of true clauses on x) at the basis state x (big-endian) *)
  Theorem bh_entries n es u i j : i < length (enum (repeat 2 n)) -> j < length (enum (repeat 2 n)) ->
    mget O (spec_BoolHam O n es u) i j
    = if Nat.eqb i j then kpow O u (bh_count es (nth i (enum (repeat 2 n)) [])) else z0.
  Proof.
    intros Hi Hj. unfold spec_BoolHam. rewrite mdiag_tabm, map_length, bh_values_length.
    rewrite mget_tabm_seq by assumption. destruct (Nat.eqb i j); [|reflexivity].
    rewrite (nth_indep _ z0 (kpow O u 0)) by (rewrite map_length, bh_values_length; exact Hi).
    rewrite (map_nth (kpow O u)). unfold bh_values.
    rewrite (nth_indep _ 0 (bh_count es [])) by (rewrite map_length; exact Hi).
    rewrite (map_nth (bh_count es)). reflexivity.
  Qed.
  Lemma vmul_map {A} (f g : A -> K) l : vmul O (map f l) (map g l) = map (fun x => f x * g x) l.
  Proof. unfold vmul. rewrite combine_map2, map_map. reflexivity. Qed.
  (* evolution times add: exp(i t/2 H) exp(i t'/2 H) = exp(i (t+t')/2 H) *)
  Theorem bh_compose n es u v :
    mmul O (spec_BoolHam O n es u) (spec_BoolHam O n es v) = spec_BoolHam O n es (u * v).
  Proof.
    unfold spec_BoolHam. change (mdiag O) with (spec_Diagonal O).
    rewrite diag_mul by (rewrite !map_length; reflexivity).
    rewrite vmul_map. f_equal. apply map_ext. intros k. symmetry. apply kpow_mul.
  Qed.
  Lemma bh_count_app es1 es2 x : bh_count (es1 ++ es2) x = (bh_count es1 x + bh_count es2 x)%nat.
  Proof. unfold bh_count. rewrite filter_app, app_length. reflexivity. Qed.
  (* the Hamiltonian of a list of expressions is the sum of their Hamiltonians *)
  Theorem bh_clauses_add n es1 es2 u :
    spec_BoolHam O n (es1 ++ es2) u = mmul O (spec_BoolHam O n es1 u) (spec_BoolHam O n es2 u).
  Proof.
    unfold spec_BoolHam. change (mdiag O) with (spec_Diagonal O).
    rewrite diag_mul by (rewrite !map_length, !bh_values_length; reflexivity).
    f_equal. unfold bh_values. rewrite !map_map, vmul_map. apply map_ext. intros x.
    rewrite bh_count_app. apply kpow_add.
  Qed.
  (* any two boolean Hamiltonian gates on the same qubits commute *)
  Theorem bh_commute n es1 es2 u v :
    mmul O (spec_BoolHam O n es1 u) (spec_BoolHam O n es2 v) = mmul O (spec_BoolHam O n es2 v) (spec_BoolHam O n es1 u).
  Proof.
    unfold spec_BoolHam. change (mdiag O) with (spec_Diagonal O).
    apply diag_commute. rewrite !map_length, !bh_values_length. reflexivity.
  Qed.
  Theorem bh_unitary n es u uc : u * uc = z1 -> kconj O u = uc ->
    mmul O (spec_BoolHam O n es u) (mdagger O (spec_BoolHam O n es u)) = mid O (length (enum (repeat 2 n))).
  Proof.
    intros Hu Hc. unfold spec_BoolHam. change (mdiag O) with (spec_Diagonal O).
    rewrite diag_unitary; [rewrite map_length, bh_values_length; reflexivity|].
    apply Forall_forall. intros x Hx. apply in_map_iff in Hx. destruct Hx as [k [<- _]].
    rewrite kpow_conj, Hc, <- kpow_mul, Hu. apply kpow_one.
  Qed.

  (* ---------------- tensor products: ParallelGate, DensePauliString ---------------- *)
  Lemma kron_tabm d (a : nat -> nat -> K) (E : list (list nat)) g :
    kron O (tabm (seq 0 d) a) (tabm E g)
    = tabm (flat_map (fun x => map (cons x) E) (seq 0 d)) (fun r c => a (hd 0 r) (hd 0 c) * g (tl r) (tl c)).
  Proof.
    unfold kron, tabm.
    rewrite flat_map_map', map_flat_map'.
    apply flat_map_ext_in'. intros i _.
    rewrite !map_map. apply map_ext. intros r'.
    rewrite flat_map_map', map_flat_map'.
    apply flat_map_ext_in'. intros j _. rewrite !map_map. reflexivity.
  Qed.
  (* a tensor product of square matrices given by entry functions: entry = product of the factors' entries *)
  Fixpoint kl_entry (us : list (nat -> nat -> K)) (r c : list nat) : K :=
    match us with [] => z1 | u :: us' => u (hd 0 r) (hd 0 c) * kl_entry us' (tl r) (tl c) end.
  Fixpoint kl_tabs (ds : list nat) (us : list (nat -> nat -> K)) : list Kmat :=
    match ds, us with d :: ds', u :: us' => tabm (seq 0 d) u :: kl_tabs ds' us' | _, _ => [] end.
  Fixpoint kl_mul (ds : list nat) (us vs : list (nat -> nat -> K)) : list (nat -> nat -> K) :=
    match ds, us, vs with
    | d :: ds', u :: us', v :: vs' => (fun i j => ksum O (map (fun m => u i m * v m j) (seq 0 d))) :: kl_mul ds' us' vs'
    | _, _, _ => []
    end.
  Lemma kron_list_tab : forall ds us, length us = length ds ->
    kron_list O (kl_tabs ds us) = tabm (enum ds) (kl_entry us).
  Proof.
    induction ds as [|d ds IH]; intros [|u us] Hl; try discriminate; [reflexivity|].
    simpl in Hl. injection Hl as Hl. simpl kl_tabs. simpl kron_list. rewrite (IH us Hl), kron_tabm. reflexivity.
  Qed.
  Lemma kl_entry_mul : forall ds us vs r c, length us = length ds -> length vs = length ds ->
    ksum O (map (fun m => kl_entry us r m * kl_entry vs m c) (enum ds)) = kl_entry (kl_mul ds us vs) r c.
  Proof.
    induction ds as [|d ds IH]; intros [|u us] [|v vs] r c Hu Hv; try discriminate.
    - unfold ksum. simpl. ring.
    - simpl in Hu, Hv. injection Hu as Hu. injection Hv as Hv.
      cbn [enum]. rewrite ksum_flat_map. cbn [kl_mul kl_entry].
      rewrite <- (IH us vs (tl r) (tl c) Hu Hv), <- ksum_scale_r.
      apply ksum_ext. intros x. rewrite map_map. cbn [hd tl].
      rewrite <- ksum_scale. apply ksum_ext. intros m. ring.
  Qed.
  Lemma kl_mul_length : forall ds us vs, length us = length ds -> length vs = length ds -> length (kl_mul ds us vs) = length ds.
  Proof.
    induction ds as [|d ds IH]; intros [|u us] [|v vs] Hu Hv; try discriminate; [reflexivity|].
    simpl in *. f_equal. apply IH; lia.
  Qed.
  (* the mixed-product property for tensor products of any number of factors of any dimensions *)
  Theorem kron_list_mmul ds us vs : length us = length ds -> length vs = length ds ->
    mmul O (kron_list O (kl_tabs ds us)) (kron_list O (kl_tabs ds vs)) = kron_list O (kl_tabs ds (kl_mul ds us vs)).
  Proof.
    intros Hu Hv. rewrite (kron_list_tab ds us Hu), (kron_list_tab ds vs Hv), (kron_list_tab ds _ (kl_mul_length ds us vs Hu Hv)).
    destruct (enum ds) as [|e E'] eqn:HE; [reflexivity|]. rewrite <- HE.
    rewrite mmul_tabm by (rewrite HE; discriminate).
    apply tabm_ext. intros r c. apply kl_entry_mul; assumption.
  Qed.

  Lemma kl_tabs_repeat n d u : kl_tabs (repeat d n) (repeat u n) = repeat (tabm (seq 0 d) u) n.
  Proof. induction n as [|n IH]; simpl; [reflexivity|]. rewrite IH. reflexivity. Qed.
  Lemma kl_mul_repeat n d u v :
    kl_mul (repeat d n) (repeat u n) (repeat v n) = repeat (fun i j => ksum O (map (fun m => u i m * v m j) (seq 0 d))) n.
  Proof. induction n as [|n IH]; simpl; [reflexivity|]. rewrite IH. reflexivity. Qed.
  (* ParallelGate(U, n) is the n-fold tensor power of U ... *)
  Theorem parallel_succ n (u : Kmat) : spec_Parallel O (S n) u = kron O u (spec_Parallel O n u).
  Proof. reflexivity. Qed.
  Theorem parallel_zero (u : Kmat) : spec_Parallel O 0 u = [[z1]].
  Proof. reflexivity. Qed.
  (* ... and (U x n)(V x n) = (UV) x n, for every number of copies and every dimension of the sub gate *)
  Theorem parallel_mul n d (u v : Kmat) : 0 < d -> sq d u -> sq d v ->
    mmul O (spec_Parallel O n u) (spec_Parallel O n v) = spec_Parallel O n (mmul O u v).
  Proof.
    intros Hd Su Sv. rewrite (sq_tabm d u Su), (sq_tabm d v Sv).
    rewrite mmul_tabm by (apply seq_nonempty; exact Hd). unfold spec_Parallel.
    rewrite <- !kl_tabs_repeat, kron_list_mmul by (rewrite !repeat_length; reflexivity).
    rewrite kl_mul_repeat. reflexivity.
  Qed.
  (* one copy is the sub gate itself *)
  Theorem parallel_one d (u : Kmat) : sq d u -> spec_Parallel O 1 u = u.
  Proof.
    intros Su. rewrite (sq_tabm d u Su) at 2. rewrite (sq_tabm d u Su) at 1. unfold spec_Parallel. simpl repeat. simpl kron_list.
    change [[z1]] with (tabm [@nil nat] (fun _ _ => z1)). rewrite kron_tabm.
    simpl map. rewrite flat_map_single, tabm_map. apply tabm_ext. intros r c. simpl. ring.
  Qed.

  (* ---------------- DensePauliString as a gate ---------------- *)
  Definition p4e (p : nat) : nat -> nat -> K := fun i j => mget O (pauli4 O p) i j.
  Lemma pauli4_tab p : pauli4 O p = tabm (seq 0 2) (p4e p).
  Proof. destruct p as [|[|[|p]]]; reflexivity. Qed.
  (* the one-letter multiplication table, entrywise: P_x P_y = i^phase P_code *)
  Lemma p4e_mul x y i j :
    ksum O (map (fun m => p4e x i m * p4e y m j) (seq 0 2)) = kpow O ii (pmul_phase x y) * p4e (pmul_code x y) i j.
  Proof.
    destruct x as [|[|[|x]]]; destruct y as [|[|[|y]]]; destruct i as [|[|[|i]]]; destruct j as [|[|[|j]]];
      cbn; ring [m_ii2].
  Qed.
  Theorem pauli4_mul x y : mmul O (pauli4 O x) (pauli4 O y) = mscale O (kpow O ii (pmul_phase x y)) (pauli4 O (pmul_code x y)).
  Proof.
    rewrite !pauli4_tab, mmul_tabm, mscale_tabm by discriminate. apply tabm_ext. intros r c. apply p4e_mul.
  Qed.
  Lemma kl_tabs_pauli l : kl_tabs (repeat 2 (length l)) (map p4e l) = map (pauli4 O) l.
  Proof. induction l as [|p l IH]; simpl; [reflexivity|]. rewrite IH, pauli4_tab. reflexivity. Qed.
  Lemma dp_code_length : forall a b, length a = length b -> length (dp_code a b) = length a.
  Proof. induction a as [|x a IH]; intros [|y b] H; try discriminate; simpl; [reflexivity|]. f_equal. apply IH. simpl in H. lia. Qed.
  Lemma dp_entry : forall a b r c, length a = length b ->
    kl_entry (kl_mul (repeat 2 (length a)) (map p4e a) (map p4e b)) r c
    = kpow O ii (dp_phase a b) * kl_entry (map p4e (dp_code a b)) r c.
  Proof.
    induction a as [|x a IH]; intros [|y b] r c H; try discriminate.
    - cbn. ring.
    - simpl in H. injection H as H.
      cbn [length repeat map kl_mul kl_entry dp_phase dp_code]. rewrite (IH b (tl r) (tl c) H), p4e_mul, kpow_add. ring.
  Qed.
  (* product rule: (c P_a)(c' P_b) = c c' i^(sum of letter phases) P_(a.b), for strings of any (equal) length *)
  Theorem dense_pauli_mul c c' a b : length a = length b ->
    mmul O (spec_DensePauli O c a) (spec_DensePauli O c' b)
    = spec_DensePauli O (c * c' * kpow O ii (dp_phase a b)) (dp_code a b).
  Proof.
    intros Hl. unfold spec_DensePauli.
    rewrite <- (kl_tabs_pauli a), <- (kl_tabs_pauli b), <- (kl_tabs_pauli (dp_code a b)), dp_code_length by exact Hl.
    rewrite <- Hl.
    rewrite !kron_list_tab by (rewrite map_length, repeat_length, ?dp_code_length by exact Hl; lia).
    rewrite !mscale_tabm.
    destruct (enum (repeat 2 (length a))) as [|e E'] eqn:HE; [reflexivity|]. rewrite <- HE.
    rewrite mmul_tabm by (rewrite HE; discriminate).
    apply tabm_ext. intros r c0.
    rewrite (ksum_ext _ (fun m => (c * c') * (kl_entry (map p4e a) r m * kl_entry (map p4e b) m c0))) by (intros; ring).
    rewrite ksum_scale, kl_entry_mul by (rewrite map_length, repeat_length; lia).
    rewrite dp_entry by exact Hl. ring.
  Qed.

  (* ---------------- basis permutations: ArithmeticGate ---------------- *)
  Lemma basisperm_tabm N (f : nat -> nat) : spec_BasisPerm O N f = tabm (seq 0 N) (fun i j => if Nat.eqb i (f j) then z1 else z0).
  Proof. reflexivity. Qed.
  (* the matrix of a composition of register maps is the product of the matrices *)
  Theorem perm_compose N (f g : nat -> nat) : (forall k, k < N -> g k < N) ->
    mmul O (spec_BasisPerm O N f) (spec_BasisPerm O N g) = spec_BasisPerm O N (fun k => f (g k)).
  Proof.
    intros Hg. destruct N as [|N]; [reflexivity|].
    rewrite !basisperm_tabm, mmul_tabm by (apply seq_nonempty; lia).
    apply tabm_ext_in. intros r c Hr Hc. apply in_seq in Hc.
    rewrite (ksum_ext _ (fun m => if Nat.eqb m (g c) then (if Nat.eqb r (f m) then z1 else z0) else z0)).
    - rewrite ksum_delta0 by (apply Hg; lia). reflexivity.
    - intros m. destruct (Nat.eqb m (g c)); ring.
  Qed.
  Lemma perm_gram_entry N (f : nat -> nat) j k : f j < N ->
    ksum O (map (fun m => kconj O (if Nat.eqb m (f j) then z1 else z0) * (if Nat.eqb m (f k) then z1 else z0)) (seq 0 N))
    = if Nat.eqb (f j) (f k) then z1 else z0.
  Proof.
    intros Hj.
    rewrite (ksum_ext _ (fun m => if Nat.eqb m (f j) then (if Nat.eqb m (f k) then z1 else z0) else z0)).
    - rewrite ksum_delta0 by exact Hj. reflexivity.
    - intros m. destruct (Nat.eqb m (f j)); [rewrite cj_1|rewrite cj_0]; ring.
  Qed.
  (* x -> f x (into range) gives an isometry (U^dagger U = I; for a square matrix: a unitary, a permutation matrix)
     exactly when f is injective on the register range, i.e. when apply is reversible *)
  Theorem perm_unitary_iff N (f : nat -> nat) : z1 <> z0 -> (forall j, j < N -> f j < N) ->
    (mmul O (mdagger O (spec_BasisPerm O N f)) (spec_BasisPerm O N f) = mid O N
     <-> (forall j k, j < N -> k < N -> f j = f k -> j = k)).
  Proof.
    intros H10 Hf. destruct N as [|N]; [split; [intros _ j k Hj; lia|reflexivity]|].
    rewrite basisperm_tabm, mid_tabm, mdagger_tabm, mmul_tabm by (apply seq_nonempty; lia).
    split.
    - intros H j k Hj Hk Hjk.
      assert (E : mget O (tabm (seq 0 (S N)) (fun r c => ksum O (map (fun m =>
                    kconj O (if Nat.eqb m (f r) then z1 else z0) * (if Nat.eqb m (f c) then z1 else z0)) (seq 0 (S N))))) j k
                  = mget O (tabm (seq 0 (S N)) (fun i j0 => if Nat.eqb i j0 then z1 else z0)) j k) by (rewrite H; reflexivity).
      rewrite !mget_tabm_seq in E by assumption. rewrite perm_gram_entry in E by (apply Hf; exact Hj).
      rewrite Hjk, Nat.eqb_refl in E. destruct (Nat.eqb_spec j k); [assumption|contradiction].
    - intros Hinj. apply tabm_ext_in. intros r c Hr Hc. apply in_seq in Hr. apply in_seq in Hc.
      rewrite perm_gram_entry by (apply Hf; lia).
      destruct (Nat.eqb_spec (f r) (f c)) as [E|E]; destruct (Nat.eqb_spec r c) as [E'|E']; try reflexivity.
      + exfalso. apply E'. apply Hinj; [lia|lia|exact E].
      + exfalso. apply E. rewrite E'. reflexivity.
  Qed.

  (* the register semantics: targets stay inside the register range *)
  Lemma size_pos_all : forall sz, 0 < size sz -> Forall (lt 0) sz.
  Proof.
    induction sz as [|d sz IH]; intros H; [constructor|].
    change (size (d :: sz)) with (d * size sz)%nat in H.
    constructor.
    - destruct d; [simpl in H; lia|lia].
    - apply IH. destruct (size sz); [rewrite Nat.mul_0_r in H; lia|lia].
  Qed.
  Lemma arith_outputs_lt : forall regs outs qo, Forall (lt 0) (arith_sizes regs) ->
    arith_outputs regs outs = Some qo -> Forall2 lt qo (arith_sizes regs).
  Proof.
    induction regs as [|[c|d] regs IH]; intros [|o outs] qo Hp H; simpl in *; try discriminate.
    - injection H as <-. constructor.
    - destruct (Z.eqb o c); [|discriminate]. apply (IH outs qo Hp H).
    - inversion Hp as [|x l Hx Hr]; subst.
      destruct (arith_outputs regs outs) as [t|] eqn:Ht; [|discriminate]. injection H as <-.
      constructor; [|apply (IH outs t Hr Ht)].
      assert (Hm := Z.mod_pos_bound o (Z.of_nat (size d)) ltac:(lia)). lia.
  Qed.
  Theorem arith_target_lt regs apply j t : j < size (arith_sizes regs) ->
    arith_target regs apply j = Some t -> t < size (arith_sizes regs).
  Proof.
    intros Hj H. unfold arith_target in H.
    destruct (arith_outputs regs _) as [qo|] eqn:Hq; [|discriminate]. injection H as <-.
    assert (Hp : 0 < size (arith_sizes regs)) by lia.
    apply index_lt. apply (arith_outputs_lt _ _ _ (size_pos_all _ Hp) Hq).
  Qed.
  Lemma spec_Arith_some regs apply (M : Kmat) : spec_Arith O regs apply = Some M ->
    M = spec_BasisPerm O (size (arith_sizes regs)) (arith_tgt regs apply)
    /\ forall j, j < size (arith_sizes regs) -> arith_tgt regs apply j < size (arith_sizes regs).
  Proof.
    unfold spec_Arith. destruct (forallb _ _) eqn:Hall; [|discriminate]. intros H. injection H as <-.
    split; [reflexivity|]. intros j Hj. rewrite forallb_forall in Hall.
    specialize (Hall j ltac:(apply in_seq; lia)). unfold arith_tgt.
    destruct (arith_target regs apply j) as [t|] eqn:Ht; [|discriminate]. apply (arith_target_lt regs apply j t Hj Ht).
  Qed.
  (* ArithmeticGate: the unitary is the permutation matrix of x -> apply(x); it is an isometry (unitary) iff the
     register map is injective on the register range; any register sizes, constants and qudits included *)
  Theorem arith_unitary_iff regs apply (M : Kmat) : z1 <> z0 -> spec_Arith O regs apply = Some M ->
    (mmul O (mdagger O M) M = mid O (size (arith_sizes regs))
     <-> (forall j k, j < size (arith_sizes regs) -> k < size (arith_sizes regs) ->
                      arith_tgt regs apply j = arith_tgt regs apply k -> j = k)).
  Proof.
    intros H10 HM. destruct (spec_Arith_some regs apply M HM) as [-> Hr]. apply perm_unitary_iff; assumption.
  Qed.
  (* two arithmetic gates on the same registers compose as their register maps *)
  Theorem arith_compose regs ap1 ap2 (M1 M2 : Kmat) : spec_Arith O regs ap1 = Some M1 -> spec_Arith O regs ap2 = Some M2 ->
    mmul O M1 M2 = spec_BasisPerm O (size (arith_sizes regs)) (fun j => arith_tgt regs ap1 (arith_tgt regs ap2 j)).
  Proof.
    intros H1 H2. destruct (spec_Arith_some regs ap1 M1 H1) as [-> _]. destruct (spec_Arith_some regs ap2 M2 H2) as [-> Hr].
    apply perm_compose. exact Hr.
  Qed.
  (* the documented adder: target register of any qudit dimensions, classical constant operand *)
  Lemma enum_single N : enum [N] = map (fun x => [x]) (seq 0 N).
  Proof. cbn [enum]. rewrite <- flat_map_single. reflexivity. Qed.
  Theorem arith_add_const dims c j : j < size dims ->
    arith_target [RQu dims; RConst c] (aop_apply OpAdd) j
    = Some (Z.to_nat ((Z.of_nat j + c) mod Z.of_nat (size dims))).
  Proof.
    intros Hj. unfold arith_target. cbn [arith_sizes flat_map areg_qsize app]. rewrite enum_single.
    rewrite (nth_indep _ [] [0]) by (rewrite map_length, seq_length; exact Hj).
    rewrite (map_nth (fun x => [x])), seq_nth by exact Hj.
    cbn [arith_inputs hd tl aop_apply nth arith_pad length skipn app arith_outputs plus]. rewrite Z.eqb_refl.
    unfold index. cbn [index_acc]. f_equal.
  Qed.

  (* ---------------- the 24 single-qubit Cliffords ---------------- *)
  Ltac conj_norm := repeat first [ rewrite (law_conj_mul O L) | rewrite (law_conj_add O L) | rewrite cj_opp | rewrite cj_sub
                                 | rewrite (law_conj_i O L) | rewrite cj_1 | rewrite cj_0
                                 | rewrite (law_conj_half O L) | rewrite (law_conj_s2 O L) ].
  Lemma m_cancel2 a b : (z1 + z1) * a = (z1 + z1) * b -> a = b.
  Proof. intros H. transitivity (hf * ((z1 + z1) * a)); [ring [m_half2]|]. rewrite H. ring [m_half2]. Qed.
  Ltac cl_close := first [ ring [m_ii2 m_half2 m_s22]
                         | apply m_cancel2; ring [m_ii2 m_half2 m_s22]
                         | do 2 apply m_cancel2; ring [m_ii2 m_half2 m_s22]
                         | do 3 apply m_cancel2; ring [m_ii2 m_half2 m_s22]
                         | do 4 apply m_cancel2; ring [m_ii2 m_half2 m_s22] ].
  Definition cliff_dflt : (nat * bool) * (nat * bool) := ((0, false), (0, false)).
  (* each closed form conjugates X and Z to the images stated in the table: U X U^dagger, U Z U^dagger (finite domain: 24 cases) *)
  Theorem cliff_conj k : k < 24 ->
    conj_by O (cliff_unitary O k) (pauli_mat O 0) = signed_pauli O (fst (nth k cliff_images cliff_dflt)) /\
    conj_by O (cliff_unitary O k) (pauli_mat O 2) = signed_pauli O (snd (nth k cliff_images cliff_dflt)).
  Proof.
    intros H. do 24 (destruct k as [|k]; [split; mat_entries ltac:(conj_norm; cl_close)|]). lia.
  Qed.
  Theorem cliff_unitary_ok k : k < 24 -> mmul O (cliff_unitary O k) (mdagger O (cliff_unitary O k)) = mid O 2.
  Proof.
    intros H. do 24 (destruct k as [|k]; [mat_entries ltac:(conj_norm; cl_close)|]). lia.
  Qed.

  (* ---------------- PauliInteractionGate: the documented special cases ---------------- *)
  Theorem pi_ZZ_is_CZPow r rc g : spec_PI O 2 false 2 false r rc g = spec_CZPow O r rc g.
  Proof. mat_entries cl_close. Qed.
  Theorem pi_ZX_is_CXPow r rc g : r * rc = z1 -> spec_PI O 2 false 0 false r rc g = spec_CXPow O r rc g.
  Proof. intros U. mat_entries ltac:(first [ ring [U m_ii2 m_half2] | apply m_cancel2; ring [U m_ii2 m_half2]
                                         | do 2 apply m_cancel2; ring [U m_ii2 m_half2] | do 3 apply m_cancel2; ring [U m_ii2 m_half2] ]). Qed.

  (* ---------------- UniformSuperpositionGate ---------------- *)
  Lemma ksum_repeat x n : ksum O (repeat x n) = kmuln O n x.
  Proof. induction n as [|n IH]; unfold ksum in *; simpl; [reflexivity|]. rewrite IH. reflexivity. Qed.
  Lemma map_repeat' {A B} (f : A -> B) x n : map f (repeat x n) = repeat (f x) n.
  Proof. induction n as [|n IH]; simpl; [reflexivity|]. rewrite IH. reflexivity. Qed.
  Lemma kmuln_zero n x : kmuln O n (z0 * x) = z0.
  Proof. induction n as [|n IH]; simpl; [reflexivity|]. rewrite IH. ring. Qed.
  Theorem uniform_length s M n : M <= Nat.pow 2 n -> length (spec_UniformSup_col O s M n) = Nat.pow 2 n.
  Proof. intros H. unfold spec_UniformSup_col. rewrite app_length, !repeat_length. lia. Qed.
  (* squared norm of the documented image of |0..0>: M |s|^2 (= 1 when s = 1/sqrt M) *)
  Theorem uniform_norm s M n :
    ksum O (map (fun x => x * kconj O x) (spec_UniformSup_col O s M n)) = kmuln O M (s * kconj O s).
  Proof.
    unfold spec_UniformSup_col. rewrite map_app, ksum_app, !map_repeat', !ksum_repeat, kmuln_zero. ring.
  Qed.

  (* ---------------- channels ---------------- *)
  Lemma gram_tabm {A} (E : list A) (Fs : list (A -> A -> K)) : E <> [] ->
    kraus_gram_n O (length E) (map (tabm E) Fs)
    = tabm E (fun r c => ksum O (map (fun F => ksum O (map (fun m => kconj O (F m r) * F m c) E)) Fs)).
  Proof.
    intros HE. unfold kraus_gram_n. induction Fs as [|F Fs IH]; simpl; [apply mzero_tabm|].
    rewrite IH, mdagger_tabm, mmul_tabm, madd_tabm by exact HE. reflexivity.
  Qed.
  (* StatePreparationChannel: the operators |psi><j| form a channel when psi is normalised; any dimension *)
  Theorem ketbra_tp psi : ksum O (map (fun x => kconj O x * x) psi) = z1 ->
    kraus_gram_n O (length psi) (ketbra_ops O psi) = mid O (length psi).
  Proof.
    intros Hn. destruct psi as [|p0 psi'] eqn:Hp; [reflexivity|]. rewrite <- Hp in *.
    assert (HN : 0 < length psi) by (rewrite Hp; simpl; lia).
    unfold ketbra_ops. set (N := length psi) in *.
    rewrite <- (map_map (fun j => fun r c => if Nat.eqb c j then nth r psi z0 else z0) (tabm (seq 0 N))).
    rewrite <- (seq_length N 0) at 1. rewrite gram_tabm by (apply seq_nonempty; exact HN).
    rewrite mid_tabm. apply tabm_ext_in. intros r c Hr Hc. apply in_seq in Hr. apply in_seq in Hc.
    rewrite map_map.
    rewrite (ksum_ext _ (fun j => if Nat.eqb j r
               then ksum O (map (fun m => kconj O (nth m psi z0) * (if Nat.eqb c j then nth m psi z0 else z0)) (seq 0 N)) else z0)).
    - rewrite ksum_delta0 by lia. rewrite (Nat.eqb_sym c r). destruct (Nat.eqb r c).
      + rewrite <- Hn. unfold N. rewrite (nth_map_seq (fun x => kconj O x * x) psi z0). reflexivity.
      + rewrite (ksum_ext _ (fun _ => z0)) by (intros; ring). apply ksum_zero.
    - intros j. rewrite (Nat.eqb_sym r j). destruct (Nat.eqb j r); [reflexivity|].
      rewrite (ksum_ext _ (fun _ => z0)) by (intros; rewrite cj_0; ring). apply ksum_zero.
  Qed.
  Lemma basis_vec_length d k : length (basis_vec O d k) = d.
  Proof. unfold basis_vec. rewrite map_length, seq_length. reflexivity. Qed.
  (* ResetChannel(d): |0><j|, j < d, is a channel for every qudit dimension *)
  Theorem reset_tp d : 0 < d -> kraus_gram_n O d (spec_Reset O d) = mid O d.
  Proof.
    intros Hd. unfold spec_Reset. rewrite <- (basis_vec_length d 0) at 1 3. apply ketbra_tp.
    unfold basis_vec. rewrite map_map.
    rewrite (ksum_ext _ (fun m => if Nat.eqb m 0 then z1 else z0)).
    - rewrite (ksum_delta0 (fun _ => z1)) by exact Hd. reflexivity.
    - intros m. destruct (Nat.eqb m 0); [rewrite cj_1|rewrite cj_0]; ring.
  Qed.
  (* MeasurementGate: the projectors |i><i| sum to the identity *)
  Theorem measure_tp N : kraus_gram_n O N (spec_Measure O N) = mid O N.
  Proof.
    destruct N as [|N]; [reflexivity|]. unfold spec_Measure.
    rewrite <- (map_map (fun i => fun r c => if Nat.eqb r i && Nat.eqb c i then z1 else z0) (tabm (seq 0 (S N)))).
    rewrite <- (seq_length (S N) 0) at 1. rewrite gram_tabm by (apply seq_nonempty; lia).
    rewrite mid_tabm. apply tabm_ext_in. intros r c Hr Hc. apply in_seq in Hr. apply in_seq in Hc.
    rewrite map_map.
    rewrite (ksum_ext _ (fun i => if Nat.eqb i r then (if Nat.eqb c i then z1 else z0) else z0)).
    - rewrite ksum_delta0 by lia. rewrite (Nat.eqb_sym c r). reflexivity.
    - intros i.
      rewrite (ksum_ext _ (fun m => if Nat.eqb m i then (if Nat.eqb r i then (if Nat.eqb c i then z1 else z0) else z0) else z0)).
      + rewrite ksum_delta. simpl.
        destruct (Nat.eqb_spec r i) as [->|Hne].
        * rewrite Nat.eqb_refl. destruct (Nat.ltb_spec i (S N)); [reflexivity|lia].
        * destruct (Nat.eqb_spec i r); [congruence|]. destruct (Nat.ltb i (S N)); reflexivity.
      + intros m. destruct (Nat.eqb m i); simpl; [|rewrite cj_0; ring].
        destruct (Nat.eqb r i); simpl; [|rewrite cj_0; ring].
        destruct (Nat.eqb c i); [rewrite cj_1|rewrite cj_1]; ring.
  Qed.

  (* RandomGateChannel(sub, p): sqrt p K_k together with sqrt(1-p) I is a channel whenever the K_k are; any dimension *)
  Theorem random_gate_tp n sp sq_ (ks : list Kmat) : 0 < n -> Forall (sq n) ks ->
    kconj O sp = sp -> kconj O sq_ = sq_ -> sp * sp + sq_ * sq_ = z1 ->
    kraus_gram_n O n ks = mid O n ->
    kraus_gram_n O n (spec_RandomGate_kraus O sp sq_ n ks) = mid O n.
  Proof.
    intros Hn Hsq Rp Rq Hpq Hks. set (E := seq 0 n).
    assert (HE : E <> []) by (apply seq_nonempty; exact Hn).
    assert (Hk : ks = map (tabm E) (map (mget O) ks)).
    { rewrite map_map. rewrite <- (map_id ks) at 1. apply map_ext_in. intros k Hin.
      apply sq_tabm. rewrite Forall_forall in Hsq. apply Hsq. exact Hin. }
    set (Fs := map (mget O) ks) in *.
    assert (Hg : forall r c, r < n -> c < n ->
              ksum O (map (fun F => ksum O (map (fun m => kconj O (F m r) * F m c) E)) Fs) = if Nat.eqb r c then z1 else z0).
    { intros r c Hr Hc. rewrite Hk in Hks. rewrite <- (seq_length n 0) in Hks at 1. fold E in Hks.
      rewrite gram_tabm in Hks by exact HE.
      assert (Eq := f_equal (fun M => mget O M r c) Hks). simpl in Eq. unfold E in Eq.
      rewrite mid_tabm, !mget_tabm_seq in Eq by assumption. exact Eq. }
    assert (Hl : spec_RandomGate_kraus O sp sq_ n ks
                 = map (tabm E) (map (fun F => fun r c => sp * F r c) Fs ++ [fun r c => sq_ * (if Nat.eqb r c then z1 else z0)])).
    { unfold spec_RandomGate_kraus. rewrite map_app, !map_map. f_equal.
      - rewrite Hk at 1. rewrite map_map. apply map_ext. intros F. apply mscale_tabm.
      - simpl. rewrite mid_tabm. fold E. rewrite mscale_tabm. reflexivity. }
    rewrite Hl. rewrite <- (seq_length n 0) at 1. fold E. rewrite gram_tabm by exact HE.
    rewrite mid_tabm. fold E. apply tabm_ext_in. intros r c Hr Hc. apply in_seq in Hr. apply in_seq in Hc.
    rewrite map_app, ksum_app, map_map.
    rewrite (ksum_ext _ (fun F => (sp * sp) * ksum O (map (fun m => kconj O (F m r) * F m c) E))).
    - rewrite ksum_scale, Hg by lia. cbn [map]. unfold ksum at 1. cbn [fold_right].
      rewrite (ksum_ext _ (fun m => if Nat.eqb m r then (sq_ * sq_) * (if Nat.eqb m c then z1 else z0) else z0)).
      + unfold E. rewrite ksum_delta0 by lia. destruct (Nat.eqb r c).
        * transitivity (sp * sp + sq_ * sq_); [ring|exact Hpq].
        * ring.
      + intros m. rewrite (law_conj_mul O L), Rq. destruct (Nat.eqb m r); [rewrite cj_1|rewrite cj_0]; ring.
    - intros F. rewrite <- ksum_scale. apply ksum_ext. intros m. rewrite (law_conj_mul O L), Rp. ring.
  Qed.

  (* the adjoint of a tensor power is the tensor power of the adjoint *)
  Definition dagf (u : nat -> nat -> K) : nat -> nat -> K := fun i j => kconj O (u j i).
  Lemma kl_entry_dag : forall us r c, kconj O (kl_entry us c r) = kl_entry (map dagf us) r c.
  Proof.
    induction us as [|u us IH]; intros r c; simpl; [exact cj_1|].
    rewrite (law_conj_mul O L), IH. reflexivity.
  Qed.
  Theorem parallel_dagger n d (u : Kmat) : 0 < d -> sq d u ->
    mdagger O (spec_Parallel O n u) = spec_Parallel O n (mdagger O u).
  Proof.
    intros Hd Su. rewrite (sq_tabm d u Su). rewrite (mdagger_tabm (seq 0 d)) by (apply seq_nonempty; exact Hd).
    unfold spec_Parallel. rewrite <- !kl_tabs_repeat, !kron_list_tab by (rewrite !repeat_length; reflexivity).
    destruct (enum (repeat d n)) as [|e E'] eqn:HE; [reflexivity|]. rewrite <- HE.
    rewrite mdagger_tabm by (rewrite HE; discriminate).
    apply tabm_ext. intros r c. rewrite kl_entry_dag, map_repeat'. reflexivity.
  Qed.
  Theorem parallel_unitary n d (u : Kmat) : 0 < d -> sq d u -> mmul O u (mdagger O u) = mid O d ->
    mmul O (spec_Parallel O n u) (mdagger O (spec_Parallel O n u)) = spec_Parallel O n (mid O d).
  Proof.
    intros Hd Su Hu. rewrite (parallel_dagger n d u Hd Su).
    rewrite (parallel_mul n d u (mdagger O u) Hd Su); [rewrite Hu; reflexivity|].
    rewrite (sq_tabm d u Su), (mdagger_tabm (seq 0 d)) by (apply seq_nonempty; exact Hd). apply sq_of_tabm.
  Qed.
End More.

(* the docstring example of ArithmeticGate: Add(target_register=[2, 2], input_register=1) *)
Example arith_doc_example {K} (O : Ops K) :
  spec_Arith O [RQu [2; 2]; RConst 1] (aop_apply OpAdd)
  = Some [[k0 O; k0 O; k0 O; k1 O]; [k1 O; k0 O; k0 O; k0 O]; [k0 O; k1 O; k0 O; k0 O]; [k0 O; k0 O; k1 O; k0 O]].
Proof. reflexivity. Qed.
(* changing a classical constant is an error *)
Example arith_const_changed {K} (O : Ops K) :
  spec_Arith O [RQu [2]; RConst 1] (aop_apply OpBumpSecond) = None.
Proof. reflexivity. Qed.

(* ---------------- exact evaluation in Q(zeta_8): the Clifford table once more, and non-vacuity ---------------- *)
From Coq Require Import QArith Qcanon.
From VF Require Import Base.K8 Base.Harness.
Lemma k8_eqb_true x y : k8_eqb x y = true -> x = y.
Proof.
  destruct x, y; unfold k8_eqb; simpl. rewrite !andb_true_iff. intros [[[A B] C] D].
  apply Qc_eq_bool_correct in A. apply Qc_eq_bool_correct in B. apply Qc_eq_bool_correct in C. apply Qc_eq_bool_correct in D.
  subst. reflexivity.
Qed.
Lemma list_eqb_true {A} (e : A -> A -> bool) (He : forall x y, e x y = true -> x = y) :
  forall a b, list_eqb e a b = true -> a = b.
Proof.
  induction a as [|x a IH]; destruct b as [|y b]; simpl; try discriminate; [reflexivity|].
  rewrite andb_true_iff. intros [H1 H2]. apply He in H1. apply IH in H2. subst. reflexivity.
Qed.
Definition k8mat_eqb (a b : matrix (K:=K8)) : bool := list_eqb (list_eqb k8_eqb) a b.
Lemma k8mat_eqb_true a b : k8mat_eqb a b = true -> a = b.
Proof. apply list_eqb_true. apply list_eqb_true. exact k8_eqb_true. Qed.
Definition cliff_ok_k8 (k : nat) : bool :=
  k8mat_eqb (conj_by K8Ops (cliff_unitary K8Ops k) (pauli_mat K8Ops 0%nat))
            (signed_pauli K8Ops (fst (nth k cliff_images ((0%nat, false), (0%nat, false)))))
  && k8mat_eqb (conj_by K8Ops (cliff_unitary K8Ops k) (pauli_mat K8Ops 2%nat))
               (signed_pauli K8Ops (snd (nth k cliff_images ((0%nat, false), (0%nat, false))))).
(* finite-domain proof: the 24 cases are evaluated by vm_compute and lifted with forallb_forall *)
Theorem cliff_conj_k8 : forall k, In k (seq 0 24) -> cliff_ok_k8 k = true.
Proof. apply forallb_forall. vm_compute. reflexivity. Qed.
(* the 24 table entries are pairwise different (the table lists each Clifford once) *)
Theorem cliff_images_distinct : NoDup cliff_images.
Proof.
  repeat (constructor; [simpl; intros H; repeat (destruct H as [H|H]; [discriminate H|]); exact H|]). constructor.
Qed.

Definition zeta8 : K8 := mk8 0 1 0 0.
Definition zeta8c : K8 := mk8 0 0 0 (-(1)).
Theorem more_hyps_inhabited :
  (* units *) kmul K8Ops zeta8 zeta8c = k1 K8Ops /\ kconj K8Ops zeta8 = zeta8c
  /\ Forall (fun x => kmul K8Ops x (kconj K8Ops x) = k1 K8Ops) [k1 K8Ops; ki K8Ops; zeta8]
  /\ (* a normalised state *) ksum K8Ops (map (fun x => kmul K8Ops (kconj K8Ops x) x) [ks2 K8Ops; kmul K8Ops (ki K8Ops) (ks2 K8Ops)]) = k1 K8Ops
  /\ (* real amplitudes with sp^2 + sq^2 = 1 *) kconj K8Ops (ks2 K8Ops) = ks2 K8Ops
  /\ kadd K8Ops (kmul K8Ops (ks2 K8Ops) (ks2 K8Ops)) (kmul K8Ops (ks2 K8Ops) (ks2 K8Ops)) = k1 K8Ops
  /\ kraus_gram_n K8Ops 2 [mid K8Ops 2] = mid K8Ops 2 /\ sq 2 (mid K8Ops 2)
  /\ (* 1 <> 0 *) k1 K8Ops <> k0 K8Ops.
Proof.
  repeat split; try (apply k8_eqb_true; vm_compute; reflexivity); try (apply k8mat_eqb_true; vm_compute; reflexivity).
  - repeat constructor; apply k8_eqb_true; vm_compute; reflexivity.
  - repeat constructor.
  - intros H. apply (f_equal (fun x => Qnum (this (c0 x)))) in H. vm_compute in H. discriminate H.
Qed.
