From Coq Require Import List Arith Bool Lia.
From VF Require Import Base.RingOps Base.Mat Base.Tensor Gates.Families Sim.CtrlApply Sim.MeasureProofs Gates.CtrlValues.
Import ListNotations.

Lemma cactive_In cvals c : cactive cvals c = true <-> In c cvals.
Proof.
  unfold cactive. rewrite existsb_exists. split.
  - intros [v [Hin He]]. apply list_eqb_nat_spec in He. subst. exact Hin.
  - intro Hin. exists c. split; [exact Hin | apply list_eqb_nat_refl].
Qed.

Lemma cactive_app a b c : cactive (a ++ b) c = cactive a c || cactive b c.
Proof. unfold cactive. apply existsb_app. Qed.

Lemma eq_true_iff_eq' (x y : bool) : (x = true <-> y = true) -> x = y.
Proof. destruct x, y; intuition congruence. Qed.

Lemma In_pos_expand s : forall c, In c (pos_expand s) <-> pos_active s c = true.
Proof.
  induction s as [|vs r IH]; intro c.
  - simpl. destruct c; simpl; intuition congruence.
  - cbn [pos_expand pos_active]. rewrite in_flat_map. split.
    + intros [v [Hv Hin]]. apply in_map_iff in Hin. destruct Hin as [c' [Hc Hin]]. subst c.
      apply andb_true_intro. split.
      * apply existsb_exists. exists v. split; [exact Hv | apply Nat.eqb_refl].
      * apply IH. exact Hin.
    + destruct c as [|x c']; [discriminate|]. intro H. apply andb_prop in H. destruct H as [Hx Hr].
      apply existsb_exists in Hx. destruct Hx as [v [Hv He]]. apply Nat.eqb_eq in He. subst v.
      exists x. split; [exact Hv|]. apply in_map. apply IH. exact Hr.
Qed.

(* ProductOfSums.expand selects exactly the tuples the product of sums allows *)
Theorem pos_expand_active s c : cactive (pos_expand s) c = pos_active s c.
Proof. apply eq_true_iff_eq'. rewrite cactive_In. apply In_pos_expand. Qed.

Lemma pos_expand_length s : forall c, In c (pos_expand s) -> length c = length s.
Proof.
  induction s as [|vs r IH]; intros c H.
  - simpl in H. destruct H as [H|[]]. subst. reflexivity.
  - cbn [pos_expand] in H. apply in_flat_map in H. destruct H as [v [_ H]]. apply in_map_iff in H.
    destruct H as [c' [Hc Hin]]. subst. simpl. f_equal. apply IH. exact Hin.
Qed.

(* the ProductOfSums short-cut of `&` is the general `&` of the expansions, as lists (same order, same multiplicity) *)
Theorem pos_and_expand a b : pos_expand (pos_and a b) = sop_and (pos_expand a) (pos_expand b).
Proof.
  unfold pos_and, sop_and. induction a as [|vs r IH].
  - simpl. rewrite app_nil_r. rewrite map_id. reflexivity.
  - cbn [app pos_expand]. rewrite IH. clear IH.
    induction vs as [|v vs IHv]; [reflexivity|].
    cbn [flat_map]. rewrite flat_map_app. rewrite IHv. f_equal.
    rewrite !flat_map_concat_map. rewrite map_map. rewrite concat_map. rewrite !map_map.
    f_equal. apply map_ext. intro x. rewrite map_map. reflexivity.
Qed.

Lemma In_sop_and a b c : In c (sop_and a b) <-> exists x y, In x a /\ In y b /\ c = x ++ y.
Proof.
  unfold sop_and. rewrite in_flat_map. split.
  - intros [x [Hx H]]. apply in_map_iff in H. destruct H as [y [Hc Hy]]. exists x, y. auto.
  - intros [x [y [Hx [Hy Hc]]]]. exists x. split; [exact Hx|]. apply in_map_iff. exists y. auto.
Qed.

(* `&`: active exactly when the first n control digits satisfy the left operand and the rest the right operand *)
Theorem sop_and_active a b n c : (forall x, In x a -> length x = n) ->
  cactive (sop_and a b) c = cactive a (firstn n c) && cactive b (skipn n c).
Proof.
  intro Hlen. apply eq_true_iff_eq'. rewrite andb_true_iff, !cactive_In, In_sop_and. split.
  - intros [x [y [Hx [Hy Hc]]]]. subst c. pose proof (Hlen x Hx) as L.
    rewrite <- L at 1. rewrite <- L. rewrite firstn_app, skipn_app, Nat.sub_diag, firstn_all, skipn_all. simpl.
    rewrite app_nil_r. auto.
  - intros [H1 H2]. exists (firstn n c), (skipn n c). repeat split; auto. symmetry. apply firstn_skipn.
Qed.

(* general `|`: the union *)
Theorem sop_or_active a b c : cactive (sop_or a b) c = cactive a c || cactive b c.
Proof. apply cactive_app. Qed.

Lemma existsb_eqb_app x u v : existsb (Nat.eqb x) (u ++ v) = existsb (Nat.eqb x) u || existsb (Nat.eqb x) v.
Proof. apply existsb_app. Qed.

(* the ProductOfSums short-cut of `|` (per-qudit union) contains the union ... *)
Theorem pos_or_contains a : forall b c, length a = length b ->
  pos_active a c || pos_active b c = true -> pos_active (pos_or a b) c = true.
Proof.
  unfold pos_or. induction a as [|va a IH]; intros b c L H; destruct b as [|vb b]; try discriminate.
  - simpl in *. destruct c; simpl in *; auto.
  - destruct c as [|x c].
    + simpl in H. discriminate.
    + cbn [combine map fst snd pos_active] in *. rewrite existsb_eqb_app.
      injection L as L. apply orb_prop in H. destruct H as [H|H]; apply andb_prop in H; destruct H as [Hx Hr];
        apply andb_true_intro; split.
      * rewrite Hx. reflexivity.
      * apply IH; [exact L | rewrite Hr; reflexivity].
      * rewrite Hx. apply orb_true_r.
      * apply IH; [exact L | rewrite Hr; apply orb_true_r].
Qed.

(* ... is exactly the union on one control qudit ... *)
Theorem pos_or_one_qudit va vb c : pos_active (pos_or [va] [vb]) c = pos_active [va] c || pos_active [vb] c.
Proof.
  unfold pos_or. destruct c as [|x [|y c]]; cbn [combine map fst snd pos_active]; try reflexivity.
  - rewrite existsb_eqb_app, !andb_true_r. reflexivity.
  - rewrite !andb_false_r. reflexivity.
Qed.

(* ... and is NOT the union in general (the documented meaning of `|`): controls "00" | "11" also fire on 01 and 10 *)
Theorem pos_or_is_union_refuted : exists a b c, length a = length b /\
  pos_active (pos_or a b) c = true /\ pos_active a c || pos_active b c = false.
Proof. exists [[0]; [0]], [[1]; [1]], [0; 1]. vm_compute. auto. Qed.

(* validate: every tuple an accepted specification selects is a basis state of the control register *)
Lemma digits_lt_length c : forall shape, digits_lt c shape = true -> length c = length shape.
Proof.
  induction c as [|x c IH]; intros [|d sh] H; simpl in *; try discriminate; auto.
  apply andb_prop in H. destruct H as [_ H]. f_equal. apply IH. exact H.
Qed.

Theorem pos_valid_sound s : forall shape c, length s = length shape -> pos_valid s shape = true ->
  pos_active s c = true -> digits_lt c shape = true.
Proof.
  induction s as [|vs r IH]; intros shape c L V A; destruct shape as [|d sh]; try discriminate.
  - destruct c; simpl in *; auto; discriminate.
  - destruct c as [|x c]; [discriminate|]. cbn [pos_valid pos_active digits_lt] in *. injection L as L.
    apply andb_prop in V. destruct V as [Vv Vr]. apply andb_prop in A. destruct A as [Ax Ar].
    apply andb_true_intro. split.
    + apply existsb_exists in Ax. destruct Ax as [v [Hv He]]. apply Nat.eqb_eq in He. subst v.
      rewrite forallb_forall in Vv. apply Vv. exact Hv.
    + apply IH; assumption.
Qed.

Theorem sop_valid_sound a shape c : sop_valid a shape = true -> cactive a c = true -> digits_lt c shape = true.
Proof. unfold sop_valid. rewrite forallb_forall, cactive_In. intros H Hin. apply H. exact Hin. Qed.

(* and validate accepts exactly those: if some selected tuple is outside the register, it refuses *)
Theorem pos_valid_complete s : forall shape, length s = length shape ->
  (forall c, pos_active s c = true -> digits_lt c shape = true) -> (forall vs, In vs s -> vs <> []) -> pos_valid s shape = true.
Proof.
  induction s as [|vs r IH]; intros shape L H NE; destruct shape as [|d sh]; try discriminate; [reflexivity|].
  cbn [pos_valid]. injection L as L.
  (* some tuple of the rest, to extend *)
  assert (Hex : forall r', (forall vs, In vs r' -> vs <> []) -> exists c, pos_active r' c = true).
  { clear. induction r' as [|u r' IHr]; intro NE.
    - exists []. reflexivity.
    - destruct u as [|u0 u]; [exfalso; apply (NE []); simpl; auto|].
      destruct IHr as [c Hc]; [intros vs Hin; apply NE; simpl; auto|].
      exists (u0 :: c). cbn [pos_active existsb]. rewrite Nat.eqb_refl, Hc. reflexivity. }
  apply andb_true_intro. split.
  - apply forallb_forall. intros v Hv. destruct (Hex r) as [c Hc]; [intros u Hin; apply NE; simpl; auto|].
    specialize (H (v :: c)). cbn [pos_active digits_lt] in H.
    assert (E : existsb (Nat.eqb v) vs = true) by (apply existsb_exists; exists v; split; [exact Hv | apply Nat.eqb_refl]).
    rewrite E, Hc in H. specialize (H eq_refl). apply andb_prop in H. apply H.
  - apply IH; [exact L | | intros u Hin; apply NE; simpl; auto].
    intros c Hc. destruct vs as [|v0 vs]; [exfalso; apply (NE []); simpl; auto|].
    specialize (H (v0 :: c)). cbn [pos_active digits_lt existsb] in H. rewrite Nat.eqb_refl, Hc in H.
    specialize (H eq_refl). apply andb_prop in H. apply H.
Qed.

(* equality of control values = the same selected tuples = the same controlled block matrix *)
Theorem cv_same_iff a b : cv_same a b = true <-> (forall c, cactive a c = cactive b c).
Proof.
  unfold cv_same, cv_incl. rewrite andb_true_iff, !forallb_forall. split.
  - intros [H1 H2] c. apply eq_true_iff_eq'. rewrite !cactive_In. split; intro Hin.
    + apply cactive_In. apply H1. exact Hin.
    + apply cactive_In. apply H2. exact Hin.
  - intro H. split; intros x Hin.
    + rewrite <- H. apply cactive_In. exact Hin.
    + rewrite H. apply cactive_In. exact Hin.
Qed.

Theorem cv_same_ctrl_matrix K (O : RingOps.Ops K) cdims a b m :
  (forall c, cactive a c = cactive b c) -> ctrl_matrix O cdims a m = ctrl_matrix O cdims b m.
Proof.
  intro H. unfold ctrl_matrix. induction (enum cdims) as [|c l IH]; [reflexivity|].
  cbn [fold_right]. rewrite IH. fold (cactive a c). fold (cactive b c). rewrite H. reflexivity.
Qed.

(* is_trivial: all-ones controls *)
Theorem pos_trivial_active s c : pos_trivial s = true -> pos_active s c = list_eqb_nat c (repeat 1 (length s)).
Proof.
  revert c. induction s as [|vs r IH]; intros c H.
  - destruct c; reflexivity.
  - cbn [pos_trivial forallb] in H. apply andb_prop in H. destruct H as [Hv Hr]. apply list_eqb_nat_spec in Hv. subst vs.
    destruct c as [|x c]; [reflexivity|]. cbn [pos_active length repeat list_eqb_nat existsb]. rewrite orb_false_r.
    rewrite IH by exact Hr. reflexivity.
Qed.
