(* C03.D1: for every EigenGate family, Cirq's eigen-decomposition (regenerated table, summed as
   EigenGate._unitary_ does) equals the documented closed form, for every exponent and shift:
   generic-ring identities under r * rc = 1, hence valid in C with r = exp(i pi t/2). *)
From Coq Require Import Ring List ZArith.
From VF Require Import Base.RingOps Base.Mat Gates.EigenGate Gates.GateSpecs Generated.EigenTables.
Import ListNotations.

Section Proofs.
  Context {K : Type} (O : Ops K) (L : Laws O).
  Add Ring Kring : (law_ring O L).
  Infix "+" := (kadd O). Infix "*" := (kmul O). Infix "-" := (ksub O).
  Notation "- a" := (kopp O a).
  Notation z0 := (k0 O). Notation z1 := (k1 O). Notation hf := (khalf O). Notation ii := (ki O). Notation s2 := (ks2 O).

  Lemma half2 : (z1 + z1) * hf = z1.
  Proof. transitivity (hf + hf); [ring | exact (law_half O L)]. Qed.
  Lemma ii2 : ii * ii = - z1. Proof. exact (law_i O L). Qed.
  Lemma s22 : s2 * s2 = hf. Proof. exact (law_s2 O L). Qed.

  (* 2 is invertible, so equations may be scaled by powers of two before normalisation *)
  Lemma cancel2 a b : (z1 + z1) * a = (z1 + z1) * b -> a = b.
  Proof.
    intros H. transitivity (hf * ((z1 + z1) * a)); [ring [half2]|]. rewrite H. ring [half2].
  Qed.

  Variables r rc g : K.
  Hypothesis U : r * rc = z1.

  Ltac split_list :=
    repeat match goal with
           | |- (_ :: _) = (_ :: _) => apply (f_equal2 cons)
           | |- @nil _ = @nil _ => reflexivity
           end.
  Ltac mat_eq := cbv -[kadd kmul kopp ksub kconj k0 k1 ki khalf ks2]; split_list;
    first [ ring [U ii2 half2 s22]
          | apply cancel2; ring [U ii2 half2 s22]
          | do 2 apply cancel2; ring [U ii2 half2 s22]
          | do 3 apply cancel2; ring [U ii2 half2 s22]
          | do 4 apply cancel2; ring [U ii2 half2 s22]
          | do 6 apply cancel2; ring [U ii2 half2 s22] ].

  Theorem eig_XPow : eig_unitary O (tbl_XPow O) r rc g = spec_XPow O r rc g. Proof. mat_eq. Qed.
  Theorem eig_YPow : eig_unitary O (tbl_YPow O) r rc g = spec_YPow O r rc g. Proof. mat_eq. Qed.
  Theorem eig_ZPow : eig_unitary O (tbl_ZPow O) r rc g = spec_ZPow O r rc g. Proof. mat_eq. Qed.
  Theorem eig_HPow : eig_unitary O (tbl_HPow O) r rc g = spec_HPow O r rc g. Proof. mat_eq. Qed.
  Theorem eig_CZPow : eig_unitary O (tbl_CZPow O) r rc g = spec_CZPow O r rc g. Proof. mat_eq. Qed.
  Theorem eig_CXPow : eig_unitary O (tbl_CXPow O) r rc g = spec_CXPow O r rc g. Proof. mat_eq. Qed.
  Theorem eig_CYPow : eig_unitary O (tbl_CYPow O) r rc g = spec_CYPow O r rc g. Proof. mat_eq. Qed.
  Theorem eig_SwapPow : eig_unitary O (tbl_SwapPow O) r rc g = spec_SwapPow O r rc g. Proof. mat_eq. Qed.
  Theorem eig_ISwapPow : eig_unitary O (tbl_ISwapPow O) r rc g = spec_ISwapPow O r rc g. Proof. mat_eq. Qed.
  Theorem eig_XXPow : eig_unitary O (tbl_XXPow O) r rc g = spec_XXPow O r rc g. Proof. mat_eq. Qed.
  Theorem eig_YYPow : eig_unitary O (tbl_YYPow O) r rc g = spec_YYPow O r rc g. Proof. mat_eq. Qed.
  Theorem eig_ZZPow : eig_unitary O (tbl_ZZPow O) r rc g = spec_ZZPow O r rc g. Proof. mat_eq. Qed.
  Theorem eig_CCZPow : eig_unitary O (tbl_CCZPow O) r rc g = spec_CCZPow O r rc g. Proof. mat_eq. Qed.
  Theorem eig_CCXPow : eig_unitary O (tbl_CCXPow O) r rc g = spec_CCXPow O r rc g. Proof. mat_eq. Qed.
  Theorem eig_CCYPow : eig_unitary O (tbl_CCYPow O) r rc g = spec_CCYPow O r rc g. Proof. mat_eq. Qed.
  Theorem eig_Z4Pow : eig_unitary O (tbl_Z4Pow O) r rc g = spec_Z4Pow O r rc g. Proof. mat_eq. Qed.
  Theorem eig_X4Pow : eig_unitary O (tbl_X4Pow O) r rc g = spec_X4Pow O r rc g. Proof. mat_eq. Qed.
  Theorem eig_PI_X0X0 : eig_unitary O (tbl_PI_X0X0 O) r rc g = spec_PI O 0 false 0 false r rc g. Proof. mat_eq. Qed.
  Theorem eig_PI_X0X1 : eig_unitary O (tbl_PI_X0X1 O) r rc g = spec_PI O 0 false 0 true r rc g. Proof. mat_eq. Qed.
  Theorem eig_PI_X1X0 : eig_unitary O (tbl_PI_X1X0 O) r rc g = spec_PI O 0 true 0 false r rc g. Proof. mat_eq. Qed.
  Theorem eig_PI_X1X1 : eig_unitary O (tbl_PI_X1X1 O) r rc g = spec_PI O 0 true 0 true r rc g. Proof. mat_eq. Qed.
  Theorem eig_PI_X0Y0 : eig_unitary O (tbl_PI_X0Y0 O) r rc g = spec_PI O 0 false 1 false r rc g. Proof. mat_eq. Qed.
  Theorem eig_PI_X0Y1 : eig_unitary O (tbl_PI_X0Y1 O) r rc g = spec_PI O 0 false 1 true r rc g. Proof. mat_eq. Qed.
  Theorem eig_PI_X1Y0 : eig_unitary O (tbl_PI_X1Y0 O) r rc g = spec_PI O 0 true 1 false r rc g. Proof. mat_eq. Qed.
  Theorem eig_PI_X1Y1 : eig_unitary O (tbl_PI_X1Y1 O) r rc g = spec_PI O 0 true 1 true r rc g. Proof. mat_eq. Qed.
  Theorem eig_PI_X0Z0 : eig_unitary O (tbl_PI_X0Z0 O) r rc g = spec_PI O 0 false 2 false r rc g. Proof. mat_eq. Qed.
  Theorem eig_PI_X0Z1 : eig_unitary O (tbl_PI_X0Z1 O) r rc g = spec_PI O 0 false 2 true r rc g. Proof. mat_eq. Qed.
  Theorem eig_PI_X1Z0 : eig_unitary O (tbl_PI_X1Z0 O) r rc g = spec_PI O 0 true 2 false r rc g. Proof. mat_eq. Qed.
  Theorem eig_PI_X1Z1 : eig_unitary O (tbl_PI_X1Z1 O) r rc g = spec_PI O 0 true 2 true r rc g. Proof. mat_eq. Qed.
  Theorem eig_PI_Y0X0 : eig_unitary O (tbl_PI_Y0X0 O) r rc g = spec_PI O 1 false 0 false r rc g. Proof. mat_eq. Qed.
  Theorem eig_PI_Y0X1 : eig_unitary O (tbl_PI_Y0X1 O) r rc g = spec_PI O 1 false 0 true r rc g. Proof. mat_eq. Qed.
  Theorem eig_PI_Y1X0 : eig_unitary O (tbl_PI_Y1X0 O) r rc g = spec_PI O 1 true 0 false r rc g. Proof. mat_eq. Qed.
  Theorem eig_PI_Y1X1 : eig_unitary O (tbl_PI_Y1X1 O) r rc g = spec_PI O 1 true 0 true r rc g. Proof. mat_eq. Qed.
  Theorem eig_PI_Y0Y0 : eig_unitary O (tbl_PI_Y0Y0 O) r rc g = spec_PI O 1 false 1 false r rc g. Proof. mat_eq. Qed.
  Theorem eig_PI_Y0Y1 : eig_unitary O (tbl_PI_Y0Y1 O) r rc g = spec_PI O 1 false 1 true r rc g. Proof. mat_eq. Qed.
  Theorem eig_PI_Y1Y0 : eig_unitary O (tbl_PI_Y1Y0 O) r rc g = spec_PI O 1 true 1 false r rc g. Proof. mat_eq. Qed.
  Theorem eig_PI_Y1Y1 : eig_unitary O (tbl_PI_Y1Y1 O) r rc g = spec_PI O 1 true 1 true r rc g. Proof. mat_eq. Qed.
  Theorem eig_PI_Y0Z0 : eig_unitary O (tbl_PI_Y0Z0 O) r rc g = spec_PI O 1 false 2 false r rc g. Proof. mat_eq. Qed.
  Theorem eig_PI_Y0Z1 : eig_unitary O (tbl_PI_Y0Z1 O) r rc g = spec_PI O 1 false 2 true r rc g. Proof. mat_eq. Qed.
  Theorem eig_PI_Y1Z0 : eig_unitary O (tbl_PI_Y1Z0 O) r rc g = spec_PI O 1 true 2 false r rc g. Proof. mat_eq. Qed.
  Theorem eig_PI_Y1Z1 : eig_unitary O (tbl_PI_Y1Z1 O) r rc g = spec_PI O 1 true 2 true r rc g. Proof. mat_eq. Qed.
  Theorem eig_PI_Z0X0 : eig_unitary O (tbl_PI_Z0X0 O) r rc g = spec_PI O 2 false 0 false r rc g. Proof. mat_eq. Qed.
  Theorem eig_PI_Z0X1 : eig_unitary O (tbl_PI_Z0X1 O) r rc g = spec_PI O 2 false 0 true r rc g. Proof. mat_eq. Qed.
  Theorem eig_PI_Z1X0 : eig_unitary O (tbl_PI_Z1X0 O) r rc g = spec_PI O 2 true 0 false r rc g. Proof. mat_eq. Qed.
  Theorem eig_PI_Z1X1 : eig_unitary O (tbl_PI_Z1X1 O) r rc g = spec_PI O 2 true 0 true r rc g. Proof. mat_eq. Qed.
  Theorem eig_PI_Z0Y0 : eig_unitary O (tbl_PI_Z0Y0 O) r rc g = spec_PI O 2 false 1 false r rc g. Proof. mat_eq. Qed.
  Theorem eig_PI_Z0Y1 : eig_unitary O (tbl_PI_Z0Y1 O) r rc g = spec_PI O 2 false 1 true r rc g. Proof. mat_eq. Qed.
  Theorem eig_PI_Z1Y0 : eig_unitary O (tbl_PI_Z1Y0 O) r rc g = spec_PI O 2 true 1 false r rc g. Proof. mat_eq. Qed.
  Theorem eig_PI_Z1Y1 : eig_unitary O (tbl_PI_Z1Y1 O) r rc g = spec_PI O 2 true 1 true r rc g. Proof. mat_eq. Qed.
  Theorem eig_PI_Z0Z0 : eig_unitary O (tbl_PI_Z0Z0 O) r rc g = spec_PI O 2 false 2 false r rc g. Proof. mat_eq. Qed.
  Theorem eig_PI_Z0Z1 : eig_unitary O (tbl_PI_Z0Z1 O) r rc g = spec_PI O 2 false 2 true r rc g. Proof. mat_eq. Qed.
  Theorem eig_PI_Z1Z0 : eig_unitary O (tbl_PI_Z1Z0 O) r rc g = spec_PI O 2 true 2 false r rc g. Proof. mat_eq. Qed.
  Theorem eig_PI_Z1Z1 : eig_unitary O (tbl_PI_Z1Z1 O) r rc g = spec_PI O 2 true 2 true r rc g. Proof. mat_eq. Qed.
End Proofs.
