(* Control-value specifications (model of cirq-core/cirq/ops/control_values.py).
   `ProductOfSums` stores, per control qudit, the allowed values (`_qubit_sums`); `SumOfProducts` stores the allowed tuples
   (`_conjunctions`, a sorted set: only membership matters, which is what `cactive` of Sim/CtrlApply.v and `ctrl_matrix` of
   Gates/Families.v test).  `pos_expand` is `ProductOfSums.expand` (itertools.product, first factor slowest), `sop_and` is
   `AbstractControlValues.__and__` (x + y over itertools.product of the two expansions), `pos_and` its ProductOfSums
   short-cut (concatenate the per-qudit sums), `sop_or` is `AbstractControlValues.__or__` (both expansions), `pos_or` the
   ProductOfSums short-cut of `__or__` (per-qudit union), `pos_valid` / `sop_valid` are the two `validate` methods.
   Definitions only; the theorems are in Gates/CtrlValuesProofs.v. *)
From Coq Require Import List Arith Bool.
From VF Require Import Gates.Families Sim.CtrlApply.
Import ListNotations.

Fixpoint pos_expand (s : list (list nat)) : list (list nat) :=
  match s with
  | [] => [[]]
  | vs :: r => flat_map (fun v => map (cons v) (pos_expand r)) vs
  end.

(* the product-of-sums predicate itself: every control digit is one of the values allowed for its qudit *)
Fixpoint pos_active (s : list (list nat)) (c : list nat) : bool :=
  match s, c with
  | [], [] => true
  | vs :: r, x :: c' => existsb (Nat.eqb x) vs && pos_active r c'
  | _, _ => false
  end.

Definition sop_and (a b : list (list nat)) : list (list nat) := flat_map (fun x => map (fun y => x ++ y) b) a.
Definition pos_and (a b : list (list nat)) : list (list nat) := a ++ b.
Definition sop_or (a b : list (list nat)) : list (list nat) := a ++ b.
Definition pos_or (a b : list (list nat)) : list (list nat) := map (fun p => fst p ++ snd p) (combine a b).

(* ProductOfSums.validate: zip of the sums with the shape (no length test); SumOfProducts.validate: length test, then every digit *)
Fixpoint pos_valid (s : list (list nat)) (shape : list nat) : bool :=
  match s, shape with
  | vs :: r, d :: sh => forallb (fun v => v <? d) vs && pos_valid r sh
  | _, _ => true
  end.
Fixpoint digits_lt (c shape : list nat) : bool :=
  match c, shape with
  | [], [] => true
  | x :: c', d :: sh => (x <? d) && digits_lt c' sh
  | _, _ => false
  end.
Definition sop_valid (a : list (list nat)) (shape : list nat) : bool := forallb (fun c => digits_lt c shape) a.

(* `_value_equality_values_` is the expansion as a sorted set: equal iff the same tuples *)
Definition cv_incl (a b : list (list nat)) : bool := forallb (fun x => cactive b x) a.
Definition cv_same (a b : list (list nat)) : bool := cv_incl a b && cv_incl b a.
(* is_trivial *)
Definition pos_trivial (s : list (list nat)) : bool := forallb (fun vs => list_eqb_nat vs [1]) s.
