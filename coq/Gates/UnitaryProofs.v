(* The documented closed forms of the gate families are UNITARY for every exponent and every global shift: with r = exp(i pi t / 2),
   rc its conjugate and inverse, g the global phase and gc its conjugate and inverse, U U^dagger = 1 as an identity of the generic ring
   with conjugation (so it holds over C).  Together with C03 (cirq.unitary = the closed form) this is "every gate of the library has a
   unitary matrix"; together with the power law of C08 it gives U(t)^dagger = U(-t). *)
From Coq Require Import Ring List ZArith.
From VF Require Import Base.RingOps Base.Mat Base.Tensor Gates.GateSpecs Gates.MatTac.
Import ListNotations.

Section Unitary.
  Context {K : Type} (O : Ops K) (L : Laws O).
  Add Ring Kring : (law_ring O L).
  Infix "+" := (kadd O). Infix "*" := (kmul O). Infix "-" := (ksub O).
  Notation "- a" := (kopp O a).
  Notation z0 := (k0 O). Notation z1 := (k1 O). Notation hf := (khalf O). Notation ii := (ki O). Notation s2 := (ks2 O).
  Notation cj := (kconj O).

  Lemma conj_0 : cj z0 = z0.
  Proof.
    assert (H : cj z0 + cj z0 = cj z0) by (rewrite <- (law_conj_add O L); f_equal; ring).
    transitivity (cj z0 + cj z0 - cj z0); [ring | rewrite H; ring].
  Qed.
  Lemma conj_opp a : cj (- a) = - cj a.
  Proof.
    assert (H : cj a + cj (- a) = z0) by (rewrite <- (law_conj_add O L); replace (a + - a) with z0 by ring; exact conj_0).
    transitivity (cj a + cj (- a) - cj a); [ring | rewrite H; ring].
  Qed.
  Lemma conj_sub a b : cj (a - b) = cj a - cj b.
  Proof. replace (a - b) with (a + - b) by ring. rewrite (law_conj_add O L), conj_opp. ring. Qed.
  Lemma half2u : (z1 + z1) * hf = z1.
  Proof. transitivity (hf + hf); [ring | exact (law_half O L)]. Qed.

  Definition unitary_law (n : nat) (U : matrix (K:=K)) : Prop := mmul O U (mdagger O U) = mid O n.
End Unitary.

Definition unit_pair {K} (O : Ops K) (u uc : K) : Prop := kconj O u = uc /\ kconj O uc = u /\ kmul O u uc = k1 O.

Section UnitaryMore.
  Context {K : Type} (O : Ops K) (L : Laws O).
  Add Ring Kring3 : (law_ring O L).
  Theorem unitary_XPow r rc g gc : unit_pair O r rc -> unit_pair O g gc -> unitary_law O 2 (spec_XPow O r rc g).
  Proof.
    intros [C0 [D0 U0]] [C1 [D1 U1]]. unfold unitary_law.
    mat_entries ltac:(repeat first [ rewrite (law_conj_add O L) | rewrite (law_conj_mul O L) | rewrite (conj_opp O L) | rewrite (conj_sub O L)
                                   | rewrite (law_conj_i O L) | rewrite (law_conj_half O L) | rewrite (law_conj_s2 O L) | rewrite (law_conj_1 O L)
                                   | rewrite (conj_0 O L) | rewrite C0 | rewrite D0 | rewrite C1 | rewrite D1 ];
                     ring [U0 U1 (half2u O L) (law_i O L) (law_s2 O L)]).
  Qed.
  Theorem unitary_YPow r rc g gc : unit_pair O r rc -> unit_pair O g gc -> unitary_law O 2 (spec_YPow O r rc g).
  Proof.
    intros [C0 [D0 U0]] [C1 [D1 U1]]. unfold unitary_law.
    mat_entries ltac:(repeat first [ rewrite (law_conj_add O L) | rewrite (law_conj_mul O L) | rewrite (conj_opp O L) | rewrite (conj_sub O L)
                                   | rewrite (law_conj_i O L) | rewrite (law_conj_half O L) | rewrite (law_conj_s2 O L) | rewrite (law_conj_1 O L)
                                   | rewrite (conj_0 O L) | rewrite C0 | rewrite D0 | rewrite C1 | rewrite D1 ];
                     ring [U0 U1 (half2u O L) (law_i O L) (law_s2 O L)]).
  Qed.
  Theorem unitary_ZPow r rc g gc : unit_pair O r rc -> unit_pair O g gc -> unitary_law O 2 (spec_ZPow O r rc g).
  Proof.
    intros [C0 [D0 U0]] [C1 [D1 U1]]. unfold unitary_law.
    mat_entries ltac:(repeat first [ rewrite (law_conj_add O L) | rewrite (law_conj_mul O L) | rewrite (conj_opp O L) | rewrite (conj_sub O L)
                                   | rewrite (law_conj_i O L) | rewrite (law_conj_half O L) | rewrite (law_conj_s2 O L) | rewrite (law_conj_1 O L)
                                   | rewrite (conj_0 O L) | rewrite C0 | rewrite D0 | rewrite C1 | rewrite D1 ];
                     ring [U0 U1 (half2u O L) (law_i O L) (law_s2 O L)]).
  Qed.
  Theorem unitary_HPow r rc g gc : unit_pair O r rc -> unit_pair O g gc -> unitary_law O 2 (spec_HPow O r rc g).
  Proof.
    intros [C0 [D0 U0]] [C1 [D1 U1]]. unfold unitary_law.
    mat_entries ltac:(repeat first [ rewrite (law_conj_add O L) | rewrite (law_conj_mul O L) | rewrite (conj_opp O L) | rewrite (conj_sub O L)
                                   | rewrite (law_conj_i O L) | rewrite (law_conj_half O L) | rewrite (law_conj_s2 O L) | rewrite (law_conj_1 O L)
                                   | rewrite (conj_0 O L) | rewrite C0 | rewrite D0 | rewrite C1 | rewrite D1 ];
                     ring [U0 U1 (half2u O L) (law_i O L) (law_s2 O L)]).
  Qed.
  Theorem unitary_CZPow r rc g gc : unit_pair O r rc -> unit_pair O g gc -> unitary_law O 4 (spec_CZPow O r rc g).
  Proof.
    intros [C0 [D0 U0]] [C1 [D1 U1]]. unfold unitary_law.
    mat_entries ltac:(repeat first [ rewrite (law_conj_add O L) | rewrite (law_conj_mul O L) | rewrite (conj_opp O L) | rewrite (conj_sub O L)
                                   | rewrite (law_conj_i O L) | rewrite (law_conj_half O L) | rewrite (law_conj_s2 O L) | rewrite (law_conj_1 O L)
                                   | rewrite (conj_0 O L) | rewrite C0 | rewrite D0 | rewrite C1 | rewrite D1 ];
                     ring [U0 U1 (half2u O L) (law_i O L) (law_s2 O L)]).
  Qed.
  Theorem unitary_CXPow r rc g gc : unit_pair O r rc -> unit_pair O g gc -> unitary_law O 4 (spec_CXPow O r rc g).
  Proof.
    intros [C0 [D0 U0]] [C1 [D1 U1]]. unfold unitary_law.
    mat_entries ltac:(repeat first [ rewrite (law_conj_add O L) | rewrite (law_conj_mul O L) | rewrite (conj_opp O L) | rewrite (conj_sub O L)
                                   | rewrite (law_conj_i O L) | rewrite (law_conj_half O L) | rewrite (law_conj_s2 O L) | rewrite (law_conj_1 O L)
                                   | rewrite (conj_0 O L) | rewrite C0 | rewrite D0 | rewrite C1 | rewrite D1 ];
                     ring [U0 U1 (half2u O L) (law_i O L) (law_s2 O L)]).
  Qed.
  Theorem unitary_CYPow r rc g gc : unit_pair O r rc -> unit_pair O g gc -> unitary_law O 4 (spec_CYPow O r rc g).
  Proof.
    intros [C0 [D0 U0]] [C1 [D1 U1]]. unfold unitary_law.
    mat_entries ltac:(repeat first [ rewrite (law_conj_add O L) | rewrite (law_conj_mul O L) | rewrite (conj_opp O L) | rewrite (conj_sub O L)
                                   | rewrite (law_conj_i O L) | rewrite (law_conj_half O L) | rewrite (law_conj_s2 O L) | rewrite (law_conj_1 O L)
                                   | rewrite (conj_0 O L) | rewrite C0 | rewrite D0 | rewrite C1 | rewrite D1 ];
                     ring [U0 U1 (half2u O L) (law_i O L) (law_s2 O L)]).
  Qed.
  Theorem unitary_SwapPow r rc g gc : unit_pair O r rc -> unit_pair O g gc -> unitary_law O 4 (spec_SwapPow O r rc g).
  Proof.
    intros [C0 [D0 U0]] [C1 [D1 U1]]. unfold unitary_law.
    mat_entries ltac:(repeat first [ rewrite (law_conj_add O L) | rewrite (law_conj_mul O L) | rewrite (conj_opp O L) | rewrite (conj_sub O L)
                                   | rewrite (law_conj_i O L) | rewrite (law_conj_half O L) | rewrite (law_conj_s2 O L) | rewrite (law_conj_1 O L)
                                   | rewrite (conj_0 O L) | rewrite C0 | rewrite D0 | rewrite C1 | rewrite D1 ];
                     ring [U0 U1 (half2u O L) (law_i O L) (law_s2 O L)]).
  Qed.
  Theorem unitary_ISwapPow r rc g gc : unit_pair O r rc -> unit_pair O g gc -> unitary_law O 4 (spec_ISwapPow O r rc g).
  Proof.
    intros [C0 [D0 U0]] [C1 [D1 U1]]. unfold unitary_law.
    mat_entries ltac:(repeat first [ rewrite (law_conj_add O L) | rewrite (law_conj_mul O L) | rewrite (conj_opp O L) | rewrite (conj_sub O L)
                                   | rewrite (law_conj_i O L) | rewrite (law_conj_half O L) | rewrite (law_conj_s2 O L) | rewrite (law_conj_1 O L)
                                   | rewrite (conj_0 O L) | rewrite C0 | rewrite D0 | rewrite C1 | rewrite D1 ];
                     ring [U0 U1 (half2u O L) (law_i O L) (law_s2 O L)]).
  Qed.
  Theorem unitary_XXPow r rc g gc : unit_pair O r rc -> unit_pair O g gc -> unitary_law O 4 (spec_XXPow O r rc g).
  Proof.
    intros [C0 [D0 U0]] [C1 [D1 U1]]. unfold unitary_law.
    mat_entries ltac:(repeat first [ rewrite (law_conj_add O L) | rewrite (law_conj_mul O L) | rewrite (conj_opp O L) | rewrite (conj_sub O L)
                                   | rewrite (law_conj_i O L) | rewrite (law_conj_half O L) | rewrite (law_conj_s2 O L) | rewrite (law_conj_1 O L)
                                   | rewrite (conj_0 O L) | rewrite C0 | rewrite D0 | rewrite C1 | rewrite D1 ];
                     ring [U0 U1 (half2u O L) (law_i O L) (law_s2 O L)]).
  Qed.
  Theorem unitary_YYPow r rc g gc : unit_pair O r rc -> unit_pair O g gc -> unitary_law O 4 (spec_YYPow O r rc g).
  Proof.
    intros [C0 [D0 U0]] [C1 [D1 U1]]. unfold unitary_law.
    mat_entries ltac:(repeat first [ rewrite (law_conj_add O L) | rewrite (law_conj_mul O L) | rewrite (conj_opp O L) | rewrite (conj_sub O L)
                                   | rewrite (law_conj_i O L) | rewrite (law_conj_half O L) | rewrite (law_conj_s2 O L) | rewrite (law_conj_1 O L)
                                   | rewrite (conj_0 O L) | rewrite C0 | rewrite D0 | rewrite C1 | rewrite D1 ];
                     ring [U0 U1 (half2u O L) (law_i O L) (law_s2 O L)]).
  Qed.
  Theorem unitary_ZZPow r rc g gc : unit_pair O r rc -> unit_pair O g gc -> unitary_law O 4 (spec_ZZPow O r rc g).
  Proof.
    intros [C0 [D0 U0]] [C1 [D1 U1]]. unfold unitary_law.
    mat_entries ltac:(repeat first [ rewrite (law_conj_add O L) | rewrite (law_conj_mul O L) | rewrite (conj_opp O L) | rewrite (conj_sub O L)
                                   | rewrite (law_conj_i O L) | rewrite (law_conj_half O L) | rewrite (law_conj_s2 O L) | rewrite (law_conj_1 O L)
                                   | rewrite (conj_0 O L) | rewrite C0 | rewrite D0 | rewrite C1 | rewrite D1 ];
                     ring [U0 U1 (half2u O L) (law_i O L) (law_s2 O L)]).
  Qed.
  Theorem unitary_CCZPow r rc g gc : unit_pair O r rc -> unit_pair O g gc -> unitary_law O 8 (spec_CCZPow O r rc g).
  Proof.
    intros [C0 [D0 U0]] [C1 [D1 U1]]. unfold unitary_law.
    mat_entries ltac:(repeat first [ rewrite (law_conj_add O L) | rewrite (law_conj_mul O L) | rewrite (conj_opp O L) | rewrite (conj_sub O L)
                                   | rewrite (law_conj_i O L) | rewrite (law_conj_half O L) | rewrite (law_conj_s2 O L) | rewrite (law_conj_1 O L)
                                   | rewrite (conj_0 O L) | rewrite C0 | rewrite D0 | rewrite C1 | rewrite D1 ];
                     ring [U0 U1 (half2u O L) (law_i O L) (law_s2 O L)]).
  Qed.
  Theorem unitary_CCXPow r rc g gc : unit_pair O r rc -> unit_pair O g gc -> unitary_law O 8 (spec_CCXPow O r rc g).
  Proof.
    intros [C0 [D0 U0]] [C1 [D1 U1]]. unfold unitary_law.
    mat_entries ltac:(repeat first [ rewrite (law_conj_add O L) | rewrite (law_conj_mul O L) | rewrite (conj_opp O L) | rewrite (conj_sub O L)
                                   | rewrite (law_conj_i O L) | rewrite (law_conj_half O L) | rewrite (law_conj_s2 O L) | rewrite (law_conj_1 O L)
                                   | rewrite (conj_0 O L) | rewrite C0 | rewrite D0 | rewrite C1 | rewrite D1 ];
                     ring [U0 U1 (half2u O L) (law_i O L) (law_s2 O L)]).
  Qed.
  Theorem unitary_CCYPow r rc g gc : unit_pair O r rc -> unit_pair O g gc -> unitary_law O 8 (spec_CCYPow O r rc g).
  Proof.
    intros [C0 [D0 U0]] [C1 [D1 U1]]. unfold unitary_law.
    mat_entries ltac:(repeat first [ rewrite (law_conj_add O L) | rewrite (law_conj_mul O L) | rewrite (conj_opp O L) | rewrite (conj_sub O L)
                                   | rewrite (law_conj_i O L) | rewrite (law_conj_half O L) | rewrite (law_conj_s2 O L) | rewrite (law_conj_1 O L)
                                   | rewrite (conj_0 O L) | rewrite C0 | rewrite D0 | rewrite C1 | rewrite D1 ];
                     ring [U0 U1 (half2u O L) (law_i O L) (law_s2 O L)]).
  Qed.
  Theorem unitary_Z4Pow r rc g gc : unit_pair O r rc -> unit_pair O g gc -> unitary_law O 4 (spec_Z4Pow O r rc g).
  Proof.
    intros [C0 [D0 U0]] [C1 [D1 U1]]. unfold unitary_law.
    mat_entries ltac:(repeat first [ rewrite (law_conj_add O L) | rewrite (law_conj_mul O L) | rewrite (conj_opp O L) | rewrite (conj_sub O L)
                                   | rewrite (law_conj_i O L) | rewrite (law_conj_half O L) | rewrite (law_conj_s2 O L) | rewrite (law_conj_1 O L)
                                   | rewrite (conj_0 O L) | rewrite C0 | rewrite D0 | rewrite C1 | rewrite D1 ];
                     ring [U0 U1 (half2u O L) (law_i O L) (law_s2 O L)]).
  Qed.
  Theorem unitary_FSim u uc v vc : unit_pair O u uc -> unit_pair O v vc -> unitary_law O 4 (spec_FSim O u uc v vc).
  Proof.
    intros [C0 [D0 U0]] [C1 [D1 U1]]. unfold unitary_law.
    mat_entries ltac:(repeat first [ rewrite (law_conj_add O L) | rewrite (law_conj_mul O L) | rewrite (conj_opp O L) | rewrite (conj_sub O L)
                                   | rewrite (law_conj_i O L) | rewrite (law_conj_half O L) | rewrite (law_conj_s2 O L) | rewrite (law_conj_1 O L)
                                   | rewrite (conj_0 O L) | rewrite C0 | rewrite D0 | rewrite C1 | rewrite D1 ];
                     ring [U0 U1 (half2u O L) (law_i O L) (law_s2 O L)]).
  Qed.
  Theorem unitary_PhasedX f fc r rc g gc : unit_pair O f fc -> unit_pair O r rc -> unit_pair O g gc -> unitary_law O 2 (spec_PhasedX O f fc r rc g).
  Proof.
    intros [C0 [D0 U0]] [C1 [D1 U1]] [C2 [D2 U2]]. unfold unitary_law.
    mat_entries ltac:(repeat first [ rewrite (law_conj_add O L) | rewrite (law_conj_mul O L) | rewrite (conj_opp O L) | rewrite (conj_sub O L)
                                   | rewrite (law_conj_i O L) | rewrite (law_conj_half O L) | rewrite (law_conj_s2 O L) | rewrite (law_conj_1 O L)
                                   | rewrite (conj_0 O L) | rewrite C0 | rewrite D0 | rewrite C1 | rewrite D1 | rewrite C2 | rewrite D2 ];
                     ring [U0 U1 U2 (half2u O L) (law_i O L) (law_s2 O L)]).
  Qed.
  Theorem unitary_PhasedXZ a ac fz fzc r rc : unit_pair O a ac -> unit_pair O fz fzc -> unit_pair O r rc -> unitary_law O 2 (spec_PhasedXZ O a ac fz fzc r rc).
  Proof.
    intros [C0 [D0 U0]] [C1 [D1 U1]] [C2 [D2 U2]]. unfold unitary_law.
    mat_entries ltac:(repeat first [ rewrite (law_conj_add O L) | rewrite (law_conj_mul O L) | rewrite (conj_opp O L) | rewrite (conj_sub O L)
                                   | rewrite (law_conj_i O L) | rewrite (law_conj_half O L) | rewrite (law_conj_s2 O L) | rewrite (law_conj_1 O L)
                                   | rewrite (conj_0 O L) | rewrite C0 | rewrite D0 | rewrite C1 | rewrite D1 | rewrite C2 | rewrite D2 ];
                     ring [U0 U1 U2 (half2u O L) (law_i O L) (law_s2 O L)]).
  Qed.
  Theorem unitary_PhasedISwap f fc r rc g gc : unit_pair O f fc -> unit_pair O r rc -> unit_pair O g gc -> unitary_law O 4 (spec_PhasedISwap O f fc r rc g).
  Proof.
    intros [C0 [D0 U0]] [C1 [D1 U1]] [C2 [D2 U2]]. unfold unitary_law.
    mat_entries ltac:(repeat first [ rewrite (law_conj_add O L) | rewrite (law_conj_mul O L) | rewrite (conj_opp O L) | rewrite (conj_sub O L)
                                   | rewrite (law_conj_i O L) | rewrite (law_conj_half O L) | rewrite (law_conj_s2 O L) | rewrite (law_conj_1 O L)
                                   | rewrite (conj_0 O L) | rewrite C0 | rewrite D0 | rewrite C1 | rewrite D1 | rewrite C2 | rewrite D2 ];
                     ring [U0 U1 U2 (half2u O L) (law_i O L) (law_s2 O L)]).
  Qed.
  Theorem unitary_GPI p pc : unit_pair O p pc -> unitary_law O 2 (spec_GPI O p pc).
  Proof.
    intros [C0 [D0 U0]]. unfold unitary_law.
    mat_entries ltac:(repeat first [ rewrite (law_conj_add O L) | rewrite (law_conj_mul O L) | rewrite (conj_opp O L) | rewrite (conj_sub O L)
                                   | rewrite (law_conj_i O L) | rewrite (law_conj_half O L) | rewrite (law_conj_s2 O L) | rewrite (law_conj_1 O L)
                                   | rewrite (conj_0 O L) | rewrite C0 | rewrite D0 ];
                     ring [U0 (half2u O L) (law_i O L) (law_s2 O L)]).
  Qed.
  Theorem unitary_GPI2 p pc : unit_pair O p pc -> unitary_law O 2 (spec_GPI2 O p pc).
  Proof.
    intros [C0 [D0 U0]]. unfold unitary_law.
    mat_entries ltac:(repeat first [ rewrite (law_conj_add O L) | rewrite (law_conj_mul O L) | rewrite (conj_opp O L) | rewrite (conj_sub O L)
                                   | rewrite (law_conj_i O L) | rewrite (law_conj_half O L) | rewrite (law_conj_s2 O L) | rewrite (law_conj_1 O L)
                                   | rewrite (conj_0 O L) | rewrite C0 | rewrite D0 ];
                     ring [U0 (half2u O L) (law_i O L) (law_s2 O L)]).
  Qed.
  Theorem unitary_IonqMS a ac b bc r rc : unit_pair O a ac -> unit_pair O b bc -> unit_pair O r rc -> unitary_law O 4 (spec_IonqMS O a ac b bc r rc).
  Proof.
    intros [C0 [D0 U0]] [C1 [D1 U1]] [C2 [D2 U2]]. unfold unitary_law.
    mat_entries ltac:(repeat first [ rewrite (law_conj_add O L) | rewrite (law_conj_mul O L) | rewrite (conj_opp O L) | rewrite (conj_sub O L)
                                   | rewrite (law_conj_i O L) | rewrite (law_conj_half O L) | rewrite (law_conj_s2 O L) | rewrite (law_conj_1 O L)
                                   | rewrite (conj_0 O L) | rewrite C0 | rewrite D0 | rewrite C1 | rewrite D1 | rewrite C2 | rewrite D2 ];
                     ring [U0 U1 U2 (half2u O L) (law_i O L) (law_s2 O L)]).
  Qed.
  Theorem unitary_IonqZZ r rc : unit_pair O r rc -> unitary_law O 4 (spec_IonqZZ O r rc).
  Proof.
    intros [C0 [D0 U0]]. unfold unitary_law.
    mat_entries ltac:(repeat first [ rewrite (law_conj_add O L) | rewrite (law_conj_mul O L) | rewrite (conj_opp O L) | rewrite (conj_sub O L)
                                   | rewrite (law_conj_i O L) | rewrite (law_conj_half O L) | rewrite (law_conj_s2 O L) | rewrite (law_conj_1 O L)
                                   | rewrite (conj_0 O L) | rewrite C0 | rewrite D0 ];
                     ring [U0 (half2u O L) (law_i O L) (law_s2 O L)]).
  Qed.
  Theorem unitary_PhasedFSim u uc ze zec ch chc ga gac ph phc : unit_pair O u uc -> unit_pair O ze zec -> unit_pair O ch chc -> unit_pair O ga gac -> unit_pair O ph phc -> unitary_law O 4 (spec_PhasedFSim O u uc ze zec ch chc ga gac ph phc).
  Proof.
    intros [C0 [D0 U0]] [C1 [D1 U1]] [C2 [D2 U2]] [C3 [D3 U3]] [C4 [D4 U4]]. unfold unitary_law.
    mat_entries ltac:(repeat first [ rewrite (law_conj_add O L) | rewrite (law_conj_mul O L) | rewrite (conj_opp O L) | rewrite (conj_sub O L)
                                   | rewrite (law_conj_i O L) | rewrite (law_conj_half O L) | rewrite (law_conj_s2 O L) | rewrite (law_conj_1 O L)
                                   | rewrite (conj_0 O L) | rewrite C0 | rewrite D0 | rewrite C1 | rewrite D1 | rewrite C2 | rewrite D2 | rewrite C3 | rewrite D3 | rewrite C4 | rewrite D4 ];
                     ring [U0 U1 U2 U3 U4 (half2u O L) (law_i O L) (law_s2 O L)]).
  Qed.
  Theorem unitary_X4Pow r rc g gc : unit_pair O r rc -> unit_pair O g gc -> unitary_law O 4 (spec_X4Pow O r rc g).
  Proof.
    intros [C0 [D0 U0]] [C1 [D1 U1]]. unfold unitary_law.
    mat_entries ltac:(repeat first [ rewrite (law_conj_add O L) | rewrite (law_conj_mul O L) | rewrite (conj_opp O L) | rewrite (conj_sub O L)
                                   | rewrite (law_conj_i O L) | rewrite (law_conj_half O L) | rewrite (law_conj_s2 O L) | rewrite (law_conj_1 O L)
                                   | rewrite (conj_0 O L) | rewrite C0 | rewrite D0 | rewrite C1 | rewrite D1 ];
                     ring [U0 U1 (half2u O L) (law_i O L) (law_s2 O L)]).
  Qed.
End UnitaryMore.
