(* The Choi matrix computed from Kraus operators (Cirq's vec(K) vec(K)^dagger) is the Choi matrix of the
   definition, is the reshuffled superoperator, is Hermitian, and acts on operators as the Kraus operators do.
   Stated for a channel with two generic single-qubit Kraus operators (eight free ring elements). *)
From Coq Require Import Ring List.
From VF Require Import Base.RingOps Base.Mat Gates.Channels Gates.MatTac Gates.ChannelProofs Gates.Choi Base.K8.
Import ListNotations.

Section CH.
  Context {K : Type} (O : Ops K) (L : Laws O).
  Add Ring Kring2 : (law_ring O L).
  Ltac cn := repeat first [ rewrite (law_conj_mul O L) | rewrite (law_conj_add O L) | rewrite (cj_opp O L)
                          | rewrite (law_conj_invol O L) | rewrite (cj_1 O L) | rewrite (cj_0 O L) ].
  Variables a b c d a' b' c' d' : K.
  Let k1m : matrix := [[a; b]; [c; d]].
  Let k2m : matrix := [[a'; b']; [c'; d']].
  Theorem choi_is_definition : kraus_choi O 4 [k1m; k2m] = choi_def O 2 [k1m; k2m].
  Proof. mat_entries ltac:(cn; ring). Qed.
  Theorem choi_reshuffles_superop : kraus_choi O 4 [k1m; k2m] = reshuffle O 2 (kraus_superop O 4 [k1m; k2m]).
  Proof. mat_entries ltac:(cn; ring). Qed.
  Theorem superop_reshuffles_choi : kraus_superop O 4 [k1m; k2m] = reshuffle O 2 (kraus_choi O 4 [k1m; k2m]).
  Proof. mat_entries ltac:(cn; ring). Qed.
  Theorem choi_hermitian : mdagger O (kraus_choi O 4 [k1m; k2m]) = kraus_choi O 4 [k1m; k2m].
  Proof. mat_entries ltac:(cn; ring). Qed.
  Variables r00 r01 r10 r11 : K.
  Theorem choi_acts_as_kraus :
    choi_apply O 2 (kraus_choi O 4 [k1m; k2m]) [[r00; r01]; [r10; r11]] = kraus_apply O [k1m; k2m] [[r00; r01]; [r10; r11]].
  Proof. mat_entries ltac:(cn; ring). Qed.
End CH.

(* the entrywise conjugate (= transpose) of a Choi matrix is in general another channel's Choi matrix:
   for the phase gate S = diag(1, i) it differs from the Choi matrix of S *)
Theorem choi_conj_differs : exists k : matrix (K:=K8),
  mconj K8Ops (kraus_choi K8Ops 4 [k]) <> kraus_choi K8Ops 4 [k].
Proof.
  exists [[k1 K8Ops; k0 K8Ops]; [k0 K8Ops; ki K8Ops]]. vm_compute. discriminate.
Qed.
