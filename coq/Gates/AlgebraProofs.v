(* C08.D1/D3/D4: gate algebra as generic-ring identities over the regenerated eigen tables.
   - powers add: U(r1,g1) * U(r2,g2) = U(r1 r2, g1 g2)   (so G**a**b, inverse, "powers add")
   - controlled overrides: C(X^t) = CX^t etc. exactly when the global shift is zero
   - phase_by: Z^p X^t Z^-p = PhasedX(p, t) *)
From Coq Require Import Ring List ZArith.
From VF Require Import Base.RingOps Base.Mat Base.Tensor Gates.EigenGate Gates.GateSpecs Generated.EigenTables
  Gates.Families Gates.MatTac.
Import ListNotations.

Section Algebra.
  Context {K : Type} (O : Ops K) (L : Laws O).
  Add Ring Kring : (law_ring O L).
  Infix "+" := (kadd O). Infix "*" := (kmul O). Infix "-" := (ksub O).
  Notation "- a" := (kopp O a).
  Notation z0 := (k0 O). Notation z1 := (k1 O). Notation hf := (khalf O). Notation ii := (ki O). Notation s2 := (ks2 O).

  Lemma half2' : (z1 + z1) * hf = z1.
  Proof. transitivity (hf + hf); [ring | exact (law_half O L)]. Qed.
  Lemma ii2' : ii * ii = - z1. Proof. exact (law_i O L). Qed.
  Lemma s22' : s2 * s2 = hf. Proof. exact (law_s2 O L). Qed.
  Lemma cancel2' a b : (z1 + z1) * a = (z1 + z1) * b -> a = b.
  Proof.
    intros H. transitivity (hf * ((z1 + z1) * a)); [ring [half2']|]. rewrite H. ring [half2'].
  Qed.

  Section Pow.
    Variables r1 rc1 g1 r2 rc2 g2 : K.
    Ltac close := first [ ring [ii2' half2' s22']
                        | apply cancel2'; ring [ii2' half2' s22']
                        | do 2 apply cancel2'; ring [ii2' half2' s22']
                        | do 3 apply cancel2'; ring [ii2' half2' s22']
                        | do 4 apply cancel2'; ring [ii2' half2' s22']
                        | do 6 apply cancel2'; ring [ii2' half2' s22']
                        | do 8 apply cancel2'; ring [ii2' half2' s22'] ].
    Definition pow_law (tbl : list (Z * matrix (K:=K))) : Prop :=
      mmul O (eig_unitary O tbl r1 rc1 g1) (eig_unitary O tbl r2 rc2 g2)
      = eig_unitary O tbl (r1 * r2) (rc1 * rc2) (g1 * g2).
    Theorem pow_XPow : pow_law (tbl_XPow O). Proof. unfold pow_law. mat_entries close. Qed.
    Theorem pow_YPow : pow_law (tbl_YPow O). Proof. unfold pow_law. mat_entries close. Qed.
    Theorem pow_ZPow : pow_law (tbl_ZPow O). Proof. unfold pow_law. mat_entries close. Qed.
    Theorem pow_HPow : pow_law (tbl_HPow O). Proof. unfold pow_law. mat_entries close. Qed.
    Theorem pow_CZPow : pow_law (tbl_CZPow O). Proof. unfold pow_law. mat_entries close. Qed.
    Theorem pow_CXPow : pow_law (tbl_CXPow O). Proof. unfold pow_law. mat_entries close. Qed.
    Theorem pow_CYPow : pow_law (tbl_CYPow O). Proof. unfold pow_law. mat_entries close. Qed.
    Theorem pow_SwapPow : pow_law (tbl_SwapPow O). Proof. unfold pow_law. mat_entries close. Qed.
    Theorem pow_ISwapPow : pow_law (tbl_ISwapPow O). Proof. unfold pow_law. mat_entries close. Qed.
    Theorem pow_XXPow : pow_law (tbl_XXPow O). Proof. unfold pow_law. mat_entries close. Qed.
    Theorem pow_YYPow : pow_law (tbl_YYPow O). Proof. unfold pow_law. mat_entries close. Qed.
    Theorem pow_ZZPow : pow_law (tbl_ZZPow O). Proof. unfold pow_law. mat_entries close. Qed.
  End Pow.

  (* at r = 1, g = 1 (exponent 0) every family is the identity; with pow_law this gives inverses *)
  Theorem pow0_XPow : eig_unitary O (tbl_XPow O) z1 z1 z1 = mid O 2. Proof. mat_entries ltac:(ring [half2']). Qed.
  Theorem pow0_HPow : eig_unitary O (tbl_HPow O) z1 z1 z1 = mid O 2. Proof. mat_entries ltac:(ring [half2' s22']). Qed.
  Theorem pow0_CXPow : eig_unitary O (tbl_CXPow O) z1 z1 z1 = mid O 4. Proof. mat_entries ltac:(ring [half2']). Qed.
  Theorem pow0_ISwapPow : eig_unitary O (tbl_ISwapPow O) z1 z1 z1 = mid O 4. Proof. mat_entries ltac:(ring [half2']). Qed.

  Section Ctrl.
    Variables r rc g : K.
    (* the controlled() overrides of Cirq: valid exactly for global shift 0 (g = 1) *)
    Theorem ctrl_X_is_CX : ctrl_matrix O [2] [[1]] (eig_unitary O (tbl_XPow O) r rc z1) = eig_unitary O (tbl_CXPow O) r rc z1.
    Proof. mat_entries ltac:(ring [half2']). Qed.
    Theorem ctrl_Y_is_CY : ctrl_matrix O [2] [[1]] (eig_unitary O (tbl_YPow O) r rc z1) = eig_unitary O (tbl_CYPow O) r rc z1.
    Proof. mat_entries ltac:(ring [half2' ii2']). Qed.
    Theorem ctrl_Z_is_CZ : ctrl_matrix O [2] [[1]] (eig_unitary O (tbl_ZPow O) r rc z1) = eig_unitary O (tbl_CZPow O) r rc z1.
    Proof. mat_entries ltac:(ring [half2']). Qed.
    Theorem ctrl_CZ_is_CCZ : ctrl_matrix O [2] [[1]] (eig_unitary O (tbl_CZPow O) r rc z1) = eig_unitary O (tbl_CCZPow O) r rc z1.
    Proof. mat_entries ltac:(ring [half2']). Qed.
    Theorem ctrl_CX_is_CCX : ctrl_matrix O [2] [[1]] (eig_unitary O (tbl_CXPow O) r rc z1) = eig_unitary O (tbl_CCXPow O) r rc z1.
    Proof. mat_entries ltac:(ring [half2']). Qed.
    (* control of a product is the product of controls (one qubit control, one qubit target, any entries) *)
    Variables a b c d a' b' c' d' : K.
    Theorem ctrl_mmul_1_1 :
      ctrl_matrix O [2] [[1]] (mmul O [[a; b]; [c; d]] [[a'; b']; [c'; d']])
      = mmul O (ctrl_matrix O [2] [[1]] [[a; b]; [c; d]]) (ctrl_matrix O [2] [[1]] [[a'; b']; [c'; d']]).
    Proof. mat_entries ltac:(ring). Qed.
    Theorem ctrl_mmul_0_1 :
      ctrl_matrix O [2] [[0]] (mmul O [[a; b]; [c; d]] [[a'; b']; [c'; d']])
      = mmul O (ctrl_matrix O [2] [[0]] [[a; b]; [c; d]]) (ctrl_matrix O [2] [[0]] [[a'; b']; [c'; d']]).
    Proof. mat_entries ltac:(ring). Qed.
    (* qutrit control with value set {1,2} *)
    Theorem ctrl_mmul_q3 :
      ctrl_matrix O [3] [[1]; [2]] (mmul O [[a; b]; [c; d]] [[a'; b']; [c'; d']])
      = mmul O (ctrl_matrix O [3] [[1]; [2]] [[a; b]; [c; d]]) (ctrl_matrix O [3] [[1]; [2]] [[a'; b']; [c'; d']]).
    Proof. mat_entries ltac:(ring). Qed.
  End Ctrl.

  Section PhaseBy.
    Variables f fc r rc g : K.
    Hypothesis Uf : f * fc = z1.
    (* phase_by(X^t, p/2 turns) is documented as Z^p X^t Z^-p = PhasedX(p, t) *)
    Theorem phase_by_X :
      mmul O (mdiag O [z1; f]) (mmul O (spec_XPow O r rc g) (mdiag O [z1; fc])) = spec_PhasedX O f fc r rc g.
    Proof. mat_entries ltac:(ring [Uf]). Qed.
    (* Z and CZ are invariant under phasing *)
    Theorem phase_by_Z :
      mmul O (mdiag O [z1; f]) (mmul O (spec_ZPow O r rc g) (mdiag O [z1; fc])) = spec_ZPow O r rc g.
    Proof. mat_entries ltac:(ring [Uf]). Qed.
    Theorem phase_by_CZ_q0 :
      mmul O (mdiag O [z1; z1; f; f]) (mmul O (spec_CZPow O r rc g) (mdiag O [z1; z1; fc; fc])) = spec_CZPow O r rc g.
    Proof. mat_entries ltac:(ring [Uf]). Qed.
  End PhaseBy.
End Algebra.
