(* C04 supporting identities over the regenerated tables (generic ring): standard decompositions. *)
From Coq Require Import Ring List ZArith.
From VF Require Import Base.RingOps Base.Mat Base.Tensor Gates.EigenGate Gates.GateSpecs Generated.EigenTables
  Gates.Families Gates.MatTac.
Import ListNotations.

Section Decomp.
  Context {K : Type} (O : Ops K) (L : Laws O).
  Add Ring Kring : (law_ring O L).
  Infix "+" := (kadd O). Infix "*" := (kmul O). Infix "-" := (ksub O).
  Notation "- a" := (kopp O a).
  Notation z0 := (k0 O). Notation z1 := (k1 O). Notation hf := (khalf O). Notation ii := (ki O). Notation s2 := (ks2 O).
  Lemma half2d : (z1 + z1) * hf = z1.
  Proof. transitivity (hf + hf); [ring | exact (law_half O L)]. Qed.
  Lemma s22d : s2 * s2 = hf. Proof. exact (law_s2 O L). Qed.
  Lemma cancel2d a b : (z1 + z1) * a = (z1 + z1) * b -> a = b.
  Proof. intros H. transitivity (hf * ((z1 + z1) * a)); [ring [half2d]|]. rewrite H. ring [half2d]. Qed.
  Lemma ii2d : ii * ii = - z1. Proof. exact (law_i O L). Qed.
  Ltac close := first [ ring [half2d s22d ii2d] | do 2 apply cancel2d; ring [half2d s22d ii2d]
                      | do 4 apply cancel2d; ring [half2d s22d ii2d] | do 6 apply cancel2d; ring [half2d s22d ii2d]
                      | do 8 apply cancel2d; ring [half2d s22d ii2d] | do 10 apply cancel2d; ring [half2d s22d ii2d]
                      | do 12 apply cancel2d; ring [half2d s22d ii2d] | do 16 apply cancel2d; ring [half2d s22d ii2d] ].

  (* the named gates at exponent 1: r = i (exp(i pi/2)), rc = -i, g = 1 *)
  Definition CNOTm : matrix := eig_unitary O (tbl_CXPow O) ii (- ii) z1.
  Definition CZm : matrix := eig_unitary O (tbl_CZPow O) ii (- ii) z1.
  Definition SWAPm : matrix := eig_unitary O (tbl_SwapPow O) ii (- ii) z1.
  Definition Hm : matrix := eig_unitary O (tbl_HPow O) ii (- ii) z1.
  (* CNOT with control and target exchanged: conjugate by SWAP *)
  Definition CNOTrev : matrix := mmul O SWAPm (mmul O CNOTm SWAPm).

  (* closed forms of the named constants (also C03.D4: named constants equal their textbook matrices) *)
  Lemma cnot_lit : CNOTm = [[z1; z0; z0; z0]; [z0; z1; z0; z0]; [z0; z0; z0; z1]; [z0; z0; z1; z0]].
  Proof. unfold CNOTm. mat_entries close. Qed.
  Lemma swap_lit : SWAPm = [[z1; z0; z0; z0]; [z0; z0; z1; z0]; [z0; z1; z0; z0]; [z0; z0; z0; z1]].
  Proof. unfold SWAPm. mat_entries close. Qed.
  Lemma cz_lit : CZm = [[z1; z0; z0; z0]; [z0; z1; z0; z0]; [z0; z0; z1; z0]; [z0; z0; z0; - z1]].
  Proof. unfold CZm. mat_entries close. Qed.
  Lemma h_lit : Hm = [[s2; s2]; [s2; - s2]].
  Proof. unfold Hm. mat_entries close. Qed.

  Theorem swap_is_three_cnots : mmul O CNOTm (mmul O CNOTrev CNOTm) = SWAPm.
  Proof. unfold CNOTrev. rewrite cnot_lit, swap_lit. mat_entries ltac:(ring). Qed.
  Theorem cz_is_h_cnot_h : mmul O (kron O (mid O 2) Hm) (mmul O CNOTm (kron O (mid O 2) Hm)) = CZm.
  Proof. rewrite cnot_lit, cz_lit, h_lit. mat_entries close. Qed.
  Theorem h_is_involution : mmul O Hm Hm = mid O 2.
  Proof. rewrite h_lit. mat_entries close. Qed.
End Decomp.
