(* Model of EigenGate._unitary_: sum_k exp(i pi e (theta_k + s)) P_k over the regenerated table.
   The caller supplies r = exp(i pi e / 2), rc = its conjugate/inverse and g = exp(i pi e s); the
   table stores 2*theta_k as an integer, so exp(i pi e theta_k) = r^(2 theta_k). *)
From Coq Require Import List ZArith.
From VF Require Import Base.RingOps Base.Mat.
Import ListNotations.

Section EigenGate.
  Context {K : Type} (O : Ops K).
  Definition msum1 (l : list (matrix (K:=K))) : matrix :=
    match l with [] => [] | x :: r => fold_left (madd O) r x end.
  Definition eig_unitary (tbl : list (Z * matrix (K:=K))) (r rc g : K) : matrix :=
    msum1 (map (fun row => mscale O (kmul O g (kpowZ O r rc (fst row))) (snd row)) tbl).
End EigenGate.
