(* Choi description of a channel given by Kraus operators (qis/channels.py).
   Cirq's convention: J = sum_k vec(K_k) vec(K_k)^dagger with row-major vec, which is the matrix
   J = sum_ij E(|i><j|) (x) |i><j| of the definition, and the reshuffle J[(a,i),(b,j)] = S[(a,b),(i,j)] of the
   superoperator S = sum_k K_k (x) conj K_k. *)
From Coq Require Import List Arith Bool.
From VF Require Import Base.RingOps Base.Mat Gates.Channels.
Import ListNotations.

Section Choi.
  Context {K : Type} (O : Ops K).
  Definition mflat (k : matrix) : list K := concat k.
  Definition vouter (a b : list K) : matrix := map (fun x => map (fun y => kmul O x y) b) a.
  (* kraus_to_choi: sum_k vec(K_k) vec(K_k)^dagger; n = d*d *)
  Definition kraus_choi (n : nat) (ks : list matrix) : matrix :=
    fold_right (fun k acc => madd O (vouter (mflat k) (map (kconj O) (mflat k))) acc) (mzero O n n) ks.
  (* the defining formula *)
  Definition munit (d i j : nat) : matrix :=
    map (fun a => map (fun b => if (a =? i) && (b =? j) then k1 O else k0 O) (seq 0 d)) (seq 0 d).
  Definition kraus_apply_d (d : nat) (ks : list matrix) (rho : matrix) : matrix :=
    fold_right (fun k acc => madd O (mmul O k (mmul O rho (mdagger O k))) acc) (mzero O d d) ks.
  Definition choi_def (d : nat) (ks : list matrix) : matrix :=
    msum O (d * d) (d * d)
      (map (fun ij => kron O (kraus_apply_d d ks (munit d (fst ij) (snd ij))) (munit d (fst ij) (snd ij)))
           (list_prod (seq 0 d) (seq 0 d))).
  (* superoperator <-> Choi: the same numbers with the two middle indices exchanged (an involution) *)
  Definition reshuffle (d : nat) (s : matrix) : matrix :=
    map (fun r => map (fun c => mget O s ((r / d) * d + c / d) ((r mod d) * d + c mod d)) (seq 0 (d * d))) (seq 0 (d * d)).
  (* action of a Choi matrix on an operator: E(rho)[a,b] = sum_ij J[(a,i),(b,j)] rho[i,j] *)
  Definition choi_apply (d : nat) (j : matrix) (rho : matrix) : matrix :=
    map (fun a => map (fun b =>
      ksum O (map (fun ij => kmul O (mget O j (a * d + fst ij) (b * d + snd ij)) (mget O rho (fst ij) (snd ij)))
                  (list_prod (seq 0 d) (seq 0 d)))) (seq 0 d)) (seq 0 d).
End Choi.
