(* Closed-form definitions of the gate library, transcribed from the docstrings / textbooks
   (trusted text, DESIGN 6).  Angles enter as units: for an exponent t, r = exp(i pi t/2),
   rc = conj r, g = exp(i pi t s) for global shift s; cos = (r+rc)/2, sin = -i (r-rc)/2. *)
From Coq Require Import List ZArith Arith.
From VF Require Import Base.RingOps Base.Mat.
Import ListNotations.

Section Specs.
  Context {K : Type} (O : Ops K).
  Infix "+" := (kadd O). Infix "*" := (kmul O). Infix "-" := (ksub O).
  Notation "- a" := (kopp O a).
  Notation z0 := (k0 O). Notation z1 := (k1 O). Notation hf := (khalf O). Notation ii := (ki O). Notation s2 := (ks2 O).

  Definition cosu (r rc : K) : K := (r + rc) * hf.
  Definition sinu (r rc : K) : K := - ii * ((r - rc) * hf).

  (* ---- EigenGate families: parameters r rc g ---- *)
  Definition spec_XPow (r rc g : K) : matrix :=
    let c := cosu r rc in let s := sinu r rc in
    mscale O (g * r) [[c; - ii * s]; [- ii * s; c]].
  Definition spec_YPow (r rc g : K) : matrix :=
    let c := cosu r rc in let s := sinu r rc in
    mscale O (g * r) [[c; - s]; [s; c]].
  Definition spec_ZPow (r rc g : K) : matrix := mscale O g [[z1; z0]; [z0; r * r]].
  Definition spec_HPow (r rc g : K) : matrix :=
    let c := cosu r rc in let s := sinu r rc in
    mscale O (g * r) [[c - ii * s * s2; - ii * s * s2]; [- ii * s * s2; c + ii * s * s2]].
  Definition spec_CZPow (r rc g : K) : matrix := mscale O g (mdiag O [z1; z1; z1; r * r]).
  Definition spec_CXPow (r rc g : K) : matrix := mscale O g (mdirect O (mid O 2) (spec_XPow r rc z1)).
  Definition spec_CYPow (r rc g : K) : matrix := mscale O g (mdirect O (mid O 2) (spec_YPow r rc z1)).
  Definition spec_SwapPow (r rc g : K) : matrix :=
    let c := cosu r rc in let s := sinu r rc in
    mscale O g [[z1; z0; z0; z0]; [z0; r * c; - ii * r * s; z0]; [z0; - ii * r * s; r * c; z0]; [z0; z0; z0; z1]].
  Definition spec_ISwapPow (r rc g : K) : matrix :=
    let c := cosu r rc in let s := sinu r rc in
    mscale O g [[z1; z0; z0; z0]; [z0; c; ii * s; z0]; [z0; ii * s; c; z0]; [z0; z0; z0; z1]].
  Definition spec_XXPow (r rc g : K) : matrix :=
    let c := r * cosu r rc in let s := - ii * r * sinu r rc in
    mscale O g [[c; z0; z0; s]; [z0; c; s; z0]; [z0; s; c; z0]; [s; z0; z0; c]].
  Definition spec_YYPow (r rc g : K) : matrix :=
    let c := r * cosu r rc in let s := - ii * r * sinu r rc in
    mscale O g [[c; z0; z0; - s]; [z0; c; s; z0]; [z0; s; c; z0]; [- s; z0; z0; c]].
  Definition spec_ZZPow (r rc g : K) : matrix := mscale O g (mdiag O [z1; r * r; r * r; z1]).
  Definition spec_CCZPow (r rc g : K) : matrix := mscale O g (mdiag O [z1; z1; z1; z1; z1; z1; z1; r * r]).
  Definition spec_CCXPow (r rc g : K) : matrix := mscale O g (mdirect O (mid O 6) (spec_XPow r rc z1)).
  Definition spec_CCYPow (r rc g : K) : matrix := mscale O g (mdirect O (mid O 6) (spec_YPow r rc z1)).
  Definition spec_Z4Pow (r rc g : K) : matrix := mscale O g (mdiag O [z1; r; r * r; r * r * r]).
  (* qudit X (d=4) is the Fourier conjugate of qudit Z: X = F^dagger Z F with F_jk = i^(jk)/2 *)
  Definition fourier4 : matrix :=
    map (fun j => map (fun k => hf * kpow O ii (j * k)) (seq 0 4)) (seq 0 4).
  Definition fourier4_dag : matrix :=      (* F is symmetric, so its adjoint is the entrywise conjugate *)
    map (fun j => map (fun k => hf * kpow O (- ii) (j * k)) (seq 0 4)) (seq 0 4).
  Definition spec_X4Pow (r rc g : K) : matrix :=
    mmul O fourier4_dag (mmul O (spec_Z4Pow r rc g) fourier4).
  (* Pauli interaction: phase exp(i pi t) exactly on the (-1)^inv eigenspaces of both Paulis *)
  Definition pauli_mat (p : nat) : matrix :=
    match p with
    | 0 => [[z0; z1]; [z1; z0]]
    | 1 => [[z0; - ii]; [ii; z0]]
    | _ => [[z1; z0]; [z0; - z1]]
    end.
  Definition pauli_proj (p : nat) (inv : bool) : matrix :=   (* (1 - P)/2, or (1 + P)/2 when inverted *)
    mscale O hf (madd O (mid O 2) (mscale O (if inv then z1 else - z1) (pauli_mat p))).
  Definition spec_PI (p0 : nat) (inv0 : bool) (p1 : nat) (inv1 : bool) (r rc g : K) : matrix :=
    mscale O g (madd O (mid O 4) (mscale O (r * r - z1) (kron O (pauli_proj p0 inv0) (pauli_proj p1 inv1)))).

  (* ---- closed-form (non-eigen) families ---- *)
  (* FSim(theta, phi): u = exp(i theta), v = exp(i phi) *)
  Definition spec_FSim (u uc v vc : K) : matrix :=
    let a := cosu u uc in let b := - ii * sinu u uc in
    [[z1; z0; z0; z0]; [z0; a; b; z0]; [z0; b; a; z0]; [z0; z0; z0; vc]].
  (* PhasedFSim(theta, zeta, chi, gamma, phi), units for each angle *)
  Definition spec_PhasedFSim (u uc ze zec ch chc ga gac ph phc : K) : matrix :=
    let c := cosu u uc in let s := sinu u uc in
    [[z1; z0; z0; z0];
     [z0; gac * zec * c; - ii * gac * ch * s; z0];
     [z0; - ii * gac * chc * s; gac * ze * c; z0];
     [z0; z0; z0; gac * gac * phc]].
  (* PhasedX(p, t) with global shift: Z^p X^t Z^-p ; f = exp(i pi p) *)
  Definition spec_PhasedX (f fc r rc g : K) : matrix :=
    let c := cosu r rc in let s := sinu r rc in
    mscale O (g * r) [[c; - ii * s * fc]; [- ii * s * f; c]].
  (* PhasedXZ(x, z, a) = Z^-a X^x Z^a Z^z ; fa = exp(i pi a), fz = exp(i pi z), r = exp(i pi x/2) *)
  Definition spec_PhasedXZ (fa fac fz fzc r rc : K) : matrix :=
    let c := cosu r rc in let s := sinu r rc in
    mscale O r [[c; - ii * s * fac]; [- ii * s * fa * fz; c * fz]].
  (* PhasedISwap(p, t): f = exp(2 pi i p) *)
  Definition spec_PhasedISwap (f fc r rc g : K) : matrix :=
    let c := cosu r rc in let s := sinu r rc in
    mscale O g [[z1; z0; z0; z0]; [z0; c; ii * s * f; z0]; [z0; ii * s * fc; c; z0]; [z0; z0; z0; z1]].
  Definition spec_CSwap : matrix :=
    mdirect O (mid O 5) (mdirect O [[z0; z1]; [z1; z0]] (mid O 1)).
  Definition spec_GlobalPhase (c : K) : matrix := [[c]].
  Definition spec_Diagonal (ds : list K) : matrix := mdiag O ds.
  (* QFT on n qubits: F_jk = omega^(jk) / sqrt(2^n), omega = exp(2 pi i / 2^n); without_reverse keeps this order *)
  Definition spec_QFT (n : nat) (omega : K) : matrix :=
    let N := Nat.pow 2 n in
    map (fun j => map (fun k => kpow O s2 n * kpow O omega (j * k)) (seq 0 N)) (seq 0 N).
  (* PhaseGradient(n, t): u = exp(2 pi i t / 2^n) *)
  Definition spec_PhaseGradient (n : nat) (u : K) : matrix :=
    mdiag O (map (fun k => kpow O u k) (seq 0 (Nat.pow 2 n))).
  (* basis permutation: column j has its 1 in row f j *)
  Definition spec_BasisPerm (N : nat) (f : nat -> nat) : matrix :=
    map (fun i => map (fun j => if Nat.eqb i (f j) then z1 else z0) (seq 0 N)) (seq 0 N).
  (* IonQ native gates, phases in turns: p = exp(2 pi i phi) *)
  Definition spec_GPI (p pc : K) : matrix := [[z0; pc]; [p; z0]].
  Definition spec_GPI2 (p pc : K) : matrix := [[s2; - ii * pc * s2]; [- ii * p * s2; s2]].
  (* MS(phi0, phi1, theta): a = exp(2 pi i (phi0+phi1)), b = exp(2 pi i (phi0-phi1)), r = exp(i pi theta) *)
  Definition spec_IonqMS (a ac b bc r rc : K) : matrix :=
    let c := cosu r rc in let s := sinu r rc in
    [[c; z0; z0; - ii * ac * s]; [z0; c; - ii * bc * s; z0]; [z0; - ii * b * s; c; z0]; [- ii * a * s; z0; z0; c]].
  (* IonQ ZZ(theta): r = exp(i pi theta) *)
  Definition spec_IonqZZ (r rc : K) : matrix := mdiag O [rc; r; r; rc].
End Specs.
