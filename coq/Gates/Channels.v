(* Library channels: documented Kraus operators as functions of amplitude parameters (the square roots the
   docstrings use are supplied by the caller as ring elements with their defining equations as hypotheses). *)
From Coq Require Import List Arith.
From VF Require Import Base.RingOps Base.Mat.
Import ListNotations.

Section Channels.
  Context {K : Type} (O : Ops K).
  Infix "+" := (kadd O). Infix "*" := (kmul O). Infix "-" := (ksub O).
  Notation "- a" := (kopp O a).
  Notation z0 := (k0 O). Notation z1 := (k1 O). Notation ii := (ki O).
  Definition pI : matrix := [[z1; z0]; [z0; z1]].
  Definition pX : matrix := [[z0; z1]; [z1; z0]].
  Definition pY : matrix := [[z0; - ii]; [ii; z0]].
  Definition pZ : matrix := [[z1; z0]; [z0; - z1]].
  (* bit_flip(p): a = sqrt(1-p), b = sqrt p *)
  Definition kraus_bit_flip (a b : K) : list matrix := [mscale O a pI; mscale O b pX].
  Definition kraus_phase_flip (a b : K) : list matrix := [mscale O a pI; mscale O b pZ].
  (* depolarize(p) on one qubit: a = sqrt(1-p), b = sqrt(p/3);  asymmetric: a, bx, by, bz *)
  Definition kraus_asym_depol (a bx by_ bz : K) : list matrix := [mscale O a pI; mscale O bx pX; mscale O by_ pY; mscale O bz pZ].
  Definition kraus_depolarize (a b : K) : list matrix := kraus_asym_depol a b b b.
  (* amplitude_damp(gamma): c = sqrt(1-gamma), s = sqrt gamma *)
  Definition kraus_amp_damp (c s : K) : list matrix := [[[z1; z0]; [z0; c]]; [[z0; s]; [z0; z0]]].
  (* phase_damp(gamma) *)
  Definition kraus_phase_damp (c s : K) : list matrix := [[[z1; z0]; [z0; c]]; [[z0; z0]; [z0; s]]].
  (* generalized_amplitude_damp(p, gamma): sp = sqrt p, sq = sqrt(1-p), c = sqrt(1-gamma), s = sqrt gamma *)
  Definition kraus_gen_amp_damp (sp sq c s : K) : list matrix :=
    [mscale O sp [[z1; z0]; [z0; c]]; mscale O sp [[z0; s]; [z0; z0]];
     mscale O sq [[c; z0]; [z0; z1]]; mscale O sq [[z0; z0]; [s; z0]]].
  Definition kraus_reset2 : list matrix := [[[z1; z0]; [z0; z0]]; [[z0; z1]; [z0; z0]]].

  (* sum_k K_k^dagger K_k *)
  Definition kraus_gram (ks : list matrix) : matrix :=
    fold_right (fun k acc => madd O (mmul O (mdagger O k) k) acc) (mzero O 2 2) ks.
  (* sum_k K_k rho K_k^dagger *)
  Definition kraus_apply (ks : list matrix) (rho : matrix) : matrix :=
    fold_right (fun k acc => madd O (mmul O k (mmul O rho (mdagger O k))) acc) (mzero O 2 2) ks.
  (* superoperator in Cirq's convention: sum_k K_k (x) conj K_k *)
  Definition kraus_superop (n : nat) (ks : list matrix) : matrix :=
    fold_right (fun k acc => madd O (kron O k (mconj O k)) acc) (mzero O n n) ks.
  Definition mtrace (m : matrix) : K := ksum O (map (fun i => mget O m i i) (seq 0 (length m))).
End Channels.
