(* C03, second batch: closed-form definitions of the remaining gate families of cirq/ops, transcribed from
   their docstrings (trusted text).  Continuous parameters enter as units (u = exp(i angle), supplied by the
   caller); discrete families (permutations, Cliffords, Pauli strings) are plain data.  Definitions only.

     TwoQubitDiagonalGate / ThreeQubitDiagonalGate / DiagonalGate   diag(e^{i x_k})                 (spec_Diagonal)
     BooleanHamiltonianGate     sum_x e^{i t/2 sum_k f_k(x)} |x><x|     (class docstring)          (spec_BoolHam)
     ParallelGate(U, n)         U (x) U (x) ... (x) U                                               (spec_Parallel)
     WaitGate                   identity on its qid shape                                           (spec_Wait)
     ArithmeticGate             basis permutation x -> apply(x) on big-endian registers             (spec_Arith)
     SingleQubitCliffordGate    the 24 gates of all_single_qubit_cliffords, by their X/Z images     (cliff_unitary, cliff_images)
     DensePauliString           coefficient * P_1 (x) ... (x) P_n                                   (spec_DensePauli)
     UniformSuperpositionGate   |0..0> -> 1/sqrt M sum_{j<M} |j>                                    (spec_UniformSup_col)
     StatePreparationChannel    Kraus |psi><j|;  ResetChannel(d): |0><j|                            (ketbra_ops)
     RandomGateChannel          sqrt p K_k, sqrt(1-p) I ; mixture p p_k U_k, (1-p) I                (spec_RandomGate_kraus, _mixture)
     MeasurementGate            Kraus |i><i|                                                        (spec_Measure)   *)
From Coq Require Import List ZArith Arith Bool.
From VF Require Import Base.RingOps Base.Mat Base.Tensor Gates.GateSpecs.
Import ListNotations.

(* ---- boolean expressions of BooleanHamiltonianGate: ~ & | ^ over the declared parameter names ---- *)
Inductive bexp := BVar (i : nat) | BNot (a : bexp) | BAnd (a b : bexp) | BOr (a b : bexp) | BXor (a b : bexp).
Fixpoint beval (e : bexp) (x : list nat) : bool :=
  match e with
  | BVar i => Nat.eqb (nth i x 0) 1
  | BNot a => negb (beval a x)
  | BAnd a b => beval a x && beval b x
  | BOr a b => beval a x || beval b x
  | BXor a b => xorb (beval a x) (beval b x)
  end.
(* sum_k f_k(x): the number of expressions that are true on the bit string x *)
Definition bh_count (es : list bexp) (x : list nat) : nat := length (filter (fun e => beval e x) es).
Definition bh_values (n : nat) (es : list bexp) : list nat := map (bh_count es) (enum (repeat 2 n)).

(* ---- registers of an ArithmeticGate: a classical constant or a group of qudits (dimensions, big-endian) ---- *)
Inductive areg := RConst (c : Z) | RQu (dims : list nat).
Definition areg_qsize (r : areg) : list nat := match r with RConst _ => [] | RQu d => [size d] end.
Definition arith_sizes (regs : list areg) : list nat := flat_map areg_qsize regs.
(* the register values handed to apply(): constants in place, quantum registers read from the digits *)
Fixpoint arith_inputs (regs : list areg) (qv : list nat) : list Z :=
  match regs with
  | [] => []
  | RConst c :: r => c :: arith_inputs r qv
  | RQu _ :: r => Z.of_nat (hd 0 qv) :: arith_inputs r (tl qv)
  end.
(* outputs shorter than the inputs are padded with the inputs at the same positions (documented sloppiness 2) *)
Definition arith_pad (ins outs : list Z) : list Z := outs ++ skipn (length outs) ins.
(* constants must come back unchanged (else ValueError = None); quantum values are wrapped into range (sloppiness 1) *)
Fixpoint arith_outputs (regs : list areg) (outs : list Z) : option (list nat) :=
  match regs, outs with
  | [], [] => Some []
  | RConst c :: r, o :: os => if Z.eqb o c then arith_outputs r os else None
  | RQu d :: r, o :: os =>
      match arith_outputs r os with
      | Some t => Some (Z.to_nat (o mod Z.of_nat (size d)) :: t)
      | None => None
      end
  | _, _ => None
  end.
Definition arith_target (regs : list areg) (apply : list Z -> list Z) (j : nat) : option nat :=
  let sz := arith_sizes regs in
  let ins := arith_inputs regs (nth j (enum sz) []) in
  match arith_outputs regs (arith_pad ins (apply ins)) with
  | Some qo => Some (index sz qo)
  | None => None
  end.
Definition arith_tgt (regs : list areg) (apply : list Z -> list Z) (j : nat) : nat :=
  match arith_target regs apply j with Some t => t | None => 0 end.
(* the small concrete subclasses used by the correspondence (vf/gates_more.py defines the same apply methods) *)
Inductive aop :=
| OpAdd        (* apply(t, s, ...) = t + s                       (int result: only the first register changes) *)
| OpSub        (* apply(t, s, ...) = t - s                       (negative values wrap) *)
| OpAddFull    (* apply(t, s) = (t + s, s)                       (fully detailed result, overflow wraps) *)
| OpSwap       (* apply(a, b) = (b, a) *)
| OpNot        (* apply(t, ...) = -t - 1                         (bitwise complement of a power-of-two register) *)
| OpMulMod (k n : Z)   (* apply(t, ...) = t*k mod n if t < n else t   (modular multiplication, Shor-style) *)
| OpMac        (* apply(a, b, c) = (a + b*c, b)                  (padded with c) *)
| OpBumpSecond (* apply(t, s) = (t, s + 1)                       (changes its second register) *).
Definition aop_apply (o : aop) (v : list Z) : list Z :=
  let a := nth 0 v 0%Z in let b := nth 1 v 0%Z in let c := nth 2 v 0%Z in
  match o with
  | OpAdd => [(a + b)%Z]
  | OpSub => [(a - b)%Z]
  | OpAddFull => [(a + b)%Z; b]
  | OpSwap => [b; a]
  | OpNot => [(- a - 1)%Z]
  | OpMulMod k n => [if Z.ltb a n then ((a * k) mod n)%Z else a]
  | OpMac => [(a + b * c)%Z; b]
  | OpBumpSecond => [a; (b + 1)%Z]
  end.

(* ---- the 24 single-qubit Cliffords: (axis, negated) images of X and Z; axis 0 = X, 1 = Y, 2 = Z ---- *)
Definition cliff_images : list ((nat * bool) * (nat * bool)) :=
  let pX := (0, false) in let mX := (0, true) in let pY := (1, false) in let mY := (1, true) in
  let pZ := (2, false) in let mZ := (2, true) in
  [ (pX, pZ);
    (pX, mZ); (mX, mZ); (mX, pZ);
    (pX, mY); (mZ, pX); (pY, pZ);
    (pX, pY); (pZ, mX); (mY, pZ);
    (pZ, pX); (pY, mZ); (mX, pY); (mZ, mX); (mY, mZ); (mX, mY);
    (pY, pX); (mZ, mY); (pZ, mY); (mY, mX); (mZ, pY); (mY, pX); (pY, mX); (pZ, pY) ].

Section MoreSpecs.
  Context {K : Type} (O : Ops K).
  Infix "+" := (kadd O). Infix "*" := (kmul O). Infix "-" := (ksub O).
  Notation "- a" := (kopp O a).
  Notation z0 := (k0 O). Notation z1 := (k1 O). Notation hf := (khalf O). Notation ii := (ki O). Notation s2 := (ks2 O).

  (* a matrix tabulated from an entry function over an index list *)
  Definition tabm {A} (E : list A) (f : A -> A -> K) : matrix := map (fun r => map (f r) E) E.
  Definition vmul (a b : list K) : list K := map (fun p => fst p * snd p) (combine a b).

  (* ---- BooleanHamiltonianGate(names, exprs, t): u = exp(i t / 2) (the class docstring) ---- *)
  Definition spec_BoolHam (n : nat) (es : list bexp) (u : K) : matrix := mdiag O (map (kpow O u) (bh_values n es)).

  (* ---- ParallelGate(U, n) and tensor products of lists of matrices (first factor most significant) ---- *)
  Fixpoint kron_list (l : list (matrix (K:=K))) : matrix :=
    match l with [] => [[z1]] | a :: r => kron O a (kron_list r) end.
  Definition spec_Parallel (n : nat) (u : matrix (K:=K)) : matrix := kron_list (repeat u n).

  (* ---- WaitGate(duration, qid_shape) ---- *)
  Definition spec_Wait (dims : list nat) : matrix := mid O (size dims).

  (* ---- ArithmeticGate: the permutation matrix of x -> apply(x); None when a constant register is changed ---- *)
  Definition spec_Arith (regs : list areg) (apply : list Z -> list Z) : option (matrix (K:=K)) :=
    let N := size (arith_sizes regs) in
    if forallb (fun j => match arith_target regs apply j with Some _ => true | None => false end) (seq 0 N)
    then Some (spec_BasisPerm O N (arith_tgt regs apply))
    else None.

  (* ---- Pauli letters by Cirq's dense index: I = 0, X = 1, Y = 2, Z = 3 ---- *)
  Definition pauli4 (p : nat) : matrix :=
    match p with
    | 0 => [[z1; z0]; [z0; z1]]
    | 1 => [[z0; z1]; [z1; z0]]
    | 2 => [[z0; - ii]; [ii; z0]]
    | _ => [[z1; z0]; [z0; - z1]]
    end.
  (* DensePauliString(mask, coefficient) as a gate *)
  Definition spec_DensePauli (c : K) (l : list nat) : matrix := mscale O c (kron_list (map pauli4 l)).
  (* the product of two letters: P_a P_b = i^(pmul_phase a b) P_(pmul_code a b) *)
  Definition pmul_code (a b : nat) : nat :=
    match a, b with
    | 0, _ => b | _, 0 => a
    | 1, 1 => 0 | 1, 2 => 3 | 1, _ => 2
    | 2, 1 => 3 | 2, 2 => 0 | 2, _ => 1
    | _, 1 => 2 | _, 2 => 1 | _, _ => 0
    end.
  Definition pmul_phase (a b : nat) : nat :=
    match a, b with
    | 0, _ => 0 | _, 0 => 0
    | 1, 1 => 0 | 1, 2 => 1 | 1, _ => 3
    | 2, 1 => 3 | 2, 2 => 0 | 2, _ => 1
    | _, 1 => 1 | _, 2 => 3 | _, _ => 0
    end.
  Fixpoint dp_code (a b : list nat) : list nat :=
    match a, b with x :: a', y :: b' => pmul_code x y :: dp_code a' b' | _, _ => [] end.
  Fixpoint dp_phase (a b : list nat) : nat :=
    match a, b with x :: a', y :: b' => pmul_phase x y + dp_phase a' b' | _, _ => 0 end.

  (* ---- the 24 single-qubit Cliffords: the closed forms named next to each entry of all_single_qubit_cliffords
          ("I-iX", "Z+X aka H", "I-i(+X+Y-Z)", ...), normalised; defined up to a global phase ---- *)
  Definition lin4 (s a b c d : K) : matrix :=      (* s (a I + b X + c Y + d Z) *)
    mscale O s (madd O (madd O (mscale O a (pauli4 0)) (mscale O b (pauli4 1)))
                       (madd O (mscale O c (pauli4 2)) (mscale O d (pauli4 3)))).
  Definition cliff_unitary (k : nat) : matrix :=
    let mi := - ii in
    match k with
    | 0 => lin4 z1 z1 z0 z0 z0
    | 1 => lin4 z1 z0 z1 z0 z0 | 2 => lin4 z1 z0 z0 z1 z0 | 3 => lin4 z1 z0 z0 z0 z1
    | 4 => lin4 s2 z1 mi z0 z0 | 5 => lin4 s2 z1 z0 mi z0 | 6 => lin4 s2 z1 z0 z0 mi
    | 7 => lin4 s2 z1 ii z0 z0 | 8 => lin4 s2 z1 z0 ii z0 | 9 => lin4 s2 z1 z0 z0 ii
    | 10 => lin4 s2 z0 z1 z0 z1 | 11 => lin4 s2 z0 z1 z1 z0 | 12 => lin4 s2 z0 z0 z1 z1
    | 13 => lin4 s2 z0 (- z1) z0 z1 | 14 => lin4 s2 z0 z1 (- z1) z0 | 15 => lin4 s2 z0 z0 z1 (- z1)
    | 16 => lin4 hf z1 mi mi mi | 17 => lin4 hf z1 mi mi ii | 18 => lin4 hf z1 mi ii mi | 19 => lin4 hf z1 mi ii ii
    | 20 => lin4 hf z1 ii mi mi | 21 => lin4 hf z1 ii mi ii | 22 => lin4 hf z1 ii ii mi | _ => lin4 hf z1 ii ii ii
    end.
  Definition signed_pauli (p : nat * bool) : matrix :=
    mscale O (if snd p then - z1 else z1) (pauli_mat O (fst p)).
  (* U P U^dagger *)
  Definition conj_by (u p : matrix (K:=K)) : matrix := mmul O u (mmul O p (mdagger O u)).

  (* ---- UniformSuperpositionGate(M, n): the image of |0..0>, s = 1/sqrt M ---- *)
  Definition spec_UniformSup_col (s : K) (M n : nat) : list K := repeat s M ++ repeat z0 (Nat.pow 2 n - M).
  Fixpoint kmuln (n : nat) (x : K) : K := match n with 0 => z0 | S m => x + kmuln m x end.

  (* ---- channels ---- *)
  (* Kraus operators |psi><j|, j = 0 .. N-1 (StatePreparationChannel); ResetChannel(d) is the case psi = |0> *)
  Definition ketbra_ops (psi : list K) : list matrix :=
    let E := seq 0 (length psi) in
    map (fun j => tabm E (fun r c => if Nat.eqb c j then nth r psi z0 else z0)) E.
  Definition basis_vec (d k : nat) : list K := map (fun j => if Nat.eqb j k then z1 else z0) (seq 0 d).
  Definition spec_Reset (d : nat) : list matrix := ketbra_ops (basis_vec d 0).
  (* RandomGateChannel(sub, p): sp = sqrt p, sq = sqrt (1-p); n = dimension of the sub gate *)
  Definition spec_RandomGate_kraus (sp sq : K) (n : nat) (ks : list (matrix (K:=K))) : list matrix :=
    map (mscale O sp) ks ++ [mscale O sq (mid O n)].
  Definition spec_RandomGate_mixture (p q : K) (n : nat) (mix : list (K * matrix (K:=K))) : list (K * matrix) :=
    map (fun pm => (fst pm * p, snd pm)) mix ++ [(q, mid O n)].
  (* MeasurementGate on a register of total dimension N: the projectors |i><i| *)
  Definition spec_Measure (N : nat) : list matrix :=
    map (fun i => tabm (seq 0 N) (fun r c => if Nat.eqb r i && Nat.eqb c i then z1 else z0)) (seq 0 N).
  (* sum_k K_k^dagger K_k for n x n operators *)
  Definition kraus_gram_n (n : nat) (ks : list (matrix (K:=K))) : matrix :=
    fold_right (fun k acc => madd O (mmul O (mdagger O k) k) acc) (mzero O n n) ks.
End MoreSpecs.
