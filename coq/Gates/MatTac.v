(* Tactics for entrywise matrix identities over the generic ring. *)
From Coq Require Import List.
From VF Require Import Base.RingOps.
Import ListNotations.

Ltac split_list :=
  repeat match goal with
         | |- (_ :: _) = (_ :: _) => apply (f_equal2 cons)
         | |- @nil _ = @nil _ => reflexivity
         end.
(* unfold everything down to the ring operations of the Ops record, split the lists, close each entry *)
Ltac mat_entries tac :=
  cbv -[kadd kmul kopp ksub kconj k0 k1 ki khalf ks2]; split_list; tac.
