(* C03.D3: the closed-form families are tied to the eigen families by the identities their docstrings
   state (so the closed forms are not free-floating transcriptions):
     FSimGate(theta, phi)      = ISWAP**(-2 theta/pi) . CZ**(-phi/pi)
     PhasedXZ(x, z, a)         = Z**-a X**x Z**a Z**z          (time order)
     PhasedISwap(p, t)         = (Z**-p (x) Z**p) ISWAP**t (Z**p (x) Z**-p)
     PhasedX(p, t)             = Z**p X**t Z**-p               (also C08_phase_by_X)
     Rx/Ry/Rz and MS are the X/Y/Z/XX families at global shift -1/2 (handled by the parameter map).  *)
From Coq Require Import Ring List ZArith.
From VF Require Import Base.RingOps Base.Mat Gates.GateSpecs Gates.MatTac.
Import ListNotations.

Section DocId.
  Context {K : Type} (O : Ops K) (L : Laws O).
  Add Ring Kring : (law_ring O L).
  Infix "+" := (kadd O). Infix "*" := (kmul O). Infix "-" := (ksub O).
  Notation "- a" := (kopp O a).
  Notation z0 := (k0 O). Notation z1 := (k1 O). Notation hf := (khalf O). Notation ii := (ki O).
  Lemma d_half2 : (z1 + z1) * hf = z1.
  Proof. transitivity (hf + hf); [ring | exact (law_half O L)]. Qed.
  Lemma d_ii2 : ii * ii = - z1. Proof. exact (law_i O L). Qed.

  Section FSim.
    (* u = exp(i theta), v = exp(i phi), q = exp(-i phi/2) *)
    Variables u uc v vc q qc : K.
    Hypothesis Uu : u * uc = z1. Hypothesis Uv : v * vc = z1. Hypothesis Hq : q * q = vc.
    Theorem fsim_is_iswap_cz :
      spec_FSim O u uc v vc = mmul O (spec_ISwapPow O uc u z1) (spec_CZPow O q qc z1).
    Proof. mat_entries ltac:(first [ring [Uu Hq d_ii2] | ring [Uu Uv Hq d_half2 d_ii2]]). Qed.
  End FSim.

  Section PXZ.
    (* fa = exp(i pi a), fz = exp(i pi z), r = exp(i pi x/2) *)
    Variables fa fac fz fzc r rc : K.
    Hypothesis Ua : fa * fac = z1. Hypothesis Uz : fz * fzc = z1. Hypothesis Ur : r * rc = z1.
    (* matrices multiply right-to-left: Z^z . Z^a . X^x . Z^-a *)
    Theorem phased_xz_is_product :
      spec_PhasedXZ O fa fac fz fzc r rc
      = mmul O (mdiag O [z1; fz]) (mmul O (mdiag O [z1; fa]) (mmul O (spec_XPow O r rc z1) (mdiag O [z1; fac]))).
    Proof. mat_entries ltac:(first [ring [Ua Ur d_ii2] | ring [Ua Ur d_ii2 d_half2]]). Qed.
  End PXZ.

  Section PIS.
    (* f = exp(2 pi i p) = (exp(i pi p))^2 ; e = exp(i pi p) *)
    Variables e ec r rc g : K.
    Hypothesis Ue : e * ec = z1.
    Theorem phased_iswap_is_conjugated_iswap :
      spec_PhasedISwap O (e * e) (ec * ec) r rc g
      = mmul O (kron O (mdiag O [z1; ec]) (mdiag O [z1; e]))
               (mmul O (spec_ISwapPow O r rc g) (kron O (mdiag O [z1; e]) (mdiag O [z1; ec]))).
    Proof. mat_entries ltac:(first [ring [Ue d_ii2] | ring [Ue d_ii2 d_half2]]). Qed.
  End PIS.
End DocId.
