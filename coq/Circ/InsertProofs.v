(* C05 proofs, part 2: Circuit.insert (all strategies, cached and uncached), append, constructor:
   well-formedness and conservation of operations. *)
From Coq Require Import ZArith List Bool Arith Lia Permutation.
From VF Require Import Circ.Moments Circ.Placement Circ.Insert Circ.MomentsProofs.
Import ListNotations.
Open Scope Z_scope.

(* ---- _group_into_moment_compatible: "the output, if flattened, will equal the input" ---- *)
Definition gflat (a : gacc) : list item := concat (rev (g_out a)) ++ rev (g_batch a).

Lemma g_flush_batch a : g_batch (g_flush a) = [].
Proof. reflexivity. Qed.

Lemma g_flush_flat a : gflat (g_flush a) = gflat a.
Proof.
  unfold gflat, g_flush. simpl. destruct (g_batch a) as [|x b] eqn:E; simpl.
  - reflexivity.
  - rewrite concat_app. simpl. rewrite !app_nil_r. reflexivity.
Qed.

Lemma g_step_flat a it : gflat (g_step a it) = gflat a ++ [it].
Proof.
  destruct it as [o|m]; unfold g_step.
  - destruct (negb _ || _ || _ || _); unfold gflat; cbn [g_out g_batch rev]; rewrite app_assoc.
    + change (concat (rev (g_out (g_flush a))) ++ rev (g_batch (g_flush a))) with (gflat (g_flush a)).
      rewrite g_flush_flat. reflexivity.
    + reflexivity.
  - unfold gflat; cbn [g_out g_batch rev]. rewrite concat_app. cbn [concat]. rewrite !app_nil_r.
    pose proof (g_flush_flat a) as H. unfold gflat in H. rewrite g_flush_batch in H. cbn [rev] in H.
    rewrite app_nil_r in H. rewrite H. reflexivity.
Qed.

Lemma g_fold_flat its : forall a, gflat (fold_left g_step its a) = gflat a ++ its.
Proof.
  induction its as [|it r IH]; intros a; simpl; [symmetry; apply app_nil_r|].
  rewrite IH, g_step_flat, <- app_assoc. reflexivity.
Qed.

Lemma group_concat its : concat (group_into_moment_compatible its) = its.
Proof.
  unfold group_into_moment_compatible.
  pose proof (g_flush_flat (fold_left g_step its (mkg [] [] [] [] []))) as H.
  rewrite g_fold_flat in H. unfold gflat at 1 in H. rewrite g_flush_batch in H. simpl in H.
  rewrite app_nil_r in H. exact H.
Qed.

Lemma Forall_of_concat {A} (P : A -> Prop) (l : list (list A)) : Forall P (concat l) -> Forall (Forall P) l.
Proof.
  induction l as [|x r IH]; simpl; intros H; [constructor|].
  apply Forall_app in H as [H1 H2]. constructor; [exact H1|apply IH; exact H2].
Qed.

Lemma batches_wf (P : item -> Prop) c0 s its :
  Forall P its ->
  Forall (Forall P)
    (match c0 : option pcache with
     | Some _ => [its]
     | None => match s with NEW => map (fun it => [it]) its | _ => group_into_moment_compatible its end
     end).
Proof.
  intros H. destruct c0.
  - constructor; [exact H|constructor].
  - assert (Hg : Forall (Forall P) (group_into_moment_compatible its)).
    { apply Forall_of_concat. rewrite group_concat. exact H. }
    destruct s; try exact Hg.
    clear Hg. induction H; simpl; [constructor|]. constructor; [constructor; [assumption|constructor]|assumption].
Qed.

(* ==== well-formedness ==== *)
Lemma determine_wf st it p c1 ms1 : determine st it = (p, c1, ms1) -> wf (i_ms st) -> wf ms1.
Proof.
  unfold determine. intros H Hw. destruct (i_cache st) as [pc|].
  - destruct (cache_append pc it) as [idx pc']. injection H as <- <- <-. exact Hw.
  - destruct it as [o|m]; [destruct (i_s st)|]; injection H as <- <- <-; try exact Hw;
      (apply Forall_insert_at; [apply nil_moment_wf|exact Hw]).
Qed.

Lemma place_wf ms1 p it ms2 : place ms1 p it = inl ms2 -> wf ms1 -> item_wf it -> wf ms2.
Proof.
  unfold place. intros H Hw Hi. destruct it as [o|m].
  - destruct (Nat.eqb p (length ms1)).
    + injection H as <-. apply Forall_app. split; [exact Hw|]. constructor; [apply single_moment_wf; exact Hi|constructor].
    + destruct (nth_error ms1 p) as [m|] eqn:En; [|discriminate].
      destruct (with_operation m o) as [m'|] eqn:Ew; [|discriminate].
      injection H as <-. apply Forall_replace_nth; [|exact Hw].
      eapply with_operation_wf; [exact Ew| |exact Hi]. eapply Forall_nth_error; eassumption.
  - injection H as <-. apply Forall_insert_at; assumption.
Qed.

Lemma place_item_wf st it st' e : place_item st it = (st', e) -> wf (i_ms st) -> item_wf it -> wf (i_ms st').
Proof.
  unfold place_item. intros H Hw Hi.
  destruct (determine st it) as [[p c1] ms1] eqn:Ed.
  pose proof (determine_wf _ _ _ _ _ Ed Hw) as Hw1.
  destruct (place ms1 p it) as [ms2|er] eqn:Ep.
  - pose proof (place_wf _ _ _ _ Ep Hw1 Hi) as Hw2.
    destruct (i_s st); injection H as <- <-; exact Hw2.
  - injection H as <- <-. exact Hw1.
Qed.

Lemma place_items_wf its : forall st st' e,
  place_items st its = (st', e) -> wf (i_ms st) -> Forall item_wf its -> wf (i_ms st').
Proof.
  induction its as [|it r IH]; intros st st' e H Hw Hi; simpl in H.
  - injection H as <- <-. exact Hw.
  - inversion Hi; subst. destruct (place_item st it) as [st1 [e1|]] eqn:E1.
    + injection H as <- <-. eapply place_item_wf; eassumption.
    + eapply IH; [exact H| |assumption]. eapply place_item_wf; eassumption.
Qed.

Lemma do_batch_wf st b st' e : do_batch st b = (st', e) -> wf (i_ms st) -> Forall item_wf b -> wf (i_ms st').
Proof.
  unfold do_batch. intros H Hw Hi.
  set (st1 := if needs_blank st b then _ else st) in H.
  assert (Hw1 : wf (i_ms st1)).
  { unfold st1. destruct (needs_blank st b); [simpl; apply Forall_insert_at; [apply nil_moment_wf|exact Hw]|exact Hw]. }
  destruct (place_items _ b) as [st3 [e3|]] eqn:E3.
  - injection H as <- <-. eapply place_items_wf; [exact E3|exact Hw1|exact Hi].
  - injection H as <- <-. simpl. eapply place_items_wf; [exact E3|exact Hw1|exact Hi].
Qed.

Lemma do_batches_wf bs : forall st st' e,
  do_batches st bs = (st', e) -> wf (i_ms st) -> Forall (Forall item_wf) bs -> wf (i_ms st').
Proof.
  induction bs as [|b r IH]; intros st st' e H Hw Hi; simpl in H.
  - injection H as <- <-. exact Hw.
  - inversion Hi; subst. destruct (do_batch st b) as [st1 [e1|]] eqn:E1.
    + injection H as <- <-. eapply do_batch_wf; eassumption.
    + eapply IH; [exact H| |assumption]. eapply do_batch_wf; eassumption.
Qed.

Lemma latest_item_wf k st it st' e : latest_item k st it = (st', e) -> wf (l_ms st) -> item_wf it -> wf (l_ms st').
Proof.
  unfold latest_item. intros H Hw Hi. destruct it as [o|m].
  - destruct (_ <? Z.of_nat k).
    + injection H as <- <-. simpl. apply Forall_insert_at; [apply single_moment_wf; exact Hi|exact Hw].
    + destruct (_ <? _).
      * destruct (nth_error (l_ms st) _) as [m|] eqn:En; [|injection H as <- <-; exact Hw].
        destruct (with_operation m o) as [m'|] eqn:Ew; [|injection H as <- <-; exact Hw].
        injection H as <- <-. simpl. apply Forall_replace_nth; [|exact Hw].
        eapply with_operation_wf; [exact Ew| |exact Hi]. eapply Forall_nth_error; eassumption.
      * injection H as <- <-. simpl. apply Forall_app. split; [exact Hw|].
        constructor; [apply single_moment_wf; exact Hi|constructor].
  - injection H as <- <-. simpl. apply Forall_insert_at; assumption.
Qed.

Lemma latest_items_wf k its : forall st st' e,
  latest_items k st its = (st', e) -> wf (l_ms st) -> Forall item_wf its -> wf (l_ms st').
Proof.
  induction its as [|it r IH]; intros st st' e H Hw Hi; simpl in H.
  - injection H as <- <-. exact Hw.
  - inversion Hi; subst. destruct (latest_item k st it) as [st1 [e1|]] eqn:E1.
    + injection H as <- <-. eapply latest_item_wf; eassumption.
    + eapply IH; [exact H| |assumption]. eapply latest_item_wf; eassumption.
Qed.

Lemma latest_batches_wf k bs : forall st st' e,
  latest_batches k st bs = (st', e) -> wf (l_ms st) -> Forall (Forall item_wf) bs -> wf (l_ms st').
Proof.
  induction bs as [|b r IH]; intros st st' e H Hw Hi; simpl in H.
  - injection H as <- <-. exact Hw.
  - inversion Hi; subst. destruct (latest_items k st b) as [st1 [e1|]] eqn:E1.
    + injection H as <- <-. eapply latest_items_wf; eassumption.
    + eapply IH; [exact H| |assumption]. eapply latest_items_wf; eassumption.
Qed.

Lemma insert_latest_wf k ms bs st e :
  insert_latest k ms bs = (st, e) -> wf ms -> Forall (Forall item_wf) bs -> wf (l_ms st).
Proof.
  unfold insert_latest. intros H Hw Hb. eapply latest_batches_wf; [exact H|exact Hw|apply Forall_rev; exact Hb].
Qed.

Theorem insert_wf c i its s c' r :
  insert c i its s = (c', r) -> wf (moms c) -> Forall item_wf its -> wf (moms c').
Proof.
  unfold insert. intros H Hw Hi.
  set (k := clamp_index i (length (moms c))) in *.
  match type of H with context [if ?b then None else cache c] => set (c0 := if b then None else cache c) in * end.
  pose proof (batches_wf item_wf c0 s its Hi) as Hb.
  destruct s.
  all: try (match type of H with context [do_batches ?a ?b] => destruct (do_batches a b) as [st [e|]] eqn:E end;
            injection H as <- <-; simpl; (eapply do_batches_wf; [exact E|exact Hw|exact Hb])).
  match type of H with context [insert_latest ?a ?b ?d] => destruct (insert_latest a b d) as [st [e|]] eqn:E end.
  - injection H as <- <-. simpl. eapply insert_latest_wf; [exact E|exact Hw|exact Hb].
  - injection H as <- <-. destruct (l_max st =? -1); simpl; (eapply insert_latest_wf; [exact E|exact Hw|exact Hb]).
Qed.

Theorem append_wf c its s c' r :
  append c its s = (c', r) -> wf (moms c) -> Forall item_wf its -> wf (moms c').
Proof. unfold append. apply insert_wf. Qed.

Lemma all_moments_wf its : forall ms, all_moments its = Some ms -> Forall item_wf its -> wf ms.
Proof.
  induction its as [|it r IH]; intros ms H Hi; simpl in H.
  - injection H as <-. constructor.
  - inversion Hi; subst. destruct it as [o|m]; [discriminate|].
    fold (all_moments r) in H. destruct (all_moments r) as [l|]; [|discriminate].
    injection H as <-. constructor; [assumption|apply IH; [reflexivity|assumption]].
Qed.

Theorem construct_wf its s c' r : construct its s = (c', r) -> Forall item_wf its -> wf (moms c').
Proof.
  unfold construct. intros H Hi. destruct (all_moments its) as [ms|] eqn:Ea.
  - injection H as <- <-. simpl. eapply all_moments_wf; eassumption.
  - destruct (is_earliest s).
    + destruct (place_items _ its) as [st [e|]] eqn:E; injection H as <- <-; simpl;
        (eapply place_items_wf; [exact E|constructor|exact Hi]).
    + eapply append_wf; [exact H|constructor|exact Hi].
Qed.

(* ==== conservation of operations: counting occurrences of every uid ==== *)
Definition icnt (u : Z) (its : list item) : nat := cnt u (items_ops its).

Lemma icnt_nil u : icnt u [] = 0%nat.
Proof. reflexivity. Qed.
Lemma icnt_cons u it r : icnt u (it :: r) = (cnt u (item_ops it) + icnt u r)%nat.
Proof. unfold icnt, items_ops. simpl. apply cnt_app. Qed.
Lemma icnt_app u a b : icnt u (a ++ b) = (icnt u a + icnt u b)%nat.
Proof. unfold icnt, items_ops. rewrite flat_map_app. apply cnt_app. Qed.
Lemma icnt_concat_rev u bs : icnt u (concat (rev bs)) = icnt u (concat bs).
Proof.
  induction bs as [|b r IH]; simpl; [reflexivity|].
  rewrite concat_app, !icnt_app, IH. simpl. rewrite app_nil_r. lia.
Qed.
Lemma concat_singletons {A} (l : list A) : concat (map (fun x => [x]) l) = l.
Proof. induction l as [|x r IH]; simpl; [reflexivity|rewrite IH; reflexivity]. Qed.

Lemma batches_concat c0 s its :
  concat (match c0 : option pcache with
          | Some _ => [its]
          | None => match s with NEW => map (fun it => [it]) its | _ => group_into_moment_compatible its end
          end) = its.
Proof.
  destruct c0; [simpl; apply app_nil_r|].
  destruct s; try apply group_concat. apply concat_singletons.
Qed.

Lemma determine_cnt u st it p c1 ms1 : determine st it = (p, c1, ms1) -> ccnt u ms1 = ccnt u (i_ms st).
Proof.
  unfold determine. intros H. destruct (i_cache st) as [pc|].
  - destruct (cache_append pc it) as [idx pc']. injection H as <- <- <-. reflexivity.
  - destruct it as [o|m]; [destruct (i_s st)|]; injection H as <- <- <-; try reflexivity;
      rewrite ccnt_insert_at; reflexivity.
Qed.

Lemma place_cnt u ms1 p it ms2 : place ms1 p it = inl ms2 -> ccnt u ms2 = (ccnt u ms1 + cnt u (item_ops it))%nat.
Proof.
  unfold place. intros H. destruct it as [o|m]; simpl.
  - destruct (Nat.eqb p (length ms1)).
    + injection H as <-. rewrite ccnt_app, ccnt_cons, ccnt_nil. lia.
    + destruct (nth_error ms1 p) as [m|] eqn:En; [|discriminate].
      destruct (with_operation m o) as [m'|] eqn:Ew; [|discriminate].
      injection H as <-. apply with_operation_eq in Ew. subst m'.
      pose proof (ccnt_replace_nth u p (m ++ [o]) m ms1 En) as Hc. rewrite cnt_app in Hc. lia.
  - injection H as <-. rewrite ccnt_insert_at. lia.
Qed.

(* a combined statement: nothing is lost or invented even when the call fails half-way;
   on success exactly the given items were added *)
Definition cnt_step (u : Z) (a b : list moment) (added : nat) (e : option err) : Prop :=
  (ccnt u a <= ccnt u b)%nat /\ (ccnt u b <= ccnt u a + added)%nat /\ (e = None -> ccnt u b = (ccnt u a + added)%nat).

Lemma place_item_cnt u st it st' e : place_item st it = (st', e) -> cnt_step u (i_ms st) (i_ms st') (cnt u (item_ops it)) e.
Proof.
  unfold place_item, cnt_step. intros H.
  destruct (determine st it) as [[p c1] ms1] eqn:Ed. pose proof (determine_cnt u _ _ _ _ _ Ed) as H1.
  destruct (place ms1 p it) as [ms2|er] eqn:Ep.
  - pose proof (place_cnt u _ _ _ _ Ep) as H2.
    destruct (i_s st); injection H as <- <-; simpl; lia.
  - injection H as <- <-. simpl. repeat split; try lia. discriminate.
Qed.

Lemma place_items_cnt u its : forall st st' e,
  place_items st its = (st', e) -> cnt_step u (i_ms st) (i_ms st') (icnt u its) e.
Proof.
  unfold cnt_step. induction its as [|it r IH]; intros st st' e H; simpl in H.
  - injection H as <- <-. rewrite icnt_nil. lia.
  - rewrite icnt_cons. destruct (place_item st it) as [st1 [e1|]] eqn:E1.
    + injection H as <- <-. pose proof (place_item_cnt u _ _ _ _ E1) as H1. unfold cnt_step in H1.
      repeat split; try lia. discriminate.
    + pose proof (place_item_cnt u _ _ _ _ E1) as H1. unfold cnt_step in H1.
      specialize (IH _ _ _ H). destruct H1 as [? [? H1]]. specialize (H1 eq_refl). destruct IH as [? [? IH]].
      repeat split; try lia. intros He. specialize (IH He). lia.
Qed.

Lemma do_batch_cnt u st b st' e : do_batch st b = (st', e) -> cnt_step u (i_ms st) (i_ms st') (icnt u b) e.
Proof.
  unfold do_batch. intros H.
  match type of H with context [place_items ?a b] => destruct (place_items a b) as [st3 e3] eqn:E3 end.
  pose proof (place_items_cnt u _ _ _ _ E3) as H3. unfold cnt_step in *.
  assert (H0 : ccnt u (i_ms (if needs_blank st b
              then mki (insert_at (i_k st) [] (i_ms st)) (i_cache st) (match i_s st with INLINE => S (i_k st) | _ => i_k st end) (i_s st) (i_maxp st)
              else st)) = ccnt u (i_ms st)).
  { destruct (needs_blank st b); [simpl; rewrite ccnt_insert_at; reflexivity|reflexivity]. }
  simpl in H3. rewrite H0 in H3.
  destruct e3 as [e3|]; injection H as <- <-; simpl; exact H3.
Qed.

Lemma do_batches_cnt u bs : forall st st' e,
  do_batches st bs = (st', e) -> cnt_step u (i_ms st) (i_ms st') (icnt u (concat bs)) e.
Proof.
  unfold cnt_step. induction bs as [|b r IH]; intros st st' e H; simpl in H.
  - injection H as <- <-. simpl. rewrite icnt_nil. lia.
  - simpl. rewrite icnt_app. destruct (do_batch st b) as [st1 [e1|]] eqn:E1.
    + injection H as <- <-. pose proof (do_batch_cnt u _ _ _ _ E1) as H1. unfold cnt_step in H1.
      repeat split; try lia. discriminate.
    + pose proof (do_batch_cnt u _ _ _ _ E1) as H1. unfold cnt_step in H1.
      specialize (IH _ _ _ H). destruct H1 as [? [? H1]]. specialize (H1 eq_refl). destruct IH as [? [? IH]].
      repeat split; try lia. intros He. specialize (IH He). lia.
Qed.

Lemma latest_item_cnt u k st it st' e : latest_item k st it = (st', e) -> cnt_step u (l_ms st) (l_ms st') (cnt u (item_ops it)) e.
Proof.
  unfold latest_item, cnt_step. intros H. destruct it as [o|m]; simpl.
  - destruct (_ <? Z.of_nat k).
    + injection H as <- <-. simpl. rewrite ccnt_insert_at. lia.
    + destruct (_ <? _).
      * destruct (nth_error (l_ms st) _) as [m|] eqn:En; [|injection H as <- <-; repeat split; try lia; discriminate].
        destruct (with_operation m o) as [m'|] eqn:Ew; [|injection H as <- <-; repeat split; try lia; discriminate].
        injection H as <- <-. simpl. apply with_operation_eq in Ew. subst m'.
        pose proof (ccnt_replace_nth u _ (m ++ [o]) m _ En) as Hc. rewrite cnt_app in Hc. simpl in Hc. lia.
      * injection H as <- <-. simpl. rewrite ccnt_app, ccnt_cons, ccnt_nil. lia.
  - injection H as <- <-. simpl. rewrite ccnt_insert_at. lia.
Qed.

Lemma latest_items_cnt u k its : forall st st' e,
  latest_items k st its = (st', e) -> cnt_step u (l_ms st) (l_ms st') (icnt u its) e.
Proof.
  unfold cnt_step. induction its as [|it r IH]; intros st st' e H; simpl in H.
  - injection H as <- <-. rewrite icnt_nil. lia.
  - rewrite icnt_cons. destruct (latest_item k st it) as [st1 [e1|]] eqn:E1.
    + injection H as <- <-. pose proof (latest_item_cnt u _ _ _ _ _ E1) as H1. unfold cnt_step in H1.
      repeat split; try lia. discriminate.
    + pose proof (latest_item_cnt u _ _ _ _ _ E1) as H1. unfold cnt_step in H1.
      specialize (IH _ _ _ H). destruct H1 as [? [? H1]]. specialize (H1 eq_refl). destruct IH as [? [? IH]].
      repeat split; try lia. intros He. specialize (IH He). lia.
Qed.

Lemma latest_batches_cnt u k bs : forall st st' e,
  latest_batches k st bs = (st', e) -> cnt_step u (l_ms st) (l_ms st') (icnt u (concat bs)) e.
Proof.
  unfold cnt_step. induction bs as [|b r IH]; intros st st' e H; simpl in H.
  - injection H as <- <-. simpl. rewrite icnt_nil. lia.
  - simpl. rewrite icnt_app. destruct (latest_items k st b) as [st1 [e1|]] eqn:E1.
    + injection H as <- <-. pose proof (latest_items_cnt u _ _ _ _ _ E1) as H1. unfold cnt_step in H1.
      repeat split; try lia. discriminate.
    + pose proof (latest_items_cnt u _ _ _ _ _ E1) as H1. unfold cnt_step in H1.
      specialize (IH _ _ _ H). destruct H1 as [? [? H1]]. specialize (H1 eq_refl). destruct IH as [? [? IH]].
      repeat split; try lia. intros He. specialize (IH He). lia.
Qed.

Definition ok_of {A} (r : A + err) : option err := match r with inl _ => None | inr e => Some e end.

Theorem insert_cnt u c i its s c' r :
  insert c i its s = (c', r) -> cnt_step u (moms c) (moms c') (icnt u its) (ok_of r).
Proof.
  unfold insert. intros H.
  set (k := clamp_index i (length (moms c))) in *.
  match type of H with context [if ?b then None else cache c] => set (c0 := if b then None else cache c) in * end.
  pose proof (batches_concat c0 s its) as Hb.
  assert (Hx : forall a b e bs, concat bs = its -> cnt_step u a b (icnt u (concat bs)) e -> cnt_step u a b (icnt u its) e)
    by (intros a b e bs <-; trivial).
  destruct s.
  all: try (match type of H with context [do_batches ?a ?b] => destruct (do_batches a b) as [st e] eqn:E end;
            pose proof (do_batches_cnt u _ _ _ _ E) as Hc; (eapply Hx in Hc; [|exact Hb]);
            destruct e as [e|]; injection H as <- <-; simpl; exact Hc).
  match type of H with context [insert_latest ?a ?b ?d] => destruct (insert_latest a b d) as [st e] eqn:E end.
  unfold insert_latest in E. pose proof (latest_batches_cnt u _ _ _ _ _ E) as Hc.
  rewrite icnt_concat_rev in Hc. eapply Hx in Hc; [|exact Hb].
  destruct e as [e|]; injection H as <- <-; [exact Hc|].
  destruct (l_max st =? -1); simpl; exact Hc.
Qed.

Theorem construct_cnt u its s c' r :
  construct its s = (c', r) -> cnt_step u [] (moms c') (icnt u its) (ok_of r).
Proof.
  unfold construct. intros H. destruct (all_moments its) as [ms|] eqn:Ea.
  - injection H as <- <-. simpl. unfold cnt_step. rewrite ccnt_nil. simpl.
    assert (Hm : ccnt u ms = icnt u its).
    { clear -Ea. revert ms Ea. induction its as [|it r IH]; intros ms Ea; simpl in Ea.
      - injection Ea as <-. reflexivity.
      - destruct it as [o|m]; [discriminate|]. fold (all_moments r) in Ea.
        destruct (all_moments r) as [l|]; [|discriminate]. injection Ea as <-.
        rewrite ccnt_cons, icnt_cons, (IH l eq_refl). reflexivity. }
    lia.
  - destruct (is_earliest s).
    + destruct (place_items _ its) as [st e] eqn:E. pose proof (place_items_cnt u _ _ _ _ E) as Hc.
      destruct e as [e|]; injection H as <- <-; exact Hc.
    + unfold append in H. apply (insert_cnt u) in H. exact H.
Qed.

(* ==== _insert_latest reports "nothing changed" (max_latest_index = -1) only when nothing changed ==== *)
Lemma latest_item_max k st it st' : latest_item k st it = (st', None) -> 0 <= l_max st'.
Proof.
  unfold latest_item. intros H. destruct it as [o|m].
  - destruct (latest_available_moment (l_ms st) o k <? Z.of_nat k) eqn:E1.
    + injection H as <-. simpl. lia.
    + destruct (_ <? Z.of_nat (length (l_ms st))).
      * destruct (nth_error _ _); [|discriminate]. destruct (with_operation _ _); [|discriminate].
        injection H as <-. simpl. apply Z.ltb_ge in E1. lia.
      * injection H as <-. simpl. lia.
  - injection H as <-. simpl. lia.
Qed.

Lemma latest_items_max k its : forall st st', latest_items k st its = (st', None) -> st' = st \/ 0 <= l_max st'.
Proof.
  induction its as [|it r IH]; intros st st' H; simpl in H.
  - injection H as <-. left. reflexivity.
  - destruct (latest_item k st it) as [st1 [e1|]] eqn:E1; [discriminate|].
    apply latest_item_max in E1. destruct (IH _ _ H) as [->|Hm]; right; assumption.
Qed.

Lemma latest_batches_max k bs : forall st st', latest_batches k st bs = (st', None) -> st' = st \/ 0 <= l_max st'.
Proof.
  induction bs as [|b r IH]; intros st st' H; simpl in H.
  - injection H as <-. left. reflexivity.
  - destruct (latest_items k st b) as [st1 [e1|]] eqn:E1; [discriminate|].
    apply latest_items_max in E1. destruct (IH _ _ H) as [->|Hm]; [|right; exact Hm].
    destruct E1 as [->|E1]; [left; reflexivity|right; exact E1].
Qed.
