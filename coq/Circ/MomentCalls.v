(* C05 model, part 6: histories of public calls on a single Moment (the moment-level indexes
   _qubit_to_op / _measurement_key_objs / _control_keys are copied forward by these calls). *)
From Coq Require Import ZArith List Bool Arith.
From VF Require Import Base.Harness Circ.Moments.
Import ListNotations.
Open Scope Z_scope.

Inductive mcall :=
  | MWithOperation (o : opd)                 (* m.with_operation(op) *)
  | MWithOperations (ops : list opd)         (* m.with_operations(ops...), m + ops *)
  | MWithoutTouching (q : list Z)            (* m.without_operations_touching(qubits) *)
  | MNew (ops : list opd).                   (* Moment(ops) *)

(* a failing call raises ValueError and leaves the (immutable) moment as it was *)
Definition mstep (m : moment) (x : mcall) : moment * bool :=
  match x with
  | MWithOperation o => match with_operation m o with Some m' => (m', true) | None => (m, false) end
  | MWithOperations ops => match with_operations m ops with Some m' => (m', true) | None => (m, false) end
  | MWithoutTouching q => (without_touching m q, true)
  | MNew ops => match mk_moment ops with Some m' => (m', true) | None => (m, false) end
  end.

(* after every call: did it succeed, the uids, and the three indexes recomputed from the operations *)
Definition mobs (m : moment) : list Z * (list Z * (list Z * list Z)) :=
  (map uid m, (mqubits m, (mmkeys m, mckeys m))).
Fixpoint mtrace (m : moment) (h : list mcall) : list (bool * (list Z * (list Z * (list Z * list Z)))) :=
  match h with
  | [] => []
  | x :: r => let '(m', ok) := mstep m x in (ok, mobs m') :: mtrace m' r
  end.
Fixpoint mrun (m : moment) (h : list mcall) : moment :=
  match h with [] => m | x :: r => mrun (fst (mstep m x)) r end.

Definition mobs_eqb (a b : bool * (list Z * (list Z * (list Z * list Z)))) : bool :=
  Bool.eqb (fst a) (fst b) && zl_eqb (fst (snd a)) (fst (snd b))
  && set_eqb (fst (snd (snd a))) (fst (snd (snd b)))
  && set_eqb (fst (snd (snd (snd a)))) (fst (snd (snd (snd b))))
  && set_eqb (snd (snd (snd (snd a)))) (snd (snd (snd (snd b)))).
Definition check_moment_history (hc : list mcall * list (bool * (list Z * (list Z * (list Z * list Z))))) : bool :=
  list_eqb mobs_eqb (mtrace [] (fst hc)) (snd hc).

Definition mcall_wf (x : mcall) : Prop :=
  match x with
  | MWithOperation o => op_wf o
  | MWithOperations ops | MNew ops => Forall op_wf ops
  | MWithoutTouching _ => True
  end.
