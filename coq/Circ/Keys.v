(* C12 — measurement keys, key paths, key maps, scoped lookup of control keys, classical conditions.
   Model only (no proofs).  Written in the shape of
     cirq/value/measurement_key.py   (MeasurementKey: name, path; with_key_path_prefix, _with_measurement_key_mapping_,
                                      _with_rescoped_keys_)
     cirq/value/condition.py         (Condition._with_measurement_key_mapping_, _with_key_path_prefix_,
                                      _with_rescoped_keys_; KeyCondition / BitMaskKeyCondition / SympyCondition.replace_key)
   Key equality in Cirq is equality of the ':'-joined string; names cannot contain ':' (constructor check), and the
   model compares (path, name) componentwise, which is the same relation as long as no path component contains ':'. *)
From Coq Require Import ZArith List Bool String.
Import ListNotations.
Open Scope Z_scope.

Record mkey := MK { kpath : list string; kname : string }.

Fixpoint path_eqb (a b : list string) : bool :=
  match a, b with
  | [], [] => true
  | x :: a', y :: b' => String.eqb x y && path_eqb a' b'
  | _, _ => false
  end.

Definition key_eqb (a b : mkey) : bool := path_eqb (kpath a) (kpath b) && String.eqb (kname a) (kname b).
Definition key_in (k : mkey) (l : list mkey) : bool := existsb (key_eqb k) l.

(* MeasurementKey.with_key_path_prefix / _with_key_path_prefix_ / _with_rescoped_keys_ (a measurement key is
   always prefixed by the full path; bindable keys are ignored) *)
Definition key_prefix (p : list string) (k : mkey) : mkey := MK (p ++ kpath k) (kname k).

(* key maps are dicts str -> str looked up by the key's NAME (MeasurementKey._with_measurement_key_mapping_) *)
Definition kmap := list (string * string).
Fixpoint lookup (m : kmap) (s : string) : option string :=
  match m with
  | [] => None
  | (a, b) :: r => if String.eqb a s then Some b else lookup r s
  end.
Definition name_map (m : kmap) (s : string) : string := match lookup m s with Some t => t | None => s end.
Definition key_map (m : kmap) (k : mkey) : mkey := MK (kpath k) (name_map m (kname k)).

(* CircuitOperation.with_measurement_key_mapping: the dict stored on the operation after composing its present
   map m1 with a further map m2, restricted to the names `dom` the wrapped circuit touches:
     for k in dom: k' = m2.get(m1.get(k, k), m1.get(k, k)); if k' != k: new[k] = k'                            *)
Fixpoint kmap_compose (dom : list string) (m1 m2 : kmap) : kmap :=
  match dom with
  | [] => []
  | k :: r => let k' := name_map m2 (name_map m1 k) in
              if String.eqb k' k then kmap_compose r m1 m2 else (k, k') :: kmap_compose r m1 m2
  end.

(* Condition._with_rescoped_keys_: for i = 0 .. len(path): back_path = path[:len(path)-i];
   first prefixed key found among the bindable keys wins; None = nothing found, the key is left as it is *)
Fixpoint rescope_try (i : nat) (path : list string) (b : list mkey) (k : mkey) : option mkey :=
  let nk := key_prefix (firstn i path) k in
  if key_in nk b then Some nk
  else match i with O => None | S j => rescope_try j path b k end.
Definition rescope_key (path : list string) (b : list mkey) (k : mkey) : option mkey :=
  rescope_try (List.length path) path b k.

(* ---- conditions ---- *)
Inductive cond :=
| CKey (k : mkey) (idx : Z)                                                   (* KeyCondition(key, index)  *)
| CMask (k : mkey) (idx : Z) (target : Z) (eqt : bool) (mask : option Z)       (* BitMaskKeyCondition        *)
| CSym (eid : Z) (slots : list mkey).                                         (* SympyCondition: expression template eid
                                                                                  whose free key symbols are `slots` *)

Fixpoint key_nodup (l : list mkey) : list mkey :=
  match l with
  | [] => []
  | k :: r => if key_in k r then key_nodup r else k :: key_nodup r
  end.

Definition cond_keys (c : cond) : list mkey :=
  match c with
  | CKey k _ => [k]
  | CMask k _ _ _ _ => [k]
  | CSym _ s => key_nodup s
  end.

(* replace_key.  `keepK` / `keepM` say whether KeyCondition.replace_key / BitMaskKeyCondition.replace_key keep the
   other fields of the condition; they are read off the working tree on every run (Generated/CondTables.v):
   today both rebuild the condition from the key alone (defect candidate F2). *)
Definition replace_key (keepK keepM : bool) (cur rep : mkey) (c : cond) : cond :=
  match c with
  | CKey k i => if key_eqb k cur then (if keepK then CKey rep i else CKey rep (-1)) else c
  | CMask k i t e m => if key_eqb k cur then (if keepM then CMask rep i t e m else CMask rep (-1) 0 false None) else c
  | CSym e s => CSym e (map (fun k => if key_eqb k cur then rep else k) s)
  end.

(* Condition._with_measurement_key_mapping_ / _with_key_path_prefix_: every key of the condition is replaced by its
   image (replace_key is called for every key, also when the image equals the key).  For sympy conditions the
   model substitutes all keys simultaneously (the specification); the implementation substitutes one key after the
   other in set-iteration order, which differs exactly when an image collides with another key of the expression. *)
Definition cond_apply (keepK keepM : bool) (f : mkey -> mkey) (c : cond) : cond :=
  match c with
  | CKey k _ => replace_key keepK keepM k (f k) c
  | CMask k _ _ _ _ => replace_key keepK keepM k (f k) c
  | CSym e s => CSym e (map f s)
  end.
Definition cond_key_map keepK keepM (m : kmap) := cond_apply keepK keepM (key_map m).
Definition cond_prefix keepK keepM (p : list string) := cond_apply keepK keepM (key_prefix p).

(* Condition._with_rescoped_keys_: a key is replaced only when a binding is found *)
Definition cond_rescope (keepK keepM : bool) (path : list string) (b : list mkey) (c : cond) : cond :=
  match c with
  | CKey k _ | CMask k _ _ _ _ =>
      match rescope_key path b k with Some nk => replace_key keepK keepM k nk c | None => c end
  | CSym e s => CSym e (map (fun k => match rescope_key path b k with Some nk => nk | None => k end) s)
  end.

(* what a condition tests, as data: (key, index, mask, target, equal?) for key conditions; used to state that a
   remapping changes only the key *)
Definition cond_payload (c : cond) : option (Z * Z * bool * option Z) :=
  match c with
  | CKey _ i => Some (i, 0, false, None)
  | CMask _ i t e m => Some (i, t, e, m)
  | CSym _ _ => None
  end.

(* resolve (KeyCondition.resolve / BitMaskKeyCondition.resolve) against the integer value of a record *)
Definition cond_test (c : cond) (v : Z) : bool :=
  match c with
  | CKey _ _ => negb (v =? 0)
  | CMask _ _ t e m => let w := match m with Some b => Z.land v b | None => v end in
                       if e then w =? t else negb (w =? t)
  | CSym _ _ => negb (v =? 0)
  end.

(* ---- boolean equalities used by the correspondence check ---- *)
Fixpoint keys_eqb (a b : list mkey) : bool :=
  match a, b with
  | [], [] => true
  | x :: a', y :: b' => key_eqb x y && keys_eqb a' b'
  | _, _ => false
  end.
Definition optZ_eqb (a b : option Z) : bool :=
  match a, b with Some x, Some y => x =? y | None, None => true | _, _ => false end.
Definition cond_eqb (a b : cond) : bool :=
  match a, b with
  | CKey k i, CKey k' i' => key_eqb k k' && (i =? i')
  | CMask k i t e m, CMask k' i' t' e' m' => key_eqb k k' && (i =? i') && (t =? t') && Bool.eqb e e' && optZ_eqb m m'
  | CSym e s, CSym e' s' => (e =? e') && keys_eqb s s'
  | _, _ => false
  end.
Definition optkey_eqb (a b : option mkey) : bool :=
  match a, b with Some x, Some y => key_eqb x y | None, None => true | _, _ => false end.
(* set equality of key lists (frozensets on the Python side) *)
Definition keys_subset (a b : list mkey) : bool := forallb (fun k => key_in k b) a.
Definition keyset_eqb (a b : list mkey) : bool := keys_subset a b && keys_subset b a.
