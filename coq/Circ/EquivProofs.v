(* C05 proofs, part 8: the cached EARLIEST append builds exactly the moments the uncached insert at
   the end builds (second half of D3). *)
From Coq Require Import ZArith List Bool Arith Lia.
From VF Require Import Circ.Moments Circ.Placement Circ.Insert Circ.MomentsProofs Circ.InsertProofs
  Circ.PlacementProofs Circ.CacheProofs Circ.OrderProofs Circ.TotalProofs.
Import ListNotations.
Open Scope Z_scope.

Local Arguments place : simpl never.
Local Arguments insert_at : simpl never.
Local Arguments replace_nth : simpl never.
Local Arguments earliest_available_moment : simpl never.
Local Arguments blocks : simpl never.
Local Arguments can_add_op_at : simpl never.
Local Arguments Nat.max : simpl never.
Local Arguments nth_error : simpl never.
Local Arguments with_operation : simpl never.
Local Arguments cache_append : simpl never.

(* the result of a backward scan is determined by its specification *)
Lemma scan_unique ms o n p1 p2 :
  (p1 <= n)%nat -> (p2 <= n)%nat ->
  (forall j, (p1 <= j < n)%nat -> free_at ms o j) -> (p1 = O \/ blocked_at ms o (Nat.pred p1)) ->
  (forall j, (p2 <= j < n)%nat -> free_at ms o j) -> (p2 = O \/ blocked_at ms o (Nat.pred p2)) -> p1 = p2.
Proof.
  intros H1 H2 F1 B1 F2 B2.
  assert (G : forall a b, (a <= n)%nat -> (b <= n)%nat -> (forall j, (a <= j < n)%nat -> free_at ms o j) ->
              (b = O \/ blocked_at ms o (Nat.pred b)) -> (b <= a)%nat).
  { intros a b Ha Hb Fa Bb. destruct (Nat.le_gt_cases b a) as [Hle|Hgt]; [exact Hle|]. exfalso.
    destruct Bb as [->|[m [Hn Hb']]]; [lia|]. destruct (Fa (Nat.pred b) ltac:(lia)) as [m' [Hn' Hf]]. congruence. }
  pose proof (G p1 p2 H1 H2 F1 B2). pose proof (G p2 p1 H2 H1 F2 B1). lia.
Qed.

Lemma eam_extend ms o k n : (k <= n)%nat -> (n <= length ms)%nat ->
  (forall j, (k <= j < n)%nat -> free_at ms o j) ->
  earliest_available_moment ms o n = earliest_available_moment ms o k.
Proof.
  intros Hkn Hn Hf. destruct (eam_spec ms o n Hn) as [A1 [A2 A3]]. destruct (eam_spec ms o k ltac:(lia)) as [B1 [B2 B3]].
  apply (scan_unique ms o n); try assumption; try lia.
  intros j Hj. destruct (Nat.lt_ge_cases j k) as [Hlt|Hge]; [apply B2; lia|apply Hf; lia].
Qed.

(* ---- the index computed from a correct cache is the one the scan finds ---- *)
Lemma last_index_sound sel k c : forall base i, last_index sel k c base = Some i ->
  exists m, nth_error c (i - base) = Some m /\ memz k (sel m) = true.
Proof.
  induction c as [|m r IH]; intros base i H; simpl in H; [discriminate|].
  destruct (last_index sel k r (S base)) as [j|] eqn:E.
  - injection H as <-. pose proof (last_index_bounds _ _ _ _ _ E) as Hb. destruct (IH _ _ E) as [m' [Hn Hm]].
    exists m'. split; [|exact Hm]. replace (j - base)%nat with (S (j - S base)) by lia. exact Hn.
  - destruct (memz k (sel m)) eqn:Em; [|discriminate]. injection H as <-. exists m. rewrite Nat.sub_diag. split; [reflexivity|exact Em].
Qed.

Lemma max_after_attained mp ks i : max_after mp ks = S i -> exists k, In k ks /\ lookup k mp = Some i.
Proof.
  induction ks as [|x r IH]; simpl; [discriminate|]. intros H.
  destruct (Nat.max_spec (after mp x) (max_after mp r)) as [[_ E]|[_ E]]; rewrite E in H.
  - destruct (IH H) as [k [Hk Hl]]. exists k. split; [right; exact Hk|exact Hl].
  - exists x. split; [left; reflexivity|]. unfold after in H. destruct (lookup x mp); [injection H as ->; reflexivity|discriminate].
Qed.

Lemma memz_flat_in (sel : opd -> list Z) z m : memz z (flat_map sel m) = true -> exists x, In x m /\ In z (sel x).
Proof. intros H. apply memz_In in H. apply in_flat_map in H. exact H. Qed.

Lemma gea_blocked pc ms o : cache_matches pc ms ->
  let idx := gea_index pc (IOp o) in idx = O \/ blocked_at ms o (Nat.pred idx).
Proof.
  intros [Hlen [Hq [Hm Hc]]] idx. destruct idx as [|i] eqn:Ei; [left; reflexivity|right]. cbn [Nat.pred].
  unfold idx, gea_index in Ei.
  assert (G : forall (sel : moment -> list Z) (sel1 : opd -> list Z) mp ks,
            (forall m, sel m = flat_map sel1 m) -> (forall k, lookup k mp = last_index sel k ms 0) -> max_after mp ks = S i ->
            (forall x z, In z ks -> In z (sel1 x) -> conflicts x o = true) -> blocked_at ms o i).
  { intros sel sel1 mp ks Hsel Hmp Hmax Hconf. destruct (max_after_attained mp ks i Hmax) as [z [Hz Hl]].
    rewrite Hmp in Hl. destruct (last_index_sound sel z ms 0 i Hl) as [m [Hn Hmem]]. rewrite Nat.sub_0_r in Hn.
    rewrite Hsel in Hmem. destruct (memz_flat_in sel1 z m Hmem) as [x [Hx Hzx]].
    exists m. split; [exact Hn|]. apply blocks_spec. exists x. split; [exact Hx|]. eapply Hconf; eassumption. }
  assert (Hnd : forall a b z, In z a -> In z b -> negb (disjointb a b) = true)
    by (intros a b z Ha Hb; apply not_disjoint_spec; exists z; split; assumption).
  destruct (Nat.max_spec (max_after (qi pc) (qs o)) (Nat.max (Nat.max (max_after (mi pc) (mk o)) (max_after (ci pc) (mk o))) (max_after (mi pc) (ck o)))) as [[_ E1]|[_ E1]];
    rewrite E1 in Ei.
  - destruct (Nat.max_spec (Nat.max (max_after (mi pc) (mk o)) (max_after (ci pc) (mk o))) (max_after (mi pc) (ck o))) as [[_ E2]|[_ E2]];
      rewrite E2 in Ei.
    + apply (G mmkeys mk (mi pc) (ck o) (fun m => eq_refl) Hm Ei). intros x z Hz Hzx. unfold conflicts.
      rewrite (Hnd (ck o) (mk x) z Hz Hzx). rewrite !orb_true_r. reflexivity.
    + destruct (Nat.max_spec (max_after (mi pc) (mk o)) (max_after (ci pc) (mk o))) as [[_ E3]|[_ E3]]; rewrite E3 in Ei.
      * apply (G mckeys ck (ci pc) (mk o) (fun m => eq_refl) Hc Ei). intros x z Hz Hzx. unfold conflicts.
        rewrite (Hnd (ck x) (mk o) z Hzx Hz). rewrite !orb_true_r. reflexivity.
      * apply (G mmkeys mk (mi pc) (mk o) (fun m => eq_refl) Hm Ei). intros x z Hz Hzx. unfold conflicts.
        rewrite (Hnd (mk o) (mk x) z Hz Hzx). rewrite !orb_true_r. reflexivity.
  - apply (G mqubits qs (qi pc) (qs o) (fun m => eq_refl) Hq Ei). intros x z Hz Hzx. unfold conflicts.
    rewrite (Hnd (qs o) (qs x) z Hz Hzx). reflexivity.
Qed.

Theorem gea_eq_eam pc ms o : cache_matches pc ms ->
  gea_index pc (IOp o) = earliest_available_moment ms o (length ms).
Proof.
  intros Hm. destruct (cache_append pc (IOp o)) as [idx pc'] eqn:Ea.
  assert (Hidx : idx = gea_index pc (IOp o)) by (unfold cache_append in Ea; injection Ea as <- _; reflexivity).
  rewrite <- Hidx.
  destruct (cache_place_ok pc ms (IOp o) idx pc' Hm Ea) as [ms' [Hp _]].
  assert (Hle : (idx <= length ms)%nat).
  { unfold place in Hp. destruct (Nat.eqb_spec idx (length ms)) as [E|E]; [lia|].
    destruct (nth_error ms idx) eqn:En; [|discriminate]. assert (idx < length ms)%nat by (apply nth_error_Some; congruence). lia. }
  destruct (eam_spec ms o (length ms) (le_n _)) as [A1 [A2 A3]].
  apply (scan_unique ms o (length ms)); try assumption.
  - exact (cached_place_free pc ms o idx pc' Hm Ea).
  - rewrite Hidx. apply gea_blocked. exact Hm.
Qed.

(* ---- simulation: cached placement of a batch vs the uncached EARLIEST loop started at k0 = len ---- *)
Definition tail_free (ms : list moment) (k0 : nat) (o : opd) : Prop :=
  forall j, (k0 <= j < length ms)%nat -> free_at ms o j.

Definition Jw (ms : list moment) (k0 maxp : nat) : Prop :=
  (length ms = k0 /\ (maxp = O \/ (maxp < k0)%nat)) \/ (length ms = S k0 /\ maxp = k0).
Definition Js (ms : list moment) (k0 maxp : nat) : Prop :=
  (length ms = k0 /\ (maxp < k0)%nat) \/ (length ms = S k0 /\ maxp = k0).

Lemma Js_Jw ms k0 maxp : Js ms k0 maxp -> Jw ms k0 maxp.
Proof. intros [[H1 H2]|H]; [left; split; [exact H1|right; exact H2]|right; exact H]. Qed.

Lemma place_item_sim ms pc k0 maxp kc mc o :
  cache_matches pc ms -> (k0 <= length ms)%nat -> tail_free ms k0 o -> Jw ms k0 maxp ->
  exists ms' pc' kc' mc' maxp',
    place_item (mki ms (Some pc) kc EARLIEST mc) (IOp o) = (mki ms' (Some pc') kc' EARLIEST mc', None) /\
    place_item (mki ms None k0 EARLIEST maxp) (IOp o) = (mki ms' None k0 EARLIEST maxp', None) /\
    cache_matches pc' ms' /\ Js ms' k0 maxp' /\ (length ms <= length ms')%nat /\
    (forall o2, compat o o2 -> tail_free ms k0 o2 -> tail_free ms' k0 o2).
Proof.
  intros Hm Hk Ht HJ.
  destruct (cache_append pc (IOp o)) as [idx pc'] eqn:Ea.
  assert (Hidx : idx = gea_index pc (IOp o)) by (unfold cache_append in Ea; injection Ea as <- _; reflexivity).
  destruct (cache_place_ok pc ms (IOp o) idx pc' Hm Ea) as [ms' [Hp Hm']].
  assert (Hp_eq : earliest_available_moment ms o k0 = idx).
  { rewrite Hidx, (gea_eq_eam pc ms o Hm). symmetry. apply eam_extend; [exact Hk|lia|exact Ht]. }
  destruct (eam_spec ms o k0 Hk) as [Hle _]. rewrite Hp_eq in Hle.
  exists ms', pc'. unfold place_item, determine. cbn [i_cache i_ms i_k i_s i_maxp]. rewrite Ea, Hp_eq, Hp.
  eexists. eexists. eexists. split; [reflexivity|]. split; [reflexivity|]. split; [exact Hm'|].
  (* the shape of ms' *)
  unfold place in Hp. destruct (Nat.eqb_spec idx (length ms)) as [E|E].
  - injection Hp as <-. unfold Js, Jw in *. rewrite !app_length. cbn [length]. split.
    + right. destruct HJ as [[H1 H2]|[H1 H2]]; [|lia]. split; [lia|]. destruct H2; lia.
    + split; [lia|]. intros o2 [Hc12 _] Ht2 j Hj. rewrite app_length in Hj. simpl in Hj.
      destruct (Nat.eq_dec j (length ms)) as [->|Hne].
      * exists [o]. split; [rewrite nth_error_app2 by lia; rewrite Nat.sub_diag; reflexivity|apply blocks_single; exact Hc12].
      * apply free_at_after_append. apply Ht2. lia.
  - destruct (nth_error ms idx) as [m|] eqn:En; [|discriminate].
    destruct (with_operation m o) as [m'|] eqn:Ew; [|discriminate]. injection Hp as <-.
    apply with_operation_eq in Ew. subst m'. unfold Js, Jw in *. rewrite !replace_nth_length.
    assert (Hlt : (idx < length ms)%nat) by (apply nth_error_Some; congruence). split.
    + destruct HJ as [[H1 H2]|[H1 H2]]; [left|right]; split; try lia.
    + split; [lia|]. intros o2 [Hc12 _] Ht2 j Hj. rewrite replace_nth_length in Hj.
      eapply free_at_after_join; [exact En|exact Hc12|apply Ht2; exact Hj].
Qed.

Lemma place_items_sim ops : forall ms pc k0 maxp kc mc,
  cache_matches pc ms -> (k0 <= length ms)%nat -> pairwise ops -> Forall (tail_free ms k0) ops -> Jw ms k0 maxp ->
  exists ms' pc' kc' mc' maxp',
    place_items (mki ms (Some pc) kc EARLIEST mc) (map IOp ops) = (mki ms' (Some pc') kc' EARLIEST mc', None) /\
    place_items (mki ms None k0 EARLIEST maxp) (map IOp ops) = (mki ms' None k0 EARLIEST maxp', None) /\
    cache_matches pc' ms' /\ (ops <> [] -> Js ms' k0 maxp') /\ (ops = [] -> ms' = ms /\ maxp' = maxp).
Proof.
  induction ops as [|o r IH]; intros ms pc k0 maxp kc mc Hm Hk Hp Ht HJ; cbn [map place_items].
  - exists ms, pc, kc, mc, maxp. split; [reflexivity|]. split; [reflexivity|]. split; [exact Hm|].
    split; [intros H; congruence|intros _; split; reflexivity].
  - destruct Hp as [Hpo Hpr]. inversion Ht as [|? ? Hto Htr]; subst.
    destruct (place_item_sim ms pc k0 maxp kc mc o Hm Hk Hto HJ) as [ms1 [pc1 [kc1 [mc1 [maxp1 [H1 [H2 [Hm1 [HJ1 [Hl1 Hpres]]]]]]]]]].
    rewrite H1, H2.
    assert (Ht1 : Forall (tail_free ms1 k0) r).
    { rewrite Forall_forall in *. intros o2 Ho2. apply Hpres; [apply Hpo; exact Ho2|apply Htr; exact Ho2]. }
    destruct (IH ms1 pc1 k0 maxp1 kc1 mc1 Hm1 ltac:(lia) Hpr Ht1 (Js_Jw _ _ _ HJ1)) as [ms2 [pc2 [kc2 [mc2 [maxp2 [G1 [G2 [Hm2 [HJ2 He2]]]]]]]]].
    exists ms2, pc2, kc2, mc2, maxp2. split; [exact G1|]. split; [exact G2|]. split; [exact Hm2|].
    split; [|intros H; discriminate]. intros _. destruct r as [|o2 r2]; [|apply HJ2; discriminate].
    destruct (He2 eq_refl) as [-> ->]. exact HJ1.
Qed.

Lemma can_add_end (ms : list moment) o : can_add_op_at ms (length ms) o = true.
Proof. rewrite can_add_spec. replace (nth_error ms (length ms)) with (@None moment); [reflexivity|]. symmetry. apply nth_error_None. lia. Qed.

Lemma place_items_app b1 : forall st b2,
  place_items st (b1 ++ b2) = match place_items st b1 with (st1, None) => place_items st1 b2 | bad => bad end.
Proof.
  induction b1 as [|it r IH]; intros st b2; cbn [app place_items]; [reflexivity|].
  destruct (place_item st it) as [st1 [e|]]; [reflexivity|apply IH].
Qed.

(* one batch: the cached placement of its items and the uncached do_batch started at the end agree *)
Lemma do_batch_sim b ms pc kc mc maxp :
  batch_ok b -> cache_matches pc ms ->
  exists ms' pc' kc' mc' maxp',
    place_items (mki ms (Some pc) kc EARLIEST mc) b = (mki ms' (Some pc') kc' EARLIEST mc', None) /\
    do_batch (mki ms None (length ms) EARLIEST maxp) b = (mki ms' None (length ms') EARLIEST maxp', None) /\
    cache_matches pc' ms'.
Proof.
  intros Hb Hm. destruct Hb as [[m ->]|[ops [Hne [Ho Hp]]]].
  - (* a Moment *)
    destruct (cache_append pc (IMom m)) as [idx pc'] eqn:Ea.
    destruct (cache_place_ok pc ms (IMom m) idx pc' Hm Ea) as [ms' [Hpl Hm']].
    assert (Hidx : idx = length ms).
    { unfold cache_append in Ea. injection Ea as <- _. cbn [gea_index]. destruct Hm as [Hl _]. exact Hl. }
    subst idx. unfold place in Hpl. injection Hpl as <-.
    exists (insert_at (length ms) m ms), pc'. unfold do_batch, needs_blank. cbn [i_cache i_ms i_k i_s i_maxp place_items].
    unfold place_item, determine. cbn [i_cache i_ms i_k i_s i_maxp]. rewrite Ea. unfold place.
    eexists. eexists. eexists. split; [reflexivity|]. split; [|exact Hm'].
    cbn [i_cache i_ms i_k i_s i_maxp]. rewrite insert_at_length_S. repeat f_equal. lia.
  - apply ops_of_batch_inv in Ho. subst b.
    destruct (place_items_sim ops ms pc (length ms) 0 kc mc Hm (le_n _) Hp) as [ms' [pc' [kc' [mc' [maxp' [G1 [G2 [Hm' [HJ _]]]]]]]]].
    + apply Forall_forall. intros o _ j Hj. lia.
    + left. split; [reflexivity|left; reflexivity].
    + exists ms', pc', kc', mc'. eexists. split; [exact G1|]. split; [|exact Hm'].
      unfold do_batch.
      assert (Hnb : needs_blank (mki ms None (length ms) EARLIEST maxp) (map IOp ops) = false).
      { unfold needs_blank. cbn [i_cache i_s i_ms i_k]. destruct ops as [|o0 r0]; [reflexivity|]. cbn [map].
        change (IOp o0 :: map IOp r0) with (map IOp (o0 :: r0)). rewrite forallb_map_IOp.
        replace (forallb _ (o0 :: r0)) with true; [reflexivity|]. symmetry. apply forallb_forall. intros o _.
        rewrite can_add_end. reflexivity. }
      rewrite Hnb. cbn [i_ms i_cache i_k i_s i_maxp]. rewrite G2. cbn [i_ms i_cache i_k i_s i_maxp].
      specialize (HJ Hne). repeat f_equal. unfold Js in HJ. lia.
Qed.

Lemma do_batches_sim bs : forall ms pc kc mc maxp,
  Forall batch_ok bs -> cache_matches pc ms ->
  exists ms' pc' kc' mc' maxp',
    place_items (mki ms (Some pc) kc EARLIEST mc) (concat bs) = (mki ms' (Some pc') kc' EARLIEST mc', None) /\
    do_batches (mki ms None (length ms) EARLIEST maxp) bs = (mki ms' None (length ms') EARLIEST maxp', None).
Proof.
  induction bs as [|b r IH]; intros ms pc kc mc maxp Hb Hm; cbn [concat do_batches].
  - exists ms, pc, kc, mc, maxp. split; reflexivity.
  - inversion Hb; subst.
    destruct (do_batch_sim b ms pc kc mc maxp H1 Hm) as [ms1 [pc1 [kc1 [mc1 [maxp1 [G1 [G2 Hm1]]]]]]].
    rewrite place_items_app, G1, G2.
    destruct (IH ms1 pc1 kc1 mc1 maxp1 H2 Hm1) as [ms2 [pc2 [kc2 [mc2 [maxp2 [K1 K2]]]]]].
    exists ms2, pc2, kc2, mc2, maxp2. split; assumption.
Qed.

(* ==== D3, second half: with a correct cache, append builds what the uncached insert at the end builds ==== *)
Theorem cached_append_eq_uncached c its pc :
  cache c = Some pc -> cache_matches pc (moms c) ->
  moms (fst (append c its EARLIEST)) = moms (fst (append (mkc (moms c) None (sm c)) its EARLIEST)).
Proof.
  intros Hc Hm. unfold append, insert. cbn [moms cache sm].
  assert (Hk : clamp_index (Z.of_nat (length (moms c))) (length (moms c)) = length (moms c)).
  { unfold clamp_index. destruct (0 <=? Z.of_nat (length (moms c))) eqn:E; lia. }
  rewrite Hk, Nat.eqb_refl, Hc. cbn [strategy_eqb negb orb do_batches].
  destruct (do_batches_sim (group_into_moment_compatible its) (moms c) pc (length (moms c)) 0 0 (group_batches_ok its) Hm)
    as [ms' [pc' [kc' [mc' [maxp' [G1 G2]]]]]].
  rewrite group_concat in G1. rewrite G2.
  unfold do_batch. assert (Hnb : needs_blank (mki (moms c) (Some pc) (length (moms c)) EARLIEST 0) its = false) by reflexivity.
  rewrite Hnb. cbn [i_ms i_cache i_k i_s i_maxp]. rewrite G1. reflexivity.
Qed.

(* ==== D4 for append / EARLIEST at the end, any operation tree, cached or not:
        the items are taken in order; each operation is put somewhere such that nothing behind it
        conflicts with it (so it follows every conflicting operation that was there or was inserted
        before it), each Moment goes to the very end ==== *)
Definition ins_ok (L : list opd) (o : opd) (L1 : list opd) : Prop :=
  exists a b, L = a ++ b /\ L1 = a ++ o :: b /\ filter (fun x => conflicts x o) b = [].
Inductive reach : list opd -> list item -> list opd -> Prop :=
  | reach_nil L : reach L [] L
  | reach_op L o its L1 L2 : ins_ok L o L1 -> reach L1 its L2 -> reach L (IOp o :: its) L2
  | reach_mom L m its L2 : reach (L ++ m) its L2 -> reach L (IMom m :: its) L2.

Lemma place_items_cached_reach its : forall st pc,
  i_cache st = Some pc -> cache_matches pc (i_ms st) ->
  exists st' pc', place_items st its = (st', None) /\ i_cache st' = Some pc' /\ cache_matches pc' (i_ms st') /\
                  reach (lin (i_ms st)) its (lin (i_ms st')).
Proof.
  induction its as [|it r IH]; intros st pc Hc Hm; cbn [place_items].
  - exists st, pc. split; [reflexivity|]. split; [exact Hc|]. split; [exact Hm|constructor].
  - destruct (place_item_cached st it pc Hc Hm) as [st1 [pc1 [H1 [Hc1 Hm1]]]]. rewrite H1.
    destruct (IH st1 pc1 Hc1 Hm1) as [st2 [pc2 [H2 [Hc2 [Hm2 Hr2]]]]].
    exists st2, pc2. split; [exact H2|]. split; [exact Hc2|]. split; [exact Hm2|].
    (* what this one placement did to the linearisation *)
    unfold place_item, determine in H1. rewrite Hc in H1.
    destruct (cache_append pc it) as [idx pc'] eqn:Ea.
    destruct it as [o|m].
    + destruct (cached_append_lands pc (i_ms st) o idx pc' Hm Ea) as [ms' [Hp Hl]]. rewrite Hp in H1.
      assert (Hms1 : i_ms st1 = ms') by (destruct (i_s st); injection H1 as <-; reflexivity).
      destruct (lands_lin (i_ms st) ms' o (length (i_ms st)) (le_n _) Hl) as [l1 [l2 [E1 [E2 [_ E4]]]]].
      rewrite skipn_all in E4. cbn in E4. apply (reach_op _ o r (lin ms')); [|rewrite <- Hms1; exact Hr2].
      exists l1, l2. split; [exact E1|]. split; [exact E2|exact E4].
    + destruct (cache_place_ok pc (i_ms st) (IMom m) idx pc' Hm Ea) as [ms' [Hp _]]. rewrite Hp in H1.
      assert (Hms1 : i_ms st1 = ms') by (destruct (i_s st); injection H1 as <-; reflexivity).
      assert (Hidx : idx = length (i_ms st)).
      { unfold cache_append in Ea. injection Ea as <- _. cbn [gea_index]. destruct Hm as [Hl _]. exact Hl. }
      subst idx. unfold place in Hp. injection Hp as <-. rewrite insert_at_length in Hms1.
      apply reach_mom. rewrite Hms1 in Hr2. unfold lin in *. rewrite concat_app in Hr2. simpl in Hr2. rewrite app_nil_r in Hr2. exact Hr2.
Qed.

(* a cache that agrees with given moments always exists *)
Definition amap_of (sel : moment -> list Z) (ms : list moment) : amap :=
  flat_map (fun k => match last_index sel k ms 0 with Some i => [(k, i)] | None => [] end) (flat_map sel ms).
Definition cache_of (ms : list moment) : pcache :=
  mkpc (amap_of mqubits ms) (amap_of mmkeys ms) (amap_of mckeys ms) (length ms).

Lemma last_index_none sel k c : forall base, last_index sel k c base = None -> ~ In k (flat_map sel c).
Proof.
  induction c as [|m r IH]; intros base H; simpl in *; [tauto|].
  destruct (last_index sel k r (S base)) eqn:E; [discriminate|].
  destruct (memz k (sel m)) eqn:Em; [discriminate|]. apply memz_false in Em.
  intro Hin. apply in_app_or in Hin as [Hin|Hin]; [exact (Em Hin)|exact (IH _ E Hin)].
Qed.

Lemma lookup_amap_of sel ms k : lookup k (amap_of sel ms) = last_index sel k ms 0.
Proof.
  unfold amap_of.
  assert (G : forall l, lookup k (flat_map (fun k0 => match last_index sel k0 ms 0 with Some i => [(k0, i)] | None => [] end) l)
                        = if memz k l then last_index sel k ms 0 else None).
  { induction l as [|x r IH]; [reflexivity|]. simpl. destruct (Z.eqb_spec k x) as [->|Hne].
    - simpl. destruct (last_index sel x ms 0) as [i|] eqn:E; simpl.
      + rewrite Z.eqb_refl. reflexivity.
      + rewrite IH. destruct (memz x r); reflexivity.
    - simpl. destruct (last_index sel x ms 0) as [i|] eqn:E; simpl.
      + replace (Z.eqb k x) with false by (symmetry; apply Z.eqb_neq; exact Hne). exact IH.
      + exact IH. }
  rewrite G. destruct (memz k (flat_map sel ms)) eqn:Em; [reflexivity|].
  apply memz_false in Em. destruct (last_index sel k ms 0) as [i|] eqn:E; [|reflexivity].
  exfalso. destruct (last_index_sound sel k ms 0 i E) as [m [Hn Hmem]]. apply Em. apply in_flat_map. exists m.
  split; [eapply nth_error_In; exact Hn|apply memz_In; exact Hmem].
Qed.

Lemma cache_of_matches ms : cache_matches (cache_of ms) ms.
Proof. unfold cache_matches, cache_of. simpl. repeat split; intros k; apply lookup_amap_of. Qed.

Theorem append_order c its : cache_ok c ->
  exists c' z, append c its EARLIEST = (c', inl z) /\ reach (lin (moms c)) its (lin (moms c')).
Proof.
  intros Hok.
  (* with a (possibly made up) correct cache the loop is place_items, and the moments do not depend on the cache *)
  assert (G : forall pc, cache_matches pc (moms c) ->
              reach (lin (moms c)) its (lin (moms (fst (append (mkc (moms c) (Some pc) (sm c)) its EARLIEST))))).
  { intros pc Hm. unfold append, insert. cbn [moms cache sm].
    assert (Hk : clamp_index (Z.of_nat (length (moms c))) (length (moms c)) = length (moms c)).
    { unfold clamp_index. destruct (0 <=? Z.of_nat (length (moms c))) eqn:E; lia. }
    rewrite Hk, Nat.eqb_refl. cbn [strategy_eqb negb orb do_batches]. unfold do_batch.
    assert (Hnb : needs_blank (mki (moms c) (Some pc) (length (moms c)) EARLIEST 0) its = false) by reflexivity.
    rewrite Hnb. cbn [i_ms i_cache i_k i_s i_maxp].
    destruct (place_items_cached_reach its (mki (moms c) (Some pc) (length (moms c)) EARLIEST 0) pc eq_refl Hm)
      as [st' [pc' [H1 [_ [_ Hr]]]]].
    rewrite H1. exact Hr. }
  destruct (insert_total c (Z.of_nat (length (moms c))) its EARLIEST Hok) as [c' [z H]].
  exists c', z. split; [exact H|].
  destruct (cache c) as [pc|] eqn:Ec.
  - specialize (G pc (Hok pc Ec)). replace (mkc (moms c) (Some pc) (sm c)) with c in G by (destruct c; simpl in *; congruence).
    unfold append in G. rewrite H in G. exact G.
  - specialize (G (cache_of (moms c)) (cache_of_matches _)).
    rewrite (cached_append_eq_uncached (mkc (moms c) (Some (cache_of (moms c))) (sm c)) its (cache_of (moms c)) eq_refl (cache_of_matches _)) in G.
    cbn [moms sm] in G. replace (mkc (moms c) None (sm c)) with c in G by (destruct c; simpl in *; congruence).
    unfold append in G. rewrite H in G. exact G.
Qed.

Lemma reach_all_moments its : forall ms L, all_moments its = Some ms -> reach L its (L ++ lin ms).
Proof.
  induction its as [|it r IH]; intros ms L H; simpl in H.
  - injection H as <-. unfold lin. simpl. rewrite app_nil_r. constructor.
  - destruct it as [o|m]; [discriminate|]. fold (all_moments r) in H.
    destruct (all_moments r) as [l|] eqn:E; [|discriminate]. injection H as <-.
    apply reach_mom. unfold lin. simpl. rewrite app_assoc. apply (IH l (L ++ m) eq_refl).
Qed.

(* the same for the constructor Circuit(tree) with the default strategy *)
Theorem construct_order its : exists c', construct its EARLIEST = (c', inl 0) /\ reach [] its (lin (moms c')).
Proof.
  unfold construct. destruct (all_moments its) as [ms|] eqn:Ea.
  - eexists. split; [reflexivity|]. cbn [moms from_moments]. apply (reach_all_moments its ms [] Ea).
  - cbn [is_earliest strategy_eqb].
    destruct (place_items_cached_reach its (mki [] (Some empty_cache) 0 EARLIEST 0) empty_cache eq_refl) as [st' [pc' [H1 [_ [_ Hr]]]]].
    { repeat split. }
    rewrite H1. eexists. split; [reflexivity|]. exact Hr.
Qed.
