(* C05 model, part 5: public calls, their results, and running a history.  Definitions only. *)
From Coq Require Import ZArith List Bool Arith.
From VF Require Import Circ.Moments Circ.Placement Circ.Insert Circ.BatchEdit.
Import ListNotations.
Open Scope Z_scope.

Inductive call :=
  (* construction: the result replaces the current circuit *)
  | CEmpty                                             (* Circuit() *)
  | CNew (its : list item) (s : strategy)              (* Circuit(items, strategy=s) *)
  | CCopy                                              (* c.copy(), c.freeze().unfreeze(), c.unfreeze() *)
  | CWithTags                                          (* c.with_tags('t') *)
  | CSlice (a b : option Z)                            (* c[a:b] *)
  | CAdd (its : list item)                             (* c + tree (tree may be another circuit) *)
  | CRAdd (its : list item)                            (* tree + c *)
  | CMul (n : Z)                                       (* c * n, n * c *)
  | CInv                                               (* c ** -1 *)
  | CTransform (f : fmap)                              (* c.transform_qubits(dict) *)
  | CZip (others : list (list moment)) (a : alignment)
  | CConcatRagged (others : list (list moment)) (a : alignment)
  (* mutators *)
  | CInsert (index : Z) (its : list item) (s : strategy)
  | CAppend (its : list item) (s : strategy)           (* append, += *)
  | CInsertIntoRange (its : list item) (s e : Z)
  | CInsertAtFrontier (its : list item) (start : Z) (f : fmap)
  | CBatchRemove (rs : list (Z * opd))
  | CBatchReplace (rs : list (Z * opd * opd))
  | CBatchInsertInto (rs : list (Z * list opd))
  | CBatchInsert (ins : list (Z * list item))
  | CClear (qubits : list Z) (idxs : list Z)
  | CSetItem (i : Z) (m : moment)
  | CSetSlice (a b : option Z) (ms : list moment)
  | CDelItem (i : Z)
  | CDelSlice (a b : option Z)
  | CIMul (n : Z)
  (* queries *)
  | QAllQubits
  | QFreeze
  | QLen
  | QIsMeasurement
  | QIsParameterized
  | QParameterNames
  | QKeys                                              (* all_measurement_key_objs *)
  | QNext (qubits : list Z) (start : Z) (maxd : option Z)
  | QPrev (qubits : list Z) (e : option Z) (maxd : option Z)
  | QEarliestAvailable (o : opd) (e : option Z)
  | QOperationAt (q : Z) (i : Z).

Inductive res :=
  | RNone
  | RInt (z : Z)
  | RErr (e : err)
  | RSet (l : list Z)
  | RMoms (l : list (list Z))
  | RBool (b : bool)
  | ROpt (o : option Z)
  | RFront (f : fmap).

Definition res_of (r : Z + err) : res := match r with inl z => RInt z | inr e => RErr e end.
Definition unit_res (r : Z + err) : res := match r with inl _ => RNone | inr e => RErr e end.
Definition uid_moms (ms : list moment) : list (list Z) := map (map uid) ms.

(* ---- queries ---- *)
Definition all_qubits_of (ms : list moment) : list Z := dedup (flat_map mqubits ms).
Definition is_measurement_of (ms : list moment) : bool := existsb (existsb (fun o => nonempty (mk o))) ms.
Definition is_parameterized_of (ms : list moment) : bool := existsb (existsb (fun o => nonempty (pn o))) ms.
Definition parameter_names_of (ms : list moment) : list Z := dedup (flat_map (flat_map pn) ms).
Definition keys_of (ms : list moment) : list Z := dedup (flat_map mmkeys ms).

(* first index in [lo, hi) whose moment operates on the qubits *)
Fixpoint first_on (ms : list moment) (qubits : list Z) (i : nat) (n : nat) : option Z :=
  match n with
  | O => None
  | S n' => match nth_error ms i with
            | Some m => if operates_on m qubits then Some (Z.of_nat i) else first_on ms qubits (S i) n'
            | None => None
            end
  end.
(* AbstractCircuit.next_moment_operating_on(qubits, start, max_distance) *)
Definition next_moment_operating_on (ms : list moment) (qubits : list Z) (start : Z) (maxd : option Z) : option Z + err :=
  let n := Z.of_nat (length ms) in
  let mcd := n - start in
  match (match maxd with
         | None => inl mcd
         | Some d => if d <? 0 then inr ValueError else inl (Z.min d mcd)
         end) with
  | inr e => inr e
  | inl d =>
      let lo := Z.max start 0 in
      let hi := Z.min (start + d) n in
      inl (first_on ms qubits (Z.to_nat lo) (Z.to_nat (hi - lo)))
  end.
(* last index in [lo, hi) whose moment operates on the qubits, scanning downwards from hi - 1 *)
Fixpoint last_on (ms : list moment) (qubits : list Z) (hi : nat) (n : nat) : option Z :=
  match n, hi with
  | S n', S i => match nth_error ms i with
                 | Some m => if operates_on m qubits then Some (Z.of_nat i) else last_on ms qubits i n'
                 | None => last_on ms qubits i n'
                 end
  | _, _ => None
  end.
(* AbstractCircuit.prev_moment_operating_on(qubits, end_moment_index, max_distance) *)
Definition prev_moment_operating_on (ms : list moment) (qubits : list Z) (e : option Z) (maxd : option Z) : option Z + err :=
  let n := Z.of_nat (length ms) in
  let e0 := match e with None => n | Some z => z end in
  match (match maxd with
         | None => inl n
         | Some d => if d <? 0 then inr ValueError else inl (Z.min e0 d)
         end) with
  | inr er => inr er
  | inl d0 =>
      let '(e1, d1) := if n <? e0 then (n, d0 - (e0 - n)) else (e0, d0) in
      if d1 <=? 0 then inl None
      else (* indices e1 - 1, e1 - 2, ..., e1 - d1; only 0 <= index < n can match *)
        inl (last_on ms qubits (Z.to_nat e1) (Z.to_nat (Z.min d1 e1)))
  end.

Definition set_qubits (s : sums) v := mksums v (s_frozen s) (s_ismeas s) (s_isparam s) (s_pnames s).
Definition set_frozen (s : sums) v := mksums (s_qubits s) v (s_ismeas s) (s_isparam s) (s_pnames s).
Definition set_ismeas (s : sums) v := mksums (s_qubits s) (s_frozen s) v (s_isparam s) (s_pnames s).
Definition set_isparam (s : sums) v := mksums (s_qubits s) (s_frozen s) (s_ismeas s) v (s_pnames s).
Definition set_pnames (s : sums) v := mksums (s_qubits s) (s_frozen s) (s_ismeas s) (s_isparam s) v.

(* a lazily cached query: return the stored value when there is one, else compute and store *)
Definition cached {A} (c : cstate) (get : sums -> option A) (put : sums -> option A -> sums)
           (compute : list moment -> A) (wrap : A -> res) : cstate * res :=
  match get (sm c) with
  | Some v => (c, wrap v)
  | None => let v := compute (moms c) in (mkc (moms c) (cache c) (put (sm c) (Some v)), wrap v)
  end.

Definition replace_with (c : cstate) (r : cstate * (Z + err)) : cstate * res :=
  match r with
  | (c', inl _) => (c', RNone)
  | (_, inr e) => (c, RErr e)                    (* the expression raised: the variable keeps the old circuit *)
  end.

Definition step (c : cstate) (x : call) : cstate * res :=
  match x with
  | CEmpty => (empty_circuit, RNone)
  | CNew its s => replace_with c (construct its s)
  | CCopy => (from_moments (moms c), RNone)
  | CWithTags => (from_moments (moms c), RNone)          (* Circuit(tags=...), _moments[:] = ..., _placement_cache = None *)
  | CSlice a b => let '(s, e) := slice_range a b (length (moms c)) in
                  (from_moments (firstn (e - s) (skipn s (moms c))), RNone)
  | CAdd its => replace_with c (add c its)
  | CRAdd its => replace_with c (radd c its)
  | CMul n => (mul c n, RNone)
  | CInv => replace_with c (inverse c)
  | CTransform f => replace_with c (transform_qubits c f)
  | CZip others a => replace_with c (zip c others a)
  | CConcatRagged others a => replace_with c (concat_ragged c others a)
  | CInsert i its s => let '(c', r) := insert c i its s in (c', res_of r)
  | CAppend its s => let '(c', r) := append c its s in (c', unit_res r)
  | CInsertIntoRange its s e => let '(c', r) := insert_into_range c its s e in (c', res_of r)
  | CInsertAtFrontier its start f =>
      match insert_at_frontier c its start f with
      | (c', inl f') => (c', RFront f')
      | (c', inr e) => (c', RErr e)
      end
  | CBatchRemove rs => let '(c', r) := batch_remove c rs in (c', unit_res r)
  | CBatchReplace rs => let '(c', r) := batch_replace c rs in (c', unit_res r)
  | CBatchInsertInto rs => let '(c', r) := batch_insert_into c rs in (c', unit_res r)
  | CBatchInsert ins => let '(c', r) := batch_insert c ins in (c', unit_res r)
  | CClear qubits idxs => let '(c', r) := clear_touching c qubits idxs in (c', unit_res r)
  | CSetItem i m => let '(c', r) := setitem c i m in (c', unit_res r)
  | CSetSlice a b ms => let '(c', r) := setslice c a b ms in (c', unit_res r)
  | CDelItem i => let '(c', r) := delitem c i in (c', unit_res r)
  | CDelSlice a b => let '(c', r) := delslice c a b in (c', unit_res r)
  | CIMul n => (imul c n, RNone)
  | QAllQubits => cached c s_qubits set_qubits all_qubits_of RSet
  | QFreeze => cached c s_frozen set_frozen (fun ms => ms) (fun ms => RMoms (uid_moms ms))
  | QLen => (c, RInt (Z.of_nat (length (moms c))))
  | QIsMeasurement => cached c s_ismeas set_ismeas is_measurement_of RBool
  | QIsParameterized => cached c s_isparam set_isparam is_parameterized_of RBool
  | QParameterNames => cached c s_pnames set_pnames parameter_names_of RSet
  | QKeys => (c, RSet (keys_of (moms c)))
  | QNext qubits start maxd =>
      (c, match next_moment_operating_on (moms c) qubits start maxd with inl o => ROpt o | inr e => RErr e end)
  | QPrev qubits e maxd =>
      (c, match prev_moment_operating_on (moms c) qubits e maxd with inl o => ROpt o | inr e => RErr e end)
  | QEarliestAvailable o e =>
      (c, RInt (Z.of_nat (earliest_available_moment (moms c) o
                            (match e with None => length (moms c) | Some z => Z.to_nat z end))))
  | QOperationAt q i =>
      (c, ROpt (if (0 <=? i) && (i <? Z.of_nat (length (moms c)))
                then match find (fun o => memz q (qs o)) (nth (Z.to_nat i) (moms c) []) with
                     | Some o => Some (uid o)
                     | None => None
                     end
                else None))
  end.

(* run a history from Circuit(); the trace records, after every call, the result and the moments *)
Fixpoint run (c : cstate) (h : list call) : cstate :=
  match h with [] => c | x :: r => run (fst (step c x)) r end.
Fixpoint trace (c : cstate) (h : list call) : list (res * list (list Z)) :=
  match h with
  | [] => []
  | x :: r => let '(c', out) := step c x in (out, uid_moms (moms c')) :: trace c' r
  end.

(* operands are objects Cirq accepted: Operation (distinct qubits) and Moment (disjoint operations) *)
Definition call_wf (x : call) : Prop :=
  match x with
  | CNew its _ | CInsert _ its _ | CAppend its _ | CAdd its | CRAdd its
  | CInsertIntoRange its _ _ | CInsertAtFrontier its _ _ => Forall item_wf its
  | CZip others _ | CConcatRagged others _ => Forall wf others
  | CBatchRemove _ => True
  | CBatchReplace rs => Forall (fun r => op_wf (snd r)) rs
  | CBatchInsertInto rs => Forall (fun r => Forall op_wf (snd r)) rs
  | CBatchInsert ins => Forall (fun r => Forall item_wf (snd r)) ins
  | CSetItem _ m => moment_wf m
  | CSetSlice _ _ ms => wf ms
  | _ => True
  end.

(* D6: a summary that is marked valid equals its recomputation *)
Definition sums_ok (c : cstate) : Prop :=
  (forall l, s_qubits (sm c) = Some l -> l = all_qubits_of (moms c)) /\
  (forall l, s_frozen (sm c) = Some l -> l = moms c) /\
  (forall b, s_ismeas (sm c) = Some b -> b = is_measurement_of (moms c)) /\
  (forall b, s_isparam (sm c) = Some b -> b = is_parameterized_of (moms c)) /\
  (forall l, s_pnames (sm c) = Some l -> l = parameter_names_of (moms c)).

(* an exception that escapes insert / insert_into_range after part of the work was done
   (Circuit._mutated is then never reached) *)
Definition is_err {A} (r : A + err) : bool := match r with inr _ => true | inl _ => false end.
Definition raised_midway (c : cstate) (x : call) : bool :=
  match x with
  | CInsert i its s => is_err (snd (insert c i its s))
  | CAppend its s => is_err (snd (append c its s))
  | CInsertIntoRange its s e =>
      (0 <=? s) && (s <=? e) && (e <=? Z.of_nat (length (moms c))) && is_err (snd (insert_into_range c its s e))
  | _ => false
  end.
Fixpoint clean (c : cstate) (h : list call) : Prop :=
  match h with
  | [] => True
  | x :: r => raised_midway c x = false /\ clean (fst (step c x)) r
  end.
