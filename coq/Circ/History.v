(* C05 model, part 5: public calls, their results, and running a history.  Definitions only. *)
From Coq Require Import ZArith List Bool Arith.
From VF Require Import Circ.Moments Circ.Placement Circ.Insert.
Import ListNotations.
Open Scope Z_scope.

Inductive call :=
  (* construction: the result replaces the current circuit *)
  | CEmpty                                             (* Circuit() *)
  | CNew (its : list item) (s : strategy)              (* Circuit(items, strategy=s) *)
  | CCopy                                              (* c.copy() *)
  | CWithTags                                          (* c.with_tags('t') *)
  (* mutators *)
  | CInsert (index : Z) (its : list item) (s : strategy)
  | CAppend (its : list item) (s : strategy)
  (* queries *)
  | QAllQubits
  | QFreeze
  | QLen.

Inductive res :=
  | RNone
  | RInt (z : Z)
  | RErr (e : err)
  | RSet (l : list Z)
  | RMoms (l : list (list Z)).

Definition res_of (r : Z + err) : res := match r with inl z => RInt z | inr e => RErr e end.
Definition unit_res (r : Z + err) : res := match r with inl _ => RNone | inr e => RErr e end.
Definition uid_moms (ms : list moment) : list (list Z) := map (map uid) ms.

(* the five summaries; a query returns the cached value when there is one *)
Definition all_qubits_of (ms : list moment) : list Z := dedup (flat_map mqubits ms).

Definition step (c : cstate) (x : call) : cstate * res :=
  match x with
  | CEmpty => (empty_circuit, RNone)
  | CNew its s => match construct its s with
                  | (c', inl _) => (c', RNone)
                  | (_, inr e) => (c, RErr e)            (* the constructor raised: no new object *)
                  end
  | CCopy => (from_moments (moms c), RNone)
  | CWithTags => (mkc (moms c) (Some empty_cache) no_sums, RNone)   (* Circuit(tags=...) then _moments[:] = ... *)
  | CInsert i its s => let '(c', r) := insert c i its s in (c', res_of r)
  | CAppend its s => let '(c', r) := append c its s in (c', unit_res r)
  | QAllQubits =>
      match s_qubits (sm c) with
      | Some l => (c, RSet l)
      | None => let l := all_qubits_of (moms c) in
                (mkc (moms c) (cache c) (mksums (Some l) (s_frozen (sm c)) (s_ismeas (sm c)) (s_isparam (sm c)) (s_pnames (sm c))), RSet l)
      end
  | QFreeze =>
      match s_frozen (sm c) with
      | Some ms => (c, RMoms (uid_moms ms))
      | None => (mkc (moms c) (cache c) (mksums (s_qubits (sm c)) (Some (moms c)) (s_ismeas (sm c)) (s_isparam (sm c)) (s_pnames (sm c))),
                 RMoms (uid_moms (moms c)))
      end
  | QLen => (c, RInt (Z.of_nat (length (moms c))))
  end.

(* run a history from Circuit(); the trace records, after every call, the result and the moments *)
Fixpoint run (c : cstate) (h : list call) : cstate :=
  match h with [] => c | x :: r => run (fst (step c x)) r end.
Fixpoint trace (c : cstate) (h : list call) : list (res * list (list Z)) :=
  match h with
  | [] => []
  | x :: r => let '(c', out) := step c x in (out, uid_moms (moms c')) :: trace c' r
  end.

(* operands are objects Cirq accepted: Operation (distinct qubits) and Moment (disjoint operations) *)
Definition call_wf (x : call) : Prop :=
  match x with
  | CNew its _ | CInsert _ its _ | CAppend its _ => Forall item_wf its
  | _ => True
  end.
