(* C05 proofs, part 1: sets-as-lists, moments, list surgery. *)
From Coq Require Import ZArith List Bool Arith Lia Permutation.
From VF Require Import Circ.Moments.
Import ListNotations.
Open Scope Z_scope.

Lemma memz_In x l : memz x l = true <-> In x l.
Proof.
  unfold memz. rewrite existsb_exists. split.
  - intros [y [Hy He]]. apply Z.eqb_eq in He. subst. exact Hy.
  - intros H. exists x. split; [exact H|apply Z.eqb_refl].
Qed.

Lemma memz_false x l : memz x l = false <-> ~ In x l.
Proof.
  rewrite <- memz_In. destruct (memz x l); split; intros H; congruence.
Qed.

Lemma disjointb_spec a b : disjointb a b = true <-> (forall x, In x a -> ~ In x b).
Proof.
  unfold disjointb. rewrite forallb_forall. split.
  - intros H x Hx. specialize (H x Hx). apply negb_true_iff in H. apply memz_false in H. exact H.
  - intros H x Hx. apply negb_true_iff. apply memz_false. apply H. exact Hx.
Qed.

Lemma nodupb_spec l : nodupb l = true <-> NoDup l.
Proof.
  induction l as [|x r IH]; simpl.
  - split; intros; [constructor|reflexivity].
  - rewrite andb_true_iff, negb_true_iff, memz_false, IH. split.
    + intros [H1 H2]. constructor; assumption.
    + intros H. inversion H; subst. split; assumption.
Qed.

Lemma NoDup_app_intro {A} (a b : list A) :
  NoDup a -> NoDup b -> (forall x, In x a -> ~ In x b) -> NoDup (a ++ b).
Proof.
  induction a as [|x a IH]; intros Ha Hb Hd; simpl; [exact Hb|].
  inversion Ha as [|? ? Hx Ha']; subst. constructor.
  - intro Hin. apply in_app_or in Hin as [Hin|Hin]; [exact (Hx Hin)|].
    apply (Hd x); [left; reflexivity|exact Hin].
  - apply IH; [exact Ha'|exact Hb|]. intros y Hy. apply Hd. right. exact Hy.
Qed.

Lemma mqubits_app m1 m2 : mqubits (m1 ++ m2) = mqubits m1 ++ mqubits m2.
Proof. unfold mqubits. apply flat_map_app. Qed.

(* ---- checked constructors keep moments well formed ---- *)
Lemma with_operation_wf m o m' :
  with_operation m o = Some m' -> moment_wf m -> op_wf o -> moment_wf m'.
Proof.
  unfold with_operation, operates_on. intros H Hm Ho.
  destruct (disjointb (qs o) (mqubits m)) eqn:Hd; simpl in H; [|discriminate].
  injection H as <-. unfold moment_wf in *. rewrite mqubits_app. simpl. rewrite app_nil_r.
  apply NoDup_app_intro; [exact Hm|exact Ho|].
  intros x Hx Hq. rewrite disjointb_spec in Hd. exact (Hd x Hq Hx).
Qed.

Lemma with_operation_eq m o m' : with_operation m o = Some m' -> m' = m ++ [o].
Proof. unfold with_operation. destruct (operates_on m (qs o)); intros H; [discriminate|injection H as <-; reflexivity]. Qed.

Lemma with_operations_wf ops : forall m m',
  with_operations m ops = Some m' -> moment_wf m -> Forall op_wf ops -> moment_wf m'.
Proof.
  induction ops as [|o r IH]; intros m m' H Hm Ho; simpl in H.
  - injection H as <-. exact Hm.
  - destruct (with_operation m o) as [m1|] eqn:E; [|discriminate].
    inversion Ho; subst. eapply IH; [exact H| |assumption].
    eapply with_operation_wf; eassumption.
Qed.

Lemma with_operations_eq ops : forall m m', with_operations m ops = Some m' -> m' = m ++ ops.
Proof.
  induction ops as [|o r IH]; intros m m' H; simpl in H.
  - injection H as <-. symmetry. apply app_nil_r.
  - destruct (with_operation m o) as [m1|] eqn:E; [|discriminate].
    apply with_operation_eq in E. subst m1. apply IH in H. rewrite H, <- app_assoc. reflexivity.
Qed.

Lemma nil_moment_wf : moment_wf [].
Proof. constructor. Qed.

Lemma mk_moment_wf ops m : mk_moment ops = Some m -> Forall op_wf ops -> moment_wf m.
Proof. unfold mk_moment. intros H Ho. eapply with_operations_wf; [exact H|apply nil_moment_wf|exact Ho]. Qed.

Lemma mk_moment_eq ops m : mk_moment ops = Some m -> m = ops.
Proof. unfold mk_moment. intros H. apply with_operations_eq in H. exact H. Qed.

Lemma single_moment_wf o : op_wf o -> moment_wf [o].
Proof. unfold moment_wf, op_wf, mqubits. simpl. rewrite app_nil_r. trivial. Qed.

Lemma NoDup_app_l {A} (a b : list A) : NoDup (a ++ b) -> NoDup a.
Proof.
  induction a as [|x a IH]; intros H; [constructor|].
  simpl in H. inversion H; subst. constructor.
  - intro Hin. apply H2. apply in_or_app. left. exact Hin.
  - apply IH. assumption.
Qed.
Lemma NoDup_app_r {A} (a b : list A) : NoDup (a ++ b) -> NoDup b.
Proof.
  induction a as [|x a IH]; intros H; [exact H|].
  simpl in H. inversion H; subst. apply IH. assumption.
Qed.

Lemma filter_moment_wf f m : moment_wf m -> moment_wf (filter f m).
Proof.
  unfold moment_wf, mqubits. induction m as [|o r IH]; simpl; intros H; [constructor|].
  destruct (f o); simpl.
  - apply NoDup_app_intro.
    + eapply NoDup_app_l. exact H.
    + apply IH. eapply NoDup_app_r. exact H.
    + intros x Hx Hin. 
      assert (Hin' : In x (flat_map qs r)).
      { apply in_flat_map in Hin as [o' [Ho' Hxo]]. apply in_flat_map. exists o'. split; [|exact Hxo].
        apply filter_In in Ho'. tauto. }
      clear IH Hin. induction (qs o) as [|y l IHl]; [inversion Hx|].
      simpl in H. inversion H; subst. destruct Hx as [->|Hx].
      * apply H2. apply in_or_app. right. exact Hin'.
      * apply IHl; assumption.
  - apply IH. eapply NoDup_app_r. exact H.
Qed.

Lemma moment_wf_op m o : moment_wf m -> In o m -> op_wf o.
Proof.
  unfold moment_wf, op_wf, mqubits. induction m as [|a r IH]; simpl; intros H Hin; [contradiction|].
  destruct Hin as [->|Hin].
  - eapply NoDup_app_l. exact H.
  - apply IH; [eapply NoDup_app_r; exact H|exact Hin].
Qed.

(* ---- list surgery keeps Forall ---- *)
Section Surgery.
  Context {A : Type} (P : A -> Prop).
  Lemma Forall_insert_at n x l : P x -> Forall P l -> Forall P (insert_at n x l).
  Proof.
    revert l. induction n as [|n IH]; intros l Hx Hl; simpl.
    - constructor; assumption.
    - destruct l as [|y r]; [constructor; [assumption|constructor]|].
      inversion Hl; subst. constructor; [assumption|apply IH; assumption].
  Qed.
  Lemma Forall_replace_nth n x l : P x -> Forall P l -> Forall P (replace_nth n x l).
  Proof.
    revert l. induction n as [|n IH]; intros l Hx Hl; destruct l as [|y r]; simpl; try constructor;
      inversion Hl; subst; try assumption. apply IH; assumption.
  Qed.
  Lemma Forall_remove_nth n l : Forall P l -> Forall P (remove_nth n l).
  Proof.
    revert l. induction n as [|n IH]; intros l Hl; destruct l as [|y r]; simpl; try constructor;
      inversion Hl; subst; try assumption. apply IH; assumption.
  Qed.
  Lemma Forall_nth_error n l x : Forall P l -> nth_error l n = Some x -> P x.
  Proof. intros Hl Hn. apply nth_error_In in Hn. rewrite Forall_forall in Hl. apply Hl. exact Hn. Qed.
  Lemma Forall_firstn n l : Forall P l -> Forall P (firstn n l).
  Proof.
    revert l. induction n as [|n IH]; intros l Hl; simpl; [constructor|].
    destruct l; [constructor|]. inversion Hl; subst. constructor; [assumption|apply IH; assumption].
  Qed.
  Lemma Forall_skipn n l : Forall P l -> Forall P (skipn n l).
  Proof.
    revert l. induction n as [|n IH]; intros l Hl; simpl; [assumption|].
    destruct l; [constructor|]. inversion Hl; subst. apply IH; assumption.
  Qed.
  Lemma Forall_splice a b xs l : Forall P xs -> Forall P l -> Forall P (splice a b xs l).
  Proof.
    intros Hx Hl. unfold splice. apply Forall_app. split; [apply Forall_firstn; assumption|].
    apply Forall_app. split; [assumption|apply Forall_skipn; assumption].
  Qed.
End Surgery.

(* ---- counting occurrences of a uid (multiset reasoning) ---- *)
Definition cnt (u : Z) (ops : list opd) : nat := length (filter (fun o => Z.eqb (uid o) u) ops).
Definition ccnt (u : Z) (c : list moment) : nat := cnt u (all_ops c).

Lemma cnt_app u a b : cnt u (a ++ b) = (cnt u a + cnt u b)%nat.
Proof. unfold cnt. rewrite filter_app, app_length. reflexivity. Qed.
Lemma cnt_cons u o a : cnt u (o :: a) = ((if Z.eqb (uid o) u then 1 else 0) + cnt u a)%nat.
Proof. unfold cnt. simpl. destruct (Z.eqb (uid o) u); reflexivity. Qed.
Lemma cnt_nil u : cnt u [] = 0%nat.
Proof. reflexivity. Qed.
Lemma ccnt_cons u m c : ccnt u (m :: c) = (cnt u m + ccnt u c)%nat.
Proof. unfold ccnt, all_ops. simpl. apply cnt_app. Qed.
Lemma ccnt_nil u : ccnt u [] = 0%nat.
Proof. reflexivity. Qed.
Lemma ccnt_app u a b : ccnt u (a ++ b) = (ccnt u a + ccnt u b)%nat.
Proof. unfold ccnt, all_ops. rewrite concat_app. apply cnt_app. Qed.

Lemma ccnt_insert_at u n m c : ccnt u (insert_at n m c) = (cnt u m + ccnt u c)%nat.
Proof.
  revert c. induction n as [|n IH]; intros c; simpl.
  - apply ccnt_cons.
  - destruct c as [|y r].
    + rewrite ccnt_cons, ccnt_nil. reflexivity.
    + rewrite !ccnt_cons, IH. lia.
Qed.

Lemma ccnt_replace_nth u n m m0 c :
  nth_error c n = Some m0 -> (ccnt u (replace_nth n m c) + cnt u m0 = cnt u m + ccnt u c)%nat.
Proof.
  revert c. induction n as [|n IH]; intros c H; destruct c as [|y r]; simpl in *; try discriminate.
  - injection H as ->. rewrite !ccnt_cons. lia.
  - rewrite !ccnt_cons. specialize (IH r H). lia.
Qed.

Lemma ccnt_remove_nth u n m0 c :
  nth_error c n = Some m0 -> (ccnt u (remove_nth n c) + cnt u m0 = ccnt u c)%nat.
Proof.
  revert c. induction n as [|n IH]; intros c H; destruct c as [|y r]; simpl in *; try discriminate.
  - injection H as ->. rewrite !ccnt_cons. lia.
  - rewrite !ccnt_cons. specialize (IH r H). lia.
Qed.

Lemma ccnt_firstn_skipn u n c : (ccnt u (firstn n c) + ccnt u (skipn n c) = ccnt u c)%nat.
Proof. rewrite <- ccnt_app, firstn_skipn. reflexivity. Qed.

(* equal counts for every uid = the multisets of uids are equal *)
Lemma cnt_count_occ u ops : cnt u ops = count_occ Z.eq_dec (map uid ops) u.
Proof.
  unfold cnt. induction ops as [|o r IH]; simpl; [reflexivity|].
  destruct (Z.eqb_spec (uid o) u) as [E|E]; destruct (Z.eq_dec (uid o) u) as [E'|E']; try contradiction; simpl; rewrite IH; reflexivity.
Qed.

Lemma cnt_perm a b : (forall u, cnt u a = cnt u b) -> Permutation (map uid a) (map uid b).
Proof.
  intros H. apply (Permutation_count_occ Z.eq_dec). intros u. rewrite <- !cnt_count_occ. apply H.
Qed.

(* every chain of public Moment calls keeps the qubits of its operations pairwise disjoint *)
From VF Require Import Circ.MomentCalls.
Theorem moment_history_wf h : forall m, moment_wf m -> Forall mcall_wf h -> moment_wf (mrun m h).
Proof.
  induction h as [|x r IH]; intros m Hm Hh; simpl; [exact Hm|].
  inversion Hh as [|? ? Hx Hr]; subst. apply IH; [|exact Hr].
  destruct x; simpl in *.
  - destruct (with_operation m o) as [m'|] eqn:E; simpl; [eapply with_operation_wf; eassumption|exact Hm].
  - destruct (with_operations m ops) as [m'|] eqn:E; simpl; [eapply with_operations_wf; eassumption|exact Hm].
  - apply filter_moment_wf. exact Hm.
  - destruct (mk_moment ops) as [m'|] eqn:E; simpl; [eapply mk_moment_wf; eassumption|exact Hm].
Qed.
