(* C05 proofs, part 5: invariants of whole histories, by induction over the call list. *)
From Coq Require Import ZArith List Bool Arith Lia Permutation.
From VF Require Import Circ.Moments Circ.Placement Circ.Insert Circ.BatchEdit Circ.History
  Circ.MomentsProofs Circ.InsertProofs Circ.PlacementProofs Circ.CacheProofs Circ.BatchProofs Circ.OrderProofs Circ.TotalProofs Circ.EquivProofs.
Import ListNotations.
Open Scope Z_scope.

Lemma replace_with_wf c r : wf (moms c) -> (forall c' z, r = (c', inl z) -> wf (moms c')) -> wf (moms (fst (replace_with c r))).
Proof.
  intros Hw Hr. unfold replace_with. destruct r as [c' [z|e]]; simpl; [eapply Hr; reflexivity|exact Hw].
Qed.

Lemma cached_moms {A} c get put compute (wrap : A -> res) : moms (fst (cached c get put compute wrap)) = moms c.
Proof. unfold cached. destruct (get (sm c)); reflexivity. Qed.

(* ==== D1: every moment keeps pairwise disjoint qubits ==== *)
Lemma step_wf c x : wf (moms c) -> call_wf x -> wf (moms (fst (step c x))).
Proof.
  intros Hw Hx. destruct x; simpl in Hx; unfold step;
    try (rewrite cached_moms; exact Hw); try exact Hw.
  - constructor.
  - apply replace_with_wf; [exact Hw|]. intros c' z E. eapply construct_wf; eassumption.
  - destruct (slice_range a b (length (moms c))) as [s e]. simpl. apply Forall_firstn. apply Forall_skipn. exact Hw.
  - apply replace_with_wf; [exact Hw|]. intros c' z E. eapply add_wf; eassumption.
  - apply replace_with_wf; [exact Hw|]. intros c' z E. eapply radd_wf; eassumption.
  - simpl. apply repeat_list_wf. exact Hw.
  - apply replace_with_wf; [exact Hw|]. intros c' z E. eapply inverse_wf; eassumption.
  - apply replace_with_wf; [exact Hw|]. intros c' z E. eapply transform_wf; eassumption.
  - apply replace_with_wf; [exact Hw|]. intros c' z E. eapply zip_wf; eassumption.
  - apply replace_with_wf; [exact Hw|]. intros c' z E. eapply concat_ragged_wf; eassumption.
  - destruct (insert c index its s) as [c' r] eqn:E. simpl. eapply insert_wf; eassumption.
  - destruct (append c its s) as [c' r] eqn:E. simpl. eapply append_wf; eassumption.
  - destruct (insert_into_range c its s e) as [c' r] eqn:E. simpl. eapply insert_into_range_wf; eassumption.
  - destruct (insert_at_frontier c its start f) as [c' [f'|e]] eqn:E; simpl; eapply insert_at_frontier_wf; eassumption.
  - destruct (batch_remove c rs) as [c' r] eqn:E. simpl. unfold batch_remove in E.
    eapply finish_batch_wf; [exact E|exact Hw|]. intros ms Hm. eapply batch_remove_loop_wf; eassumption.
  - destruct (batch_replace c rs) as [c' r] eqn:E. simpl. unfold batch_replace in E.
    eapply finish_batch_wf; [exact E|exact Hw|]. intros ms Hm. eapply batch_replace_loop_wf; eassumption.
  - destruct (batch_insert_into c rs) as [c' r] eqn:E. simpl. unfold batch_insert_into in E.
    eapply finish_batch_wf; [exact E|exact Hw|]. intros ms Hm. eapply batch_insert_into_loop_wf; eassumption.
  - destruct (batch_insert c ins) as [c' r] eqn:E. simpl. eapply batch_insert_wf; eassumption.
  - destruct (clear_touching c qubits idxs) as [c' r] eqn:E. simpl. eapply clear_touching_wf; eassumption.
  - destruct (setitem c i m) as [c' r] eqn:E. simpl. eapply setitem_wf; eassumption.
  - destruct (setslice c a b ms) as [c' r] eqn:E. simpl. eapply setslice_wf; eassumption.
  - destruct (delitem c i) as [c' r] eqn:E. simpl. eapply delitem_wf; eassumption.
  - destruct (delslice c a b) as [c' r] eqn:E. simpl. unfold delslice in E. eapply setslice_wf; [exact E|exact Hw|constructor].
  - simpl. apply repeat_list_wf. exact Hw.
Qed.

Theorem run_wf h : forall c, wf (moms c) -> Forall call_wf h -> wf (moms (run c h)).
Proof.
  induction h as [|x r IH]; intros c Hw Hh; simpl; [exact Hw|].
  inversion Hh; subst. apply IH; [apply step_wf; assumption|assumption].
Qed.

Theorem history_wf h : Forall call_wf h -> wf (moms (run empty_circuit h)).
Proof. apply run_wf. constructor. Qed.

(* ==== D3: the placement cache, whenever present, equals the summary recomputed from the moments ==== *)
Lemma none_cache_ok ms s : cache_ok (mkc ms None s).
Proof. intros p Hp. discriminate. Qed.

Lemma replace_with_inv (P : cstate -> Prop) c r :
  P c -> (forall c' z, r = (c', inl z) -> P c') -> P (fst (replace_with c r)).
Proof. intros Hc Hr. unfold replace_with. destruct r as [c' [z|e]]; simpl; [eapply Hr; reflexivity|exact Hc]. Qed.

Lemma cached_cache_ok {A} c get put compute (wrap : A -> res) : cache_ok c -> cache_ok (fst (cached c get put compute wrap)).
Proof. unfold cached. intros H. destruct (get (sm c)); exact H. Qed.

Lemma zip_loop_cache_ok cs n a ks : forall acc c' r, zip_loop cs n a ks acc = (c', r) -> cache_ok acc -> cache_ok c'.
Proof.
  induction ks as [|k r0 IH]; intros acc c' r H Hc; cbn [zip_loop] in H.
  - injection H as <- <-. exact Hc.
  - destruct (mk_moment _) as [m|]; [|injection H as <- <-; exact Hc].
    destruct (append acc [IMom m] EARLIEST) as [acc' [z|e]] eqn:Ea.
    + eapply IH; [exact H|]. unfold append in Ea. eapply insert_cache_ok; eassumption.
    + injection H as <- <-. unfold append in Ea. eapply insert_cache_ok; eassumption.
Qed.

Lemma insert_into_range_cache_ok c its s e c' r : insert_into_range c its s e = (c', r) -> cache_ok c -> cache_ok c'.
Proof.
  unfold insert_into_range. intros H Hc. destruct (_ && _) eqn:Eg; [|injection H as <- <-; exact Hc].
  destruct (range_loop _ _ _ _) as [[ms rest] er] eqn:E.
  assert (er = None).
  { eapply range_loop_noerr; [|exact E]. apply andb_true_iff in Eg as [Eg1 Eg3]. apply andb_true_iff in Eg1 as [Eg1 Eg2].
    apply Z.leb_le in Eg1, Eg2, Eg3. lia. }
  subst er. destruct rest; [injection H as <- <-; apply none_cache_ok|].
  eapply insert_cache_ok; [|exact H]. apply none_cache_ok.
Qed.

Lemma step_cache_ok c x : cache_ok c -> cache_ok (fst (step c x)).
Proof.
  intros Hc. destruct x; unfold step;
    try (apply cached_cache_ok; exact Hc); try exact Hc; try (apply none_cache_ok).
  - apply empty_cache_ok.
  - apply replace_with_inv; [exact Hc|]. intros c' z E. eapply construct_cache_ok; exact E.
  - apply replace_with_inv; [exact Hc|]. intros c' z E. unfold add, append in E. eapply insert_cache_ok; [|exact E]. apply none_cache_ok.
  - apply replace_with_inv; [exact Hc|]. intros c' z E. unfold radd in E.
    destruct (construct its EARLIEST) as [c1 [z1|e1]]; [|discriminate]. injection E as <- _. apply none_cache_ok.
  - apply replace_with_inv; [exact Hc|]. intros c' z E. unfold inverse in E.
    destruct (forallb _ _); [|discriminate]. injection E as <- _. apply none_cache_ok.
  - apply replace_with_inv; [exact Hc|]. intros c' z E. unfold transform_qubits in E.
    destruct (map_moments f (moms c)); [|discriminate]. injection E as <- _. apply none_cache_ok.
  - apply replace_with_inv; [exact Hc|]. intros c' z E. unfold zip in E.
    destruct (zip_loop _ _ _ _ _) as [c1 [z1|e1]] eqn:Ez; [|discriminate]. injection E as <- _.
    eapply zip_loop_cache_ok; [exact Ez|apply empty_cache_ok].
  - apply replace_with_inv; [exact Hc|]. intros c' z E. unfold concat_ragged in E.
    destruct (ragged_loop _ _ _ _ _) as [[[b1 o1] n1]|]; [|discriminate]. injection E as <- _. apply none_cache_ok.
  - destruct (insert c index its s) as [c' r] eqn:E. simpl. eapply insert_cache_ok; eassumption.
  - destruct (append c its s) as [c' r] eqn:E. simpl. unfold append in E. eapply insert_cache_ok; eassumption.
  - destruct (insert_into_range c its s e) as [c' r] eqn:E. simpl. eapply insert_into_range_cache_ok; eassumption.
  - destruct (insert_at_frontier c its start f) as [c' r] eqn:E. unfold insert_at_frontier in E.
    assert (Hc' : cache_ok c').
    { destruct (items_ops its); [injection E as <- _; exact Hc|].
      destruct (existsb _ _); [injection E as <- _; exact Hc|].
      destruct (pick_indices _ _ _). destruct (push_frontier _ _ _ _). destruct (insert_groups _ _) as [ms3 [e3|]];
        injection E as <- _; apply none_cache_ok. }
    destruct r; exact Hc'.
  - destruct (batch_remove c rs) as [c' r] eqn:E. simpl. unfold batch_remove, finish_batch in E.
    destruct (batch_remove_loop _ _); injection E as <- _; [apply none_cache_ok|exact Hc].
  - destruct (batch_replace c rs) as [c' r] eqn:E. simpl. unfold batch_replace, finish_batch in E.
    destruct (batch_replace_loop _ _); injection E as <- _; [apply none_cache_ok|exact Hc].
  - destruct (batch_insert_into c rs) as [c' r] eqn:E. simpl. unfold batch_insert_into, finish_batch in E.
    destruct (batch_insert_into_loop _ _); injection E as <- _; [apply none_cache_ok|exact Hc].
  - destruct (batch_insert c ins) as [c' r] eqn:E. simpl. unfold batch_insert in E.
    destruct (batch_insert_loop _ _ _); injection E as <- _; [apply none_cache_ok|exact Hc].
  - destruct (setitem c i m) as [c' r] eqn:E. simpl. unfold setitem in E.
    destruct (py_index _ _); injection E as <- _; [apply none_cache_ok|exact Hc].
  - destruct (delitem c i) as [c' r] eqn:E. simpl. unfold delitem in E.
    destruct (py_index _ _); injection E as <- _; [apply none_cache_ok|exact Hc].
Qed.

Theorem run_cache_ok h : forall c, cache_ok c -> cache_ok (run c h).
Proof.
  induction h as [|x r IH]; intros c Hc; simpl; [exact Hc|].
  apply IH. apply step_cache_ok. exact Hc.
Qed.

Theorem history_cache_ok h : cache_ok (run empty_circuit h).
Proof. apply run_cache_ok. apply empty_cache_ok. Qed.

(* ==== D6: lazily cached summaries are valid (every mutator clears them) ==== *)
Lemma no_sums_ok ms cch : sums_ok (mkc ms cch no_sums).
Proof. repeat split; intros x Hx; discriminate. Qed.

Lemma insert_sums_ok c i its s c' z : sums_ok c -> insert c i its s = (c', inl z) -> sums_ok c'.
Proof.
  unfold insert. intros Hs H.
  set (k := clamp_index i (length (moms c))) in *.
  match type of H with context [if ?b then None else cache c] => set (c0 := if b then None else cache c) in * end.
  destruct s.
  all: try (match type of H with context [do_batches ?a ?b] => destruct (do_batches a b) as [st [e|]] eqn:E end;
            [discriminate|injection H as <- _; apply no_sums_ok]).
  match type of H with context [insert_latest ?a ?b ?d] => destruct (insert_latest a b d) as [st [e|]] eqn:E end; [discriminate|].
  injection H as <- _. destruct (l_max st =? -1) eqn:Em; [|apply no_sums_ok].
  unfold insert_latest in E. apply latest_batches_max in E. apply Z.eqb_eq in Em.
  destruct E as [->|E]; [|lia]. simpl. destruct c as [ms cch sms]. simpl in *. exact Hs.
Qed.

Lemma zip_loop_sums_ok cs n a ks : forall acc c' z, zip_loop cs n a ks acc = (c', inl z) -> sums_ok acc -> sums_ok c'.
Proof.
  induction ks as [|k r0 IH]; intros acc c' z H Hc; cbn [zip_loop] in H.
  - injection H as <- _. exact Hc.
  - destruct (mk_moment _) as [m|]; [|discriminate].
    destruct (append acc [IMom m] EARLIEST) as [acc' [z1|e]] eqn:Ea; [|discriminate].
    eapply IH; [exact H|]. unfold append in Ea. eapply insert_sums_ok; eassumption.
Qed.

Lemma step_sums_ok c x : sums_ok c -> raised_midway c x = false -> sums_ok (fst (step c x)).
Proof.
  intros Hs Hx. destruct x; simpl in Hx; unfold step; try exact Hs; try (apply no_sums_ok).
  - (* CNew *) apply replace_with_inv; [exact Hs|]. intros c' z E. unfold construct in E.
    destruct (all_moments its); [injection E as <- _; apply no_sums_ok|].
    destruct (is_earliest s).
    + destruct (place_items _ its) as [st [e|]]; [discriminate|]. injection E as <- _. apply no_sums_ok.
    + unfold append in E. eapply insert_sums_ok; [|exact E]. apply no_sums_ok.
  - (* CAdd *) apply replace_with_inv; [exact Hs|]. intros c' z E. unfold add, append in E.
    eapply insert_sums_ok; [|exact E]. apply no_sums_ok.
  - (* CRAdd *) apply replace_with_inv; [exact Hs|]. intros c' z E. unfold radd in E.
    destruct (construct its EARLIEST) as [c1 [z1|e1]]; [|discriminate]. injection E as <- _. apply no_sums_ok.
  - (* CInv *) apply replace_with_inv; [exact Hs|]. intros c' z E. unfold inverse in E.
    destruct (forallb _ _); [|discriminate]. injection E as <- _. apply no_sums_ok.
  - (* CTransform *) apply replace_with_inv; [exact Hs|]. intros c' z E. unfold transform_qubits in E.
    destruct (map_moments f (moms c)); [|discriminate]. injection E as <- _. apply no_sums_ok.
  - (* CZip *) apply replace_with_inv; [exact Hs|]. intros c' z E. unfold zip in E.
    destruct (zip_loop _ _ _ _ _) as [c1 [z1|e1]] eqn:Ez; [|discriminate]. injection E as <- _.
    eapply zip_loop_sums_ok; [exact Ez|apply no_sums_ok].
  - (* CConcatRagged *) apply replace_with_inv; [exact Hs|]. intros c' z E. unfold concat_ragged in E.
    destruct (ragged_loop _ _ _ _ _) as [[[b1 o1] n1]|]; [|discriminate]. injection E as <- _. apply no_sums_ok.
  - (* CInsert *) destruct (insert c index its s) as [c' [z|e]] eqn:E; [|discriminate]. simpl. eapply insert_sums_ok; eassumption.
  - (* CAppend *) destruct (append c its s) as [c' [z|e]] eqn:E; [|discriminate]. simpl. unfold append in E. eapply insert_sums_ok; eassumption.
  - (* CInsertIntoRange *)
    destruct (insert_into_range c its s e) as [c' r] eqn:E. simpl. simpl in Hx. unfold insert_into_range in E.
    destruct (_ && _) eqn:Eg; [|injection E as <- _; exact Hs]. simpl in Hx.
    destruct r as [z|er]; [|discriminate].
    destruct (range_loop _ _ _ _) as [[ms rest] [er|]] eqn:El; [discriminate|].
    destruct rest; [injection E as <- _; apply no_sums_ok|].
    eapply insert_sums_ok; [|exact E]. apply no_sums_ok.
  - (* CInsertAtFrontier *)
    destruct (insert_at_frontier c its start f) as [c' r] eqn:E. unfold insert_at_frontier in E.
    assert (Hc' : sums_ok c').
    { destruct (items_ops its); [injection E as <- _; exact Hs|].
      destruct (existsb _ _); [injection E as <- _; exact Hs|].
      destruct (pick_indices _ _ _). destruct (push_frontier _ _ _ _). destruct (insert_groups _ _) as [ms3 [e3|]];
        injection E as <- _; apply no_sums_ok. }
    destruct r; exact Hc'.
  - destruct (batch_remove c rs) as [c' r] eqn:E. simpl. unfold batch_remove, finish_batch in E.
    destruct (batch_remove_loop _ _); injection E as <- _; [apply no_sums_ok|exact Hs].
  - destruct (batch_replace c rs) as [c' r] eqn:E. simpl. unfold batch_replace, finish_batch in E.
    destruct (batch_replace_loop _ _); injection E as <- _; [apply no_sums_ok|exact Hs].
  - destruct (batch_insert_into c rs) as [c' r] eqn:E. simpl. unfold batch_insert_into, finish_batch in E.
    destruct (batch_insert_into_loop _ _); injection E as <- _; [apply no_sums_ok|exact Hs].
  - destruct (batch_insert c ins) as [c' r] eqn:E. simpl. unfold batch_insert in E.
    destruct (batch_insert_loop _ _ _); injection E as <- _; [apply no_sums_ok|exact Hs].
  - destruct (setitem c i m) as [c' r] eqn:E. simpl. unfold setitem in E.
    destruct (py_index _ _); injection E as <- _; [apply no_sums_ok|exact Hs].
  - destruct (delitem c i) as [c' r] eqn:E. simpl. unfold delitem in E.
    destruct (py_index _ _); injection E as <- _; [apply no_sums_ok|exact Hs].
  - (* QAllQubits *) unfold cached. destruct (s_qubits (sm c)) eqn:Eq; [exact Hs|].
    destruct Hs as [H1 [H2 [H3 [H4 H5]]]]. repeat split; simpl; try assumption. intros l Hl. injection Hl as <-. reflexivity.
  - (* QFreeze *) unfold cached. destruct (s_frozen (sm c)) eqn:Eq; [exact Hs|].
    destruct Hs as [H1 [H2 [H3 [H4 H5]]]]. repeat split; simpl; try assumption. intros l Hl. injection Hl as <-. reflexivity.
  - (* QIsMeasurement *) unfold cached. destruct (s_ismeas (sm c)) eqn:Eq; [exact Hs|].
    destruct Hs as [H1 [H2 [H3 [H4 H5]]]]. repeat split; simpl; try assumption. intros l Hl. injection Hl as <-. reflexivity.
  - (* QIsParameterized *) unfold cached. destruct (s_isparam (sm c)) eqn:Eq; [exact Hs|].
    destruct Hs as [H1 [H2 [H3 [H4 H5]]]]. repeat split; simpl; try assumption. intros l Hl. injection Hl as <-. reflexivity.
  - (* QParameterNames *) unfold cached. destruct (s_pnames (sm c)) eqn:Eq; [exact Hs|].
    destruct Hs as [H1 [H2 [H3 [H4 H5]]]]. repeat split; simpl; try assumption. intros l Hl. injection Hl as <-. reflexivity.
Qed.

Theorem run_sums_ok h : forall c, sums_ok c -> clean c h -> sums_ok (run c h).
Proof.
  induction h as [|x r IH]; intros c Hc Hh; simpl; [exact Hc|].
  destruct Hh as [Hx Hr]. apply IH; [apply step_sums_ok; assumption|assumption].
Qed.

Theorem history_sums_ok h : clean empty_circuit h -> sums_ok (run empty_circuit h).
Proof. apply run_sums_ok. apply no_sums_ok. Qed.

(* ==== D2: conservation of operations, as permutations of uid lists ==== *)
Lemma cnt_all_perm (a b : list opd) : (forall u, cnt u a = cnt u b) -> Permutation (map uid a) (map uid b).
Proof. apply cnt_perm. Qed.

Theorem insert_no_loss c i its s c' z :
  insert c i its s = (c', inl z) -> Permutation (uids (moms c')) (uids (moms c) ++ map uid (items_ops its)).
Proof.
  intros H. unfold uids. rewrite <- map_app. apply cnt_perm. intros u.
  destruct (insert_cnt u _ _ _ _ _ _ H) as [_ [_ H3]]. specialize (H3 eq_refl).
  rewrite cnt_app. exact H3.
Qed.

Theorem insert_failure_bounds c i its s c' e u :
  insert c i its s = (c', inr e) ->
  (ccnt u (moms c) <= ccnt u (moms c') <= ccnt u (moms c) + icnt u its)%nat.
Proof. intros H. destruct (insert_cnt u _ _ _ _ _ _ H) as [H1 [H2 _]]. lia. Qed.

Theorem construct_no_loss its s c' z :
  construct its s = (c', inl z) -> Permutation (uids (moms c')) (map uid (items_ops its)).
Proof.
  intros H. unfold uids. apply cnt_perm. intros u.
  destruct (construct_cnt u _ _ _ _ H) as [_ [_ H3]]. specialize (H3 eq_refl). rewrite ccnt_nil in H3. exact H3.
Qed.

(* ==== the defects, as refuted statements with their witnesses (replayed on the implementation by the check) ==== *)
Definition wX (u q : Z) : opd := mkop u [q] [] [] [] true.

(* the two open defects of /repo (known findings order:concat, order:frontier): the faithful model
   reproduces them, so the order clause is kept refuted for these calls *)
Definition wM (u q k : Z) : opd := mkop u [q] [k] [] [] false.        (* measurement of q into key k *)
Definition wC (u q k : Z) : opd := mkop u [q] [] [k] [] false.        (* operation on q controlled by key k *)

Theorem concat_ragged_order_refuted :
  exists c others c', Forall wf (moms c :: others) /\ concat_ragged c others LEFT = (c', inl 0) /\
    conflicts (wM 2 0 0) (wC 3 1 0) = true /\
    uid_moms (moms c) = [[1]; [2]] /\ uid_moms (moms c') = [[1; 3]; [2]].
Proof.
  exists (from_moments [[wX 1 0]; [wM 2 0 0]]), [[[wC 3 1 0]]]. eexists. split; [|split; [vm_compute; reflexivity|]].
  - repeat constructor; simpl; tauto.
  - repeat split; reflexivity.
Qed.

(* batch_insert after the repair (shift = number of moments actually created): the operation inserted at
   index 2 stays in front of the conflicting operation that was at index 2 *)
Example batch_insert_repaired_example :
  exists c', batch_insert (from_moments [[wX 1 0]; [wX 2 1]; [wX 3 2]]) [(0, [IOp (wX 4 1)]); (2, [IOp (wX 5 2)])] = (c', inl 0) /\
    uid_moms (moms c') = [[1; 4; 5]; [2]; [3]].
Proof. eexists. split; vm_compute; reflexivity. Qed.

Theorem insert_at_frontier_order_refuted :
  exists its c' f, insert_at_frontier empty_circuit its 0 [] = (c', inl f) /\
    its = [IOp (wX 1 3); IOp (wM 2 3 0); IOp (wM 3 2 0)] /\ conflicts (wM 2 3 0) (wM 3 2 0) = true /\
    uid_moms (moms c') = [[1; 3]; [2]].
Proof.
  exists [IOp (wX 1 3); IOp (wM 2 3 0); IOp (wM 3 2 0)]. eexists. eexists.
  split; [vm_compute; reflexivity|]. repeat split; reflexivity.
Qed.

(* ==== no exception escapes insert half-way, in any history: D6 holds unconditionally ==== *)
Lemma raised_midway_false c x : cache_ok c -> raised_midway c x = false.
Proof.
  intros Hc. destruct x; try reflexivity; cbn [raised_midway].
  - destruct (insert_total c index its s Hc) as [c' [z H]]. rewrite H. reflexivity.
  - unfold append. destruct (insert_total c (Z.of_nat (length (moms c))) its s Hc) as [c' [z H]]. rewrite H. reflexivity.
  - destruct ((0 <=? s) && (s <=? e) && (e <=? Z.of_nat (length (moms c)))) eqn:Eg; [|reflexivity]. cbn [andb].
    unfold insert_into_range. rewrite Eg.
    destruct (range_loop _ _ _ _) as [[ms rest] er] eqn:E.
    assert (er = None).
    { eapply range_loop_noerr; [|exact E]. apply andb_true_iff in Eg as [Eg1 Eg3]. apply andb_true_iff in Eg1 as [Eg1 Eg2].
      apply Z.leb_le in Eg1, Eg2, Eg3. lia. }
    subst er. destruct rest as [|o rest]; [reflexivity|].
    match goal with |- context [insert ?c1 ?a ?b ?d] => destruct (insert_total c1 a b d) as [c' [z H]]; [apply none_cache_ok|rewrite H] end.
    reflexivity.
Qed.

Theorem clean_always h : forall c, cache_ok c -> clean c h.
Proof.
  induction h as [|x r IH]; intros c Hc; simpl; [exact I|].
  split; [apply raised_midway_false; exact Hc|]. apply IH. apply step_cache_ok. exact Hc.
Qed.

Theorem history_sums_ok_unconditional h : sums_ok (run empty_circuit h).
Proof. apply history_sums_ok. apply clean_always. apply empty_cache_ok. Qed.

(* and no insert / append call raises after any history *)
Theorem history_insert_never_raises h i its s : exists c' z, insert (run empty_circuit h) i its s = (c', inl z).
Proof. apply insert_total. apply history_cache_ok. Qed.

(* after any history (with_tags included) an appended Moment ends up last *)
Lemma run_app h1 : forall c h2, run c (h1 ++ h2) = run (run c h1) h2.
Proof. induction h1 as [|x r IH]; intros c h2; simpl; [reflexivity|apply IH]. Qed.

Lemma append_moment_last c m : cache_ok c -> moms (fst (append c [IMom m] EARLIEST)) = moms c ++ [m].
Proof.
  intros Hok.
  assert (Hu : forall c0, cache c0 = None -> moms (fst (append c0 [IMom m] EARLIEST)) = moms c0 ++ [m]).
  { intros c0 Hc0. unfold append. rewrite insert_single_unfold by (try discriminate; intros _; exact Hc0).
    replace (clamp_index (Z.of_nat (length (moms c0))) (length (moms c0))) with (length (moms c0))
      by (unfold clamp_index; destruct (0 <=? Z.of_nat (length (moms c0))) eqn:E; lia).
    unfold do_batch, needs_blank. cbn [i_cache i_ms i_k i_s i_maxp place_items]. unfold place_item, determine.
    cbn [i_cache i_ms i_k i_s i_maxp]. unfold place. cbn [fst moms mutated i_ms]. apply insert_at_length. }
  destruct (cache c) as [pc|] eqn:Ec; [|apply Hu; exact Ec].
  rewrite (cached_append_eq_uncached c [IMom m] pc Ec (Hok pc Ec)). apply (Hu (mkc (moms c) None (sm c))). reflexivity.
Qed.

Theorem history_append_moment_last h m :
  moms (run empty_circuit (h ++ [CAppend [IMom m] EARLIEST])) = moms (run empty_circuit h) ++ [m].
Proof.
  rewrite run_app. cbn [run step].
  pose proof (append_moment_last (run empty_circuit h) m (history_cache_ok h)) as H.
  destruct (append (run empty_circuit h) [IMom m] EARLIEST) as [c' r] eqn:E. cbn [fst] in *. exact H.
Qed.

(* ==== an edit does not depend on what the circuit remembers of its past: after any history, insert / append
        (every strategy, index and tree) build the moments that the same call builds on a freshly rebuilt equal
        circuit (Circuit._from_moments: no placement cache, no summaries) ==== *)
Lemma insert_moms_sums ms ca s1 s2 i its s :
  moms (fst (insert (mkc ms ca s1) i its s)) = moms (fst (insert (mkc ms ca s2) i its s)) /\
  snd (insert (mkc ms ca s1) i its s) = snd (insert (mkc ms ca s2) i its s).
Proof.
  unfold insert. cbn [moms cache sm].
  destruct s;
    try (destruct (do_batches _ _) as [st [e|]]; split; reflexivity).
  destruct (insert_latest _ _ _) as [st [e|]]; [split; reflexivity|].
  destruct (l_max st =? -1); split; reflexivity.
Qed.

Lemma insert_as_rebuilt c i its s : cache_ok c ->
  moms (fst (insert c i its s)) = moms (fst (insert (from_moments (moms c)) i its s)).
Proof.
  intros Hok. unfold from_moments.
  rewrite (proj1 (insert_moms_sums (moms c) None no_sums (sm c) i its s)).
  destruct (cache c) as [pc|] eqn:Ec.
  2:{ replace (mkc (moms c) None (sm c)) with c by (destruct c; simpl in *; congruence). reflexivity. }
  destruct (negb (strategy_eqb s EARLIEST) || negb (Nat.eqb (clamp_index i (length (moms c))) (length (moms c)))) eqn:E.
  - unfold insert. cbn [moms cache sm]. rewrite E. reflexivity.
  - apply orb_false_elim in E. destruct E as [E1 E2]. apply negb_false_iff in E1, E2.
    assert (s = EARLIEST) by (destruct s; simpl in E1; congruence). subst s.
    apply Nat.eqb_eq in E2.
    assert (Hi : forall c0, moms c0 = moms c -> insert c0 i its EARLIEST = append c0 its EARLIEST).
    { intros c0 H0. unfold append, insert. rewrite H0.
      replace (clamp_index (Z.of_nat (length (moms c))) (length (moms c))) with (length (moms c))
        by (unfold clamp_index; destruct (0 <=? Z.of_nat (length (moms c))) eqn:E; lia).
      rewrite E2. reflexivity. }
    rewrite (Hi c eq_refl), (Hi (mkc (moms c) None (sm c)) eq_refl).
    apply (cached_append_eq_uncached c its pc Ec (Hok pc Ec)).
Qed.

Theorem history_insert_as_rebuilt h i its s :
  moms (run empty_circuit (h ++ [CInsert i its s])) =
  moms (fst (insert (from_moments (moms (run empty_circuit h))) i its s)).
Proof.
  rewrite run_app. cbn [run step].
  pose proof (insert_as_rebuilt (run empty_circuit h) i its s (history_cache_ok h)) as H.
  destruct (insert (run empty_circuit h) i its s) as [c' r] eqn:E. cbn [fst] in *. exact H.
Qed.

Theorem history_append_as_rebuilt h its s :
  moms (run empty_circuit (h ++ [CAppend its s])) =
  moms (fst (append (from_moments (moms (run empty_circuit h))) its s)).
Proof.
  rewrite run_app. cbn [run step]. unfold append.
  pose proof (insert_as_rebuilt (run empty_circuit h) (Z.of_nat (length (moms (run empty_circuit h)))) its s (history_cache_ok h)) as H.
  destruct (insert (run empty_circuit h) _ its s) as [c' r] eqn:E. cbn [fst moms from_moments] in *. exact H.
Qed.
