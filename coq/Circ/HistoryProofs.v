(* C05 proofs, part 4: invariants of whole histories, by induction over the call list. *)
From Coq Require Import ZArith List Bool Arith Lia Permutation.
From VF Require Import Circ.Moments Circ.Placement Circ.Insert Circ.History Circ.MomentsProofs Circ.InsertProofs.
Import ListNotations.
Open Scope Z_scope.

Lemma step_wf c x : wf (moms c) -> call_wf x -> wf (moms (fst (step c x))).
Proof.
  intros Hw Hx. destruct x; simpl in *; try exact Hw.
  - constructor.
  - destruct (construct its s) as [c' [z|e]] eqn:E; simpl; [|exact Hw].
    eapply construct_wf; eassumption.
  - destruct (insert c index its s) as [c' r] eqn:E. simpl. eapply insert_wf; eassumption.
  - destruct (append c its s) as [c' r] eqn:E. simpl. eapply append_wf; eassumption.
  - destruct (s_qubits (sm c)); exact Hw.
  - destruct (s_frozen (sm c)); exact Hw.
Qed.

Theorem run_wf h : forall c, wf (moms c) -> Forall call_wf h -> wf (moms (run c h)).
Proof.
  induction h as [|x r IH]; intros c Hw Hh; simpl; [exact Hw|].
  inversion Hh; subst. apply IH; [apply step_wf; assumption|assumption].
Qed.

Theorem history_wf h : Forall call_wf h -> wf (moms (run empty_circuit h)).
Proof. apply run_wf. constructor. Qed.
