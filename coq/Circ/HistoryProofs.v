(* C05 proofs, part 5: invariants of whole histories, by induction over the call list. *)
From Coq Require Import ZArith List Bool Arith Lia Permutation.
From VF Require Import Circ.Moments Circ.Placement Circ.Insert Circ.BatchEdit Circ.History
  Circ.MomentsProofs Circ.InsertProofs Circ.PlacementProofs Circ.CacheProofs Circ.BatchProofs.
Import ListNotations.
Open Scope Z_scope.

Lemma replace_with_wf c r : wf (moms c) -> (forall c' z, r = (c', inl z) -> wf (moms c')) -> wf (moms (fst (replace_with c r))).
Proof.
  intros Hw Hr. unfold replace_with. destruct r as [c' [z|e]]; simpl; [eapply Hr; reflexivity|exact Hw].
Qed.

Lemma cached_moms {A} c get put compute (wrap : A -> res) : moms (fst (cached c get put compute wrap)) = moms c.
Proof. unfold cached. destruct (get (sm c)); reflexivity. Qed.

(* ==== D1: every moment keeps pairwise disjoint qubits ==== *)
Lemma step_wf c x : wf (moms c) -> call_wf x -> wf (moms (fst (step c x))).
Proof.
  intros Hw Hx. destruct x; simpl in Hx; unfold step;
    try (rewrite cached_moms; exact Hw); try exact Hw.
  - constructor.
  - apply replace_with_wf; [exact Hw|]. intros c' z E. eapply construct_wf; eassumption.
  - destruct (slice_range a b (length (moms c))) as [s e]. simpl. apply Forall_firstn. apply Forall_skipn. exact Hw.
  - apply replace_with_wf; [exact Hw|]. intros c' z E. eapply add_wf; eassumption.
  - apply replace_with_wf; [exact Hw|]. intros c' z E. eapply radd_wf; eassumption.
  - simpl. apply repeat_list_wf. exact Hw.
  - apply replace_with_wf; [exact Hw|]. intros c' z E. eapply inverse_wf; eassumption.
  - apply replace_with_wf; [exact Hw|]. intros c' z E. eapply transform_wf; eassumption.
  - apply replace_with_wf; [exact Hw|]. intros c' z E. eapply zip_wf; eassumption.
  - apply replace_with_wf; [exact Hw|]. intros c' z E. eapply concat_ragged_wf; eassumption.
  - destruct (insert c index its s) as [c' r] eqn:E. simpl. eapply insert_wf; eassumption.
  - destruct (append c its s) as [c' r] eqn:E. simpl. eapply append_wf; eassumption.
  - destruct (insert_into_range c its s e) as [c' r] eqn:E. simpl. eapply insert_into_range_wf; eassumption.
  - destruct (insert_at_frontier c its start f) as [c' [f'|e]] eqn:E; simpl; eapply insert_at_frontier_wf; eassumption.
  - destruct (batch_remove c rs) as [c' r] eqn:E. simpl. unfold batch_remove in E.
    eapply finish_batch_wf; [exact E|exact Hw|]. intros ms Hm. eapply batch_remove_loop_wf; eassumption.
  - destruct (batch_replace c rs) as [c' r] eqn:E. simpl. unfold batch_replace in E.
    eapply finish_batch_wf; [exact E|exact Hw|]. intros ms Hm. eapply batch_replace_loop_wf; eassumption.
  - destruct (batch_insert_into c rs) as [c' r] eqn:E. simpl. unfold batch_insert_into in E.
    eapply finish_batch_wf; [exact E|exact Hw|]. intros ms Hm. eapply batch_insert_into_loop_wf; eassumption.
  - destruct (batch_insert c ins) as [c' r] eqn:E. simpl. eapply batch_insert_wf; eassumption.
  - destruct (clear_touching c qubits idxs) as [c' r] eqn:E. simpl. eapply clear_touching_wf; eassumption.
  - destruct (setitem c i m) as [c' r] eqn:E. simpl. eapply setitem_wf; eassumption.
  - destruct (setslice c a b ms) as [c' r] eqn:E. simpl. eapply setslice_wf; eassumption.
  - destruct (delitem c i) as [c' r] eqn:E. simpl. eapply delitem_wf; eassumption.
  - destruct (delslice c a b) as [c' r] eqn:E. simpl. unfold delslice in E. eapply setslice_wf; [exact E|exact Hw|constructor].
  - simpl. apply repeat_list_wf. exact Hw.
Qed.

Theorem run_wf h : forall c, wf (moms c) -> Forall call_wf h -> wf (moms (run c h)).
Proof.
  induction h as [|x r IH]; intros c Hw Hh; simpl; [exact Hw|].
  inversion Hh; subst. apply IH; [apply step_wf; assumption|assumption].
Qed.

Theorem history_wf h : Forall call_wf h -> wf (moms (run empty_circuit h)).
Proof. apply run_wf. constructor. Qed.
