(* C12 — conditional blocks (cirq.If): proofs over Circ/CondBlock.v and Circ/CtlSub.v. *)
From Coq Require Import ZArith List Bool String Lia.
From VF Require Import Circ.Keys Circ.KeysProofs Circ.SubCircuit Circ.SubCircuitProofs Circ.CtlSub Circ.CtlSubProofs Circ.CondBlock.
Import ListNotations.
Open Scope Z_scope.

(* ---- folding of condition layers ---- *)
Lemma op_add_ctl_app cs1 cs o : op_add_ctl (cs1 ++ cs) o = op_add_ctl cs1 (op_add_ctl cs o).
Proof. destruct o as [l|c f]; [|reflexivity]. unfold op_add_ctl, leaf_add_ctl. simpl. rewrite app_assoc. reflexivity. Qed.

Lemma circ_add_ctl_app cs1 cs ms : circ_add_ctl (cs1 ++ cs) ms = circ_add_ctl cs1 (circ_add_ctl cs ms).
Proof.
  unfold circ_add_ctl. rewrite map_map. apply map_ext. intro m. rewrite map_map. apply map_ext. intro o. apply op_add_ctl_app.
Qed.

Lemma conds_keys_app a b : conds_keys (a ++ b) = conds_keys a ++ conds_keys b.
Proof. unfold conds_keys. rewrite map_app, concat_app. reflexivity. Qed.

(* the flat form of the folded operation = the outer conditions put on every operation of the inner flat form *)
Theorem ctl_fold_flat kK kM n cs1 x :
  ctl_flat kK kM n (ctl_fold cs1 x) = (do ms <- ctl_flat kK kM n x; Ok (circ_add_ctl cs1 ms)).
Proof.
  destruct x as [cs o]. unfold ctl_fold, ctl_flat. cbn [fst snd]. destruct o as [l|c f].
  - destruct (isnil (lmk l)); [|reflexivity]. cbn [bind]. f_equal.
    change [[OLeaf (leaf_add_ctl (cs1 ++ cs) l)]] with [[op_add_ctl (cs1 ++ cs) (OLeaf l)]].
    rewrite op_add_ctl_app. reflexivity.
  - destruct (circ_is_meas c); [reflexivity|]. destruct (mapped_circuit kK kM n true c f) as [ms| |]; [|reflexivity|reflexivity].
    cbn [bind]. rewrite circ_add_ctl_app. reflexivity.
Qed.

Theorem ctl_fold_ckeys kK kM n cs1 x :
  ctl_ckeys kK kM n (ctl_fold cs1 x) = (do ks <- ctl_ckeys kK kM n x; Ok (conds_keys cs1 ++ ks)).
Proof.
  destruct x as [cs o]. unfold ctl_fold, ctl_ckeys. cbn [fst snd].
  destruct (op_ckeys kK kM n o) as [ks| |]; [|reflexivity|reflexivity]. cbn [bind]. rewrite conds_keys_app, app_assoc. reflexivity.
Qed.

Theorem ctl_fold_rescope kK kM path b cs1 x :
  ctl_rescope kK kM path b (ctl_fold cs1 x) = ctl_fold (map (cond_rescope kK kM path b) cs1) (ctl_rescope kK kM path b x).
Proof. destruct x as [cs o]. unfold ctl_fold, ctl_rescope. cbn [fst snd]. rewrite map_app. reflexivity. Qed.

Theorem ctl_fold_kmap kK kM m cs1 x :
  ctl_kmap kK kM m (ctl_fold cs1 x) = ctl_fold (map (cond_key_map kK kM m) cs1) (ctl_kmap kK kM m x).
Proof. destruct x as [cs o]. unfold ctl_fold, ctl_kmap. cbn [fst snd]. rewrite map_app. reflexivity. Qed.

Theorem ctl_fold_prefix kK kM p cs1 x :
  ctl_prefix kK kM p (ctl_fold cs1 x) = ctl_fold (map (cond_prefix kK kM p) cs1) (ctl_prefix kK kM p x).
Proof. destruct x as [cs o]. unfold ctl_fold, ctl_prefix. cbn [fst snd]. rewrite map_app. reflexivity. Qed.

(* ---- a block reports exactly the keys its flat form reads ---- *)
Lemma filter_true {A} (l : list A) : filter (fun _ => true) l = l.
Proof. induction l as [|x l IH]; simpl; [reflexivity | rewrite IH; reflexivity]. Qed.

Lemma op_ckeys_leaf kK kM n l : op_ckeys kK kM (S n) (OLeaf l) = Ok (conds_keys (lcs l)).
Proof. reflexivity. Qed.
Lemma op_ckeys_sub kK kM n c f : op_ckeys kK kM (S n) (OSub c f) =
  (do raw <- scan_ckeys (op_ckeys kK kM n) (List.concat c) [];
   do ks <- (if isnil raw then Ok [] else
             do s <- single_loop kK kM c f None; scan_ckeys (op_ckeys kK kM n) (List.concat s) []);
   Ok (ks ++ match mapped_until kK kM f (op_mkeys (OSub c f)) with
             | Some u => filter (fun k => negb (key_in k (op_mkeys (OSub c f)))) (cond_keys u)
             | None => [] end)).
Proof. reflexivity. Qed.

(* Circuit._control_keys_ over operations none of which measures: nothing gets bound on the way *)
Lemma scan_nomeas kK kM n ops : (forall o, In o ops -> leaf_nomeas o = true) ->
  scan_ckeys (op_ckeys kK kM (S n)) ops [] = Ok (List.concat (map op_reads ops)).
Proof.
  induction ops as [|o ops IH]; intro H; [reflexivity|].
  assert (Ho : leaf_nomeas o = true) by (apply H; left; reflexivity).
  destruct o as [l|c f]; [|discriminate]. cbn [scan_ckeys]. rewrite op_ckeys_leaf. cbn [bind op_mkeys].
  simpl in Ho. destruct (lmk l) eqn:El; [|discriminate]. cbn [app].
  rewrite IH by (intros o' Ho'; apply H; right; exact Ho'). cbn [bind map List.concat op_reads].
  f_equal. f_equal. apply filter_true.
Qed.

Lemma concat_squash c : List.concat (squash c) = List.concat c.
Proof.
  unfold squash. induction c as [|m c IH]; [reflexivity|]. cbn [map List.concat]. rewrite concat_app, IH.
  destruct m; [reflexivity|]. cbn [drop_empty List.concat]. rewrite app_nil_r. reflexivity.
Qed.

Lemma in_concat_repeat {A} n (s : list (list A)) x : In x (List.concat (repeat_app (S n) s)) <-> In x (List.concat s).
Proof.
  induction n as [|n IH].
  - cbn [repeat_app]. rewrite app_nil_r. tauto.
  - change (repeat_app (S (S n)) s) with (s ++ repeat_app (S n) s). rewrite concat_app, in_app_iff. tauto.
Qed.

Lemma key_nodup_nil s : key_nodup s = [] -> s = [].
Proof.
  induction s as [|k s IH]; [reflexivity|]. simpl. destruct (key_in k s) eqn:E; [|discriminate].
  intro H. rewrite (IH H) in E. discriminate.
Qed.

Lemma cond_keys_apply_nil kK kM f c : cond_keys c = [] -> cond_keys (cond_apply kK kM f c) = [].
Proof.
  destruct c as [k i|k i t e m|e s]; simpl; try discriminate. intro H. rewrite (key_nodup_nil _ H). reflexivity.
Qed.

Lemma conds_keys_nil cs : conds_keys cs = [] <-> Forall (fun c => cond_keys c = []) cs.
Proof.
  unfold conds_keys. induction cs as [|c cs IH]; simpl.
  - split; [constructor | reflexivity].
  - split.
    + intro H. apply app_eq_nil in H. destruct H as [H1 H2]. constructor; [exact H1 | apply IH; exact H2].
    + intro H. inversion H as [|? ? H1 H2]; subst. rewrite H1. apply IH. exact H2.
Qed.

Lemma conds_keys_kmap_nil kK kM m cs : conds_keys cs = [] -> conds_keys (map (cond_key_map kK kM m) cs) = [].
Proof.
  intro H. apply conds_keys_nil. apply conds_keys_nil in H. apply Forall_map.
  eapply Forall_impl; [|exact H]. intros c Hc. apply cond_keys_apply_nil. exact Hc.
Qed.

Lemma flat_reads_nil c : flat_reads c = [] <-> forall o, In o (List.concat c) -> op_reads o = [].
Proof.
  unfold flat_reads. generalize (List.concat c). intro l. induction l as [|o l IH]; simpl.
  - split; [intros _ o [] | reflexivity].
  - split.
    + intro H. apply app_eq_nil in H. destruct H as [H1 H2]. intros o' [<-|Ho']; [exact H1 | apply IH; assumption].
    + intro H. rewrite (H o (or_introl eq_refl)). apply IH. intros o' Ho'. apply H. right. exact Ho'.
Qed.

Lemma if_map_map (b : bool) (F : op -> op) (c : circ) :
  (if b then c else map (map F) c) = map (map (fun o => if b then o else F o)) c.
Proof.
  destruct b; [|reflexivity]. induction c as [|m c IH]; [reflexivity|]. cbn [map]. rewrite map_id, <- IH. reflexivity.
Qed.

(* _mapped_any_loop of a loop that is not inverted is an operation-by-operation image of the body, and the image of an
   operation that reads nothing reads nothing *)
Lemma any_loop_image kK kM c f a : rep_negative (reps f) = false -> any_loop kK kM c f = Ok a ->
  exists F, a = map (map F) c /\ forall o, op_reads o = [] -> op_reads (F o) = [].
Proof.
  intros Hneg H. unfold any_loop in H. rewrite Hneg in H. cbn [bind] in H. inversion H as [Ha]. clear H.
  unfold moment_kmap. rewrite (if_map_map (isnil (qm f))).
  change (map (fun mo => map (fun o => if isnil (op_names o) then o else t_kmap kK kM (km f) o) mo))
    with (map (map (fun o => if isnil (op_names o) then o else t_kmap kK kM (km f) o))).
  rewrite (if_map_map (isnil (km f))), (if_map_map (isnil (pm f))).
  eexists. split.
  - rewrite !map_map. apply map_ext. intro m. rewrite !map_map. reflexivity.
  - intros o Ho. cbv beta.
    assert (H1 : op_reads (if isnil (qm f) then o else t_qmap (zlookup (qm f)) o) = []).
    { destruct (isnil (qm f)); [exact Ho|]. destruct o; exact Ho. }
    set (o1 := if isnil (qm f) then o else t_qmap (zlookup (qm f)) o) in *.
    assert (H2 : op_reads (if isnil (km f) then o1 else if isnil (op_names o1) then o1 else t_kmap kK kM (km f) o1) = []).
    { destruct (isnil (km f)); [exact H1|]. destruct (isnil (op_names o1)); [exact H1|].
      destruct o1 as [l|c' f']; [|reflexivity]. cbn [t_kmap op_reads lcs]. apply conds_keys_kmap_nil. exact H1. }
    set (o2 := if isnil (km f) then o1 else if isnil (op_names o1) then o1 else t_kmap kK kM (km f) o1) in *.
    destruct (isnil (pm f)); [exact H2|]. destruct o2; exact H2.
Qed.

Lemma reads_add_ctl cs o : IsLeaf o -> op_reads (op_add_ctl cs o) = conds_keys cs ++ op_reads o.
Proof. destruct o as [l|c f]; [intros _ | intros []]. cbn [op_add_ctl op_reads]. apply ctl_leaf_ckeys. Qed.

Lemma in_flat_reads k c : In k (flat_reads c) <-> exists o, In o (List.concat c) /\ In k (op_reads o).
Proof.
  unfold flat_reads. rewrite in_concat. split.
  - intros [x [Hx Hk]]. apply in_map_iff in Hx. destruct Hx as [o [<- Ho]]. exists o. split; assumption.
  - intros [o [Ho Hk]]. exists (op_reads o). split; [apply in_map; exact Ho | exact Hk].
Qed.

Lemma concat_map_map {A B} (F : A -> B) (c : list (list A)) : List.concat (map (map F) c) = map F (List.concat c).
Proof. symmetry. apply concat_map. Qed.

(* The block CCO(S, cs) / If(cs, S) over a non-empty body of gates that measure nothing (conditions written at user level,
   any qubit / key / parameter maps, parent path, repetition ids, positive repetition count): the control keys it
   reports are, as a set, exactly the keys the operations of its flat form read - the keys of cs AND the keys the
   controls inside the body read. *)
Theorem block_ckeys_are_flat_reads kK kM n cs c f r ms :
  flat_nomeas c = true -> circ_user_level c = true -> List.concat c <> [] ->
  ext f = [] -> until f = None -> reps f = RInt r -> 0 < r ->
  ctl_flat kK kM (S n) (cs, OSub c f) = Ok ms ->
  exists ks, ctl_ckeys kK kM (S (S n)) (cs, OSub c f) = Ok ks /\ forall k, In k ks <-> In k (flat_reads ms).
Proof.
  intros Hf Hu Hne He Hun Hr Hpos H.
  assert (Hg : AllOps Gd c) by (apply gd_split; auto).
  pose proof (not_meas_of_flat c Hf) as Hm.
  assert (Hneg : rep_negative (reps f) = false) by (rewrite Hr; simpl; apply Z.ltb_ge; lia).
  unfold ctl_flat in H. cbn [snd fst] in H. rewrite Hm in H.
  destruct (any_loop kK kM c f) as [a| |] eqn:Ea.
  2:{ exfalso. cbn [mapped_circuit] in H. rewrite Hun, Hr in H. destruct (r =? 0) eqn:E0; [apply Z.eqb_eq in E0; lia|].
      unfold single_loop in H. rewrite Ea in H. rewrite Hm, andb_false_r in H. destruct (ids f); simpl in H; discriminate. }
  2:{ exfalso. cbn [mapped_circuit] in H. rewrite Hun, Hr in H. destruct (r =? 0) eqn:E0; [apply Z.eqb_eq in E0; lia|].
      unfold single_loop in H. rewrite Ea in H. rewrite Hm, andb_false_r in H. destruct (ids f); simpl in H; discriminate. }
  pose proof (any_loop_gd _ _ _ _ _ Ea Hneg Hg) as Hga.
  assert (Hla : AllOps IsLeaf a) by (apply (allops_weaken Gd); [apply gd_leaf | exact Hga]).
  pose proof (single_loop_gd _ _ _ _ _ Ea Hga He) as Hs.
  rewrite (mapped_flat kK kM n c f r a Hun Hr ltac:(lia) Hm Hs Hla) in H.
  cbn [bind] in H. inversion H; subst ms. clear H.
  destruct (any_loop_image _ _ _ _ _ Hneg Ea) as [F [HaF HF]].
  (* the control keys the operation reports *)
  assert (Hnm : forall c0, AllOps Gd c0 -> forall o, In o (List.concat c0) -> leaf_nomeas o = true).
  { intros c0 H0 o Ho. apply in_concat in Ho. destruct Ho as [m [Hm0 Ho]]. apply (H0 m o Hm0 Ho). }
  unfold ctl_ckeys. cbn [fst snd]. rewrite op_ckeys_sub.
  rewrite (scan_nomeas kK kM n (List.concat c) (Hnm c Hg)). cbn [bind].
  unfold mapped_until. rewrite Hun.
  fold (flat_reads c).
  assert (Hks : (if isnil (flat_reads c) then Ok []
                 else do s <- single_loop kK kM c f None; scan_ckeys (op_ckeys kK kM (S n)) (List.concat s) [])
                = Ok (flat_reads a)).
  { destruct (flat_reads c) eqn:Ec; cbn [isnil].
    - f_equal. symmetry. apply flat_reads_nil. intros o Ho. rewrite HaF, concat_map_map in Ho.
      apply in_map_iff in Ho. destruct Ho as [o0 [<- Ho0]]. apply HF. apply (proj1 (flat_reads_nil c) Ec). exact Ho0.
    - rewrite Hs. cbn [bind]. apply (scan_nomeas kK kM n (List.concat a) (Hnm a Hga)). }
  rewrite Hks. cbn [bind]. rewrite app_nil_r. eexists. split; [reflexivity|].
  (* the keys the flat form reads *)
  intro k. rewrite in_app_iff.
  destruct (Z.abs_nat r) as [|n'] eqn:En; [lia|].
  assert (Hin : forall o, In o (List.concat (squash (repeat_app (S n') a))) <-> In o (List.concat a)).
  { intro o. rewrite concat_squash. apply in_concat_repeat. }
  assert (Hane : exists o0, In o0 (List.concat a)).
  { rewrite HaF, concat_map_map. destruct (List.concat c) as [|o0 l]; [contradiction|]. exists (F o0). left. reflexivity. }
  unfold circ_add_ctl. split.
  - intro Hk0. apply in_flat_reads. destruct Hk0 as [Hk|Hk].
    + destruct Hane as [o0 Ho0]. exists (op_add_ctl cs o0). split.
      * rewrite concat_map_map. apply in_map. apply Hin. exact Ho0.
      * rewrite reads_add_ctl by (apply in_concat in Ho0; destruct Ho0 as [m [Hm0 Ho0]]; apply (Hla m o0 Hm0 Ho0)).
        apply in_app_iff. left. exact Hk.
    + apply in_flat_reads in Hk. destruct Hk as [o [Ho Hk]]. exists (op_add_ctl cs o). split.
      * rewrite concat_map_map. apply in_map. apply Hin. exact Ho.
      * rewrite reads_add_ctl by (apply in_concat in Ho; destruct Ho as [m [Hm0 Ho]]; apply (Hla m o Hm0 Ho)).
        apply in_app_iff. right. exact Hk.
  - intro Hk0. apply in_flat_reads in Hk0. destruct Hk0 as [o' [Ho' Hk]]. rewrite concat_map_map in Ho'. apply in_map_iff in Ho'. destruct Ho' as [o [<- Ho]].
    apply Hin in Ho.
    rewrite reads_add_ctl in Hk by (apply in_concat in Ho; destruct Ho as [m [Hm0 Ho]]; apply (Hla m o Hm0 Ho)).
    apply in_app_iff in Hk. destruct Hk as [Hk|Hk]; [left; exact Hk|]. right. apply in_flat_reads. exists o. split; assumption.
Qed.

(* hypotheses satisfiable, and the theorem at work on the block of the seeded class: If(c, [X(q1) if m]) reports c and m *)
Example block_ckeys_sat :
  flat_nomeas ctl_witness_body = true /\ circ_user_level ctl_witness_body = true /\ List.concat ctl_witness_body <> [] /\
  ext ctl_witness_fields = [] /\ until ctl_witness_fields = None /\ reps ctl_witness_fields = RInt 1 /\
  ctl_flat true true 2 ctl_witness = Ok [[OLeaf (Leaf 5 false [1] [] [CKey (MK [] "c") (-1); CKey (MK [] "m") (-1)] [])]] /\
  ctl_ckeys true true 3 ctl_witness = Ok [MK [] "c"; MK [] "m"].
Proof. repeat split. discriminate. Qed.

(* control keys taken from the conditions of the block alone are refuted by the same witness: the flat form reads m *)
Theorem ctl_ckeys_conds_only_refuted : forall kK kM,
  exists ms, ctl_flat kK kM 2 ctl_witness = Ok ms /\ In (MK [] "m") (flat_reads ms) /\
             ~ In (MK [] "m") (ctl_ckeys_conds_only ctl_witness).
Proof.
  intros kK kM. eexists. split; [destruct kK, kM; reflexivity|]. split.
  - vm_compute. right. left. reflexivity.
  - vm_compute. intros [H|[]]. discriminate.
Qed.
