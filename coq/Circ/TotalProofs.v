(* C05 proofs, part 7: Circuit.insert never raises (no live cache, or a cache that agrees with the
   moments), for every strategy, index and operation tree. *)
From Coq Require Import ZArith List Bool Arith Lia.
From VF Require Import Circ.Moments Circ.Placement Circ.Insert Circ.MomentsProofs Circ.InsertProofs
  Circ.PlacementProofs Circ.CacheProofs Circ.OrderProofs.
Import ListNotations.
Open Scope Z_scope.

Local Arguments place : simpl never.
Local Arguments insert_at : simpl never.
Local Arguments replace_nth : simpl never.
Local Arguments earliest_available_moment : simpl never.
Local Arguments latest_available_moment : simpl never.
Local Arguments blocks : simpl never.
Local Arguments can_add_op_at : simpl never.
Local Arguments Nat.max : simpl never.
Local Arguments nth_error : simpl never.
Local Arguments with_operation : simpl never.

(* ---- batches: a single Moment, or operations that pairwise do not conflict ---- *)
Definition compat (a b : opd) : Prop := conflicts a b = false /\ conflicts b a = false.
Fixpoint pairwise (l : list opd) : Prop :=
  match l with [] => True | x :: r => Forall (compat x) r /\ pairwise r end.
Definition ops_of_batch (b : list item) : option (list opd) :=
  fold_right (fun it acc => match it, acc with IOp o, Some l => Some (o :: l) | _, _ => None end) (Some []) b.
Definition batch_ok (b : list item) : Prop :=
  (exists m, b = [IMom m]) \/ (exists ops, ops <> [] /\ ops_of_batch b = Some ops /\ pairwise ops).

Lemma conflicts_false_intro a o :
  disjointb (qs o) (qs a) = true -> disjointb (mk o) (mk a) = true -> disjointb (ck o) (mk a) = true ->
  disjointb (ck a) (mk o) = true -> conflicts a o = false.
Proof. unfold conflicts. intros -> -> -> ->. reflexivity. Qed.

Lemma disjointb_app_r a b c : disjointb a (b ++ c) = disjointb a b && disjointb a c.
Proof.
  apply eq_true_iff_eq. rewrite andb_true_iff, !disjointb_spec. split.
  - intros H. split; intros x Hx Hin; apply (H x Hx); apply in_or_app; [left|right]; exact Hin.
  - intros [H1 H2] x Hx Hin. apply in_app_or in Hin as [Hin|Hin]; [exact (H1 x Hx Hin)|exact (H2 x Hx Hin)].
Qed.

(* the accumulator of _group_into_moment_compatible: the three sets are those of the current batch,
   the current batch holds pairwise compatible operations, emitted batches are fine *)
Definition gacc_ok (a : gacc) : Prop :=
  Forall batch_ok (g_out a) /\
  exists ops, g_batch a = map IOp ops /\ pairwise ops /\
    (forall o, disjointb (g_q a) (qs o) = true -> Forall (fun x => disjointb (qs x) (qs o) = true) ops) /\
    (forall l, disjointb (g_m a) l = true -> Forall (fun x => disjointb (mk x) l = true) ops) /\
    (forall l, disjointb (g_c a) l = true -> Forall (fun x => disjointb (ck x) l = true) ops).

Lemma ops_of_batch_map ops : ops_of_batch (map IOp ops) = Some ops.
Proof. unfold ops_of_batch. induction ops as [|o r IH]; simpl; [reflexivity|]. rewrite IH. reflexivity. Qed.

Lemma pairwise_rev ops : pairwise ops -> pairwise (rev ops).
Proof.
  induction ops as [|x r IH]; simpl; intros H; [exact I|]. destruct H as [Hx Hr].
  assert (G : forall l, pairwise l -> Forall (fun y => compat y x) l -> pairwise (l ++ [x])).
  { induction l as [|y l IHl]; simpl; intros Hl Hy; [split; [constructor|exact I]|].
    destruct Hl as [Hy1 Hl]. inversion Hy; subst. split; [apply Forall_app; split; [exact Hy1|constructor; [assumption|constructor]]|].
    apply IHl; assumption. }
  apply G; [apply IH; exact Hr|]. apply Forall_rev. eapply Forall_impl; [|exact Hx].
  intros y [H1 H2]. split; assumption.
Qed.

Lemma g_flush_ok a : gacc_ok a -> gacc_ok (g_flush a).
Proof.
  intros [Hout [ops [Hb [Hp _]]]]. unfold g_flush. split.
  - cbn [g_out]. rewrite Hb. destruct ops as [|o r]; [exact Hout|]. cbn [map]. constructor; [|exact Hout].
    right. exists (rev (o :: r)). change (IOp o :: map IOp r) with (map IOp (o :: r)). rewrite <- map_rev.
    split; [simpl; intros E; apply app_eq_nil in E as [_ E]; discriminate|].
    split; [apply ops_of_batch_map|apply pairwise_rev; exact Hp].
  - exists []. simpl. repeat split; intros; constructor.
Qed.

Lemma g_step_ok a it : gacc_ok a -> gacc_ok (g_step a it).
Proof.
  intros Ha. destruct it as [o|m]; unfold g_step.
  - match goal with |- context [if ?c then g_flush a else a] => set (a1 := if c then g_flush a else a) end.
    assert (Ha1 : gacc_ok a1 /\ disjointb (g_q a1) (qs o) = true /\ disjointb (g_m a1) (mk o) = true
                  /\ disjointb (g_m a1) (ck o) = true /\ disjointb (g_c a1) (mk o) = true).
    { unfold a1. destruct (negb (disjointb (g_q a) (qs o))) eqn:E1; simpl.
      - split; [apply g_flush_ok; exact Ha|]. repeat split; reflexivity.
      - destruct (negb (disjointb (g_m a) (mk o))) eqn:E2; simpl.
        + split; [apply g_flush_ok; exact Ha|]. repeat split; reflexivity.
        + destruct (negb (disjointb (g_m a) (ck o))) eqn:E3; simpl.
          * split; [apply g_flush_ok; exact Ha|]. repeat split; reflexivity.
          * destruct (negb (disjointb (g_c a) (mk o))) eqn:E4; simpl.
            -- split; [apply g_flush_ok; exact Ha|]. repeat split; reflexivity.
            -- apply negb_false_iff in E1, E2, E3, E4. split; [exact Ha|]. repeat split; assumption. }
    clearbody a1. destruct Ha1 as [[Hout [ops [Hb [Hp [Hq [Hm Hc]]]]]] [D1 [D2 [D3 D4]]]].
    split; [exact Hout|]. exists (o :: ops). cbn [g_batch g_q g_m g_c g_out]. split; [rewrite Hb; reflexivity|]. split.
    + (* o is compatible with every operation already in the batch *)
      split; [|exact Hp].
      pose proof (Hq o D1) as F1. pose proof (Hm _ D2) as F2. pose proof (Hm _ D3) as F3. pose proof (Hc _ D4) as F4.
      rewrite Forall_forall in *. intros x Hx. split.
      * apply conflicts_false_intro.
        -- apply F1. exact Hx.
        -- apply F2. exact Hx.
        -- apply F4. exact Hx.
        -- rewrite disjointb_sym. apply F3. exact Hx.
      * apply conflicts_false_intro.
        -- rewrite disjointb_sym. apply F1. exact Hx.
        -- rewrite disjointb_sym. apply F2. exact Hx.
        -- rewrite disjointb_sym. apply F3. exact Hx.
        -- apply F4. exact Hx.
    + repeat split.
      * intros o' Hd. rewrite disjointb_sym, disjointb_app_r in Hd. apply andb_true_iff in Hd as [Hd1 Hd2].
        constructor; [rewrite disjointb_sym; exact Hd1|]. apply Hq. rewrite disjointb_sym. exact Hd2.
      * intros l Hd. rewrite disjointb_sym, disjointb_app_r in Hd. apply andb_true_iff in Hd as [Hd1 Hd2].
        constructor; [rewrite disjointb_sym; exact Hd1|]. apply Hm. rewrite disjointb_sym. exact Hd2.
      * intros l Hd. rewrite disjointb_sym, disjointb_app_r in Hd. apply andb_true_iff in Hd as [Hd1 Hd2].
        constructor; [rewrite disjointb_sym; exact Hd1|]. apply Hc. rewrite disjointb_sym. exact Hd2.
  - pose proof (g_flush_ok a Ha) as [Hout _]. split.
    + cbn [g_out]. constructor; [left; exists m; reflexivity|exact Hout].
    + exists []. simpl. repeat split; intros; constructor.
Qed.

Theorem group_batches_ok its : Forall batch_ok (group_into_moment_compatible its).
Proof.
  unfold group_into_moment_compatible. apply Forall_rev.
  assert (G : forall l a, gacc_ok a -> gacc_ok (fold_left g_step l a)).
  { induction l as [|it r IH]; intros a Ha; simpl; [exact Ha|]. apply IH. apply g_step_ok. exact Ha. }
  assert (H0 : gacc_ok (mkg [] [] [] [] [])).
  { split; [constructor|]. exists []. simpl. repeat split; intros; constructor. }
  destruct (g_flush_ok _ (G its _ H0)) as [Hout _]. exact Hout.
Qed.

(* ---- placing compatible operations does not disturb what the others were promised ---- *)
Lemma nth_error_replace_nth_eq {A} (x : A) l : forall n, (n < length l)%nat -> nth_error (replace_nth n x l) n = Some x.
Proof.
  induction l as [|y r IH]; intros n Hn; simpl in Hn; [lia|]. destruct n as [|n]; [reflexivity|].
  unfold replace_nth; fold (@replace_nth A). unfold nth_error; fold (@nth_error A). apply IH. lia.
Qed.
Lemma nth_error_replace_nth_other {A} (x : A) l : forall n j, n <> j -> nth_error (replace_nth n x l) j = nth_error l j.
Proof.
  induction l as [|y r IH]; intros n j Hne; destruct n as [|n]; destruct j as [|j]; try reflexivity; try lia.
  unfold replace_nth; fold (@replace_nth A). unfold nth_error; fold (@nth_error A). apply IH. lia.
Qed.

Lemma blocks_app_single m o o2 : blocks m o2 = false -> conflicts o o2 = false -> blocks (m ++ [o]) o2 = false.
Proof.
  intros Hm Hc. destruct (blocks (m ++ [o]) o2) eqn:E; [|reflexivity]. exfalso.
  apply blocks_spec in E as [x [Hx Hcx]]. apply in_app_or in Hx as [Hx|[<-|[]]].
  - assert (blocks m o2 = true) by (apply blocks_spec; exists x; split; assumption). congruence.
  - congruence.
Qed.

Lemma blocks_single o o2 : conflicts o o2 = false -> blocks [o] o2 = false.
Proof. intros Hc. apply (blocks_app_single [] o o2); [|exact Hc]. destruct (blocks [] o2) eqn:E; [|reflexivity]. apply blocks_spec in E as [x [[] _]]. Qed.

Lemma blocks_nil o : blocks [] o = false.
Proof. destruct (blocks [] o) eqn:E; [|reflexivity]. apply blocks_spec in E as [x [[] _]]. Qed.

Definition ok_at (ms : list moment) (o : opd) (j : nat) : Prop := nth_error ms j = None \/ free_at ms o j.

Lemma free_at_after_join ms p m o o2 j :
  nth_error ms p = Some m -> conflicts o o2 = false -> free_at ms o2 j -> free_at (replace_nth p (m ++ [o]) ms) o2 j.
Proof.
  intros Hn Hc [mj [Hj Hb]]. assert (Hlt : (p < length ms)%nat) by (apply nth_error_Some; congruence).
  destruct (Nat.eq_dec p j) as [->|Hne].
  - rewrite Hn in Hj. injection Hj as <-. exists (m ++ [o]). split; [apply nth_error_replace_nth_eq; exact Hlt|].
    apply blocks_app_single; assumption.
  - exists mj. split; [rewrite nth_error_replace_nth_other by exact Hne; exact Hj|exact Hb].
Qed.

Lemma ok_at_after_join ms p m o o2 j :
  nth_error ms p = Some m -> conflicts o o2 = false -> ok_at ms o2 j -> ok_at (replace_nth p (m ++ [o]) ms) o2 j.
Proof.
  intros Hn Hc [Hnone|Hf]; [|right; eapply free_at_after_join; eassumption].
  left. destruct (Nat.eq_dec p j) as [->|Hne]; [congruence|]. rewrite nth_error_replace_nth_other by exact Hne. exact Hnone.
Qed.

Lemma free_at_after_append ms o o2 j : free_at ms o2 j -> free_at (ms ++ [[o]]) o2 j.
Proof.
  intros [mj [Hj Hb]]. exists mj. split; [|exact Hb]. rewrite nth_error_app1; [exact Hj|]. apply nth_error_Some. congruence.
Qed.

Lemma ok_at_after_append ms o o2 j : conflicts o o2 = false -> ok_at ms o2 j -> ok_at (ms ++ [[o]]) o2 j.
Proof.
  intros Hc [Hnone|Hf]; [|right; apply free_at_after_append; exact Hf].
  apply nth_error_None in Hnone. destruct (Nat.eq_dec j (length ms)) as [->|Hne].
  - right. exists [o]. split; [rewrite nth_error_app2 by lia; rewrite Nat.sub_diag; reflexivity|apply blocks_single; exact Hc].
  - left. apply nth_error_None. rewrite app_length. simpl. lia.
Qed.

(* what the blank-moment test at the head of a batch guarantees to every operation of the batch *)
Definition ready (st : ist) (o : opd) : Prop :=
  match i_s st with
  | EARLIEST => ok_at (i_ms st) o (i_k st) \/ ((0 < i_k st)%nat /\ free_at (i_ms st) o (Nat.pred (i_k st)))
  | INLINE => (0 < i_k st)%nat /\ free_at (i_ms st) o (Nat.pred (i_k st))
  | _ => True
  end.

Definition good (st : ist) : Prop :=
  i_cache st = None /\ i_s st <> LATEST /\ (i_k st <= length (i_ms st))%nat /\
  (i_maxp st = O \/ (i_maxp st < length (i_ms st))%nat).

Lemma free_not_operates m o : blocks m o = false -> operates_on m (qs o) = false.
Proof. unfold blocks. destruct (operates_on m (qs o)); [discriminate|reflexivity]. Qed.

Lemma place_join ms p m o : nth_error ms p = Some m -> blocks m o = false ->
  place ms p (IOp o) = inl (replace_nth p (m ++ [o]) ms).
Proof.
  intros Hn Hb. destruct (free_at_join ms o p) as [m' [Hn' Hp]]; [exists m; split; assumption|].
  rewrite Hn in Hn'. injection Hn' as <-. exact Hp.
Qed.

(* one operation of a batch: it is placed, and the promises made to compatible operations survive *)
Ltac fin := unfold good; cbn [i_ms i_cache i_k i_s i_maxp];
  rewrite ?app_length, ?replace_nth_length, ?insert_at_length_S; cbn [length];
  repeat split; try congruence; try lia.

Ltac fin3 := split; [fin|]; split; [fin|]; split; [fin|]; cbn [i_ms i_cache i_k i_s i_maxp].

Lemma place_item_total st o : good st -> ready st o ->
  exists st', place_item st (IOp o) = (st', None) /\ good st' /\ (i_maxp st' < length (i_ms st'))%nat /\
              (length (i_ms st) <= length (i_ms st'))%nat /\
              (forall o2, compat o o2 -> ready st o2 -> ready st' o2).
Proof.
  intros [Hc [Hs [Hk Hmp]]] Hr. unfold place_item, determine. rewrite Hc.
  destruct st as [ms cch k s maxp]. cbn [i_ms i_cache i_k i_s i_maxp] in *. subst cch.
  destruct s; try congruence; unfold ready in Hr; cbn [i_ms i_k i_s] in Hr.
  - (* EARLIEST *)
    destruct (eam_spec ms o k Hk) as [Hp1 [Hp2 Hp3]]. set (p := earliest_available_moment ms o k) in *.
    assert (Hcase : (p = length ms /\ k = length ms) \/ free_at ms o p).
    { destruct (Nat.lt_ge_cases p k) as [Hlt|Hge]; [right; apply Hp2; lia|].
      assert (p = k) by lia. clearbody p. subst p.
      destruct Hr as [[Hnone|Hf]|[Hk0 Hf]].
      - left. apply nth_error_None in Hnone. lia.
      - right. exact Hf.
      - exfalso. destruct Hp3 as [Hp3|[m' [Hn' Hb']]]; [lia|]. destruct Hf as [m'' [Hn'' Hb'']]. congruence. }
    destruct Hcase as [[Hpl Hkl]|[m [Hn Hb]]].
    + unfold place. rewrite Hpl, Nat.eqb_refl. eexists. split; [reflexivity|]. fin3.
      intros o2 [Hc12 _]. unfold ready; cbn [i_ms i_k i_s]. intros [Hok|[Hk0 Hf]].
      * left. apply ok_at_after_append; assumption.
      * right. split; [exact Hk0|apply free_at_after_append; exact Hf].
    + assert (Hlt : (p < length ms)%nat) by (apply nth_error_Some; congruence).
      rewrite (place_join ms p m o Hn Hb). eexists. split; [reflexivity|]. fin3.
      intros o2 [Hc12 _]. unfold ready; cbn [i_ms i_k i_s]. intros [Hok|[Hk0 Hf]].
      * left. eapply ok_at_after_join; eassumption.
      * right. split; [exact Hk0|eapply free_at_after_join; eassumption].
  - (* NEW *)
    rewrite (place_on_blank ms k o Hk). eexists. split; [reflexivity|]. fin3. intros o2 _ _. exact I.
  - (* INLINE *)
    destruct Hr as [Hk0 [m [Hn Hb]]].
    assert (Hlt : (Nat.pred k < length ms)%nat) by (apply nth_error_Some; congruence).
    rewrite (place_join ms (Nat.pred k) m o Hn Hb). eexists. split; [reflexivity|]. fin3.
    intros o2 [Hc12 _]. unfold ready; cbn [i_ms i_k i_s]. intros [_ Hf]. split; [exact Hk0|eapply free_at_after_join; eassumption].
  - (* NEW_THEN_INLINE: a new moment, then inline into it *)
    rewrite (place_on_blank ms k o Hk). eexists. split; [reflexivity|]. fin3.
    intros o2 [Hc12 _] _. unfold ready. cbn [i_ms i_k i_s Nat.pred]. split; [lia|].
    exists [o]. split; [apply nth_error_insert_at_eq; exact Hk|apply blocks_single; exact Hc12].
Qed.

Lemma place_items_total ops : forall st, good st -> pairwise ops -> Forall (ready st) ops ->
  exists st', place_items st (map IOp ops) = (st', None) /\ good st' /\
              (ops <> [] -> (i_maxp st' < length (i_ms st'))%nat) /\ (ops = [] -> st' = st).
Proof.
  induction ops as [|o r IH]; intros st Hg Hp Hr; cbn [map place_items].
  - exists st. split; [reflexivity|]. split; [exact Hg|]. split; [intros H; congruence|intros _; reflexivity].
  - destruct Hp as [Hpo Hpr]. inversion Hr as [|? ? Hro Hrr]; subst.
    destruct (place_item_total st o Hg Hro) as [st1 [H1 [Hg1 [Hm1 [Hl1 Hpres]]]]]. rewrite H1.
    assert (Hr1 : Forall (ready st1) r).
    { rewrite Forall_forall in *. intros o2 Ho2. apply Hpres; [apply Hpo; exact Ho2|apply Hrr; exact Ho2]. }
    destruct (IH st1 Hg1 Hpr Hr1) as [st2 [H2 [Hg2 [Hm2 He2]]]]. exists st2. split; [exact H2|]. split; [exact Hg2|].
    split; [|intros H; discriminate]. intros _. destruct r as [|o2 r2]; [rewrite (He2 eq_refl); exact Hm1|apply Hm2; discriminate].
Qed.

Lemma ops_of_batch_inv b : forall ops, ops_of_batch b = Some ops -> b = map IOp ops.
Proof.
  unfold ops_of_batch. induction b as [|it r IH]; intros ops H; simpl in H.
  - injection H as <-. reflexivity.
  - destruct it as [o|m]; [|discriminate].
    destruct (fold_right _ (Some []) r) as [l|]; [|discriminate]. injection H as <-. simpl. rewrite (IH l eq_refl). reflexivity.
Qed.

Lemma can_add_ok_at ms k o : can_add_op_at ms k o = true -> ok_at ms o k.
Proof.
  rewrite can_add_spec. destruct (nth_error ms k) as [m|] eqn:En; [|intros _; left; exact En].
  intros H. right. exists m. split; [exact En|]. destruct (blocks m o); [discriminate|reflexivity].
Qed.

Lemma can_add_free_at ms k o : (k < length ms)%nat -> can_add_op_at ms k o = true -> free_at ms o k.
Proof.
  intros Hk H. destruct (can_add_ok_at ms k o H) as [Hn|Hf]; [|exact Hf]. apply nth_error_None in Hn. lia.
Qed.

Lemma free_at_blank (ms : list moment) k o : (k <= length ms)%nat -> free_at (insert_at k [] ms) o k.
Proof. intros Hk. exists []. split; [apply nth_error_insert_at_eq; exact Hk|apply blocks_nil]. Qed.

Lemma forallb_map_IOp (f : opd -> bool) ops :
  forallb (fun it => match it with IOp o => f o | IMom _ => true end) (map IOp ops) = forallb f ops.
Proof. induction ops as [|o r IH]; simpl; [reflexivity|rewrite IH; reflexivity]. Qed.

(* one batch *)
Lemma do_batch_total st b : good st -> batch_ok b -> exists st', do_batch st b = (st', None) /\ good st'.
Proof.
  intros [Hc [Hs [Hk Hmp]]] Hb. destruct st as [ms cch k s maxp]. cbn [i_ms i_cache i_k i_s i_maxp] in *. subst cch.
  destruct Hb as [[m ->]|[ops [Hne [Ho Hp]]]].
  - (* a Moment goes in intact at k *)
    unfold do_batch, needs_blank. cbn [i_cache i_ms i_k i_s i_maxp place_items]. unfold place_item, determine.
    cbn [i_cache i_ms i_k i_s i_maxp]. unfold place.
    destruct s; try congruence; (eexists; split; [reflexivity|]; fin).
  - apply ops_of_batch_inv in Ho. subst b. unfold do_batch.
    (* the state after the blank-moment test, with max_p reset *)
    match goal with |- context [place_items ?x _] => set (st2 := x) end.
    assert (H2 : good st2 /\ Forall (ready st2) ops).
    { unfold st2. destruct ops as [|o0 r0]; [congruence|]. unfold needs_blank. cbn [map i_cache i_s i_ms i_k].
      destruct s; try congruence; cbn [i_ms i_cache i_k i_s i_maxp].
      - (* EARLIEST *)
        change (IOp o0 :: map IOp r0) with (map IOp (o0 :: r0)). rewrite forallb_map_IOp. cbn [strategy_eqb andb].
        destruct (forallb _ (o0 :: r0)) eqn:Ef; cbn [negb i_ms i_cache i_k i_s i_maxp].
        + split; [fin|]. apply Forall_forall. intros o Hin. rewrite forallb_forall in Ef. specialize (Ef o Hin).
          unfold ready. cbn [i_ms i_k i_s]. apply orb_true_iff in Ef as [E|E].
          * left. apply can_add_ok_at. exact E.
          * apply andb_true_iff in E as [E1 E2]. apply Nat.ltb_lt in E1. right. split; [exact E1|].
            apply can_add_free_at; [lia|exact E2].
        + split; [fin|]. apply Forall_forall. intros o Hin. unfold ready. cbn [i_ms i_k i_s].
          left. right. apply free_at_blank. exact Hk.
      - (* NEW *) split; [fin|]. apply Forall_forall. intros o Hin. exact I.
      - (* INLINE *)
        change (IOp o0 :: map IOp r0) with (map IOp (o0 :: r0)). rewrite forallb_map_IOp. cbn [strategy_eqb andb orb].
        destruct (forallb _ (o0 :: r0)) eqn:Ef; cbn [negb i_ms i_cache i_k i_s i_maxp].
        + split; [fin|]. apply Forall_forall. intros o Hin. rewrite forallb_forall in Ef. specialize (Ef o Hin).
          unfold ready. cbn [i_ms i_k i_s]. apply andb_true_iff in Ef as [E1 E2]. apply Nat.ltb_lt in E1.
          split; [exact E1|]. apply can_add_free_at; [lia|exact E2].
        + split; [fin|]. apply Forall_forall. intros o Hin. unfold ready. cbn [i_ms i_k i_s Nat.pred].
          split; [lia|]. apply free_at_blank. exact Hk.
      - (* NEW_THEN_INLINE *) split; [fin|]. apply Forall_forall. intros o Hin. exact I. }
    destruct H2 as [Hg2 Hr2]. clearbody st2.
    destruct (place_items_total ops st2 Hg2 Hp Hr2) as [st3 [H3 [[Hc3 [Hs3 [Hk3 _]]] [Hm3 _]]]].
    rewrite H3. eexists. split; [reflexivity|]. specialize (Hm3 Hne). fin.
Qed.

Lemma do_batches_total bs : forall st, good st -> Forall batch_ok bs -> exists st', do_batches st bs = (st', None) /\ good st'.
Proof.
  induction bs as [|b r IH]; intros st Hg Hb; cbn [do_batches].
  - exists st. split; [reflexivity|exact Hg].
  - inversion Hb; subst. destruct (do_batch_total st b Hg H1) as [st1 [H1' Hg1]]. rewrite H1'. apply IH; assumption.
Qed.

(* _insert_latest *)
Lemma latest_item_total k st it : (k <= length (l_ms st))%nat ->
  exists st', latest_item k st it = (st', None) /\ (length (l_ms st) <= length (l_ms st'))%nat.
Proof.
  intros Hk. unfold latest_item. destruct it as [o|m].
  - destruct (Nat.eq_dec k (length (l_ms st))) as [Hend|Hmid].
    + unfold latest_available_moment. rewrite Hend, Nat.eqb_refl, Z.ltb_irrefl. eexists. split; [reflexivity|].
      cbn [l_ms]. rewrite app_length. lia.
    + destruct (lam_spec (l_ms st) o k ltac:(lia)) as [H1 [H2 _]]. set (p := latest_available_moment (l_ms st) o k) in *.
      destruct (p <? Z.of_nat k) eqn:Elt.
      * eexists. split; [reflexivity|]. cbn [l_ms]. rewrite insert_at_length_S. lia.
      * apply Z.ltb_ge in Elt. replace (p <? Z.of_nat (length (l_ms st))) with true by (symmetry; apply Z.ltb_lt; lia).
        destruct (H2 (Z.to_nat p) ltac:(lia) ltac:(lia)) as [m [Hn Hb]]. rewrite Hn.
        unfold with_operation. rewrite (free_not_operates m o Hb). eexists. split; [reflexivity|].
        cbn [l_ms]. rewrite replace_nth_length. lia.
  - eexists. split; [reflexivity|]. cbn [l_ms]. rewrite insert_at_length_S. lia.
Qed.

Lemma latest_items_total k its : forall st, (k <= length (l_ms st))%nat ->
  exists st', latest_items k st its = (st', None) /\ (k <= length (l_ms st'))%nat.
Proof.
  induction its as [|it r IH]; intros st Hk; cbn [latest_items].
  - exists st. split; [reflexivity|exact Hk].
  - destruct (latest_item_total k st it Hk) as [st1 [H1 Hl]]. rewrite H1. apply IH. lia.
Qed.

Lemma latest_batches_total k bs : forall st, (k <= length (l_ms st))%nat ->
  exists st', latest_batches k st bs = (st', None).
Proof.
  induction bs as [|b r IH]; intros st Hk; cbn [latest_batches].
  - exists st. reflexivity.
  - destruct (latest_items_total k b st Hk) as [st1 [H1 Hl]]. rewrite H1. apply IH. exact Hl.
Qed.

(* ==== Circuit.insert never raises ==== *)
Theorem insert_total c i its s : cache_ok c -> exists c' z, insert c i its s = (c', inl z).
Proof.
  intros Hok. unfold insert. pose proof (clamp_index_le i (length (moms c))) as Hk.
  set (k := clamp_index i (length (moms c))) in *.
  pose proof (cache0_cases s k c Hok) as Hc0. cbv zeta in Hc0.
  match type of Hc0 with ?t = None \/ _ => set (c0 := t) in * end.
  destruct Hc0 as [Hn|[pc [Hs [Hm ->]]]].
  - rewrite Hn.
    assert (Hb : Forall batch_ok (match s with NEW => map (fun it => [it]) its | _ => group_into_moment_compatible its end)).
    { destruct s; try apply group_batches_ok. clear. induction its as [|it r IH]; simpl; constructor; [|exact IH].
      destruct it as [o|m]; [right; exists [o]; split; [discriminate|split; [reflexivity|split; [constructor|exact I]]]|left; exists m; reflexivity]. }
    destruct s.
    1-4: (match goal with |- context [do_batches ?st0 ?bs] =>
            destruct (do_batches_total bs st0) as [st1 [H1 _]]; [fin|exact Hb|rewrite H1] end; eexists; eexists; reflexivity).
    unfold insert_latest.
    match goal with |- context [latest_batches k ?st0 ?bs] => destruct (latest_batches_total k bs st0 Hk) as [st1 H1]; rewrite H1 end.
    eexists. eexists. reflexivity.
  - rewrite Hs. cbn [do_batches].
    destruct (do_batch_cached (mki (moms c) (Some pc) k EARLIEST 0) its pc eq_refl Hm) as [st1 [pc1 [H1 _]]].
    rewrite H1. eexists. eexists. reflexivity.
Qed.
