(* C05 model, part 3: Circuit state, Circuit.insert with the five strategies, _insert_latest,
   append, the constructor.  Written in the shape of circuit.py; definitions only. *)
From Coq Require Import ZArith List Bool Arith.
From VF Require Import Circ.Moments Circ.Placement.
Import ListNotations.
Open Scope Z_scope.

Inductive strategy := EARLIEST | NEW | INLINE | NEW_THEN_INLINE | LATEST.

(* the five lazily computed summaries of Circuit (None = not computed / invalidated by _mutated) *)
Record sums := mksums {
  s_qubits : option (list Z);         (* _all_qubits *)
  s_frozen : option (list moment);    (* _frozen (its moments) *)
  s_ismeas : option bool;             (* _is_measurement *)
  s_isparam : option bool;            (* _is_parameterized *)
  s_pnames : option (list Z) }.       (* _parameter_names *)
Definition no_sums : sums := mksums None None None None None.

Record cstate := mkc { moms : list moment; cache : option pcache; sm : sums }.

(* Circuit._mutated(preserve_placement_cache) *)
Definition mutated (preserve : bool) (c : cstate) : cstate :=
  mkc (moms c) (if preserve then cache c else None) no_sums.

(* Circuit() *)
Definition empty_circuit : cstate := mkc [] (Some empty_cache) no_sums.
(* Circuit._from_moments / copy() *)
Definition from_moments (ms : list moment) : cstate := mkc ms None no_sums.

(* index clamping of insert:  max(min(index if index >= 0 else len + index, len), 0) *)
Definition clamp_index (index : Z) (n : nat) : nat :=
  let i := if 0 <=? index then index else Z.of_nat n + index in
  Z.to_nat (Z.max (Z.min i (Z.of_nat n)) 0).

(* the conflict test shared by earliest_available_moment and _latest_available_moment *)
Definition blocks (m : moment) (o : opd) : bool :=
  operates_on m (qs o)
  || negb (disjointb (mk o) (mmkeys m))
  || negb (disjointb (ck o) (mmkeys m))
  || negb (disjointb (mckeys m) (mk o)).

(* Circuit._can_add_op_at(moment_index, op), moment_index >= 0 *)
Definition can_add_op_at (ms : list moment) (i : nat) (o : opd) : bool :=
  match nth_error ms i with
  | None => true
  | Some m =>
      if operates_on m (qs o) then false
      else if nonempty (ck o) || nonempty (mk o) then
        disjointb (ck o) (mmkeys m)
        && (if nonempty (mk o) then disjointb (mk o) (mmkeys m) && disjointb (mk o) (mckeys m) else true)
      else true
  end.

(* Circuit.earliest_available_moment(op, end_moment_index=k): the while loop counting k down *)
Fixpoint eam_loop (ms : list moment) (o : opd) (k last : nat) : nat :=
  match k with
  | O => last
  | S k' => match nth_error ms k' with
            | None => last
            | Some m => if blocks m o then last else eam_loop ms o k' k'
            end
  end.
Definition earliest_available_moment (ms : list moment) (o : opd) (endi : nat) : nat :=
  let e := Nat.min endi (length ms) in eam_loop ms o e e.

(* Circuit._latest_available_moment(op, start_moment_index=k): scan of the suffix; result may be k-1 *)
Fixpoint lam_loop (suffix : list moment) (o : opd) (i : Z) : Z :=
  match suffix with
  | [] => i - 1
  | m :: r => if blocks m o then i - 1 else lam_loop r o (i + 1)
  end.
Definition latest_available_moment (ms : list moment) (o : opd) (k : nat) : Z :=
  if Nat.eqb k (length ms) then Z.of_nat k else lam_loop (skipn k ms) o (Z.of_nat k).

(* _group_into_moment_compatible: batch kept reversed in the accumulator *)
Record gacc := mkg { g_out : list (list item); g_batch : list item; g_q : list Z; g_m : list Z; g_c : list Z }.
Definition g_flush (a : gacc) : gacc :=
  mkg (match g_batch a with [] => g_out a | b => rev b :: g_out a end) [] [] [] [].
Definition g_step (a : gacc) (it : item) : gacc :=
  match it with
  | IMom m => let a' := g_flush a in mkg ([it] :: g_out a') [] [] [] []
  | IOp o =>
      let a1 := if negb (disjointb (g_q a) (qs o)) || negb (disjointb (g_m a) (mk o))
                   || negb (disjointb (g_m a) (ck o)) || negb (disjointb (g_c a) (mk o))
                then g_flush a else a in
      mkg (g_out a1) (it :: g_batch a1) (qs o ++ g_q a1) (mk o ++ g_m a1) (ck o ++ g_c a1)
  end.
Definition group_into_moment_compatible (its : list item) : list (list item) :=
  rev (g_out (g_flush (fold_left g_step its (mkg [] [] [] [] [])))).

(* ---- the main loop of insert ---- *)
Record ist := mki { i_ms : list moment; i_cache : option pcache; i_k : nat; i_s : strategy; i_maxp : nat }.

Definition is_new (s : strategy) : bool := match s with NEW | NEW_THEN_INLINE => true | _ => false end.
Definition strategy_eqb (a b : strategy) : bool :=
  match a, b with
  | EARLIEST, EARLIEST | NEW, NEW | INLINE, INLINE | NEW_THEN_INLINE, NEW_THEN_INLINE | LATEST, LATEST => true
  | _, _ => false
  end.

(* "Determine Placement": the index p, the cache after _PlacementCache.append, the moment list
   (NEW / NEW_THEN_INLINE insert a blank moment at k first) *)
Definition determine (st : ist) (it : item) : nat * option pcache * list moment :=
  match i_cache st with
  | Some pc => let '(idx, pc') := cache_append pc it in (idx, Some pc', i_ms st)
  | None =>
      match it with
      | IMom _ => (i_k st, None, i_ms st)
      | IOp o =>
          match i_s st with
          | NEW | NEW_THEN_INLINE => (i_k st, None, insert_at (i_k st) [] (i_ms st))
          | INLINE => (Nat.pred (i_k st), None, i_ms st)
          | EARLIEST => (earliest_available_moment (i_ms st) o (i_k st), None, i_ms st)
          | LATEST => (i_k st, None, i_ms st)      (* not reached: LATEST returns before this loop *)
          end
      end
  end.

(* "Place": a Moment is inserted intact at p; an operation opens a new last moment when p = len,
   otherwise joins moment p through Moment.with_operation (which checks the qubits) *)
Definition place (ms1 : list moment) (p : nat) (it : item) : list moment + err :=
  match it with
  | IMom m => inl (insert_at p m ms1)
  | IOp o =>
      if Nat.eqb p (length ms1) then inl (ms1 ++ [[o]])
      else match nth_error ms1 p with
           | None => inr IndexError
           | Some m => match with_operation m o with
                       | None => inr ValueError
                       | Some m' => inl (replace_nth p m' ms1)
                       end
           end
  end.

(* one moment-or-operation: determine, place, iterate (max_p, NEW_THEN_INLINE switch) *)
Definition place_item (st : ist) (it : item) : ist * option err :=
  let '(p, cache1, ms1) := determine st it in
  match place ms1 p it with
  | inr e => (mki ms1 cache1 (i_k st) (i_s st) (i_maxp st), Some e)
  | inl ms2 =>
      let maxp := Nat.max p (i_maxp st) in
      match i_s st with
      | NEW_THEN_INLINE => (mki ms2 cache1 (S (i_k st)) INLINE maxp, None)
      | s => (mki ms2 cache1 (i_k st) s maxp, None)
      end
  end.

Fixpoint place_items (st : ist) (its : list item) : ist * option err :=
  match its with
  | [] => (st, None)
  | it :: r => match place_item st it with
               | (st', None) => place_items st' r
               | bad => bad
               end
  end.

(* the blank-moment test at the head of each batch *)
Definition needs_blank (st : ist) (batch : list item) : bool :=
  match i_cache st, batch with
  | Some _, _ => false
  | None, [] => false
  | None, IMom _ :: _ => false
  | None, _ =>
      match i_s st with
      | INLINE | EARLIEST =>
          negb (forallb (fun it => match it with
                                   | IOp o => (strategy_eqb (i_s st) EARLIEST && can_add_op_at (i_ms st) (i_k st) o)
                                              || (Nat.ltb 0 (i_k st) && can_add_op_at (i_ms st) (Nat.pred (i_k st)) o)
                                   | IMom _ => true
                                   end) batch)
      | _ => false
      end
  end.

Definition do_batch (st : ist) (batch : list item) : ist * option err :=
  let st1 :=
    if needs_blank st batch then
      mki (insert_at (i_k st) [] (i_ms st)) (i_cache st)
          (match i_s st with INLINE => S (i_k st) | _ => i_k st end) (i_s st) (i_maxp st)
    else st in
  let st2 := mki (i_ms st1) (i_cache st1) (i_k st1) (i_s st1) O in            (* max_p = 0 *)
  match place_items st2 batch with
  | (st3, None) => (mki (i_ms st3) (i_cache st3) (Nat.max (i_k st3) (S (i_maxp st3))) (i_s st3) (i_maxp st3), None)
  | bad => bad
  end.

Fixpoint do_batches (st : ist) (bs : list (list item)) : ist * option err :=
  match bs with
  | [] => (st, None)
  | b :: r => match do_batch st b with
              | (st', None) => do_batches st' r
              | bad => bad
              end
  end.

(* ---- _insert_latest ---- *)
Record lst := mkl { l_ms : list moment; l_max : Z }.
Definition latest_item (k : nat) (st : lst) (it : item) : lst * option err :=
  let kz := Z.of_nat k in
  match it with
  | IMom m => (mkl (insert_at k m (l_ms st)) (Z.max kz (l_max st + 1)), None)
  | IOp o =>
      let endi := Z.of_nat (length (l_ms st)) in
      let p := latest_available_moment (l_ms st) o k in
      if p <? kz then (mkl (insert_at k [o] (l_ms st)) (Z.max kz (l_max st + 1)), None)
      else if p <? endi then
        match nth_error (l_ms st) (Z.to_nat p) with
        | None => (st, Some IndexError)
        | Some m => match with_operation m o with
                    | None => (st, Some ValueError)
                    | Some m' => (mkl (replace_nth (Z.to_nat p) m' (l_ms st)) (Z.max p (l_max st)), None)
                    end
        end
      else (mkl (l_ms st ++ [[o]]) endi, None)
  end.
Fixpoint latest_items (k : nat) (st : lst) (its : list item) : lst * option err :=
  match its with
  | [] => (st, None)
  | it :: r => match latest_item k st it with
               | (st', None) => latest_items k st' r
               | bad => bad
               end
  end.
(* batches are processed in reverse order, the items of one batch in order *)
Fixpoint latest_batches (k : nat) (st : lst) (bs : list (list item)) : lst * option err :=
  match bs with
  | [] => (st, None)
  | b :: r => match latest_items k st b with
              | (st', None) => latest_batches k st' r
              | bad => bad
              end
  end.
Definition insert_latest (k : nat) (ms : list moment) (batches : list (list item)) : lst * option err :=
  latest_batches k (mkl ms (-1)) (rev batches).

(* ---- Circuit.insert(index, tree, strategy): new state and returned index, or the exception
        together with the state the exception leaves behind ---- *)
Definition insert (c : cstate) (index : Z) (its : list item) (s : strategy) : cstate * (Z + err) :=
  let k := clamp_index index (length (moms c)) in
  let cache0 := if negb (strategy_eqb s EARLIEST) || negb (Nat.eqb k (length (moms c))) then None else cache c in
  let batches :=
    match cache0 with
    | Some _ => [its]                       (* `batches = [mops]`, also when mops is empty *)
    | None => match s with
              | NEW => map (fun it => [it]) its
              | _ => group_into_moment_compatible its
              end
    end in
  match s with
  | LATEST =>
      match insert_latest k (moms c) batches with
      | (st, None) =>
          let pos := if l_max st =? -1 then Z.of_nat k else l_max st + 1 in
          let c1 := mkc (l_ms st) cache0 (sm c) in
          (if l_max st =? -1 then c1 else mutated false c1, inl pos)
      | (st, Some e) => (mkc (l_ms st) cache0 (sm c), inr e)
      end
  | _ =>
      match do_batches (mki (moms c) cache0 k s O) batches with
      | (st, None) => (mutated true (mkc (i_ms st) (i_cache st) (sm c)), inl (Z.of_nat (i_k st)))
      | (st, Some e) => (mkc (i_ms st) (i_cache st) (sm c), inr e)
      end
  end.

(* Circuit.append(tree, strategy) *)
Definition append (c : cstate) (its : list item) (s : strategy) : cstate * (Z + err) :=
  insert c (Z.of_nat (length (moms c))) its s.

(* Circuit(contents, strategy=s) with one positional argument (a list):
   all items Moments (or none at all) -> moments taken as they are, no cache;
   EARLIEST -> _load_contents_with_earliest_strategy, which places every item through the fresh
   placement cache exactly like the cached branch of insert; otherwise append with the strategy. *)
Definition is_earliest (s : strategy) : bool := strategy_eqb s EARLIEST.
Definition all_moments (its : list item) : option (list moment) :=
  fold_right (fun it acc => match it, acc with IMom m, Some l => Some (m :: l) | _, _ => None end) (Some []) its.
Definition construct (its : list item) (s : strategy) : cstate * (Z + err) :=
  match all_moments its with
  | Some ms => (from_moments ms, inl 0)
  | None =>
      if is_earliest s then
        match place_items (mki [] (Some empty_cache) O EARLIEST O) its with
        | (st, None) => (mkc (i_ms st) (i_cache st) no_sums, inl 0)
        | (st, Some e) => (mkc (i_ms st) (i_cache st) no_sums, inr e)
        end
      else append empty_circuit its s
  end.

(* "the placement cache, whenever present, equals the summary recomputed from the moments" *)
Definition cache_ok (c : cstate) : Prop := forall p, cache c = Some p -> cache_matches p (moms c).

(* Cirq's conflict rule between two operations: a shared qubit, a shared measurement key, or a
   measurement key of one that is a control key of the other (control keys alone commute) *)
Definition conflicts (x o : opd) : bool :=
  negb (disjointb (qs o) (qs x))
  || negb (disjointb (mk o) (mk x))
  || negb (disjointb (ck o) (mk x))
  || negb (disjointb (ck x) (mk o)).
