(* C05, several circuit objects: what an object holds is determined by the calls made on it. *)
From Coq Require Import ZArith List Bool Arith Lia.
From VF Require Import Base.Harness Circ.Moments Circ.Placement Circ.Insert Circ.BatchEdit Circ.History Circ.Compare
  Circ.HistoryProofs Circ.Store.
Import ListNotations.

Local Arguments step : simpl never.

Lemma main_calls_cons sc h : main_calls (sc :: h) = main_calls [sc] ++ main_calls h.
Proof. unfold main_calls. cbn [flat_map]. rewrite app_nil_r. reflexivity. Qed.

Lemma main_calls_app h1 h2 : main_calls (h1 ++ h2) = main_calls h1 ++ main_calls h2.
Proof. unfold main_calls. apply flat_map_app. Qed.

(* one call: the circuit under edit moves by its own calls only *)
Lemma sstep_main st sc : main (fst (sstep st sc)) = run (main st) (main_calls [sc]).
Proof.
  destruct sc as [x|x|]; unfold sstep, main_calls; cbn [flat_map app run].
  - destruct (step (main st) x) as [c' r]. reflexivity.
  - destruct (constructs x); [|reflexivity].
    destruct (step (main st) x) as [c' r]. destruct (is_rerr r); reflexivity.
  - reflexivity.
Qed.

(* one call: the objects put aside stay, at most one is added, and it is the source or the result of the expression *)
Lemma sstep_aside st sc :
  aside (fst (sstep st sc)) = aside st \/
  aside (fst (sstep st sc)) = aside st ++ [main st] \/
  exists x, aside (fst (sstep st sc)) = aside st ++ [fst (step (main st) x)].
Proof.
  destruct sc as [x|x|]; unfold sstep.
  - destruct (step (main st) x) as [c' r]. cbn [fst aside].
    destruct (constructs x && negb (is_rerr r)); [right; left|left]; reflexivity.
  - destruct (constructs x); [|left; reflexivity].
    destruct (step (main st) x) as [c' r] eqn:E. destruct (is_rerr r); [left; reflexivity|].
    right; right. exists x. rewrite E. reflexivity.
  - left; reflexivity.
Qed.

Lemma sstep_aside_app st sc : exists l, aside (fst (sstep st sc)) = aside st ++ l.
Proof.
  destruct (sstep_aside st sc) as [H|[H|[x H]]]; rewrite H.
  - exists []. symmetry. apply app_nil_r.
  - eexists. reflexivity.
  - eexists. reflexivity.
Qed.

(* the circuit under edit after any history over several objects is the circuit its own calls build: deriving other
   objects from it (SSide) and whatever was put aside have no influence *)
Theorem main_own_history : forall h st, main (srun st h) = run (main st) (main_calls h).
Proof.
  induction h as [|sc h IH]; intros st; [reflexivity|].
  cbn [srun]. rewrite IH, sstep_main, (main_calls_cons sc h), run_app. reflexivity.
Qed.

(* an object that was put aside is never changed by later calls on the variable *)
Theorem aside_kept : forall h st, exists l, aside (srun st h) = aside st ++ l.
Proof.
  induction h as [|sc h IH]; intros st; cbn [srun].
  - exists []. symmetry. apply app_nil_r.
  - destruct (sstep_aside_app st sc) as [l1 H1]. destruct (IH (fst (sstep st sc))) as [l2 H2].
    exists (l1 ++ l2). rewrite H2, H1, app_assoc. reflexivity.
Qed.

Corollary aside_object_kept : forall h st i o,
  nth_error (aside st) i = Some o -> nth_error (aside (srun st h)) i = Some o.
Proof.
  intros h st i o H. destruct (aside_kept h st) as [l Hl]. rewrite Hl.
  rewrite nth_error_app1; [exact H|]. apply nth_error_Some. rewrite H. discriminate.
Qed.

(* every object put aside is what the variable's own calls up to some point built, or the result of one construction
   expression on that circuit: its content does not depend on anything that happened afterwards or to other objects *)
Theorem aside_determined : forall h st o, In o (aside (srun st h)) ->
  In o (aside st) \/
  exists h1 h2, h = h1 ++ h2 /\
    (o = run (main st) (main_calls h1) \/ exists x, o = fst (step (run (main st) (main_calls h1)) x)).
Proof.
  induction h as [|sc h IH]; intros st o Hin; cbn [srun] in Hin; [left; exact Hin|].
  destruct (IH _ _ Hin) as [H|(h1 & h2 & Hh & H)].
  - destruct (sstep_aside st sc) as [E|[E|[x E]]]; rewrite E in H.
    + left; exact H.
    + apply in_app_or in H. destruct H as [H|[H|[]]]; [left; exact H|].
      right. exists [], (sc :: h). split; [reflexivity|]. left. symmetry. exact H.
    + apply in_app_or in H. destruct H as [H|[H|[]]]; [left; exact H|].
      right. exists [], (sc :: h). split; [reflexivity|]. right. exists x. symmetry. exact H.
  - right. exists (sc :: h1), h2. split; [rewrite Hh; reflexivity|].
    rewrite sstep_main in H. rewrite (main_calls_cons sc h1), run_app. exact H.
Qed.

(* not vacuous: c = Circuit(); c.append(X(0)); d = c.copy(); c.append(Y(0)); c = c[1:]; c.append(X(0)) *)
Example store_example :
  let x := mkop 1 [0%Z] [] [] [] true in
  let y := mkop 2 [0%Z] [] [] [] true in
  let st := srun sinit [SMain (CAppend [IOp x] EARLIEST); SSide CCopy; SMain (CAppend [IOp y] EARLIEST);
                        SMain (CSlice (Some 1%Z) None); SMain (CAppend [IOp x] EARLIEST)] in
  map (fun c => uid_moms (moms c)) (aside st) = [[[1%Z]]; [[1%Z]; [2%Z]]] /\ uid_moms (moms (main st)) = [[2%Z]; [1%Z]].
Proof. vm_compute. split; reflexivity. Qed.
