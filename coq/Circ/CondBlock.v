(* C12 — conditional blocks: cirq.If(conditions, sub_operation) (cirq/ops/if_op.py).  Model only (no proofs).
   A cirq.If is, like a ClassicallyControlledOperation, a pair (conditions, the operation they control) = Circ/CtlSub.v
   ctlop: its three key transformations transform the conditions AND the controlled operation and rebuild the If, it
   decomposes into sub_operation.with_classical_controls(conditions), and its control keys are the keys of its conditions
   plus the control keys of the controlled operation.  What is particular to cirq.If:
     If(cs1, If(cs2, o)) and If(cs1, ClassicallyControlledOperation(o, cs2)) are folded by the constructor into
                         If(cs1 ++ cs2, o)                                                          (ctl_fold)
     If(cs, op1, op2, ...) wraps the operations into a CircuitOperation: a conditional BLOCK, whose body may hold
                         classical controls on keys that are not among cs.
   op_reads / flat_reads: the keys the operations of a flat form read (what an unrolled block reads). *)
From Coq Require Import ZArith List Bool String.
From VF Require Import Circ.Keys Circ.SubCircuit Circ.CtlSub.
Import ListNotations.
Open Scope Z_scope.

(* the constructor over an operation that is itself conditioned: one layer, the outer conditions first *)
Definition ctl_fold (cs : list cond) (x : ctlop) : ctlop := (cs ++ fst x, snd x).

(* keys read by the operations of a flat form *)
Definition op_reads (o : op) : list mkey := match o with OLeaf l => conds_keys (lcs l) | OSub _ _ => [] end.
Definition flat_reads (c : circ) : list mkey := List.concat (map op_reads (List.concat c)).

(* NOT the specification: control keys taken from the conditions of the block alone ("the constructor has folded every
   inner condition into the If") - true for a single conditioned gate, false for a block.  Kept to state what is lost. *)
Definition ctl_ckeys_conds_only (x : ctlop) : list mkey := conds_keys (fst x).
