(* C05 proofs, part 4: the other mutators and the algebra keep moments well formed. *)
From Coq Require Import ZArith List Bool Arith Lia.
From VF Require Import Circ.Moments Circ.Placement Circ.Insert Circ.BatchEdit
  Circ.MomentsProofs Circ.InsertProofs Circ.PlacementProofs Circ.CacheProofs.
Import ListNotations.
Open Scope Z_scope.

Lemma items_ops_wf its : Forall item_wf its -> Forall op_wf (items_ops its).
Proof.
  induction 1 as [|it r Hi _ IH]; simpl; [constructor|].
  apply Forall_app. split; [|exact IH]. destruct it as [o|m]; simpl in *.
  - constructor; [exact Hi|constructor].
  - apply Forall_forall. intros o Ho. eapply moment_wf_op; eassumption.
Qed.

Lemma moment_ops_wf m : moment_wf m -> Forall op_wf m.
Proof. intros H. apply Forall_forall. intros o Ho. eapply moment_wf_op; eassumption. Qed.

(* ---- setitem / slices ---- *)
Lemma setitem_wf c i m c' r : setitem c i m = (c', r) -> wf (moms c) -> moment_wf m -> wf (moms c').
Proof.
  unfold setitem. intros H Hw Hm. destruct (py_index i (length (moms c))); injection H as <- <-; simpl; [|exact Hw].
  apply Forall_replace_nth; assumption.
Qed.
Lemma setslice_wf c a b ms c' r : setslice c a b ms = (c', r) -> wf (moms c) -> wf ms -> wf (moms c').
Proof.
  unfold setslice. intros H Hw Hm. destruct (slice_range a b (length (moms c))) as [s e].
  injection H as <- <-. simpl. apply Forall_splice; assumption.
Qed.
Lemma delitem_wf c i c' r : delitem c i = (c', r) -> wf (moms c) -> wf (moms c').
Proof.
  unfold delitem. intros H Hw. destruct (py_index i (length (moms c))); injection H as <- <-; simpl; [|exact Hw].
  apply Forall_remove_nth; assumption.
Qed.

(* ---- batch_remove / batch_replace / batch_insert_into ---- *)
Lemma finish_batch_wf c r c' z : finish_batch c r = (c', z) -> wf (moms c) -> (forall ms, r = inl ms -> wf ms) -> wf (moms c').
Proof.
  unfold finish_batch. intros H Hw Hr. destruct r as [ms|e]; injection H as <- <-; simpl; [apply Hr; reflexivity|exact Hw].
Qed.

Lemma batch_remove_loop_wf rs : forall ms ms', batch_remove_loop ms rs = inl ms' -> wf ms -> wf ms'.
Proof.
  induction rs as [|[i o] r IH]; intros ms ms' H Hw; simpl in H.
  - injection H as <-. exact Hw.
  - destruct (py_index i (length ms)) as [j|]; [|discriminate].
    destruct (nth_error ms j) as [m|] eqn:En; [|discriminate].
    destruct (has_op m o); [|discriminate].
    eapply IH; [exact H|]. apply Forall_replace_nth; [|exact Hw].
    apply filter_moment_wf. eapply Forall_nth_error; eassumption.
Qed.

Lemma batch_replace_loop_wf rs : forall ms ms',
  batch_replace_loop ms rs = inl ms' -> wf ms -> Forall (fun r => op_wf (snd r)) rs -> wf ms'.
Proof.
  induction rs as [|[[i o] n] r IH]; intros ms ms' H Hw Hr; simpl in H.
  - injection H as <-. exact Hw.
  - inversion Hr as [|? ? Hn Hr']; subst. simpl in Hn.
    destruct (py_index i (length ms)) as [j|]; [|discriminate].
    destruct (nth_error ms j) as [m|] eqn:En; [|discriminate].
    destruct (has_op m o); [|discriminate].
    destruct (mk_moment _) as [m'|] eqn:Em; [|discriminate].
    eapply IH; [exact H| |exact Hr']. apply Forall_replace_nth; [|exact Hw].
    eapply mk_moment_wf; [exact Em|].
    assert (Hm : Forall op_wf m) by (apply moment_ops_wf; eapply Forall_nth_error; eassumption).
    clear -Hm Hn. induction Hm as [|x l Hx _ IHl]; simpl; constructor; [destruct (op_eqb x o); assumption|exact IHl].
Qed.

Lemma batch_insert_into_loop_wf rs : forall ms ms',
  batch_insert_into_loop ms rs = inl ms' -> wf ms -> Forall (fun r => Forall op_wf (snd r)) rs -> wf ms'.
Proof.
  induction rs as [|[i ops] r IH]; intros ms ms' H Hw Hr; simpl in H.
  - injection H as <-. exact Hw.
  - inversion Hr as [|? ? Hn Hr']; subst. simpl in Hn.
    destruct (py_index i (length ms)) as [j|]; [|discriminate].
    destruct (nth_error ms j) as [m|] eqn:En; [|discriminate].
    destruct (with_operations m ops) as [m'|] eqn:Em; [|discriminate].
    eapply IH; [exact H| |exact Hr']. apply Forall_replace_nth; [|exact Hw].
    eapply with_operations_wf; [exact Em| |exact Hn]. eapply Forall_nth_error; eassumption.
Qed.

(* ---- batch_insert ---- *)
Lemma sorted_insert_Forall (P : Z * list item -> Prop) x l : P x -> Forall P l -> Forall P (sorted_insert x l).
Proof.
  intros Hx Hl. induction Hl as [|y r Hy Hr IH]; simpl; [constructor; [exact Hx|constructor]|].
  destruct (fst x <? fst y); constructor; try assumption. constructor; assumption.
Qed.
Lemma stable_sort_Forall (P : Z * list item -> Prop) l : Forall P l -> Forall P (stable_sort l).
Proof.
  unfold stable_sort. intros H. assert (G : forall acc, Forall P acc -> Forall P (fold_left (fun acc x => sorted_insert x acc) l acc)).
  { induction H as [|x r Hx _ IH]; intros acc Ha; simpl; [exact Ha|]. apply IH. apply sorted_insert_Forall; assumption. }
  apply G. constructor.
Qed.
Lemma group_same_Forall (P : list item -> Prop) l :
  Forall (fun r => P (snd r)) l -> Forall (fun g => Forall P (snd g)) (group_same l).
Proof.
  induction 1 as [|[i t] r Hx _ IH]; simpl; [constructor|]. simpl in Hx.
  destruct (group_same r) as [|[j g] rest]; [constructor; [constructor; [exact Hx|constructor]|constructor]|].
  inversion IH as [|? ? Hg Hrest]; subst. simpl in Hg.
  destruct (Z.eqb i j).
  - constructor; [simpl; constructor; assumption|exact Hrest].
  - constructor; [simpl; constructor; [exact Hx|constructor]|]. constructor; [exact Hg|exact Hrest].
Qed.
Lemma concat_rev_Forall {A} (P : A -> Prop) (g : list (list A)) : Forall (Forall P) g -> Forall P (concat (rev g)).
Proof. intros H. apply Forall_concat. apply Forall_rev. exact H. Qed.

Lemma batch_insert_loop_wf gs : forall c shift c',
  batch_insert_loop c shift gs = inl c' -> wf (moms c) -> Forall (fun g => Forall (Forall item_wf) (snd g)) gs -> wf (moms c').
Proof.
  induction gs as [|[i group] r IH]; intros c shift c' H Hw Hg; cbn [batch_insert_loop] in H.
  - injection H as <-. exact Hw.
  - inversion Hg as [|? ? Hx Hg']; subst. simpl in Hx.
    match type of H with context [insert ?a ?b ?d ?s0] => destruct (insert a b d s0) as [c1 [z|er]] eqn:E end; [|discriminate].
    eapply IH; [exact H| |exact Hg']. eapply insert_wf; [exact E|exact Hw|]. apply concat_rev_Forall. exact Hx.
Qed.

Lemma batch_insert_wf c ins c' r :
  batch_insert c ins = (c', r) -> wf (moms c) -> Forall (fun r => Forall item_wf (snd r)) ins -> wf (moms c').
Proof.
  unfold batch_insert. intros H Hw Hi.
  destruct (batch_insert_loop _ _ _) as [c1|e] eqn:E; injection H as <- <-; simpl; [|exact Hw].
  eapply batch_insert_loop_wf; [exact E|exact Hw|].
  apply group_same_Forall. apply stable_sort_Forall. exact Hi.
Qed.

(* ---- insert_into_range ---- *)
Lemma range_loop_wf ops : forall ms i e ms' rest er,
  range_loop ms i e ops = (ms', rest, er) -> wf ms -> Forall op_wf ops -> wf ms' /\ Forall op_wf rest.
Proof.
  induction ops as [|o r IH]; intros ms i e ms' rest er H Hw Ho; simpl in H.
  - injection H as <- <- <-. split; [exact Hw|constructor].
  - inversion Ho as [|? ? Ho1 Ho2]; subst.
    destruct (Nat.leb e (advance ms o i (e - i))); [injection H as <- <- <-; split; assumption|].
    destruct (nth_error ms _) as [m|] eqn:En; [|injection H as <- <- <-; split; assumption].
    destruct (with_operation m o) as [m'|] eqn:Ew; [|injection H as <- <- <-; split; assumption].
    eapply IH; [exact H| |exact Ho2]. apply Forall_replace_nth; [|exact Hw].
    eapply with_operation_wf; [exact Ew| |exact Ho1]. eapply Forall_nth_error; eassumption.
Qed.

Lemma insert_into_range_wf c its s e c' r :
  insert_into_range c its s e = (c', r) -> wf (moms c) -> Forall item_wf its -> wf (moms c').
Proof.
  unfold insert_into_range. intros H Hw Hi. destruct (_ && _); [|injection H as <- <-; exact Hw].
  destruct (range_loop _ _ _ _) as [[ms rest] er] eqn:E.
  destruct (range_loop_wf _ _ _ _ _ _ _ E Hw (items_ops_wf _ Hi)) as [Hw' Hr].
  destruct er; [injection H as <- <-; exact Hw'|].
  destruct rest as [|o rest]; [injection H as <- <-; exact Hw'|].
  eapply insert_wf; [exact H|exact Hw'|].
  clear -Hr. induction Hr; simpl; constructor; assumption.
Qed.

(* ---- insert_at_frontier ---- *)
Lemma repeat_nil_wf n : wf (repeat [] n).
Proof. induction n; simpl; constructor; [apply nil_moment_wf|assumption]. Qed.

Lemma group_by_index_Forall (P : opd -> Prop) ops : forall idxs acc,
  Forall P ops -> Forall (fun kv => Forall P (snd kv)) acc -> Forall (fun kv => Forall P (snd kv)) (group_by_index ops idxs acc).
Proof.
  induction ops as [|o r IH]; intros idxs acc Ho Ha; simpl; [exact Ha|].
  destruct idxs as [|i ri]; [exact Ha|]. inversion Ho as [|? ? Ho1 Ho2]; subst.
  apply IH; [exact Ho2|]. destruct (existsb _ acc).
  - clear -Ha Ho1. induction Ha as [|kv l Hkv _ IHl]; simpl; constructor; [|exact IHl].
    destruct (Z.eqb i (fst kv)); simpl; [apply Forall_app; split; [exact Hkv|constructor; [exact Ho1|constructor]]|exact Hkv].
  - apply Forall_app. split; [exact Ha|]. constructor; [simpl; constructor; [exact Ho1|constructor]|constructor].
Qed.

Lemma insert_groups_wf gs : forall ms ms' er,
  insert_groups ms gs = (ms', er) -> wf ms -> Forall (fun kv => Forall op_wf (snd kv)) gs -> wf ms'.
Proof.
  induction gs as [|[i ops] r IH]; intros ms ms' er H Hw Hg; simpl in H.
  - injection H as <- <-. exact Hw.
  - inversion Hg as [|? ? Hx Hg']; subst. simpl in Hx.
    destruct (nth_error ms _) as [m|] eqn:En; [|injection H as <- <-; exact Hw].
    destruct (with_operations m ops) as [m'|] eqn:Em; [|injection H as <- <-; exact Hw].
    eapply IH; [exact H| |exact Hg']. apply Forall_replace_nth; [|exact Hw].
    eapply with_operations_wf; [exact Em| |exact Hx]. eapply Forall_nth_error; eassumption.
Qed.

Lemma push_frontier_wf ms f1 late uq ms1 f2 : push_frontier ms f1 late uq = (ms1, f2) -> wf ms -> wf ms1.
Proof.
  unfold push_frontier. intros H Hw. destruct (0 <? _); injection H as <- <-; [|exact Hw].
  apply Forall_splice; [apply repeat_nil_wf|exact Hw].
Qed.

Lemma insert_at_frontier_wf c its start f c' r :
  insert_at_frontier c its start f = (c', r) -> wf (moms c) -> Forall item_wf its -> wf (moms c').
Proof.
  unfold insert_at_frontier. intros H Hw Hi. pose proof (items_ops_wf _ Hi) as Ho.
  destruct (items_ops its) as [|o0 ops0] eqn:Eo; [injection H as <- <-; exact Hw|].
  destruct (existsb _ _); [injection H as <- <-; exact Hw|].
  destruct (pick_indices _ _ _) as [idxs f1].
  destruct (push_frontier _ _ _ _) as [ms1 f2] eqn:Ep.
  pose proof (push_frontier_wf _ _ _ _ _ _ Ep Hw) as Hms1.
  destruct (insert_groups _ _) as [ms3 er] eqn:E.
  assert (Hw3 : wf ms3).
  { eapply insert_groups_wf; [exact E| |].
    - apply Forall_app. split; [exact Hms1|apply repeat_nil_wf].
    - apply group_by_index_Forall; [exact Ho|constructor]. }
  destruct er; injection H as <- <-; exact Hw3.
Qed.

(* ---- clear_operations_touching ---- *)
Lemma clear_touching_wf c qubits idxs c' r : clear_touching c qubits idxs = (c', r) -> wf (moms c) -> wf (moms c').
Proof.
  unfold clear_touching. intros H Hw. injection H as <- <-. simpl.
  revert Hw. generalize (moms c). induction idxs as [|k r IH]; intros ms Hw; simpl; [exact Hw|].
  apply IH. unfold clear_step. destruct (_ && _); [|exact Hw]. destruct (nth_error ms _) as [m|] eqn:En; [|exact Hw].
  apply Forall_replace_nth; [|exact Hw]. apply filter_moment_wf. eapply Forall_nth_error; eassumption.
Qed.

(* ---- algebra ---- *)
Lemma repeat_list_wf n ms : wf ms -> wf (repeat_list n ms).
Proof. intros H. induction n; simpl; [constructor|apply Forall_app; split; assumption]. Qed.

Lemma add_wf c its c' r : add c its = (c', r) -> wf (moms c) -> Forall item_wf its -> wf (moms c').
Proof. unfold add. intros H Hw Hi. eapply append_wf; [exact H|exact Hw|exact Hi]. Qed.

Lemma radd_wf c its c' r : radd c its = (c', r) -> wf (moms c) -> Forall item_wf its -> wf (moms c').
Proof.
  unfold radd. intros H Hw Hi. destruct (construct its EARLIEST) as [c1 [z|e]] eqn:E; injection H as <- <-; simpl; [|exact Hw].
  apply Forall_app. split; [eapply construct_wf; eassumption|exact Hw].
Qed.

Lemma inv_moment_wf m : moment_wf m -> moment_wf (map inv_op m).
Proof.
  unfold moment_wf, mqubits. intros H.
  assert (E : forall l, flat_map qs (map inv_op l) = flat_map qs l) by (induction l as [|o r IH]; simpl; [reflexivity|rewrite IH; reflexivity]).
  rewrite E. exact H.
Qed.

Lemma inverse_wf c c' r : inverse c = (c', r) -> wf (moms c) -> wf (moms c').
Proof.
  unfold inverse. intros H Hw. destruct (forallb _ _); injection H as <- <-; simpl; [|exact Hw].
  apply Forall_rev. clear -Hw. induction Hw; simpl; constructor; [apply inv_moment_wf; assumption|assumption].
Qed.

Lemma map_moments_wf f ms : forall ms', map_moments f ms = Some ms' -> wf ms'.
Proof.
  induction ms as [|m r IH]; intros ms' H; simpl in H; [injection H as <-; constructor|].
  destruct (forallb _ _) eqn:Ef; [|discriminate].
  destruct (mk_moment _) as [m'|] eqn:Em; [|discriminate].
  destruct (map_moments f r) as [r'|]; [|discriminate]. injection H as <-.
  constructor; [|apply IH; reflexivity]. eapply mk_moment_wf; [exact Em|].
  apply Forall_forall. intros o Ho. rewrite forallb_forall in Ef. apply nodupb_spec. apply Ef. exact Ho.
Qed.

Lemma transform_wf c f c' r : transform_qubits c f = (c', r) -> wf (moms c) -> wf (moms c').
Proof.
  unfold transform_qubits. intros H Hw. destruct (map_moments f (moms c)) as [ms|] eqn:E; injection H as <- <-; simpl; [|exact Hw].
  eapply map_moments_wf. exact E.
Qed.

(* ---- zip ---- *)
Lemma nth_wf k c : wf c -> moment_wf (nth k c []).
Proof.
  intros H. destruct (nth_in_or_default k c []) as [Hin|Heq]; [|rewrite Heq; apply nil_moment_wf].
  unfold wf in H. rewrite Forall_forall in H. apply H. exact Hin.
Qed.

Lemma zip_row_ops_wf cs n k a : Forall wf cs -> Forall op_wf (zip_row cs n k a).
Proof.
  unfold zip_row. induction 1 as [|c r Hc _ IH]; simpl; [constructor|].
  apply Forall_app. split; [|exact IH].
  destruct (is_left a); [apply moment_ops_wf; apply nth_wf; exact Hc|].
  destruct (0 <=? _); [apply moment_ops_wf; apply nth_wf; exact Hc|constructor].
Qed.

Lemma zip_loop_wf cs n a ks : forall acc c' r,
  zip_loop cs n a ks acc = (c', r) -> Forall wf cs -> wf (moms acc) -> wf (moms c').
Proof.
  induction ks as [|k r0 IH]; intros acc c' r H Hcs Hw; cbn [zip_loop] in H.
  - injection H as <- <-. exact Hw.
  - destruct (mk_moment _) as [m|] eqn:Em; [|injection H as <- <-; exact Hw].
    destruct (append acc [IMom m] EARLIEST) as [acc' [z|e]] eqn:Ea.
    + eapply IH; [exact H|exact Hcs|]. eapply append_wf; [exact Ea|exact Hw|].
      constructor; [|constructor]. simpl. eapply mk_moment_wf; [exact Em|apply zip_row_ops_wf; exact Hcs].
    + injection H as <- <-. eapply append_wf; [exact Ea|exact Hw|].
      constructor; [|constructor]. simpl. eapply mk_moment_wf; [exact Em|apply zip_row_ops_wf; exact Hcs].
Qed.

Lemma zip_wf c others a c' r : zip c others a = (c', r) -> wf (moms c) -> Forall wf others -> wf (moms c').
Proof.
  unfold zip. intros H Hw Ho.
  destruct (zip_loop _ _ _ _ _) as [c1 [z|e]] eqn:E; injection H as <- <-; [|exact Hw].
  eapply zip_loop_wf; [exact E|constructor; assumption|constructor].
Qed.

(* ---- concat_ragged ---- *)
Lemma merge_into_wf c2 : forall buf off buf', merge_into buf off c2 = Some buf' -> wf buf -> wf c2 -> wf buf'.
Proof.
  induction c2 as [|m r IH]; intros buf off buf' H Hw Hc; simpl in H.
  - injection H as <-. exact Hw.
  - inversion Hc as [|? ? Hm Hr]; subst.
    destruct (with_operations _ m) as [m'|] eqn:Em; [|discriminate].
    eapply IH; [exact H| |exact Hr]. apply Forall_replace_nth; [|exact Hw].
    eapply with_operations_wf; [exact Em|apply nth_wf; exact Hw|apply moment_ops_wf; exact Hm].
Qed.

Lemma ragged_loop_wf cs : forall buf off n a buf' off' n',
  ragged_loop buf off n cs a = Some (buf', off', n') -> wf buf -> Forall wf cs -> wf buf'.
Proof.
  induction cs as [|c2 r IH]; intros buf off n a buf' off' n' H Hw Hc; simpl in H.
  - injection H as <- <- <-. exact Hw.
  - inversion Hc as [|? ? Hc2 Hr]; subst.
    destruct (merge_into _ _ c2) as [buf1|] eqn:Em; [|discriminate].
    eapply IH; [exact H| |exact Hr]. eapply merge_into_wf; eassumption.
Qed.

Lemma concat_ragged_wf c others a c' r : concat_ragged c others a = (c', r) -> wf (moms c) -> Forall wf others -> wf (moms c').
Proof.
  unfold concat_ragged. intros H Hw Ho.
  destruct (ragged_loop _ _ _ _ _) as [[[buf' off] n]|] eqn:E; injection H as <- <-; simpl; [|exact Hw].
  apply Forall_firstn. apply Forall_skipn. eapply ragged_loop_wf; [exact E| |exact Ho].
  apply Forall_app. split; [apply repeat_nil_wf|]. apply Forall_app. split; [exact Hw|apply repeat_nil_wf].
Qed.

(* ==== insert_into_range never raises inside its loop ==== *)
Lemma advance_spec ms o n : forall i, (i + n <= length ms)%nat ->
  let i' := advance ms o i n in
  (i <= i' <= i + n)%nat /\
  ((i' < i + n)%nat -> exists m, nth_error ms i' = Some m /\ operates_on m (qs o) = false).
Proof.
  induction n as [|n IH]; intros i Hb; simpl.
  - split; [lia|]. intros H. lia.
  - destruct (nth_error ms i) as [m|] eqn:En.
    + destruct (operates_on m (qs o)) eqn:Eo.
      * destruct (IH (S i) ltac:(lia)) as [H1 H2]. split; [lia|]. intros H. apply H2. lia.
      * split; [lia|]. intros _. exists m. split; assumption.
    + apply nth_error_None in En. lia.
Qed.

Lemma range_loop_noerr ops : forall ms i e ms' rest er,
  (e <= length ms)%nat -> range_loop ms i e ops = (ms', rest, er) -> er = None.
Proof.
  induction ops as [|o r IH]; intros ms i e ms' rest er He H; simpl in H.
  - injection H as <- <- <-. reflexivity.
  - destruct (Nat.leb e (advance ms o i (e - i))) eqn:El; [injection H as <- <- <-; reflexivity|].
    apply Nat.leb_gt in El.
    assert (Hi : (i <= e)%nat).
    { destruct (Nat.le_gt_cases i e) as [Hle|Hgt]; [exact Hle|]. replace (e - i)%nat with 0%nat in El by lia. simpl in El. lia. }
    destruct (advance_spec ms o (e - i) i ltac:(lia)) as [H1 H2].
    destruct (H2 ltac:(lia)) as [m [Hn Ho]]. rewrite Hn in H.
    unfold with_operation in H. rewrite Ho in H.
    eapply IH; [|exact H]. rewrite replace_nth_length. exact He.
Qed.

(* ==== conservation of operations for the other mutators (counts of every uid) ==== *)
Lemma skipn_skipn_ {A} (x y : nat) (l : list A) : skipn x (skipn y l) = skipn (x + y) l.
Proof.
  revert l. induction y as [|y IH]; intros l; [rewrite Nat.add_0_r; reflexivity|].
  destruct l as [|a r]; [rewrite !skipn_nil; reflexivity|]. rewrite Nat.add_succ_r. simpl. apply IH.
Qed.

Lemma ccnt_splice u s e xs l : (s <= e)%nat ->
  (ccnt u (splice s e xs l) + ccnt u (firstn (e - s) (skipn s l)) = ccnt u xs + ccnt u l)%nat.
Proof.
  intros Hse. unfold splice. rewrite !ccnt_app.
  assert (Hl : ccnt u l = (ccnt u (firstn s l) + (ccnt u (firstn (e - s) (skipn s l)) + ccnt u (skipn e l)))%nat).
  { rewrite <- (firstn_skipn s l) at 1. rewrite ccnt_app. f_equal.
    rewrite <- (firstn_skipn (e - s) (skipn s l)) at 1. rewrite ccnt_app. f_equal.
    rewrite skipn_skipn_. replace (e - s + s)%nat with e by lia. reflexivity. }
  lia.
Qed.

Lemma slice_range_le a b n s e : slice_range a b n = (s, e) -> (s <= e)%nat.
Proof. unfold slice_range. intros H. injection H as <- <-. lia. Qed.

Theorem setitem_cnt u c i m c' z j old :
  setitem c i m = (c', inl z) -> py_index i (length (moms c)) = Some j -> nth_error (moms c) j = Some old ->
  (ccnt u (moms c') + cnt u old = cnt u m + ccnt u (moms c))%nat.
Proof.
  unfold setitem. intros H Hj Hn. rewrite Hj in H. injection H as <- _. simpl. apply ccnt_replace_nth. exact Hn.
Qed.

Theorem delitem_cnt u c i c' z j old :
  delitem c i = (c', inl z) -> py_index i (length (moms c)) = Some j -> nth_error (moms c) j = Some old ->
  (ccnt u (moms c') + cnt u old = ccnt u (moms c))%nat.
Proof.
  unfold delitem. intros H Hj Hn. rewrite Hj in H. injection H as <- _. simpl. apply ccnt_remove_nth. exact Hn.
Qed.

Theorem setslice_cnt u c a b ms c' z s e :
  setslice c a b ms = (c', inl z) -> slice_range a b (length (moms c)) = (s, e) ->
  (ccnt u (moms c') + ccnt u (firstn (e - s) (skipn s (moms c))) = ccnt u ms + ccnt u (moms c))%nat.
Proof.
  unfold setslice. intros H Hr. rewrite Hr in H. injection H as <- _. simpl. apply ccnt_splice.
  eapply slice_range_le. exact Hr.
Qed.

Lemma ccnt_repeat_list u n ms : ccnt u (repeat_list n ms) = (n * ccnt u ms)%nat.
Proof. induction n as [|n IH]; simpl; [reflexivity|]. rewrite ccnt_app, IH. reflexivity. Qed.

Theorem mul_cnt u c n : ccnt u (moms (mul c n)) = (Z.to_nat n * ccnt u (moms c))%nat.
Proof. unfold mul. simpl. apply ccnt_repeat_list. Qed.
Theorem imul_cnt u c n : ccnt u (moms (imul c n)) = (Z.to_nat n * ccnt u (moms c))%nat.
Proof. unfold imul. simpl. apply ccnt_repeat_list. Qed.

Lemma cnt_inv_op u m : cnt (- u) (map inv_op m) = cnt u m.
Proof.
  unfold cnt. induction m as [|o r IH]; simpl; [reflexivity|].
  destruct (Z.eqb_spec (- uid o) (- u)) as [E|E]; destruct (Z.eqb_spec (uid o) u) as [E'|E']; simpl; try lia; rewrite IH; reflexivity.
Qed.
Lemma ccnt_rev u ms : ccnt u (rev ms) = ccnt u ms.
Proof. induction ms as [|m r IH]; simpl; [reflexivity|]. rewrite ccnt_app, ccnt_cons, ccnt_cons, ccnt_nil, IH. lia. Qed.
Theorem inverse_cnt u c c' z : inverse c = (c', inl z) -> ccnt (- u) (moms c') = ccnt u (moms c).
Proof.
  unfold inverse. intros H. destruct (forallb _ _); [|discriminate]. injection H as <- _. simpl.
  rewrite ccnt_rev. induction (moms c) as [|m r IH]; simpl; [reflexivity|].
  rewrite !ccnt_cons, IH, cnt_inv_op. reflexivity.
Qed.

Theorem add_cnt u c its c' z : add c its = (c', inl z) -> ccnt u (moms c') = (ccnt u (moms c) + icnt u its)%nat.
Proof.
  unfold add, append. intros H. destruct (insert_cnt u _ _ _ _ _ _ H) as [_ [_ H3]]. apply H3. reflexivity.
Qed.
Theorem radd_cnt u c its c' z : radd c its = (c', inl z) -> ccnt u (moms c') = (icnt u its + ccnt u (moms c))%nat.
Proof.
  unfold radd. intros H. destruct (construct its EARLIEST) as [c1 [z1|e1]] eqn:E; [|discriminate]. injection H as <- _.
  simpl. rewrite ccnt_app. destruct (construct_cnt u _ _ _ _ E) as [_ [_ H3]]. specialize (H3 eq_refl).
  rewrite ccnt_nil in H3. simpl in H3. lia.
Qed.

Lemma range_loop_cnt u ops : forall ms i e ms' rest,
  range_loop ms i e ops = (ms', rest, None) -> (ccnt u ms' + cnt u rest = ccnt u ms + cnt u ops)%nat.
Proof.
  induction ops as [|o r IH]; intros ms i e ms' rest H; simpl in H.
  - injection H as <- <-. lia.
  - destruct (Nat.leb e _); [injection H as <- <-; lia|].
    destruct (nth_error ms _) as [m|] eqn:En; [|discriminate].
    destruct (with_operation m o) as [m'|] eqn:Ew; [|discriminate].
    apply IH in H. apply with_operation_eq in Ew. subst m'.
    pose proof (ccnt_replace_nth u _ (m ++ [o]) m ms En) as Hc. rewrite cnt_app in Hc.
    rewrite cnt_cons. rewrite cnt_cons, cnt_nil in Hc. lia.
Qed.

Lemma icnt_map_IOp u ops : icnt u (map IOp ops) = cnt u ops.
Proof. unfold icnt, items_ops. induction ops as [|o r IH]; simpl; [reflexivity|]. rewrite !cnt_cons. unfold cnt in *. simpl in IH. rewrite IH. reflexivity. Qed.

Theorem insert_into_range_cnt u c its s e c' z :
  insert_into_range c its s e = (c', inl z) -> ccnt u (moms c') = (ccnt u (moms c) + icnt u its)%nat.
Proof.
  unfold insert_into_range. intros H. destruct (_ && _); [|discriminate].
  destruct (range_loop _ _ _ _) as [[ms rest] [er|]] eqn:E; [discriminate|].
  apply (range_loop_cnt u) in E. fold (icnt u its) in E.
  destruct rest as [|o rest]; [injection H as <- _; simpl; rewrite cnt_nil in E; lia|].
  destruct (insert_cnt u _ _ _ _ _ _ H) as [_ [_ H3]]. specialize (H3 eq_refl).
  rewrite icnt_map_IOp in H3. cbn [moms mutated] in H3. lia.
Qed.

Lemma batch_insert_into_loop_cnt u rs : forall ms ms',
  batch_insert_into_loop ms rs = inl ms' -> ccnt u ms' = (ccnt u ms + cnt u (flat_map snd rs))%nat.
Proof.
  induction rs as [|[i ops] r IH]; intros ms ms' H; simpl in H.
  - injection H as <-. simpl. rewrite cnt_nil. lia.
  - destruct (py_index i (length ms)) as [j|]; [|discriminate].
    destruct (nth_error ms j) as [m|] eqn:En; [|discriminate].
    destruct (with_operations m ops) as [m'|] eqn:Em; [|discriminate].
    apply IH in H. apply with_operations_eq in Em. subst m'.
    pose proof (ccnt_replace_nth u j (m ++ ops) m ms En) as Hc. rewrite cnt_app in Hc.
    simpl. rewrite cnt_app. lia.
Qed.

Lemma cnt_filter_le u f m : (cnt u (filter f m) <= cnt u m)%nat.
Proof. unfold cnt. induction m as [|o r IH]; simpl; [lia|]. destruct (f o); simpl; destruct (Z.eqb (uid o) u); simpl; lia. Qed.

Lemma cnt_filter_other u o m : uid o <> u -> cnt u (filter (fun old => negb (op_eqb o old)) m) = cnt u m.
Proof.
  intros Hne. unfold cnt, op_eqb. induction m as [|x r IH]; simpl; [reflexivity|].
  destruct (Z.eqb_spec (uid o) (uid x)) as [E|E]; simpl.
  - destruct (Z.eqb_spec (uid x) u) as [E'|E']; [congruence|exact IH].
  - destruct (Z.eqb (uid x) u); simpl; rewrite IH; reflexivity.
Qed.

(* batch_remove: nothing is invented, and only operations equal to a listed one disappear *)
Lemma batch_remove_loop_cnt u rs : forall ms ms',
  batch_remove_loop ms rs = inl ms' ->
  (ccnt u ms' <= ccnt u ms)%nat /\ (Forall (fun r => uid (snd r) <> u) rs -> ccnt u ms' = ccnt u ms).
Proof.
  induction rs as [|[i o] r IH]; intros ms ms' H; cbn [batch_remove_loop] in H.
  - injection H as <-. split; [lia|reflexivity].
  - destruct (py_index i (length ms)) as [j|]; [|discriminate].
    destruct (nth_error ms j) as [m|] eqn:En; [|discriminate].
    destruct (has_op m o); [|discriminate].
    destruct (IH _ _ H) as [H1 H2].
    pose proof (ccnt_replace_nth u j (filter (fun old => negb (op_eqb o old)) m) m ms En) as Hc.
    pose proof (cnt_filter_le u (fun old => negb (op_eqb o old)) m) as Hf.
    match type of H1 with (_ <= ?R)%nat => change (R + cnt u m = cnt u (filter (fun old => negb (op_eqb o old)) m) + ccnt u ms)%nat in Hc;
                                            remember R as R0 eqn:HR0 end. clear HR0 H.
    split; [lia|]. intros Hall. inversion Hall as [|? ? Hx Hr]; subst. simpl in Hx.
    rewrite (H2 Hr). rewrite (cnt_filter_other u o m Hx) in Hc. lia.
Qed.

Lemma clear_fold_cnt u qubits idxs : forall ms, (ccnt u (fold_left (clear_step qubits) idxs ms) <= ccnt u ms)%nat.
Proof.
  induction idxs as [|k r IH]; intros ms; simpl; [lia|].
  eapply Nat.le_trans; [apply IH|]. unfold clear_step. destruct (_ && _); [|lia].
  destruct (nth_error ms _) as [m|] eqn:En; [|lia].
  pose proof (ccnt_replace_nth u _ (without_touching m qubits) m ms En) as Hc.
  pose proof (cnt_filter_le u (fun o => disjointb qubits (qs o)) m) as Hf. unfold without_touching in Hc.
  match goal with |- (?R <= _)%nat => change (R + cnt u m = cnt u (filter (fun o => disjointb qubits (qs o)) m) + ccnt u ms)%nat in Hc;
                                      remember R as R0 eqn:HR0 end. lia.
Qed.

Theorem clear_touching_cnt u c qubits idxs c' r : clear_touching c qubits idxs = (c', r) -> (ccnt u (moms c') <= ccnt u (moms c))%nat.
Proof. unfold clear_touching. intros H. injection H as <- _. simpl. apply clear_fold_cnt. Qed.

Lemma batch_insert_loop_cnt u gs : forall c shift c',
  batch_insert_loop c shift gs = inl c' ->
  ccnt u (moms c') = (ccnt u (moms c) + icnt u (concat (flat_map snd gs)))%nat.
Proof.
  induction gs as [|[i group] r IH]; intros c shift c' H; cbn [batch_insert_loop] in H.
  - injection H as <-. simpl. rewrite icnt_nil. lia.
  - match type of H with context [insert ?a ?b ?d ?s0] => destruct (insert a b d s0) as [c1 [z|er]] eqn:E end; [|discriminate].
    apply IH in H. destruct (insert_cnt u _ _ _ _ _ _ E) as [_ [_ H3]]. specialize (H3 eq_refl).
    rewrite icnt_concat_rev in H3. simpl. rewrite concat_app, icnt_app. lia.
Qed.

Lemma group_same_flat l : concat (flat_map snd (group_same l)) = flat_map snd l.
Proof.
  induction l as [|[i t] r IH]; simpl; [reflexivity|].
  destruct (group_same r) as [|[j g] rest] eqn:E.
  - simpl in *. rewrite <- IH. rewrite app_nil_r. reflexivity.
  - destruct (Z.eqb i j); simpl in *; rewrite <- IH.
    + reflexivity.
    + reflexivity.
Qed.

Lemma sorted_insert_icnt u x l : icnt u (flat_map snd (sorted_insert x l)) = (icnt u (snd x) + icnt u (flat_map snd l))%nat.
Proof.
  induction l as [|y r IH]; simpl; [rewrite app_nil_r, icnt_nil; lia|].
  destruct (fst x <? fst y); simpl; rewrite !icnt_app; [lia|]. rewrite IH. lia.
Qed.

Lemma stable_sort_icnt u l : icnt u (flat_map snd (stable_sort l)) = icnt u (flat_map snd l).
Proof.
  unfold stable_sort.
  assert (G : forall acc, icnt u (flat_map snd (fold_left (fun acc x => sorted_insert x acc) l acc))
                          = (icnt u (flat_map snd acc) + icnt u (flat_map snd l))%nat).
  { induction l as [|x r IH]; intros acc; simpl; [change (icnt u []) with 0%nat; lia|].
    rewrite IH, sorted_insert_icnt, icnt_app. lia. }
  rewrite G. simpl. change (icnt u []) with 0%nat. lia.
Qed.

Theorem batch_insert_cnt u c ins c' z :
  batch_insert c ins = (c', inl z) -> ccnt u (moms c') = (ccnt u (moms c) + icnt u (flat_map snd ins))%nat.
Proof.
  unfold batch_insert. intros H. destruct (batch_insert_loop _ _ _) as [c1|e] eqn:E; [|discriminate].
  injection H as <- _. simpl. apply (batch_insert_loop_cnt u) in E. simpl in E.
  rewrite group_same_flat, stable_sort_icnt in E. exact E.
Qed.

(* ==== the batch_* edits are all-or-nothing ==== *)
Theorem batch_edits_atomic c :
  (forall rs c' e, batch_remove c rs = (c', inr e) -> c' = c) /\
  (forall rs c' e, batch_replace c rs = (c', inr e) -> c' = c) /\
  (forall rs c' e, batch_insert_into c rs = (c', inr e) -> c' = c) /\
  (forall ins c' e, batch_insert c ins = (c', inr e) -> c' = c).
Proof.
  repeat split; intros rs c' e H.
  - unfold batch_remove, finish_batch in H. destruct (batch_remove_loop _ _); [discriminate|]. injection H as <- _. reflexivity.
  - unfold batch_replace, finish_batch in H. destruct (batch_replace_loop _ _); [discriminate|]. injection H as <- _. reflexivity.
  - unfold batch_insert_into, finish_batch in H. destruct (batch_insert_into_loop _ _); [discriminate|]. injection H as <- _. reflexivity.
  - unfold batch_insert in H. destruct (batch_insert_loop _ _ _); [discriminate|]. injection H as <- _. reflexivity.
Qed.

(* transform_qubits keeps every uid in place *)
Lemma cnt_map_op u f m : cnt u (map (map_op f) m) = cnt u m.
Proof. unfold cnt. induction m as [|o r IH]; simpl; [reflexivity|]. destruct (Z.eqb (uid o) u); simpl; rewrite IH; reflexivity. Qed.

Lemma map_moments_uids f ms : forall ms', map_moments f ms = Some ms' -> map (map uid) ms' = map (map uid) ms.
Proof.
  induction ms as [|m r IH]; intros ms' H; simpl in H; [injection H as <-; reflexivity|].
  destruct (forallb _ _); [|discriminate]. destruct (mk_moment _) as [m'|] eqn:Em; [|discriminate].
  destruct (map_moments f r) as [r'|]; [|discriminate]. injection H as <-. simpl. rewrite (IH r' eq_refl).
  apply mk_moment_eq in Em. subst m'. f_equal. rewrite map_map. reflexivity.
Qed.

Theorem transform_keeps_uids c f c' z : transform_qubits c f = (c', inl z) -> map (map uid) (moms c') = map (map uid) (moms c).
Proof.
  unfold transform_qubits. intros H. destruct (map_moments f (moms c)) as [ms|] eqn:E; [|discriminate].
  injection H as <- _. simpl. eapply map_moments_uids. exact E.
Qed.
