(* C05 proofs, part 4: the other mutators and the algebra keep moments well formed. *)
From Coq Require Import ZArith List Bool Arith Lia.
From VF Require Import Circ.Moments Circ.Placement Circ.Insert Circ.BatchEdit
  Circ.MomentsProofs Circ.InsertProofs Circ.PlacementProofs Circ.CacheProofs.
Import ListNotations.
Open Scope Z_scope.

Lemma items_ops_wf its : Forall item_wf its -> Forall op_wf (items_ops its).
Proof.
  induction 1 as [|it r Hi _ IH]; simpl; [constructor|].
  apply Forall_app. split; [|exact IH]. destruct it as [o|m]; simpl in *.
  - constructor; [exact Hi|constructor].
  - apply Forall_forall. intros o Ho. eapply moment_wf_op; eassumption.
Qed.

Lemma moment_ops_wf m : moment_wf m -> Forall op_wf m.
Proof. intros H. apply Forall_forall. intros o Ho. eapply moment_wf_op; eassumption. Qed.

(* ---- setitem / slices ---- *)
Lemma setitem_wf c i m c' r : setitem c i m = (c', r) -> wf (moms c) -> moment_wf m -> wf (moms c').
Proof.
  unfold setitem. intros H Hw Hm. destruct (py_index i (length (moms c))); injection H as <- <-; simpl; [|exact Hw].
  apply Forall_replace_nth; assumption.
Qed.
Lemma setslice_wf c a b ms c' r : setslice c a b ms = (c', r) -> wf (moms c) -> wf ms -> wf (moms c').
Proof.
  unfold setslice. intros H Hw Hm. destruct (slice_range a b (length (moms c))) as [s e].
  injection H as <- <-. simpl. apply Forall_splice; assumption.
Qed.
Lemma delitem_wf c i c' r : delitem c i = (c', r) -> wf (moms c) -> wf (moms c').
Proof.
  unfold delitem. intros H Hw. destruct (py_index i (length (moms c))); injection H as <- <-; simpl; [|exact Hw].
  apply Forall_remove_nth; assumption.
Qed.

(* ---- batch_remove / batch_replace / batch_insert_into ---- *)
Lemma finish_batch_wf c r c' z : finish_batch c r = (c', z) -> wf (moms c) -> (forall ms, r = inl ms -> wf ms) -> wf (moms c').
Proof.
  unfold finish_batch. intros H Hw Hr. destruct r as [ms|e]; injection H as <- <-; simpl; [apply Hr; reflexivity|exact Hw].
Qed.

Lemma batch_remove_loop_wf rs : forall ms ms', batch_remove_loop ms rs = inl ms' -> wf ms -> wf ms'.
Proof.
  induction rs as [|[i o] r IH]; intros ms ms' H Hw; simpl in H.
  - injection H as <-. exact Hw.
  - destruct (py_index i (length ms)) as [j|]; [|discriminate].
    destruct (nth_error ms j) as [m|] eqn:En; [|discriminate].
    destruct (has_op m o); [|discriminate].
    eapply IH; [exact H|]. apply Forall_replace_nth; [|exact Hw].
    apply filter_moment_wf. eapply Forall_nth_error; eassumption.
Qed.

Lemma batch_replace_loop_wf rs : forall ms ms',
  batch_replace_loop ms rs = inl ms' -> wf ms -> Forall (fun r => op_wf (snd r)) rs -> wf ms'.
Proof.
  induction rs as [|[[i o] n] r IH]; intros ms ms' H Hw Hr; simpl in H.
  - injection H as <-. exact Hw.
  - inversion Hr as [|? ? Hn Hr']; subst. simpl in Hn.
    destruct (py_index i (length ms)) as [j|]; [|discriminate].
    destruct (nth_error ms j) as [m|] eqn:En; [|discriminate].
    destruct (has_op m o); [|discriminate].
    destruct (mk_moment _) as [m'|] eqn:Em; [|discriminate].
    eapply IH; [exact H| |exact Hr']. apply Forall_replace_nth; [|exact Hw].
    eapply mk_moment_wf; [exact Em|].
    assert (Hm : Forall op_wf m) by (apply moment_ops_wf; eapply Forall_nth_error; eassumption).
    clear -Hm Hn. induction Hm as [|x l Hx _ IHl]; simpl; constructor; [destruct (op_eqb x o); assumption|exact IHl].
Qed.

Lemma batch_insert_into_loop_wf rs : forall ms ms',
  batch_insert_into_loop ms rs = inl ms' -> wf ms -> Forall (fun r => Forall op_wf (snd r)) rs -> wf ms'.
Proof.
  induction rs as [|[i ops] r IH]; intros ms ms' H Hw Hr; simpl in H.
  - injection H as <-. exact Hw.
  - inversion Hr as [|? ? Hn Hr']; subst. simpl in Hn.
    destruct (py_index i (length ms)) as [j|]; [|discriminate].
    destruct (nth_error ms j) as [m|] eqn:En; [|discriminate].
    destruct (with_operations m ops) as [m'|] eqn:Em; [|discriminate].
    eapply IH; [exact H| |exact Hr']. apply Forall_replace_nth; [|exact Hw].
    eapply with_operations_wf; [exact Em| |exact Hn]. eapply Forall_nth_error; eassumption.
Qed.

(* ---- batch_insert ---- *)
Lemma sorted_insert_Forall (P : Z * list item -> Prop) x l : P x -> Forall P l -> Forall P (sorted_insert x l).
Proof.
  intros Hx Hl. induction Hl as [|y r Hy Hr IH]; simpl; [constructor; [exact Hx|constructor]|].
  destruct (fst x <? fst y); constructor; try assumption. constructor; assumption.
Qed.
Lemma stable_sort_Forall (P : Z * list item -> Prop) l : Forall P l -> Forall P (stable_sort l).
Proof.
  unfold stable_sort. intros H. assert (G : forall acc, Forall P acc -> Forall P (fold_left (fun acc x => sorted_insert x acc) l acc)).
  { induction H as [|x r Hx _ IH]; intros acc Ha; simpl; [exact Ha|]. apply IH. apply sorted_insert_Forall; assumption. }
  apply G. constructor.
Qed.
Lemma group_same_Forall (P : list item -> Prop) l :
  Forall (fun r => P (snd r)) l -> Forall (fun g => Forall P (snd g)) (group_same l).
Proof.
  induction 1 as [|[i t] r Hx _ IH]; simpl; [constructor|]. simpl in Hx.
  destruct (group_same r) as [|[j g] rest]; [constructor; [constructor; [exact Hx|constructor]|constructor]|].
  inversion IH as [|? ? Hg Hrest]; subst. simpl in Hg.
  destruct (Z.eqb i j).
  - constructor; [simpl; constructor; assumption|exact Hrest].
  - constructor; [simpl; constructor; [exact Hx|constructor]|]. constructor; [exact Hg|exact Hrest].
Qed.
Lemma concat_rev_Forall {A} (P : A -> Prop) (g : list (list A)) : Forall (Forall P) g -> Forall P (concat (rev g)).
Proof. intros H. apply Forall_concat. apply Forall_rev. exact H. Qed.

Lemma batch_insert_loop_wf gs : forall c shift c',
  batch_insert_loop c shift gs = inl c' -> wf (moms c) -> Forall (fun g => Forall (Forall item_wf) (snd g)) gs -> wf (moms c').
Proof.
  induction gs as [|[i group] r IH]; intros c shift c' H Hw Hg; cbn [batch_insert_loop] in H.
  - injection H as <-. exact Hw.
  - inversion Hg as [|? ? Hx Hg']; subst. simpl in Hx.
    match type of H with context [insert ?a ?b ?d ?s0] => destruct (insert a b d s0) as [c1 [z|er]] eqn:E end; [|discriminate].
    eapply IH; [exact H| |exact Hg']. eapply insert_wf; [exact E|exact Hw|]. apply concat_rev_Forall. exact Hx.
Qed.

Lemma batch_insert_wf c ins c' r :
  batch_insert c ins = (c', r) -> wf (moms c) -> Forall (fun r => Forall item_wf (snd r)) ins -> wf (moms c').
Proof.
  unfold batch_insert. intros H Hw Hi.
  destruct (batch_insert_loop _ _ _) as [c1|e] eqn:E; injection H as <- <-; simpl; [|exact Hw].
  eapply batch_insert_loop_wf; [exact E|exact Hw|].
  apply group_same_Forall. apply stable_sort_Forall. exact Hi.
Qed.

(* ---- insert_into_range ---- *)
Lemma range_loop_wf ops : forall ms i e ms' rest er,
  range_loop ms i e ops = (ms', rest, er) -> wf ms -> Forall op_wf ops -> wf ms' /\ Forall op_wf rest.
Proof.
  induction ops as [|o r IH]; intros ms i e ms' rest er H Hw Ho; simpl in H.
  - injection H as <- <- <-. split; [exact Hw|constructor].
  - inversion Ho as [|? ? Ho1 Ho2]; subst.
    destruct (Nat.leb e (advance ms o i (e - i))); [injection H as <- <- <-; split; assumption|].
    destruct (nth_error ms _) as [m|] eqn:En; [|injection H as <- <- <-; split; assumption].
    destruct (with_operation m o) as [m'|] eqn:Ew; [|injection H as <- <- <-; split; assumption].
    eapply IH; [exact H| |exact Ho2]. apply Forall_replace_nth; [|exact Hw].
    eapply with_operation_wf; [exact Ew| |exact Ho1]. eapply Forall_nth_error; eassumption.
Qed.

Lemma insert_into_range_wf c its s e c' r :
  insert_into_range c its s e = (c', r) -> wf (moms c) -> Forall item_wf its -> wf (moms c').
Proof.
  unfold insert_into_range. intros H Hw Hi. destruct (_ && _); [|injection H as <- <-; exact Hw].
  destruct (range_loop _ _ _ _) as [[ms rest] er] eqn:E.
  destruct (range_loop_wf _ _ _ _ _ _ _ E Hw (items_ops_wf _ Hi)) as [Hw' Hr].
  destruct er; [injection H as <- <-; exact Hw'|].
  destruct rest as [|o rest]; [injection H as <- <-; exact Hw'|].
  eapply insert_wf; [exact H|exact Hw'|].
  clear -Hr. induction Hr; simpl; constructor; assumption.
Qed.

(* ---- insert_at_frontier ---- *)
Lemma repeat_nil_wf n : wf (repeat [] n).
Proof. induction n; simpl; constructor; [apply nil_moment_wf|assumption]. Qed.

Lemma group_by_index_Forall (P : opd -> Prop) ops : forall idxs acc,
  Forall P ops -> Forall (fun kv => Forall P (snd kv)) acc -> Forall (fun kv => Forall P (snd kv)) (group_by_index ops idxs acc).
Proof.
  induction ops as [|o r IH]; intros idxs acc Ho Ha; simpl; [exact Ha|].
  destruct idxs as [|i ri]; [exact Ha|]. inversion Ho as [|? ? Ho1 Ho2]; subst.
  apply IH; [exact Ho2|]. destruct (existsb _ acc).
  - clear -Ha Ho1. induction Ha as [|kv l Hkv _ IHl]; simpl; constructor; [|exact IHl].
    destruct (Z.eqb i (fst kv)); simpl; [apply Forall_app; split; [exact Hkv|constructor; [exact Ho1|constructor]]|exact Hkv].
  - apply Forall_app. split; [exact Ha|]. constructor; [simpl; constructor; [exact Ho1|constructor]|constructor].
Qed.

Lemma insert_groups_wf gs : forall ms ms' er,
  insert_groups ms gs = (ms', er) -> wf ms -> Forall (fun kv => Forall op_wf (snd kv)) gs -> wf ms'.
Proof.
  induction gs as [|[i ops] r IH]; intros ms ms' er H Hw Hg; simpl in H.
  - injection H as <- <-. exact Hw.
  - inversion Hg as [|? ? Hx Hg']; subst. simpl in Hx.
    destruct (nth_error ms _) as [m|] eqn:En; [|injection H as <- <-; exact Hw].
    destruct (with_operations m ops) as [m'|] eqn:Em; [|injection H as <- <-; exact Hw].
    eapply IH; [exact H| |exact Hg']. apply Forall_replace_nth; [|exact Hw].
    eapply with_operations_wf; [exact Em| |exact Hx]. eapply Forall_nth_error; eassumption.
Qed.

Lemma push_frontier_wf ms f1 late uq ms1 f2 : push_frontier ms f1 late uq = (ms1, f2) -> wf ms -> wf ms1.
Proof.
  unfold push_frontier. intros H Hw. destruct (0 <? _); injection H as <- <-; [|exact Hw].
  apply Forall_splice; [apply repeat_nil_wf|exact Hw].
Qed.

Lemma insert_at_frontier_wf c its start f c' r :
  insert_at_frontier c its start f = (c', r) -> wf (moms c) -> Forall item_wf its -> wf (moms c').
Proof.
  unfold insert_at_frontier. intros H Hw Hi. pose proof (items_ops_wf _ Hi) as Ho.
  destruct (items_ops its) as [|o0 ops0] eqn:Eo; [injection H as <- <-; exact Hw|].
  destruct (existsb _ _); [injection H as <- <-; exact Hw|].
  destruct (pick_indices _ _ _) as [idxs f1].
  destruct (push_frontier _ _ _ _) as [ms1 f2] eqn:Ep.
  pose proof (push_frontier_wf _ _ _ _ _ _ Ep Hw) as Hms1.
  destruct (insert_groups _ _) as [ms3 er] eqn:E.
  assert (Hw3 : wf ms3).
  { eapply insert_groups_wf; [exact E| |].
    - apply Forall_app. split; [exact Hms1|apply repeat_nil_wf].
    - apply group_by_index_Forall; [exact Ho|constructor]. }
  destruct er; injection H as <- <-; exact Hw3.
Qed.

(* ---- clear_operations_touching ---- *)
Lemma clear_touching_wf c qubits idxs c' r : clear_touching c qubits idxs = (c', r) -> wf (moms c) -> wf (moms c').
Proof.
  unfold clear_touching. intros H Hw. injection H as <- <-. simpl.
  revert Hw. generalize (moms c). induction idxs as [|k r IH]; intros ms Hw; simpl; [exact Hw|].
  apply IH. destruct (_ && _); [|exact Hw]. destruct (nth_error ms _) as [m|] eqn:En; [|exact Hw].
  apply Forall_replace_nth; [|exact Hw]. apply filter_moment_wf. eapply Forall_nth_error; eassumption.
Qed.

(* ---- algebra ---- *)
Lemma repeat_list_wf n ms : wf ms -> wf (repeat_list n ms).
Proof. intros H. induction n; simpl; [constructor|apply Forall_app; split; assumption]. Qed.

Lemma add_wf c its c' r : add c its = (c', r) -> wf (moms c) -> Forall item_wf its -> wf (moms c').
Proof. unfold add. intros H Hw Hi. eapply append_wf; [exact H|exact Hw|exact Hi]. Qed.

Lemma radd_wf c its c' r : radd c its = (c', r) -> wf (moms c) -> Forall item_wf its -> wf (moms c').
Proof.
  unfold radd. intros H Hw Hi. destruct (construct its EARLIEST) as [c1 [z|e]] eqn:E; injection H as <- <-; simpl; [|exact Hw].
  apply Forall_app. split; [eapply construct_wf; eassumption|exact Hw].
Qed.

Lemma inv_moment_wf m : moment_wf m -> moment_wf (map inv_op m).
Proof.
  unfold moment_wf, mqubits. intros H.
  assert (E : forall l, flat_map qs (map inv_op l) = flat_map qs l) by (induction l as [|o r IH]; simpl; [reflexivity|rewrite IH; reflexivity]).
  rewrite E. exact H.
Qed.

Lemma inverse_wf c c' r : inverse c = (c', r) -> wf (moms c) -> wf (moms c').
Proof.
  unfold inverse. intros H Hw. destruct (forallb _ _); injection H as <- <-; simpl; [|exact Hw].
  apply Forall_rev. clear -Hw. induction Hw; simpl; constructor; [apply inv_moment_wf; assumption|assumption].
Qed.

Lemma map_moments_wf f ms : forall ms', map_moments f ms = Some ms' -> wf ms'.
Proof.
  induction ms as [|m r IH]; intros ms' H; simpl in H; [injection H as <-; constructor|].
  destruct (forallb _ _) eqn:Ef; [|discriminate].
  destruct (mk_moment _) as [m'|] eqn:Em; [|discriminate].
  destruct (map_moments f r) as [r'|]; [|discriminate]. injection H as <-.
  constructor; [|apply IH; reflexivity]. eapply mk_moment_wf; [exact Em|].
  apply Forall_forall. intros o Ho. rewrite forallb_forall in Ef. apply nodupb_spec. apply Ef. exact Ho.
Qed.

Lemma transform_wf c f c' r : transform_qubits c f = (c', r) -> wf (moms c) -> wf (moms c').
Proof.
  unfold transform_qubits. intros H Hw. destruct (map_moments f (moms c)) as [ms|] eqn:E; injection H as <- <-; simpl; [|exact Hw].
  eapply map_moments_wf. exact E.
Qed.

(* ---- zip ---- *)
Lemma nth_wf k c : wf c -> moment_wf (nth k c []).
Proof.
  intros H. destruct (nth_in_or_default k c []) as [Hin|Heq]; [|rewrite Heq; apply nil_moment_wf].
  unfold wf in H. rewrite Forall_forall in H. apply H. exact Hin.
Qed.

Lemma zip_row_ops_wf cs n k a : Forall wf cs -> Forall op_wf (zip_row cs n k a).
Proof.
  unfold zip_row. induction 1 as [|c r Hc _ IH]; simpl; [constructor|].
  apply Forall_app. split; [|exact IH].
  destruct (is_left a); [apply moment_ops_wf; apply nth_wf; exact Hc|].
  destruct (0 <=? _); [apply moment_ops_wf; apply nth_wf; exact Hc|constructor].
Qed.

Lemma zip_loop_wf cs n a ks : forall acc c' r,
  zip_loop cs n a ks acc = (c', r) -> Forall wf cs -> wf (moms acc) -> wf (moms c').
Proof.
  induction ks as [|k r0 IH]; intros acc c' r H Hcs Hw; cbn [zip_loop] in H.
  - injection H as <- <-. exact Hw.
  - destruct (mk_moment _) as [m|] eqn:Em; [|injection H as <- <-; exact Hw].
    destruct (append acc [IMom m] EARLIEST) as [acc' [z|e]] eqn:Ea.
    + eapply IH; [exact H|exact Hcs|]. eapply append_wf; [exact Ea|exact Hw|].
      constructor; [|constructor]. simpl. eapply mk_moment_wf; [exact Em|apply zip_row_ops_wf; exact Hcs].
    + injection H as <- <-. eapply append_wf; [exact Ea|exact Hw|].
      constructor; [|constructor]. simpl. eapply mk_moment_wf; [exact Em|apply zip_row_ops_wf; exact Hcs].
Qed.

Lemma zip_wf c others a c' r : zip c others a = (c', r) -> wf (moms c) -> Forall wf others -> wf (moms c').
Proof.
  unfold zip. intros H Hw Ho.
  destruct (zip_loop _ _ _ _ _) as [c1 [z|e]] eqn:E; injection H as <- <-; [|exact Hw].
  eapply zip_loop_wf; [exact E|constructor; assumption|constructor].
Qed.

(* ---- concat_ragged ---- *)
Lemma merge_into_wf c2 : forall buf off buf', merge_into buf off c2 = Some buf' -> wf buf -> wf c2 -> wf buf'.
Proof.
  induction c2 as [|m r IH]; intros buf off buf' H Hw Hc; simpl in H.
  - injection H as <-. exact Hw.
  - inversion Hc as [|? ? Hm Hr]; subst.
    destruct (with_operations _ m) as [m'|] eqn:Em; [|discriminate].
    eapply IH; [exact H| |exact Hr]. apply Forall_replace_nth; [|exact Hw].
    eapply with_operations_wf; [exact Em|apply nth_wf; exact Hw|apply moment_ops_wf; exact Hm].
Qed.

Lemma ragged_loop_wf cs : forall buf off n a buf' off' n',
  ragged_loop buf off n cs a = Some (buf', off', n') -> wf buf -> Forall wf cs -> wf buf'.
Proof.
  induction cs as [|c2 r IH]; intros buf off n a buf' off' n' H Hw Hc; simpl in H.
  - injection H as <- <- <-. exact Hw.
  - inversion Hc as [|? ? Hc2 Hr]; subst.
    destruct (merge_into _ _ c2) as [buf1|] eqn:Em; [|discriminate].
    eapply IH; [exact H| |exact Hr]. eapply merge_into_wf; eassumption.
Qed.

Lemma concat_ragged_wf c others a c' r : concat_ragged c others a = (c', r) -> wf (moms c) -> Forall wf others -> wf (moms c').
Proof.
  unfold concat_ragged. intros H Hw Ho.
  destruct (ragged_loop _ _ _ _ _) as [[[buf' off] n]|] eqn:E; injection H as <- <-; simpl; [|exact Hw].
  apply Forall_firstn. apply Forall_skipn. eapply ragged_loop_wf; [exact E| |exact Ho].
  apply Forall_app. split; [apply repeat_nil_wf|]. apply Forall_app. split; [exact Hw|apply repeat_nil_wf].
Qed.

(* ==== insert_into_range never raises inside its loop ==== *)
Lemma advance_spec ms o n : forall i, (i + n <= length ms)%nat ->
  let i' := advance ms o i n in
  (i <= i' <= i + n)%nat /\
  ((i' < i + n)%nat -> exists m, nth_error ms i' = Some m /\ operates_on m (qs o) = false).
Proof.
  induction n as [|n IH]; intros i Hb; simpl.
  - split; [lia|]. intros H. lia.
  - destruct (nth_error ms i) as [m|] eqn:En.
    + destruct (operates_on m (qs o)) eqn:Eo.
      * destruct (IH (S i) ltac:(lia)) as [H1 H2]. split; [lia|]. intros H. apply H2. lia.
      * split; [lia|]. intros _. exists m. split; assumption.
    + apply nth_error_None in En. lia.
Qed.

Lemma range_loop_noerr ops : forall ms i e ms' rest er,
  (e <= length ms)%nat -> range_loop ms i e ops = (ms', rest, er) -> er = None.
Proof.
  induction ops as [|o r IH]; intros ms i e ms' rest er He H; simpl in H.
  - injection H as <- <- <-. reflexivity.
  - destruct (Nat.leb e (advance ms o i (e - i))) eqn:El; [injection H as <- <- <-; reflexivity|].
    apply Nat.leb_gt in El.
    assert (Hi : (i <= e)%nat).
    { destruct (Nat.le_gt_cases i e) as [Hle|Hgt]; [exact Hle|]. replace (e - i)%nat with 0%nat in El by lia. simpl in El. lia. }
    destruct (advance_spec ms o (e - i) i ltac:(lia)) as [H1 H2].
    destruct (H2 ltac:(lia)) as [m [Hn Ho]]. rewrite Hn in H.
    unfold with_operation in H. rewrite Ho in H.
    eapply IH; [|exact H]. rewrite replace_nth_length. exact He.
Qed.
