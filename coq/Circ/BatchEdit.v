(* C05 model, part 4: the other mutators and the circuit algebra, in the shape of circuit.py.
   Every function returns the new state together with the result or the exception; a failing
   batch_* call returns the old state (they work on a copy), the other mutators return whatever
   prefix of the work was done.  Definitions only. *)
From Coq Require Import ZArith List Bool Arith.
From VF Require Import Circ.Moments Circ.Placement Circ.Insert.
Import ListNotations.
Open Scope Z_scope.

(* ---- python list indexing and slicing ---- *)
Definition py_index (i : Z) (n : nat) : option nat :=
  let j := if i <? 0 then i + Z.of_nat n else i in
  if (0 <=? j) && (j <? Z.of_nat n) then Some (Z.to_nat j) else None.

Definition slice_bound (x : option Z) (dflt n : nat) : nat :=
  match x with
  | None => dflt
  | Some z => let j := if z <? 0 then z + Z.of_nat n else z in Z.to_nat (Z.max 0 (Z.min j (Z.of_nat n)))
  end.
(* l[a:b] with step 1: the affected range is [s, max s e) *)
Definition slice_range (a b : option Z) (n : nat) : nat * nat :=
  let s := slice_bound a 0 n in
  let e := slice_bound b n n in
  (s, Nat.max s e).

(* ---- __setitem__ / __delitem__ ---- *)
Definition setitem (c : cstate) (i : Z) (m : moment) : cstate * (Z + err) :=
  match py_index i (length (moms c)) with
  | None => (c, inr IndexError)
  | Some j => (mutated false (mkc (replace_nth j m (moms c)) (cache c) (sm c)), inl 0)
  end.
Definition setslice (c : cstate) (a b : option Z) (ms : list moment) : cstate * (Z + err) :=
  let '(s, e) := slice_range a b (length (moms c)) in
  (mutated false (mkc (splice s e ms (moms c)) (cache c) (sm c)), inl 0).
Definition delitem (c : cstate) (i : Z) : cstate * (Z + err) :=
  match py_index i (length (moms c)) with
  | None => (c, inr IndexError)
  | Some j => (mutated false (mkc (remove_nth j (moms c)) (cache c) (sm c)), inl 0)
  end.
Definition delslice (c : cstate) (a b : option Z) : cstate * (Z + err) := setslice c a b [].

(* ---- batch_remove / batch_replace / batch_insert_into: all-or-nothing on a copy ---- *)
Definition has_op (m : moment) (o : opd) : bool := existsb (op_eqb o) m.

Fixpoint batch_remove_loop (ms : list moment) (rs : list (Z * opd)) : list moment + err :=
  match rs with
  | [] => inl ms
  | (i, o) :: r =>
      match py_index i (length ms) with
      | None => inr IndexError
      | Some j =>
          match nth_error ms j with
          | None => inr IndexError
          | Some m =>
              if has_op m o
              then batch_remove_loop (replace_nth j (filter (fun old => negb (op_eqb o old)) m) ms) r
              else inr ValueError
          end
      end
  end.
Definition finish_batch (c : cstate) (r : list moment + err) : cstate * (Z + err) :=
  match r with
  | inl ms => (mutated false (mkc ms (cache c) (sm c)), inl 0)
  | inr e => (c, inr e)
  end.
Definition batch_remove (c : cstate) (rs : list (Z * opd)) : cstate * (Z + err) :=
  finish_batch c (batch_remove_loop (moms c) rs).

Fixpoint batch_replace_loop (ms : list moment) (rs : list (Z * opd * opd)) : list moment + err :=
  match rs with
  | [] => inl ms
  | (i, o, n) :: r =>
      match py_index i (length ms) with
      | None => inr IndexError
      | Some j =>
          match nth_error ms j with
          | None => inr IndexError
          | Some m =>
              if has_op m o
              then match mk_moment (map (fun old => if op_eqb old o then n else old) m) with
                   | None => inr ValueError
                   | Some m' => batch_replace_loop (replace_nth j m' ms) r
                   end
              else inr ValueError
          end
      end
  end.
Definition batch_replace (c : cstate) (rs : list (Z * opd * opd)) : cstate * (Z + err) :=
  finish_batch c (batch_replace_loop (moms c) rs).

Fixpoint batch_insert_into_loop (ms : list moment) (rs : list (Z * list opd)) : list moment + err :=
  match rs with
  | [] => inl ms
  | (i, ops) :: r =>
      match py_index i (length ms) with
      | None => inr IndexError
      | Some j =>
          match nth_error ms j with
          | None => inr IndexError
          | Some m => match with_operations m ops with
                      | None => inr ValueError
                      | Some m' => batch_insert_into_loop (replace_nth j m' ms) r
                      end
          end
      end
  end.
Definition batch_insert_into (c : cstate) (rs : list (Z * list opd)) : cstate * (Z + err) :=
  finish_batch c (batch_insert_into_loop (moms c) rs).

(* ---- batch_insert: stable sort by index, group equal indices, insert each group (reversed)
        with EARLIEST into the copy, shifting later indices by the number of moments created ---- *)
Fixpoint sorted_insert (x : Z * list item) (l : list (Z * list item)) : list (Z * list item) :=
  match l with
  | [] => [x]
  | y :: r => if fst x <? fst y then x :: l else y :: sorted_insert x r     (* after equal keys: stable *)
  end.
Definition stable_sort (l : list (Z * list item)) : list (Z * list item) :=
  fold_left (fun acc x => sorted_insert x acc) l [].
(* _group_until_different *)
Fixpoint group_same (l : list (Z * list item)) : list (Z * list (list item)) :=
  match l with
  | [] => []
  | (i, t) :: r =>
      match group_same r with
      | (j, g) :: rest => if Z.eqb i j then (i, t :: g) :: rest else (i, [t]) :: (j, g) :: rest
      | [] => [(i, [t])]
      end
  end.
Fixpoint batch_insert_loop (c : cstate) (shift : Z) (gs : list (Z * list (list item))) : cstate + err :=
  match gs with
  | [] => inl c
  | (i, group) :: r =>
      let insert_index := i + shift in
      match insert c insert_index (concat (rev group)) EARLIEST with
      | (c', inl _) =>
          (* shift += len(copy) - moments_before *)
          batch_insert_loop c' (shift + (Z.of_nat (length (moms c')) - Z.of_nat (length (moms c)))) r
      | (_, inr e) => inr e
      end
  end.
Definition batch_insert (c : cstate) (ins : list (Z * list item)) : cstate * (Z + err) :=
  match batch_insert_loop (from_moments (moms c)) 0 (group_same (stable_sort ins)) with
  | inl c' => (mutated false (mkc (moms c') (cache c) (sm c)), inl 0)
  | inr e => (c, inr e)
  end.

(* ---- insert_into_range ---- *)
(* while i < end and moments[i].operates_on(op.qubits): i += 1     (n = end - i) *)
Fixpoint advance (ms : list moment) (o : opd) (i n : nat) : nat :=
  match n with
  | O => i
  | S n' => match nth_error ms i with
            | Some m => if operates_on m (qs o) then advance ms o (S i) n' else i
            | None => i
            end
  end.
Fixpoint range_loop (ms : list moment) (i e : nat) (ops : list opd) : list moment * list opd * option err :=
  match ops with
  | [] => (ms, [], None)
  | o :: r =>
      let i' := advance ms o i (e - i) in
      if Nat.leb e i' then (ms, ops, None)
      else match nth_error ms i' with
           | None => (ms, ops, Some IndexError)
           | Some m => match with_operation m o with
                       | None => (ms, ops, Some ValueError)
                       | Some m' => range_loop (replace_nth i' m' ms) i' e r
                       end
           end
  end.
Definition insert_into_range (c : cstate) (its : list item) (s e : Z) : cstate * (Z + err) :=
  if (0 <=? s) && (s <=? e) && (e <=? Z.of_nat (length (moms c))) then
    match range_loop (moms c) (Z.to_nat s) (Z.to_nat e) (items_ops its) with
    | (ms, _, Some er) => (mkc ms (cache c) (sm c), inr er)
    | (ms, rest, None) =>
        let c1 := mutated false (mkc ms (cache c) (sm c)) in
        match rest with
        | [] => (c1, inl e)
        | _ => insert c1 e (map IOp rest) EARLIEST
        end
    end
  else (c, inr IndexError).

(* ---- insert_at_frontier ---- *)
Definition fmap := list (Z * Z).
Fixpoint fget (f : fmap) (q : Z) : Z :=
  match f with [] => 0 | (k, v) :: r => if Z.eqb q k then v else fget r q end.
Definition fhas (f : fmap) (q : Z) : bool := existsb (fun kv => Z.eqb q (fst kv)) f.
Definition fset (f : fmap) (q v : Z) : fmap := (q, v) :: f.

(* next_moments_operating_on(qubits, start)[q] *)
Fixpoint next_on (ms : list moment) (q : Z) (i : nat) : nat :=      (* ms = moments from index i on *)
  match ms with
  | [] => i
  | m :: r => if memz q (mqubits m) then i else next_on r q (S i)
  end.
Definition next_moment_of (ms : list moment) (q : Z) (start : nat) : Z :=
  if Nat.leb (length ms) start then Z.of_nat (length ms) else Z.of_nat (next_on (skipn start ms) q start).

(* max(xs, default=d) / min(xs, default=d) *)
Definition zmax_of (l : list Z) (d : Z) : Z := match l with [] => d | x :: r => fold_left Z.max r x end.
Definition zmin_of (l : list Z) (d : Z) : Z := match l with [] => d | x :: r => fold_left Z.min r x end.

(* _pick_inserted_ops_moment_indices *)
Fixpoint pick_indices (ops : list opd) (start : Z) (f : fmap) : list Z * fmap :=
  match ops with
  | [] => ([], f)
  | o :: r =>
      let op_start := Z.max start (zmax_of (map (fget f) (qs o)) 0) in
      let f' := fold_left (fun acc q => fset acc q (Z.max (fget acc q) (op_start + 1))) (qs o) f in
      let '(idxs, f'') := pick_indices r start f' in
      (op_start :: idxs, f'')
  end.

(* _insert_operations: group by moment index in first-occurrence order, with_operations per group *)
Fixpoint group_by_index (ops : list opd) (idxs : list Z) (acc : list (Z * list opd)) : list (Z * list opd) :=
  match ops, idxs with
  | o :: r, i :: ri =>
      let acc' := if existsb (fun kv => Z.eqb i (fst kv)) acc
                  then map (fun kv => if Z.eqb i (fst kv) then (fst kv, snd kv ++ [o]) else kv) acc
                  else acc ++ [(i, [o])] in
      group_by_index r ri acc'
  | _, _ => acc
  end.
Fixpoint insert_groups (ms : list moment) (gs : list (Z * list opd)) : list moment * option err :=
  match gs with
  | [] => (ms, None)
  | (i, ops) :: r =>
      match nth_error ms (Z.to_nat i) with
      | None => (ms, Some IndexError)
      | Some m => match with_operations m ops with
                  | None => (ms, Some ValueError)
                  | Some m' => insert_groups (replace_nth (Z.to_nat i) m' ms) r
                  end
      end
  end.

(* _push_frontier(early_frontier, late_frontier): blank moments in front of the next operations *)
Definition push_frontier (ms : list moment) (f1 : fmap) (late : list (Z * Z)) (update_qubits : list Z) : list moment * fmap :=
  let n_new := zmax_of (map (fun kv => fget f1 (fst kv) - snd kv) late) 0 in
  if 0 <? n_new then
    let ii := zmin_of (map snd late) 0 in
    (splice (Z.to_nat ii) (Z.to_nat ii) (repeat [] (Z.to_nat n_new)) ms,
     fold_left (fun acc q => if ii <? fget acc q then fset acc q (fget acc q + n_new) else acc) update_qubits f1)
  else (ms, f1).

Definition insert_at_frontier (c : cstate) (its : list item) (start : Z) (f0 : fmap) : cstate * (fmap + err) :=
  let ops := items_ops its in
  match ops with
  | [] => (c, inl f0)
  | _ =>
      let qubits := dedup (flat_map qs ops) in
      if existsb (fun q => start <? fget f0 q) qubits then (c, inr ValueError)
      else
        let late := map (fun q => (q, next_moment_of (moms c) q (Z.to_nat start))) qubits in
        let '(idxs, f1) := pick_indices ops start f0 in
        let update_qubits := filter (fun q => negb (memz q qubits)) (dedup (map fst f0)) in
        let '(ms1, f2) := push_frontier (moms c) f1 late update_qubits in
        (* _insert_operations *)
        let mx := zmax_of idxs 0 in
        let ms2 := ms1 ++ repeat [] (Z.to_nat (1 + mx - Z.of_nat (length ms1))) in
        match insert_groups ms2 (group_by_index ops idxs []) with
        | (ms3, None) => (mutated false (mkc ms3 (cache c) (sm c)), inl f2)
        | (ms3, Some e) => (mutated false (mkc ms3 (cache c) (sm c)), inr e)
        end
  end.

(* ---- clear_operations_touching ---- *)
Definition clear_step (qubits : list Z) (acc : list moment) (k : Z) : list moment :=
  if (0 <=? k) && (k <? Z.of_nat (length acc)) then
    match nth_error acc (Z.to_nat k) with
    | Some m => replace_nth (Z.to_nat k) (without_touching m qubits) acc
    | None => acc
    end
  else acc.
Definition clear_touching (c : cstate) (qubits : list Z) (idxs : list Z) : cstate * (Z + err) :=
  (mutated false (mkc (fold_left (clear_step qubits) idxs (moms c)) (cache c) (sm c)), inl 0).

(* ---- algebra: results are new circuits ---- *)
Fixpoint repeat_list {A} (n : nat) (l : list A) : list A :=
  match n with O => [] | S n' => l ++ repeat_list n' l end.
Definition imul (c : cstate) (n : Z) : cstate := mutated false (mkc (repeat_list (Z.to_nat n) (moms c)) (cache c) (sm c)).
Definition mul (c : cstate) (n : Z) : cstate := from_moments (repeat_list (Z.to_nat n) (moms c)).

(* c + tree: copy, then append *)
Definition add (c : cstate) (its : list item) : cstate * (Z + err) := append (from_moments (moms c)) its EARLIEST.
(* tree + c: Circuit(tree)._moments in front of a copy *)
Definition radd (c : cstate) (its : list item) : cstate * (Z + err) :=
  match construct its EARLIEST with
  | (c1, inl _) => (from_moments (moms c1 ++ moms c), inl 0)
  | (_, inr e) => (c, inr e)
  end.

(* c ** -1: NotImplemented (a TypeError for the caller) unless every operation has an inverse *)
Definition inv_op (o : opd) : opd := mkop (- uid o) (qs o) (mk o) (ck o) (pn o) (invertible o).
Definition inverse (c : cstate) : cstate * (Z + err) :=
  if forallb (forallb invertible) (moms c)
  then (from_moments (rev (map (map inv_op) (moms c))), inl 0)
  else (c, inr TypeError).

(* transform_qubits(dict): every moment is rebuilt by the Moment constructor *)
Definition qmap_get (f : fmap) (q : Z) : Z := if fhas f q then fget f q else q.
Definition map_op (f : fmap) (o : opd) : opd := mkop (uid o) (map (qmap_get f) (qs o)) (mk o) (ck o) (pn o) (invertible o).
Fixpoint map_moments (f : fmap) (ms : list moment) : option (list moment) :=
  match ms with
  | [] => Some []
  | m :: r =>
      let m1 := map (map_op f) m in
      if forallb (fun o => nodupb (qs o)) m1 then
        match mk_moment m1, map_moments f r with
        | Some m', Some r' => Some (m' :: r')
        | _, _ => None
        end
      else None
  end.
Definition transform_qubits (c : cstate) (f : fmap) : cstate * (Z + err) :=
  match map_moments f (moms c) with
  | Some ms => (from_moments ms, inl 0)
  | None => (c, inr ValueError)
  end.

(* ---- zip ---- *)
Inductive alignment := LEFT | RIGHT | FIRST.
Definition is_left (a : alignment) : bool := match a with LEFT => true | _ => false end.
(* the operations moment k of the result collects, circuit by circuit *)
Definition zip_row (cs : list (list moment)) (n k : nat) (a : alignment) : list opd :=
  flat_map (fun c =>
              if is_left a then nth k c []
              else let off := Z.of_nat (length c) - Z.of_nat n + Z.of_nat k in
                   if 0 <=? off then nth (Z.to_nat off) c [] else []) cs.
Fixpoint zip_loop (cs : list (list moment)) (n : nat) (a : alignment) (ks : list nat) (acc : cstate) : cstate * (Z + err) :=
  match ks with
  | [] => (acc, inl 0)
  | k :: r =>
      match mk_moment (zip_row cs n k a) with
      | None => (acc, inr ValueError)
      | Some m => match append acc [IMom m] EARLIEST with
                  | (acc', inl _) => zip_loop cs n a r acc'
                  | (acc', inr e) => (acc', inr e)
                  end
      end
  end.
Definition zip (c : cstate) (others : list (list moment)) (a : alignment) : cstate * (Z + err) :=
  let cs := moms c :: others in
  let n := fold_left Nat.max (map (@length moment) cs) O in
  match zip_loop cs n a (seq 0 n) empty_circuit with
  | (c', inl z) => (c', inl z)
  | (_, inr e) => (c, inr e)
  end.

(* ---- concat_ragged ---- *)
(* seen_times.setdefault(q, v): first binding stays *)
Definition setdefault (seen : fmap) (q v : Z) : fmap * Z :=
  if fhas seen q then (seen, fget seen q) else (seen ++ [(q, v)], v).

Fixpoint oct_loop (fuel : nat) (t ub : Z) (seen : fmap) (c1 c2 : list moment) : Z :=
  match fuel with
  | O => ub
  | S fuel' =>
      if ub <=? t then ub
      else
        let '(seen1, ub1) :=
          if t <? Z.of_nat (length c2) then
            fold_left (fun (acc : fmap * Z) q =>
                         let '(s, u) := acc in
                         let '(s', k2) := setdefault s q t in
                         (s', if k2 <? 0 then Z.min u (t + (- k2 - 1)) else u))
                      (mqubits (nth (Z.to_nat t) c2 [])) (seen, ub)
          else (seen, ub) in
        let '(seen2, ub2) :=
          if t <? Z.of_nat (length c1) then
            fold_left (fun (acc : fmap * Z) q =>
                         let '(s, u) := acc in
                         let '(s', k2) := setdefault s q (- t - 1) in
                         (s', if 0 <=? k2 then Z.min u (t + k2) else u))
                      (mqubits (nth (length c1 - 1 - Z.to_nat t) c1 [])) (seen1, ub1)
          else (seen1, ub1) in
        oct_loop fuel' (t + 1) ub2 seen2 c1 c2
  end.
Definition overlap_collision_time (c1 c2 : list moment) (a : alignment) : Z :=
  let ub := match a with
            | LEFT => Z.of_nat (length c1)
            | RIGHT => Z.of_nat (length c2)
            | FIRST => Z.of_nat (Nat.min (length c1) (length c2))
            end in
  oct_loop (Z.to_nat ub) 0 ub [] c1 c2.

(* buf[k + c2_offset] = (buf[k + c2_offset] or Moment()) + c2[k] *)
Fixpoint merge_into (buf : list moment) (off : nat) (c2 : list moment) : option (list moment) :=
  match c2 with
  | [] => Some buf
  | m :: r => match with_operations (nth off buf []) m with
              | None => None
              | Some m' => merge_into (replace_nth off m' buf) (S off) r
              end
  end.
Fixpoint ragged_loop (buf : list moment) (off n_acc : Z) (cs : list (list moment)) (a : alignment)
  : option (list moment * Z * Z) :=
  match cs with
  | [] => Some (buf, off, n_acc)
  | c2 :: r =>
      let c1 := firstn (Z.to_nat n_acc) (skipn (Z.to_nat off) buf) in
      let shift := overlap_collision_time c1 c2 a in
      let n2 := Z.of_nat (length c2) in
      let c2_off := off + n_acc - shift in
      match merge_into buf (Z.to_nat c2_off) c2 with
      | None => None
      | Some buf' => ragged_loop buf' (Z.min off c2_off) (Z.max (Z.max n_acc n2) (n_acc + n2 - shift)) r a
      end
  end.
Definition concat_ragged (c : cstate) (others : list (list moment)) (a : alignment) : cstate * (Z + err) :=
  let n0 := length (moms c) in
  let pad := fold_left Nat.add (map (@length moment) others) O in
  let buf := repeat [] pad ++ moms c ++ repeat [] pad in
  match ragged_loop buf (Z.of_nat pad) (Z.of_nat n0) others a with
  | None => (c, inr ValueError)
  | Some (buf', off, n) => (from_moments (firstn (Z.to_nat n) (skipn (Z.to_nat off) buf')), inl 0)
  end.
