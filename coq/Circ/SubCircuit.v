(* C12 — CircuitOperation: fields, the transformations the implementation pushes onto nested operations, and
   mapped_circuit / unrolling.  Model only (no proofs), in the shape of cirq/circuits/circuit_operation.py:
     _mapped_any_loop      qubit map -> inverse for negative repetitions -> key map -> parameters
     _mapped_single_loop   rescope with the repetition id, then with (parent_path, extern_keys)
     mapped_circuit        repetition ids vs plain repetition, deep recursion through Circuit.map_operations/zip
     with_qubit_mapping / with_measurement_key_mapping / with_params / repeat(-1) / _with_rescoped_keys_
   and of Circuit/Moment._with_rescoped_keys_ (bindable keys accumulate moment by moment), Circuit._control_keys_,
   Circuit.__pow__(-1), Circuit.zip.
   Operations other than CircuitOperation are abstract leaves: an identifier, an inversion flag, qubits, measurement
   keys, classical conditions, parameters. *)
From Coq Require Import ZArith List Bool String.
From VF Require Import Circ.Keys.
Import ListNotations.
Open Scope Z_scope.

(* ---- results: ValueError (any rejected input) and fuel exhaustion are distinct ---- *)
Inductive res (A : Type) := Ok (a : A) | ErrValue | ErrFuel.
Arguments Ok {A} a. Arguments ErrValue {A}. Arguments ErrFuel {A}.
Definition bind {A B} (r : res A) (f : A -> res B) : res B :=
  match r with Ok a => f a | ErrValue => ErrValue | ErrFuel => ErrFuel end.
Notation "'do' x <- r ; k" := (bind r (fun x => k)) (at level 200, x ident, r at level 100, k at level 200).
Fixpoint mapM {A B} (f : A -> res B) (l : list A) : res (list B) :=
  match l with
  | [] => Ok []
  | x :: r => do y <- f x; do ys <- mapM f r; Ok (y :: ys)
  end.

(* ---- parameters ---- *)
Inductive pval := PSym (s : string) | PVal (v : Z).          (* a symbol, or a number (in units fixed by the harness) *)
Definition pmap := list (string * pval).
Fixpoint plookup (m : pmap) (s : string) : option pval :=
  match m with [] => None | (a, b) :: r => if String.eqb a s then Some b else plookup r s end.
(* ParamResolver.value_of(recursive=False) on a symbol or number *)
Definition presolve (m : pmap) (p : pval) : pval :=
  match p with PSym s => match plookup m s with Some v => v | None => p end | PVal _ => p end.

Inductive rep := RInt (n : Z) | RSym (neg : bool) (s : string).   (* repetitions: integer, or +-symbol *)

(* ---- operations ---- *)
Record leaf := Leaf { uid : Z; sgn : bool; lqs : list Z; lmk : list mkey; lcs : list cond; lps : list pval }.

Record subf := SubF {
  reps : rep; ids : option (list string); use_ids : bool;
  qm : list (Z * Z); km : kmap; pm : pmap;
  ppath : list string; ext : list mkey; until : option cond }.

Inductive op :=
| OLeaf (l : leaf)
| OSub (c : list (list op)) (f : subf).       (* CircuitOperation: moments of the wrapped FrozenCircuit + fields *)

Definition circ := list (list op).

Definition set_reps f r := SubF r (ids f) (use_ids f) (qm f) (km f) (pm f) (ppath f) (ext f) (until f).
Definition set_ids f i := SubF (reps f) i (use_ids f) (qm f) (km f) (pm f) (ppath f) (ext f) (until f).
Definition set_qm f m := SubF (reps f) (ids f) (use_ids f) m (km f) (pm f) (ppath f) (ext f) (until f).
Definition set_km f m := SubF (reps f) (ids f) (use_ids f) (qm f) m (pm f) (ppath f) (ext f) (until f).
Definition set_pm f m := SubF (reps f) (ids f) (use_ids f) (qm f) (km f) m (ppath f) (ext f) (until f).
Definition set_scope f p e := SubF (reps f) (ids f) (use_ids f) (qm f) (km f) (pm f) p e (until f).

(* ---- small list utilities ---- *)
Fixpoint zinsert (x : Z) (l : list Z) : list Z :=
  match l with
  | [] => [x]
  | y :: r => if x <? y then x :: l else if x =? y then l else y :: zinsert x r
  end.
Definition zsort (l : list Z) : list Z := fold_right zinsert [] l.        (* sorted, duplicates removed *)
Fixpoint zlookup (m : list (Z * Z)) (q : Z) : Z :=
  match m with [] => q | (a, b) :: r => if a =? q then b else zlookup r q end.
Fixpoint str_in (s : string) (l : list string) : bool :=
  match l with [] => false | x :: r => String.eqb s x || str_in s r end.
Fixpoint str_nodup (l : list string) : list string :=
  match l with [] => [] | x :: r => if str_in x r then str_nodup r else x :: str_nodup r end.
Definition isnil {A} (l : list A) : bool := match l with [] => true | _ => false end.
Fixpoint repeat_app {A} (n : nat) (l : list A) : list A := match n with O => [] | S k => l ++ repeat_app k l end.

(* ---- structural attributes (computed from the fields, as the implementation's protocol methods do) ---- *)

(* op.qubits: a leaf's qubits in order; CircuitOperation.qubits = [qubit_map.get(q, q) for q in sorted(all_qubits)] *)
Fixpoint op_qubits (o : op) : list Z :=
  match o with
  | OLeaf l => lqs l
  | OSub c f => map (zlookup (qm f)) (zsort (List.concat (map (fun m => List.concat (map op_qubits m)) c)))
  end.
Definition circ_qubits (c : circ) : list Z := zsort (List.concat (map (fun m => List.concat (map op_qubits m)) c)).

(* CircuitOperation._is_measurement_ = circuit._is_measurement_() (whatever the repetitions are) *)
Fixpoint op_is_meas (o : op) : bool :=
  match o with
  | OLeaf l => negb (isnil (lmk l))
  | OSub c f => existsb (fun m => existsb op_is_meas m) c
  end.
Definition circ_is_meas (c : circ) : bool := existsb (fun m => existsb op_is_meas m) c.

(* CircuitOperation._measurement_key_objs: keys of the wrapped circuit, prefixed by each repetition id (when ids
   are in use), prefixed by the parent path, then mapped *)
Definition sub_keys (f : subf) (ck : list mkey) : list mkey :=
  let ck1 := match ids f with
             | Some l => if negb (isnil ck) && use_ids f
                         then List.concat (map (fun id => map (key_prefix [id]) ck) l) else ck
             | None => ck end in
  map (key_map (km f)) (map (key_prefix (ppath f)) ck1).
Fixpoint op_mkeys (o : op) : list mkey :=
  match o with
  | OLeaf l => lmk l
  | OSub c f => sub_keys f (key_nodup (List.concat (map (fun m => List.concat (map op_mkeys m)) c)))
  end.
Definition moment_mkeys (m : list op) : list mkey := List.concat (map op_mkeys m).
Definition circ_mkeys (c : circ) : list mkey := key_nodup (List.concat (map moment_mkeys c)).

(* names of all keys an operation touches (measured or read), after the key maps on the way up:
   {k.name for k in measurement_keys_touched(op)} *)
Definition conds_keys (cs : list cond) : list mkey := List.concat (map cond_keys cs).
(* the keys of a repeat_until condition are control keys of the loop (minus its own measurements): their names count
   as touched, also when the loop body never mentions them (a key measured in an enclosing scope) *)
Definition until_names (f : subf) : list string :=
  match until f with Some u => map kname (cond_keys u) | None => [] end.
Fixpoint op_names (o : op) : list string :=
  match o with
  | OLeaf l => map kname (lmk l) ++ map kname (conds_keys (lcs l))
  | OSub c f => map (name_map (km f)) (List.concat (map (fun m => List.concat (map op_names m)) c) ++ until_names f)
  end.
Definition circ_names (c : circ) : list string := List.concat (map (fun m => List.concat (map op_names m)) c).

(* parameter names: a leaf's symbols; CircuitOperation: repetitions + names of the wrapped circuit pushed through
   the resolver once *)
Definition pval_names (p : pval) : list string := match p with PSym s => [s] | PVal _ => [] end.
Definition rep_names (r : rep) : list string := match r with RSym _ s => [s] | RInt _ => [] end.
Fixpoint op_pnames (o : op) : list string :=
  match o with
  | OLeaf l => List.concat (map pval_names (lps l))
  | OSub c f => rep_names (reps f)
                ++ List.concat (map (fun s => pval_names (presolve (pm f) (PSym s)))
                               (List.concat (map (fun m => List.concat (map op_pnames m)) c)))
  end.
Definition circ_pnames (c : circ) : list string := List.concat (map (fun m => List.concat (map op_pnames m)) c).

(* can the operation be inverted?  measurements and classically controlled operations cannot; a CircuitOperation
   is inverted by repeat(-1), whose constructor inverts the wrapped circuit when the new count is negative *)
Fixpoint op_invertible (o : op) : bool :=
  match o with
  | OLeaf l => isnil (lmk l) && isnil (lcs l)
  | OSub c f => match until f with
                | Some _ => false         (* a repeat_until loop is never inverted, whatever its body holds *)
                | None => match reps f with
                          | RInt n => if 0 <? n then forallb (fun m => forallb op_invertible m) c else true
                          | RSym _ _ => true
                          end
                end
  end.

(* ---- the one-level transformations ---- *)

(* Operation.transform_qubits; CircuitOperation: with_qubits -> with_qubit_mapping composes the dicts over the
   qubits of the wrapped circuit and drops identity entries *)
Fixpoint qmap_compose (dom : list Z) (m : list (Z * Z)) (g : Z -> Z) : list (Z * Z) :=
  match dom with
  | [] => []
  | q :: r => let q' := g (zlookup m q) in
              if q' =? q then qmap_compose r m g else (q, q') :: qmap_compose r m g
  end.
Definition t_qmap (g : Z -> Z) (o : op) : op :=
  match o with
  | OLeaf l => OLeaf (Leaf (uid l) (sgn l) (map g (lqs l)) (lmk l) (lcs l) (lps l))
  | OSub c f => OSub c (set_qm f (qmap_compose (circ_qubits c) (qm f) g))
  end.

(* op ** -1 *)
Definition rep_neg (r : rep) : rep := match r with RInt n => RInt (- n) | RSym b s => RSym (negb b) s end.
Definition t_inv (o : op) : res op :=
  match o with
  | OLeaf l => if isnil (lmk l) && isnil (lcs l)
               then Ok (OLeaf (Leaf (uid l) (negb (sgn l)) (lqs l) (lmk l) (lcs l) (lps l))) else ErrValue
  | OSub c f => match until f with
                | Some _ => ErrValue      (* repeat(-1) of a loop: "Cannot use repetitions with repeat_until" *)
                | None => if op_invertible o then Ok (OSub c (set_reps f (rep_neg (reps f)))) else ErrValue
                end
  end.

(* with_measurement_key_mapping *)
Section WithFlags.
Variables keepK keepM : bool.

Definition t_kmap (m : kmap) (o : op) : op :=
  match o with
  | OLeaf l => OLeaf (Leaf (uid l) (sgn l) (lqs l) (map (key_map m) (lmk l))
                           (map (cond_key_map keepK keepM m) (lcs l)) (lps l))
  | OSub c f => OSub c (set_km f (kmap_compose (str_nodup (circ_names c ++ until_names f)) (km f) m))
  end.
(* what CircuitOperation.with_measurement_key_mapping does today: the new dict is composed over the names the wrapped
   CIRCUIT touches only, so a repeat_until key the body never mentions keeps its old name (defect F20) *)
Definition t_kmap_body_only (m : kmap) (o : op) : op :=
  match o with
  | OLeaf l => t_kmap m o
  | OSub c f => OSub c (set_km f (kmap_compose (str_nodup (circ_names c)) (km f) m))
  end.
(* the names the loop condition reads: its keys pushed through the operation's own key map *)
Definition until_read_names (f : subf) : list string := map (name_map (km f)) (until_names f).
(* Moment._with_measurement_key_mapping_ only touches operations that touch keys *)
Definition moment_kmap (m : kmap) (mo : list op) : list op :=
  map (fun o => if isnil (op_names o) then o else t_kmap m o) mo.

(* resolve_parameters(recursive=False); CircuitOperation._resolve_parameters_ = with_params + repetitions *)
Fixpoint pmap_compose (dom : list string) (m1 m2 : pmap) : pmap :=
  match dom with
  | [] => []
  | k :: r => let v := presolve m2 (presolve m1 (PSym k)) in
              match v with
              | PSym s => if String.eqb s k then pmap_compose r m1 m2 else (k, v) :: pmap_compose r m1 m2
              | PVal _ => (k, v) :: pmap_compose r m1 m2
              end
  end.
Definition punit : Z := 8.      (* PVal v stands for the number v / 8 (vf/checks/c12.py Vocab.UNIT) *)
Definition rep_resolve (m : pmap) (r : rep) : rep :=
  match r with
  | RInt _ => r
  | RSym b s => match plookup m s with
                | Some (PVal v) => RInt (if b then - (v / punit) else v / punit)
                | Some (PSym s') => RSym b s'
                | None => r
                end
  end.
Definition t_resolve (m : pmap) (o : op) : op :=
  match o with
  | OLeaf l => OLeaf (Leaf (uid l) (sgn l) (lqs l) (lmk l) (lcs l) (map (presolve m) (lps l)))
  | OSub c f => OSub c (set_reps (set_pm f (pmap_compose (str_nodup (circ_pnames c)) (pm f) m))
                                 (rep_resolve m (reps f)))
  end.

(* with_rescoped_keys(op, path, bindable_keys) *)
Definition t_rescope (path : list string) (b : list mkey) (o : op) : op :=
  match o with
  | OLeaf l => OLeaf (Leaf (uid l) (sgn l) (lqs l) (map (key_prefix path) (lmk l))
                           (map (cond_rescope keepK keepM path b) (lcs l)) (lps l))
  | OSub c f => OSub c (set_scope f (path ++ ppath f)
                          (filter (fun k => Nat.leb (List.length (kpath k)) (List.length path)) b
                           ++ map (key_prefix path) (ext f)))
  end.
(* Circuit._with_rescoped_keys_: every operation of a moment sees the keys bound before the moment *)
Fixpoint circ_rescope (path : list string) (b : list mkey) (c : circ) : circ :=
  match c with
  | [] => []
  | m :: r => let m' := map (t_rescope path b) m in
              m' :: circ_rescope path (b ++ moment_mkeys m') r
  end.

(* Circuit ** -1: moments reversed, every operation inverted *)
Definition circ_inv (c : circ) : res circ := mapM (fun m => mapM t_inv m) (rev c).

(* _mapped_any_loop *)
Definition rep_negative (r : rep) : bool := match r with RInt n => n <? 0 | RSym _ _ => false end.
Definition any_loop (c : circ) (f : subf) : res circ :=
  let c1 := if isnil (qm f) then c else map (map (t_qmap (zlookup (qm f)))) c in
  do c2 <- (if rep_negative (reps f) then circ_inv c1 else Ok c1);
  let c3 := if isnil (km f) then c2 else map (moment_kmap (km f)) c2 in
  Ok (if isnil (pm f) then c3 else map (map (t_resolve (pm f))) c3).

(* _mapped_single_loop(repetition_id) *)
Definition single_loop (c : circ) (f : subf) (rid : option string) : res circ :=
  do a <- any_loop c f;
  let a1 := match rid with Some r => circ_rescope [r] [] a | None => a end in
  Ok (circ_rescope (ppath f) (ext f) a1).

(* Circuit.zip (left aligned): moment k of the result is the concatenation of the k-th moments *)
Fixpoint zip2 (a b : circ) : circ :=
  match a, b with
  | [], _ => b
  | _, [] => a
  | x :: a', y :: b' => (x ++ y) :: zip2 a' b'
  end.
Definition zip_all (l : list circ) : circ := fold_right zip2 [] l.

(* mapped_circuit(deep); fuel bounds the nesting depth (the recursion is on transformed operations) *)
Fixpoint mapped_circuit (fuel : nat) (deep : bool) (c : circ) (f : subf) : res circ :=
  match fuel with
  | O => ErrFuel
  | S n =>
    match until f, reps f with
    | Some _, _ => ErrValue
    | None, RSym _ _ => ErrValue
    | None, RInt r =>
      if r =? 0 then Ok [] else
      do body <- (match ids f with
                  | Some l => if use_ids f && circ_is_meas c
                              then do ls <- mapM (fun id => single_loop c f (Some id)) l; Ok (List.concat ls)
                              else do s <- single_loop c f None; Ok (repeat_app (Z.abs_nat r) s)
                  | None => do s <- single_loop c f None; Ok (repeat_app (Z.abs_nat r) s)
                  end);
      if deep then
        do ms <- mapM (fun m => do cs <- mapM (fun o => match o with
                                                       | OLeaf _ => Ok [[o]]
                                                       | OSub c' f' => mapped_circuit n true c' f'
                                                       end) m;
                                Ok (zip_all cs)) body;
        Ok (List.concat ms)
      else Ok body
    end
  end.

(* Circuit._control_keys_ over operations whose own control keys are `ck o` *)
Fixpoint scan_ckeys (ck : op -> res (list mkey)) (ops : list op) (measured : list mkey) : res (list mkey) :=
  match ops with
  | [] => Ok []
  | o :: r => do ks <- ck o;
              do rest <- scan_ckeys ck r (measured ++ op_mkeys o);
              Ok (filter (fun k => negb (key_in k measured)) ks ++ rest)
  end.

(* the mapped repeat_until condition (_mapped_repeat_until, without parameters) *)
Definition mapped_until (f : subf) (own_keys : list mkey) : option cond :=
  match until f with
  | None => None
  | Some u => let u1 := if isnil (km f) then u else cond_key_map keepK keepM (km f) u in
              Some (cond_rescope keepK keepM (ppath f) (ext f ++ own_keys) u1)
  end.

(* a classically controlled leaf with condition u on qubits qs (uid 5 is X in the harness vocabulary): the probe the
   harness appends to a loop body to observe, in a loop-free circuit, what the loop condition reads *)
Definition probe_leaf (u : cond) (qs : list Z) : op := OLeaf (Leaf 5 false qs [] [u] []).

(* CircuitOperation._control_keys *)
Fixpoint op_ckeys (fuel : nat) (o : op) : res (list mkey) :=
  match fuel with
  | O => ErrFuel
  | S n =>
    match o with
    | OLeaf l => Ok (conds_keys (lcs l))
    | OSub c f =>
      do raw <- scan_ckeys (op_ckeys n) (List.concat c) [];
      do ks <- (if isnil raw then Ok [] else
                do s <- single_loop c f None; scan_ckeys (op_ckeys n) (List.concat s) []);
      Ok (ks ++ match mapped_until f (op_mkeys o) with
                | Some u => filter (fun k => negb (key_in k (op_mkeys o))) (cond_keys u)
                | None => [] end)
    end
  end.
End WithFlags.

(* nesting depth *)
Fixpoint op_depth (o : op) : nat :=
  match o with
  | OLeaf _ => O
  | OSub c f => S (fold_right Nat.max O (map (fun m => fold_right Nat.max O (map op_depth m)) c))
  end.

(* the domain of the key/qubit-set theorems: every repetition count in the nest is a non-zero integer (a
   zero-repetition operation reports the keys of its body although its unrolled form is empty) and there are as
   many repetition ids as repetitions (enforced by the constructor) *)
Definition ids_ok (f : subf) : bool :=
  match reps f with
  | RInt r => negb (r =? 0) && match ids f with Some l => Nat.eqb (List.length l) (Z.abs_nat r) | None => true end
  | RSym _ _ => false
  end.
Fixpoint op_ok (o : op) : bool :=
  match o with
  | OLeaf _ => true
  | OSub c f => ids_ok f && forallb (fun m => forallb op_ok m) c
  end.

(* ---- flat view of an unrolled circuit ---- *)
Fixpoint circ_leaves (c : circ) : list leaf :=
  match c with
  | [] => []
  | m :: r => (fix go (l : list op) : list leaf :=
                 match l with
                 | [] => []
                 | OLeaf x :: t => x :: go t
                 | OSub _ _ :: t => go t
                 end) m ++ circ_leaves r
  end.
Definition keys_flat (c : circ) : list mkey := List.concat (map lmk (circ_leaves c)).
Definition qubits_flat (c : circ) : list Z := zsort (List.concat (map lqs (circ_leaves c))).

(* ---- boolean equalities for the correspondence check ---- *)
Definition pval_eqb (a b : pval) : bool :=
  match a, b with PSym s, PSym t => String.eqb s t | PVal v, PVal w => v =? w | _, _ => false end.
Fixpoint list_eqb' {A} (e : A -> A -> bool) (a b : list A) : bool :=
  match a, b with [], [] => true | x :: a', y :: b' => e x y && list_eqb' e a' b' | _, _ => false end.
Definition rep_eqb (a b : rep) : bool :=
  match a, b with
  | RInt n, RInt m => n =? m
  | RSym b1 s, RSym b2 t => Bool.eqb b1 b2 && String.eqb s t
  | _, _ => false end.
(* a leaf with a numeric parameter is compared by its effective value: sign * v *)
Definition leaf_canon (l : leaf) : leaf :=
  if sgn l && forallb (fun p => match p with PVal _ => true | PSym _ => false end) (lps l) && negb (isnil (lps l))
  then Leaf (uid l) false (lqs l) (lmk l) (lcs l) (map (fun p => match p with PVal v => PVal (- v) | _ => p end) (lps l))
  else l.
Definition leaf_eqb (a0 b0 : leaf) : bool :=
  let a := leaf_canon a0 in let b := leaf_canon b0 in
  (uid a =? uid b) && Bool.eqb (sgn a) (sgn b) && list_eqb' Z.eqb (lqs a) (lqs b) && keys_eqb (lmk a) (lmk b)
  && list_eqb' cond_eqb (lcs a) (lcs b) && list_eqb' pval_eqb (lps a) (lps b).
Definition optl_eqb {A} (e : A -> A -> bool) (a b : option A) : bool :=
  match a, b with Some x, Some y => e x y | None, None => true | _, _ => false end.
Definition zpair_eqb (a b : Z * Z) : bool := (fst a =? fst b) && (snd a =? snd b).
Definition spair_eqb (a b : string * string) : bool := String.eqb (fst a) (fst b) && String.eqb (snd a) (snd b).
Definition ppair_eqb (a b : string * pval) : bool := String.eqb (fst a) (fst b) && pval_eqb (snd a) (snd b).
(* dicts are compared as sets of pairs *)
Definition set_eqb {A} (e : A -> A -> bool) (a b : list A) : bool :=
  forallb (fun x => existsb (e x) b) a && forallb (fun x => existsb (e x) a) b.
Definition subf_eqb (a b : subf) : bool :=
  rep_eqb (reps a) (reps b) && optl_eqb (list_eqb' String.eqb) (ids a) (ids b) && Bool.eqb (use_ids a) (use_ids b)
  && set_eqb zpair_eqb (qm a) (qm b) && set_eqb spair_eqb (km a) (km b) && set_eqb ppair_eqb (pm a) (pm b)
  && list_eqb' String.eqb (ppath a) (ppath b) && keyset_eqb (ext a) (ext b) && optl_eqb cond_eqb (until a) (until b).
Fixpoint op_eqb (a b : op) : bool :=
  match a, b with
  | OLeaf x, OLeaf y => leaf_eqb x y
  | OSub c f, OSub c' f' =>
      subf_eqb f f' &&
      (fix ceq (x y : circ) : bool :=
         match x, y with
         | [], [] => true
         | m :: x', m' :: y' =>
             (fix meq (p q : list op) : bool :=
                match p, q with
                | [], [] => true
                | o :: p', o' :: q' => op_eqb o o' && meq p' q'
                | _, _ => false end) m m' && ceq x' y'
         | _, _ => false end) c c'
  | _, _ => false
  end.
Definition moment_eqb (a b : list op) : bool := list_eqb' op_eqb a b.
Definition circ_eqb (a b : circ) : bool := list_eqb' moment_eqb a b.
Definition res_eqb {A} (e : A -> A -> bool) (a b : res A) : bool :=
  match a, b with Ok x, Ok y => e x y | ErrValue, ErrValue => true | ErrFuel, ErrFuel => true | _, _ => false end.

(* ---- repeat_until: CircuitOperation._act_on_ runs the mapped single loop, then tests the mapped condition on the
   classical data, and stops at the first iteration after which it holds (always at least one iteration).
   `body` is the effect of one pass of the loop on the simulation state, `cond` the resolved condition. ---- *)
Section Until.
  Variable St : Type.
  Variable body : St -> St.
  Variable cond : St -> bool.
  Fixpoint act_until (fuel : nat) (s : St) : res St :=
    match fuel with
    | O => ErrFuel
    | S n => let s' := body s in if cond s' then Ok s' else act_until n s'
    end.
End Until.

(* ---- compositional semantics of the operation sequence: which leaf acts where, inverted or not, moment by moment.
   `inv` and `g` are the inversion and the qubit relabelling inherited from the enclosing operations; keys,
   conditions and parameters are erased (they are covered by the key-set theorems and the correspondence). ---- *)
Definition erase_leaf (l : leaf) : leaf := Leaf (uid l) (sgn l) (lqs l) [] [] [].
Definition strip_op (o : op) : op := match o with OLeaf l => OLeaf (erase_leaf l) | OSub _ _ => o end.
Definition strip_circ (c : circ) : circ := map (map strip_op) c.

Fixpoint ops_nested (inv : bool) (g : Z -> Z) (o : op) : circ :=
  match o with
  | OLeaf l => [[OLeaf (Leaf (uid l) (xorb (sgn l) inv) (map g (lqs l)) [] [] [])]]
  | OSub c f =>
      match reps f with
      | RInt r =>
          let inv' := xorb inv (r <? 0) in
          let g' := fun q => g (zlookup (qm f) q) in
          let ms := map (fun m => zip_all (map (ops_nested inv' g') m)) c in
          repeat_app (Z.abs_nat r) (List.concat (if inv' then rev ms else ms))
      | RSym _ _ => []
      end
  end.
