(* C05 proofs, part 3: the placement cache.  Whenever it agrees with the summary recomputed from
   the moments, a cached placement succeeds and the updated cache agrees with the new moments. *)
From Coq Require Import ZArith List Bool Arith Lia.
From VF Require Import Circ.Moments Circ.Placement Circ.Insert Circ.MomentsProofs.
Import ListNotations.
Open Scope Z_scope.

Definition dflt (o : option nat) : nat := match o with Some i => i | None => O end.

Lemma memz_app x a b : memz x (a ++ b) = memz x a || memz x b.
Proof. unfold memz. apply existsb_app. Qed.

Lemma memz_cons x y l : memz x (y :: l) = Z.eqb x y || memz x l.
Proof. reflexivity. Qed.

(* ---- last_index ---- *)
Lemma last_index_bounds sel k c : forall base i,
  last_index sel k c base = Some i -> (base <= i < base + length c)%nat.
Proof.
  induction c as [|m r IH]; intros base i H; simpl in H; [discriminate|].
  destruct (last_index sel k r (S base)) as [j|] eqn:E.
  - injection H as <-. apply IH in E. simpl. lia.
  - destruct (memz k (sel m)); [|discriminate]. injection H as <-. simpl. lia.
Qed.

Lemma last_index_app_single sel k m c : forall base,
  last_index sel k (c ++ [m]) base = if memz k (sel m) then Some (base + length c)%nat else last_index sel k c base.
Proof.
  induction c as [|y r IH]; intros base; simpl.
  - rewrite Nat.add_0_r. destruct (memz k (sel m)); reflexivity.
  - rewrite IH. destruct (memz k (sel m)).
    + f_equal. lia.
    + reflexivity.
Qed.

Lemma last_index_replace sel k m m' (x : bool) c : forall j base,
  nth_error c j = Some m -> memz k (sel m') = memz k (sel m) || x ->
  last_index sel k (replace_nth j m' c) base =
    if x then Some (Nat.max (base + j) (dflt (last_index sel k c base))) else last_index sel k c base.
Proof.
  induction c as [|y r IH]; intros j base Hn Hm; [destruct j; discriminate|].
  destruct j as [|j]; simpl in Hn.
  - injection Hn as ->. simpl. destruct (last_index sel k r (S base)) as [i|] eqn:E.
    + apply last_index_bounds in E. destruct x; [cbn [dflt]; f_equal; lia|reflexivity].
    + rewrite Hm. destruct (memz k (sel m)); destruct x; cbn [orb dflt]; try reflexivity; f_equal; lia.
  - simpl. rewrite (IH j (S base) Hn Hm). destruct x; [|reflexivity].
    destruct (last_index sel k r (S base)) as [i|] eqn:E; cbn [dflt].
    + f_equal. lia.
    + destruct (memz k (sel y)); cbn [dflt]; f_equal; lia.
Qed.

Lemma last_index_ge sel k m c : forall j base,
  nth_error c j = Some m -> memz k (sel m) = true ->
  exists i, last_index sel k c base = Some i /\ (base + j <= i)%nat.
Proof.
  induction c as [|y r IH]; intros j base Hn Hm; [destruct j; discriminate|].
  destruct j as [|j]; simpl in Hn.
  - injection Hn as ->. simpl. destruct (last_index sel k r (S base)) as [i|] eqn:E.
    + apply last_index_bounds in E. exists i. split; [reflexivity|lia].
    + rewrite Hm. exists base. split; [reflexivity|lia].
  - simpl. destruct (IH j (S base) Hn Hm) as [i [Hi Hle]]. rewrite Hi. exists i. split; [reflexivity|lia].
Qed.

(* ---- dictionary updates ---- *)
Lemma lookup_upd_all k v ks : forall m, lookup k (upd_all ks v m) = if memz k ks then Some v else lookup k m.
Proof.
  unfold upd_all. induction ks as [|x r IH]; intros m; simpl; [reflexivity|].
  rewrite IH. unfold upd. simpl. destruct (memz k r); [rewrite orb_true_r; reflexivity|].
  rewrite orb_false_r. destruct (Z.eqb k x); reflexivity.
Qed.

Lemma lookup_upd_max k v ks : forall m,
  lookup k (upd_max ks v m) = if memz k ks then Some (Nat.max v (dflt (lookup k m))) else lookup k m.
Proof.
  unfold upd_max. induction ks as [|x r IH]; intros m; simpl; [reflexivity|].
  rewrite IH. unfold upd. simpl. destruct (Z.eqb_spec k x) as [->|Hne].
  - simpl. fold (dflt (lookup x m)). destruct (memz x r); f_equal. simpl. lia.
  - simpl. destruct (memz k r); reflexivity.
Qed.

Lemma after_le_max m k ks : In k ks -> (after m k <= max_after m ks)%nat.
Proof.
  induction ks as [|x r IH]; intros H; [contradiction|]. simpl. destruct H as [->|H]; [lia|].
  specialize (IH H). lia.
Qed.

Lemma max_after_le m ks n : (forall k, after m k <= n)%nat -> (max_after m ks <= n)%nat.
Proof. intros H. induction ks as [|x r IH]; simpl; [lia|]. specialize (H x). lia. Qed.

Lemma insert_at_length {A} (x : A) l : insert_at (length l) x l = l ++ [x].
Proof. induction l as [|y r IH]; simpl; [reflexivity|rewrite IH; reflexivity]. Qed.

Lemma replace_nth_length {A} n (x : A) l : length (replace_nth n x l) = length l.
Proof. revert l. induction n as [|n IH]; intros [|y r]; simpl; try reflexivity. rewrite IH. reflexivity. Qed.

Lemma insert_at_length_S {A} n (x : A) l : length (insert_at n x l) = S (length l).
Proof. revert l. induction n as [|n IH]; intros [|y r]; simpl; try reflexivity. rewrite IH. reflexivity. Qed.

Lemma after_bound sel m c k : (forall x, lookup x m = last_index sel x c 0) -> (after m k <= length c)%nat.
Proof.
  intros H. unfold after. rewrite H. destruct (last_index sel k c 0) as [i|] eqn:E; [|lia].
  apply last_index_bounds in E. lia.
Qed.

(* ---- the central lemma: one cached placement ---- *)
Lemma cache_place_ok pc ms it idx pc' :
  cache_matches pc ms -> cache_append pc it = (idx, pc') ->
  exists ms', place ms idx it = inl ms' /\ cache_matches pc' ms'.
Proof.
  intros [Hlen [Hq [Hm Hc]]] Ha. unfold cache_append in Ha. injection Ha as <- <-.
  destruct it as [o|m].
  - (* an operation *)
    set (idx := gea_index pc (IOp o)).
    assert (Hq_le : forall q, In q (qs o) -> (after (qi pc) q <= idx)%nat).
    { intros q Hin. unfold idx, gea_index. pose proof (after_le_max (qi pc) q (qs o) Hin). lia. }
    assert (Hm_le : forall k, In k (mk o) -> (after (mi pc) k <= idx)%nat).
    { intros k Hin. unfold idx, gea_index. pose proof (after_le_max (mi pc) k (mk o) Hin). lia. }
    assert (Hcm_le : forall k, In k (mk o) -> (after (ci pc) k <= idx)%nat).
    { intros k Hin. unfold idx, gea_index. pose proof (after_le_max (ci pc) k (mk o) Hin). lia. }
    assert (Hidx : (idx <= length ms)%nat).
    { unfold idx, gea_index.
      pose proof (max_after_le (qi pc) (qs o) (length ms) (fun k => after_bound mqubits _ _ k Hq)) as H1.
      pose proof (max_after_le (mi pc) (mk o) (length ms) (fun k => after_bound mmkeys _ _ k Hm)) as H2.
      pose proof (max_after_le (ci pc) (mk o) (length ms) (fun k => after_bound mckeys _ _ k Hc)) as H3.
      pose proof (max_after_le (mi pc) (ck o) (length ms) (fun k => after_bound mmkeys _ _ k Hm)) as H4.
      lia. }
    unfold place. simpl it_qubits. simpl it_mkeys. simpl it_ckeys.
    destruct (Nat.eqb_spec idx (length ms)) as [He|Hne].
    + (* a new last moment *)
      exists (ms ++ [[o]]). split; [reflexivity|]. unfold cache_matches. simpl.
      rewrite app_length. simpl. repeat split.
      * lia.
      * intros q. rewrite lookup_upd_all, last_index_app_single. unfold mqubits at 1. simpl. rewrite app_nil_r.
        destruct (memz q (qs o)); [f_equal; lia|apply Hq].
      * intros k. rewrite lookup_upd_all, last_index_app_single. unfold mmkeys at 1. simpl. rewrite app_nil_r.
        destruct (memz k (mk o)); [f_equal; lia|apply Hm].
      * intros k. rewrite lookup_upd_max, last_index_app_single. unfold mckeys at 1. simpl. rewrite app_nil_r.
        destruct (memz k (ck o)); [|apply Hc]. f_equal. rewrite Hc.
        destruct (last_index mckeys k ms 0) as [i|] eqn:E; simpl; [apply last_index_bounds in E|]; lia.
    + (* joins the existing moment idx *)
      assert (Hlt : (idx < length ms)%nat) by lia.
      destruct (nth_error ms idx) as [m|] eqn:En; [|apply nth_error_None in En; lia].
      assert (Hop : operates_on m (qs o) = false).
      { unfold operates_on. apply negb_false_iff. apply disjointb_spec. intros q Hin Hqm.
        apply memz_In in Hqm. destruct (last_index_ge mqubits q m ms idx 0 En Hqm) as [i [Hi Hle]].
        specialize (Hq_le q Hin). unfold after in Hq_le. rewrite Hq, Hi in Hq_le. lia. }
      unfold with_operation. rewrite Hop. eexists. split; [reflexivity|].
      unfold cache_matches. simpl. rewrite replace_nth_length. repeat split.
      * lia.
      * intros q. rewrite lookup_upd_all.
        rewrite (last_index_replace mqubits q m (m ++ [o]) (memz q (qs o)) ms idx 0 En).
        2:{ rewrite mqubits_app, memz_app. unfold mqubits at 2. simpl. rewrite app_nil_r. reflexivity. }
        destruct (memz q (qs o)) eqn:Eq; [|apply Hq]. f_equal. apply memz_In in Eq.
        specialize (Hq_le q Eq). unfold after in Hq_le. rewrite Hq in Hq_le.
        destruct (last_index mqubits q ms 0); simpl; lia.
      * intros k. rewrite lookup_upd_all.
        rewrite (last_index_replace mmkeys k m (m ++ [o]) (memz k (mk o)) ms idx 0 En).
        2:{ unfold mmkeys. rewrite flat_map_app, memz_app. simpl. rewrite app_nil_r. reflexivity. }
        destruct (memz k (mk o)) eqn:Eq; [|apply Hm]. f_equal. apply memz_In in Eq.
        specialize (Hm_le k Eq). unfold after in Hm_le. rewrite Hm in Hm_le.
        destruct (last_index mmkeys k ms 0); simpl; lia.
      * intros k. rewrite lookup_upd_max.
        rewrite (last_index_replace mckeys k m (m ++ [o]) (memz k (ck o)) ms idx 0 En).
        2:{ unfold mckeys. rewrite flat_map_app, memz_app. simpl. rewrite app_nil_r. reflexivity. }
        destruct (memz k (ck o)); [|apply Hc]. rewrite Hc. reflexivity.
  - (* a whole moment goes to the end *)
    simpl gea_index. rewrite Hlen. unfold place. rewrite insert_at_length.
    exists (ms ++ [m]). split; [reflexivity|]. unfold cache_matches. simpl.
    rewrite app_length. simpl. repeat split.
    + lia.
    + intros q. rewrite lookup_upd_all, last_index_app_single. destruct (memz q (mqubits m)); [reflexivity|apply Hq].
    + intros k. rewrite lookup_upd_all, last_index_app_single. destruct (memz k (mmkeys m)); [reflexivity|apply Hm].
    + intros k. rewrite lookup_upd_max, last_index_app_single. destruct (memz k (mckeys m)); [|apply Hc].
      f_equal. rewrite Hc. destruct (last_index mckeys k ms 0) as [i|] eqn:E; simpl; [apply last_index_bounds in E|]; lia.
Qed.
