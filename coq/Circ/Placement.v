(* C05 model, part 2: the placement cache (_PlacementCache, get_earliest_accommodating_moment_index)
   and the summary recomputed from the moments that it has to agree with.  Definitions only. *)
From Coq Require Import ZArith List Bool Arith.
From VF Require Import Circ.Moments.
Import ListNotations.
Open Scope Z_scope.

(* python dicts qubit/key -> greatest moment index; first binding wins (dict update = cons) *)
Definition amap := list (Z * nat).
Fixpoint lookup (k : Z) (m : amap) : option nat :=
  match m with
  | [] => None
  | (k', v) :: r => if Z.eqb k k' then Some v else lookup k r
  end.
Definition upd (k : Z) (v : nat) (m : amap) : amap := (k, v) :: m.

Record pcache := mkpc { qi : amap; mi : amap; ci : amap; plen : nat }.
Definition empty_cache : pcache := mkpc [] [] [] 0.

(* `dict.get(x, -1) + 1` *)
Definition after (m : amap) (k : Z) : nat := match lookup k m with Some i => S i | None => O end.
Definition max_after (m : amap) (ks : list Z) : nat := fold_right (fun k acc => Nat.max (after m k) acc) O ks.

(* what get_earliest_accommodating_moment_index reads of a moment-or-operation *)
Definition it_qubits (it : item) : list Z := match it with IOp o => qs o | IMom m => mqubits m end.
Definition it_mkeys (it : item) : list Z := match it with IOp o => mk o | IMom m => mmkeys m end.
Definition it_ckeys (it : item) : list Z := match it with IOp o => ck o | IMom m => mckeys m end.

(* get_earliest_accommodating_moment_index(mop, qubit_indices, mkey_indices, ckey_indices, length):
   returns the index and the updated dictionaries *)
Definition gea_index (p : pcache) (it : item) : nat :=
  match it with
  | IMom _ => plen p                                   (* last_conflict = length - 1 *)
  | IOp o =>
      Nat.max (max_after (qi p) (qs o))
        (Nat.max (Nat.max (max_after (mi p) (mk o)) (max_after (ci p) (mk o)))
                 (max_after (mi p) (ck o)))
  end.
Definition upd_all (ks : list Z) (v : nat) (m : amap) : amap := fold_left (fun acc k => upd k v acc) ks m.
Definition upd_max (ks : list Z) (v : nat) (m : amap) : amap :=
  fold_left (fun acc k => upd k (Nat.max v (match lookup k acc with Some i => i | None => O end)) acc) ks m.

(* _PlacementCache.append *)
Definition cache_append (p : pcache) (it : item) : nat * pcache :=
  let idx := gea_index p it in
  (idx, mkpc (upd_all (it_qubits it) idx (qi p))
             (upd_all (it_mkeys it) idx (mi p))
             (upd_max (it_ckeys it) idx (ci p))
             (Nat.max (plen p) (S idx))).

(* ---- the summary recomputed from the moments ---- *)
(* greatest index i >= base of a moment of c whose `sel` contains k *)
Fixpoint last_index (sel : moment -> list Z) (k : Z) (c : list moment) (base : nat) : option nat :=
  match c with
  | [] => None
  | m :: r => match last_index sel k r (S base) with
              | Some i => Some i
              | None => if memz k (sel m) then Some base else None
              end
  end.

(* "the cache equals the summary recomputed from the moments" (extensional equality of the dicts) *)
Definition cache_matches (p : pcache) (c : list moment) : Prop :=
  plen p = length c /\
  (forall q, lookup q (qi p) = last_index mqubits q c 0) /\
  (forall k, lookup k (mi p) = last_index mmkeys k c 0) /\
  (forall k, lookup k (ci p) = last_index mckeys k c 0).

(* executable version over a finite universe of names, for examples and the correspondence *)
Definition opt_nat_eqb (a b : option nat) : bool :=
  match a, b with Some x, Some y => Nat.eqb x y | None, None => true | _, _ => false end.
Definition cache_matchesb (univ : list Z) (p : pcache) (c : list moment) : bool :=
  Nat.eqb (plen p) (length c) &&
  forallb (fun q => opt_nat_eqb (lookup q (qi p)) (last_index mqubits q c 0)) univ &&
  forallb (fun k => opt_nat_eqb (lookup k (mi p)) (last_index mmkeys k c 0)) univ &&
  forallb (fun k => opt_nat_eqb (lookup k (ci p)) (last_index mckeys k c 0)) univ.
