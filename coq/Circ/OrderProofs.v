(* C05 proofs, part 6: where the strategies put operations (D5) and the order clauses (D4). *)
From Coq Require Import ZArith List Bool Arith Lia.
From VF Require Import Circ.Moments Circ.Placement Circ.Insert Circ.MomentsProofs Circ.InsertProofs
  Circ.PlacementProofs Circ.CacheProofs.
Import ListNotations.
Open Scope Z_scope.

(* ---- the conflict rule: blocks = "some operation of the moment conflicts" = what _can_add_op_at tests ---- *)
Lemma not_disjoint_spec a b : negb (disjointb a b) = true <-> exists z, In z a /\ In z b.
Proof.
  rewrite negb_true_iff. split.
  - intros H. destruct (existsb (fun z => memz z b) a) eqn:E.
    + apply existsb_exists in E as [z [Hz Hm]]. apply memz_In in Hm. exists z. split; assumption.
    + exfalso. assert (Hd : disjointb a b = true); [|congruence].
      apply disjointb_spec. intros x Hx Hb.
      assert (existsb (fun z => memz z b) a = true) by (apply existsb_exists; exists x; split; [exact Hx|apply memz_In; exact Hb]).
      congruence.
  - intros [z [Ha Hb]]. destruct (disjointb a b) eqn:E; [|reflexivity].
    rewrite disjointb_spec in E. exfalso. exact (E z Ha Hb).
Qed.

Lemma disjointb_sym a b : disjointb a b = disjointb b a.
Proof.
  destruct (disjointb a b) eqn:E1; destruct (disjointb b a) eqn:E2; try reflexivity.
  - rewrite disjointb_spec in E1. assert (negb (disjointb b a) = true) by (rewrite E2; reflexivity).
    apply not_disjoint_spec in H as [z [Hb Ha]]. exfalso. exact (E1 z Ha Hb).
  - rewrite disjointb_spec in E2. assert (negb (disjointb a b) = true) by (rewrite E1; reflexivity).
    apply not_disjoint_spec in H as [z [Ha Hb]]. exfalso. exact (E2 z Hb Ha).
Qed.

Lemma disjointb_nil_r a : disjointb a [] = true.
Proof. apply disjointb_spec. intros x _ H. exact H. Qed.

Lemma not_disjoint_flat (sel : opd -> list Z) a m :
  negb (disjointb a (flat_map sel m)) = true <-> exists x, In x m /\ negb (disjointb a (sel x)) = true.
Proof.
  rewrite not_disjoint_spec. split.
  - intros [z [Ha Hz]]. apply in_flat_map in Hz as [x [Hx Hzx]]. exists x. split; [exact Hx|].
    apply not_disjoint_spec. exists z. split; assumption.
  - intros [x [Hx Hn]]. apply not_disjoint_spec in Hn as [z [Ha Hzx]]. exists z. split; [exact Ha|].
    apply in_flat_map. exists x. split; assumption.
Qed.

Theorem blocks_spec m o : blocks m o = true <-> exists x, In x m /\ conflicts x o = true.
Proof.
  unfold blocks, conflicts, operates_on, mqubits, mmkeys, mckeys. rewrite !orb_true_iff. split.
  - intros [[[H|H]|H]|H].
    + apply not_disjoint_flat in H as [x [Hx Hn]]. exists x. split; [exact Hx|]. rewrite Hn. reflexivity.
    + apply not_disjoint_flat in H as [x [Hx Hn]]. exists x. split; [exact Hx|]. rewrite Hn. rewrite !orb_true_r. reflexivity.
    + apply not_disjoint_flat in H as [x [Hx Hn]]. exists x. split; [exact Hx|]. rewrite Hn. rewrite !orb_true_r. reflexivity.
    + rewrite disjointb_sym in H. apply not_disjoint_flat in H as [x [Hx Hn]]. exists x. split; [exact Hx|].
      rewrite disjointb_sym in Hn. rewrite Hn. rewrite !orb_true_r. reflexivity.
  - intros [x [Hx Hc]]. rewrite !orb_true_iff in Hc. destruct Hc as [[[H|H]|H]|H].
    + left. left. left. apply not_disjoint_flat. exists x. split; assumption.
    + left. left. right. apply not_disjoint_flat. exists x. split; assumption.
    + left. right. apply not_disjoint_flat. exists x. split; assumption.
    + right. rewrite disjointb_sym. apply not_disjoint_flat. exists x. split; [exact Hx|]. rewrite disjointb_sym. exact H.
Qed.

Theorem can_add_spec ms i o :
  can_add_op_at ms i o = match nth_error ms i with None => true | Some m => negb (blocks m o) end.
Proof.
  unfold can_add_op_at, blocks. destruct (nth_error ms i) as [m|]; [|reflexivity].
  destruct (operates_on m (qs o)); [reflexivity|]. cbn [orb].
  assert (HA : nonempty (mk o) = false -> disjointb (mk o) (mmkeys m) = true /\ disjointb (mk o) (mckeys m) = true)
    by (destruct (mk o); [intros _; split; reflexivity|discriminate]).
  assert (HB : nonempty (ck o) = false -> disjointb (ck o) (mmkeys m) = true)
    by (destruct (ck o); [intros _; reflexivity|discriminate]).
  rewrite (disjointb_sym (mckeys m) (mk o)).
  destruct (nonempty (mk o)); destruct (nonempty (ck o)); cbn [orb].
  - destruct (disjointb (mk o) (mmkeys m)); destruct (disjointb (ck o) (mmkeys m)); destruct (disjointb (mk o) (mckeys m)); reflexivity.
  - rewrite (HB eq_refl). destruct (disjointb (mk o) (mmkeys m)); destruct (disjointb (mk o) (mckeys m)); reflexivity.
  - destruct (HA eq_refl) as [-> ->]. destruct (disjointb (ck o) (mmkeys m)); reflexivity.
  - destruct (HA eq_refl) as [-> ->]. rewrite (HB eq_refl). reflexivity.
Qed.

(* ---- the two scans ---- *)
Definition free_at (ms : list moment) (o : opd) (j : nat) : Prop := exists m, nth_error ms j = Some m /\ blocks m o = false.
Definition blocked_at (ms : list moment) (o : opd) (j : nat) : Prop := exists m, nth_error ms j = Some m /\ blocks m o = true.

(* earliest_available_moment: just after the last blocking moment before k *)
Lemma eam_loop_spec ms o : forall k, (k <= length ms)%nat ->
  let p := eam_loop ms o k k in
  (p <= k)%nat /\ (forall j, (p <= j < k)%nat -> free_at ms o j) /\ (p = O \/ blocked_at ms o (Nat.pred p)).
Proof.
  induction k as [|k IH]; intros Hk; simpl.
  - split; [lia|]. split; [intros j Hj; lia|left; reflexivity].
  - destruct (nth_error ms k) as [m|] eqn:En; [|apply nth_error_None in En; lia].
    destruct (blocks m o) eqn:Eb.
    + split; [lia|]. split; [intros j Hj; lia|]. right. simpl. exists m. split; assumption.
    + destruct (IH ltac:(lia)) as [H1 [H2 H3]]. split; [lia|]. split; [|exact H3].
      intros j Hj. destruct (Nat.eq_dec j k) as [->|Hne]; [exists m; split; assumption|apply H2; lia].
Qed.

Theorem eam_spec ms o k : (k <= length ms)%nat ->
  let p := earliest_available_moment ms o k in
  (p <= k)%nat /\ (forall j, (p <= j < k)%nat -> free_at ms o j) /\ (p = O \/ blocked_at ms o (Nat.pred p)).
Proof.
  intros Hk. unfold earliest_available_moment. rewrite Nat.min_l by exact Hk. apply eam_loop_spec. exact Hk.
Qed.

(* _latest_available_moment: just before the first blocking moment from k on *)
Lemma lam_loop_spec o : forall suffix pre i, i = Z.of_nat (length pre) ->
  let p := lam_loop suffix o i in
  i - 1 <= p < i + Z.of_nat (length suffix) /\
  (forall j, (length pre <= j)%nat -> Z.of_nat j <= p -> free_at (pre ++ suffix) o j) /\
  (p = i + Z.of_nat (length suffix) - 1 \/ blocked_at (pre ++ suffix) o (Z.to_nat (p + 1))).
Proof.
  induction suffix as [|m r IH]; intros pre i Hi; simpl.
  - split; [lia|]. split; [intros j H1 H2; lia|left; lia].
  - destruct (blocks m o) eqn:Eb.
    + split; [lia|]. split; [intros j H1 H2; lia|]. right. replace (i - 1 + 1) with i by lia.
      exists m. split; [|exact Eb]. subst i. rewrite Nat2Z.id. rewrite nth_error_app2 by lia. rewrite Nat.sub_diag. reflexivity.
    + specialize (IH (pre ++ [m]) (i + 1)). rewrite app_length in IH. simpl in IH.
      destruct (IH ltac:(lia)) as [H1 [H2 H3]]. rewrite <- app_assoc in H2, H3. simpl in H2, H3.
      split; [lia|]. split.
      * intros j Hj1 Hj2. destruct (Nat.eq_dec j (length pre)) as [->|Hne].
        -- exists m. split; [|exact Eb]. rewrite nth_error_app2 by lia. rewrite Nat.sub_diag. reflexivity.
        -- apply H2; lia.
      * destruct H3 as [H3|H3]; [left; lia|right; exact H3].
Qed.

Theorem lam_spec ms o k : (k < length ms)%nat ->
  let p := latest_available_moment ms o k in
  Z.of_nat k - 1 <= p < Z.of_nat (length ms) /\
  (forall j, (k <= j)%nat -> Z.of_nat j <= p -> free_at ms o j) /\
  (p = Z.of_nat (length ms) - 1 \/ blocked_at ms o (Z.to_nat (p + 1))).
Proof.
  intros Hk. unfold latest_available_moment. destruct (Nat.eqb_spec k (length ms)) as [E|E]; [lia|].
  pose proof (lam_loop_spec o (skipn k ms) (firstn k ms) (Z.of_nat k)) as H.
  rewrite firstn_length_le in H by lia. specialize (H eq_refl). rewrite firstn_skipn in H.
  rewrite skipn_length in H. cbv zeta in *. destruct H as [H1 [H2 H3]].
  split; [lia|]. split; [exact H2|]. destruct H3 as [H3|H3]; [left; lia|right; exact H3].
Qed.

(* ==== D5: closed forms for inserting one operation / one Moment ==== *)
Lemma clamp_index_le i n : (clamp_index i n <= n)%nat.
Proof. unfold clamp_index. destruct (0 <=? i); lia. Qed.

Lemma nth_error_insert_at_eq {A} (x : A) l : forall k, (k <= length l)%nat -> nth_error (insert_at k x l) k = Some x.
Proof.
  induction l as [|y r IH]; intros k Hk; destruct k as [|k]; simpl in *; try reflexivity; try lia.
  apply IH. lia.
Qed.
Lemma nth_error_insert_at_lt {A} (x : A) l : forall k j, (j < k)%nat -> (k <= length l)%nat -> nth_error (insert_at k x l) j = nth_error l j.
Proof.
  induction l as [|y r IH]; intros k j Hj Hk; destruct k as [|k]; simpl in *; try lia.
  destruct j as [|j]; simpl; [reflexivity|]. apply IH; lia.
Qed.
Lemma replace_insert_at {A} (x y : A) l : forall k, (k <= length l)%nat -> replace_nth k y (insert_at k x l) = insert_at k y l.
Proof.
  induction l as [|z r IH]; intros k Hk; destruct k as [|k]; simpl in *; try reflexivity; try lia.
  rewrite IH by lia. reflexivity.
Qed.

Lemma with_operation_nil o : with_operation [] o = Some [o].
Proof. unfold with_operation, operates_on. simpl. rewrite disjointb_nil_r. reflexivity. Qed.

Lemma place_on_blank (ms : list moment) k o : (k <= length ms)%nat -> place (insert_at k [] ms) k (IOp o) = inl (insert_at k [o] ms).
Proof.
  intros Hk. unfold place. rewrite insert_at_length_S.
  replace (Nat.eqb k (S (length ms))) with false by (symmetry; apply Nat.eqb_neq; lia).
  rewrite nth_error_insert_at_eq by exact Hk. rewrite with_operation_nil. rewrite replace_insert_at by exact Hk. reflexivity.
Qed.

Lemma group_single it : group_into_moment_compatible [it] = [[it]].
Proof. destruct it; reflexivity. Qed.

(* NEW and NEW_THEN_INLINE: a new moment at the clamped index holding exactly the operation *)
Theorem insert_single_new c i o s : is_new s = true ->
  insert c i [IOp o] s =
    (mkc (insert_at (clamp_index i (length (moms c))) [o] (moms c)) None no_sums,
     inl (Z.of_nat (S (clamp_index i (length (moms c)))))).
Proof.
  intros Hs. pose proof (clamp_index_le i (length (moms c))) as Hk.
  set (k := clamp_index i (length (moms c))) in *.
  pose proof (place_on_blank (moms c) k o Hk) as Hp.
  destruct s; try discriminate; unfold insert; fold k; simpl; unfold do_batch, needs_blank, place_item, determine; simpl.
  Show.
Qed.

(* a Moment is inserted intact at the clamped index, whatever the strategy (no live cache) *)
Theorem insert_single_moment c i m s : cache c = None ->
  exists c', insert c i [IMom m] s = (c', inl (Z.of_nat (S (clamp_index i (length (moms c)))))) /\
             moms c' = insert_at (clamp_index i (length (moms c))) m (moms c).
Proof.
  intros Hc. set (k := clamp_index i (length (moms c))).
  destruct s; unfold insert; fold k; rewrite Hc; simpl;
    repeat match goal with |- context [if ?b then None else None] => replace (if b then None else None) with (@None pcache) by (destruct b; reflexivity) end;
    unfold do_batch, needs_blank, place_item, determine, insert_latest; simpl.
  1-4: eexists; split; [repeat f_equal; lia|reflexivity].
  destruct (Z.max (Z.of_nat k) (-1 + 1) =? -1) eqn:E; [apply Z.eqb_eq in E; lia|].
  eexists. split; [repeat f_equal; lia|reflexivity].
Qed.

(* INLINE: into the moment just before the index when that moment accepts the operation, else a new moment *)
Theorem insert_single_inline c i o :
  let k := clamp_index i (length (moms c)) in
  insert c i [IOp o] INLINE =
    match k with
    | S k' =>
        match nth_error (moms c) k' with
        | Some m => if blocks m o
                    then (mkc (insert_at k [o] (moms c)) None no_sums, inl (Z.of_nat (S k)))
                    else (mkc (replace_nth k' (m ++ [o]) (moms c)) None no_sums, inl (Z.of_nat k))
        | None => (mkc (insert_at k [o] (moms c)) None no_sums, inl (Z.of_nat (S k)))
        end
    | O => (mkc (insert_at O [o] (moms c)) None no_sums, inl 1)
    end.
Proof.
  intros k. pose proof (clamp_index_le i (length (moms c))) as Hk. fold k in Hk.
  unfold insert. fold k. simpl. unfold do_batch, needs_blank. simpl. rewrite can_add_spec. simpl.
  destruct k as [|k']; simpl.
  - unfold place_item, determine. simpl. reflexivity.
  - destruct (nth_error (moms c) k') as [m|] eqn:En; [|apply nth_error_None in En; lia].
    destruct (blocks m o) eqn:Eb; simpl.
    + unfold place_item, determine. simpl.
      pose proof (place_on_blank (moms c) (S k') o Hk) as Hp.
      rewrite Hp. simpl. repeat f_equal; lia.
    + unfold place_item, determine. simpl. unfold place. destruct (Nat.eqb_spec k' (length (moms c))) as [E|_]; [lia|].
      rewrite En. unfold with_operation.
      assert (Ho : operates_on m (qs o) = false).
      { unfold blocks in Eb. destruct (operates_on m (qs o)); [discriminate|reflexivity]. }
      rewrite Ho. simpl. repeat f_equal; lia.
Qed.
