(* C05 proofs, part 6: where the strategies put operations (D5) and the order clauses (D4). *)
From Coq Require Import ZArith List Bool Arith Lia.
From VF Require Import Circ.Moments Circ.Placement Circ.Insert Circ.MomentsProofs Circ.InsertProofs
  Circ.PlacementProofs Circ.CacheProofs.
Import ListNotations.
Open Scope Z_scope.

(* ---- the conflict rule: blocks = "some operation of the moment conflicts" = what _can_add_op_at tests ---- *)
Lemma not_disjoint_spec a b : negb (disjointb a b) = true <-> exists z, In z a /\ In z b.
Proof.
  rewrite negb_true_iff. split.
  - intros H. destruct (existsb (fun z => memz z b) a) eqn:E.
    + apply existsb_exists in E as [z [Hz Hm]]. apply memz_In in Hm. exists z. split; assumption.
    + exfalso. assert (Hd : disjointb a b = true); [|congruence].
      apply disjointb_spec. intros x Hx Hb.
      assert (existsb (fun z => memz z b) a = true) by (apply existsb_exists; exists x; split; [exact Hx|apply memz_In; exact Hb]).
      congruence.
  - intros [z [Ha Hb]]. destruct (disjointb a b) eqn:E; [|reflexivity].
    rewrite disjointb_spec in E. exfalso. exact (E z Ha Hb).
Qed.

Lemma disjointb_sym a b : disjointb a b = disjointb b a.
Proof.
  destruct (disjointb a b) eqn:E1; destruct (disjointb b a) eqn:E2; try reflexivity.
  - rewrite disjointb_spec in E1. assert (negb (disjointb b a) = true) by (rewrite E2; reflexivity).
    apply not_disjoint_spec in H as [z [Hb Ha]]. exfalso. exact (E1 z Ha Hb).
  - rewrite disjointb_spec in E2. assert (negb (disjointb a b) = true) by (rewrite E1; reflexivity).
    apply not_disjoint_spec in H as [z [Ha Hb]]. exfalso. exact (E2 z Hb Ha).
Qed.

Lemma disjointb_nil_r a : disjointb a [] = true.
Proof. apply disjointb_spec. intros x _ H. exact H. Qed.

Lemma not_disjoint_flat (sel : opd -> list Z) a m :
  negb (disjointb a (flat_map sel m)) = true <-> exists x, In x m /\ negb (disjointb a (sel x)) = true.
Proof.
  rewrite not_disjoint_spec. split.
  - intros [z [Ha Hz]]. apply in_flat_map in Hz as [x [Hx Hzx]]. exists x. split; [exact Hx|].
    apply not_disjoint_spec. exists z. split; assumption.
  - intros [x [Hx Hn]]. apply not_disjoint_spec in Hn as [z [Ha Hzx]]. exists z. split; [exact Ha|].
    apply in_flat_map. exists x. split; assumption.
Qed.

Theorem blocks_spec m o : blocks m o = true <-> exists x, In x m /\ conflicts x o = true.
Proof.
  unfold blocks, conflicts, operates_on, mqubits, mmkeys, mckeys. rewrite !orb_true_iff. split.
  - intros [[[H|H]|H]|H].
    + apply not_disjoint_flat in H as [x [Hx Hn]]. exists x. split; [exact Hx|]. rewrite Hn. reflexivity.
    + apply not_disjoint_flat in H as [x [Hx Hn]]. exists x. split; [exact Hx|]. rewrite Hn. rewrite !orb_true_r. reflexivity.
    + apply not_disjoint_flat in H as [x [Hx Hn]]. exists x. split; [exact Hx|]. rewrite Hn. rewrite !orb_true_r. reflexivity.
    + rewrite disjointb_sym in H. apply not_disjoint_flat in H as [x [Hx Hn]]. exists x. split; [exact Hx|].
      rewrite disjointb_sym in Hn. rewrite Hn. rewrite !orb_true_r. reflexivity.
  - intros [x [Hx Hc]]. rewrite !orb_true_iff in Hc. destruct Hc as [[[H|H]|H]|H].
    + left. left. left. apply not_disjoint_flat. exists x. split; assumption.
    + left. left. right. apply not_disjoint_flat. exists x. split; assumption.
    + left. right. apply not_disjoint_flat. exists x. split; assumption.
    + right. rewrite disjointb_sym. apply not_disjoint_flat. exists x. split; [exact Hx|]. rewrite disjointb_sym. exact H.
Qed.

Theorem can_add_spec ms i o :
  can_add_op_at ms i o = match nth_error ms i with None => true | Some m => negb (blocks m o) end.
Proof.
  unfold can_add_op_at, blocks. destruct (nth_error ms i) as [m|]; [|reflexivity].
  destruct (operates_on m (qs o)); [reflexivity|]. cbn [orb].
  assert (HA : nonempty (mk o) = false -> disjointb (mk o) (mmkeys m) = true /\ disjointb (mk o) (mckeys m) = true)
    by (destruct (mk o); [intros _; split; reflexivity|discriminate]).
  assert (HB : nonempty (ck o) = false -> disjointb (ck o) (mmkeys m) = true)
    by (destruct (ck o); [intros _; reflexivity|discriminate]).
  rewrite (disjointb_sym (mckeys m) (mk o)).
  destruct (nonempty (mk o)); destruct (nonempty (ck o)); cbn [orb].
  - destruct (disjointb (mk o) (mmkeys m)); destruct (disjointb (ck o) (mmkeys m)); destruct (disjointb (mk o) (mckeys m)); reflexivity.
  - rewrite (HB eq_refl). destruct (disjointb (mk o) (mmkeys m)); destruct (disjointb (mk o) (mckeys m)); reflexivity.
  - destruct (HA eq_refl) as [-> ->]. destruct (disjointb (ck o) (mmkeys m)); reflexivity.
  - destruct (HA eq_refl) as [-> ->]. rewrite (HB eq_refl). reflexivity.
Qed.

(* ---- the two scans ---- *)
Definition free_at (ms : list moment) (o : opd) (j : nat) : Prop := exists m, nth_error ms j = Some m /\ blocks m o = false.
Definition blocked_at (ms : list moment) (o : opd) (j : nat) : Prop := exists m, nth_error ms j = Some m /\ blocks m o = true.

(* earliest_available_moment: just after the last blocking moment before k *)
Lemma eam_loop_spec ms o : forall k, (k <= length ms)%nat ->
  let p := eam_loop ms o k k in
  (p <= k)%nat /\ (forall j, (p <= j < k)%nat -> free_at ms o j) /\ (p = O \/ blocked_at ms o (Nat.pred p)).
Proof.
  induction k as [|k IH]; intros Hk; simpl.
  - split; [lia|]. split; [intros j Hj; lia|left; reflexivity].
  - destruct (nth_error ms k) as [m|] eqn:En; [|apply nth_error_None in En; lia].
    destruct (blocks m o) eqn:Eb.
    + split; [lia|]. split; [intros j Hj; lia|]. right. simpl. exists m. split; assumption.
    + destruct (IH ltac:(lia)) as [H1 [H2 H3]]. split; [lia|]. split; [|exact H3].
      intros j Hj. destruct (Nat.eq_dec j k) as [->|Hne]; [exists m; split; assumption|apply H2; lia].
Qed.

Theorem eam_spec ms o k : (k <= length ms)%nat ->
  let p := earliest_available_moment ms o k in
  (p <= k)%nat /\ (forall j, (p <= j < k)%nat -> free_at ms o j) /\ (p = O \/ blocked_at ms o (Nat.pred p)).
Proof.
  intros Hk. unfold earliest_available_moment. rewrite Nat.min_l by exact Hk. apply eam_loop_spec. exact Hk.
Qed.

(* _latest_available_moment: just before the first blocking moment from k on *)
Lemma lam_loop_spec o : forall suffix pre i, i = Z.of_nat (length pre) ->
  let p := lam_loop suffix o i in
  i - 1 <= p < i + Z.of_nat (length suffix) /\
  (forall j, (length pre <= j)%nat -> Z.of_nat j <= p -> free_at (pre ++ suffix) o j) /\
  (p = i + Z.of_nat (length suffix) - 1 \/ blocked_at (pre ++ suffix) o (Z.to_nat (p + 1))).
Proof.
  induction suffix as [|m r IH]; intros pre i Hi; simpl.
  - split; [lia|]. split; [intros j H1 H2; lia|left; lia].
  - destruct (blocks m o) eqn:Eb.
    + split; [lia|]. split; [intros j H1 H2; lia|]. right. replace (i - 1 + 1) with i by lia.
      exists m. split; [|exact Eb]. subst i. rewrite Nat2Z.id. rewrite nth_error_app2 by lia. rewrite Nat.sub_diag. reflexivity.
    + specialize (IH (pre ++ [m]) (i + 1)). rewrite app_length in IH. simpl in IH.
      destruct (IH ltac:(lia)) as [H1 [H2 H3]]. rewrite <- app_assoc in H2, H3. simpl in H2, H3.
      split; [lia|]. split.
      * intros j Hj1 Hj2. destruct (Nat.eq_dec j (length pre)) as [->|Hne].
        -- exists m. split; [|exact Eb]. rewrite nth_error_app2 by lia. rewrite Nat.sub_diag. reflexivity.
        -- apply H2; lia.
      * destruct H3 as [H3|H3]; [left; lia|right; exact H3].
Qed.

Theorem lam_spec ms o k : (k < length ms)%nat ->
  let p := latest_available_moment ms o k in
  Z.of_nat k - 1 <= p < Z.of_nat (length ms) /\
  (forall j, (k <= j)%nat -> Z.of_nat j <= p -> free_at ms o j) /\
  (p = Z.of_nat (length ms) - 1 \/ blocked_at ms o (Z.to_nat (p + 1))).
Proof.
  intros Hk. unfold latest_available_moment. destruct (Nat.eqb_spec k (length ms)) as [E|E]; [lia|].
  pose proof (lam_loop_spec o (skipn k ms) (firstn k ms) (Z.of_nat k)) as H.
  rewrite firstn_length_le in H by lia. specialize (H eq_refl). rewrite firstn_skipn in H.
  rewrite skipn_length in H. cbv zeta in *. destruct H as [H1 [H2 H3]].
  split; [lia|]. split; [exact H2|]. destruct H3 as [H3|H3]; [left; lia|right; exact H3].
Qed.

(* ==== D5: closed forms for inserting one operation / one Moment ==== *)
Lemma clamp_index_le i n : (clamp_index i n <= n)%nat.
Proof. unfold clamp_index. destruct (0 <=? i); lia. Qed.

Lemma nth_error_insert_at_eq {A} (x : A) l : forall k, (k <= length l)%nat -> nth_error (insert_at k x l) k = Some x.
Proof.
  induction l as [|y r IH]; intros k Hk; destruct k as [|k]; simpl in *; try reflexivity; try lia.
  apply IH. lia.
Qed.
Lemma nth_error_insert_at_lt {A} (x : A) l : forall k j, (j < k)%nat -> (k <= length l)%nat -> nth_error (insert_at k x l) j = nth_error l j.
Proof.
  induction l as [|y r IH]; intros k j Hj Hk; destruct k as [|k]; simpl in *; try lia.
  destruct j as [|j]; simpl; [reflexivity|]. apply IH; lia.
Qed.
Lemma replace_insert_at {A} (x y : A) l : forall k, (k <= length l)%nat -> replace_nth k y (insert_at k x l) = insert_at k y l.
Proof.
  induction l as [|z r IH]; intros k Hk; destruct k as [|k]; simpl in *; try reflexivity; try lia.
  rewrite IH by lia. reflexivity.
Qed.

Lemma with_operation_nil o : with_operation [] o = Some [o].
Proof. unfold with_operation, operates_on. simpl. rewrite disjointb_nil_r. reflexivity. Qed.

Lemma place_on_blank (ms : list moment) k o : (k <= length ms)%nat -> place (insert_at k [] ms) k (IOp o) = inl (insert_at k [o] ms).
Proof.
  intros Hk. unfold place. rewrite insert_at_length_S.
  replace (Nat.eqb k (S (length ms))) with false by (symmetry; apply Nat.eqb_neq; lia).
  rewrite nth_error_insert_at_eq by exact Hk. rewrite with_operation_nil. rewrite replace_insert_at by exact Hk. reflexivity.
Qed.

Lemma group_single it : group_into_moment_compatible [it] = [[it]].
Proof. destruct it; reflexivity. Qed.

Local Arguments place : simpl never.
Local Arguments insert_at : simpl never.
Local Arguments replace_nth : simpl never.
Local Arguments earliest_available_moment : simpl never.
Local Arguments latest_available_moment : simpl never.
Local Arguments blocks : simpl never.
Local Arguments can_add_op_at : simpl never.
Local Arguments Nat.max : simpl never.
Local Arguments Z.of_nat : simpl never.
Local Arguments nth_error : simpl never.
Local Arguments with_operation : simpl never.

(* insert of a single item without live cache, strategy other than LATEST: one batch *)
Lemma insert_single_unfold c i it s :
  s <> LATEST -> (s = EARLIEST -> cache c = None) ->
  insert c i [it] s =
    match do_batch (mki (moms c) None (clamp_index i (length (moms c))) s 0) [it] with
    | (st, None) => (mutated true (mkc (i_ms st) (i_cache st) (sm c)), inl (Z.of_nat (i_k st)))
    | (st, Some e) => (mkc (i_ms st) (i_cache st) (sm c), inr e)
    end.
Proof.
  intros Hs Hc. unfold insert. set (k := clamp_index i (length (moms c))).
  assert (H0 : (if negb (strategy_eqb s EARLIEST) || negb (Nat.eqb k (length (moms c))) then None else cache c) = None).
  { destruct s; simpl; try reflexivity. rewrite (Hc eq_refl). destruct (negb _); reflexivity. }
  rewrite H0.
  assert (Hb : match s with NEW => map (fun it0 => [it0]) [it] | _ => group_into_moment_compatible [it] end = [[it]])
    by (destruct s; try apply group_single; reflexivity).
  rewrite Hb. destruct s; try congruence; cbn [do_batches];
    destruct (do_batch _ [it]) as [st [e|]]; reflexivity.
Qed.

(* NEW and NEW_THEN_INLINE: a new moment at the clamped index holding exactly the operation *)
Theorem insert_single_new c i o s : is_new s = true ->
  insert c i [IOp o] s =
    (mkc (insert_at (clamp_index i (length (moms c))) [o] (moms c)) None no_sums,
     inl (Z.of_nat (S (clamp_index i (length (moms c)))))).
Proof.
  intros Hs. rewrite insert_single_unfold by (destruct s; discriminate).
  pose proof (clamp_index_le i (length (moms c))) as Hk.
  set (k := clamp_index i (length (moms c))) in *.
  pose proof (place_on_blank (moms c) k o Hk) as Hp.
  destruct s; try discriminate; unfold do_batch, needs_blank; cbn [i_cache i_s i_ms i_k i_maxp place_items];
    unfold place_item, determine; cbn [i_cache i_s i_ms i_k i_maxp]; rewrite Hp; cbn [i_ms i_cache i_k i_maxp i_s mutated moms cache sm];
    repeat f_equal; lia.
Qed.

(* INLINE: into the moment just before the index when that moment accepts the operation, else a new moment *)
Theorem insert_single_inline c i o :
  let k := clamp_index i (length (moms c)) in
  insert c i [IOp o] INLINE =
    match k with
    | S k' =>
        match nth_error (moms c) k' with
        | Some m => if blocks m o
                    then (mkc (insert_at k [o] (moms c)) None no_sums, inl (Z.of_nat (S k)))
                    else (mkc (replace_nth k' (m ++ [o]) (moms c)) None no_sums, inl (Z.of_nat k))
        | None => (mkc (insert_at k [o] (moms c)) None no_sums, inl (Z.of_nat (S k)))
        end
    | O => (mkc (insert_at O [o] (moms c)) None no_sums, inl 1)
    end.
Proof.
  intros k. rewrite insert_single_unfold by discriminate.
  pose proof (clamp_index_le i (length (moms c))) as Hk. fold k in Hk. fold k.
  unfold do_batch, needs_blank. cbn. rewrite can_add_spec.
  destruct k as [|k'].
  - cbn. unfold place_item, determine. cbn. rewrite (place_on_blank (moms c) 0 o Hk). cbn. reflexivity.
  - cbn. destruct (nth_error (moms c) k') as [m|] eqn:En; [|apply nth_error_None in En; lia].
    destruct (blocks m o) eqn:Eb; cbn; unfold place_item, determine; cbn.
    + rewrite (place_on_blank (moms c) (S k') o Hk). cbn. repeat f_equal; lia.
    + unfold place. replace (Nat.eqb k' (length (moms c))) with false by (symmetry; apply Nat.eqb_neq; lia).
      rewrite En. unfold with_operation.
      assert (Ho : operates_on m (qs o) = false).
      { unfold blocks in Eb. destruct (operates_on m (qs o)); [discriminate|reflexivity]. }
      rewrite Ho. cbn. repeat f_equal; lia.
Qed.

(* ==== D4 for one inserted operation: it never jumps over a conflicting operation ==== *)
(* how a single operation can land: in a new moment at the (clamped) index k, or at the end of an
   existing moment p such that no moment between p and the insertion point (p itself included)
   holds an operation that conflicts with it *)
Definition lands (ms ms' : list moment) (o : opd) (k : nat) : Prop :=
  ms' = insert_at k [o] ms \/
  exists p m, nth_error ms p = Some m /\ ms' = replace_nth p (m ++ [o]) ms /\
              forall j, (Nat.min p k <= j < Nat.max (S p) k)%nat -> free_at ms o j.

Lemma free_at_join ms o p : free_at ms o p -> exists m, nth_error ms p = Some m /\ place ms p (IOp o) = inl (replace_nth p (m ++ [o]) ms).
Proof.
  intros [m [Hn Hb]]. exists m. split; [exact Hn|]. unfold place.
  assert (Hlt : (p < length ms)%nat) by (apply nth_error_Some; congruence).
  replace (Nat.eqb p (length ms)) with false by (symmetry; apply Nat.eqb_neq; lia).
  rewrite Hn. unfold with_operation.
  assert (Ho : operates_on m (qs o) = false) by (unfold blocks in Hb; destruct (operates_on m (qs o)); [discriminate|reflexivity]).
  rewrite Ho. reflexivity.
Qed.

Lemma eam_after_blank (ms : list moment) o k : (k <= length ms)%nat ->
  (k = O \/ blocked_at ms o (Nat.pred k)) -> earliest_available_moment (insert_at k [] ms) o k = k.
Proof.
  intros Hk Hb. unfold earliest_available_moment. rewrite insert_at_length_S. rewrite Nat.min_l by lia.
  destruct k as [|k']; [reflexivity|]. destruct Hb as [Hb|[m [Hn Hb]]]; [discriminate|]. simpl in Hn.
  cbn [eam_loop]. rewrite nth_error_insert_at_lt by lia. rewrite Hn, Hb. reflexivity.
Qed.

Lemma needs_blank_single_earliest ms k o :
  needs_blank (mki ms None k EARLIEST 0) [IOp o] = negb (can_add_op_at ms k o || Nat.ltb 0 k && can_add_op_at ms (Nat.pred k) o).
Proof. unfold needs_blank. cbn [i_cache i_s i_ms i_k forallb strategy_eqb andb]. rewrite andb_true_r. reflexivity. Qed.

Theorem insert_single_earliest c i o : cache c = None ->
  let k := clamp_index i (length (moms c)) in
  exists c' z, insert c i [IOp o] EARLIEST = (c', inl z) /\ cache c' = None /\ sm c' = no_sums /\
               lands (moms c) (moms c') o k /\ (Z.of_nat k <= z <= Z.of_nat (S k)).
Proof.
  intros Hc k. rewrite insert_single_unfold by (try discriminate; intros _; exact Hc).
  pose proof (clamp_index_le i (length (moms c))) as Hk. fold k in Hk. fold k.
  set (ms := moms c) in *.
  destruct (eam_spec ms o k Hk) as [Hp1 [Hp2 Hp3]]. set (p := earliest_available_moment ms o k) in *.
  unfold do_batch. rewrite needs_blank_single_earliest.
  destruct (can_add_op_at ms k o || Nat.ltb 0 k && can_add_op_at ms (Nat.pred k) o) eqn:Ecan; cbn [negb].
  - (* no blank moment *)
    cbn [place_items i_ms i_cache i_k i_s i_maxp]. unfold place_item, determine. cbn [i_ms i_cache i_k i_s i_maxp]. fold p.
    destruct (Nat.lt_ge_cases p k) as [Hlt|Hge].
    + (* slides back to p < k *)
      destruct (free_at_join ms o p (Hp2 p ltac:(lia))) as [m [Hn Hpl]]. rewrite Hpl. cbn.
      eexists. eexists. split; [reflexivity|]. cbn. repeat split; try lia.
      right. exists p, m. split; [exact Hn|]. split; [reflexivity|]. intros j Hj. apply Hp2. lia.
    + assert (p = k) by lia. clearbody p. subst p.
      destruct (Nat.eq_dec k (length ms)) as [Hend|Hmid].
      * (* at the end: a new last moment *)
        unfold place. rewrite Hend, Nat.eqb_refl. cbn. eexists. eexists. split; [reflexivity|]. cbn.
        repeat split; try lia. left. rewrite ?Hend. rewrite insert_at_length. reflexivity.
      * (* shares the moment at the insertion point, which accepts it *)
        assert (Hfree : free_at ms o k).
        { rewrite !can_add_spec in Ecan.
          destruct (nth_error ms k) as [m|] eqn:En; [|apply nth_error_None in En; lia].
          destruct (blocks m o) eqn:Eb; [|exists m; split; [exact En|exact Eb]].
          cbn [negb orb] in Ecan. destruct k as [|k']; [discriminate|]. cbn [Nat.pred] in Ecan, Hp3.
          destruct Hp3 as [Hp3|[m' [Hn' Hb']]]; [discriminate|]. rewrite Hn', Hb' in Ecan. discriminate. }
        destruct (free_at_join ms o k Hfree) as [m [Hn Hpl]]. rewrite Hpl. cbn.
        eexists. eexists. split; [reflexivity|]. cbn. repeat split; try lia.
        right. exists k, m. split; [exact Hn|]. split; [reflexivity|]. intros j Hj.
        assert (j = k) by lia. subst j. exact Hfree.
  - (* a blank moment at k receives the operation *)
    apply orb_false_iff in Ecan as [Ek Ek1].
    assert (Hbl : k = O \/ blocked_at ms o (Nat.pred k)).
    { destruct k as [|k']; [left; reflexivity|right]. cbn [Nat.ltb Nat.leb andb Nat.pred] in Ek1. rewrite can_add_spec in Ek1.
      destruct (nth_error ms k') as [m|] eqn:En; [|discriminate]. exists m. split; [exact En|].
      destruct (blocks m o); [reflexivity|discriminate]. }
    cbn [place_items i_ms i_cache i_k i_s i_maxp]. unfold place_item, determine. cbn [i_ms i_cache i_k i_s i_maxp].
    rewrite (eam_after_blank ms o k Hk Hbl).
    rewrite (place_on_blank ms k o Hk). cbn. eexists. eexists. split; [reflexivity|]. cbn.
    repeat split; try lia. left. reflexivity.
Qed.

Theorem insert_single_latest c i o :
  let k := clamp_index i (length (moms c)) in
  exists c' z, insert c i [IOp o] LATEST = (c', inl z) /\ cache c' = None /\ sm c' = no_sums /\
               lands (moms c) (moms c') o k /\ Z.of_nat k < z.
Proof.
  intros k. pose proof (clamp_index_le i (length (moms c))) as Hk. fold k in Hk.
  unfold insert. fold k. cbn [strategy_eqb negb orb]. rewrite group_single.
  unfold insert_latest. cbn [rev app latest_batches latest_items]. unfold latest_item. cbn [l_ms l_max].
  set (ms := moms c) in *.
  destruct (Nat.eq_dec k (length ms)) as [Hend|Hmid].
  - (* at the end *)
    unfold latest_available_moment. rewrite Hend, Nat.eqb_refl. rewrite Z.ltb_irrefl. cbn.
    rewrite Z.eqb_compare. destruct (Z.of_nat (length ms) ?= -1) eqn:E; try (apply Z.compare_eq in E; lia).
    + eexists. eexists. split; [reflexivity|]. cbn. repeat split; try lia. left. rewrite insert_at_length. reflexivity.
    + eexists. eexists. split; [reflexivity|]. cbn. repeat split; try lia. left. rewrite insert_at_length. reflexivity.
  - destruct (lam_spec ms o k ltac:(lia)) as [H1 [H2 H3]]. set (p := latest_available_moment ms o k) in *.
    destruct (p <? Z.of_nat k) eqn:Elt.
    + (* the moment at k blocks: a new moment at k *)
      cbn. match goal with |- context [?a =? -1] => replace (a =? -1) with false by (symmetry; apply Z.eqb_neq; lia) end.
      eexists. eexists. split; [reflexivity|]. cbn. repeat split; try lia. left. reflexivity.
    + apply Z.ltb_ge in Elt. replace (p <? Z.of_nat (length ms)) with true by (symmetry; apply Z.ltb_lt; lia).
      assert (Hf : free_at ms o (Z.to_nat p)) by (apply H2; lia).
      destruct Hf as [m [Hn Hb]]. rewrite Hn. unfold with_operation.
      assert (Ho : operates_on m (qs o) = false) by (unfold blocks in Hb; destruct (operates_on m (qs o)); [discriminate|reflexivity]).
      rewrite Ho. cbn. match goal with |- context [?a =? -1] => replace (a =? -1) with false by (symmetry; apply Z.eqb_neq; lia) end.
      eexists. eexists. split; [reflexivity|]. cbn. repeat split; try lia.
      right. exists (Z.to_nat p), m. split; [exact Hn|]. split; [reflexivity|]. intros j Hj. apply H2; lia.
Qed.

(* all five strategies: one operation inserted into a circuit without live cache lands without jumping
   over a conflicting operation, existing operations stay where they are (up to one new moment) *)
Theorem insert_single_lands c i o s : cache c = None ->
  exists c' z, insert c i [IOp o] s = (c', inl z) /\ lands (moms c) (moms c') o (clamp_index i (length (moms c))).
Proof.
  intros Hc. destruct s.
  - destruct (insert_single_earliest c i o Hc) as [c' [z [H [_ [_ [Hl _]]]]]]. exists c', z. split; assumption.
  - rewrite (insert_single_new c i o NEW eq_refl). eexists. eexists. split; [reflexivity|]. left. reflexivity.
  - pose proof (insert_single_inline c i o) as H. cbv zeta in H. rewrite H. clear H.
    destruct (clamp_index i (length (moms c))) as [|k'] eqn:Ek.
    + eexists. eexists. split; [reflexivity|]. left. reflexivity.
    + destruct (nth_error (moms c) k') as [m|] eqn:En.
      * destruct (blocks m o) eqn:Eb.
        -- eexists. eexists. split; [reflexivity|]. left. reflexivity.
        -- eexists. eexists. split; [reflexivity|]. right. exists k', m. split; [exact En|]. split; [reflexivity|].
           intros j Hj. assert (j = k') by lia. subst j. exists m. split; assumption.
      * eexists. eexists. split; [reflexivity|]. left. reflexivity.
  - rewrite (insert_single_new c i o NEW_THEN_INLINE eq_refl). eexists. eexists. split; [reflexivity|]. left. reflexivity.
  - destruct (insert_single_latest c i o) as [c' [z [H [_ [_ [Hl _]]]]]]. exists c', z. split; assumption.
Qed.

(* ==== D4 for the cached append: the index computed from the cache lies after every conflicting operation ==== *)
Lemma in_flat_memz (sel : opd -> list Z) z x m : In x m -> In z (sel x) -> memz z (flat_map sel m) = true.
Proof. intros Hx Hz. apply memz_In. apply in_flat_map. exists x. split; assumption. Qed.

Theorem cached_place_free pc ms o idx pc' :
  cache_matches pc ms -> cache_append pc (IOp o) = (idx, pc') ->
  forall j, (idx <= j < length ms)%nat -> free_at ms o j.
Proof.
  intros [Hlen [Hq [Hm Hc]]] Ha j Hj. unfold cache_append in Ha. injection Ha as <- _.
  destruct (nth_error ms j) as [m|] eqn:En; [|apply nth_error_None in En; lia].
  exists m. split; [exact En|]. destruct (blocks m o) eqn:Eb; [|reflexivity]. exfalso.
  apply blocks_spec in Eb as [x [Hx Hcf]]. unfold conflicts in Hcf. rewrite !orb_true_iff in Hcf.
  assert (G : forall (sel : moment -> list Z) (mp : amap) (ks : list Z) z,
            (forall k, lookup k mp = last_index sel k ms 0) -> In z ks -> memz z (sel m) = true ->
            (max_after mp ks <= j)%nat -> False).
  { intros sel mp ks z Hmp Hz Hmem Hle.
    destruct (last_index_ge sel z m ms j 0 En Hmem) as [i0 [Hi Hge]].
    pose proof (after_le_max mp z ks Hz) as Ha. unfold after in Ha. rewrite Hmp, Hi in Ha. lia. }
  unfold gea_index in Hj.
  destruct Hcf as [[[H|H]|H]|H]; apply not_disjoint_spec in H as [z [Hz1 Hz2]].
  - eapply (G mqubits (qi pc) (qs o) z Hq Hz1); [eapply in_flat_memz; eassumption|lia].
  - eapply (G mmkeys (mi pc) (mk o) z Hm Hz1); [eapply in_flat_memz; eassumption|lia].
  - eapply (G mmkeys (mi pc) (ck o) z Hm Hz1); [eapply in_flat_memz; eassumption|lia].
  - eapply (G mckeys (ci pc) (mk o) z Hc Hz2); [eapply in_flat_memz; eassumption|lia].
Qed.

(* a cached append of one operation lands like an uncached insert at the end *)
Theorem cached_append_lands pc ms o idx pc' :
  cache_matches pc ms -> cache_append pc (IOp o) = (idx, pc') ->
  exists ms', place ms idx (IOp o) = inl ms' /\ lands ms ms' o (length ms).
Proof.
  intros Hm Ha. destruct (cache_place_ok pc ms (IOp o) idx pc' Hm Ha) as [ms' [Hp _]].
  exists ms'. split; [exact Hp|]. pose proof (cached_place_free pc ms o idx pc' Hm Ha) as Hf.
  unfold place in Hp. destruct (Nat.eqb_spec idx (length ms)) as [E|E].
  - injection Hp as <-. left. rewrite insert_at_length. reflexivity.
  - destruct (nth_error ms idx) as [m|] eqn:En; [|discriminate].
    assert (Hlt : (idx < length ms)%nat) by (apply nth_error_Some; congruence).
    destruct (with_operation m o) as [m'|] eqn:Ew; [|discriminate]. injection Hp as <-.
    apply with_operation_eq in Ew. subst m'. right. exists idx, m. split; [exact En|]. split; [reflexivity|].
    intros j Hj. apply Hf. lia.
Qed.

(* ==== the single-operation order theorem on the linearisation (Circuit.all_operations) ==== *)
Definition lin (ms : list moment) : list opd := concat ms.
Definition seg (ms : list moment) (a b : nat) : list moment := firstn (b - a) (skipn a ms).

Lemma skipn_skipn_o {A} (x y : nat) (l : list A) : skipn x (skipn y l) = skipn (x + y) l.
Proof.
  revert l. induction y as [|y IH]; intros l; [rewrite Nat.add_0_r; reflexivity|].
  destruct l as [|a r]; [rewrite !skipn_nil; reflexivity|]. rewrite Nat.add_succ_r. simpl. apply IH.
Qed.

Lemma nth_error_skipn_o {A} (l : list A) : forall n i, nth_error (skipn n l) i = nth_error l (n + i).
Proof.
  induction l as [|x r IH]; intros n i.
  - rewrite skipn_nil. destruct i; destruct (n + _)%nat; reflexivity.
  - destruct n as [|n]; [reflexivity|]. simpl skipn. rewrite IH. reflexivity.
Qed.

Lemma skipn_nth_cons {A} (l : list A) p m : nth_error l p = Some m -> skipn p l = m :: skipn (S p) l.
Proof.
  revert l. induction p as [|p IH]; intros l H; destruct l as [|x r]; try discriminate.
  - injection H as ->. reflexivity.
  - simpl. apply IH. exact H.
Qed.

Lemma firstn_split {A} (l : list A) p k : (p <= k)%nat -> firstn k l = firstn p l ++ firstn (k - p) (skipn p l).
Proof.
  revert l k. induction p as [|p IH]; intros l k Hk; [rewrite Nat.sub_0_r; reflexivity|].
  destruct k as [|k]; [lia|]. destruct l as [|x r]; [simpl; rewrite firstn_nil; reflexivity|]. simpl. f_equal. apply IH. lia.
Qed.

Lemma skipn_split {A} (l : list A) p k : (p <= k)%nat -> skipn p l = firstn (k - p) (skipn p l) ++ skipn k l.
Proof.
  intros Hk. rewrite <- (firstn_skipn (k - p) (skipn p l)) at 1. f_equal. rewrite skipn_skipn_o. f_equal. lia.
Qed.

Lemma in_firstn_nth {A} (x : A) : forall n l, In x (firstn n l) -> exists i, (i < n)%nat /\ nth_error l i = Some x.
Proof.
  induction n as [|n IH]; intros l H; [destruct H|]. destruct l as [|y r]; [destruct H|].
  destruct H as [->|H]; [exists O; split; [lia|reflexivity]|].
  destruct (IH r H) as [i [Hi Hn]]. exists (S i). split; [lia|exact Hn].
Qed.

Lemma seg_members ms a b m : In m (seg ms a b) -> exists j, (a <= j < b)%nat /\ nth_error ms j = Some m.
Proof.
  unfold seg. intros Hin. apply in_firstn_nth in Hin as [i [Hi Hn]].
  rewrite nth_error_skipn_o in Hn. exists (a + i)%nat. split; [lia|exact Hn].
Qed.

Lemma filter_free_moment m o : blocks m o = false -> filter (fun x => conflicts x o) m = [].
Proof.
  intros Hb. induction m as [|x r IH]; [reflexivity|]. simpl.
  destruct (conflicts x o) eqn:E.
  - exfalso. assert (blocks (x :: r) o = true) by (apply blocks_spec; exists x; split; [left; reflexivity|exact E]). congruence.
  - apply IH. destruct (blocks r o) eqn:Er; [|reflexivity]. exfalso. apply blocks_spec in Er as [y [Hy Hc]].
    assert (blocks (x :: r) o = true) by (apply blocks_spec; exists y; split; [right; exact Hy|exact Hc]). congruence.
Qed.

Lemma filter_free_seg ms o a b : (forall j, (a <= j < b)%nat -> free_at ms o j) ->
  filter (fun x => conflicts x o) (lin (seg ms a b)) = [].
Proof.
  intros Hf. unfold lin. assert (G : forall l, (forall m, In m l -> blocks m o = false) -> filter (fun x => conflicts x o) (concat l) = []).
  { induction l as [|m r IH]; intros Hl; [reflexivity|]. simpl. rewrite filter_app, (filter_free_moment m o), IH; [reflexivity| |].
    - intros m' Hm'. apply Hl. right. exact Hm'.
    - apply Hl. left. reflexivity. }
  apply G. intros m Hm. apply seg_members in Hm as [j [Hj Hn]]. destruct (Hf j Hj) as [m' [Hn' Hb]]. congruence.
Qed.

Lemma lin_insert_at (ms : list moment) k x : (k <= length ms)%nat -> lin (insert_at k x ms) = lin (firstn k ms) ++ x ++ lin (skipn k ms).
Proof.
  unfold lin. revert k. induction ms as [|m r IH]; intros k Hk.
  - destruct k; [|simpl in Hk; lia]. unfold insert_at. simpl. rewrite app_nil_r. reflexivity.
  - destruct k as [|k]; [reflexivity|]. unfold insert_at; fold (@insert_at moment). cbn [firstn skipn concat].
    rewrite IH by (simpl in Hk; lia). rewrite <- app_assoc. reflexivity.
Qed.

Lemma lin_replace_nth (ms : list moment) p m y : nth_error ms p = Some m ->
  lin (replace_nth p y ms) = lin (firstn p ms) ++ y ++ lin (skipn (S p) ms) /\
  lin ms = lin (firstn p ms) ++ m ++ lin (skipn (S p) ms).
Proof.
  unfold lin. revert p. induction ms as [|x r IH]; intros p Hn; [destruct p; discriminate|].
  destruct p as [|p].
  - injection Hn as ->. split; reflexivity.
  - unfold nth_error in Hn; fold (@nth_error moment) in Hn. destruct (IH p Hn) as [H1 H2].
    unfold replace_nth; fold (@replace_nth moment). cbn [firstn skipn concat]. split.
    + rewrite H1. rewrite <- !app_assoc. reflexivity.
    + rewrite H2 at 1. rewrite <- !app_assoc. reflexivity.
Qed.

Theorem lands_lin ms ms' o k : (k <= length ms)%nat -> lands ms ms' o k ->
  exists l1 l2, lin ms = l1 ++ l2 /\ lin ms' = l1 ++ o :: l2 /\
    filter (fun x => conflicts x o) l1 = filter (fun x => conflicts x o) (lin (firstn k ms)) /\
    filter (fun x => conflicts x o) l2 = filter (fun x => conflicts x o) (lin (skipn k ms)).
Proof.
  intros Hk [->|[p [m [Hn [-> Hfree]]]]].
  - exists (lin (firstn k ms)), (lin (skipn k ms)). split; [unfold lin; rewrite <- concat_app, firstn_skipn; reflexivity|].
    split; [rewrite lin_insert_at by exact Hk; reflexivity|]. split; reflexivity.
  - destruct (lin_replace_nth ms p m (m ++ [o]) Hn) as [H1 H2].
    assert (Hlt : (p < length ms)%nat) by (apply nth_error_Some; congruence).
    exists (lin (firstn p ms) ++ m), (lin (skipn (S p) ms)).
    split; [etransitivity; [exact H2|]; rewrite <- app_assoc; reflexivity|].
    split; [etransitivity; [exact H1|]; rewrite <- !app_assoc; reflexivity|].
    assert (Hm : filter (fun x => conflicts x o) m = []).
    { destruct (Hfree p ltac:(lia)) as [m' [Hn' Hb]]. rewrite Hn in Hn'. injection Hn' as <-. apply filter_free_moment. exact Hb. }
    destruct (Nat.lt_ge_cases p k) as [Hpk|Hkp].
    + (* joined an earlier moment: everything between it and the insertion point is conflict-free *)
      assert (Hmid : filter (fun x => conflicts x o) (lin (seg ms (S p) k)) = []).
      { apply filter_free_seg. intros j Hj. apply Hfree. lia. }
      split.
      * rewrite (firstn_split ms p k) by lia. fold (seg ms p k). unfold seg. rewrite (skipn_nth_cons ms p m Hn).
        replace (k - p)%nat with (S (k - S p)) by lia. cbn [firstn]. unfold lin in *. cbn [concat].
        rewrite !concat_app. cbn [concat]. rewrite !filter_app. unfold seg in Hmid. rewrite Hmid, Hm. rewrite !app_nil_r. reflexivity.
      * rewrite (skipn_split ms (S p) k) by lia. unfold lin in *. rewrite concat_app, filter_app. unfold seg in Hmid. rewrite Hmid. reflexivity.
    + (* joined a later moment: everything from the insertion point up to it is conflict-free *)
      assert (Hmid : filter (fun x => conflicts x o) (lin (seg ms k p)) = []).
      { apply filter_free_seg. intros j Hj. apply Hfree. lia. }
      split.
      * rewrite (firstn_split ms k p) by lia. unfold lin in *. rewrite !concat_app, !filter_app. unfold seg in Hmid. rewrite Hmid, Hm.
        rewrite !app_nil_r. reflexivity.
      * rewrite (skipn_split ms k p) by lia. rewrite (skipn_nth_cons ms p m Hn). unfold lin in *. rewrite !concat_app. cbn [concat].
        rewrite !filter_app. unfold seg in Hmid. rewrite Hmid, Hm. reflexivity.
Qed.

(* the order clauses of the property for one inserted operation, every strategy:
   existing operations keep their order (lin before = l1 ++ l2, lin after = l1 ++ o :: l2) and, among
   the operations that conflict with o, exactly those of the moments before the insertion point come
   before o and exactly those of the moments from the insertion point on come after it *)
Theorem insert_single_order c i o s : cache c = None ->
  let k := clamp_index i (length (moms c)) in
  exists c' z l1 l2, insert c i [IOp o] s = (c', inl z) /\
    lin (moms c) = l1 ++ l2 /\ lin (moms c') = l1 ++ o :: l2 /\
    filter (fun x => conflicts x o) l1 = filter (fun x => conflicts x o) (lin (firstn k (moms c))) /\
    filter (fun x => conflicts x o) l2 = filter (fun x => conflicts x o) (lin (skipn k (moms c))).
Proof.
  intros Hc k. destruct (insert_single_lands c i o s Hc) as [c' [z [H Hl]]].
  destruct (lands_lin (moms c) (moms c') o k (clamp_index_le _ _) Hl) as [l1 [l2 [H1 [H2 [H3 H4]]]]].
  exists c', z, l1, l2. repeat split; assumption.
Qed.

(* ==== existing operations among themselves: whatever insert does (any strategy, any operation tree,
        cached or not, succeeding or raising), the old linearisation is a subsequence of the new one ==== *)
Inductive sub {A} : list A -> list A -> Prop :=
  | sub_nil : sub [] []
  | sub_skip x l l' : sub l l' -> sub l (x :: l')
  | sub_keep x l l' : sub l l' -> sub (x :: l) (x :: l').

Lemma sub_refl {A} (l : list A) : sub l l.
Proof. induction l; constructor; assumption. Qed.
Lemma sub_app {A} (a a' b b' : list A) : sub a a' -> sub b b' -> sub (a ++ b) (a' ++ b').
Proof. intros Ha Hb. induction Ha; simpl; [exact Hb|constructor; assumption|constructor; assumption]. Qed.
Lemma sub_nil_l {A} (l : list A) : sub [] l.
Proof. induction l; constructor; assumption. Qed.
Lemma sub_trans {A} (a b c : list A) : sub a b -> sub b c -> sub a c.
Proof.
  intros Hab Hbc. revert a Hab. induction Hbc as [|x l l' H IH|x l l' H IH]; intros a Hab.
  - exact Hab.
  - constructor. apply IH. exact Hab.
  - inversion Hab; subst; [constructor; apply IH; assumption|constructor; apply IH; assumption].
Qed.
Lemma sub_insert {A} (l1 x l2 : list A) : sub (l1 ++ l2) (l1 ++ x ++ l2).
Proof. apply sub_app; [apply sub_refl|]. rewrite <- (app_nil_l l2) at 1. apply sub_app; [apply sub_nil_l|apply sub_refl]. Qed.

Lemma lin_insert_at_any (ms : list moment) x : forall k, exists l1 l2, lin ms = l1 ++ l2 /\ lin (insert_at k x ms) = l1 ++ x ++ l2.
Proof.
  change lin with (@concat opd). induction ms as [|m r IH]; intros k.
  - exists [], []. split; [reflexivity|]. destruct k; unfold insert_at; simpl; rewrite app_nil_r; reflexivity.
  - destruct k as [|k].
    + exists [], (concat (m :: r)). split; reflexivity.
    + destruct (IH k) as [l1 [l2 [H1 H2]]]. exists (m ++ l1), l2. unfold insert_at; fold (@insert_at moment). cbn [concat].
      rewrite H1, H2, <- !app_assoc. split; reflexivity.
Qed.

Lemma sub_insert_at (ms : list moment) k x : sub (lin ms) (lin (insert_at k x ms)).
Proof. destruct (lin_insert_at_any ms x k) as [l1 [l2 [H1 H2]]]. rewrite H2, H1. apply sub_insert. Qed.

Lemma lin_blank (ms : list moment) k : lin (insert_at k [] ms) = lin ms.
Proof. destruct (lin_insert_at_any ms [] k) as [l1 [l2 [H1 H2]]]. etransitivity; [exact H2|]. symmetry. exact H1. Qed.

Lemma place_sub ms p it ms' : place ms p it = inl ms' -> sub (lin ms) (lin ms').
Proof.
  unfold place. intros H. destruct it as [o|m].
  - destruct (Nat.eqb p (length ms)).
    + injection H as <-. unfold lin. rewrite concat_app. simpl. rewrite <- (app_nil_r (concat ms)) at 1.
      apply sub_app; [apply sub_refl|apply sub_nil_l].
    + destruct (nth_error ms p) as [m|] eqn:En; [|discriminate]. destruct (with_operation m o) as [m'|] eqn:Ew; [|discriminate].
      injection H as <-. apply with_operation_eq in Ew. subst m'.
      destruct (lin_replace_nth ms p m (m ++ [o]) En) as [H1 H2]. rewrite H1, H2. apply sub_app; [apply sub_refl|].
      rewrite <- app_assoc. apply sub_app; [apply sub_refl|]. apply (sub_insert [] [o]).
  - injection H as <-. apply sub_insert_at.
Qed.

Lemma determine_lin st it p c1 ms1 : determine st it = (p, c1, ms1) -> lin ms1 = lin (i_ms st).
Proof.
  unfold determine. intros H. destruct (i_cache st) as [pc|].
  - destruct (cache_append pc it) as [idx pc']. injection H as <- <- <-. reflexivity.
  - destruct it as [o|m]; [destruct (i_s st)|]; injection H as <- <- <-; try reflexivity; apply lin_blank.
Qed.

Lemma place_item_sub st it st' e : place_item st it = (st', e) -> sub (lin (i_ms st)) (lin (i_ms st')).
Proof.
  unfold place_item. intros H. destruct (determine st it) as [[p c1] ms1] eqn:Ed.
  pose proof (determine_lin _ _ _ _ _ Ed) as Hl. destruct (place ms1 p it) as [ms2|er] eqn:Ep.
  - pose proof (place_sub _ _ _ _ Ep) as Hs. rewrite Hl in Hs. destruct (i_s st); injection H as <- <-; exact Hs.
  - injection H as <- <-. cbn [i_ms]. rewrite Hl. apply sub_refl.
Qed.

Lemma place_items_sub its : forall st st' e, place_items st its = (st', e) -> sub (lin (i_ms st)) (lin (i_ms st')).
Proof.
  induction its as [|it r IH]; intros st st' e H; cbn [place_items] in H.
  - injection H as <- <-. apply sub_refl.
  - destruct (place_item st it) as [st1 [e1|]] eqn:E1.
    + injection H as <- <-. eapply place_item_sub; exact E1.
    + eapply sub_trans; [eapply place_item_sub; exact E1|eapply IH; exact H].
Qed.

Lemma do_batch_sub st b st' e : do_batch st b = (st', e) -> sub (lin (i_ms st)) (lin (i_ms st')).
Proof.
  unfold do_batch. intros H.
  match type of H with context [place_items ?a b] => destruct (place_items a b) as [st3 e3] eqn:E3 end.
  apply place_items_sub in E3. cbn [i_ms] in E3.
  assert (H0 : lin (i_ms (if needs_blank st b
              then mki (insert_at (i_k st) [] (i_ms st)) (i_cache st) (match i_s st with INLINE => S (i_k st) | _ => i_k st end) (i_s st) (i_maxp st)
              else st)) = lin (i_ms st)) by (destruct (needs_blank st b); [apply lin_blank|reflexivity]).
  rewrite H0 in E3. destruct e3; injection H as <- <-; exact E3.
Qed.

Lemma do_batches_sub bs : forall st st' e, do_batches st bs = (st', e) -> sub (lin (i_ms st)) (lin (i_ms st')).
Proof.
  induction bs as [|b r IH]; intros st st' e H; cbn [do_batches] in H.
  - injection H as <- <-. apply sub_refl.
  - destruct (do_batch st b) as [st1 [e1|]] eqn:E1.
    + injection H as <- <-. eapply do_batch_sub; exact E1.
    + eapply sub_trans; [eapply do_batch_sub; exact E1|eapply IH; exact H].
Qed.

Lemma latest_item_sub k st it st' e : latest_item k st it = (st', e) -> sub (lin (l_ms st)) (lin (l_ms st')).
Proof.
  unfold latest_item. intros H. destruct it as [o|m].
  - destruct (_ <? Z.of_nat k).
    + injection H as <- <-. apply sub_insert_at.
    + destruct (_ <? _).
      * destruct (nth_error (l_ms st) _) as [m|] eqn:En; [|injection H as <- <-; apply sub_refl].
        destruct (with_operation m o) as [m'|] eqn:Ew; [|injection H as <- <-; apply sub_refl].
        injection H as <- <-. cbn [l_ms]. apply with_operation_eq in Ew. subst m'.
        destruct (lin_replace_nth (l_ms st) _ m (m ++ [o]) En) as [H1 H2]. rewrite H1, H2. apply sub_app; [apply sub_refl|].
        rewrite <- app_assoc. apply sub_app; [apply sub_refl|]. apply (sub_insert [] [o]).
      * injection H as <- <-. cbn [l_ms]. unfold lin. rewrite concat_app. simpl. rewrite <- (app_nil_r (concat (l_ms st))) at 1.
        apply sub_app; [apply sub_refl|apply sub_nil_l].
  - injection H as <- <-. apply sub_insert_at.
Qed.

Lemma latest_items_sub k its : forall st st' e, latest_items k st its = (st', e) -> sub (lin (l_ms st)) (lin (l_ms st')).
Proof.
  induction its as [|it r IH]; intros st st' e H; cbn [latest_items] in H.
  - injection H as <- <-. apply sub_refl.
  - destruct (latest_item k st it) as [st1 [e1|]] eqn:E1.
    + injection H as <- <-. eapply latest_item_sub; exact E1.
    + eapply sub_trans; [eapply latest_item_sub; exact E1|eapply IH; exact H].
Qed.

Lemma latest_batches_sub k bs : forall st st' e, latest_batches k st bs = (st', e) -> sub (lin (l_ms st)) (lin (l_ms st')).
Proof.
  induction bs as [|b r IH]; intros st st' e H; cbn [latest_batches] in H.
  - injection H as <- <-. apply sub_refl.
  - destruct (latest_items k st b) as [st1 [e1|]] eqn:E1.
    + injection H as <- <-. eapply latest_items_sub; exact E1.
    + eapply sub_trans; [eapply latest_items_sub; exact E1|eapply IH; exact H].
Qed.

Theorem insert_keeps_existing_order c i its s c' r :
  insert c i its s = (c', r) -> sub (lin (moms c)) (lin (moms c')).
Proof.
  unfold insert. intros H. destruct s.
  all: try (match type of H with context [do_batches ?a ?b] => destruct (do_batches a b) as [st e] eqn:E end;
            apply do_batches_sub in E; destruct e; injection H as <- <-; exact E).
  match type of H with context [insert_latest ?a ?b ?d] => destruct (insert_latest a b d) as [st e] eqn:E end.
  unfold insert_latest in E. apply latest_batches_sub in E. destruct e; injection H as <- <-; [exact E|].
  destruct (l_max st =? -1); exact E.
Qed.
