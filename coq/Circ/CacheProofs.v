(* C05 proofs, part 3b: the cache invariant through insert / append / the constructor. *)
From Coq Require Import ZArith List Bool Arith Lia.
From VF Require Import Circ.Moments Circ.Placement Circ.Insert Circ.MomentsProofs Circ.PlacementProofs Circ.InsertProofs.
Import ListNotations.
Open Scope Z_scope.

Definition ist_cache_ok (st : ist) : Prop := forall p, i_cache st = Some p -> cache_matches p (i_ms st).

Lemma place_item_cached st it pc :
  i_cache st = Some pc -> cache_matches pc (i_ms st) ->
  exists st' pc', place_item st it = (st', None) /\ i_cache st' = Some pc' /\ cache_matches pc' (i_ms st').
Proof.
  intros Hc Hm. unfold place_item, determine. rewrite Hc.
  destruct (cache_append pc it) as [idx pc'] eqn:Ea.
  destruct (cache_place_ok _ _ _ _ _ Hm Ea) as [ms' [Hp Hm']]. rewrite Hp.
  destruct (i_s st); eexists; exists pc'; (split; [reflexivity|split; [reflexivity|exact Hm']]).
Qed.

Lemma place_items_cached its : forall st pc,
  i_cache st = Some pc -> cache_matches pc (i_ms st) ->
  exists st' pc', place_items st its = (st', None) /\ i_cache st' = Some pc' /\ cache_matches pc' (i_ms st').
Proof.
  induction its as [|it r IH]; intros st pc Hc Hm; simpl.
  - exists st, pc. split; [reflexivity|split; assumption].
  - destruct (place_item_cached st it pc Hc Hm) as [st1 [pc1 [H1 [Hc1 Hm1]]]]. rewrite H1.
    apply (IH st1 pc1 Hc1 Hm1).
Qed.

Lemma place_item_nocache st it st' e : i_cache st = None -> place_item st it = (st', e) -> i_cache st' = None.
Proof.
  intros Hc H. unfold place_item, determine in H. rewrite Hc in H.
  destruct it as [o|m]; [destruct (i_s st)|];
    match type of H with context [place ?a ?b ?c] => destruct (place a b c) end;
    try destruct (i_s st); injection H as <- <-; reflexivity.
Qed.

Lemma place_items_nocache its : forall st st' e, i_cache st = None -> place_items st its = (st', e) -> i_cache st' = None.
Proof.
  induction its as [|it r IH]; intros st st' e Hc H; simpl in H.
  - injection H as <- <-. exact Hc.
  - destruct (place_item st it) as [st1 [e1|]] eqn:E1.
    + injection H as <- <-. eapply place_item_nocache; eassumption.
    + eapply IH; [|exact H]. eapply place_item_nocache; eassumption.
Qed.

Lemma do_batch_nocache st b st' e : i_cache st = None -> do_batch st b = (st', e) -> i_cache st' = None.
Proof.
  intros Hc H. unfold do_batch in H.
  match type of H with context [place_items ?a b] => destruct (place_items a b) as [st3 e3] eqn:E3 end.
  apply place_items_nocache in E3; [|destruct (needs_blank st b); simpl; exact Hc].
  destruct e3; injection H as <- <-; simpl; exact E3.
Qed.

Lemma do_batches_nocache bs : forall st st' e, i_cache st = None -> do_batches st bs = (st', e) -> i_cache st' = None.
Proof.
  induction bs as [|b r IH]; intros st st' e Hc H; simpl in H.
  - injection H as <- <-. exact Hc.
  - destruct (do_batch st b) as [st1 [e1|]] eqn:E1.
    + injection H as <- <-. eapply do_batch_nocache; eassumption.
    + eapply IH; [|exact H]. eapply do_batch_nocache; eassumption.
Qed.

Lemma do_batch_cached st b pc :
  i_cache st = Some pc -> cache_matches pc (i_ms st) ->
  exists st' pc', do_batch st b = (st', None) /\ i_cache st' = Some pc' /\ cache_matches pc' (i_ms st').
Proof.
  intros Hc Hm. unfold do_batch.
  assert (Hb : needs_blank st b = false) by (unfold needs_blank; rewrite Hc; reflexivity).
  rewrite Hb.
  destruct (place_items_cached b (mki (i_ms st) (i_cache st) (i_k st) (i_s st) 0) pc Hc Hm) as [st3 [pc3 [H3 [Hc3 Hm3]]]].
  rewrite H3. eexists. exists pc3. split; [reflexivity|]. split; [exact Hc3|exact Hm3].
Qed.

Lemma cache0_cases s (k : nat) c : cache_ok c ->
  let c0 := (if negb (strategy_eqb s EARLIEST) || negb (Nat.eqb k (length (moms c))) then None else cache c) in
  c0 = None \/ exists pc, c0 = Some pc /\ cache_matches pc (moms c) /\ s = EARLIEST.
Proof.
  intros Hok. cbv zeta. destruct (strategy_eqb s EARLIEST) eqn:Es; cbn [negb orb]; [|left; reflexivity].
  destruct (Nat.eqb k (length (moms c))); cbn [negb]; [|left; reflexivity].
  destruct (cache c) as [pc|] eqn:Ec; [|left; reflexivity].
  right. exists pc. split; [reflexivity|]. split; [apply Hok; exact Ec|]. destruct s; try discriminate. reflexivity.
Qed.

Theorem insert_cache_ok c i its s c' r : cache_ok c -> insert c i its s = (c', r) -> cache_ok c'.
Proof.
  unfold insert. intros Hok H.
  set (k := clamp_index i (length (moms c))) in *.
  match type of H with context [if ?b then None else cache c] => set (c0 := if b then None else cache c) in * end.
  pose proof (cache0_cases s k c Hok) as Hc0. cbv zeta in Hc0. fold c0 in Hc0.
  destruct Hc0 as [Hn|[pc [Hs [Hm ->]]]].
  - (* no cache from here on *)
    rewrite Hn in H. destruct s.
    all: try (match type of H with context [do_batches ?a ?b] => destruct (do_batches a b) as [st e] eqn:E end;
              apply do_batches_nocache in E; [|reflexivity];
              destruct e; injection H as <- <-; intros p Hp; simpl in Hp; congruence).
    match type of H with context [insert_latest ?a ?b ?d] => destruct (insert_latest a b d) as [st e] eqn:E end.
    destruct e; injection H as <- <-; intros p Hp; [simpl in Hp; discriminate|].
    destruct (l_max st =? -1); simpl in Hp; discriminate.
  - (* cached EARLIEST append: one batch, every placement succeeds and the cache follows *)
    rewrite Hs in H. simpl in H.
    destruct (do_batch_cached (mki (moms c) (Some pc) k EARLIEST 0) its pc eq_refl Hm) as [st1 [pc1 [H1 [Hc1 Hm1]]]].
    rewrite H1 in H. injection H as <- <-. intros p Hp. simpl in Hp. rewrite Hc1 in Hp. injection Hp as <-. exact Hm1.
Qed.

Theorem construct_cache_ok its s c' r : construct its s = (c', r) -> cache_ok c'.
Proof.
  unfold construct. intros H. destruct (all_moments its).
  - injection H as <- <-. intros p Hp. discriminate.
  - destruct (is_earliest s).
    + assert (He : cache_matches empty_cache []) by (repeat split).
      destruct (place_items_cached its (mki [] (Some empty_cache) 0 EARLIEST 0) empty_cache eq_refl He) as [st1 [pc1 [H1 [Hc1 Hm1]]]].
      rewrite H1 in H. injection H as <- <-. intros p Hp. simpl in Hp. rewrite Hc1 in Hp. injection Hp as <-. exact Hm1.
    + unfold append in H. eapply insert_cache_ok; [|exact H]. intros p Hp. injection Hp as <-. repeat split.
Qed.

Lemma empty_cache_ok : cache_ok empty_circuit.
Proof. intros p Hp. injection Hp as <-. repeat split. Qed.

(* with a correct cache an EARLIEST append cannot fail *)
Theorem cached_append_succeeds c its pc :
  cache c = Some pc -> cache_matches pc (moms c) -> exists c' z, append c its EARLIEST = (c', inl z).
Proof.
  intros Hc Hm. unfold append, insert.
  assert (Hk : clamp_index (Z.of_nat (length (moms c))) (length (moms c)) = length (moms c)).
  { unfold clamp_index. destruct (0 <=? Z.of_nat (length (moms c))) eqn:E; [|lia]. lia. }
  rewrite Hk, Nat.eqb_refl, Hc. simpl.
  destruct (do_batch_cached (mki (moms c) (Some pc) (length (moms c)) EARLIEST 0) its pc eq_refl Hm) as [st1 [pc1 [H1 _]]].
  rewrite H1. eexists. eexists. reflexivity.
Qed.
