(* C05 model, part 7: several circuit objects.  Definitions only.
   A Circuit is a mutable object.  An expression such as c.copy(), c[1:], c.untagged (of a tagged circuit), c.with_tags(t),
   c + tree, c * n, c ** -1, c.zip(..) makes a NEW object; the mutators edit the object they are called on in place.  The
   store keeps the circuit under edit (`main`) and every object that was put aside (`aside`): the source of a construction
   expression whose result was bound to the variable (SMain with a construction call), or the result of a construction
   expression while the variable kept the source (SSide).  Objects never share state: what an object holds is
   determined by the calls made on it (StoreProofs.v), whatever happens to the objects derived from it or it was derived
   from. *)
From Coq Require Import ZArith List Bool Arith.
From VF Require Import Base.Harness Circ.Moments Circ.Placement Circ.Insert Circ.BatchEdit Circ.History Circ.Compare.
Import ListNotations.
Open Scope Z_scope.

Inductive scall :=
  | SMain (x : call)     (* v = <x on v>; a construction expression binds v to the new object and the old one is put aside *)
  | SSide (x : call)     (* d = <construction expression x on v>; d is put aside, v keeps its object *)
  | SSelf.               (* an expression documented to return the object itself: c.untagged without tags,
                            c.unfreeze(copy=False), c.with_tags() *)

(* the calls whose result is a new object *)
Definition constructs (x : call) : bool :=
  match x with
  | CEmpty | CNew _ _ | CCopy | CWithTags | CSlice _ _ | CAdd _ | CRAdd _ | CMul _ | CInv | CTransform _
  | CZip _ _ | CConcatRagged _ _ => true
  | _ => false
  end.

Definition is_rerr (r : res) : bool := match r with RErr _ => true | _ => false end.

Record sstate := mks { main : cstate; aside : list cstate }.
Definition sinit : sstate := mks empty_circuit [].

Definition sstep (st : sstate) (sc : scall) : sstate * res :=
  match sc with
  | SMain x =>
      let '(c', r) := step (main st) x in
      (mks c' (if constructs x && negb (is_rerr r) then aside st ++ [main st] else aside st), r)
  | SSide x =>
      if constructs x
      then let '(c', r) := step (main st) x in
           if is_rerr r then (st, r) else (mks (main st) (aside st ++ [c']), RMoms (uid_moms (moms c')))
      else (st, RErr OtherError)
  | SSelf => (st, RNone)
  end.

Fixpoint srun (st : sstate) (h : list scall) : sstate :=
  match h with [] => st | x :: r => srun (fst (sstep st x)) r end.
(* after every call: its result and the moments of the circuit under edit *)
Fixpoint strace (st : sstate) (h : list scall) : list (res * list (list Z)) :=
  match h with
  | [] => []
  | x :: r => let '(st', out) := sstep st x in (out, uid_moms (moms (main st'))) :: strace st' r
  end.

(* the calls made on the variable *)
Definition main_calls (h : list scall) : list call :=
  flat_map (fun sc => match sc with SMain x => [x] | _ => [] end) h.

(* ---- correspondence: the trace of the circuit under edit, and at the end the moments of every object put aside ---- *)
Definition check_store_history (hc : list scall * list (res * list (list Z)) * list (list (list Z))) : option nat :=
  let '(h, tr, held) := hc in
  match first_diff 0 (strace sinit h) tr with
  | Some n => Some n
  | None => if list_eqb zll_eqb (map (fun c => uid_moms (moms c)) (aside (srun sinit h))) held
            then None else Some (length h)
  end.

Fixpoint bad_store_from (n : nat) (l : list (list scall * list (res * list (list Z)) * list (list (list Z)))) : list (nat * nat) :=
  match l with
  | [] => []
  | hc :: r => match check_store_history hc with
               | None => bad_store_from (S n) r
               | Some s => (n, s) :: bad_store_from (S n) r
               end
  end.
Definition bad_store_histories l := bad_store_from 0 l.
