(* C12 — proofs about Circ/SubCircuit.v *)
From Coq Require Import ZArith List Bool String Lia Permutation.
From VF Require Import Circ.Keys Circ.KeysProofs Circ.SubCircuit.
Import ListNotations.
Open Scope Z_scope.

(* ---- induction over nested operations ---- *)
Section OpInd.
  Variable P : op -> Prop.
  Hypothesis Hleaf : forall l, P (OLeaf l).
  Hypothesis Hsub : forall c f, Forall (Forall P) c -> P (OSub c f).
  Fixpoint op_ind' (o : op) : P o :=
    match o with
    | OLeaf l => Hleaf l
    | OSub c f =>
        Hsub c f ((fix go (c : list (list op)) : Forall (Forall P) c :=
                     match c with
                     | [] => Forall_nil _
                     | m :: r => Forall_cons m
                                   ((fix gm (m : list op) : Forall P m :=
                                       match m with
                                       | [] => Forall_nil _
                                       | x :: t => Forall_cons x (op_ind' x) (gm t)
                                       end) m) (go r)
                     end) c)
    end.
End OpInd.

(* ---- generic list facts ---- *)
Lemma in_concat_map {A B} (f : A -> list B) (l : list A) (y : B) :
  In y (List.concat (map f l)) <-> exists x, In x l /\ In y (f x).
Proof.
  rewrite in_concat. split.
  - intros [ys [H1 H2]]. apply in_map_iff in H1. destruct H1 as [x [E Hx]]. subst. exists x. auto.
  - intros [x [Hx Hy]]. exists (f x). split; [apply in_map; exact Hx | exact Hy].
Qed.

Lemma mapM_ok {A B} (f : A -> res B) : forall l ys, mapM f l = Ok ys -> Forall2 (fun x y => f x = Ok y) l ys.
Proof.
  induction l as [|x l IH]; intros ys H; simpl in H.
  - inversion H. constructor.
  - destruct (f x) as [y| |] eqn:E; simpl in H; try discriminate.
    destruct (mapM f l) as [ys'| |] eqn:E'; simpl in H; try discriminate.
    inversion H; subst. constructor; [exact E | apply IH; reflexivity].
Qed.

Lemma repeat_app_in {A} (n : nat) (l : list A) x : (0 < n)%nat -> (In x (repeat_app n l) <-> In x l).
Proof.
  induction n as [|n IH]; intro Hn; [lia|]. simpl. rewrite in_app_iff.
  destruct n as [|n]; [simpl; tauto|]. rewrite IH by lia. tauto.
Qed.

(* zsort keeps exactly the elements *)
Lemma zinsert_in x l y : In y (zinsert x l) <-> y = x \/ In y l.
Proof.
  induction l as [|z l IH]; simpl; [intuition|].
  destruct (x <? z) eqn:E1; [simpl; intuition|].
  destruct (x =? z) eqn:E2.
  - apply Z.eqb_eq in E2. subst. simpl. intuition.
  - simpl. rewrite IH. intuition.
Qed.
Lemma zsort_in l y : In y (zsort l) <-> In y l.
Proof.
  induction l as [|x l IH]; simpl; [tauto|]. rewrite zinsert_in, IH. intuition.
Qed.

Lemma key_nodup_in l k : In k (key_nodup l) <-> In k l.
Proof.
  induction l as [|x l IH]; simpl; [tauto|].
  destruct (key_in x l) eqn:E.
  - rewrite IH. apply key_in_In in E. split; [auto|]. intros [->|H]; auto.
  - simpl. rewrite IH. tauto.
Qed.

Lemma str_in_In s l : str_in s l = true <-> In s l.
Proof.
  induction l as [|x l IH]; simpl; [split; [discriminate|tauto]|].
  rewrite orb_true_iff, IH, String.eqb_eq. split; intros [H|H]; auto.
Qed.
Lemma str_nodup_in l s : In s (str_nodup l) <-> In s l.
Proof.
  induction l as [|x l IH]; simpl; [tauto|].
  destruct (str_in x l) eqn:E.
  - rewrite IH. apply str_in_In in E. split; [auto|]. intros [->|H]; auto.
  - simpl. rewrite IH. tauto.
Qed.

(* ---- leaves of zipped / concatenated circuits ---- *)
Lemma circ_leaves_app a b : circ_leaves (a ++ b) = circ_leaves a ++ circ_leaves b.
Proof. induction a as [|m a IH]; simpl; [reflexivity|]. rewrite IH, app_assoc. reflexivity. Qed.

Definition moment_leaves (m : list op) : list leaf := circ_leaves [m].
Lemma circ_leaves_cons m c : circ_leaves (m :: c) = moment_leaves m ++ circ_leaves c.
Proof. unfold moment_leaves. simpl. rewrite app_nil_r. reflexivity. Qed.
Lemma moment_leaves_app a b : moment_leaves (a ++ b) = moment_leaves a ++ moment_leaves b.
Proof.
  unfold moment_leaves. simpl. rewrite !app_nil_r.
  induction a as [|x a IH]; simpl; [reflexivity|]. destruct x; simpl; rewrite IH; reflexivity.
Qed.

Lemma zip2_leaves_in a : forall b x, In x (circ_leaves (zip2 a b)) <-> In x (circ_leaves a) \/ In x (circ_leaves b).
Proof.
  induction a as [|m a IH]; intros b x.
  - simpl. tauto.
  - destruct b as [|m' b].
    + simpl zip2. split; [auto | intros [H|H]; [exact H | simpl in H; destruct H]].
    + simpl zip2. rewrite !circ_leaves_cons, moment_leaves_app, !in_app_iff, IH. tauto.
Qed.
Lemma zip_all_leaves_in l x : In x (circ_leaves (zip_all l)) <-> exists c, In c l /\ In x (circ_leaves c).
Proof.
  induction l as [|c l IH]; simpl.
  - split; [tauto | intros [c [[] _]]].
  - rewrite zip2_leaves_in, IH. split.
    + intros [H|[c' [H1 H2]]]; [exists c; auto | exists c'; auto].
    + intros [c' [[->|H1] H2]]; [left; exact H2 | right; exists c'; auto].
Qed.
Lemma concat_leaves_in (l : list circ) x : In x (circ_leaves (List.concat l)) <-> exists c, In c l /\ In x (circ_leaves c).
Proof.
  induction l as [|c l IH]; simpl.
  - split; [tauto | intros [c [[] _]]].
  - rewrite circ_leaves_app, in_app_iff, IH. split.
    + intros [H|[c' [H1 H2]]]; [exists c; auto | exists c'; auto].
    + intros [c' [[->|H1] H2]]; [left; exact H2 | right; exists c'; auto].
Qed.
Lemma repeat_app_leaves_in n (c : circ) x : (0 < n)%nat -> (In x (circ_leaves (repeat_app n c)) <-> In x (circ_leaves c)).
Proof.
  induction n as [|n IH]; intro Hn; [lia|]. simpl. rewrite circ_leaves_app, in_app_iff.
  destruct n as [|n]; [simpl; tauto|]. rewrite IH by lia. tauto.
Qed.
