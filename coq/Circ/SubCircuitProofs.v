(* C12 — proofs about Circ/SubCircuit.v *)
From Coq Require Import ZArith List Bool String Lia Permutation.
From VF Require Import Circ.Keys Circ.KeysProofs Circ.SubCircuit.
Import ListNotations.
Open Scope Z_scope.

(* ---- induction over nested operations ---- *)
Section OpInd.
  Variable P : op -> Prop.
  Hypothesis Hleaf : forall l, P (OLeaf l).
  Hypothesis Hsub : forall c f, Forall (Forall P) c -> P (OSub c f).
  Fixpoint op_ind' (o : op) : P o :=
    match o with
    | OLeaf l => Hleaf l
    | OSub c f =>
        Hsub c f ((fix go (c : list (list op)) : Forall (Forall P) c :=
                     match c with
                     | [] => Forall_nil _
                     | m :: r => Forall_cons m
                                   ((fix gm (m : list op) : Forall P m :=
                                       match m with
                                       | [] => Forall_nil _
                                       | x :: t => Forall_cons x (op_ind' x) (gm t)
                                       end) m) (go r)
                     end) c)
    end.
End OpInd.

(* ---- generic list facts ---- *)
Lemma in_concat_map {A B} (f : A -> list B) (l : list A) (y : B) :
  In y (List.concat (map f l)) <-> exists x, In x l /\ In y (f x).
Proof.
  rewrite in_concat. split.
  - intros [ys [H1 H2]]. apply in_map_iff in H1. destruct H1 as [x [E Hx]]. subst. exists x. auto.
  - intros [x [Hx Hy]]. exists (f x). split; [apply in_map; exact Hx | exact Hy].
Qed.

Lemma mapM_ok {A B} (f : A -> res B) : forall l ys, mapM f l = Ok ys -> Forall2 (fun x y => f x = Ok y) l ys.
Proof.
  induction l as [|x l IH]; intros ys H; simpl in H.
  - inversion H. constructor.
  - destruct (f x) as [y| |] eqn:E; simpl in H; try discriminate.
    destruct (mapM f l) as [ys'| |] eqn:E'; simpl in H; try discriminate.
    inversion H; subst. constructor; [exact E | apply IH; reflexivity].
Qed.

Lemma repeat_app_in {A} (n : nat) (l : list A) x : (0 < n)%nat -> (In x (repeat_app n l) <-> In x l).
Proof.
  induction n as [|n IH]; intro Hn; [lia|]. simpl. rewrite in_app_iff.
  destruct n as [|n]; [simpl; tauto|]. rewrite IH by lia. tauto.
Qed.

(* zsort keeps exactly the elements *)
Lemma zinsert_in x l y : In y (zinsert x l) <-> y = x \/ In y l.
Proof.
  induction l as [|z l IH]; simpl; [intuition|].
  destruct (x <? z) eqn:E1; [simpl; intuition|].
  destruct (x =? z) eqn:E2.
  - apply Z.eqb_eq in E2. subst. simpl. intuition.
  - simpl. rewrite IH. intuition.
Qed.
Lemma zsort_in l y : In y (zsort l) <-> In y l.
Proof.
  induction l as [|x l IH]; simpl; [tauto|]. rewrite zinsert_in, IH. intuition.
Qed.

Lemma key_nodup_in l k : In k (key_nodup l) <-> In k l.
Proof.
  induction l as [|x l IH]; simpl; [tauto|].
  destruct (key_in x l) eqn:E.
  - rewrite IH. apply key_in_In in E. split; [auto|]. intros [->|H]; auto.
  - simpl. rewrite IH. tauto.
Qed.

Lemma str_in_In s l : str_in s l = true <-> In s l.
Proof.
  induction l as [|x l IH]; simpl; [split; [discriminate|tauto]|].
  rewrite orb_true_iff, IH, String.eqb_eq. split; intros [H|H]; auto.
Qed.
Lemma str_nodup_in l s : In s (str_nodup l) <-> In s l.
Proof.
  induction l as [|x l IH]; simpl; [tauto|].
  destruct (str_in x l) eqn:E.
  - rewrite IH. apply str_in_In in E. split; [auto|]. intros [->|H]; auto.
  - simpl. rewrite IH. tauto.
Qed.

(* ---- leaves of zipped / concatenated circuits ---- *)
Lemma circ_leaves_app a b : circ_leaves (a ++ b) = circ_leaves a ++ circ_leaves b.
Proof. induction a as [|m a IH]; simpl; [reflexivity|]. rewrite IH, app_assoc. reflexivity. Qed.

Definition moment_leaves (m : list op) : list leaf := circ_leaves [m].
Lemma circ_leaves_cons m c : circ_leaves (m :: c) = moment_leaves m ++ circ_leaves c.
Proof. unfold moment_leaves. simpl. rewrite app_nil_r. reflexivity. Qed.
Lemma moment_leaves_app a b : moment_leaves (a ++ b) = moment_leaves a ++ moment_leaves b.
Proof.
  unfold moment_leaves. simpl. rewrite !app_nil_r.
  induction a as [|x a IH]; simpl; [reflexivity|]. destruct x; simpl; rewrite IH; reflexivity.
Qed.

Lemma zip2_leaves_in a : forall b x, In x (circ_leaves (zip2 a b)) <-> In x (circ_leaves a) \/ In x (circ_leaves b).
Proof.
  induction a as [|m a IH]; intros b x.
  - simpl. tauto.
  - destruct b as [|m' b].
    + simpl zip2. split; [auto | intros [H|H]; [exact H | simpl in H; destruct H]].
    + simpl zip2. rewrite !circ_leaves_cons, moment_leaves_app, !in_app_iff, IH. tauto.
Qed.
Lemma zip_all_leaves_in l x : In x (circ_leaves (zip_all l)) <-> exists c, In c l /\ In x (circ_leaves c).
Proof.
  induction l as [|c l IH]; simpl.
  - split; [tauto | intros [c [[] _]]].
  - rewrite zip2_leaves_in, IH. split.
    + intros [H|[c' [H1 H2]]]; [exists c; auto | exists c'; auto].
    + intros [c' [[->|H1] H2]]; [left; exact H2 | right; exists c'; auto].
Qed.
Lemma concat_leaves_in (l : list circ) x : In x (circ_leaves (List.concat l)) <-> exists c, In c l /\ In x (circ_leaves c).
Proof.
  induction l as [|c l IH]; simpl.
  - split; [tauto | intros [c [[] _]]].
  - rewrite circ_leaves_app, in_app_iff, IH. split.
    + intros [H|[c' [H1 H2]]]; [exists c; auto | exists c'; auto].
    + intros [c' [[->|H1] H2]]; [left; exact H2 | right; exists c'; auto].
Qed.
Lemma repeat_app_leaves_in n (c : circ) x : (0 < n)%nat -> (In x (circ_leaves (repeat_app n c)) <-> In x (circ_leaves c)).
Proof.
  induction n as [|n IH]; intro Hn; [lia|]. simpl. rewrite circ_leaves_app, in_app_iff.
  destruct n as [|n]; [simpl; tauto|]. rewrite IH by lia. tauto.
Qed.

(* ---- what the one-level transformations do to the keys an operation reports ---- *)
Lemma key_map_nil k : key_map [] k = k.
Proof. destruct k. reflexivity. Qed.

Definition id_prefixes (f : subf) : list (list string) :=
  match ids f with
  | Some l => if use_ids f then map (fun id => [id]) l else [[]]
  | None => [[]]
  end.

Lemma sub_keys_in f ck k :
  In k (sub_keys f ck) <->
  exists k0 p, In k0 ck /\ In p (id_prefixes f) /\ k = key_map (km f) (key_prefix (ppath f) (key_prefix p k0)).
Proof.
  unfold sub_keys, id_prefixes. rewrite in_map_iff. split.
  - intros [k1 [E H]]. apply in_map_iff in H. destruct H as [k2 [E2 H]]. subst.
    destruct (ids f) as [l|].
    + destruct ck as [|c0 ck']; [destruct H|]. cbn [isnil negb andb] in H. destruct (use_ids f).
      * apply in_concat_map in H. destruct H as [id [Hid H]]. apply in_map_iff in H. destruct H as [k0 [E0 H0]]. subst.
        exists k0, [id]. split; [exact H0|]. split; [apply in_map_iff; exists id; split; [reflexivity | exact Hid] | reflexivity].
      * exists k2, []. split; [exact H|]. split; [left; reflexivity | rewrite key_prefix_nil; reflexivity].
    + exists k2, []. split; [exact H|]. split; [left; reflexivity | rewrite key_prefix_nil; reflexivity].
  - intros [k0 [p [H0 [Hp E]]]]. subst. exists (key_prefix (ppath f) (key_prefix p k0)). split; [reflexivity|].
    apply in_map. destruct (ids f) as [l|].
    + destruct ck as [|c0 ck']; [destruct H0|]. cbn [isnil negb andb]. destruct (use_ids f).
      * apply in_map_iff in Hp. destruct Hp as [id [E Hid]]. subst. apply in_concat_map. exists id. split; [exact Hid|].
        apply in_map. exact H0.
      * destruct Hp as [<-|[]]. rewrite key_prefix_nil. exact H0.
    + destruct Hp as [<-|[]]. rewrite key_prefix_nil. exact H0.
Qed.

Definition body_keys (c : circ) : list mkey := List.concat (map (fun m => List.concat (map op_mkeys m)) c).
Definition body_names (c : circ) : list string := List.concat (map (fun m => List.concat (map op_names m)) c).

Lemma body_keys_in c k : In k (body_keys c) <-> exists m o, In m c /\ In o m /\ In k (op_mkeys o).
Proof.
  unfold body_keys. rewrite in_concat_map. split.
  - intros [m [Hm H]]. apply in_concat_map in H. destruct H as [o [Ho H]]. exists m, o. auto.
  - intros [m [o [Hm [Ho H]]]]. exists m. split; [exact Hm|]. apply in_concat_map. exists o. auto.
Qed.
Lemma body_names_in c s : In s (body_names c) <-> exists m o, In m c /\ In o m /\ In s (op_names o).
Proof.
  unfold body_names. rewrite in_concat_map. split.
  - intros [m [Hm H]]. apply in_concat_map in H. destruct H as [o [Ho H]]. exists m, o. auto.
  - intros [m [o [Hm [Ho H]]]]. exists m. split; [exact Hm|]. apply in_concat_map. exists o. auto.
Qed.

Lemma op_mkeys_sub c f : op_mkeys (OSub c f) = sub_keys f (key_nodup (body_keys c)).
Proof. reflexivity. Qed.
Lemma op_names_sub c f : op_names (OSub c f) = map (name_map (km f)) (body_names c ++ until_names f).
Proof. reflexivity. Qed.

(* the names of the measured keys are among the names the operation touches *)
Lemma op_mkeys_names : forall o k, In k (op_mkeys o) -> In (kname k) (op_names o).
Proof.
  induction o as [l|c f IH] using op_ind'; intros k H.
  - simpl in *. apply in_app_iff. left. apply in_map. exact H.
  - rewrite op_mkeys_sub in H. rewrite op_names_sub. apply sub_keys_in in H.
    destruct H as [k0 [p [H0 [_ E]]]]. subst. apply (proj1 (key_nodup_in _ _)) in H0. apply (proj1 (body_keys_in _ _)) in H0.
    destruct H0 as [m [o [Hm [Ho Hk]]]]. simpl. apply in_map. apply in_or_app. left. apply body_names_in. exists m, o. split; [exact Hm|].
    split; [exact Ho|]. rewrite Forall_forall in IH. specialize (IH m Hm). rewrite Forall_forall in IH. apply (IH o Ho). exact Hk.
Qed.

Lemma op_names_nil_keys o : op_names o = [] -> op_mkeys o = [].
Proof.
  intro H. destruct (op_mkeys o) as [|k r] eqn:E; [reflexivity|].
  assert (In (kname k) (op_names o)) by (apply op_mkeys_names; rewrite E; left; reflexivity). rewrite H in H0. destruct H0.
Qed.

Lemma mkeys_qmap g o : op_mkeys (t_qmap g o) = op_mkeys o.
Proof. destruct o; reflexivity. Qed.

Lemma mkeys_inv o o' : t_inv o = Ok o' -> op_mkeys o' = op_mkeys o.
Proof.
  destruct o as [l|c f]; simpl.
  - destruct (isnil (lmk l) && isnil (lcs l)); [|discriminate]. intro H. inversion H. reflexivity.
  - destruct (until f) eqn:Eu; [discriminate|].
    destruct (match reps f with RInt n => if 0 <? n then forallb (fun m => forallb op_invertible m) c else true
                          | RSym _ _ => true end); [|discriminate]. intro H. inversion H. reflexivity.
Qed.

Lemma mkeys_resolve pm o : op_mkeys (t_resolve pm o) = op_mkeys o.
Proof. destruct o; reflexivity. Qed.

Lemma mkeys_rescope kK kM path b o : op_mkeys (t_rescope kK kM path b o) = map (key_prefix path) (op_mkeys o).
Proof.
  destruct o as [l|c f]; [reflexivity|].
  cbn [t_rescope]. rewrite !op_mkeys_sub. unfold sub_keys. cbn [ids use_ids km ppath set_scope].
  rewrite !map_map. apply map_ext. intro k. rewrite <- key_prefix_assoc, key_map_prefix_commute. reflexivity.
Qed.

Lemma mkeys_kmap kK kM m o k :
  In k (op_mkeys (t_kmap kK kM m o)) <-> exists k0, In k0 (op_mkeys o) /\ k = key_map m k0.
Proof.
  destruct o as [l|c f].
  - simpl. rewrite in_map_iff. split; intros [k0 [H1 H2]]; exists k0; auto.
  - cbn [t_kmap]. rewrite !op_mkeys_sub. split.
    + intro H. apply sub_keys_in in H. destruct H as [k0 [p [H0 [Hp E]]]]. cbn [km ppath set_km] in E.
      exists (key_map (km f) (key_prefix (ppath f) (key_prefix p k0))). split.
      * apply sub_keys_in. exists k0, p. split; [exact H0|]. split; [exact Hp | reflexivity].
      * subst. apply key_map_compose. simpl. apply str_nodup_in. apply in_or_app. left. apply (proj1 (key_nodup_in _ _)) in H0. apply (proj1 (body_keys_in _ _)) in H0.
        destruct H0 as [mo [o [Hm [Ho Hk]]]]. apply body_names_in. exists mo, o. split; [exact Hm|]. split; [exact Ho|].
        apply op_mkeys_names. exact Hk.
    + intros [k1 [H E]]. apply sub_keys_in in H. destruct H as [k0 [p [H0 [Hp E1]]]]. subst.
      apply sub_keys_in. exists k0, p. split; [exact H0|]. split; [exact Hp|]. cbn [km ppath set_km]. symmetry.
      apply key_map_compose. simpl. apply str_nodup_in. apply in_or_app. left. apply (proj1 (key_nodup_in _ _)) in H0. apply (proj1 (body_keys_in _ _)) in H0.
      destruct H0 as [mo [o [Hm [Ho Hk]]]]. apply body_names_in. exists mo, o. split; [exact Hm|]. split; [exact Ho|].
      apply op_mkeys_names. exact Hk.
Qed.

(* ---- circuit-level: keys reported by the operations of the mapped loops ---- *)
Lemma Forall2_in_l {A B} (R : A -> B -> Prop) l l' : Forall2 R l l' -> forall x, In x l -> exists y, In y l' /\ R x y.
Proof.
  induction 1 as [|a b l l' Hab H IH]; intros x Hx; [destruct Hx|].
  destruct Hx as [->|Hx]; [exists b; split; [left; reflexivity | exact Hab]|].
  destruct (IH x Hx) as [y [Hy Hr]]. exists y. split; [right; exact Hy | exact Hr].
Qed.
Lemma Forall2_in_r {A B} (R : A -> B -> Prop) l l' : Forall2 R l l' -> forall y, In y l' -> exists x, In x l /\ R x y.
Proof.
  induction 1 as [|a b l l' Hab H IH]; intros y Hy; [destruct Hy|].
  destruct Hy as [->|Hy]; [exists a; split; [left; reflexivity | exact Hab]|].
  destruct (IH y Hy) as [x [Hx Hr]]. exists x. split; [right; exact Hx | exact Hr].
Qed.

Lemma body_keys_map_ext (F : op -> op) (R : mkey -> mkey -> Prop) c :
  (forall o k, In k (op_mkeys (F o)) <-> exists k0, In k0 (op_mkeys o) /\ R k0 k) ->
  forall k, In k (body_keys (map (map F) c)) <-> exists k0, In k0 (body_keys c) /\ R k0 k.
Proof.
  intros HF k. rewrite body_keys_in. split.
  - intros [m [o [Hm [Ho Hk]]]]. apply in_map_iff in Hm. destruct Hm as [m0 [E Hm0]]. subst.
    apply in_map_iff in Ho. destruct Ho as [o0 [E Ho0]]. subst. apply HF in Hk. destruct Hk as [k0 [Hk0 Hr]].
    exists k0. split; [|exact Hr]. apply body_keys_in. exists m0, o0. auto.
  - intros [k0 [Hk0 Hr]]. apply body_keys_in in Hk0. destruct Hk0 as [m [o [Hm [Ho Hk]]]].
    exists (map F m), (F o). split; [apply in_map; exact Hm|]. split; [apply in_map; exact Ho|].
    apply HF. exists k0. auto.
Qed.

Lemma body_keys_qmap g c k : In k (body_keys (map (map (t_qmap g)) c)) <-> In k (body_keys c).
Proof.
  rewrite (body_keys_map_ext (t_qmap g) eq).
  - split; [intros [k0 [H ->]]; exact H | intro H; exists k; auto].
  - intros o k'. rewrite mkeys_qmap. split; [intro H; exists k'; auto | intros [k0 [H ->]]; exact H].
Qed.
Lemma body_keys_resolve pm c k : In k (body_keys (map (map (t_resolve pm)) c)) <-> In k (body_keys c).
Proof.
  rewrite (body_keys_map_ext (t_resolve pm) eq).
  - split; [intros [k0 [H ->]]; exact H | intro H; exists k; auto].
  - intros o k'. rewrite mkeys_resolve. split; [intro H; exists k'; auto | intros [k0 [H ->]]; exact H].
Qed.

Lemma moment_kmap_keys kK kM m o k :
  In k (op_mkeys (if isnil (op_names o) then o else t_kmap kK kM m o)) <-> exists k0, In k0 (op_mkeys o) /\ key_map m k0 = k.
Proof.
  destruct (op_names o) as [|s r] eqn:E; cbn [isnil].
  - rewrite (op_names_nil_keys o E). split; [intros [] | intros [k0 [[] _]]].
  - rewrite mkeys_kmap. split; intros [k0 [H1 H2]]; exists k0; auto.
Qed.
Lemma body_keys_kmap kK kM m c k :
  In k (body_keys (map (moment_kmap kK kM m) c)) <-> exists k0, In k0 (body_keys c) /\ key_map m k0 = k.
Proof.
  unfold moment_kmap. apply (body_keys_map_ext (fun o => if isnil (op_names o) then o else t_kmap kK kM m o)
                                             (fun k0 k => key_map m k0 = k)).
  intros o k'. apply moment_kmap_keys.
Qed.

Lemma body_keys_inv c c' k : circ_inv c = Ok c' -> (In k (body_keys c') <-> In k (body_keys c)).
Proof.
  unfold circ_inv. intro H. apply mapM_ok in H. rewrite !body_keys_in. split.
  - intros [m' [o' [Hm [Ho Hk]]]]. destruct (Forall2_in_r _ _ _ H m' Hm) as [m [Hmr Hmm]].
    apply mapM_ok in Hmm. destruct (Forall2_in_r _ _ _ Hmm o' Ho) as [o [Hom Hoo]].
    exists m, o. split; [apply in_rev; exact Hmr|]. split; [exact Hom|]. rewrite <- (mkeys_inv o o' Hoo). exact Hk.
  - intros [m [o [Hm [Ho Hk]]]]. apply in_rev in Hm. destruct (Forall2_in_l _ _ _ H m Hm) as [m' [Hm' Hmm]].
    apply mapM_ok in Hmm. destruct (Forall2_in_l _ _ _ Hmm o Ho) as [o' [Ho' Hoo]].
    exists m', o'. split; [exact Hm'|]. split; [exact Ho'|]. rewrite (mkeys_inv o o' Hoo). exact Hk.
Qed.

Lemma body_keys_rescope kK kM path : forall c b k,
  In k (body_keys (circ_rescope kK kM path b c)) <-> exists k0, In k0 (body_keys c) /\ k = key_prefix path k0.
Proof.
  induction c as [|m c IH]; intros b k.
  - simpl. split; [intros [] | intros [k0 [[] _]]].
  - cbn [circ_rescope]. unfold body_keys in *. cbn [map List.concat]. rewrite !in_app_iff, IH. split.
    + intros [H|[k0 [H E]]].
      * apply in_concat_map in H. destruct H as [o' [Ho' Hk]]. apply in_map_iff in Ho'. destruct Ho' as [o [E Ho]]. subst.
        rewrite mkeys_rescope in Hk. apply in_map_iff in Hk. destruct Hk as [k0 [E Hk0]]. exists k0. split; [|auto].
        apply in_app_iff. left. apply in_concat_map. exists o. auto.
      * exists k0. split; [apply in_app_iff; right; exact H | exact E].
    + intros [k0 [H E]]. apply in_app_iff in H. destruct H as [H|H].
      * left. apply in_concat_map in H. destruct H as [o [Ho Hk]]. apply in_concat_map. exists (t_rescope kK kM path b o).
        split; [apply in_map; exact Ho|]. rewrite mkeys_rescope. subst. apply in_map. exact Hk.
      * right. exists k0. auto.
Qed.

Lemma any_loop_keys kK kM c f a k :
  any_loop kK kM c f = Ok a -> (In k (body_keys a) <-> exists k0, In k0 (body_keys c) /\ k = key_map (km f) k0).
Proof.
  unfold any_loop. intro H.
  set (c1 := if isnil (qm f) then c else map (map (t_qmap (zlookup (qm f)))) c) in *.
  assert (H1 : forall k, In k (body_keys c1) <-> In k (body_keys c)).
  { intro k'. unfold c1. destruct (isnil (qm f)); [tauto | apply body_keys_qmap]. }
  destruct (if rep_negative (reps f) then circ_inv c1 else Ok c1) as [c2| |] eqn:E2; simpl in H; try discriminate.
  assert (H2 : forall k, In k (body_keys c2) <-> In k (body_keys c)).
  { intro k'. rewrite <- H1. destruct (rep_negative (reps f)); [apply body_keys_inv; exact E2 | inversion E2; tauto]. }
  set (c3 := if isnil (km f) then c2 else map (moment_kmap kK kM (km f)) c2) in *.
  assert (H3 : forall k, In k (body_keys c3) <-> exists k0, In k0 (body_keys c) /\ k = key_map (km f) k0).
  { intro k'. unfold c3. destruct (km f) as [|p r] eqn:Ekm; cbn [isnil].
    - rewrite H2. split; [intro Hk; exists k'; split; [exact Hk | rewrite key_map_nil; reflexivity]
                         | intros [k0 [Hk ->]]; rewrite key_map_nil; exact Hk].
    - rewrite body_keys_kmap. split; intros [k0 [Hk E]]; exists k0; (split; [apply H2; exact Hk | auto]). }
  inversion H; subst a. destruct (isnil (pm f)); [apply H3 | rewrite body_keys_resolve; apply H3].
Qed.

Definition rid_path (rid : option string) : list string := match rid with Some r => [r] | None => [] end.

Lemma single_loop_keys kK kM c f rid s k :
  single_loop kK kM c f rid = Ok s ->
  (In k (body_keys s) <-> exists k0, In k0 (body_keys c) /\
                                     k = key_map (km f) (key_prefix (ppath f) (key_prefix (rid_path rid) k0))).
Proof.
  unfold single_loop. destruct (any_loop kK kM c f) as [a| |] eqn:Ea; simpl; try discriminate.
  intro H. inversion H; subst s. rewrite body_keys_rescope. split.
  - intros [k1 [H1 ->]]. destruct rid as [r|].
    + apply body_keys_rescope in H1. destruct H1 as [k2 [H2 ->]].
      apply (any_loop_keys _ _ _ _ _ _ Ea) in H2. destruct H2 as [k0 [H0 ->]]. exists k0. split; [exact H0|].
      simpl. rewrite !key_map_prefix_commute. reflexivity.
    + apply (any_loop_keys _ _ _ _ _ _ Ea) in H1. destruct H1 as [k0 [H0 ->]]. exists k0. split; [exact H0|].
      simpl. rewrite key_prefix_nil, key_map_prefix_commute. reflexivity.
  - intros [k0 [H0 ->]]. destruct rid as [r|]; simpl.
    + exists (key_prefix [r] (key_map (km f) k0)). split; [|rewrite !key_map_prefix_commute; reflexivity].
      apply body_keys_rescope. exists (key_map (km f) k0). split; [|reflexivity].
      apply (any_loop_keys _ _ _ _ _ _ Ea). exists k0. auto.
    + exists (key_map (km f) k0). split; [|rewrite key_prefix_nil, key_map_prefix_commute; reflexivity].
      apply (any_loop_keys _ _ _ _ _ _ Ea). exists k0. auto.
Qed.

Lemma no_elements_nil {A} (l : list A) : (forall x, ~ In x l) -> l = [].
Proof. destruct l as [|a l]; [reflexivity|]. intro H. exfalso. apply (H a). left. reflexivity. Qed.

Lemma body_keys_app a b : body_keys (a ++ b) = body_keys a ++ body_keys b.
Proof. unfold body_keys. rewrite map_app, concat_app. reflexivity. Qed.
Lemma body_keys_concat (ls : list circ) k : In k (body_keys (List.concat ls)) <-> exists s, In s ls /\ In k (body_keys s).
Proof.
  induction ls as [|s ls IH]; simpl.
  - split; [intros [] | intros [s [[] _]]].
  - rewrite body_keys_app, in_app_iff, IH. split.
    + intros [H|[s' [H1 H2]]]; [exists s; auto | exists s'; auto].
    + intros [s' [[->|H1] H2]]; [left; exact H2 | right; exists s'; auto].
Qed.
Lemma body_keys_repeat n (s : circ) k : (0 < n)%nat -> (In k (body_keys (repeat_app n s)) <-> In k (body_keys s)).
Proof.
  induction n as [|n IH]; intro Hn; [lia|]. simpl. rewrite body_keys_app, in_app_iff.
  destruct n as [|n]; [simpl; tauto|]. rewrite IH by lia. tauto.
Qed.

Lemma not_meas_no_keys : forall o, op_is_meas o = false -> op_mkeys o = [].
Proof.
  induction o as [l|c f IH] using op_ind'; intro H.
  - simpl in *. destruct (lmk l); [reflexivity | discriminate].
  - rewrite op_mkeys_sub. assert (E : body_keys c = []).
    { apply no_elements_nil. intros k Hk. apply body_keys_in in Hk. destruct Hk as [m [o [Hm [Ho Hk]]]].
      rewrite Forall_forall in IH. specialize (IH m Hm). rewrite Forall_forall in IH.
      rewrite (IH o Ho) in Hk; [destruct Hk|].
      simpl in H. destruct (op_is_meas o) eqn:Eo; [|reflexivity]. exfalso.
      assert (existsb (fun m => existsb op_is_meas m) c = true).
      { apply existsb_exists. exists m. split; [exact Hm|]. apply existsb_exists. exists o. auto. }
      congruence. }
    rewrite E. unfold sub_keys. simpl. destruct (ids f); reflexivity.
Qed.
Lemma circ_not_meas_no_keys c : circ_is_meas c = false -> body_keys c = [].
Proof.
  intro H. apply no_elements_nil. intros k Hk. apply body_keys_in in Hk. destruct Hk as [m [o [Hm [Ho Hk]]]].
  rewrite not_meas_no_keys in Hk; [destruct Hk|]. destruct (op_is_meas o) eqn:Eo; [|reflexivity]. exfalso.
  assert (circ_is_meas c = true).
  { apply existsb_exists. exists m. split; [exact Hm|]. apply existsb_exists. exists o. auto. }
  congruence.
Qed.

(* mapped_circuit(deep=False): the operations of the mapped circuit report exactly the keys the CircuitOperation reports *)
Lemma shallow_keys kK kM n c f body r :
  mapped_circuit kK kM (S n) false c f = Ok body -> reps f = RInt r -> r <> 0 ->
  forall k, In k (body_keys body) <-> In k (op_mkeys (OSub c f)).
Proof.
  intros H Hr Hnz k. cbn [mapped_circuit] in H. rewrite Hr in H.
  destruct (until f) as [u|]; [discriminate|].
  destruct (r =? 0) eqn:E0; [apply Z.eqb_eq in E0; contradiction|].
  assert (Hpos : (0 < Z.abs_nat r)%nat) by lia.
  rewrite op_mkeys_sub, sub_keys_in. unfold id_prefixes.
  assert (Plain : forall s, single_loop kK kM c f None = Ok s ->
            (In k (body_keys s) <-> exists k0 p, In k0 (key_nodup (body_keys c)) /\ In p [[]] /\
                                               k = key_map (km f) (key_prefix (ppath f) (key_prefix p k0)))).
  { intros s Hs. rewrite (single_loop_keys _ _ _ _ _ _ _ Hs). simpl. split.
    - intros [k0 [H0 E]]. exists k0, []. split; [apply key_nodup_in; exact H0|]. split; [left; reflexivity | exact E].
    - intros [k0 [p [H0 [[<-|[]] E]]]]. exists k0. split; [apply key_nodup_in; exact H0 | exact E]. }
  destruct (ids f) as [l|] eqn:Eids.
  - destruct (use_ids f) eqn:Eu; cbn [andb] in H.
    + destruct (circ_is_meas c) eqn:Em.
      * destruct (mapM (fun id => single_loop kK kM c f (Some id)) l) as [ls| |] eqn:El; simpl in H; try discriminate.
        inversion H; subst body. apply mapM_ok in El. rewrite body_keys_concat. split.
        -- intros [s [Hs Hk]]. destruct (Forall2_in_r _ _ _ El s Hs) as [id [Hid Hsl]].
           apply (single_loop_keys _ _ _ _ _ _ _ Hsl) in Hk. destruct Hk as [k0 [H0 E]]. exists k0, [id].
           split; [apply key_nodup_in; exact H0|]. split; [apply in_map_iff; exists id; auto | exact E].
        -- intros [k0 [p [H0 [Hp E]]]]. apply in_map_iff in Hp. destruct Hp as [id [<- Hid]].
           destruct (Forall2_in_l _ _ _ El id Hid) as [s [Hs Hsl]]. exists s. split; [exact Hs|].
           apply (single_loop_keys _ _ _ _ _ _ _ Hsl). exists k0. split; [apply (proj1 (key_nodup_in _ _)) in H0; exact H0 | exact E].
      * destruct (single_loop kK kM c f None) as [s| |] eqn:Es; simpl in H; try discriminate.
        inversion H; subst body. rewrite body_keys_repeat by exact Hpos.
        rewrite (single_loop_keys _ _ _ _ _ _ _ Es). rewrite (circ_not_meas_no_keys c Em). simpl.
        split; [intros [k0 [[] _]] | intros [k0 [p [[] _]]]].
    + destruct (single_loop kK kM c f None) as [s| |] eqn:Es; simpl in H; try discriminate.
      inversion H; subst body. rewrite body_keys_repeat by exact Hpos. apply Plain. reflexivity.
  - destruct (single_loop kK kM c f None) as [s| |] eqn:Es; simpl in H; try discriminate.
    inversion H; subst body. rewrite body_keys_repeat by exact Hpos. apply Plain. reflexivity.
Qed.

(* ---- non-zero repetition counts are preserved by the transformations ---- *)
Definition AllOps (P : op -> Prop) (c : circ) : Prop := forall m o, In m c -> In o m -> P o.
Definition Nz (o : op) : Prop := op_ok o = true.

Lemma nz_sub c f : Nz (OSub c f) <->
  (exists r, reps f = RInt r /\ r <> 0 /\ (forall l, ids f = Some l -> List.length l = Z.abs_nat r)) /\ AllOps Nz c.
Proof.
  unfold Nz, AllOps. simpl. rewrite andb_true_iff, forallb_forall. unfold ids_ok. split.
  - intros [H1 H2]. split.
    + destruct (reps f) as [r|b s]; [|discriminate]. apply andb_true_iff in H1. destruct H1 as [H1 H1'].
      exists r. split; [reflexivity|]. split; [apply negb_true_iff, Z.eqb_neq in H1; exact H1|].
      intros l Hl. rewrite Hl in H1'. apply Nat.eqb_eq. exact H1'.
    + intros m o Hm Ho. specialize (H2 m Hm). rewrite forallb_forall in H2. apply H2. exact Ho.
  - intros [[r [Hr [Hnz Hl]]] H2]. split.
    + rewrite Hr. apply andb_true_iff. split; [apply negb_true_iff, Z.eqb_neq; exact Hnz|].
      destruct (ids f) as [l|]; [apply Nat.eqb_eq; apply Hl; reflexivity | reflexivity].
    + intros m Hm. apply forallb_forall. intros o Ho. apply (H2 m o Hm Ho).
Qed.

Lemma nz_qmap g o : Nz o -> Nz (t_qmap g o).
Proof. destruct o; unfold Nz; simpl; auto. Qed.
Lemma nz_kmap kK kM m o : Nz o -> Nz (t_kmap kK kM m o).
Proof. destruct o; unfold Nz; simpl; auto. Qed.
Lemma nz_rescope kK kM p b o : Nz o -> Nz (t_rescope kK kM p b o).
Proof. destruct o; unfold Nz; simpl; auto. Qed.
Lemma nz_resolve pm o : Nz o -> Nz (t_resolve pm o).
Proof.
  destruct o as [l|c f]; unfold Nz; simpl; auto. unfold ids_ok. simpl. destruct (reps f) as [r|b s]; simpl; [auto|discriminate].
Qed.
Lemma nz_inv o o' : t_inv o = Ok o' -> Nz o -> Nz o'.
Proof.
  destruct o as [l|c f]; simpl.
  - destruct (isnil (lmk l) && isnil (lcs l)); [|discriminate]. intro H. inversion H. unfold Nz. reflexivity.
  - destruct (until f) eqn:Eu; [discriminate|].
    destruct (match reps f with RInt n => if 0 <? n then forallb (fun m => forallb op_invertible m) c else true
                          | RSym _ _ => true end); [|discriminate].
    intro H. inversion H. unfold Nz. simpl. unfold ids_ok. simpl. destruct (reps f) as [r|b s]; simpl; [|auto].
    replace (- r =? 0) with (r =? 0).
    + replace (Z.abs_nat (- r)) with (Z.abs_nat r) by lia. auto.
    + destruct (r =? 0) eqn:E; symmetry.
      * apply Z.eqb_eq in E. subst. reflexivity.
      * apply Z.eqb_neq in E. apply Z.eqb_neq. lia.
Qed.

Lemma allops_map (P : op -> Prop) F c : (forall o, P o -> P (F o)) -> AllOps P c -> AllOps P (map (map F) c).
Proof.
  intros HF H m o Hm Ho. apply in_map_iff in Hm. destruct Hm as [m0 [<- Hm0]].
  apply in_map_iff in Ho. destruct Ho as [o0 [<- Ho0]]. apply HF. apply (H m0 o0 Hm0 Ho0).
Qed.
Lemma allops_app (P : op -> Prop) a b : AllOps P a -> AllOps P b -> AllOps P (a ++ b).
Proof. intros Ha Hb m o Hm Ho. apply in_app_iff in Hm. destruct Hm; [eapply Ha | eapply Hb]; eauto. Qed.
Lemma allops_concat (P : op -> Prop) (ls : list circ) : (forall s, In s ls -> AllOps P s) -> AllOps P (List.concat ls).
Proof.
  induction ls as [|s ls IH]; intro H; simpl.
  - intros m o [].
  - apply allops_app; [apply H; left; reflexivity | apply IH; intros s' Hs'; apply H; right; exact Hs'].
Qed.
Lemma allops_repeat (P : op -> Prop) n (s : circ) : AllOps P s -> AllOps P (repeat_app n s).
Proof. intro H. induction n as [|n IH]; simpl; [intros m o [] | apply allops_app; assumption]. Qed.
Lemma allops_rescope kK kM path : forall c b, AllOps Nz c -> AllOps Nz (circ_rescope kK kM path b c).
Proof.
  induction c as [|m c IH]; intros b H; cbn [circ_rescope]; [intros m o []|].
  intros m' o Hm Ho. destruct Hm as [<-|Hm].
  - apply in_map_iff in Ho. destruct Ho as [o0 [<- Ho0]]. apply nz_rescope. apply (H m o0); [left; reflexivity | exact Ho0].
  - apply (IH _ (fun m0 o0 Hm0 Ho0 => H m0 o0 (or_intror Hm0) Ho0) m' o Hm Ho).
Qed.
Lemma allops_inv c c' : circ_inv c = Ok c' -> AllOps Nz c -> AllOps Nz c'.
Proof.
  unfold circ_inv. intros H Hc m' o' Hm Ho. apply mapM_ok in H.
  destruct (Forall2_in_r _ _ _ H m' Hm) as [m [Hmr Hmm]]. apply mapM_ok in Hmm.
  destruct (Forall2_in_r _ _ _ Hmm o' Ho) as [o [Hom Hoo]]. apply (nz_inv o o' Hoo). apply (Hc m o); [apply in_rev; exact Hmr | exact Hom].
Qed.

Lemma any_loop_ok kK kM c f a : any_loop kK kM c f = Ok a -> AllOps Nz c -> AllOps Nz a.
Proof.
  unfold any_loop. intros H Hc.
  set (c1 := if isnil (qm f) then c else map (map (t_qmap (zlookup (qm f)))) c) in *.
  assert (H1 : AllOps Nz c1). { unfold c1. destruct (isnil (qm f)); [exact Hc | apply allops_map; [apply nz_qmap | exact Hc]]. }
  destruct (if rep_negative (reps f) then circ_inv c1 else Ok c1) as [c2| |] eqn:E2; simpl in H; try discriminate.
  assert (H2 : AllOps Nz c2).
  { destruct (rep_negative (reps f)); [apply (allops_inv _ _ E2 H1) | inversion E2; subst; exact H1]. }
  set (c3 := if isnil (km f) then c2 else map (moment_kmap kK kM (km f)) c2) in *.
  assert (H3 : AllOps Nz c3).
  { unfold c3. destruct (isnil (km f)); [exact H2|]. unfold moment_kmap. apply allops_map; [|exact H2].
    intros o Ho. destruct (isnil (op_names o)); [exact Ho | apply nz_kmap; exact Ho]. }
  inversion H; subst a. destruct (isnil (pm f)); [exact H3 | apply allops_map; [apply nz_resolve | exact H3]].
Qed.
Lemma single_loop_ok kK kM c f rid s : single_loop kK kM c f rid = Ok s -> AllOps Nz c -> AllOps Nz s.
Proof.
  unfold single_loop. destruct (any_loop kK kM c f) as [a| |] eqn:Ea; simpl; try discriminate.
  intros H Hc. inversion H; subst s. apply allops_rescope. pose proof (any_loop_ok _ _ _ _ _ Ea Hc) as Ha.
  destruct rid; [apply allops_rescope; exact Ha | exact Ha].
Qed.
Lemma shallow_nz kK kM n c f body : mapped_circuit kK kM (S n) false c f = Ok body -> AllOps Nz c -> AllOps Nz body.
Proof.
  intros H Hc. cbn [mapped_circuit] in H. destruct (until f); [discriminate|]. destruct (reps f) as [r|]; [|discriminate].
  destruct (r =? 0); [inversion H; intros m o []|].
  assert (Plain : forall s, single_loop kK kM c f None = Ok s -> AllOps Nz (repeat_app (Z.abs_nat r) s)).
  { intros s Hs. apply allops_repeat. apply (single_loop_ok _ _ _ _ _ _ Hs Hc). }
  destruct (ids f) as [l|].
  - destruct (use_ids f && circ_is_meas c).
    + destruct (mapM (fun id => single_loop kK kM c f (Some id)) l) as [ls| |] eqn:El; simpl in H; try discriminate.
      inversion H; subst body. apply mapM_ok in El. apply allops_concat. intros s Hs.
      destruct (Forall2_in_r _ _ _ El s Hs) as [id [_ Hsl]]. apply (single_loop_ok _ _ _ _ _ _ Hsl Hc).
    + destruct (single_loop kK kM c f None) as [s| |] eqn:Es; simpl in H; try discriminate.
      inversion H; subst body. apply Plain. reflexivity.
  - destruct (single_loop kK kM c f None) as [s| |] eqn:Es; simpl in H; try discriminate.
    inversion H; subst body. apply Plain. reflexivity.
Qed.

(* ---- the deep recursion: unroll every nested operation and zip ---- *)
Definition unroll_op kK kM n (o : op) : res circ :=
  match o with OLeaf _ => Ok [[o]] | OSub c' f' => mapped_circuit kK kM n true c' f' end.
Definition deep_part kK kM n (body : circ) : res circ :=
  do ms <- mapM (fun m => do cs <- mapM (unroll_op kK kM n) m; Ok (zip_all cs)) body; Ok (List.concat ms).

Lemma mapped_deep_split kK kM n c f ms :
  mapped_circuit kK kM (S n) true c f = Ok ms ->
  exists body, mapped_circuit kK kM (S n) false c f = Ok body /\ deep_part kK kM n body = Ok ms.
Proof.
  cbn [mapped_circuit]. destruct (until f); [discriminate|]. destruct (reps f) as [r|]; [|discriminate].
  destruct (r =? 0).
  - intro H. inversion H. exists []. split; reflexivity.
  - match goal with |- bind ?X _ = _ -> _ => destruct X as [body| |] eqn:EX end; simpl; try discriminate.
    intro H. exists body. split; [reflexivity|]. unfold deep_part, unroll_op. exact H.
Qed.

Section Attr.
  Variable A : Type.
  Variable attr : op -> list A.          (* what an operation reports *)
  Variable lattr : leaf -> list A.       (* what a leaf of the unrolled circuit carries *)
  Hypothesis attr_leaf : forall l, attr (OLeaf l) = lattr l.
  Definition flat_attr (c : circ) : list A := List.concat (map lattr (circ_leaves c)).
  Definition body_attr (c : circ) : list A := List.concat (map (fun m => List.concat (map attr m)) c).

  Lemma body_attr_in c a : In a (body_attr c) <-> exists m o, In m c /\ In o m /\ In a (attr o).
  Proof.
    unfold body_attr. rewrite in_concat_map. split.
    - intros [m [Hm H]]. apply in_concat_map in H. destruct H as [o [Ho H]]. exists m, o. auto.
    - intros [m [o [Hm [Ho H]]]]. exists m. split; [exact Hm|]. apply in_concat_map. exists o. auto.
  Qed.

  Lemma deep_part_attr kK kM n (P : op -> Prop) body ms :
    (forall o co, P o -> unroll_op kK kM n o = Ok co -> forall a, In a (flat_attr co) <-> In a (attr o)) ->
    deep_part kK kM n body = Ok ms -> AllOps P body ->
    forall a, In a (flat_attr ms) <-> In a (body_attr body).
  Proof.
    intros IH H Hall a. unfold deep_part in H.
    destruct (mapM (fun m => do cs <- mapM (unroll_op kK kM n) m; Ok (zip_all cs)) body) as [zs| |] eqn:E; simpl in H;
      try discriminate.
    inversion H; subst ms. apply mapM_ok in E. unfold flat_attr. rewrite in_concat_map, body_attr_in. split.
    - intros [l [Hl Ha]]. apply concat_leaves_in in Hl. destruct Hl as [z [Hz Hlz]].
      destruct (Forall2_in_r _ _ _ E z Hz) as [m [Hm Hmz]].
      destruct (mapM (unroll_op kK kM n) m) as [cs| |] eqn:Ecs; simpl in Hmz; try discriminate.
      inversion Hmz; subst z. apply mapM_ok in Ecs. apply zip_all_leaves_in in Hlz. destruct Hlz as [co [Hco Hlco]].
      destruct (Forall2_in_r _ _ _ Ecs co Hco) as [o [Ho Hoc]]. exists m, o. split; [exact Hm|]. split; [exact Ho|].
      apply (IH o co (Hall m o Hm Ho) Hoc). unfold flat_attr. apply in_concat_map. exists l. auto.
    - intros [m [o [Hm [Ho Ha]]]]. destruct (Forall2_in_l _ _ _ E m Hm) as [z [Hz Hmz]].
      destruct (mapM (unroll_op kK kM n) m) as [cs| |] eqn:Ecs; simpl in Hmz; try discriminate.
      inversion Hmz; subst z. apply mapM_ok in Ecs. destruct (Forall2_in_l _ _ _ Ecs o Ho) as [co [Hco Hoc]].
      apply (IH o co (Hall m o Hm Ho) Hoc) in Ha. unfold flat_attr in Ha. apply in_concat_map in Ha. destruct Ha as [l [Hl Ha]].
      exists l. split; [|exact Ha]. apply concat_leaves_in. exists (zip_all cs). split; [exact Hz|].
      apply zip_all_leaves_in. exists co. auto.
  Qed.

  Lemma flat_attr_single l a : In a (flat_attr [[OLeaf l]]) <-> In a (lattr l).
  Proof. unfold flat_attr. simpl. rewrite app_nil_r. tauto. Qed.
End Attr.

(* D2, measurement keys: the keys a (nested) CircuitOperation reports are exactly the keys measured by its
   completely unrolled circuit — for every nesting depth, repetition ids, maps and parent paths, provided no
   repetition count in the nest is zero. *)
Theorem unroll_keys kK kM : forall n c f ms,
  mapped_circuit kK kM n true c f = Ok ms -> op_ok (OSub c f) = true ->
  forall k, In k (keys_flat ms) <-> In k (op_mkeys (OSub c f)).
Proof.
  induction n as [|n IH]; intros c f ms H Hnz k; [discriminate|].
  destruct (mapped_deep_split _ _ _ _ _ _ H) as [body [Hsh Hdp]].
  apply nz_sub in Hnz. destruct Hnz as [[r [Hr [Hr0 _]]] Hc].
  rewrite <- (shallow_keys _ _ _ _ _ _ _ Hsh Hr Hr0).
  change (keys_flat ms) with (flat_attr mkey lmk ms). change (body_keys body) with (body_attr mkey op_mkeys body).
  apply (deep_part_attr mkey op_mkeys lmk kK kM n Nz body ms); [|exact Hdp | apply (shallow_nz _ _ _ _ _ _ Hsh Hc)].
  intros o co Ho Hu a. destruct o as [l|c' f']; simpl in Hu.
  - inversion Hu; subst co. apply flat_attr_single.
  - apply (IH c' f' co Hu Ho).
Qed.

(* ---- D2, qubits ---- *)
Section BodyAttr.
  Variable A : Type.
  Variable attr : op -> list A.
  Notation battr := (body_attr A attr).

  Lemma battr_map_ext (F : op -> op) (R : A -> A -> Prop) c :
    (forall o a, In a (attr (F o)) <-> exists a0, In a0 (attr o) /\ R a0 a) ->
    forall a, In a (battr (map (map F) c)) <-> exists a0, In a0 (battr c) /\ R a0 a.
  Proof.
    intros HF a. rewrite body_attr_in. split.
    - intros [m [o [Hm [Ho Hk]]]]. apply in_map_iff in Hm. destruct Hm as [m0 [E Hm0]]. subst.
      apply in_map_iff in Ho. destruct Ho as [o0 [E Ho0]]. subst. apply HF in Hk. destruct Hk as [a0 [Ha0 Hr]].
      exists a0. split; [|exact Hr]. apply body_attr_in. exists m0, o0. auto.
    - intros [a0 [Ha0 Hr]]. apply body_attr_in in Ha0. destruct Ha0 as [m [o [Hm [Ho Hk]]]].
      exists (map F m), (F o). split; [apply in_map; exact Hm|]. split; [apply in_map; exact Ho|].
      apply HF. exists a0. auto.
  Qed.
  Lemma battr_map_same (F : op -> op) c : (forall o, attr (F o) = attr o) -> forall a, In a (battr (map (map F) c)) <-> In a (battr c).
  Proof.
    intros HF a. rewrite (battr_map_ext F eq).
    - split; [intros [a0 [H ->]]; exact H | intro H; exists a; auto].
    - intros o a'. rewrite HF. split; [intro H; exists a'; auto | intros [a0 [H ->]]; exact H].
  Qed.
  Lemma battr_app a b : battr (a ++ b) = battr a ++ battr b.
  Proof. unfold body_attr. rewrite map_app, concat_app. reflexivity. Qed.
  Lemma battr_concat (ls : list circ) x : In x (battr (List.concat ls)) <-> exists s, In s ls /\ In x (battr s).
  Proof.
    induction ls as [|s ls IH]; simpl.
    - split; [intros [] | intros [s [[] _]]].
    - rewrite battr_app, in_app_iff, IH. split.
      + intros [H|[s' [H1 H2]]]; [exists s; auto | exists s'; auto].
      + intros [s' [[->|H1] H2]]; [left; exact H2 | right; exists s'; auto].
  Qed.
  Lemma battr_repeat n (s : circ) x : (0 < n)%nat -> (In x (battr (repeat_app n s)) <-> In x (battr s)).
  Proof.
    induction n as [|n IH]; intro Hn; [lia|]. simpl. rewrite battr_app, in_app_iff.
    destruct n as [|n]; [simpl; tauto|]. rewrite IH by lia. tauto.
  Qed.
  Lemma battr_inv c c' x : (forall o o', t_inv o = Ok o' -> attr o' = attr o) -> circ_inv c = Ok c' -> (In x (battr c') <-> In x (battr c)).
  Proof.
    unfold circ_inv. intros Hinv H. apply mapM_ok in H. rewrite !body_attr_in. split.
    - intros [m' [o' [Hm [Ho Hk]]]]. destruct (Forall2_in_r _ _ _ H m' Hm) as [m [Hmr Hmm]].
      apply mapM_ok in Hmm. destruct (Forall2_in_r _ _ _ Hmm o' Ho) as [o [Hom Hoo]].
      exists m, o. split; [apply in_rev; exact Hmr|]. split; [exact Hom|]. rewrite <- (Hinv o o' Hoo). exact Hk.
    - intros [m [o [Hm [Ho Hk]]]]. apply in_rev in Hm. destruct (Forall2_in_l _ _ _ H m Hm) as [m' [Hm' Hmm]].
      apply mapM_ok in Hmm. destruct (Forall2_in_l _ _ _ Hmm o Ho) as [o' [Ho' Hoo]].
      exists m', o'. split; [exact Hm'|]. split; [exact Ho'|]. rewrite (Hinv o o' Hoo). exact Hk.
  Qed.
  Lemma battr_rescope kK kM path : (forall b o, attr (t_rescope kK kM path b o) = attr o) ->
    forall c b x, In x (battr (circ_rescope kK kM path b c)) <-> In x (battr c).
  Proof.
    intro Hr. induction c as [|m c IH]; intros b x; [simpl; tauto|].
    cbn [circ_rescope]. unfold body_attr in *. cbn [map List.concat]. rewrite !in_app_iff, IH.
    rewrite map_map. rewrite (map_ext _ attr (Hr b)). tauto.
  Qed.
End BodyAttr.

Lemma zlookup_compose : forall dom m g q, In q dom -> zlookup (qmap_compose dom m g) q = g (zlookup m q).
Proof.
  induction dom as [|d dom IH]; intros m g q Hin; [destruct Hin|].
  simpl. destruct (g (zlookup m d) =? d) eqn:E.
  - destruct (d =? q) eqn:Edq.
    + apply Z.eqb_eq in Edq. subst d. apply Z.eqb_eq in E. clear IH Hin.
      induction dom as [|d' dom IH']; [simpl; symmetry; exact E|].
      simpl. destruct (g (zlookup m d') =? d') eqn:E'; [exact IH'|].
      simpl. destruct (d' =? q) eqn:Ed'q; [|exact IH'].
      apply Z.eqb_eq in Ed'q. subst d'. rewrite E in E'. rewrite Z.eqb_refl in E'. discriminate.
    + destruct Hin as [Hd|Hin]; [subst; rewrite Z.eqb_refl in Edq; discriminate | apply IH; exact Hin].
  - simpl. destruct (d =? q) eqn:Edq.
    + apply Z.eqb_eq in Edq. subst d. reflexivity.
    + destruct Hin as [Hd|Hin]; [subst; rewrite Z.eqb_refl in Edq; discriminate | apply IH; exact Hin].
Qed.

Lemma op_qubits_sub c f : op_qubits (OSub c f) = map (zlookup (qm f)) (circ_qubits c).
Proof. reflexivity. Qed.
Lemma circ_qubits_in c q : In q (circ_qubits c) <-> In q (body_attr Z op_qubits c).
Proof. unfold circ_qubits. apply zsort_in. Qed.

Lemma qubits_qmap g o : op_qubits (t_qmap g o) = map g (op_qubits o).
Proof.
  destruct o as [l|c f]; [reflexivity|]. cbn [t_qmap]. rewrite !op_qubits_sub. cbn [qm set_qm].
  rewrite map_map. apply map_ext_in. intros q Hq. apply zlookup_compose. exact Hq.
Qed.
Lemma qubits_inv o o' : t_inv o = Ok o' -> op_qubits o' = op_qubits o.
Proof.
  destruct o as [l|c f]; simpl.
  - destruct (isnil (lmk l) && isnil (lcs l)); [|discriminate]. intro H. inversion H. reflexivity.
  - destruct (until f) eqn:Eu; [discriminate|].
    destruct (match reps f with RInt n => if 0 <? n then forallb (fun m => forallb op_invertible m) c else true
                          | RSym _ _ => true end); [|discriminate]. intro H. inversion H. reflexivity.
Qed.
Lemma qubits_kmap kK kM m o : op_qubits (if isnil (op_names o) then o else t_kmap kK kM m o) = op_qubits o.
Proof. destruct (isnil (op_names o)); [reflexivity | destruct o; reflexivity]. Qed.
Lemma qubits_resolve pm o : op_qubits (t_resolve pm o) = op_qubits o.
Proof. destruct o; reflexivity. Qed.
Lemma qubits_rescope kK kM p b o : op_qubits (t_rescope kK kM p b o) = op_qubits o.
Proof. destruct o; reflexivity. Qed.

Lemma zlookup_nil q : zlookup [] q = q.
Proof. reflexivity. Qed.

Lemma any_loop_qubits kK kM c f a q :
  any_loop kK kM c f = Ok a ->
  (In q (body_attr Z op_qubits a) <-> exists q0, In q0 (body_attr Z op_qubits c) /\ q = zlookup (qm f) q0).
Proof.
  unfold any_loop. intro H.
  set (c1 := if isnil (qm f) then c else map (map (t_qmap (zlookup (qm f)))) c) in *.
  assert (H1 : forall q, In q (body_attr Z op_qubits c1) <-> exists q0, In q0 (body_attr Z op_qubits c) /\ q = zlookup (qm f) q0).
  { intro q'. unfold c1. destruct (qm f) as [|p r] eqn:Eq; cbn [isnil].
    - split; [intro Hq; exists q'; auto | intros [q0 [Hq ->]]; exact Hq].
    - rewrite (battr_map_ext Z op_qubits (t_qmap (zlookup (p :: r))) (fun q0 q => q = zlookup (p :: r) q0)); [tauto|].
      intros o x. rewrite qubits_qmap, in_map_iff. split; intros [q0 [Ha Hb]]; exists q0; auto. }
  destruct (if rep_negative (reps f) then circ_inv c1 else Ok c1) as [c2| |] eqn:E2; simpl in H; try discriminate.
  assert (H2 : forall q, In q (body_attr Z op_qubits c2) <-> In q (body_attr Z op_qubits c1)).
  { intro q'. destruct (rep_negative (reps f)); [apply (battr_inv Z op_qubits c1 c2 q' qubits_inv E2) | inversion E2; tauto]. }
  set (c3 := if isnil (km f) then c2 else map (moment_kmap kK kM (km f)) c2) in *.
  assert (H3 : forall q, In q (body_attr Z op_qubits c3) <-> In q (body_attr Z op_qubits c2)).
  { intro q'. unfold c3. destruct (isnil (km f)); [tauto|]. unfold moment_kmap.
    apply (battr_map_same Z op_qubits (fun o => if isnil (op_names o) then o else t_kmap kK kM (km f) o)).
    intro o. apply qubits_kmap. }
  inversion H; subst a. rewrite <- H1, <- H2, <- H3. destruct (isnil (pm f)); [tauto|].
  apply (battr_map_same Z op_qubits (t_resolve (pm f))). apply qubits_resolve.
Qed.

Lemma single_loop_qubits kK kM c f rid s q :
  single_loop kK kM c f rid = Ok s ->
  (In q (body_attr Z op_qubits s) <-> exists q0, In q0 (body_attr Z op_qubits c) /\ q = zlookup (qm f) q0).
Proof.
  unfold single_loop. destruct (any_loop kK kM c f) as [a| |] eqn:Ea; simpl; try discriminate.
  intro H. inversion H; subst s. rewrite (battr_rescope Z op_qubits kK kM (ppath f) (qubits_rescope kK kM (ppath f))).
  destruct rid as [r|].
  - rewrite (battr_rescope Z op_qubits kK kM [r] (qubits_rescope kK kM [r])). apply (any_loop_qubits _ _ _ _ _ _ Ea).
  - apply (any_loop_qubits _ _ _ _ _ _ Ea).
Qed.

Lemma shallow_qubits kK kM n c f body r :
  mapped_circuit kK kM (S n) false c f = Ok body -> reps f = RInt r -> r <> 0 ->
  (forall l, ids f = Some l -> List.length l = Z.abs_nat r) ->
  forall q, In q (body_attr Z op_qubits body) <-> In q (op_qubits (OSub c f)).
Proof.
  intros H Hr Hnz Hids q. cbn [mapped_circuit] in H. rewrite Hr in H.
  destruct (until f) as [u|]; [discriminate|].
  destruct (r =? 0) eqn:E0; [apply Z.eqb_eq in E0; contradiction|].
  assert (Hpos : (0 < Z.abs_nat r)%nat) by lia.
  assert (RHS : In q (op_qubits (OSub c f)) <-> exists q0, In q0 (body_attr Z op_qubits c) /\ q = zlookup (qm f) q0).
  { rewrite op_qubits_sub, in_map_iff. split; intros [q0 [Ha Hb]]; exists q0; [split; [apply circ_qubits_in; exact Hb | auto]
                                                                             | split; [auto | apply circ_qubits_in; exact Ha]]. }
  rewrite RHS.
  assert (Plain : forall s, single_loop kK kM c f None = Ok s ->
            (In q (body_attr Z op_qubits (repeat_app (Z.abs_nat r) s)) <->
             exists q0, In q0 (body_attr Z op_qubits c) /\ q = zlookup (qm f) q0)).
  { intros s Hs. rewrite battr_repeat by exact Hpos. apply (single_loop_qubits _ _ _ _ _ _ _ Hs). }
  destruct (ids f) as [l|] eqn:Eids.
  - destruct (use_ids f && circ_is_meas c) eqn:Eu.
    + destruct (mapM (fun id => single_loop kK kM c f (Some id)) l) as [ls| |] eqn:El; simpl in H; try discriminate.
      inversion H; subst body. apply mapM_ok in El. rewrite battr_concat. split.
      * intros [s [Hs Hq]]. destruct (Forall2_in_r _ _ _ El s Hs) as [id [Hid Hsl]].
        apply (single_loop_qubits _ _ _ _ _ _ _ Hsl). exact Hq.
      * intro Hq.
        destruct l as [|id l'].
        -- (* no ids although the count is not zero: excluded *)
           exfalso. specialize (Hids [] eq_refl). simpl in Hids. lia.
        -- destruct (Forall2_in_l _ _ _ El id (or_introl eq_refl)) as [s [Hs Hsl]]. exists s. split; [exact Hs|].
           apply (single_loop_qubits _ _ _ _ _ _ _ Hsl). exact Hq.
    + destruct (single_loop kK kM c f None) as [s| |] eqn:Es; simpl in H; try discriminate.
      inversion H; subst body. apply Plain. reflexivity.
  - destruct (single_loop kK kM c f None) as [s| |] eqn:Es; simpl in H; try discriminate.
    inversion H; subst body. apply Plain. reflexivity.
Qed.

(* D2, qubits: the qubits a nested CircuitOperation reports are exactly the qubits its unrolled circuit acts on *)
Theorem unroll_qubits kK kM : forall n c f ms,
  mapped_circuit kK kM n true c f = Ok ms -> op_ok (OSub c f) = true ->
  forall q, In q (qubits_flat ms) <-> In q (op_qubits (OSub c f)).
Proof.
  induction n as [|n IH]; intros c f ms H Hnz q; [discriminate|].
  destruct (mapped_deep_split _ _ _ _ _ _ H) as [body [Hsh Hdp]].
  apply nz_sub in Hnz. destruct Hnz as [[r [Hr [Hr0 Hids]]] Hc].
  rewrite <- (shallow_qubits _ _ _ _ _ _ _ Hsh Hr Hr0 Hids).
  unfold qubits_flat. rewrite zsort_in. change (List.concat (map lqs (circ_leaves ms))) with (flat_attr Z lqs ms).
  apply (deep_part_attr Z op_qubits lqs kK kM n Nz body ms); [|exact Hdp | apply (shallow_nz _ _ _ _ _ _ Hsh Hc)].
  intros o co Ho Hu a. destruct o as [l|c' f']; simpl in Hu.
  - inversion Hu; subst co. apply flat_attr_single.
  - specialize (IH c' f' co Hu Ho a). unfold qubits_flat in IH. rewrite zsort_in in IH. exact IH.
Qed.

(* F7: with a zero repetition count the statement fails — the operation still reports the keys of its body *)
Definition zero_rep_witness : op :=
  OSub [[OLeaf (Leaf 10 false [0] [MK [] "a"] [] [])]] (SubF (RInt 0) None false [] [] [] [] [] None).
Theorem unroll_keys_refuted_zero : forall kK kM,
  mapped_circuit kK kM 2 true [[OLeaf (Leaf 10 false [0] [MK [] "a"] [] [])]] (SubF (RInt 0) None false [] [] [] [] [] None) = Ok []
  /\ op_mkeys zero_rep_witness = [MK [] "a"] /\ op_is_meas zero_rep_witness = true.
Proof. intros kK kM. repeat split. Qed.

(* ---- D4: constructor compositions ---- *)
Lemma qmap_compose_ext : forall dom m m' g, (forall q, In q dom -> zlookup m q = zlookup m' q) ->
  qmap_compose dom m g = qmap_compose dom m' g.
Proof.
  induction dom as [|d dom IH]; intros m m' g H; [reflexivity|]. simpl.
  rewrite (H d (or_introl eq_refl)). rewrite (IH m m' g (fun q Hq => H q (or_intror Hq))). reflexivity.
Qed.

Lemma qmap_compose_twice D m g1 g2 : forall dom0, (forall q, In q dom0 -> In q D) ->
  qmap_compose dom0 (qmap_compose D m g1) g2 = qmap_compose dom0 m (fun q => g2 (g1 q)).
Proof.
  induction dom0 as [|d dom0 IH]; intro Hsub; [reflexivity|]. simpl.
  rewrite (zlookup_compose D m g1 d (Hsub d (or_introl eq_refl))).
  rewrite (IH (fun q Hq => Hsub q (or_intror Hq))). reflexivity.
Qed.

(* with_qubit_mapping twice = with_qubit_mapping of the composed function: the stored dicts are equal *)
Theorem qmap_twice g1 g2 o : t_qmap g2 (t_qmap g1 o) = t_qmap (fun q => g2 (g1 q)) o.
Proof.
  destruct o as [l|c f]; simpl.
  - rewrite map_map. reflexivity.
  - unfold set_qm. simpl. rewrite (qmap_compose_twice (circ_qubits c) (qm f) g1 g2 (circ_qubits c) (fun q H => H)). reflexivity.
Qed.

(* key maps applied one after the other act on the reported keys as the composition *)
Theorem kmap_twice kK kM m1 m2 o k :
  In k (op_mkeys (t_kmap kK kM m2 (t_kmap kK kM m1 o))) <-> exists k0, In k0 (op_mkeys o) /\ k = key_map m2 (key_map m1 k0).
Proof.
  rewrite mkeys_kmap. split.
  - intros [k1 [H1 ->]]. apply mkeys_kmap in H1. destruct H1 as [k0 [H0 ->]]. exists k0. auto.
  - intros [k0 [H0 ->]]. exists (key_map m1 k0). split; [|reflexivity]. apply mkeys_kmap. exists k0. auto.
Qed.

(* ... and the dict stored after two with_measurement_key_mapping calls sends every touched name to the composition *)
Theorem kmap_dict_twice dom km m1 m2 s : In s dom ->
  name_map (kmap_compose dom (kmap_compose dom km m1) m2) s = name_map m2 (name_map m1 (name_map km s)).
Proof. intro H. rewrite lookup_compose by exact H. rewrite lookup_compose by exact H. reflexivity. Qed.

(* repeat(-1) twice (op ** -1 ** -1) gives the operation back *)
Theorem inv_twice o o1 o2 : t_inv o = Ok o1 -> t_inv o1 = Ok o2 -> o2 = o.
Proof.
  destruct o as [l|c f]; simpl.
  - destruct (isnil (lmk l) && isnil (lcs l)) eqn:E; [|discriminate]. intro H. inversion H; subst o1. simpl. rewrite E.
    intro H2. inversion H2. rewrite negb_involutive. destruct l; reflexivity.
  - destruct (until f) eqn:Eu; [discriminate|].
    destruct (match reps f with RInt n => if 0 <? n then forallb (fun m => forallb op_invertible m) c else true
                          | RSym _ _ => true end); [|discriminate].
    intro H. inversion H; subst o1. simpl. rewrite Eu.
    destruct (match rep_neg (reps f) with RInt n => if 0 <? n then forallb (fun m => forallb op_invertible m) c else true
                          | RSym _ _ => true end); [|discriminate].
    intro H2. inversion H2. f_equal. destruct f as [r i u q k p pp e un]. unfold set_reps. simpl. f_equal.
    destruct r as [n|b s]; simpl; [rewrite Z.opp_involutive | rewrite negb_involutive]; reflexivity.
Qed.

(* nested rescoping composes by concatenation of the paths *)
Theorem rescope_twice kK kM p1 b1 p2 b2 o :
  op_mkeys (t_rescope kK kM p1 b1 (t_rescope kK kM p2 b2 o)) = map (key_prefix (p1 ++ p2)) (op_mkeys o).
Proof.
  rewrite !mkeys_rescope, map_map. apply map_ext. intro k. apply key_prefix_assoc.
Qed.
Theorem rescope_twice_path kK kM p1 b1 p2 b2 c f :
  exists e, t_rescope kK kM p1 b1 (t_rescope kK kM p2 b2 (OSub c f)) = OSub c (set_scope f ((p1 ++ p2) ++ ppath f) e).
Proof. simpl. eexists. unfold set_scope. simpl. rewrite app_assoc. reflexivity. Qed.

(* with_params twice: every symbol of the wrapped circuit is resolved by the first mapping, then by the second *)
Lemma plookup_compose : forall dom m1 m2 s, In s dom ->
  presolve (pmap_compose dom m1 m2) (PSym s) = presolve m2 (presolve m1 (PSym s)).
Proof.
  induction dom as [|d dom IH]; intros m1 m2 s Hin; [destruct Hin|].
  cbn [pmap_compose].
  destruct (String.eqb d s) eqn:Eds.
  - apply String.eqb_eq in Eds. subst d. clear Hin.
    destruct (presolve m2 (presolve m1 (PSym s))) as [t|v] eqn:Ev.
    + destruct (String.eqb t s) eqn:Ets.
      * apply String.eqb_eq in Ets. subst t.
        (* identity entry dropped: later occurrences of s in dom are dropped again *)
        clear IH. induction dom as [|d' dom IH']; [reflexivity|]. cbn [pmap_compose].
        destruct (presolve m2 (presolve m1 (PSym d'))) as [t'|v'] eqn:Ev'.
        -- destruct (String.eqb t' d') eqn:Et'; [exact IH'|]. simpl. destruct (String.eqb d' s) eqn:Ed's; [|exact IH'].
           apply String.eqb_eq in Ed's. subst d'. rewrite Ev in Ev'. inversion Ev'; subst t'. rewrite String.eqb_refl in Et'. discriminate.
        -- simpl. destruct (String.eqb d' s) eqn:Ed's; [|exact IH'].
           apply String.eqb_eq in Ed's. subst d'. rewrite Ev in Ev'. discriminate.
      * simpl. rewrite String.eqb_refl. reflexivity.
    + simpl. rewrite String.eqb_refl. reflexivity.
  - destruct Hin as [Hd|Hin]; [subst; rewrite String.eqb_refl in Eds; discriminate|].
    destruct (presolve m2 (presolve m1 (PSym d))) as [t|v].
    + destruct (String.eqb t d); [apply IH; exact Hin|]. simpl. rewrite Eds. apply IH. exact Hin.
    + simpl. rewrite Eds. apply IH. exact Hin.
Qed.

Theorem resolve_twice_leaf m1 m2 l :
  t_resolve m2 (t_resolve m1 (OLeaf l)) =
  OLeaf (Leaf (uid l) (sgn l) (lqs l) (lmk l) (lcs l) (map (fun p => presolve m2 (presolve m1 p)) (lps l))).
Proof. simpl. rewrite map_map. reflexivity. Qed.

(* ---- rescoping never captures a key bound later: the first part of a circuit is rescoped independently of
   what follows, and what follows sees exactly the keys bound before it ---- *)
Theorem rescope_app kK kM path : forall c1 c2 b,
  circ_rescope kK kM path b (c1 ++ c2) =
  circ_rescope kK kM path b c1 ++ circ_rescope kK kM path (b ++ List.concat (map moment_mkeys (circ_rescope kK kM path b c1))) c2.
Proof.
  induction c1 as [|m c1 IH]; intros c2 b; simpl.
  - rewrite app_nil_r. reflexivity.
  - rewrite IH. rewrite app_assoc. reflexivity.
Qed.

(* the operations of one moment are rescoped against the keys bound before the moment only *)
Theorem rescope_moment_local kK kM path b m c :
  exists b', circ_rescope kK kM path b (m :: c) = map (t_rescope kK kM path b) m :: circ_rescope kK kM path b' c.
Proof. eexists. reflexivity. Qed.

(* ---- D5: repeat_until stops after the least positive number of passes after which the condition holds ---- *)
Section UntilProofs.
  Variable St : Type.
  Variable body : St -> St.
  Variable cond : St -> bool.

  Theorem repeat_until_unroll : forall fuel s t,
    act_until St body cond fuel s = Ok t ->
    exists k, (1 <= k <= fuel)%nat /\ t = Nat.iter k body s /\ cond t = true /\
              forall j, (1 <= j < k)%nat -> cond (Nat.iter j body s) = false.
  Proof.
    induction fuel as [|n IH]; intros s t H; simpl in H; [discriminate|].
    destruct (cond (body s)) eqn:E.
    - inversion H; subst t. exists 1%nat. split; [lia|]. split; [reflexivity|]. split; [exact E|]. intros j Hj. lia.
    - destruct (IH (body s) t H) as [k [Hk [Ht [Hc Hl]]]]. exists (S k). split; [lia|].
      assert (Sh : forall j, Nat.iter j body (body s) = Nat.iter (S j) body s).
      { induction j as [|j IHj]; [reflexivity|]. simpl. simpl in IHj. rewrite IHj. reflexivity. }
      split; [rewrite <- Sh; exact Ht|]. split; [exact Hc|]. intros j Hj.
      destruct j as [|j]; [lia|]. destruct j as [|j]; [exact E|]. rewrite <- Sh. apply Hl. lia.
  Qed.

  Theorem repeat_until_complete : forall k s, (1 <= k)%nat -> cond (Nat.iter k body s) = true ->
    (forall j, (1 <= j < k)%nat -> cond (Nat.iter j body s) = false) ->
    forall fuel, (k <= fuel)%nat -> act_until St body cond fuel s = Ok (Nat.iter k body s).
  Proof.
    induction k as [|k IH]; intros s Hk Hc Hl fuel Hf; [lia|].
    destruct fuel as [|n]; [lia|]. simpl.
    assert (Sh : forall j, Nat.iter j body (body s) = Nat.iter (S j) body s).
    { induction j as [|j IHj]; [reflexivity|]. simpl. simpl in IHj. rewrite IHj. reflexivity. }
    destruct k as [|k].
    - simpl in Hc. rewrite Hc. reflexivity.
    - pose proof (Hl 1%nat ltac:(lia)) as H1. simpl in H1. rewrite H1. rewrite <- Sh. apply IH; [lia | rewrite Sh; exact Hc | | lia].
      intros j Hj. rewrite Sh. apply Hl. lia.
  Qed.
End UntilProofs.

(* ================================================================================================================
   D2, operation sequence: the unrolled circuit, moment by moment, is the compositional semantics ops_nested.
   The transformations the implementation pushes onto a nested operation before unrolling it are recorded as a list
   of descriptors; `par` / `qf` are their accumulated inversion parity and qubit relabelling. *)
Inductive tr := TQ (g : Z -> Z) | TI | TK (m : kmap) | TP (pm : pmap) | TS (path : list string) (b : list mkey).

Definition apply_tr kK kM (t : tr) (o : op) : res op :=
  match t with
  | TQ g => Ok (t_qmap g o)
  | TI => t_inv o
  | TK m => Ok (if isnil (op_names o) then o else t_kmap kK kM m o)
  | TP pm => Ok (t_resolve pm o)
  | TS p b => Ok (t_rescope kK kM p b o)
  end.
Fixpoint apply_trs kK kM (ts : list tr) (o : op) : res op :=
  match ts with [] => Ok o | t :: r => do o1 <- apply_tr kK kM t o; apply_trs kK kM r o1 end.
Fixpoint par (ts : list tr) : bool := match ts with [] => false | TI :: r => negb (par r) | _ :: r => par r end.
Fixpoint qf (ts : list tr) (q : Z) : Z := match ts with [] => q | TQ h :: r => qf r (h q) | _ :: r => qf r q end.

Lemma apply_trs_app kK kM ts1 ts2 o :
  apply_trs kK kM (ts1 ++ ts2) o = do o1 <- apply_trs kK kM ts1 o; apply_trs kK kM ts2 o1.
Proof.
  revert o. induction ts1 as [|t ts1 IH]; intro o; simpl; [reflexivity|].
  destruct (apply_tr kK kM t o) as [o1| |]; simpl; [apply IH | reflexivity | reflexivity].
Qed.
Lemma par_app ts1 ts2 : par (ts1 ++ ts2) = xorb (par ts1) (par ts2).
Proof.
  induction ts1 as [|t ts1 IH]; simpl; [destruct (par ts2); reflexivity|].
  destruct t; try exact IH. rewrite IH. destruct (par ts1), (par ts2); reflexivity.
Qed.
Lemma qf_app ts1 ts2 q : qf (ts1 ++ ts2) q = qf ts2 (qf ts1 q).
Proof. revert q. induction ts1 as [|t ts1 IH]; intro q; simpl; [reflexivity|]. destruct t; apply IH. Qed.

(* what a list of transformations does to a leaf / to the fields of a CircuitOperation *)
Lemma apply_trs_leaf kK kM : forall ts l o', apply_trs kK kM ts (OLeaf l) = Ok o' ->
  exists l', o' = OLeaf l' /\ uid l' = uid l /\ sgn l' = xorb (sgn l) (par ts) /\ lqs l' = map (qf ts) (lqs l).
Proof.
  induction ts as [|t ts IH]; intros l o' H; cbn [apply_trs] in H.
  - inversion H; subst. exists l. repeat split; [destruct (sgn l); reflexivity | simpl; rewrite map_id; reflexivity].
  - destruct t as [g| |m|pm|p b]; cbn [apply_tr bind] in H.
    + cbn [t_qmap] in H. destruct (IH _ _ H) as [l' [E [Hu [Hs Hq]]]]. exists l'. simpl in *. rewrite map_map in Hq. auto.
    + cbn [t_inv] in H. destruct (isnil (lmk l) && isnil (lcs l)); cbn [bind] in H; [|discriminate].
      destruct (IH _ _ H) as [l' [E [Hu [Hs Hq]]]]. exists l'. simpl in *. repeat split; auto.
      rewrite Hs. destruct (sgn l), (par ts); reflexivity.
    + destruct (isnil (op_names (OLeaf l))); cbn [t_kmap] in H; destruct (IH _ _ H) as [l' [E [Hu [Hs Hq]]]]; exists l';
        simpl in *; auto.
    + cbn [t_resolve] in H. destruct (IH _ _ H) as [l' [E [Hu [Hs Hq]]]]. exists l'. simpl in *. auto.
    + cbn [t_rescope] in H. destruct (IH _ _ H) as [l' [E [Hu [Hs Hq]]]]. exists l'. simpl in *. auto.
Qed.

Definition z_par (b : bool) (r : Z) : Z := if b then - r else r.

Lemma apply_trs_sub kK kM : forall ts c f r o', apply_trs kK kM ts (OSub c f) = Ok o' -> reps f = RInt r ->
  exists f', o' = OSub c f' /\ reps f' = RInt (z_par (par ts) r) /\ ids f' = ids f /\ use_ids f' = use_ids f /\
             until f' = until f /\ forall q, In q (circ_qubits c) -> zlookup (qm f') q = qf ts (zlookup (qm f) q).
Proof.
  induction ts as [|t ts IH]; intros c f r o' H Hrep; cbn [apply_trs] in H.
  - inversion H; subst. exists f. repeat split; auto.
  - destruct t as [g| |m|pm0|p b]; cbn [apply_tr bind] in H.
    + cbn [t_qmap] in H. destruct (IH _ _ r _ H Hrep) as [f' [E [Hr [Hi [Hu [Hun Hq]]]]]]. exists f'. simpl in *. repeat split; auto.
      intros q Hin. rewrite (Hq q Hin). rewrite zlookup_compose by exact Hin. reflexivity.
    + cbn [t_inv] in H. destruct (until f) eqn:Eu; [discriminate|]. destruct (op_invertible (OSub c f)); cbn [bind] in H; [|discriminate].
      assert (Hrep' : reps (set_reps f (rep_neg (reps f))) = RInt (- r)) by (rewrite Hrep; reflexivity).
      destruct (IH _ _ _ _ H Hrep') as [f' [E [Hr [Hi [Hu [Hun Hq]]]]]]. exists f'. simpl in *. repeat split; auto; try congruence.
      rewrite Hr. unfold z_par. destruct (par ts); simpl; [rewrite Z.opp_involutive|]; reflexivity.
    + destruct (isnil (op_names (OSub c f))); cbn [t_kmap] in H; destruct (IH _ _ r _ H Hrep) as [f' [E [Hr [Hi [Hu [Hun Hq]]]]]];
        exists f'; simpl in *; repeat split; auto.
    + cbn [t_resolve] in H.
      assert (Hrep' : reps (set_reps (set_pm f (pmap_compose (str_nodup (circ_pnames c)) (pm f) pm0)) (rep_resolve pm0 (reps f))) = RInt r)
        by (rewrite Hrep; reflexivity).
      destruct (IH _ _ r _ H Hrep') as [f' [E [Hr [Hi [Hu [Hun Hq]]]]]]. exists f'. simpl in *. repeat split; auto.
    + cbn [t_rescope] in H. destruct (IH _ _ r _ H Hrep) as [f' [E [Hr [Hi [Hu [Hun Hq]]]]]]. exists f'. simpl in *. repeat split; auto.
Qed.

Definition OpRel kK kM (inv : bool) (g : Z -> Z) (o o2 : op) : Prop :=
  exists ts, apply_trs kK kM ts o = Ok o2 /\ par ts = inv /\ forall q, qf ts q = g q.
Definition CircRel kK kM inv g (c c2 : circ) : Prop := Forall2 (Forall2 (OpRel kK kM inv g)) c c2.

Lemma Forall2_refl' {A} (R : A -> A -> Prop) l : (forall x, R x x) -> Forall2 R l l.
Proof. intro H. induction l; constructor; auto. Qed.
Lemma Forall2_map_r {A B C} (R : A -> C -> Prop) (R' : A -> B -> Prop) (F : C -> B) l l' :
  (forall x y, R x y -> R' x (F y)) -> Forall2 R l l' -> Forall2 R' l (map F l').
Proof. intros H H2. induction H2; simpl; constructor; auto. Qed.
Lemma Forall2_rev {A B} (R : A -> B -> Prop) l l' : Forall2 R l l' -> Forall2 R (rev l) (rev l').
Proof.
  induction 1 as [|a b l l' Hab H IH]; simpl; [constructor|]. apply Forall2_app; [exact IH | constructor; [exact Hab | constructor]].
Qed.

Lemma CircRel_refl kK kM c : CircRel kK kM false (fun q => q) c c.
Proof.
  apply Forall2_refl'. intro m. apply Forall2_refl'. intro o. exists []. repeat split.
Qed.

Lemma OpRel_step kK kM inv g o o1 t o2 :
  OpRel kK kM inv g o o1 -> apply_tr kK kM t o1 = Ok o2 ->
  OpRel kK kM (xorb inv (par [t])) (fun q => qf [t] (g q)) o o2.
Proof.
  intros [ts [Ha [Hp Hq]]] Ht. exists (ts ++ [t]). split; [|split].
  - rewrite apply_trs_app, Ha. simpl. rewrite Ht. reflexivity.
  - rewrite par_app, Hp. reflexivity.
  - intro q. rewrite qf_app, Hq. reflexivity.
Qed.

Lemma CircRel_map kK kM inv g c c1 t F :
  (forall o, apply_tr kK kM t o = Ok (F o)) -> CircRel kK kM inv g c c1 ->
  CircRel kK kM (xorb inv (par [t])) (fun q => qf [t] (g q)) c (map (map F) c1).
Proof.
  intros HF H. unfold CircRel. apply (Forall2_map_r (Forall2 (OpRel kK kM inv g))); [|exact H].
  intros m m1 Hm. apply (Forall2_map_r (OpRel kK kM inv g)); [|exact Hm].
  intros o o1 Ho. apply (OpRel_step _ _ _ _ _ _ _ _ Ho). apply HF.
Qed.

Lemma xorb_false_r' b : xorb b false = b. Proof. destruct b; reflexivity. Qed.

Lemma Forall2_mapM {A B C} (R : A -> B -> Prop) (R' : A -> C -> Prop) (F : B -> res C) :
  (forall x y z, R x y -> F y = Ok z -> R' x z) ->
  forall l0 l1 l2, Forall2 R l0 l1 -> mapM F l1 = Ok l2 -> Forall2 R' l0 l2.
Proof.
  intros HF l0 l1 l2 H. revert l2. induction H as [|x y l0 l1 Hxy H IH]; intros l2 Hm; simpl in Hm.
  - inversion Hm. constructor.
  - destruct (F y) as [z| |] eqn:Ez; simpl in Hm; try discriminate.
    destruct (mapM F l1) as [zs| |] eqn:Ezs; simpl in Hm; try discriminate.
    inversion Hm; subst. constructor; [apply (HF x y z Hxy Ez) | apply IH; reflexivity].
Qed.

Lemma CircRel_inv kK kM inv g c c1 c2 :
  CircRel kK kM inv g c c1 -> circ_inv c1 = Ok c2 -> CircRel kK kM (negb inv) g (rev c) c2.
Proof.
  unfold circ_inv, CircRel. intros H Hi. apply Forall2_rev in H.
  apply (Forall2_mapM (Forall2 (OpRel kK kM inv g)) (Forall2 (OpRel kK kM (negb inv) g)) (fun m => mapM t_inv m)) with (l1 := rev c1);
    [|exact H|exact Hi].
  intros m0 m1 m2 Hm Hmm.
  apply (Forall2_mapM (OpRel kK kM inv g) (OpRel kK kM (negb inv) g) t_inv) with (l1 := m1); [|exact Hm|exact Hmm].
  intros o o1 o2 Ho Hinv.
  pose proof (OpRel_step kK kM inv g o o1 TI o2 Ho Hinv) as S. simpl in S.
  destruct S as [ts [Ha [Hp Hq]]]. exists ts. split; [exact Ha|]. split; [rewrite Hp; destruct inv; reflexivity | exact Hq].
Qed.

Lemma CircRel_rescope kK kM inv g path : forall c1 c b, CircRel kK kM inv g c c1 ->
  CircRel kK kM inv g c (circ_rescope kK kM path b c1).
Proof.
  induction c1 as [|m1 c1 IH]; intros c b H; inversion H as [|m0 mm c0 cc Hm Hc]; subst; cbn [circ_rescope]; constructor.
  - apply (Forall2_map_r (OpRel kK kM inv g)); [|exact Hm]. intros o o1 Ho.
    pose proof (OpRel_step kK kM inv g o o1 (TS path b) _ Ho eq_refl) as S. simpl in S.
    destruct S as [ts [Ha [Hp Hq]]]. exists ts. split; [exact Ha|]. split; [rewrite Hp; apply xorb_false_r' | exact Hq].
  - apply IH. exact Hc.
Qed.

Lemma Forall2_impl' {A B} (R R' : A -> B -> Prop) l l' : (forall x y, R x y -> R' x y) -> Forall2 R l l' -> Forall2 R' l l'.
Proof. intros H H2. induction H2; constructor; auto. Qed.

Lemma CircRel_weaken kK kM inv inv' g g' c c1 : inv = inv' -> (forall q, g q = g' q) ->
  CircRel kK kM inv g c c1 -> CircRel kK kM inv' g' c c1.
Proof.
  intros -> Hg H. unfold CircRel in *. apply (Forall2_impl' (Forall2 (OpRel kK kM inv' g))); [|exact H]. intros m m1 Hm.
  apply (Forall2_impl' (OpRel kK kM inv' g)); [|exact Hm]. intros o o1 [ts [Ha [Hp Hq]]]. exists ts. split; [exact Ha|]. split; [exact Hp|].
  intro q. rewrite Hq. apply Hg.
Qed.

Lemma any_loop_rel kK kM c f a :
  any_loop kK kM c f = Ok a ->
  CircRel kK kM (rep_negative (reps f)) (zlookup (qm f)) (if rep_negative (reps f) then rev c else c) a.
Proof.
  unfold any_loop. intro H.
  set (c1 := if isnil (qm f) then c else map (map (t_qmap (zlookup (qm f)))) c) in *.
  assert (H1 : CircRel kK kM false (zlookup (qm f)) c c1).
  { unfold c1. destruct (qm f) as [|p r] eqn:E; cbn [isnil].
    - apply CircRel_refl.
    - apply (CircRel_weaken kK kM (xorb false (par [TQ (zlookup (p :: r))])) false (fun q => qf [TQ (zlookup (p :: r))] q) _ c);
        [reflexivity | reflexivity |].
      apply (CircRel_map kK kM false (fun q => q) c c (TQ (zlookup (p :: r))) (t_qmap (zlookup (p :: r)))); [reflexivity | apply CircRel_refl]. }
  destruct (if rep_negative (reps f) then circ_inv c1 else Ok c1) as [c2| |] eqn:E2; simpl in H; try discriminate.
  assert (H2 : CircRel kK kM (rep_negative (reps f)) (zlookup (qm f)) (if rep_negative (reps f) then rev c else c) c2).
  { destruct (rep_negative (reps f)); [apply (CircRel_inv _ _ _ _ _ _ _ H1 E2) | inversion E2; subst; exact H1]. }
  set (c3 := if isnil (km f) then c2 else map (moment_kmap kK kM (km f)) c2) in *.
  assert (H3 : CircRel kK kM (rep_negative (reps f)) (zlookup (qm f)) (if rep_negative (reps f) then rev c else c) c3).
  { unfold c3. destruct (isnil (km f)); [exact H2|]. unfold moment_kmap.
    eapply CircRel_weaken; [| |apply (CircRel_map kK kM _ _ _ _ (TK (km f)) _ (fun o => eq_refl) H2)];
      [simpl; apply xorb_false_r' | reflexivity]. }
  inversion H; subst a. destruct (isnil (pm f)); [exact H3|].
  eapply CircRel_weaken; [| |apply (CircRel_map kK kM _ _ _ _ (TP (pm f)) _ (fun o => eq_refl) H3)];
    [simpl; apply xorb_false_r' | reflexivity].
Qed.

Lemma single_loop_rel kK kM c f rid s :
  single_loop kK kM c f rid = Ok s ->
  CircRel kK kM (rep_negative (reps f)) (zlookup (qm f)) (if rep_negative (reps f) then rev c else c) s.
Proof.
  unfold single_loop. destruct (any_loop kK kM c f) as [a| |] eqn:Ea; simpl; try discriminate.
  intro H. inversion H; subst s. apply CircRel_rescope. pose proof (any_loop_rel _ _ _ _ _ Ea) as Ha.
  destruct rid; [apply CircRel_rescope; exact Ha | exact Ha].
Qed.

Lemma Forall2_len {A B} (R : A -> B -> Prop) l l' : Forall2 R l l' -> List.length l = List.length l'.
Proof. induction 1; simpl; [reflexivity | f_equal; assumption]. Qed.

Lemma repeat_app_concat {A} n (l : list A) : repeat_app n l = List.concat (repeat l n).
Proof. induction n as [|n IH]; simpl; [reflexivity | rewrite IH; reflexivity]. Qed.

(* the shallow mapped circuit is |r| loops, each related operation by operation to the (reversed) wrapped circuit *)
Lemma shallow_rel kK kM n c f body r :
  mapped_circuit kK kM (S n) false c f = Ok body -> reps f = RInt r -> r <> 0 ->
  (forall l, ids f = Some l -> List.length l = Z.abs_nat r) ->
  exists ss, body = List.concat ss /\ List.length ss = Z.abs_nat r /\
             Forall (CircRel kK kM (r <? 0) (zlookup (qm f)) (if r <? 0 then rev c else c)) ss.
Proof.
  intros H Hr Hnz Hids. cbn [mapped_circuit] in H. rewrite Hr in H.
  destruct (until f) as [u|]; [discriminate|].
  destruct (r =? 0) eqn:E0; [apply Z.eqb_eq in E0; contradiction|].
  assert (SL : forall rid s, single_loop kK kM c f rid = Ok s ->
                             CircRel kK kM (r <? 0) (zlookup (qm f)) (if r <? 0 then rev c else c) s).
  { intros rid s Hs. pose proof (single_loop_rel _ _ _ _ _ _ Hs) as R. rewrite Hr in R. exact R. }
  assert (Plain : forall s, single_loop kK kM c f None = Ok s ->
            exists ss, repeat_app (Z.abs_nat r) s = List.concat ss /\ List.length ss = Z.abs_nat r /\
                       Forall (CircRel kK kM (r <? 0) (zlookup (qm f)) (if r <? 0 then rev c else c)) ss).
  { intros s Hs. exists (repeat s (Z.abs_nat r)). split; [apply repeat_app_concat|]. split; [apply repeat_length|].
    apply Forall_forall. intros x Hx. apply repeat_spec in Hx. subst x. apply (SL None s Hs). }
  destruct (ids f) as [l|] eqn:Eids.
  - destruct (use_ids f && circ_is_meas c).
    + destruct (mapM (fun id => single_loop kK kM c f (Some id)) l) as [ls| |] eqn:El; simpl in H; try discriminate.
      inversion H; subst body. apply mapM_ok in El. exists ls. split; [reflexivity|]. split.
      * transitivity (List.length l); [symmetry; apply (Forall2_len _ _ _ El) | apply Hids; reflexivity].
      * apply Forall_forall. intros s Hs. destruct (Forall2_in_r _ _ _ El s Hs) as [id [_ Hsl]]. apply (SL _ _ Hsl).
    + destruct (single_loop kK kM c f None) as [s| |] eqn:Es; simpl in H; try discriminate.
      inversion H; subst body. apply Plain. reflexivity.
  - destruct (single_loop kK kM c f None) as [s| |] eqn:Es; simpl in H; try discriminate.
    inversion H; subst body. apply Plain. reflexivity.
Qed.

(* ---- erasure commutes with concatenation and zipping ---- *)
Lemma strip_app a b : strip_circ (a ++ b) = strip_circ a ++ strip_circ b.
Proof. unfold strip_circ. apply map_app. Qed.
Lemma strip_concat (l : list circ) : strip_circ (List.concat l) = List.concat (map strip_circ l).
Proof. unfold strip_circ. apply concat_map. Qed.
Lemma strip_zip2 : forall a b, strip_circ (zip2 a b) = zip2 (strip_circ a) (strip_circ b).
Proof.
  induction a as [|x a IH]; intros b; [reflexivity|]. destruct b as [|y b]; [reflexivity|].
  simpl. rewrite map_app. f_equal. apply IH.
Qed.
Lemma strip_zip_all cs : strip_circ (zip_all cs) = zip_all (map strip_circ cs).
Proof. induction cs as [|c cs IH]; [reflexivity|]. simpl. rewrite strip_zip2, IH. reflexivity. Qed.

Lemma deep_part_spec kK kM n body ms :
  deep_part kK kM n body = Ok ms ->
  exists zs, Forall2 (fun m z => exists cs, Forall2 (fun o co => unroll_op kK kM n o = Ok co) m cs /\ z = zip_all cs) body zs /\
             ms = List.concat zs.
Proof.
  unfold deep_part. destruct (mapM (fun m => do cs <- mapM (unroll_op kK kM n) m; Ok (zip_all cs)) body) as [zs| |] eqn:E;
    simpl; try discriminate.
  intro H. inversion H; subst ms. exists zs. split; [|reflexivity]. apply mapM_ok in E.
  apply (Forall2_impl' (fun m z => (do cs <- mapM (unroll_op kK kM n) m; Ok (zip_all cs)) = Ok z)); [|exact E].
  intros m z Hm. destruct (mapM (unroll_op kK kM n) m) as [cs| |] eqn:Ecs; simpl in Hm; try discriminate.
  inversion Hm; subst z. exists cs. split; [apply mapM_ok; exact Ecs | reflexivity].
Qed.

(* the semantics depends on the relabelling only through the qubits the operation touches *)
Lemma op_qubits_in_circ c m o q : In m c -> In o m -> In q (op_qubits o) -> In q (circ_qubits c).
Proof. intros Hm Ho Hq. apply circ_qubits_in. apply body_attr_in. exists m, o. auto. Qed.

Lemma ops_nested_ext : forall o inv g1 g2, (forall q, In q (op_qubits o) -> g1 q = g2 q) ->
  ops_nested inv g1 o = ops_nested inv g2 o.
Proof.
  induction o as [l|c f IH] using op_ind'; intros inv g1 g2 H.
  - simpl in *. rewrite (map_ext_in g1 g2 (lqs l) H). reflexivity.
  - cbn [ops_nested]. destruct (reps f) as [r|b s]; [|reflexivity].
    assert (E : map (fun m => zip_all (map (ops_nested (xorb inv (r <? 0)) (fun q => g1 (zlookup (qm f) q))) m)) c =
                map (fun m => zip_all (map (ops_nested (xorb inv (r <? 0)) (fun q => g2 (zlookup (qm f) q))) m)) c).
    { apply map_ext_in. intros m Hm. f_equal. apply map_ext_in. intros o Ho.
      rewrite Forall_forall in IH. specialize (IH m Hm). rewrite Forall_forall in IH. apply (IH o Ho).
      intros q Hq. apply H. rewrite op_qubits_sub. apply in_map. apply (op_qubits_in_circ c m o q Hm Ho Hq). }
    rewrite E. reflexivity.
Qed.

Lemma z_par_neg b r : r <> 0 -> (z_par b r <? 0) = xorb b (r <? 0).
Proof.
  intro H. unfold z_par. destruct b; simpl.
  - destruct (r <? 0) eqn:E; [apply Z.ltb_lt in E | apply Z.ltb_ge in E]; simpl; [apply Z.ltb_ge | apply Z.ltb_lt]; lia.
  - destruct (r <? 0); reflexivity.
Qed.

(* one loop: unrolling the operations of a loop that is related to c0 operation by operation gives the zipped semantics *)
Lemma loop_strip kK kM n inv g (S0 : op -> circ) (P : op -> Prop) :
  (forall o o2 co, P o -> OpRel kK kM inv g o o2 -> unroll_op kK kM n o2 = Ok co -> strip_circ co = S0 o) ->
  forall c0 s zs, Forall (Forall P) c0 -> CircRel kK kM inv g c0 s ->
  Forall2 (fun m z => exists cs, Forall2 (fun o co => unroll_op kK kM n o = Ok co) m cs /\ z = zip_all cs) s zs ->
  strip_circ (List.concat zs) = List.concat (map (fun m => zip_all (map S0 m)) c0).
Proof.
  intros HS c0 s zs HP Hrel. revert zs HP. induction Hrel as [|m0 m2 c0 s Hm Hrel IH]; intros zs HP Hz.
  - inversion Hz. reflexivity.
  - inversion Hz as [|m2' z s' zs' [cs [Hcs Ez]] Hz']; subst. inversion HP as [|m0' c0' HPm HPc]; subst.
    simpl. rewrite strip_app. f_equal; [|apply IH; assumption].
    rewrite strip_zip_all. f_equal.
    clear -HS Hm Hcs HPm. revert cs Hcs HPm. induction Hm as [|o o2 m0 m2 Ho Hm IHm]; intros cs Hcs HPm.
    + inversion Hcs. reflexivity.
    + inversion Hcs as [|o2' co m2' cs' Hco Hcs']; subst. inversion HPm as [|o' m0' HPo HPm']; subst.
      simpl. f_equal; [apply (HS o o2 co HPo Ho Hco) | apply IHm; assumption].
Qed.

Lemma concat_repeat_strip kK kM n inv g (S0 : op -> circ) (P : op -> Prop) c0 :
  (forall o o2 co, P o -> OpRel kK kM inv g o o2 -> unroll_op kK kM n o2 = Ok co -> strip_circ co = S0 o) ->
  Forall (Forall P) c0 ->
  forall ss zs, Forall (CircRel kK kM inv g c0) ss ->
  Forall2 (fun m z => exists cs, Forall2 (fun o co => unroll_op kK kM n o = Ok co) m cs /\ z = zip_all cs) (List.concat ss) zs ->
  strip_circ (List.concat zs) = repeat_app (List.length ss) (List.concat (map (fun m => zip_all (map S0 m)) c0)).
Proof.
  intros HS HP. induction ss as [|s ss IH]; intros zs Hss Hz.
  - simpl in Hz. inversion Hz. reflexivity.
  - simpl in Hz. apply Forall2_app_inv_l in Hz. destruct Hz as [za [zb [Ha [Hb ->]]]].
    inversion Hss as [|s' ss' Hs Hss']; subst. rewrite concat_app, strip_app. simpl. f_equal.
    + apply (loop_strip kK kM n inv g S0 P HS c0 s za HP Hs Ha).
    + apply IH; assumption.
Qed.

Lemma forall_rev_P {A} (P : A -> Prop) l : Forall P l -> Forall P (rev l).
Proof. intro H. apply Forall_forall. intros x Hx. apply in_rev in Hx. rewrite Forall_forall in H. auto. Qed.

(* main lemma: unrolling a transformed operation = semantics of the original operation under the accumulated
   inversion parity and relabelling *)
Lemma unroll_ops_main kK kM : forall n o ts o' ms, op_ok o = true ->
  apply_trs kK kM ts o = Ok o' -> unroll_op kK kM n o' = Ok ms ->
  strip_circ ms = ops_nested (par ts) (qf ts) o.
Proof.
  induction n as [|n IH]; intros o ts o' ms Hok Hap Hun; destruct o as [l|c f].
  - destruct (apply_trs_leaf _ _ _ _ _ Hap) as [l' [-> [Hu [Hs Hq]]]]. simpl in Hun. inversion Hun; subst ms.
    simpl. unfold erase_leaf. rewrite Hu, Hs, Hq. reflexivity.
  - apply nz_sub in Hok. destruct Hok as [[r [Hr _]] _].
    destruct (apply_trs_sub _ _ _ _ _ _ _ Hap Hr) as [f' [-> _]]. simpl in Hun. discriminate.
  - destruct (apply_trs_leaf _ _ _ _ _ Hap) as [l' [-> [Hu [Hs Hq]]]]. simpl in Hun. inversion Hun; subst ms.
    simpl. unfold erase_leaf. rewrite Hu, Hs, Hq. reflexivity.
  - apply nz_sub in Hok. destruct Hok as [[r [Hr [Hr0 Hids]]] Hc].
    destruct (apply_trs_sub _ _ _ _ _ _ _ Hap Hr) as [f' [-> [Hr' [Hi' [Hu' [Hun' Hq']]]]]]. cbn [unroll_op] in Hun.
    destruct (mapped_deep_split _ _ _ _ _ _ Hun) as [body [Hsh Hdp]].
    assert (Hr0' : z_par (par ts) r <> 0) by (unfold z_par; destruct (par ts); lia).
    assert (Habs : Z.abs_nat (z_par (par ts) r) = Z.abs_nat r) by (unfold z_par; destruct (par ts); lia).
    assert (Hids' : forall l, ids f' = Some l -> List.length l = Z.abs_nat (z_par (par ts) r)).
    { intros l Hl. rewrite Habs. apply Hids. rewrite <- Hi'. exact Hl. }
    destruct (shallow_rel _ _ _ _ _ _ _ Hsh Hr' Hr0' Hids') as [ss [-> [Hlen Hss]]].
    destruct (deep_part_spec _ _ _ _ _ Hdp) as [zs [Hz ->]].
    rewrite (z_par_neg _ _ Hr0) in Hss.
    set (inv' := xorb (par ts) (r <? 0)) in *.
    set (g' := fun q => qf ts (zlookup (qm f) q)).
    set (c0 := if inv' then rev c else c) in *.
    assert (HP : Forall (Forall (fun o => Nz o /\ exists m, In m c /\ In o m)) c0).
    { assert (HPc : Forall (Forall (fun o => Nz o /\ exists m, In m c /\ In o m)) c).
      { apply Forall_forall. intros m Hm. apply Forall_forall. intros o Ho. split; [apply (Hc m o Hm Ho) | exists m; auto]. }
      unfold c0. destruct inv'; [apply forall_rev_P; exact HPc | exact HPc]. }
    assert (HS : forall o o2 co, (Nz o /\ exists m, In m c /\ In o m) -> OpRel kK kM inv' (zlookup (qm f')) o o2 ->
                 unroll_op kK kM n o2 = Ok co -> strip_circ co = ops_nested inv' g' o).
    { intros o o2 co [Hnz [m [Hm Ho]]] [ts2 [Ha2 [Hp2 Hq2]]] Hu2.
      rewrite (IH o ts2 o2 co Hnz Ha2 Hu2). rewrite Hp2. apply ops_nested_ext.
      intros q Hq. rewrite Hq2. unfold g'. apply Hq'. apply (op_qubits_in_circ c m o q Hm Ho Hq). }
    rewrite (concat_repeat_strip kK kM n inv' (zlookup (qm f')) (ops_nested inv' g')
               (fun o => Nz o /\ exists m, In m c /\ In o m) c0 HS HP ss zs Hss Hz).
    cbn [ops_nested]. rewrite Hr. fold inv'. fold g'. f_equal; [rewrite <- Habs; exact Hlen|]. f_equal.
    unfold c0. destruct inv'; [rewrite map_rev|]; reflexivity.
Qed.

(* D2, operation sequence *)
Theorem unroll_ops kK kM : forall n c f ms,
  mapped_circuit kK kM n true c f = Ok ms -> op_ok (OSub c f) = true ->
  strip_circ ms = ops_nested false (fun q => q) (OSub c f).
Proof.
  intros n c f ms H Hok. apply (unroll_ops_main kK kM n (OSub c f) [] (OSub c f) ms Hok eq_refl). exact H.
Qed.

(* ---- repeat_until keys under with_measurement_key_mapping: the names the loop condition reads after a further key
   map are the images of the names it read before - also for a key the loop body never mentions (a key measured in an
   enclosing scope).  The dict composition must therefore range over the names of the body AND of the condition. ---- *)
Theorem until_names_kmap kK kM m c f :
  exists f', t_kmap kK kM m (OSub c f) = OSub c f' /\ until f' = until f /\
             until_read_names f' = map (name_map m) (until_read_names f).
Proof.
  eexists. split; [reflexivity|]. split; [reflexivity|].
  unfold until_read_names. cbn [set_km km until until_names].
  assert (E : until_names (set_km f (kmap_compose (str_nodup (circ_names c ++ until_names f)) (km f) m)) = until_names f) by reflexivity.
  rewrite E. rewrite map_map. apply map_ext_in. intros s Hs.
  apply lookup_compose. apply str_nodup_in. apply in_or_app. right. exact Hs.
Qed.

(* composing over the names of the body only (what CircuitOperation.with_measurement_key_mapping does today, F20) loses
   the renaming of an outside key of the condition: loop [X(q2); M(q2, b)] until a == b, under {a: z} *)
Definition f20_body : circ := [[OLeaf (Leaf 10 false [2] [MK [] "b"] [] [])]].
Definition f20_fields : subf := SubF (RInt 1) None false [] [] [] [] [] (Some (CSym 5 [MK [] "a"; MK [] "b"])).
Theorem until_names_kmap_body_only_refuted kK kM :
  exists f', t_kmap_body_only kK kM [("a", "z")]%string (OSub f20_body f20_fields) = OSub f20_body f' /\
             until_read_names f' = ["a"; "b"]%string /\
             map (name_map [("a", "z")]%string) (until_read_names f20_fields) = ["z"; "b"]%string.
Proof. eexists. split; [reflexivity|]. split; reflexivity. Qed.

(* ---- the repeat_until condition is scoped like a classical control placed in a new last moment of the loop body:
   one pass of the loop (_mapped_single_loop) over body ++ [probe] is the pass over the body followed by the probe whose
   condition is exactly the mapped repeat_until condition (_mapped_repeat_until).  This is what lets the harness replace
   a loop by plain repetitions of body ++ [probe] and read the loop condition off a loop-free circuit. ---- *)
Lemma cond_rescope_ext kK kM path b b' c : (forall x, In x b <-> In x b') ->
  cond_rescope kK kM path b c = cond_rescope kK kM path b' c.
Proof.
  intro H. destruct c as [k i|k i t e m|e s]; cbn [cond_rescope].
  - rewrite (rescope_key_ext path b b' k H). reflexivity.
  - rewrite (rescope_key_ext path b b' k H). reflexivity.
  - f_equal. apply map_ext. intro k. rewrite (rescope_key_ext path b b' k H). reflexivity.
Qed.

Lemma key_nodup_nil l : key_nodup l = [] -> l = [].
Proof.
  destruct l as [|k r]; [reflexivity|]. intro H. exfalso.
  assert (Hin : In k (key_nodup (k :: r))) by (apply key_nodup_in; left; reflexivity).
  rewrite H in Hin. destruct Hin.
Qed.

Lemma probe_kmap kK kM m u qs :
  (if isnil (op_names (probe_leaf u qs)) then probe_leaf u qs else t_kmap kK kM m (probe_leaf u qs))
  = probe_leaf (cond_key_map kK kM m u) qs.
Proof.
  destruct (isnil (op_names (probe_leaf u qs))) eqn:E; [|reflexivity].
  unfold probe_leaf in *. cbn [op_names lmk lcs map conds_keys List.concat app] in E.
  destruct u as [k i|k i t e mm|e s]; cbn [cond_keys map app isnil] in E; try discriminate.
  rewrite app_nil_r in E. destruct (key_nodup s) as [|k0 r] eqn:En; [|discriminate].
  apply key_nodup_nil in En. subst s. reflexivity.
Qed.

Lemma probe_qmap g u qs : t_qmap g (probe_leaf u qs) = probe_leaf u (map g qs).
Proof. reflexivity. Qed.
Lemma probe_resolve pm u qs : t_resolve pm (probe_leaf u qs) = probe_leaf u qs.
Proof. reflexivity. Qed.

Lemma any_loop_app_probe kK kM c f u qs :
  rep_negative (reps f) = false ->
  any_loop kK kM (c ++ [[probe_leaf u qs]]) f =
  bind (any_loop kK kM c f)
       (fun a => Ok (a ++ [[probe_leaf (if isnil (km f) then u else cond_key_map kK kM (km f) u)
                                      (if isnil (qm f) then qs else map (zlookup (qm f)) qs)]])).
Proof.
  intro Hn. unfold any_loop. rewrite Hn. cbn [bind].
  destruct (isnil (qm f)); destruct (isnil (km f)); destruct (isnil (pm f));
    rewrite ?map_app; cbn [map]; unfold moment_kmap; cbn [map]; rewrite ?probe_qmap, ?probe_kmap, ?probe_resolve; reflexivity.
Qed.

Theorem until_is_last_control kK kM c f u qs s :
  until f = Some u -> rep_negative (reps f) = false -> (ids f = None \/ use_ids f = false) ->
  single_loop kK kM (c ++ [[probe_leaf u qs]]) f None = Ok s ->
  exists s0 u' qs', single_loop kK kM c f None = Ok s0 /\ s = s0 ++ [[probe_leaf u' qs']] /\
                    mapped_until kK kM f (op_mkeys (OSub c f)) = Some u'.
Proof.
  intros Hu Hn Hids H. unfold single_loop in *. rewrite (any_loop_app_probe kK kM c f u qs Hn) in H.
  destruct (any_loop kK kM c f) as [a| |] eqn:Ea; cbn [bind] in H; try discriminate.
  rewrite rescope_app in H. cbn [circ_rescope map t_rescope probe_leaf uid sgn lqs lmk lcs lps] in H.
  inversion H as [Hs]. clear H.
  eexists. eexists. eexists. cbn [bind]. split; [reflexivity|]. split; [unfold probe_leaf; reflexivity|].
  unfold mapped_until. rewrite Hu. f_equal. apply cond_rescope_ext. intro x. rewrite !in_app_iff.
  assert (Hk : In x (op_mkeys (OSub c f)) <-> In x (List.concat (map moment_mkeys (circ_rescope kK kM (ppath f) (ext f) a)))).
  { change (List.concat (map moment_mkeys (circ_rescope kK kM (ppath f) (ext f) a)))
      with (body_keys (circ_rescope kK kM (ppath f) (ext f) a)).
    assert (Hsl : single_loop kK kM c f None = Ok (circ_rescope kK kM (ppath f) (ext f) a))
      by (unfold single_loop; rewrite Ea; reflexivity).
    rewrite (single_loop_keys kK kM c f None _ x Hsl). rewrite op_mkeys_sub, sub_keys_in. split.
    - intros [k0 [p [H0 [Hp E]]]]. exists k0. split; [apply key_nodup_in; exact H0|].
      assert (p = []) as ->.
      { unfold id_prefixes in Hp. destruct Hids as [Hi|Hi]; rewrite Hi in Hp.
        - destruct Hp as [<-|[]]. reflexivity.
        - destruct (ids f); destruct Hp as [<-|[]]; reflexivity. }
      exact E.
    - intros [k0 [H0 E]]. exists k0, []. split; [apply key_nodup_in; exact H0|]. split; [|exact E].
      unfold id_prefixes. destruct Hids as [Hi|Hi]; rewrite Hi; [left; reflexivity|].
      destruct (ids f); left; reflexivity. }
  rewrite Hk. tauto.
Qed.
