(* C05 proofs: the index Circuit.insert returns lies behind everything the call inserted.
   "The insertion index that will place operations just after the operations that were inserted by this
   method": in the model, the moments from the returned index on are, unchanged, a tail of the moments that
   stood at or behind the insertion point before the call - no inserted operation, and no moment the call
   touched, lies at or behind the returned index. *)
From Coq Require Import ZArith List Bool Arith Lia.
From VF Require Import Circ.Moments Circ.Placement Circ.Insert Circ.MomentsProofs Circ.PlacementProofs
  Circ.InsertProofs Circ.CacheProofs Circ.OrderProofs Circ.TotalProofs Circ.BatchEdit Circ.History Circ.HistoryProofs.
Import ListNotations.
Open Scope Z_scope.

(* the moments of ms from index n on are the moments of ms0 from some index j >= k0 on *)
Definition suf (ms0 : list moment) (k0 n : nat) (ms : list moment) : Prop :=
  exists j, (k0 <= j)%nat /\ skipn n ms = skipn j ms0.

Lemma suf_refl ms0 k0 : suf ms0 k0 k0 ms0.
Proof. exists k0. split; [lia|reflexivity]. Qed.

Lemma suf_weaken ms0 k0 n n' ms : (n <= n')%nat -> suf ms0 k0 n ms -> suf ms0 k0 n' ms.
Proof.
  intros Hle [j [Hj H]]. exists (n' - n + j)%nat. split; [lia|].
  rewrite <- skipn_skipn_o, <- H, skipn_skipn_o. f_equal. lia.
Qed.

Lemma skipn_insert_at_le {A} (x : A) : forall p n (l : list A), (p <= n)%nat -> skipn (S n) (insert_at p x l) = skipn n l.
Proof.
  induction p as [|p IH]; intros n l H.
  - reflexivity.
  - destruct n as [|n]; [lia|]. destruct l as [|y r].
    + simpl. destruct n; reflexivity.
    + simpl. apply IH. lia.
Qed.

Lemma skipn_replace_nth_lt {A} (x : A) : forall p n (l : list A), (p < n)%nat -> skipn n (replace_nth p x l) = skipn n l.
Proof.
  induction p as [|p IH]; intros n l H; (destruct n as [|n]; [lia|]); destruct l as [|y r]; simpl; try reflexivity.
  apply IH. lia.
Qed.

Lemma suf_insert_at ms0 k0 n p x ms : (p <= n)%nat -> suf ms0 k0 n ms -> suf ms0 k0 (S n) (insert_at p x ms).
Proof. intros Hp [j [Hj H]]. exists j. split; [exact Hj|]. rewrite skipn_insert_at_le by exact Hp. exact H. Qed.

Lemma suf_replace_nth ms0 k0 n p x ms : (p < n)%nat -> suf ms0 k0 n ms -> suf ms0 k0 n (replace_nth p x ms).
Proof. intros Hp [j [Hj H]]. exists j. split; [exact Hj|]. rewrite skipn_replace_nth_lt by exact Hp. exact H. Qed.

Lemma suf_past_end ms0 k0 n ms : (k0 <= length ms0)%nat -> (length ms <= n)%nat -> suf ms0 k0 n ms.
Proof.
  intros Hk Hn. exists (length ms0). split; [exact Hk|].
  rewrite (skipn_all2 ms) by exact Hn. rewrite skipn_all. reflexivity.
Qed.

(* ==== _insert_latest ==== *)
Definition lpos (k : nat) (st : lst) : nat := if l_max st =? -1 then k else Z.to_nat (l_max st + 1).

Definition linv (ms0 : list moment) (k : nat) (st : lst) : Prop :=
  -1 <= l_max st < Z.of_nat (length (l_ms st)) /\ (k <= lpos k st)%nat /\ (k <= length (l_ms st))%nat /\
  suf ms0 k (lpos k st) (l_ms st).

Lemma lpos_changed k st : 0 <= l_max st -> lpos k st = Z.to_nat (l_max st + 1).
Proof. intros H. unfold lpos. destruct (Z.eqb_spec (l_max st) (-1)); [lia|reflexivity]. Qed.

Lemma lpos_cases k st : -1 <= l_max st ->
  (l_max st = -1 /\ lpos k st = k) \/ (0 <= l_max st /\ lpos k st = Z.to_nat (l_max st + 1)).
Proof. intros H. unfold lpos. destruct (Z.eqb_spec (l_max st) (-1)); [left|right]; split; try reflexivity; lia. Qed.

(* a new moment opened at the insertion point: everything placed so far moves one moment to the right *)
Lemma linv_open ms0 k st x :
  linv ms0 k st -> linv ms0 k (mkl (insert_at k x (l_ms st)) (Z.max (Z.of_nat k) (l_max st + 1))).
Proof.
  intros [Hm [Hk [Hl Hs]]]. unfold linv. cbn [l_ms l_max].
  assert (Hp : lpos k (mkl (insert_at k x (l_ms st)) (Z.max (Z.of_nat k) (l_max st + 1))) = S (lpos k st)).
  { rewrite lpos_changed by (cbn [l_max]; lia). cbn [l_max].
    destruct (lpos_cases k st (proj1 Hm)) as [[E1 E2]|[E1 E2]]; rewrite E2 in *; lia. }
  rewrite Hp. rewrite insert_at_length_S. split; [lia|]. split; [lia|]. split; [lia|].
  apply suf_insert_at; assumption.
Qed.

Lemma latest_item_linv ms0 k st it st' :
  (k <= length ms0)%nat -> latest_item k st it = (st', None) -> linv ms0 k st -> linv ms0 k st'.
Proof.
  intros Hk0. unfold latest_item. intros H Hinv. destruct it as [o|m].
  - destruct (latest_available_moment (l_ms st) o k <? Z.of_nat k) eqn:E1.
    + injection H as <-. apply linv_open. exact Hinv.
    + apply Z.ltb_ge in E1.
      destruct (latest_available_moment (l_ms st) o k <? Z.of_nat (length (l_ms st))) eqn:E2.
      * apply Z.ltb_lt in E2.
        destruct (nth_error (l_ms st) _) as [m|]; [|discriminate].
        destruct (with_operation m o) as [m'|]; [|discriminate].
        injection H as <-. destruct Hinv as [Hm [Hk [Hl Hs]]]. unfold linv. cbn [l_ms l_max].
        set (p := latest_available_moment (l_ms st) o k) in *.
        assert (Hp : lpos k (mkl (replace_nth (Z.to_nat p) m' (l_ms st)) (Z.max p (l_max st))) = Z.to_nat (Z.max p (l_max st) + 1)).
        { apply lpos_changed. cbn [l_max]. lia. }
        rewrite Hp. rewrite replace_nth_length. split; [lia|]. split; [lia|]. split; [exact Hl|].
        apply suf_replace_nth; [lia|]. eapply suf_weaken; [|exact Hs].
        destruct (lpos_cases k st (proj1 Hm)) as [[F1 F2]|[F1 F2]]; rewrite F2; lia.
      * injection H as <-. destruct Hinv as [Hm [Hk [Hl Hs]]]. unfold linv. cbn [l_ms l_max].
        rewrite lpos_changed by (cbn [l_max]; lia). cbn [l_max].
        rewrite app_length. simpl length.
        split; [lia|]. split; [lia|]. split; [lia|].
        apply suf_past_end; [exact Hk0|]. rewrite app_length. simpl. lia.
  - injection H as <-. apply linv_open. exact Hinv.
Qed.

Lemma latest_items_linv ms0 k its : forall st st',
  (k <= length ms0)%nat -> latest_items k st its = (st', None) -> linv ms0 k st -> linv ms0 k st'.
Proof.
  induction its as [|it r IH]; intros st st' Hk H Hinv; cbn [latest_items] in H.
  - injection H as <-. exact Hinv.
  - destruct (latest_item k st it) as [st1 [e1|]] eqn:E1; [discriminate|].
    eapply IH; [exact Hk|exact H|]. eapply latest_item_linv; eassumption.
Qed.

Lemma latest_batches_linv ms0 k bs : forall st st',
  (k <= length ms0)%nat -> latest_batches k st bs = (st', None) -> linv ms0 k st -> linv ms0 k st'.
Proof.
  induction bs as [|b r IH]; intros st st' Hk H Hinv; cbn [latest_batches] in H.
  - injection H as <-. exact Hinv.
  - destruct (latest_items k st b) as [st1 [e1|]] eqn:E1; [discriminate|].
    eapply IH; [exact Hk|exact H|]. eapply latest_items_linv; eassumption.
Qed.

(* LATEST, any index, any tree: the moments from the returned index on are an untouched tail of what stood at or
   behind the insertion point; the returned index is not in front of the insertion point nor past the end *)
Theorem insert_latest_returns_behind c i its c' z :
  insert c i its LATEST = (c', inl z) ->
  let k := clamp_index i (length (moms c)) in
  Z.of_nat k <= z <= Z.of_nat (length (moms c')) /\ suf (moms c) k (Z.to_nat z) (moms c').
Proof.
  unfold insert. intros H. cbv zeta.
  set (k := clamp_index i (length (moms c))) in *.
  assert (Hk : (k <= length (moms c))%nat) by apply clamp_index_le.
  match type of H with context [insert_latest ?a ?b ?d] => destruct (insert_latest a b d) as [st e] eqn:E end.
  destruct e as [e|]; [discriminate|].
  unfold insert_latest in E.
  assert (Hinv : linv (moms c) k st).
  { eapply latest_batches_linv; [exact Hk|exact E|]. unfold linv, lpos. cbn [l_max l_ms]. simpl.
    split; [lia|]. split; [lia|]. split; [exact Hk|]. apply suf_refl. }
  destruct Hinv as [Hm [Hp [Hl Hs]]].
  assert (Hz : z = Z.of_nat (lpos k st)).
  { unfold lpos. destruct (l_max st =? -1) eqn:Em; injection H as <- <-; [reflexivity|].
    apply Z.eqb_neq in Em. rewrite Z2Nat.id by lia. reflexivity. }
  assert (Hc : moms c' = l_ms st) by (destruct (l_max st =? -1); injection H as <- <-; reflexivity).
  rewrite Hc, Hz, Nat2Z.id. split; [|exact Hs]. split; [lia|].
  destruct (lpos_cases k st (proj1 Hm)) as [[F1 F2]|[F1 F2]]; rewrite F2; lia.
Qed.

(* ==== the main loop of insert (EARLIEST / NEW / INLINE / NEW_THEN_INLINE) ==== *)
Local Arguments place : simpl never.
Local Arguments insert_at : simpl never.
Local Arguments replace_nth : simpl never.
Local Arguments earliest_available_moment : simpl never.
Local Arguments blocks : simpl never.
Local Arguments can_add_op_at : simpl never.
Local Arguments Nat.max : simpl never.
Local Arguments nth_error : simpl never.
Local Arguments with_operation : simpl never.

(* placing one operation at p touches nothing from S p on *)
Lemma place_op_suf ms0 k0 ms p o ms' n :
  (k0 <= length ms0)%nat -> place ms p (IOp o) = inl ms' -> (S p <= n)%nat -> suf ms0 k0 n ms -> suf ms0 k0 n ms'.
Proof.
  intros Hk H Hp Hs. unfold place in H. destruct (Nat.eqb_spec p (length ms)) as [->|Hne].
  - injection H as <-. apply suf_past_end; [exact Hk|]. rewrite app_length. simpl. lia.
  - destruct (nth_error ms p) as [m|]; [|discriminate]. destruct (with_operation m o) as [m'|]; [|discriminate].
    injection H as <-. apply suf_replace_nth; [lia|exact Hs].
Qed.

Lemma place_item_maxp st it st' : place_item st it = (st', None) -> (i_maxp st <= i_maxp st')%nat /\ (i_k st <= i_k st')%nat.
Proof.
  unfold place_item. destruct (determine st it) as [[p c1] ms1]. destruct (place ms1 p it); [|discriminate].
  destruct (i_s st); intros H; injection H as <-; cbn [i_maxp i_k]; lia.
Qed.

Lemma place_items_maxp its : forall st st', place_items st its = (st', None) -> (i_maxp st <= i_maxp st')%nat /\ (i_k st <= i_k st')%nat.
Proof.
  induction its as [|it r IH]; intros st st' H; cbn [place_items] in H.
  - injection H as <-. lia.
  - destruct (place_item st it) as [st1 [e1|]] eqn:E1; [discriminate|].
    apply place_item_maxp in E1. apply IH in H. lia.
Qed.

(* EARLIEST and INLINE without a cache: an operation joins an existing moment (or opens a new last one) *)
Definition slides (s : strategy) : Prop := s = EARLIEST \/ s = INLINE.

Lemma place_item_slides st o st' : i_cache st = None -> slides (i_s st) -> place_item st (IOp o) = (st', None) ->
  exists p, place (i_ms st) p (IOp o) = inl (i_ms st') /\ i_maxp st' = Nat.max p (i_maxp st) /\
            i_k st' = i_k st /\ i_s st' = i_s st /\ i_cache st' = None /\
            (i_s st = EARLIEST -> p = earliest_available_moment (i_ms st) o (i_k st)).
Proof.
  intros Hc Hs H. unfold place_item, determine in H. rewrite Hc in H.
  destruct Hs as [E|E]; rewrite E in H.
  - destruct (place (i_ms st) (earliest_available_moment (i_ms st) o (i_k st)) (IOp o)) as [ms2|] eqn:Ep; [|discriminate].
    injection H as <-. eexists. split; [exact Ep|]. cbn [i_ms i_maxp i_k i_s i_cache]. rewrite E. repeat split; reflexivity.
  - destruct (place (i_ms st) (Nat.pred (i_k st)) (IOp o)) as [ms2|] eqn:Ep; [|discriminate].
    injection H as <-. eexists. split; [exact Ep|]. cbn [i_ms i_maxp i_k i_s i_cache]. rewrite E. repeat split; try reflexivity.
    discriminate.
Qed.

Lemma place_items_slides_suf ms0 k0 n ops : forall st st',
  (k0 <= length ms0)%nat -> i_cache st = None -> slides (i_s st) ->
  place_items st (map IOp ops) = (st', None) ->
  (S (i_maxp st') <= n)%nat -> suf ms0 k0 n (i_ms st) ->
  suf ms0 k0 n (i_ms st') /\ i_k st' = i_k st /\ i_s st' = i_s st.
Proof.
  induction ops as [|o r IH]; intros st st' Hk Hc Hs H Hn Hsuf; cbn [map place_items] in H.
  - injection H as <-. repeat split; [exact Hsuf].
  - destruct (place_item st (IOp o)) as [st1 [e1|]] eqn:E1; [discriminate|].
    destruct (place_item_slides _ _ _ Hc Hs E1) as [p [Hp [Hm [Hk1 [Hs1 [Hc1 _]]]]]].
    pose proof (place_items_maxp _ _ _ H) as [Hmono _].
    assert (Hsuf1 : suf ms0 k0 n (i_ms st1)) by (eapply place_op_suf; [exact Hk|exact Hp|lia|exact Hsuf]).
    destruct (IH st1 st' Hk Hc1 ltac:(rewrite Hs1; exact Hs) H Hn Hsuf1) as [A [B C]].
    split; [exact A|]. split; congruence.
Qed.

(* EARLIEST with a blank moment opened at k: some operation of the batch lands in it *)
Definition blocked_below (ms : list moment) (o : opd) (k : nat) : Prop :=
  k = O \/ exists m, nth_error ms (Nat.pred k) = Some m /\ blocks m o = true.

Lemma eam_blocked_below ms o k : blocked_below ms o k -> earliest_available_moment ms o k = k.
Proof.
  intros [->|[m [Hn Hb]]]; [reflexivity|].
  destruct k as [|k']; [reflexivity|]. cbn [Nat.pred] in Hn. unfold earliest_available_moment.
  assert (Hlt : (k' < length ms)%nat) by (apply nth_error_Some; congruence).
  replace (Nat.min (S k') (length ms)) with (S k') by lia.
  cbn [eam_loop]. rewrite Hn, Hb. reflexivity.
Qed.

Lemma place_op_blocked_below ms p o' ms' o k :
  place ms p (IOp o') = inl ms' -> blocked_below ms o k -> blocked_below ms' o k.
Proof.
  intros H [->|[m [Hn Hb]]]; [left; reflexivity|]. right. unfold place in H.
  destruct (Nat.eqb_spec p (length ms)) as [->|Hne].
  - injection H as <-. exists m. split; [|exact Hb]. rewrite nth_error_app1; [exact Hn|]. apply nth_error_Some. congruence.
  - destruct (nth_error ms p) as [m2|] eqn:En; [|discriminate]. destruct (with_operation m2 o') as [m3|] eqn:Ew; [|discriminate].
    injection H as <-. apply with_operation_eq in Ew. subst m3.
    destruct (Nat.eq_dec p (Nat.pred k)) as [->|Hd].
    + rewrite Hn in En. injection En as <-. exists (m ++ [o']). split.
      * apply nth_error_replace_nth_eq. apply nth_error_Some. congruence.
      * apply blocks_spec. apply blocks_spec in Hb as [x [Hx Hcf]]. exists x. split; [apply in_or_app; left; exact Hx|exact Hcf].
    + exists m. split; [|exact Hb]. rewrite nth_error_replace_nth_other by exact Hd. exact Hn.
Qed.

Lemma place_items_earliest_reaches o ops : forall st st',
  i_cache st = None -> i_s st = EARLIEST -> In o ops -> blocked_below (i_ms st) o (i_k st) ->
  place_items st (map IOp ops) = (st', None) -> (i_k st <= i_maxp st')%nat.
Proof.
  induction ops as [|o1 r IH]; intros st st' Hc Hs Hin Hb H; [destruct Hin|]. cbn [map place_items] in H.
  destruct (place_item st (IOp o1)) as [st1 [e1|]] eqn:E1; [discriminate|].
  destruct (place_item_slides _ _ _ Hc (or_introl Hs) E1) as [p [Hp [Hm [Hk1 [Hs1 [Hc1 He]]]]]].
  pose proof (place_items_maxp _ _ _ H) as [Hmono _].
  destruct Hin as [->|Hin].
  - specialize (He Hs). rewrite (eam_blocked_below _ _ _ Hb) in He. lia.
  - rewrite <- Hk1. apply (IH st1 st'); [exact Hc1|congruence|exact Hin| |exact H].
    rewrite Hk1. eapply place_op_blocked_below; eassumption.
Qed.

Lemma forallb_false_witness {A} (f : A -> bool) l : forallb f l = false -> exists x, In x l /\ f x = false.
Proof.
  induction l as [|x r IH]; simpl; [discriminate|]. intros H. apply andb_false_iff in H as [H|H].
  - exists x. split; [left; reflexivity|exact H].
  - destruct (IH H) as [y [Hy Hf]]. exists y. split; [right; exact Hy|exact Hf].
Qed.

Lemma needs_blank_earliest_witness ms k ops mp :
  needs_blank (mki ms None k EARLIEST mp) (map IOp ops) = true -> exists o, In o ops /\ blocked_below ms o k.
Proof.
  destruct ops as [|o0 r0]; [discriminate|]. unfold needs_blank. cbn [map i_cache i_s i_ms i_k].
  change (IOp o0 :: map IOp r0) with (map IOp (o0 :: r0)). rewrite forallb_map_IOp. cbn [strategy_eqb andb].
  intros H. apply negb_true_iff in H. apply forallb_false_witness in H as [o [Hin Hf]].
  exists o. split; [exact Hin|]. apply orb_false_iff in Hf as [_ Hf]. apply andb_false_iff in Hf as [Hf|Hf].
  - left. apply Nat.ltb_ge in Hf. lia.
  - right. rewrite can_add_spec in Hf. destruct (nth_error ms (Nat.pred k)) as [m|]; [|discriminate].
    exists m. split; [reflexivity|]. apply negb_false_iff in Hf. exact Hf.
Qed.

(* one batch: the moments from the new k on are an untouched tail of those from the old k on *)
Lemma do_batch_suf ms0 k0 st b st' :
  (k0 <= length ms0)%nat -> good st -> batch_ok b -> (i_s st = NEW -> exists it, b = [it]) ->
  do_batch st b = (st', None) -> suf ms0 k0 (i_k st) (i_ms st) ->
  suf ms0 k0 (i_k st') (i_ms st') /\ (i_k st <= i_k st')%nat /\ good st' /\ (i_s st' = NEW -> i_s st = NEW).
Proof.
  intros Hk0 Hg Hb Hnew H Hsuf.
  assert (Hg' : good st').
  { destruct (do_batch_total st b Hg Hb) as [st2 [H2 Hg2]]. rewrite H in H2. injection H2 as <-. exact Hg2. }
  cut (suf ms0 k0 (i_k st') (i_ms st') /\ (i_k st <= i_k st')%nat /\ (i_s st' = NEW -> i_s st = NEW)).
  { intros [A [B C]]. split; [exact A|]. split; [exact B|]. split; [exact Hg'|exact C]. }
  clear Hg'. destruct Hg as [Hc [Hs [Hk Hmp]]]. destruct st as [ms cch k s maxp]. cbn [i_ms i_cache i_k i_s i_maxp] in *. subst cch.
  destruct Hb as [[m ->]|[ops [Hne [Ho Hp]]]].
  - (* a Moment goes in intact at k *)
    unfold do_batch, needs_blank in H. cbn [i_cache i_ms i_k i_s i_maxp place_items] in H. unfold place_item, determine in H.
    cbn [i_cache i_ms i_k i_s i_maxp] in H. unfold place in H.
    destruct s; try congruence; injection H as <-; cbn [i_ms i_k i_s];
      (split; [|split; [lia|congruence]]);
      (eapply suf_weaken; [|apply suf_insert_at; [apply Nat.le_refl|exact Hsuf]]); lia.
  - apply ops_of_batch_inv in Ho. subst b. unfold do_batch in H.
    destruct s; try congruence.
    + (* EARLIEST *)
      destruct (needs_blank (mki ms None k EARLIEST maxp) (map IOp ops)) eqn:Eb; cbn [i_ms i_cache i_k i_s i_maxp] in H.
      * destruct (place_items _ (map IOp ops)) as [st3 [e3|]] eqn:E3; [discriminate|]. injection H as <-. cbn [i_ms i_k i_s].
        destruct (needs_blank_earliest_witness _ _ _ _ Eb) as [o [Hin Hbb]].
        assert (Hbb1 : blocked_below (insert_at k [] ms) o k).
        { destruct Hbb as [->|[m [Hn Hbm]]]; [left; reflexivity|]. destruct k as [|k']; [left; reflexivity|]. right.
          exists m. split; [|exact Hbm]. cbn [Nat.pred] in *. rewrite nth_error_insert_at_lt by lia. exact Hn. }
        match type of E3 with place_items ?a _ = (?b, _) => pose proof (place_items_earliest_reaches o ops a b eq_refl eq_refl Hin Hbb1 E3) as Hreach end. cbn [i_k] in Hreach.
        match type of E3 with place_items ?a _ = (?b, _) => destruct (place_items_slides_suf ms0 k0 (Nat.max (i_k st3) (S (i_maxp st3))) ops a b Hk0 eq_refl (or_introl eq_refl) E3) as [A [B C]] end.
        { lia. }
        { cbn [i_ms]. eapply suf_weaken; [|apply suf_insert_at; [apply Nat.le_refl|exact Hsuf]].
          pose proof (place_items_maxp _ _ _ E3) as [_ Hk3]. cbn [i_k] in Hk3. lia. }
        cbn [i_k i_s] in B, C. split; [exact A|]. split; [lia|congruence].
      * destruct (place_items _ (map IOp ops)) as [st3 [e3|]] eqn:E3; [discriminate|]. injection H as <-. cbn [i_ms i_k i_s].
        match type of E3 with place_items ?a _ = (?b, _) => destruct (place_items_slides_suf ms0 k0 (Nat.max (i_k st3) (S (i_maxp st3))) ops a b Hk0 eq_refl (or_introl eq_refl) E3) as [A [B C]] end.
        { lia. }
        { cbn [i_ms]. eapply suf_weaken; [|exact Hsuf].
          pose proof (place_items_maxp _ _ _ E3) as [_ Hk3]. cbn [i_k] in Hk3. lia. }
        cbn [i_k i_s] in B, C. split; [exact A|]. split; [lia|congruence].
    + (* NEW: one operation, a moment of its own at k *)
      destruct (Hnew eq_refl) as [it Hit]. destruct ops as [|o0 [|o1 r1]]; try discriminate. injection Hit as <-.
      unfold needs_blank in H. cbn [map i_cache i_s i_ms i_k i_maxp place_items] in H. unfold place_item, determine in H.
      cbn [i_cache i_ms i_k i_s i_maxp] in H. rewrite place_on_blank in H by exact Hk.
      injection H as <-. cbn [i_ms i_k i_s]. split; [|split; [lia|congruence]].
      eapply suf_weaken; [|apply suf_insert_at; [apply Nat.le_refl|exact Hsuf]]. lia.
    + (* INLINE *)
      destruct (needs_blank (mki ms None k INLINE maxp) (map IOp ops)) eqn:Eb; cbn [i_ms i_cache i_k i_s i_maxp] in H.
      * destruct (place_items _ (map IOp ops)) as [st3 [e3|]] eqn:E3; [discriminate|]. injection H as <-. cbn [i_ms i_k i_s].
        match type of E3 with place_items ?a _ = (?b, _) => destruct (place_items_slides_suf ms0 k0 (Nat.max (i_k st3) (S (i_maxp st3))) ops a b Hk0 eq_refl (or_intror eq_refl) E3) as [A [B C]] end.
        { lia. }
        { cbn [i_ms]. eapply suf_weaken; [|apply suf_insert_at; [apply Nat.le_refl|exact Hsuf]].
          pose proof (place_items_maxp _ _ _ E3) as [_ Hk3]. cbn [i_k] in Hk3. lia. }
        cbn [i_k i_s] in B, C. split; [exact A|]. split; [lia|congruence].
      * destruct (place_items _ (map IOp ops)) as [st3 [e3|]] eqn:E3; [discriminate|]. injection H as <-. cbn [i_ms i_k i_s].
        match type of E3 with place_items ?a _ = (?b, _) => destruct (place_items_slides_suf ms0 k0 (Nat.max (i_k st3) (S (i_maxp st3))) ops a b Hk0 eq_refl (or_intror eq_refl) E3) as [A [B C]] end.
        { lia. }
        { cbn [i_ms]. eapply suf_weaken; [|exact Hsuf].
          pose proof (place_items_maxp _ _ _ E3) as [_ Hk3]. cbn [i_k] in Hk3. lia. }
        cbn [i_k i_s] in B, C. split; [exact A|]. split; [lia|congruence].
    + (* NEW_THEN_INLINE: the first operation opens a moment at k, the others of the batch join it *)
      destruct ops as [|o0 r0]; [congruence|].
      unfold needs_blank in H. cbn [map i_cache i_s i_ms i_k i_maxp place_items] in H. unfold place_item at 1, determine in H.
      cbn [i_cache i_ms i_k i_s i_maxp] in H. rewrite place_on_blank in H by exact Hk.
      destruct (place_items _ (map IOp r0)) as [st3 [e3|]] eqn:E3; [discriminate|]. injection H as <-. cbn [i_ms i_k i_s].
      match type of E3 with place_items ?a _ = (?b, _) => destruct (place_items_slides_suf ms0 k0 (Nat.max (i_k st3) (S (i_maxp st3))) r0 a b Hk0 eq_refl (or_intror eq_refl) E3) as [A [B C]] end.
      { lia. }
      { cbn [i_ms]. eapply suf_weaken; [|apply suf_insert_at; [apply Nat.le_refl|exact Hsuf]].
        pose proof (place_items_maxp _ _ _ E3) as [_ Hk3]. cbn [i_k] in Hk3. lia. }
      cbn [i_k i_s] in B, C. split; [exact A|]. split; [lia|]. rewrite C. discriminate.
Qed.

Lemma do_batches_suf ms0 k0 bs : forall st st',
  (k0 <= length ms0)%nat -> good st -> Forall batch_ok bs -> (i_s st = NEW -> Forall (fun b => exists it, b = [it]) bs) ->
  do_batches st bs = (st', None) -> suf ms0 k0 (i_k st) (i_ms st) ->
  suf ms0 k0 (i_k st') (i_ms st') /\ (i_k st <= i_k st')%nat.
Proof.
  induction bs as [|b r IH]; intros st st' Hk0 Hg Hb Hnew H Hsuf; cbn [do_batches] in H.
  - injection H as <-. split; [exact Hsuf|lia].
  - destruct (do_batch st b) as [st1 [e1|]] eqn:E1; [discriminate|].
    inversion Hb as [|? ? Hb1 Hbr]; subst.
    destruct (do_batch_suf ms0 k0 st b st1 Hk0 Hg Hb1) as [A [B [Hg1 Hn1]]]; [|exact E1|exact Hsuf|].
    { intros En. specialize (Hnew En). inversion Hnew; subst. assumption. }
    destruct (IH st1 st' Hk0 Hg1 Hbr) as [A2 B2]; [|exact H|exact A|].
    { intros En. specialize (Hnew (Hn1 En)). inversion Hnew; subst. assumption. }
    split; [exact A2|lia].
Qed.

(* ==== the cached EARLIEST append: the returned index is the end of the circuit ==== *)
Lemma place_item_cached_len st it pc :
  i_cache st = Some pc -> cache_matches pc (i_ms st) ->
  exists st' pc', place_item st it = (st', None) /\ i_cache st' = Some pc' /\ cache_matches pc' (i_ms st') /\
    (length (i_ms st') <= Nat.max (length (i_ms st)) (S (i_maxp st')))%nat /\
    (i_maxp st <= i_maxp st')%nat /\ (i_k st <= i_k st')%nat.
Proof.
  intros Hc Hm. unfold place_item, determine. rewrite Hc.
  destruct (cache_append pc it) as [idx pc'] eqn:Ea.
  destruct (cache_place_ok _ _ _ _ _ Hm Ea) as [ms' [Hp Hm']]. rewrite Hp.
  assert (Hl : length ms' = Nat.max (length (i_ms st)) (S idx)).
  { destruct Hm' as [Hl' _]. destruct Hm as [Hl _]. unfold cache_append in Ea. injection Ea as <- <-. cbn [plen] in Hl'. lia. }
  destruct (i_s st); eexists; exists pc'; (split; [reflexivity|]); cbn [i_ms i_cache i_maxp i_k];
    (split; [reflexivity|]); (split; [exact Hm'|]); lia.
Qed.

Lemma place_items_cached_len its : forall st pc st' e,
  i_cache st = Some pc -> cache_matches pc (i_ms st) -> place_items st its = (st', e) ->
  (length (i_ms st) <= Nat.max (i_k st) (S (i_maxp st)))%nat ->
  e = None /\ (length (i_ms st') <= Nat.max (i_k st') (S (i_maxp st')))%nat /\ (i_k st <= i_k st')%nat.
Proof.
  induction its as [|it r IH]; intros st pc st' e Hc Hm H Hl; cbn [place_items] in H.
  - injection H as <- <-. split; [reflexivity|]. split; [exact Hl|lia].
  - destruct (place_item_cached_len st it pc Hc Hm) as [st1 [pc1 [H1 [Hc1 [Hm1 [Hl1 [Hmp Hk1]]]]]]]. rewrite H1 in H.
    destruct (IH st1 pc1 st' e Hc1 Hm1 H) as [A [B C]]; [lia|]. split; [exact A|]. split; [exact B|lia].
Qed.

(* ==== Circuit.insert, every strategy, any index, any tree, cached or not ==== *)
Theorem insert_returns_behind c i its s c' z :
  cache_ok c -> insert c i its s = (c', inl z) ->
  let k := clamp_index i (length (moms c)) in
  Z.of_nat k <= z /\ suf (moms c) k (Z.to_nat z) (moms c').
Proof.
  intros Hok H. cbv zeta.
  destruct (strategy_eqb s LATEST) eqn:El.
  { destruct s; try discriminate. destruct (insert_latest_returns_behind c i its c' z H) as [[A _] B]. split; assumption. }
  unfold insert in H. pose proof (clamp_index_le i (length (moms c))) as Hk.
  set (k := clamp_index i (length (moms c))) in *.
  pose proof (cache0_cases s k c Hok) as Hc0. cbv zeta in Hc0.
  match type of Hc0 with ?t = None \/ _ => set (c0 := t) in * end.
  destruct Hc0 as [Hn|[pc [Hs [Hm ->]]]].
  - rewrite Hn in H.
    assert (Hb : Forall batch_ok (match s with NEW => map (fun it => [it]) its | _ => group_into_moment_compatible its end)).
    { destruct s; try apply group_batches_ok. clear. induction its as [|it r IH]; simpl; constructor; [|exact IH].
      destruct it as [o|m]; [right; exists [o]; split; [discriminate|split; [reflexivity|split; [constructor|exact I]]]|left; exists m; reflexivity]. }
    assert (Hnew : s = NEW -> Forall (fun b : list item => exists it, b = [it])
                     (match s with NEW => map (fun it => [it]) its | _ => group_into_moment_compatible its end)).
    { intros ->. clear. induction its as [|it r IH]; simpl; constructor; [exists it; reflexivity|exact IH]. }
    assert (G : forall bs st e, do_batches (mki (moms c) None k s 0) bs = (st, e) -> Forall batch_ok bs ->
                (s = NEW -> Forall (fun b : list item => exists it, b = [it]) bs) -> e = None ->
                suf (moms c) k (i_k st) (i_ms st) /\ (k <= i_k st)%nat).
    { intros bs st e E Hbs Hns ->. apply (do_batches_suf (moms c) k bs (mki (moms c) None k s 0) st Hk); try assumption.
      - unfold good. cbn [i_ms i_cache i_k i_s i_maxp]. repeat split; try congruence; try lia.
        intros ->. discriminate.
      - apply suf_refl. }
    destruct s; try discriminate;
      (match type of H with context [do_batches ?a ?b] => destruct (do_batches a b) as [st e] eqn:E end;
       destruct e as [e|]; [discriminate|]; injection H as <- <-;
       destruct (G _ _ _ E Hb Hnew eq_refl) as [A B]; cbn [mutated moms]; rewrite Nat2Z.id; split; [lia|exact A]).
  - rewrite Hs in H. cbn [do_batches] in H. unfold do_batch in H.
    assert (Hnb : needs_blank (mki (moms c) (Some pc) k EARLIEST 0) its = false) by reflexivity.
    rewrite Hnb in H. cbn [i_ms i_cache i_k i_s i_maxp] in H.
    destruct (place_items (mki (moms c) (Some pc) k EARLIEST 0) its) as [st3 e3] eqn:E3.
    destruct (place_items_cached_len its (mki (moms c) (Some pc) k EARLIEST 0) pc st3 e3 eq_refl Hm E3) as [-> [Hl3 Hk3]].
    { cbn [i_ms i_k i_maxp]. assert (k = length (moms c)); [|lia].
      unfold c0 in Hs. destruct (strategy_eqb EARLIEST EARLIEST); cbn [negb orb] in Hs; [|discriminate].
      destruct (Nat.eqb_spec k (length (moms c))); [assumption|discriminate]. }
    injection H as <- <-. cbn [mutated moms i_k i_ms]. rewrite Nat2Z.id. cbn [i_k] in Hk3. split; [lia|].
    apply suf_past_end; [exact Hk|]. cbn [i_ms]. lia.
Qed.

(* the same in counts: the first z moments of the result hold everything that stood in the first j >= k moments and
   every inserted operation (each as often as it was given) *)
Theorem insert_inserted_before_returned u c i its s c' z :
  cache_ok c -> insert c i its s = (c', inl z) ->
  exists j, (clamp_index i (length (moms c)) <= j)%nat /\
    ccnt u (firstn (Z.to_nat z) (moms c')) = (ccnt u (firstn j (moms c)) + icnt u its)%nat /\
    ccnt u (skipn (Z.to_nat z) (moms c')) = ccnt u (skipn j (moms c)).
Proof.
  intros Hok H. destruct (insert_returns_behind c i its s c' z Hok H) as [_ [j [Hj Hs]]].
  exists j. split; [exact Hj|]. pose proof (insert_cnt u _ _ _ _ _ _ H) as Hc. unfold cnt_step, ok_of in Hc.
  pose proof (ccnt_firstn_skipn u (Z.to_nat z) (moms c')) as H1.
  pose proof (ccnt_firstn_skipn u j (moms c)) as H2. destruct Hc as [_ [_ Hc]]. specialize (Hc eq_refl).
  rewrite Hs in H1. split; [lia|rewrite Hs; reflexivity].
Qed.

(* after any history *)
Theorem history_insert_returns_behind h i its s c' z :
  insert (run empty_circuit h) i its s = (c', inl z) ->
  let c := run empty_circuit h in
  let k := clamp_index i (length (moms c)) in
  Z.of_nat k <= z /\ exists j, (k <= j)%nat /\ skipn (Z.to_nat z) (moms c') = skipn j (moms c).
Proof. intros H. exact (insert_returns_behind _ i its s c' z (history_cache_ok h) H). Qed.
