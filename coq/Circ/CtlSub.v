(* C12 — classically controlled sub-circuits: ClassicallyControlledOperation(sub_operation, conditions) whose
   sub-operation is a CircuitOperation (which may itself hold classically controlled gates).  Model only (no proofs),
   in the shape of cirq/ops/classically_controlled_operation.py:
     _with_rescoped_keys_ / _with_measurement_key_mapping_ / _with_key_path_prefix_
                              transform the conditions AND the operation they control, then re-attach the conditions
     _decompose_              decompose the controlled operation, put the conditions on every operation obtained
                              (ClassicallyControlledOperation.__init__ squashes layers: outer conditions first)
     _control_keys_           keys of the conditions + control keys of the controlled operation
   The constructor refuses a sub-operation that measures, so the flat form of a controlled sub-circuit is the unrolled
   sub-circuit with the conditions added to every operation (ctl_flat). *)
From Coq Require Import ZArith List Bool String.
From VF Require Import Circ.Keys Circ.SubCircuit.
Import ListNotations.
Open Scope Z_scope.

(* a controlled operation: (conditions, the operation they control) *)
Definition ctlop := (list cond * op)%type.

(* the conditions of an enclosing classical control on an operation of the flat form *)
Definition leaf_add_ctl (cs : list cond) (l : leaf) : leaf :=
  Leaf (uid l) (sgn l) (lqs l) (lmk l) (cs ++ lcs l) (lps l).
Definition op_add_ctl (cs : list cond) (o : op) : op :=
  match o with OLeaf l => OLeaf (leaf_add_ctl cs l) | OSub _ _ => o end.
Definition circ_add_ctl (cs : list cond) (c : circ) : circ := map (map (op_add_ctl cs)) c.

(* circuits of leaves none of which measures (the unrolled form of an operation that can be classically controlled) *)
Definition leaf_nomeas (o : op) : bool := match o with OLeaf l => isnil (lmk l) | OSub _ _ => false end.
Definition flat_nomeas (c : circ) : bool := forallb (forallb leaf_nomeas) c.

(* conditions written at user level: every key they read has an empty path *)
Definition cond_user_level (c : cond) : bool :=
  forallb (fun k => isnil (kpath k)) (match c with CKey k _ => [k] | CMask k _ _ _ _ => [k] | CSym _ s => s end).
Definition op_user_level (o : op) : bool :=
  match o with OLeaf l => forallb cond_user_level (lcs l) | OSub _ _ => false end.
Definition circ_user_level (c : circ) : bool := forallb (forallb op_user_level) c.

Section WithFlags.
Variables keepK keepM : bool.

(* with_key_path_prefix: a leaf's keys and conditions are prefixed; CircuitOperation._with_key_path_prefix_ only
   extends parent_path (control keys not bound inside keep referring to the enclosing scope) *)
Definition t_prefix (p : list string) (o : op) : op :=
  match o with
  | OLeaf l => OLeaf (Leaf (uid l) (sgn l) (lqs l) (map (key_prefix p) (lmk l))
                           (map (cond_prefix keepK keepM p) (lcs l)) (lps l))
  | OSub c f => OSub c (set_scope f (p ++ ppath f) (ext f))
  end.

(* ClassicallyControlledOperation._with_rescoped_keys_ / _with_measurement_key_mapping_ / _with_key_path_prefix_ *)
Definition ctl_rescope (path : list string) (b : list mkey) (x : ctlop) : ctlop :=
  (map (cond_rescope keepK keepM path b) (fst x), t_rescope keepK keepM path b (snd x)).
Definition ctl_kmap (m : kmap) (x : ctlop) : ctlop :=
  (map (cond_key_map keepK keepM m) (fst x), t_kmap keepK keepM m (snd x)).
Definition ctl_prefix (p : list string) (x : ctlop) : ctlop :=
  (map (cond_prefix keepK keepM p) (fst x), t_prefix p (snd x)).

(* NOT the specification: rescoping that stops at the conditions of the control and leaves the controlled operation
   as it is ("it measures nothing, so there is nothing to rescope").  Kept to state what goes wrong then. *)
Definition ctl_rescope_conds_only (path : list string) (b : list mkey) (x : ctlop) : ctlop :=
  (map (cond_rescope keepK keepM path b) (fst x), snd x).

(* the flat form (cirq.decompose down to gates): the controlled operation unrolled, the conditions on every operation *)
Definition ctl_flat (fuel : nat) (x : ctlop) : res circ :=
  match snd x with
  | OLeaf l => if isnil (lmk l) then Ok [[OLeaf (leaf_add_ctl (fst x) l)]] else ErrValue
  | OSub c f => if circ_is_meas c then ErrValue else
                do ms <- mapped_circuit keepK keepM fuel true c f; Ok (circ_add_ctl (fst x) ms)
  end.

(* _control_keys_ *)
Definition ctl_ckeys (fuel : nat) (x : ctlop) : res (list mkey) :=
  do ks <- op_ckeys keepK keepM fuel (snd x); Ok (conds_keys (fst x) ++ ks).
End WithFlags.

(* the leaves of two flat forms as multisets of operations (decompose visits nested operations depth first,
   mapped_circuit(deep=True) zips them: the order of operations on different qubits is not compared) *)
Definition leaves_same (a b : list leaf) : bool :=
  Nat.eqb (List.length a) (List.length b) && set_eqb leaf_eqb a b.
