(* C12 — proofs about the key algebra of Circ/Keys.v *)
From Coq Require Import ZArith List Bool String Lia.
From VF Require Import Circ.Keys.
Import ListNotations.
Open Scope Z_scope.

(* ---- equality ---- *)
Lemma path_eqb_eq : forall a b, path_eqb a b = true <-> a = b.
Proof.
  induction a as [|x a IH]; intros [|y b]; simpl; split; intro H; try reflexivity; try discriminate.
  - apply andb_true_iff in H. destruct H as [H1 H2]. apply String.eqb_eq in H1. apply IH in H2. subst. reflexivity.
  - inversion H; subst. apply andb_true_iff. split; [apply String.eqb_refl | apply IH; reflexivity].
Qed.

Lemma key_eqb_eq : forall a b, key_eqb a b = true <-> a = b.
Proof.
  intros [pa na] [pb nb]. unfold key_eqb. simpl. rewrite andb_true_iff, path_eqb_eq, String.eqb_eq.
  split; [intros [H1 H2]; subst; reflexivity | intro H; inversion H; auto].
Qed.

Lemma key_eqb_refl : forall a, key_eqb a a = true.
Proof. intro a. apply key_eqb_eq. reflexivity. Qed.

Lemma key_eqb_neq : forall a b, key_eqb a b = false <-> a <> b.
Proof.
  intros a b. split; intro H.
  - intro E. apply key_eqb_eq in E. congruence.
  - destruct (key_eqb a b) eqn:E; [apply key_eqb_eq in E; contradiction | reflexivity].
Qed.

Lemma key_in_In : forall k l, key_in k l = true <-> In k l.
Proof.
  intros k l. unfold key_in. rewrite existsb_exists. split.
  - intros [x [Hx He]]. apply key_eqb_eq in He. subst. exact Hx.
  - intro H. exists k. split; [exact H | apply key_eqb_refl].
Qed.

(* ---- D1: prefixing composes by concatenation ---- *)
Theorem key_prefix_assoc : forall p q k, key_prefix p (key_prefix q k) = key_prefix (p ++ q) k.
Proof. intros p q [kp kn]. unfold key_prefix. simpl. rewrite app_assoc. reflexivity. Qed.

Lemma key_prefix_nil : forall k, key_prefix [] k = k.
Proof. intros [kp kn]. reflexivity. Qed.

Lemma key_prefix_name : forall p k, kname (key_prefix p k) = kname k.
Proof. reflexivity. Qed.

Lemma key_prefix_inj : forall p a b, key_prefix p a = key_prefix p b -> a = b.
Proof.
  intros p [pa na] [pb nb]. unfold key_prefix. simpl. intro H. inversion H as [[H1 H2]].
  apply app_inv_head in H1. subst. reflexivity.
Qed.

(* the key map acts on the name, the prefix on the path: they commute *)
Theorem key_map_prefix_commute : forall m p k, key_map m (key_prefix p k) = key_prefix p (key_map m k).
Proof. intros m p [kp kn]. reflexivity. Qed.

(* ---- D1: mapping composes, with the dict-level rule of CircuitOperation.with_measurement_key_mapping ---- *)
Lemma lookup_compose : forall dom m1 m2 s, In s dom ->
  name_map (kmap_compose dom m1 m2) s = name_map m2 (name_map m1 s).
Proof.
  induction dom as [|d dom IH]; intros m1 m2 s Hin; [destruct Hin|].
  simpl. destruct (String.eqb (name_map m2 (name_map m1 d)) d) eqn:E.
  - destruct (String.eqb d s) eqn:Eds.
    + apply String.eqb_eq in Eds. subst d. apply String.eqb_eq in E.
      (* s maps to itself under the composition; if s occurs again later the entry is dropped again *)
      clear IH Hin. induction dom as [|d' dom IH'].
      * simpl. unfold name_map at 1. simpl. symmetry. exact E.
      * simpl. destruct (String.eqb (name_map m2 (name_map m1 d')) d') eqn:E'; [exact IH'|].
        unfold name_map at 1. simpl. destruct (String.eqb d' s) eqn:Ed's.
        -- apply String.eqb_eq in Ed's. subst d'. rewrite E in E'. rewrite String.eqb_refl in E'. discriminate.
        -- exact IH'.
    + destruct Hin as [Hd|Hin]; [subst; rewrite String.eqb_refl in Eds; discriminate|]. apply IH; exact Hin.
  - unfold name_map at 1. simpl. destruct (String.eqb d s) eqn:Eds.
    + apply String.eqb_eq in Eds. subst d. reflexivity.
    + destruct Hin as [Hd|Hin]; [subst; rewrite String.eqb_refl in Eds; discriminate|].
      apply IH; exact Hin.
Qed.

Theorem key_map_compose : forall dom m1 m2 k, In (kname k) dom ->
  key_map (kmap_compose dom m1 m2) k = key_map m2 (key_map m1 k).
Proof.
  intros dom m1 m2 [kp kn] Hin. unfold key_map. simpl in *. rewrite lookup_compose by exact Hin. reflexivity.
Qed.

(* ---- D1: rescoping resolves to the innermost enclosing bound measurement ---- *)
Lemma rescope_try_spec : forall i path b k,
  match rescope_try i path b k with
  | Some nk => exists j, (j <= i)%nat /\ nk = key_prefix (firstn j path) k /\ In nk b /\
                         forall j', (j < j' <= i)%nat -> ~ In (key_prefix (firstn j' path) k) b
  | None => forall j, (j <= i)%nat -> ~ In (key_prefix (firstn j path) k) b
  end.
Proof.
  induction i as [|i IH]; intros path b k; cbn [rescope_try].
  - change (firstn 0 path) with (@nil string). destruct (key_in (key_prefix [] k) b) eqn:E.
    + exists O. split; [lia|]. split; [reflexivity|]. split; [apply key_in_In; exact E|]. intros j' Hj. lia.
    + intros j Hj. assert (j = O) by lia. subst. simpl. intro H. apply key_in_In in H. congruence.
  - destruct (key_in (key_prefix (firstn (S i) path) k) b) eqn:E.
    + exists (S i). split; [lia|]. split; [reflexivity|]. split; [apply key_in_In; exact E|]. intros j' Hj. lia.
    + generalize (IH path b k). clear IH. destruct (rescope_try i path b k) as [nk|]; intro IH.
      * destruct IH as [j [Hj [Hnk [Hin Hno]]]]. exists j. split; [lia|]. split; [exact Hnk|]. split; [exact Hin|].
        intros j' Hj'. destruct (Nat.eq_dec j' (S i)) as [->|Hne].
        -- intro H. apply key_in_In in H. congruence.
        -- apply Hno. lia.
      * intros j Hj. destruct (Nat.eq_dec j (S i)) as [->|Hne].
        -- intro H. apply key_in_In in H. congruence.
        -- apply IH. lia.
Qed.

(* A control key k looked up from inside scope `path` binds to prefix p' of path iff p':k is bound and no longer
   (more inner) prefix of path binds k. *)
Theorem rescope_innermost : forall path b k nk,
  rescope_key path b k = Some nk ->
  exists j, (j <= List.length path)%nat /\ nk = key_prefix (firstn j path) k /\ In nk b /\
            forall j', (j < j' <= List.length path)%nat -> ~ In (key_prefix (firstn j' path) k) b.
Proof.
  intros path b k nk H. unfold rescope_key in H.
  pose proof (rescope_try_spec (List.length path) path b k) as S. rewrite H in S. exact S.
Qed.

Theorem rescope_unbound : forall path b k,
  rescope_key path b k = None -> forall j, (j <= List.length path)%nat -> ~ In (key_prefix (firstn j path) k) b.
Proof.
  intros path b k H. unfold rescope_key in H.
  pose proof (rescope_try_spec (List.length path) path b k) as S. rewrite H in S. exact S.
Qed.

(* completeness: if some enclosing scope binds k, the lookup finds a binding *)
Theorem rescope_finds : forall path b k j, (j <= List.length path)%nat -> In (key_prefix (firstn j path) k) b ->
  exists nk, rescope_key path b k = Some nk.
Proof.
  intros path b k j Hj Hin. destruct (rescope_key path b k) as [nk|] eqn:E; [exists nk; reflexivity|].
  exfalso. exact (rescope_unbound path b k E j Hj Hin).
Qed.

(* the lookup depends on the bindable keys only as a set *)
Lemma key_in_ext : forall k b b', (forall x, In x b <-> In x b') -> key_in k b = key_in k b'.
Proof.
  intros k b b' H. destruct (key_in k b) eqn:E; symmetry.
  - apply key_in_In. apply H. apply key_in_In. exact E.
  - destruct (key_in k b') eqn:E'; [|reflexivity]. apply key_in_In in E'. apply H in E'. apply key_in_In in E'. congruence.
Qed.

Lemma rescope_try_ext : forall i path b b' k, (forall x, In x b <-> In x b') ->
  rescope_try i path b k = rescope_try i path b' k.
Proof.
  induction i as [|i IH]; intros path b b' k H; cbn [rescope_try]; rewrite (key_in_ext _ b b' H); [reflexivity|].
  rewrite (IH path b b' k H). reflexivity.
Qed.

Theorem rescope_key_ext : forall path b b' k, (forall x, In x b <-> In x b') ->
  rescope_key path b k = rescope_key path b' k.
Proof. intros. unfold rescope_key. apply rescope_try_ext. assumption. Qed.

(* ---- D3: what a remapping does to a condition ---- *)
Definition cond_eid (c : cond) : option Z := match c with CSym e _ => Some e | _ => None end.
Definition cond_slots (c : cond) : list mkey :=
  match c with CKey k _ => [k] | CMask k _ _ _ _ => [k] | CSym _ s => s end.

Theorem cond_apply_keys : forall kK kM f c, cond_slots (cond_apply kK kM f c) = map f (cond_slots c).
Proof.
  intros kK kM f [k i|k i t e m|e s]; simpl; try reflexivity; rewrite key_eqb_refl.
  - destruct kK; reflexivity.
  - destruct kM; reflexivity.
Qed.

(* after the fix (both replace_key implementations keep the other fields) a remapping changes only the key *)
Theorem condition_remap_faithful : forall f c,
  cond_payload (cond_apply true true f c) = cond_payload c /\
  cond_eid (cond_apply true true f c) = cond_eid c /\
  cond_slots (cond_apply true true f c) = map f (cond_slots c).
Proof.
  intros f [k i|k i t e m|e s]; simpl; try rewrite key_eqb_refl; repeat split.
Qed.

Theorem condition_rescope_faithful : forall path b c,
  cond_payload (cond_rescope true true path b c) = cond_payload c /\
  cond_eid (cond_rescope true true path b c) = cond_eid c.
Proof.
  intros path b [k i|k i t e m|e s]; simpl; try (destruct (rescope_key path b k); simpl; try rewrite key_eqb_refl);
    repeat split.
Qed.

(* today's code: the witness  (a & 2) == 2  becomes  a != 0  under the identity key map *)
Definition remap_witness : cond := CMask (MK [] "a") (-1) 2 true (Some 2).
Definition remap_witness_idx : cond := CKey (MK [] "a") 0.

Theorem condition_remap_refuted_mask : forall kK,
  cond_payload (cond_apply kK false (fun k => k) remap_witness) <> cond_payload remap_witness /\
  cond_test (cond_apply kK false (fun k => k) remap_witness) 1 <> cond_test remap_witness 1.
Proof. intro kK. split; vm_compute; discriminate. Qed.

Theorem condition_remap_refuted_index : forall kM,
  cond_payload (cond_apply false kM (fun k => k) remap_witness_idx) <> cond_payload remap_witness_idx.
Proof. intro kM. vm_compute. discriminate. Qed.

(* both directions in one statement, parameterised by what the working tree does *)
Theorem condition_remap_iff : forall kK kM,
  (forall f c, cond_payload (cond_apply kK kM f c) = cond_payload c) <-> (kK = true /\ kM = true).
Proof.
  intros kK kM. split.
  - intro H. destruct kK, kM; try (split; reflexivity); exfalso.
    + exact (proj1 (condition_remap_refuted_mask true) (H _ _)).
    + exact (condition_remap_refuted_index true (H _ _)).
    + exact (condition_remap_refuted_index false (H _ _)).
  - intros [-> ->] f c. apply condition_remap_faithful.
Qed.
