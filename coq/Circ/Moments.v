(* C05 model, part 1: operations, moments, list surgery.  Definitions only (proofs in MomentsProofs.v).

   An operation is what circuit.py can observe of it: an identity (uid, the value `==` compares),
   its qubits, measurement keys, control keys, parameter names and whether `op ** -1` exists.
   A moment is the tuple `Moment._operations` (insertion order kept).  `Moment.__init__`,
   `with_operation` and `with_operations` raise ValueError on overlapping qubits: modelled by
   option-valued constructors, so every moment the model ever builds went through the same check
   as in moment.py. *)
From Coq Require Import ZArith List Bool Arith.
Import ListNotations.
Open Scope Z_scope.

Record opd := mkop { uid : Z; qs : list Z; mk : list Z; ck : list Z; pn : list Z; invertible : bool }.
Definition moment := list opd.
Inductive item := IOp (o : opd) | IMom (m : moment).

Inductive err := ValueError | IndexError | TypeError | OtherError | OutOfFuel.

(* ---- finite sets as lists ---- *)
Definition memz (x : Z) (l : list Z) : bool := existsb (Z.eqb x) l.
Definition disjointb (a b : list Z) : bool := forallb (fun x => negb (memz x b)) a.
Definition nonempty {A} (l : list A) : bool := match l with [] => false | _ => true end.
Fixpoint dedup (l : list Z) : list Z :=
  match l with
  | [] => []
  | x :: r => if memz x r then dedup r else x :: dedup r
  end.
Definition subsetb (a b : list Z) : bool := forallb (fun x => memz x b) a.
Definition set_eqb (a b : list Z) : bool := subsetb a b && subsetb b a.

(* ---- moments ---- *)
Definition mqubits (m : moment) : list Z := flat_map qs m.      (* keys of Moment._qubit_to_op *)
Definition mmkeys (m : moment) : list Z := flat_map mk m.       (* Moment._measurement_key_objs_ *)
Definition mckeys (m : moment) : list Z := flat_map ck m.       (* Moment._control_keys_ *)

(* Moment.operates_on(qubits) *)
Definition operates_on (m : moment) (q : list Z) : bool := negb (disjointb q (mqubits m)).

(* Moment.with_operation(op): ValueError (None) if a qubit of op is already used *)
Definition with_operation (m : moment) (o : opd) : option moment :=
  if operates_on m (qs o) then None else Some (m ++ [o]).

(* Moment.with_operations(ops...): checks one op after the other against the growing qubit map *)
Fixpoint with_operations (m : moment) (ops : list opd) : option moment :=
  match ops with
  | [] => Some m
  | o :: r => match with_operation m o with
              | None => None
              | Some m' => with_operations m' r
              end
  end.

(* Moment(ops): the constructor check *)
Definition mk_moment (ops : list opd) : option moment := with_operations [] ops.

(* Moment.without_operations_touching(qubits) *)
Definition without_touching (m : moment) (q : list Z) : moment :=
  filter (fun o => disjointb q (qs o)) m.

Definition op_eqb (a b : opd) : bool := Z.eqb (uid a) (uid b).     (* Operation.__eq__ *)

(* flatten_to_ops: moments inside an op tree are iterated *)
Definition item_ops (it : item) : list opd := match it with IOp o => [o] | IMom m => m end.
Definition items_ops (its : list item) : list opd := flat_map item_ops its.
Definition is_mom (it : item) : bool := match it with IMom _ => true | IOp _ => false end.

(* ---- list surgery on the moment list (python list semantics) ---- *)
Fixpoint insert_at {A} (n : nat) (x : A) (l : list A) : list A :=      (* list.insert(n, x), n <= len *)
  match n, l with
  | O, _ => x :: l
  | S n', [] => [x]
  | S n', y :: r => y :: insert_at n' x r
  end.
Fixpoint replace_nth {A} (n : nat) (x : A) (l : list A) : list A :=    (* l[n] = x, n < len *)
  match n, l with
  | _, [] => []
  | O, _ :: r => x :: r
  | S n', y :: r => y :: replace_nth n' x r
  end.
Fixpoint remove_nth {A} (n : nat) (l : list A) : list A :=
  match n, l with
  | _, [] => []
  | O, _ :: r => r
  | S n', y :: r => y :: remove_nth n' r
  end.
Definition splice {A} (a b : nat) (xs l : list A) : list A :=           (* l[a:b] = xs, a <= b <= len *)
  firstn a l ++ xs ++ skipn b l.

(* ---- well-formedness (the first clause of the property) ---- *)
Definition moment_wf (m : moment) : Prop := NoDup (mqubits m).
Definition wf (c : list moment) : Prop := Forall moment_wf c.
Definition op_wf (o : opd) : Prop := NoDup (qs o).
Definition item_wf (it : item) : Prop := match it with IOp o => op_wf o | IMom m => moment_wf m end.

(* boolean versions, used by examples and by the correspondence (the harness only ever passes
   operands that Cirq itself accepted, i.e. constructed Operation / Moment objects) *)
Fixpoint nodupb (l : list Z) : bool :=
  match l with [] => true | x :: r => negb (memz x r) && nodupb r end.
Definition moment_wfb (m : moment) : bool := nodupb (mqubits m).
Definition wfb (c : list moment) : bool := forallb moment_wfb c.

Definition all_ops (c : list moment) : list opd := concat c.
Definition uids (c : list moment) : list Z := map uid (all_ops c).
