(* C05 proofs: insert_into_range keeps the operations it writes into the range in the order given.
   The loop of Circuit.insert_into_range moves ONE cursor forward through the range: an operation is
   written into the first moment at or behind the cursor that has room for it, and the cursor stays there.
   Hence the operations written into the range appear in Circuit.all_operations() (the linearisation
   `lin`) in the order in which they were given - whatever the occupancy of the range, also when two of
   them share a qubit, also when an earlier moment of the range is blocked for an earlier operation and
   free for a later one.  The operations that do not fit are handed to insert(end, rest) which keeps the
   existing operations (the written ones included) in order. *)
From Coq Require Import ZArith List Bool Arith Lia.
From VF Require Import Circ.Moments Circ.Placement Circ.Insert Circ.MomentsProofs Circ.PlacementProofs
  Circ.InsertProofs Circ.CacheProofs Circ.OrderProofs Circ.TotalProofs Circ.BatchEdit Circ.BatchProofs Circ.History.
Import ListNotations.
Open Scope Z_scope.

Lemma firstn_replace_nth_le {A} (x : A) : forall p n (l : list A), (n <= p)%nat -> firstn n (replace_nth p x l) = firstn n l.
Proof.
  induction p as [|p IH]; intros n l H.
  - replace n with O by lia. reflexivity.
  - destruct l as [|y r]; [destruct n; reflexivity|]. destruct n as [|n]; [reflexivity|].
    cbn [replace_nth firstn]. f_equal. apply IH. lia.
Qed.

Lemma firstn_eq_le {A} (l l' : list A) k i : (i <= k)%nat -> firstn k l = firstn k l' -> firstn i l = firstn i l'.
Proof.
  intros Hi H. replace i with (Nat.min i k) by lia. rewrite <- !firstn_firstn. rewrite H. reflexivity.
Qed.

Lemma seg_eq_of_firstn {A} (l l' : list A) k i :
  firstn k l = firstn k l' -> firstn (k - i) (skipn i l) = firstn (k - i) (skipn i l').
Proof. intros H. rewrite <- !skipn_firstn_comm. rewrite H. reflexivity. Qed.

Lemma lin_app (a b : list moment) : lin (a ++ b) = lin a ++ lin b.
Proof. unfold lin. apply concat_app. Qed.

Lemma lin_skipn_nth (ms : list moment) i m : nth_error ms i = Some m -> lin (skipn i ms) = m ++ lin (skipn (S i) ms).
Proof. intros H. rewrite (skipn_nth_cons _ _ _ H). reflexivity. Qed.

(* the invariant of the loop: the moments in front of the cursor are untouched; the moment under the
   cursor keeps what it held as a prefix; what was written follows it in the order given *)
Lemma range_loop_order ops : forall ms i e ms' rest,
  (e <= length ms)%nat ->
  range_loop ms i e ops = (ms', rest, None) ->
  exists placed, ops = placed ++ rest /\ firstn i ms' = firstn i ms /\ length ms' = length ms /\
    ((e <= i)%nat -> placed = []) /\
    (forall m, (i < e)%nat -> nth_error ms i = Some m -> exists X, lin (skipn i ms') = m ++ X /\ sub placed X).
Proof.
  induction ops as [|o r IH]; intros ms i e ms' rest He H; cbn [range_loop] in H.
  - injection H as <- <-. exists []. repeat split; try reflexivity.
    intros m _ Hm. exists (lin (skipn (S i) ms)). split; [apply lin_skipn_nth; exact Hm|apply sub_nil_l].
  - destruct (Nat.leb e (advance ms o i (e - i))) eqn:El.
    + injection H as <- <-. exists []. repeat split; try reflexivity.
      intros m _ Hm. exists (lin (skipn (S i) ms)). split; [apply lin_skipn_nth; exact Hm|apply sub_nil_l].
    + apply Nat.leb_gt in El.
      assert (Hi : (i < e)%nat).
      { destruct (Nat.le_gt_cases e i) as [Hle|Hgt]; [|exact Hgt]. replace (e - i)%nat with 0%nat in El by lia. simpl in El. lia. }
      destruct (advance_spec ms o (e - i) i ltac:(lia)) as [H1 H2].
      set (i' := advance ms o i (e - i)) in *.
      destruct (H2 ltac:(lia)) as [mi [Hn Ho]]. rewrite Hn in H.
      unfold with_operation in H. rewrite Ho in H.
      assert (Hlen : length (replace_nth i' (mi ++ [o]) ms) = length ms) by apply replace_nth_length.
      assert (He' : (e <= length (replace_nth i' (mi ++ [o]) ms))%nat) by lia.
      destruct (IH _ _ _ _ _ He' H) as [placed [Hp [Hf [Hl [_ HX]]]]].
      assert (Hf' : firstn i' ms' = firstn i' ms) by (rewrite Hf; apply firstn_replace_nth_le; lia).
      exists (o :: placed). split; [rewrite Hp; reflexivity|]. split; [eapply firstn_eq_le; [|exact Hf']; lia|].
      split; [rewrite Hl; apply replace_nth_length|]. split; [intros; lia|].
      intros m _ Hm.
      assert (Hn' : nth_error (replace_nth i' (mi ++ [o]) ms) i' = Some (mi ++ [o])) by (apply nth_error_replace_nth_eq; eapply Nat.lt_le_trans; [exact El|exact He]).
      assert (Hie : (i' < e)%nat) by lia.
      destruct (HX (mi ++ [o]) Hie Hn') as [X [HX1 HX2]].
      destruct (Nat.eq_dec i' i) as [Heq|Hne].
      * rewrite Heq in *. assert (mi = m) by congruence. subst mi.
        exists (o :: X). split; [rewrite HX1, <- app_assoc; reflexivity|apply sub_keep; exact HX2].
      * rewrite (skipn_split ms' i i') by lia. rewrite lin_app, HX1.
        rewrite (seg_eq_of_firstn ms' ms i' i Hf').
        rewrite (skipn_nth_cons _ _ _ Hm). destruct (i' - i)%nat as [|d] eqn:Ed; [lia|].
        cbn [firstn]. change (lin (m :: firstn d (skipn (S i) ms))) with (m ++ lin (firstn d (skipn (S i) ms))).
        exists (lin (firstn d (skipn (S i) ms)) ++ mi ++ o :: X). split.
        -- rewrite <- !app_assoc. reflexivity.
        -- change (o :: placed) with ([] ++ [] ++ o :: placed).
           apply sub_app; [apply sub_nil_l|]. apply sub_app; [apply sub_nil_l|]. apply sub_keep. exact HX2.
Qed.

(* what the loop wrote into the range is, in the order given, a subsequence of all_operations() from the
   start of the range on; the moments in front of the range are untouched *)
Theorem range_loop_given_order ops ms i e ms' rest :
  (e <= length ms)%nat -> range_loop ms i e ops = (ms', rest, None) ->
  exists placed, ops = placed ++ rest /\ firstn i ms' = firstn i ms /\ sub placed (lin (skipn i ms')).
Proof.
  intros He H. destruct (range_loop_order _ _ _ _ _ _ He H) as [placed [Hp [Hf [Hl [H0 HX]]]]].
  exists placed. split; [exact Hp|]. split; [exact Hf|].
  destruct (Nat.le_gt_cases e i) as [Hle|Hgt]; [rewrite (H0 Hle); apply sub_nil_l|].
  destruct (nth_error ms i) as [m|] eqn:En; [|apply nth_error_None in En; lia].
  destruct (HX m Hgt eq_refl) as [X [HX1 HX2]]. rewrite HX1.
  change placed with ([] ++ placed). apply sub_app; [apply sub_nil_l|exact HX2].
Qed.

Lemma sub_lin_skipn (l : list opd) (ms : list moment) i : sub l (lin (skipn i ms)) -> sub l (lin ms).
Proof.
  intros H. rewrite <- (firstn_skipn i ms). rewrite lin_app. change l with ([] ++ l). apply sub_app; [apply sub_nil_l|exact H].
Qed.

(* Circuit.insert_into_range: the operations split into those written into the range and those that did
   not fit (handed to insert(end, ...)); the written ones are, in the order given, a subsequence of
   all_operations() of the resulting circuit; if everything fits the call returns `end` *)
Theorem insert_into_range_given_order c its s e c' z :
  insert_into_range c its s e = (c', inl z) ->
  exists placed rest ms1,
    range_loop (moms c) (Z.to_nat s) (Z.to_nat e) (items_ops its) = (ms1, rest, None) /\
    items_ops its = placed ++ rest /\ sub placed (lin (moms c')) /\
    (rest = [] -> moms c' = ms1 /\ z = e).
Proof.
  unfold insert_into_range. intros H. destruct (_ && _) eqn:Eg; [|discriminate].
  apply andb_true_iff in Eg as [Eg1 Eg3]. apply andb_true_iff in Eg1 as [Eg1 Eg2].
  apply Z.leb_le in Eg1, Eg2, Eg3.
  destruct (range_loop _ _ _ _) as [[ms rest] [er|]] eqn:E; [discriminate|].
  assert (Hle : (Z.to_nat e <= length (moms c))%nat) by lia.
  destruct (range_loop_given_order _ _ _ _ _ _ Hle E) as [placed [Hp [Hf Hs]]].
  apply sub_lin_skipn in Hs.
  exists placed, rest, ms. split; [reflexivity|]. split; [exact Hp|].
  destruct rest as [|o rest].
  - injection H as <- <-. cbn [moms mutated]. split; [exact Hs|]. intros _. split; reflexivity.
  - split; [|discriminate]. apply insert_keeps_existing_order in H. cbn [moms mutated] in H.
    eapply sub_trans; [exact Hs|exact H].
Qed.

(* read pairwise, as the property states it: of two operations the call wrote into the range, the one
   given first comes first in all_operations() *)
Theorem insert_into_range_pairs_in_given_order c its s e c' z :
  insert_into_range c its s e = (c', inl z) ->
  exists placed rest, items_ops its = placed ++ rest /\
    (rest = [] -> z = e) /\
    forall x y, sub [x; y] placed -> sub [x; y] (lin (moms c')).
Proof.
  intros H. destruct (insert_into_range_given_order _ _ _ _ _ _ H) as [placed [rest [ms1 [_ [Hp [Hs Hr]]]]]].
  exists placed, rest. split; [exact Hp|]. split; [intros Hn; apply Hr; exact Hn|].
  intros x y Hxy. eapply sub_trans; [exact Hxy|exact Hs].
Qed.

(* the shape on which a loop that rescans the range from its start for every operation goes wrong:
   [Z(a)] [] [] ; insert_into_range([CZ(a,b), X(b)], 0, 3): CZ has to skip the first moment, X(b) must not
   be written in front of it *)
Example insert_into_range_order_example :
  let c := from_moments [[mkop 1 [0] [] [] [] true]; []; []] in
  let its := [IOp (mkop 2 [0; 1] [] [] [] true); IOp (mkop 3 [1] [] [] [] true)] in
  exists c', insert_into_range c its 0 3 = (c', inl 3) /\ uid_moms (moms c') = [[1]; [2]; [3]].
Proof. cbv zeta. eexists. split; vm_compute; reflexivity. Qed.
