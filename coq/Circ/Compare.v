(* C05 correspondence helpers: compare the trace of the model with what the implementation did.
   Only the positions of disagreeing steps are printed by the harness. *)
From Coq Require Import ZArith List Bool Arith.
From VF Require Import Base.Harness Circ.Moments Circ.Placement Circ.Insert Circ.BatchEdit Circ.History.
Import ListNotations.
Open Scope Z_scope.

Definition err_eqb (a b : err) : bool :=
  match a, b with
  | ValueError, ValueError | IndexError, IndexError | TypeError, TypeError
  | OtherError, OtherError | OutOfFuel, OutOfFuel => true
  | _, _ => false
  end.

Definition res_eqb (a b : res) : bool :=
  match a, b with
  | RNone, RNone => true
  | RInt x, RInt y => Z.eqb x y
  | RErr x, RErr y => err_eqb x y
  | RSet x, RSet y => set_eqb x y
  | RMoms x, RMoms y => zll_eqb x y
  | RBool x, RBool y => Bool.eqb x y
  | ROpt x, ROpt y => opt_eqb Z.eqb x y
  | RFront x, RFront y => forallb (fun q => Z.eqb (fget x q) (fget y q)) (map fst x ++ map fst y)
  | _, _ => false
  end.

Definition step_eqb (a b : res * list (list Z)) : bool := res_eqb (fst a) (fst b) && zll_eqb (snd a) (snd b).

(* index of the first step on which model and implementation differ *)
Fixpoint first_diff (n : nat) (a b : list (res * list (list Z))) : option nat :=
  match a, b with
  | [], [] => None
  | x :: a', y :: b' => if step_eqb x y then first_diff (S n) a' b' else Some n
  | _, _ => Some n
  end.

Definition check_history (hc : list call * list (res * list (list Z))) : option nat :=
  first_diff 0 (trace empty_circuit (fst hc)) (snd hc).

(* (history index, step index) of every disagreement *)
Fixpoint bad_from (n : nat) (l : list (list call * list (res * list (list Z)))) : list (nat * nat) :=
  match l with
  | [] => []
  | hc :: r => match check_history hc with
               | None => bad_from (S n) r
               | Some s => (n, s) :: bad_from (S n) r
               end
  end.
Definition bad_histories l := bad_from 0 l.

Definition O := mkop.
