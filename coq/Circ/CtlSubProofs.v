(* C12 — proofs about Circ/CtlSub.v (classically controlled sub-circuits) *)
From Coq Require Import ZArith List Bool String Lia.
From VF Require Import Circ.Keys Circ.KeysProofs Circ.SubCircuit Circ.SubCircuitProofs Circ.CtlSub.
Import ListNotations.
Open Scope Z_scope.

(* ---- measurement-free flat circuits: rescoping is operation by operation (nothing becomes bindable on the way) ---- *)
Lemma moment_mkeys_nomeas m : forallb leaf_nomeas m = true -> moment_mkeys m = [].
Proof.
  unfold moment_mkeys. induction m as [|o m IH]; simpl; [reflexivity|]. intro H. apply andb_true_iff in H.
  destruct H as [H1 H2]. rewrite (IH H2), app_nil_r. destruct o as [l|c f]; simpl in *; [|discriminate].
  destruct (lmk l); [reflexivity|discriminate].
Qed.

Lemma rescope_moment_nomeas kK kM path b m :
  forallb leaf_nomeas m = true -> forallb leaf_nomeas (map (t_rescope kK kM path b) m) = true.
Proof.
  induction m as [|o m IH]; simpl; [reflexivity|]. intro H. apply andb_true_iff in H. destruct H as [H1 H2].
  rewrite (IH H2), andb_true_r. destruct o as [l|c f]; simpl in *; [|discriminate].
  destruct (lmk l); [reflexivity|discriminate].
Qed.

Lemma circ_rescope_nomeas kK kM path : forall c b, flat_nomeas c = true ->
  circ_rescope kK kM path b c = map (map (t_rescope kK kM path b)) c.
Proof.
  induction c as [|m c IH]; intros b H; cbn [circ_rescope map]; [reflexivity|].
  unfold flat_nomeas in H. cbn [forallb] in H. apply andb_true_iff in H. destruct H as [H1 H2].
  rewrite (moment_mkeys_nomeas _ (rescope_moment_nomeas kK kM path b m H1)), app_nil_r, (IH b H2). reflexivity.
Qed.

Lemma add_ctl_nomeas cs c : flat_nomeas c = true -> flat_nomeas (circ_add_ctl cs c) = true.
Proof.
  unfold flat_nomeas, circ_add_ctl. induction c as [|m c IH]; simpl; [reflexivity|]. intro H.
  apply andb_true_iff in H. destruct H as [H1 H2]. rewrite (IH H2), andb_true_r. clear IH H2.
  induction m as [|o m IHm]; simpl in *; [reflexivity|]. apply andb_true_iff in H1. destruct H1 as [Ho Hm].
  rewrite (IHm Hm), andb_true_r. destruct o as [l|c' f]; simpl in *; [exact Ho | discriminate].
Qed.

(* ---- what the three remappings do to the flat form of a controlled sub-circuit: every operation carries the
   remapped conditions of the control in front of its own remapped conditions ---- *)
Lemma rescope_add_ctl kK kM path b cs o :
  t_rescope kK kM path b (op_add_ctl cs o) = op_add_ctl (map (cond_rescope kK kM path b) cs) (t_rescope kK kM path b o).
Proof. destruct o as [l|c f]; simpl; [rewrite map_app|]; reflexivity. Qed.

Theorem ctl_flat_rescope kK kM path b cs ms : flat_nomeas ms = true ->
  circ_rescope kK kM path b (circ_add_ctl cs ms)
  = circ_add_ctl (map (cond_rescope kK kM path b) cs) (circ_rescope kK kM path b ms).
Proof.
  intro H. rewrite (circ_rescope_nomeas _ _ _ _ _ (add_ctl_nomeas cs ms H)), (circ_rescope_nomeas _ _ _ _ _ H).
  unfold circ_add_ctl. rewrite !map_map. apply map_ext. intro m. rewrite !map_map. apply map_ext. intro o.
  apply rescope_add_ctl.
Qed.

Theorem ctl_flat_kmap kK kM m cs ms :
  map (map (t_kmap kK kM m)) (circ_add_ctl cs ms)
  = circ_add_ctl (map (cond_key_map kK kM m) cs) (map (map (t_kmap kK kM m)) ms).
Proof.
  unfold circ_add_ctl. rewrite !map_map. apply map_ext. intro mo. rewrite !map_map. apply map_ext. intro o.
  destruct o as [l|c f]; simpl; [rewrite map_app|]; reflexivity.
Qed.

Theorem ctl_flat_prefix kK kM p cs ms :
  map (map (t_prefix kK kM p)) (circ_add_ctl cs ms)
  = circ_add_ctl (map (cond_prefix kK kM p) cs) (map (map (t_prefix kK kM p)) ms).
Proof.
  unfold circ_add_ctl. rewrite !map_map. apply map_ext. intro mo. rewrite !map_map. apply map_ext. intro o.
  destruct o as [l|c f]; simpl; [rewrite map_app|]; reflexivity.
Qed.

(* the keys an operation of the flat form reads: those of the control and its own *)
Theorem ctl_leaf_ckeys cs l : conds_keys (lcs (leaf_add_ctl cs l)) = conds_keys cs ++ conds_keys (lcs l).
Proof. unfold conds_keys. simpl. rewrite map_app, concat_app. reflexivity. Qed.

(* ---- a control key written at user level, looked up from inside a CircuitOperation that was rescoped by its
   enclosing scope, finds exactly the binding the enclosing scope gives it ---- *)
Lemma key_in_filter (P : mkey -> bool) k b : key_in k (filter P b) = key_in k b && P k.
Proof.
  destruct (key_in k (filter P b)) eqn:E.
  - apply key_in_In in E. apply filter_In in E. destruct E as [E1 E2]. apply (proj2 (key_in_In _ _)) in E1.
    rewrite E1, E2. reflexivity.
  - destruct (key_in k b) eqn:E1; destruct (P k) eqn:E2; simpl; try reflexivity. exfalso.
    apply key_in_In in E1. assert (H : In k (filter P b)) by (apply filter_In; auto).
    apply (proj2 (key_in_In _ _)) in H. congruence.
Qed.

Definition short_keys (n : nat) (b : list mkey) : list mkey :=
  filter (fun k => Nat.leb (List.length (kpath k)) n) b.

Lemma rescope_try_short : forall i path pp b k, kpath k = [] -> (i <= List.length path)%nat ->
  rescope_try i (path ++ pp) (short_keys (List.length path) b) k = rescope_try i path b k.
Proof.
  induction i as [|i IH]; intros path pp b k Hk Hi; cbn [rescope_try].
  - change (firstn 0 (path ++ pp)) with (@nil string). change (firstn 0 path) with (@nil string).
    unfold short_keys. rewrite key_in_filter. simpl. rewrite Hk. simpl. rewrite andb_true_r. reflexivity.
  - assert (E : firstn (S i) (path ++ pp) = firstn (S i) path).
    { rewrite firstn_app. replace (S i - List.length path)%nat with O by lia. simpl (firstn 0 pp). apply app_nil_r. }
    rewrite E. unfold short_keys at 1. rewrite key_in_filter.
    assert (P : Nat.leb (List.length (kpath (key_prefix (firstn (S i) path) k))) (List.length path) = true).
    { unfold key_prefix. cbn [kpath]. rewrite Hk, app_nil_r. apply Nat.leb_le. rewrite firstn_length. lia. }
    rewrite P, andb_true_r. rewrite (IH path pp b k Hk) by lia. reflexivity.
Qed.

Lemma rescope_try_long : forall j path pp b k, kpath k = [] -> (j <= List.length pp)%nat ->
  rescope_try (List.length path + j) (path ++ pp) (short_keys (List.length path) b) k
  = rescope_try (List.length path) (path ++ pp) (short_keys (List.length path) b) k.
Proof.
  induction j as [|j IH]; intros path pp b k Hk Hj.
  - rewrite Nat.add_0_r. reflexivity.
  - replace (List.length path + S j)%nat with (S (List.length path + j)) by lia. cbn [rescope_try].
    unfold short_keys at 1. rewrite key_in_filter.
    assert (P : Nat.leb (List.length (kpath (key_prefix (firstn (S (List.length path + j)) (path ++ pp)) k)))
                        (List.length path) = false).
    { unfold key_prefix. cbn [kpath]. rewrite Hk, app_nil_r. apply Nat.leb_gt. rewrite firstn_length, app_length. lia. }
    rewrite P, andb_false_r. apply IH; [exact Hk | lia].
Qed.

Lemma rescope_key_sub path pp b k : kpath k = [] ->
  rescope_key (path ++ pp) (short_keys (List.length path) b) k = rescope_key path b k.
Proof.
  intro Hk. unfold rescope_key. rewrite app_length, (rescope_try_long (List.length pp) path pp b k Hk) by lia.
  apply rescope_try_short; [exact Hk | lia].
Qed.

Lemma user_level_slots c : cond_user_level c = forallb (fun k => isnil (kpath k)) (cond_slots c).
Proof. reflexivity. Qed.

Lemma isnil_eq {A} (l : list A) : isnil l = true -> l = [].
Proof. destruct l; [reflexivity | discriminate]. Qed.

Lemma cond_rescope_sub kK kM path pp b c : cond_user_level c = true ->
  cond_rescope kK kM (path ++ pp) (short_keys (List.length path) b ++ []) c = cond_rescope kK kM path b c.
Proof.
  rewrite app_nil_r. destruct c as [k i|k i t e m|e s]; unfold cond_user_level; cbn [forallb cond_rescope]; intro H.
  - rewrite andb_true_r in H. rewrite (rescope_key_sub path pp b k (isnil_eq _ H)). reflexivity.
  - rewrite andb_true_r in H. rewrite (rescope_key_sub path pp b k (isnil_eq _ H)). reflexivity.
  - f_equal. apply map_ext_in. intros k Hk. rewrite forallb_forall in H.
    rewrite (rescope_key_sub path pp b k (isnil_eq _ (H k Hk))). reflexivity.
Qed.

Lemma rescope_try_nil : forall i path k, rescope_try i path [] k = None.
Proof. induction i as [|i IH]; intros; cbn [rescope_try key_in existsb]; [reflexivity | apply IH]. Qed.
Lemma cond_rescope_nil kK kM path c : cond_rescope kK kM path [] c = c.
Proof.
  destruct c as [k i|k i t e m|e s]; simpl; unfold rescope_key; try rewrite rescope_try_nil; try reflexivity.
  f_equal. rewrite <- (map_id s) at 2. apply map_ext. intro k. rewrite rescope_try_nil. reflexivity.
Qed.

(* ---- operations that can sit in the body of a controlled sub-circuit written at user level ---- *)
Definition Gd (o : op) : Prop := leaf_nomeas o = true /\ op_user_level o = true.

Lemma allops_forallb (p : op -> bool) c : forallb (forallb p) c = true <-> AllOps (fun o => p o = true) c.
Proof.
  unfold AllOps. rewrite forallb_forall. split.
  - intros H m o Hm Ho. specialize (H m Hm). rewrite forallb_forall in H. apply H. exact Ho.
  - intros H m Hm. apply forallb_forall. intros o Ho. apply (H m o Hm Ho).
Qed.

Lemma gd_split c : AllOps Gd c <-> flat_nomeas c = true /\ circ_user_level c = true.
Proof.
  unfold flat_nomeas, circ_user_level. rewrite !allops_forallb. unfold AllOps, Gd. split.
  - intro H. split; intros m o Hm Ho; apply (H m o Hm Ho).
  - intros [H1 H2] m o Hm Ho. split; [apply (H1 m o Hm Ho) | apply (H2 m o Hm Ho)].
Qed.

Lemma map_map_ext_in (P : op -> Prop) (F G : op -> op) c :
  AllOps P c -> (forall o, P o -> F o = G o) -> map (map F) c = map (map G) c.
Proof.
  intros H E. apply map_ext_in. intros m Hm. apply map_ext_in. intros o Ho. apply E. apply (H m o Hm Ho).
Qed.
Lemma map_map_id_in (P : op -> Prop) (F : op -> op) c : AllOps P c -> (forall o, P o -> F o = o) -> map (map F) c = c.
Proof.
  intros H E. rewrite <- (map_id c) at 2. apply map_ext_in. intros m Hm. rewrite <- (map_id m) at 2.
  apply map_ext_in. intros o Ho. apply E. apply (H m o Hm Ho).
Qed.

Lemma gd_qmap g o : Gd o -> Gd (t_qmap g o).
Proof. destruct o as [l|c f]; unfold Gd; simpl; auto. Qed.
Lemma gd_resolve pm o : Gd o -> Gd (t_resolve pm o).
Proof. destruct o as [l|c f]; unfold Gd; simpl; auto. Qed.
Lemma user_level_key_map kK kM m c : cond_user_level c = true -> cond_user_level (cond_key_map kK kM m c) = true.
Proof.
  rewrite !user_level_slots. unfold cond_key_map. rewrite cond_apply_keys. rewrite !forallb_forall.
  intros H k Hk. apply in_map_iff in Hk. destruct Hk as [k0 [<- Hk0]]. simpl. apply (H k0 Hk0).
Qed.
Lemma gd_kmap kK kM m o : Gd o -> Gd (t_kmap kK kM m o).
Proof.
  destruct o as [l|c f]; unfold Gd; simpl; [|auto]. intros [H1 H2]. split.
  - destruct (lmk l); [reflexivity | discriminate].
  - rewrite forallb_forall in *. intros c Hc. apply in_map_iff in Hc. destruct Hc as [c0 [<- Hc0]].
    apply user_level_key_map. apply (H2 c0 Hc0).
Qed.

Lemma any_loop_scope kK kM c f p e : any_loop kK kM c (set_scope f p e) = any_loop kK kM c f.
Proof. reflexivity. Qed.

Lemma any_loop_gd kK kM c f a : any_loop kK kM c f = Ok a -> rep_negative (reps f) = false -> AllOps Gd c -> AllOps Gd a.
Proof.
  unfold any_loop. intros H Hn Hc. rewrite Hn in H. simpl in H.
  set (c1 := if isnil (qm f) then c else map (map (t_qmap (zlookup (qm f)))) c) in *.
  assert (H1 : AllOps Gd c1). { unfold c1. destruct (isnil (qm f)); [exact Hc | apply allops_map; [apply gd_qmap | exact Hc]]. }
  set (c3 := if isnil (km f) then c1 else map (moment_kmap kK kM (km f)) c1) in *.
  assert (H3 : AllOps Gd c3).
  { unfold c3. destruct (isnil (km f)); [exact H1|]. unfold moment_kmap. apply allops_map; [|exact H1].
    intros o Ho. destruct (isnil (op_names o)); [exact Ho | apply gd_kmap; exact Ho]. }
  inversion H; subst a. destruct (isnil (pm f)); [exact H3 | apply allops_map; [apply gd_resolve | exact H3]].
Qed.

Lemma rescope_gd_nil kK kM pp o : Gd o -> t_rescope kK kM pp [] o = o.
Proof.
  destruct o as [l|c f]; unfold Gd; simpl; intros [H1 H2]; [|discriminate].
  destruct l as [u s q mk cs ps]. simpl in *. apply isnil_eq in H1. subst mk. simpl. f_equal. f_equal.
  rewrite <- (map_id cs) at 2. apply map_ext. intro c. apply cond_rescope_nil.
Qed.

Lemma rescope_gd_sub kK kM path pp b o : Gd o ->
  t_rescope kK kM (path ++ pp) (short_keys (List.length path) b ++ []) o = t_rescope kK kM path b o.
Proof.
  destruct o as [l|c f]; unfold Gd; simpl; intros [H1 H2]; [|discriminate].
  apply isnil_eq in H1. rewrite H1. simpl. f_equal. f_equal. apply map_ext_in. intros c Hc.
  rewrite forallb_forall in H2. apply cond_rescope_sub. apply (H2 c Hc).
Qed.

(* one pass of a measurement-free user-level body: the loop itself changes no key, the loop of the rescoped
   operation is the rescoped loop *)
Lemma single_loop_gd kK kM c f a : any_loop kK kM c f = Ok a -> AllOps Gd a -> ext f = [] ->
  single_loop kK kM c f None = Ok a.
Proof.
  intros Ha Hg He. unfold single_loop. rewrite Ha, He. simpl. f_equal.
  rewrite (circ_rescope_nomeas _ _ _ _ _ (proj1 (proj1 (gd_split a) Hg))).
  apply (map_map_id_in Gd); [exact Hg | apply rescope_gd_nil].
Qed.

Lemma single_loop_gd_rescoped kK kM c f a path b : any_loop kK kM c f = Ok a -> AllOps Gd a -> ext f = [] ->
  single_loop kK kM c (set_scope f (path ++ ppath f)
                         (filter (fun k => Nat.leb (List.length (kpath k)) (List.length path)) b
                          ++ map (key_prefix path) (ext f))) None
  = Ok (map (map (t_rescope kK kM path b)) a).
Proof.
  intros Ha Hg He. unfold single_loop. rewrite any_loop_scope, Ha, He. simpl. f_equal.
  rewrite (circ_rescope_nomeas _ _ _ _ _ (proj1 (proj1 (gd_split a) Hg))).
  apply (map_map_ext_in Gd); [exact Hg | apply rescope_gd_sub].
Qed.

(* ---- the deep recursion on a body of leaves: moments stay as they are, empty ones disappear ---- *)
Definition drop_empty (m : list op) : circ := match m with [] => [] | _ => [m] end.
Definition squash (c : circ) : circ := List.concat (map drop_empty c).
Definition IsLeaf (o : op) : Prop := match o with OLeaf _ => True | OSub _ _ => False end.

Lemma zip_singletons m : zip_all (map (fun o => [[o]]) m) = drop_empty m.
Proof.
  induction m as [|o m IH]; [reflexivity|]. cbn [map zip_all fold_right]. fold (zip_all (map (fun o => [[o]]) m)).
  rewrite IH. destruct m as [|o' m']; reflexivity.
Qed.

Lemma unroll_leaves kK kM n m : (forall o, In o m -> IsLeaf o) ->
  mapM (fun o => match o with OLeaf _ => Ok [[o]] | OSub c' f' => mapped_circuit kK kM n true c' f' end) m
  = Ok (map (fun o => [[o]]) m).
Proof.
  induction m as [|o m IH]; intro H; [reflexivity|]. cbn [mapM map].
  assert (Ho : IsLeaf o) by (apply H; left; reflexivity). destruct o as [l|c f]; [|destruct Ho].
  rewrite IH by (intros o' Ho'; apply H; right; exact Ho'). reflexivity.
Qed.

Lemma deep_leaves kK kM n body : AllOps IsLeaf body ->
  (do ms <- mapM (fun m => do cs <- mapM (fun o => match o with
                                                    | OLeaf _ => Ok [[o]]
                                                    | OSub c' f' => mapped_circuit kK kM n true c' f'
                                                    end) m;
                           Ok (zip_all cs)) body;
   Ok (List.concat ms)) = Ok (squash body).
Proof.
  intro H. unfold squash.
  assert (E : mapM (fun m => do cs <- mapM (fun o => match o with
                                                      | OLeaf _ => Ok [[o]]
                                                      | OSub c' f' => mapped_circuit kK kM n true c' f'
                                                      end) m;
                             Ok (zip_all cs)) body = Ok (map drop_empty body)).
  { induction body as [|m body IH]; [reflexivity|]. cbn [mapM map].
    rewrite (unroll_leaves kK kM n m) by (intros o Ho; apply (H m o); [left; reflexivity | exact Ho]).
    simpl bind. rewrite zip_singletons. rewrite IH by (intros m' o Hm Ho; apply (H m' o); [right; exact Hm | exact Ho]).
    reflexivity. }
  rewrite E. reflexivity.
Qed.

Lemma not_meas_of_flat c : flat_nomeas c = true -> circ_is_meas c = false.
Proof.
  unfold flat_nomeas, circ_is_meas. induction c as [|m c IH]; simpl; [reflexivity|]. intro H.
  apply andb_true_iff in H. destruct H as [H1 H2]. rewrite (IH H2), orb_false_r. clear IH H2.
  induction m as [|o m IHm]; simpl in *; [reflexivity|]. apply andb_true_iff in H1. destruct H1 as [Ho Hm].
  rewrite (IHm Hm), orb_false_r. destruct o as [l|c' f]; simpl in *; [|discriminate]. destruct (lmk l); [reflexivity|discriminate].
Qed.

(* mapped_circuit(deep=True) of a measurement-free operation whose single loop consists of leaves *)
Lemma mapped_flat kK kM n c f r s : until f = None -> reps f = RInt r -> r <> 0 -> circ_is_meas c = false ->
  single_loop kK kM c f None = Ok s -> AllOps IsLeaf s ->
  mapped_circuit kK kM (S n) true c f = Ok (squash (repeat_app (Z.abs_nat r) s)).
Proof.
  intros Hu Hr Hnz Hm Hs Hl. cbn [mapped_circuit]. rewrite Hu, Hr.
  destruct (r =? 0) eqn:E0; [apply Z.eqb_eq in E0; contradiction|].
  assert (B : (match ids f with
               | Some l => if use_ids f && circ_is_meas c
                           then do ls <- mapM (fun id => single_loop kK kM c f (Some id)) l; Ok (List.concat ls)
                           else do s <- single_loop kK kM c f None; Ok (repeat_app (Z.abs_nat r) s)
               | None => do s <- single_loop kK kM c f None; Ok (repeat_app (Z.abs_nat r) s)
               end) = Ok (repeat_app (Z.abs_nat r) s)).
  { rewrite Hm, andb_false_r, Hs. destruct (ids f); reflexivity. }
  rewrite B. cbn [bind]. apply deep_leaves. apply allops_repeat. exact Hl.
Qed.

Lemma gd_leaf o : Gd o -> IsLeaf o.
Proof. destruct o; unfold Gd; simpl; [auto | intros [H _]; discriminate]. Qed.
Lemma allops_weaken (P Q : op -> Prop) c : (forall o, P o -> Q o) -> AllOps P c -> AllOps Q c.
Proof. intros H Hc m o Hm Ho. apply H. apply (Hc m o Hm Ho). Qed.
Lemma allops_squash (P : op -> Prop) c : AllOps P c -> AllOps P (squash c).
Proof.
  intros H m o Hm Ho. unfold squash in Hm. apply in_concat in Hm. destruct Hm as [x [Hx Hmx]].
  apply in_map_iff in Hx. destruct Hx as [m0 [<- Hm0]]. destruct m0 as [|o0 m0]; [destruct Hmx|].
  destruct Hmx as [<-|[]]. apply (H _ o Hm0 Ho).
Qed.
Lemma squash_map F c : squash (map (map F) c) = map (map F) (squash c).
Proof.
  unfold squash. rewrite concat_map, !map_map. f_equal. apply map_ext. intro m. destruct m; reflexivity.
Qed.
Lemma repeat_app_map {A B} (F : A -> B) n (l : list A) : repeat_app n (map F l) = map F (repeat_app n l).
Proof. induction n as [|n IH]; simpl; [reflexivity|]. rewrite IH, map_app. reflexivity. Qed.

(* ---- rescoping reaches the conditions inside a controlled sub-circuit: transforming the control and the operation
   it controls piecewise (what ClassicallyControlledOperation._with_rescoped_keys_ has to do) and then unrolling gives
   the rescoped flat form, in which every condition of the body reads the key the enclosing scope binds it to.
   Stated for a body of gates that measure nothing, conditions written at user level (keys without path), any
   qubit / key / parameter maps, parent path and repetition ids, a positive repetition count. ---- *)
Theorem ctl_rescope_then_unroll kK kM n path b cs c f r ms :
  flat_nomeas c = true -> circ_user_level c = true -> ext f = [] -> until f = None -> reps f = RInt r -> 0 < r ->
  ctl_flat kK kM (S n) (cs, OSub c f) = Ok ms ->
  ctl_flat kK kM (S n) (ctl_rescope kK kM path b (cs, OSub c f)) = Ok (circ_rescope kK kM path b ms).
Proof.
  intros Hf Hu He Hun Hr Hpos H.
  assert (Hg : AllOps Gd c) by (apply gd_split; auto).
  pose proof (not_meas_of_flat c Hf) as Hm.
  assert (Hneg : rep_negative (reps f) = false) by (rewrite Hr; simpl; apply Z.ltb_ge; lia).
  unfold ctl_flat in H. cbn [snd fst] in H. rewrite Hm in H.
  destruct (any_loop kK kM c f) as [a| |] eqn:Ea.
  2:{ exfalso. cbn [mapped_circuit] in H. rewrite Hun, Hr in H. destruct (r =? 0) eqn:E0; [apply Z.eqb_eq in E0; lia|].
      unfold single_loop in H. rewrite Ea in H. rewrite Hm, andb_false_r in H. destruct (ids f); simpl in H; discriminate. }
  2:{ exfalso. cbn [mapped_circuit] in H. rewrite Hun, Hr in H. destruct (r =? 0) eqn:E0; [apply Z.eqb_eq in E0; lia|].
      unfold single_loop in H. rewrite Ea in H. rewrite Hm, andb_false_r in H. destruct (ids f); simpl in H; discriminate. }
  pose proof (any_loop_gd _ _ _ _ _ Ea Hneg Hg) as Hga.
  assert (Hla : AllOps IsLeaf a) by (apply (allops_weaken Gd); [apply gd_leaf | exact Hga]).
  rewrite (mapped_flat kK kM n c f r a Hun Hr ltac:(lia) Hm (single_loop_gd _ _ _ _ _ Ea Hga He) Hla) in H.
  cbn [bind] in H. inversion H; subst ms. clear H.
  unfold ctl_flat, ctl_rescope. cbn [snd fst t_rescope]. rewrite Hm.
  set (T := t_rescope kK kM path b).
  assert (Hla' : AllOps IsLeaf (map (map T) a)).
  { apply allops_map; [|exact Hla]. intros o Ho. destruct o; [exact I | destruct Ho]. }
  rewrite (mapped_flat kK kM n c _ r (map (map T) a)); try assumption; try lia.
  2:{ apply single_loop_gd_rescoped; assumption. }
  cbn [bind]. f_equal.
  assert (Hsq : flat_nomeas (squash (repeat_app (Z.abs_nat r) a)) = true).
  { apply (proj1 (gd_split _)). apply allops_squash. apply allops_repeat. exact Hga. }
  rewrite (ctl_flat_rescope _ _ _ _ _ _ Hsq), (circ_rescope_nomeas _ _ _ _ _ Hsq).
  fold T. rewrite repeat_app_map, squash_map. reflexivity.
Qed.

(* hypotheses satisfiable, and the theorem at work: the body of the seeded class (a gate conditioned on m inside a
   sub-circuit controlled by c), rescoped by repetition id 0 of an enclosing loop that has measured 0:m *)
Definition ctl_witness_body : circ := [[OLeaf (Leaf 5 false [1] [] [CKey (MK [] "m") (-1)] [])]].
Definition ctl_witness_fields : subf := SubF (RInt 1) None false [] [] [] [] [] None.
Definition ctl_witness : ctlop := ([CKey (MK [] "c") (-1)], OSub ctl_witness_body ctl_witness_fields).

Example ctl_rescope_then_unroll_sat :
  flat_nomeas ctl_witness_body = true /\ circ_user_level ctl_witness_body = true /\ ext ctl_witness_fields = [] /\
  until ctl_witness_fields = None /\ reps ctl_witness_fields = RInt 1 /\
  ctl_flat true true 2 ctl_witness
  = Ok [[OLeaf (Leaf 5 false [1] [] [CKey (MK [] "c") (-1); CKey (MK [] "m") (-1)] [])]] /\
  ctl_flat true true 2 (ctl_rescope true true ["0"%string] [MK ["0"%string] "m"; MK [] "c"] ctl_witness)
  = Ok [[OLeaf (Leaf 5 false [1] [] [CKey (MK [] "c") (-1); CKey (MK ["0"%string] "m") (-1)] [])]].
Proof. repeat split. Qed.

(* rescoping that stops at the conditions of the control is refuted by the same witness: the gate inside keeps reading
   the bare key m instead of the measurement 0:m of its own iteration *)
Theorem ctl_rescope_conds_only_refuted : forall kK kM,
  ctl_flat kK kM 2 (ctl_rescope_conds_only kK kM ["0"%string] [MK ["0"%string] "m"; MK [] "c"] ctl_witness)
  = Ok [[OLeaf (Leaf 5 false [1] [] [CKey (MK [] "c") (-1); CKey (MK [] "m") (-1)] [])]] /\
  (do ms <- ctl_flat kK kM 2 ctl_witness; Ok (circ_rescope kK kM ["0"%string] [MK ["0"%string] "m"; MK [] "c"] ms))
  <> ctl_flat kK kM 2 (ctl_rescope_conds_only kK kM ["0"%string] [MK ["0"%string] "m"; MK [] "c"] ctl_witness).
Proof. intros kK kM. split; [destruct kK, kM; reflexivity | destruct kK, kM; vm_compute; discriminate]. Qed.
